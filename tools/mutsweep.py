#!/usr/bin/env python3
"""Single-point mutation sweep (development-time measurement of the checks; not part of any registered check).

  tools/mutsweep.py <n-mutants> <seed> [workers]

Works in scratch sandboxes only: /tmp/mutsweep/w<k>/{repo (git worktree of /repo HEAD), verif (copy of /verif with the
harness pointed at that worktree)}. Never touches /repo's working tree or /verif's build directories.
For every sampled mutant (one token of one non-test source line changed): (1) the crate must still compile and its own
test suite must still pass (otherwise the mutant is not interesting: `killed-by-tests` / `no-compile`); (2) the checks of
the properties anchored in that file are run (quick tier); the first VIOLATION ends it (`detected`, with / without a
failing input); if all stay quiet the mutant `survived` (equivalent mutant, or a gap of the generators/oracles: triage).
Results: /tmp/mutsweep/results.jsonl and a summary on stdout.
"""
import sys, os, re, json, random, subprocess, shutil, concurrent.futures as cf

N = int(sys.argv[1]); SEED = int(sys.argv[2]); WORKERS = int(sys.argv[3]) if len(sys.argv) > 3 else 4
BASE = "/tmp/mutsweep"
FILES = {
    "src/annexb.rs": ["C01", "C18", "C12"], "src/rbsp.rs": ["C02", "C07", "C14", "C17", "C12"], "src/push/mod.rs": ["C08", "C12"],
    "src/avcc.rs": ["C09", "C03"], "src/nal/mod.rs": ["C15", "C20"], "src/nal/sps.rs": ["C04", "C13", "C16", "C20"],
    "src/nal/pps.rs": ["C05", "C16", "C03"], "src/nal/slice/mod.rs": ["C06", "C16", "C03"], "src/nal/sei/mod.rs": ["C10", "C17"],
    "src/nal/sei/pic_timing.rs": ["C11"], "src/nal/sei/buffering_period.rs": ["C11"], "src/nal/sei/user_data_registered_itu_t_t35.rs": ["C11"],
    "src/lib.rs": ["C19", "C16"],
}
OPS = [
    (r"<=", ["<"]), (r">=", [">"]), (r"(?<![<>=!-])<(?![<=])", ["<="]), (r"(?<![<>=!-])>(?![>=])", [">="]),
    (r"==", ["!="]), (r"!=", ["=="]), (r"&&", ["||"]), (r"\|\|", ["&&"]),
    (r"\btrue\b", ["false"]), (r"\bfalse\b", ["true"]),
    (r"\+ 1\b", ["+ 2", "+ 0"]), (r"- 1\b", ["- 2", "- 0"]), (r" \+ ", [" - "]), (r" - ", [" + "]),
    (r"\b(\d+)\b", ["+1", "-1"]),
]


def sh(cmd, cwd=None, timeout=None, env=None):
    return subprocess.run(cmd, shell=True, cwd=cwd, capture_output=True, text=True, timeout=timeout, env=env)


def code_lines(path):
    """(index, line) of non-test, non-comment code lines"""
    lines = open(path).read().split("\n")
    out = []
    for i, ln in enumerate(lines):
        if re.match(r"\s*#\[cfg\(test\)\]", ln):
            break
        t = ln.strip()
        if path.endswith("nal/sps.rs") and (930 <= i + 1 <= 962 or 1228 <= i + 1 <= 1462):
            continue      # commented-out helper and the unused LEVEL_LIMITS table (dead code: every mutant there survives)
        if "with_capacity" in t:
            continue      # capacity hints are not observable (the counting allocator bounds them separately)
        if not t or t.startswith("//") or t.startswith("#[") or t.startswith("use ") or "debug_assert" in t or "error!(" in t or "trace!(" in t or "debug!(" in t or "warn!(" in t:
            continue
        out.append((i, ln))
    return lines, out


def mutants_of(repo):
    ms = []
    for f in FILES:
        lines, code = code_lines(f"{repo}/{f}")
        for i, ln in code:
            body = re.sub(r'"(?:[^"\\]|\\.)*"', lambda m: " " * len(m.group(0)), ln)   # never inside string literals
            body = body.split("//")[0]
            for pat, reps in OPS:
                for m in re.finditer(pat, body):
                    for rep in reps:
                        if rep in ("+1", "-1"):
                            v = int(m.group(1))
                            if v > 70000 or (rep == "-1" and v == 0):
                                continue
                            new = str(v + 1 if rep == "+1" else v - 1)
                        else:
                            new = rep
                        ms.append({"file": f, "line": i + 1, "col": m.start(), "old": m.group(0), "new": new, "text": ln.strip()[:140]})
            # statement deletion: a whole `…;` line that is not a declaration / return / control-flow line
            t = ln.strip()
            if os.environ.get("MUT_DELETE") and t.endswith(";") and not re.match(r"(let|return|use|pub|fn|const|static|type|break|continue|\}|\)|\]|//)", t) and "?" not in t.split("=")[0] and t.count("(") == t.count(")"):
                ms.append({"file": f, "line": i + 1, "col": len(ln) - len(ln.lstrip()), "old": t, "new": "", "text": "DELETE " + t[:120]})
    return ms


def setup_worker(k):
    w = f"{BASE}/w{k}"
    if os.path.isdir(f"{w}/repo"):
        sh(f"git -C /repo worktree remove --force {w}/repo")
    shutil.rmtree(w, ignore_errors=True)
    os.makedirs(w)
    sh(f"git -C /repo worktree add -q --detach {w}/repo HEAD")
    sh(f"rsync -a --exclude .git --exclude work --exclude replays /verif/ {w}/verif/")
    ct = open(f"{w}/verif/harness/Cargo.toml").read().replace('path = "/repo"', f'path = "{w}/repo"')
    open(f"{w}/verif/harness/Cargo.toml", "w").write(ct)
    ck = open(f"{w}/verif/check").read().replace('cwd="/repo"', f'cwd="{w}/repo"')
    open(f"{w}/verif/check", "w").write(ck)
    return w


def run_mutant(k, m):
    w = f"{BASE}/w{k}"; repo = f"{w}/repo"
    env = dict(os.environ, CARGO_NET_OFFLINE="true", H264_REPO=repo, VERIF_EVIDENCE_DIR=f"{w}/evidence", VERIF_TOOL_TIMEOUT=os.environ.get("VERIF_TOOL_TIMEOUT", "240"))
    tenv = dict(env, CARGO_TARGET_DIR=f"{w}/target")      # (only for the crate's own test suite; the harness has its own target dir)
    sh("git checkout -q -- .", cwd=repo)
    p = f"{repo}/{m['file']}"
    lines = open(p).read().split("\n")
    ln = lines[m["line"] - 1]
    lines[m["line"] - 1] = ln[:m["col"]] + m["new"] + ln[m["col"] + len(m["old"]):]
    open(p, "w").write("\n".join(lines))
    res = dict(m)
    try:
        r = sh("cargo test --offline 2>&1 | grep -E '^test result|^error' | head -5", cwd=repo, timeout=240, env=tenv)
        out = r.stdout
        if "error" in out and "test result" not in out:
            res["verdict"] = "no-compile"
        elif "FAILED" in out or "failed" in re.sub(r"0 failed", "", out):
            res["verdict"] = "killed-by-tests"
        elif "test result: ok" not in out:
            res["verdict"] = "no-compile"
        else:
            res["verdict"] = "survived"
            for prop in FILES[m["file"]]:
                c = sh(f"./check {prop} --tier quick", cwd=f"{w}/verif", timeout=1800, env=env)
                v = re.findall(r"^VIOLATION.*$", c.stdout, flags=re.M)
                if v:
                    res["verdict"] = "detected" if any("no-failing-input-found" not in x for x in v) else "detected-no-input"
                    res["by"] = prop
                    break
                if c.returncode not in (0, 1):
                    res["verdict"] = "check-error"; res["by"] = prop; res["note"] = (c.stdout + c.stderr)[-300:]
                    break
    except subprocess.TimeoutExpired:
        res["verdict"] = "timeout"
    sh("git checkout -q -- .", cwd=repo)
    open(f"{BASE}/results.jsonl", "a").write(json.dumps(res) + "\n")
    return res


def main():
    os.makedirs(BASE, exist_ok=True)
    if os.environ.get("MUT_RERUN"):
        # re-run the mutants of an earlier results file that ended with the given verdict (after a fix to the machinery)
        want = os.environ["MUT_RERUN"]
        pick = [json.loads(l) for l in open(f"{BASE}/results.jsonl") if json.loads(l)["verdict"] == want]
        for m in pick:
            for k in ("verdict", "by", "note"):
                m.pop(k, None)
        os.rename(f"{BASE}/results.jsonl", f"{BASE}/results-before-rerun.jsonl")
        run_all(pick)
        return
    ms = mutants_of("/repo")
    if os.environ.get("MUT_ONLY_DELETE"):
        ms = [m for m in ms if m["text"].startswith("DELETE")]
    rnd = random.Random(SEED)
    # stratified by file: equal share per file, then fill up
    byf = {}
    for m in ms:
        byf.setdefault(m["file"], []).append(m)
    pick = []
    share = max(1, N // len(byf))
    for f, l in byf.items():
        rnd.shuffle(l); pick += l[:share]
    rest = [m for f, l in byf.items() for m in l[share:]]
    rnd.shuffle(rest); pick += rest[:max(0, N - len(pick))]
    pick = pick[:N]
    print(f"{len(ms)} candidate mutants; running {len(pick)} on {WORKERS} workers", flush=True)
    run_all(pick)


def run_all(pick):
    for k in range(WORKERS):
        setup_worker(k)
    import queue
    q = queue.Queue()
    for m in pick:
        q.put(m)

    def worker(k):
        while True:
            try:
                m = q.get_nowait()
            except queue.Empty:
                return
            r = run_mutant(k, m)
            print(f"[w{k}] {r['verdict']:16} {r.get('by', ''):4} {m['file']}:{m['line']} {m['old']} -> {m['new']} | {m['text'][:90]}", flush=True)
    with cf.ThreadPoolExecutor(max_workers=WORKERS) as ex:
        list(ex.map(worker, range(WORKERS)))
    for k in range(WORKERS):
        sh(f"git -C /repo worktree remove --force {BASE}/w{k}/repo")
        shutil.rmtree(f"{BASE}/w{k}", ignore_errors=True)


main()
