#!/usr/bin/env python3
"""Run checks against patched copies of /repo in scratch sandboxes, in parallel (development-time; never touches /repo).

  tools/sbx_eval.py <workers> <base-dir> <job> [<job> ...]      job = <patch.diff>:<Cxx>[,<Cyy>…]  ("all" = every property)

Each worker owns <base-dir>/w<k>/{repo (git worktree of /repo HEAD), verif (copy of /verif, harness pointed at that worktree)}.
Prints one line per (patch, property): exit code and the verdict / summary lines of the check.
"""
import sys, os, re, subprocess, shutil, queue, concurrent.futures as cf

WORKERS = int(sys.argv[1]); BASE = sys.argv[2]; JOBS = sys.argv[3:]
ALL = [f"C{i:02d}" for i in range(1, 21)]


def sh(cmd, cwd=None, timeout=None, env=None):
    return subprocess.run(cmd, shell=True, cwd=cwd, capture_output=True, text=True, timeout=timeout, env=env)


def setup_worker(k):
    w = f"{BASE}/w{k}"
    if os.path.isdir(f"{w}/repo"):
        sh(f"git -C /repo worktree remove --force {w}/repo")
    shutil.rmtree(w, ignore_errors=True)
    os.makedirs(w)
    sh(f"git -C /repo worktree add -q --detach {w}/repo HEAD")
    sh(f"rsync -a --exclude .git --exclude work --exclude replays /verif/ {w}/verif/")
    ct = open(f"{w}/verif/harness/Cargo.toml").read().replace('path = "/repo"', f'path = "{w}/repo"')
    open(f"{w}/verif/harness/Cargo.toml", "w").write(ct)
    ck = open(f"{w}/verif/check").read().replace('cwd="/repo"', f'cwd="{w}/repo"')
    open(f"{w}/verif/check", "w").write(ck)


def main():
    os.makedirs(BASE, exist_ok=True)
    q = queue.Queue()
    for j in JOBS:
        patch, props = j.rsplit(":", 1)
        for p in (ALL if props == "all" else props.split(",")):
            q.put((patch, p))
    for k in range(WORKERS):
        setup_worker(k)

    def worker(k):
        w = f"{BASE}/w{k}"; repo = f"{w}/repo"; cur = None
        env = dict(os.environ, CARGO_NET_OFFLINE="true", VERIF_EVIDENCE_DIR=f"{w}/evidence", H264_REPO=repo)
        while True:
            try:
                patch, prop = q.get_nowait()
            except queue.Empty:
                return
            if cur != patch:
                sh("git checkout -q -- . && git clean -fdq -- src", cwd=repo)
                r = sh(f"git apply {patch}", cwd=repo)
                if r.returncode != 0:
                    print(f"{os.path.basename(os.path.dirname(patch))} {prop} PATCH-DOES-NOT-APPLY", flush=True); cur = None; continue
                cur = patch
            c = sh(f"./check {prop} --tier quick", cwd=f"{w}/verif", timeout=3600, env=env)
            lines = re.findall(r"^(?:VIOLATION|KNOWN-FINDING|C\d+ \[).*$", c.stdout, flags=re.M)
            print(f"{os.path.basename(os.path.dirname(patch))} {prop} exit={c.returncode} " + " || ".join(l[:170] for l in lines[:3]) + ("" if lines else (c.stdout + c.stderr)[-200:].replace("\n", " / ")), flush=True)
    with cf.ThreadPoolExecutor(max_workers=WORKERS) as ex:
        list(ex.map(worker, range(WORKERS)))
    for k in range(WORKERS):
        sh(f"git -C /repo worktree remove --force {BASE}/w{k}/repo")
        shutil.rmtree(f"{BASE}/w{k}", ignore_errors=True)


main()
