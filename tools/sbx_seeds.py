#!/usr/bin/env python3
"""Re-evaluate every /verif/seeded/<Cxx>-<name>/ in parallel sandboxes (tools/sbx_eval.py) and record the verdicts in meta.json.
usage: tools/sbx_seeds.py <workers> [name-prefix]"""
import os, sys, re, json, subprocess
ROOT = os.path.dirname(os.path.dirname(os.path.abspath(__file__)))
workers = sys.argv[1]; pref = sys.argv[2] if len(sys.argv) > 2 else ""
names = sorted(n for n in os.listdir(f"{ROOT}/seeded") if n.startswith(pref) and os.path.isfile(f"{ROOT}/seeded/{n}/patch.diff"))
jobs = [f"{ROOT}/seeded/{n}/patch.diff:{n.split('-', 1)[0]}" for n in names]
r = subprocess.run(["python3", f"{ROOT}/tools/sbx_eval.py", workers, "/tmp/sbx-seeds"] + jobs, capture_output=True, text=True)
open("/tmp/sbx-seeds.log", "w").write(r.stdout + r.stderr)
missed = []; noinput = []
for ln in r.stdout.split("\n"):
    m = re.match(r"(\S+) (C\d+) exit=(\d+) (.*)", ln)
    if not m:
        continue
    name, prop, rc, rest = m.groups()
    viol = re.findall(r"VIOLATION[^|]*", rest)
    summary = re.findall(r"C\d+ \[quick\][^|]*", rest)
    mp = f"{ROOT}/seeded/{name}/meta.json"
    meta = json.load(open(mp)) if os.path.exists(mp) else {}
    meta.update({"detected": bool(viol), "with_failing_input": any("no-failing-input-found" not in v for v in viol),
                 "verdict_lines": [v.strip()[:200] for v in viol[:3]], "check_summary": [s.strip() for s in summary[:1]],
                 "ran": f"tools/sbx_seeds.py (sandboxed copy of /repo with seeded/{name}/patch.diff applied; ./check {prop} --tier quick)"})
    json.dump(meta, open(mp, "w"), indent=1)
    if not viol: missed.append(name)
    elif not meta["with_failing_input"]: noinput.append(name)
print(f"{len(names)} seeds: missed {missed}; without failing input {noinput}")
