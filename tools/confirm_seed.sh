#!/bin/bash
# usage: tools/confirm_seed.sh <worktree> <seed-dir> <prop-id>
# Confirms in a scratch worktree (never /repo): (a) with the patch the existing suite passes, (b) with the patch the
# demonstration fails, (c) without the patch it passes. On success copies the seed to /verif/seeded/<prop>-<name>/.
wt="$1"; sd="$2"; prop="$3"; name=$(basename "$sd")
export CARGO_NET_OFFLINE=true CARGO_TARGET_DIR="$wt/target"
cd "$wt" || exit 2
git checkout -q -- . ; rm -rf tests/seed_demo.rs
git apply "$sd/patch.diff" || { echo "FAIL apply"; exit 1; }
suite=$(cargo test --offline 2>&1 | grep -E "^test result" | tr '\n' ' ')
echo "suite with patch: $suite"
# (a change may add tests of its own: at least the 39 existing unit tests, none failing)
echo "$suite" | grep -Eq "(39|4[0-9]) passed; 0 failed" && ! echo "$suite" | grep -q "FAILED" || { echo "FAIL: suite does not pass with the patch"; git checkout -q -- .; exit 1; }
mkdir -p tests; cp "$sd/demo.rs" tests/seed_demo.rs
with=$(cargo test --offline --test seed_demo 2>&1 | grep -E "^test result" | tr '\n' ' ')
echo "demo with patch: $with"
git checkout -q -- .
without=$(cargo test --offline --test seed_demo 2>&1 | grep -E "^test result" | tr '\n' ' ')
echo "demo without patch: $without"
rm -rf tests/seed_demo.rs; rmdir tests 2>/dev/null
if echo "$with" | grep -q "FAILED" && echo "$without" | grep -q "ok\." && ! echo "$without" | grep -q FAILED; then
  dst="/verif/seeded/$prop-$name"; mkdir -p "$dst"; cp "$sd/patch.diff" "$sd/demo.rs" "$dst/"; cp "$sd/README.md" "$dst/README.md"
  echo "CONFIRMED -> $dst"
else echo "NOT CONFIRMED"; exit 1; fi
