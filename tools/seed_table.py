#!/usr/bin/env python3
"""Prints the markdown table of DESIGN.md section 11 from seeded/*/meta.json (written by tools/eval_seeds.py)."""
import os, json, re
ROOT = os.path.dirname(os.path.dirname(os.path.abspath(__file__)))
rows = []
for name in sorted(os.listdir(f"{ROOT}/seeded")):
    mp = f"{ROOT}/seeded/{name}/meta.json"
    if not os.path.exists(mp):
        continue
    m = json.load(open(mp))
    s = (m.get("check_summary") or [""])[0]
    g = re.search(r"model disagreements (\d+) \(strict \d+\); oracle failures (\d+); expected-value failures (\d+)", s)
    d, o, e = g.groups() if g else ("?", "?", "?")
    verdict = "missed" if not m.get("detected") else ("failing input" if m.get("with_failing_input") else "no-failing-input-found")
    rows.append((name, m.get("property", name[:3]), m.get("wave", 1), d, o, e, verdict))
print("| seeded change | breaks | wave | model disagreements | oracle failures | expected-value failures | verdict |")
print("|---|---|---|---|---|---|---|")
for r in rows:
    print(f"| `{r[0]}` | {r[1]} | {r[2]} | {r[3]} | {r[4]} | {r[5]} | {r[6]} |")
det = sum(1 for r in rows if r[6] != "missed"); fi = sum(1 for r in rows if r[6] == "failing input")
print(f"\n{len(rows)} changes: {det} detected, {fi} of them with a failing input confirmed on the implementation.")
