#!/usr/bin/env python3
"""Writes /verif/MANIFEST.json from the table below (one entry per claimed property)."""
import json, os
ROOT = os.path.dirname(os.path.dirname(os.path.abspath(__file__)))
COMMON_NOTE = ("Trusted: Lean 4.33.0 kernel; axioms of every property theorem are audited on each run and must be within {propext, Classical.choice, Quot.sound}; "
               "no sorry/admit/native_decide/bv_decide/own axioms (grep on each run). The model is hand-written: its agreement with /repo is checked by the differential "
               "correspondence run of the same check (sampled, generators described in the evidence) and, for finite tables, by graph extraction from the running code. "
               "Modelled, not verified: bitstream-io (bit-list semantics of read/read_bit/skip/read_unary1), memchr, std Read/BufRead defaults, rfc6381-codec formatting, the Rust compiler.")
T = {
 "C01": ("7/C01", "Theorems for every byte stream and every partition (incl. empty pushes) and every interleaving of resets: call-level model of push/reset = byte machine = declarative Annex B segmentation; chunking invariance with and without final reset. Correspondence: delivered bytes + end markers of the real AnnexBReader vs model, plus an independent reference segmentation and single-push comparison on the implementation.", "refinement proof (index loop ⊑ 6-state machine ⊑ windowed spec) + differential"),
 "C02": ("7/C02", "Theorem runOps: for every chunking, completeness flag, skip count, window size ≥ 1 and every program of fill_buf/consume/read, delivered ++ remaining view = unesc(payload) and validity is constant; unesc(escape p) = p for every payload; scanner = windowed spec. One-shot decoder: decodeNal = unesc of everything after the header, InvalidData iff invalid, borrowed iff nothing was removed (decodeNal_eq). Correspondence per operation against the real ByteReader/decode_nal + reference un-escaper.", "invariant/abstraction-function proof over reader operations + differential"),
 "C03": ("7/C03", "PARTIAL. Proved on the model: NoPanic for SPS/PPS/slice header/pic_timing/buffering_period/bit-reader primitives for all inputs and contexts; fuel of the two slice-header loops never exhausted (termination); AVCC construction, accessors and iterators never index out of bounds; golomb_to_signed never wraps; pixel_dimensions / pic_size guarded. Lean's termination checker accepts every model function. Not expressible in the model and therefore measured on the implementation: real allocation volume and inner-reader call counts (thorough tier), dev-vs-release agreement. Correspondence: value/error/PANIC of every entry point on all streams of all properties with overflow checks on.", "closure-lemma proof (NoPanic combinators, fuel sufficiency) + differential + measurement"),
 "C04": ("7/C04", "Forward theorem: every SPS within the standard's ranges (AVC profile classes), encoded with an encoder transcribed from 7.3.2.1.1/E.1 incl. the scaling_list process, parses to exactly the encoded values, consuming up to the trailing bits, for any number of trailing zeros. Converse: every accepted bit string is that encoding of the returned value. Correspondence: Debug text of the real parser vs model on structured/faulted/mutated inputs, and Lean-generated (value, expected text) cases.", "round-trip proof both directions (parser monad, per-structure _enc/_exact lemmas) + differential"),
 "C05": ("7/C05", "Forward and converse theorems for parsePps against any context holding the referenced SPS: all 7 slice-group map types with the prescribed element counts, tail read iff more data, 6/8/12 lists. Correspondence on Debug text incl. private fields.", "round-trip proof both directions + differential"),
 "C06": ("7/C06", "Forward theorem: every conforming header (NAL 1/5, all slice types except B with explicit weights) parses to the encoded fields and activated ids and leaves the reader on the first bit of slice data (residual source). Correspondence: Debug text, ids, pointer identity of returned references, bits left and the next 16 bits.", "round-trip proof (forward) with fuel-carrying loops + differential"),
 "C07": ("7/C07", "Theorems for all codeNums 0..2^32-2 (symbolic), all widths, se mapping incl. the exact Rust u32/i32 expression, too-large rejection for ≥32 zeros, every truncation point of every codeword; converse exactness. Bit alignment is invisible in the bit-list model: realised-by-bitstream-io is validated by the correspondence at all offsets.", "algebraic round-trip proof + differential (exhaustive small, boundary-directed)"),
 "C08": ("7/C08", "Theorem for all delivery sequences (non-empty slices) × all handler policies: invocations = specification from ghost state; corollaries: exactly one complete invocation per never-ignored non-empty NAL, silence after Ignore, nothing carried over.", "invariant proof with ghost state over operation histories + differential"),
 "C09": ("7/C09", "Builder round trip (0..31 SPS, 0..255 PPS, lengths 0..65535, arbitrary reserved bits and extension bytes): accepted, accessors return the stored fields, iterators yield the NALs in order, create_context = fold of the direct parses; every truncation inside the declared sets refused; wrong version refused; after successful construction on ANY bytes no accessor, iterator step or create_context can panic.", "invariant proof (Walked) + differential"),
 "C10": ("7/C10", "Round trip for every message list (types/sizes < 2^32, ≥1 message), also through escape + any chunking of the NAL; type-128 by position; fused after end/error; a type/size coding that sums to ≥ 2^32 is rejected (readU32_too_large); truncated payload is an error. Correspondence: every next() result incl. three extra calls.", "round-trip proof + composition with C02 + differential"),
 "C11": ("7/C11", "Forward theorems for pic_timing and buffering_period for every SPS VUI shape and every in-range payload, signed time offset of every width; T.35 round trip + exactness; extracted 256-entry table of the real T.35 decoder re-decided by the kernel.", "round-trip proof + kernel-decided extracted graph + differential"),
 "C12": ("7/C12", "Composition theorem: any chunking of a serialised NAL sequence → the always-Buffer handler sees every NAL completely, once, in order, byte-identical; escaped NALs contain no start code; what a parser sees of a valid NAL depends only on the concatenation of its chunks. Correspondence: whole pipeline incl. parsing inside the handler.", "composition of C01 ∘ C18 ∘ C08 ∘ C02 theorems + differential"),
 "C13": ("7/C13", "pixel_dimensions: Ok ⇔ no product ≥ 2^32 ∧ crop ≤ picture, value = the standard's formula, for every SPS; fps/codec/pic-size definitional; profile/level round trips over extracted graphs.", "case-exhaustive arithmetic proof + extracted graph + differential"),
 "C14": ("7/C14", "Complete outcome tables of has_more_rbsp_data / finish_rbsp / finish_sei_payload for every remaining bit string.", "total characterisation proof + differential (exhaustive ≤2-3 bytes × all positions)"),
 "C15": ("7/C15", "Theorem for every chunking and every program of read/fill_buf/consume/clone: delivered ++ rest = concatenation; end behaviour stable (Ok(0) vs WouldBlock); header accessors over the extracted graph.", "invariant proof over operation programs + differential"),
 "C16": ("7/C16", "Range theorems as consequences of the converse (exactness) theorems: accepted SPS/PPS satisfy WF (written-out bounds), accepted slice headers name context entries and respect moduli. The SPS bounds are proved for every profile_idc (parseSps_ranges_all), independent of the AVC-profile hypothesis of C04.", "corollaries of exactness proofs + boundary-directed differential"),
 "C17": ("7/C17", "Mono (prefix-monotonicity) for SPS, PPS, slice-header parsers, more-data and finish; byte-level: a prefix of a valid NAL in any chunking is a truncated would-block view of the complete NAL; SPS/PPS never succeed on a partial NAL; SEI reader yields a prefix then blocks.", "closure-lemma proof (Mono combinators) + composition with C02 + differential"),
 "C18": ("7/C18", "Every call of every push/reset interleaving is well shaped; reset silent outside a unit, ends it exactly once inside; reader after reset = fresh reader; end markers = segmentation of each portion.", "invariant proof over operation histories + differential + shape oracle"),
 "C19": ("7/C19", "Refinement of ParamSetMap to a last-writer-wins map: lookup after any insertion sequence, iteration sorted, complete, duplicate-free; stores independent.", "refinement proof + differential against BTreeMap oracle"),
 "C20": ("7/C20", "Kernel-decided statements over function graphs extracted from the running code on every run (all 256 header bytes, unit types, profile_idc, all 2^16 (flags, level) pairs via deduplicated rows, id wrappers at boundary values).", "regenerated model (graph extraction) + decide +kernel"),
}
checks = []
for pid in sorted(T):
    ref, text, tech = T[pid]
    checks.append({
        "property_id": pid,
        "quick_cmd": f"./check {pid} --tier quick",
        "thorough_cmd": f"./check {pid} --tier thorough",
        "evidence_file": f"/verif/evidence/{pid}.json",
        "replay_cmd_template": f"./check {pid} --replay {{path}}",
        "engine": "lean4-proof+correspondence",
        "level_claimed": {"category": "proof", "text": text, "design_ref": f"DESIGN.md section {ref}"},
        "level_note": COMMON_NOTE,
        "technique": "Lean 4 machine-checked " + tech,
    })
m = {
    "version": 1,
    "setup_cmd": "./setup.sh",
    "hooks": {"guard": "h264_reader_verif", "enable": "none needed: the harness crate links /repo's working tree as a path dependency and observes results through public APIs and Debug output",
              "baseline_off_cmd": "cd /repo && cargo test --workspace --no-fail-fast --offline", "source_commits": [], "add_only": True},
    "engines": [{"name": "lean4-proof+correspondence", "path": "/verif/check", "serves_properties": sorted(T),
                 "kind_free_text": "Lean 4 library (model + spec + property theorems, /verif/lean), natively compiled model driver, Rust harness executing /repo in-process, Python check driver (build, axiom audit, differential, oracles, evidence)"}],
    "checks": checks,
    "not_applicable": [],
    "notes": "Genuine defects found and repaired by 12 'fix:' commits in /repo are listed in /verif/known_findings.txt (fixed: entries; their witnesses are in /verif/corpus and run first).",
}
json.dump(m, open(f"{ROOT}/MANIFEST.json", "w"), indent=1)
print("MANIFEST written with", len(checks), "checks")
