#!/bin/bash
# runs setup and every check (quick tier by default) on the current /repo working tree; prints one line per check
cd /verif && ./setup.sh | tail -1
for p in C01 C02 C03 C04 C05 C06 C07 C08 C09 C10 C11 C12 C13 C14 C15 C16 C17 C18 C19 C20; do ./check $p --tier ${1:-quick} 2>&1 | grep -E "^VIOLATION|^KNOWN|^C[0-9]+ \[" ; done
