#!/usr/bin/env python3
"""For every /verif/seeded/<Cxx>-<name>/: apply the patch to /repo (try_patch.sh restores it), run the check of the
property it breaks (quick tier), and record the verdict in meta.json. usage: eval_seeds.py [dir-name ...] [--also Cyy]"""
import os, sys, json, subprocess, re
ROOT = os.path.dirname(os.path.dirname(os.path.abspath(__file__)))
names = [a for a in sys.argv[1:] if not a.startswith("--")] or sorted(os.listdir(f"{ROOT}/seeded"))
for name in names:
    d = f"{ROOT}/seeded/{name}"
    if not os.path.isdir(d): continue
    prop = name.split("-", 1)[0]
    r = subprocess.run([f"{ROOT}/tools/try_patch.sh", f"{d}/patch.diff", prop], capture_output=True, text=True)
    out = r.stdout + r.stderr
    viol = re.findall(r"^VIOLATION.*$", out, flags=re.M)
    summary = re.findall(r"^C\d+ \[quick\].*$", out, flags=re.M)
    readme = open(f"{d}/README.md").read() if os.path.exists(f"{d}/README.md") else ""
    meta_path = f"{d}/meta.json"
    meta = json.load(open(meta_path)) if os.path.exists(meta_path) else {}
    meta.update({
        "property": prop, "name": name,
        "origin": "written by an independent sub-agent that saw only the property text and a scratch worktree of /repo; confirmed by tools/confirm_seed.sh (suite passes with the patch; demo fails with it and passes without)",
        "needs_to_manifest": meta.get("needs_to_manifest") or " ".join(readme.split("\n\n")[1:3])[:600],
        "ran": f"tools/try_patch.sh seeded/{name}/patch.diff {prop}   (git -C /repo apply; ./check {prop} --tier quick; git -C /repo checkout -- .)",
        "detected": bool(viol),
        "with_failing_input": any("no-failing-input-found" not in v for v in viol),
        "verdict_lines": [v[:200] for v in viol[:3]], "check_summary": summary[:1],
    })
    json.dump(meta, open(meta_path, "w"), indent=1)
    print(name, "DETECTED" if viol else "MISSED", "(with failing input)" if meta["with_failing_input"] else "", summary[:1])
