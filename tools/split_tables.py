#!/usr/bin/env python3
"""stdin: output of `h264harness tables`; argv[1]: lean/H264 directory. Cuts at `--8<-- <Module>` lines into one generated Lean file per
part and rewrites a file only when its content changed (the same logic as `refresh_tables` in /verif/check)."""
import sys, re, os
out = sys.stdin.read()
parts = re.split(r"^--8<-- (\w+)\n", out, flags=re.M)
files = {"GeneratedTables": parts[0]}
for k in range(1, len(parts) - 1, 2):
    files[parts[k]] = parts[k + 1]
for name, text in files.items():
    path = os.path.join(sys.argv[1], name + ".lean")
    old = open(path).read() if os.path.exists(path) else ""
    if old != text:
        open(path, "w").write(text)
