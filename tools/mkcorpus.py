#!/usr/bin/env python3
"""Writes /verif/corpus/<id>/*.case: the witnesses of the repaired defects D0–D11 (and later minimised
disagreements). Every check runs the corpus of its property first."""
import os
ROOT = os.path.dirname(os.path.dirname(os.path.abspath(__file__)))

class W:
    def __init__(s): s.b = []
    def u(s, n, v):
        for i in range(n - 1, -1, -1): s.b.append((v >> i) & 1)
        return s
    def f(s, v): s.b.append(1 if v else 0); return s
    def ue(s, k):
        m = k + 1; n = m.bit_length() - 1
        s.b += [0] * n; return s.u(n + 1, m)
    def se(s, v): return s.ue(2 * v - 1 if v > 0 else -2 * v)
    def hex(s, trail=True):
        b = s.b + ([1] if trail else [])
        while len(b) % 8: b.append(0)
        return "".join("%02x" % int("".join(map(str, b[i:i + 8])), 2) for i in range(0, len(b), 8))

def sps(profile=66, sid=0, w=10, h=8, frame_mbs_only=True, poc_type=2, vui=None, log2fn=0, chroma=None):
    x = W(); x.u(8, profile).u(8, 0).u(8, 30).ue(sid)
    if chroma is not None:
        x.ue(chroma[0])
        if chroma[0] == 3: x.f(chroma[1])
        x.ue(0).ue(0).f(0).f(0)
    x.ue(log2fn).ue(poc_type)
    if poc_type == 0: x.ue(0)
    x.ue(1).f(0).ue(w).ue(h).f(frame_mbs_only)
    if not frame_mbs_only: x.f(0)
    x.f(1).f(0)
    if vui is None: x.f(0)
    else: x.f(1); vui(x)
    return x

def pps_base(x, pid=0, sid=0, groups=None, wp=False, wb=0, qs=0, entropy=False, deblock=False):
    x.ue(pid).ue(sid).f(entropy).f(0)
    if groups is None: x.ue(0)
    else: groups(x)
    x.ue(0).ue(0).f(wp).u(2, wb).se(0).se(qs).se(0).f(deblock).f(0).f(0)
    return x

def write(pid, name, lines, comment):
    d = f"{ROOT}/corpus/{pid}"; os.makedirs(d, exist_ok=True)
    open(f"{d}/{name}.case", "w").write("# " + comment + "\n" + "\n".join(lines) + "\n")

# D0: one chunk > 128 bytes, first 128 bytes without 00, then 00 00 03 01
nal = "65" + "11" * 140 + "00000301" + "22" * 60
write("C02", "d0-window", [f"rbsp {nal} 1 1 " + " ".join(["r64"] * 6) + " f", f"rbsp {nal} 1 1 " + " ".join(["f", "c1000"] * 5), f"decodenal {nal}"],
      "D0 (fixed 021d0c6): streaming reader delivered 00 00 03 01 un-stripped after a zero-free first window")
write("C12", "d0-window", ["stream B p:" + "00000167" + sps().hex() + "00000168" + pps_base(W()).hex() + "000001" + nal + " r"],
      "D0 inside the whole pipeline: a slice NAL whose first window has no zero byte")
# D11
write("C03", "d11-decode-empty", ["decodenal - | B:", "decodenal 65 | B:", "decodenal 6500 | B:00"], "D11 (fixed f859732): decode_nal(&[]) panicked")
write("C02", "d11-decode-empty", ["decodenal -", "decodenal 65"], "D11: one-shot decoder on an empty / header-only NAL")
# D3: width = height = 65535 mbs; PPS with slice groups against it
big = sps(w=65535, h=65535).hex()
def g0(x): x.ue(1).ue(0).ue(5).ue(7)
def g2(x): x.ue(1).ue(2).ue(0).ue(3)
def g3(x): x.ue(1).ue(3).f(0).ue(4)
def g6(x): x.ue(1).ue(6).ue(3).u(1, 0).u(1, 1).u(1, 0).u(1, 1)
write("C03", "d3-picsize", ["reset", f"sps {big}", f"derived {big}", "pps " + pps_base(W(), groups=g0).hex(), "pps " + pps_base(W(), groups=g2).hex(),
      "pps " + pps_base(W(), groups=g3).hex(), "pps " + pps_base(W(), groups=g6).hex()],
      "D3 (fixed c89304a): pic_size_in_map_units overflowed u32 for 65536 x 65536 macroblocks")
# D4: map type 2 with 2 groups = ONE rectangle
write("C05", "d4-rects", ["reset", "sps " + sps().hex(), "pps " + pps_base(W(), groups=g2).hex() + " | ~Ok\\(.*ForegroundAndLeftover",
      "pps " + pps_base(W(), groups=lambda x: x.ue(2).ue(2).ue(0).ue(3).ue(10).ue(20)).hex()],
      "D4 (fixed 0f6ecbb): slice_group_map_type 2 read one rectangle too many")
# D5: SP slice (type 3) with weighted_pred_flag = 0: no pred_weight_table
def slice_hdr(st, pid=0, extra=lambda x: None):
    x = W(); x.ue(0).ue(st).ue(pid).u(4, 3)
    extra(x); return x
def sp_body(x):
    x.f(0)            # num_ref_idx_active_override_flag
    x.f(0)            # ref_pic_list_modification_flag_l0
    x.se(0)           # slice_qp_delta   (nal_ref_idc = 0: no marking)
    x.f(0).se(1)      # sp_for_switch_flag, slice_qs_delta
    x.u(8, 0xa5)      # slice data
write("C06", "d5-sp-pwt", ["reset", "sps " + sps().hex(), "pps " + pps_base(W(), wp=False).hex(), "slice 01 " + slice_hdr(3, extra=sp_body).hex() + " | ~Ok\\(.*pred_weight_table: None.*slice_qs: Some\\(27\\).* left=14 next=10100101",
      "slice 01 " + slice_hdr(8, extra=sp_body).hex() + " | ~Ok\\(.*pred_weight_table: None"], "D5 (fixed c925c9f): SP slice with weighted_pred_flag = 0 read an absent pred_weight_table")
# D6: SI slice with slice_qs_delta = 2^31 - 1
def si_body(v):
    def f(x): x.se(0).se(v).u(8, 0xa5)
    return f
write("C03", "d6-qs", ["reset", "sps " + sps().hex(), "pps " + pps_base(W(), qs=25).hex(), "slice 01 " + slice_hdr(4, extra=si_body(2**31 - 1)).hex(),
      "slice 01 " + slice_hdr(4, extra=si_body(-(2**31 - 1))).hex(), "slice 01 " + slice_hdr(9, extra=si_body(0)).hex()],
      "D6 (fixed 1fd92fe): 26 + pic_init_qs_minus26 + slice_qs_delta overflowed i32")
# D7 / D8: pic_timing against an SPS with a VCL HRD only, time_offset_length 5
def vui_vcl(x):
    x.f(0).f(0).f(0).f(0).f(0)           # aspect, overscan, video signal, chroma loc, timing
    x.f(0)                               # nal_hrd absent
    x.f(1).ue(0).u(4, 0).u(4, 0).ue(0).ue(0).f(0).u(5, 3).u(5, 4).u(5, 5).u(5, 5)   # vcl hrd: 1 cpb, widths 4/5/6, tol 5
    x.f(0)                               # low_delay_hrd_flag
    x.f(1)                               # pic_struct_present_flag
    x.f(0)                               # bitstream_restriction_flag
s_vcl = sps(vui=vui_vcl).hex()
pt = W(); pt.u(5, 21).u(6, 42)           # cpb_removal_delay (5 bits), dpb_output_delay (6 bits)
pt.u(4, 0).f(1).u(2, 0).f(0).u(5, 0).f(1).f(0).f(0).u(8, 7).u(6, 1).u(6, 2).u(5, 3).u(5, 0b11111)   # time_offset = -1
write("C11", "d7-vcl-hrd", [f"pt {s_vcl} {pt.hex()}" + " | ~Ok\\(PicTiming \\{ delays: Some\\(Delays \\{ cpb_removal_delay: 21, dpb_output_delay: 42 \\}\\).*SMH\\(1, 2, 3\\), time_offset: Some\\(-1\\)"], "D7 (fixed e12ad89) + D8 (fixed eb7a1fb): VCL HRD only; 5-bit time_offset 11111 = -1")
write("C11", "d9-t35-ext", ["t35 ff1234 | Ok(ext:18,34)", "t35 ff | NotEnoughData(2,1)", "t35 71aa | Ok(code:113,aa)", "t35 f1aa | Ok(code:241,aa)", "t35 c4", "t35 c5", "t35 | NotEnoughData(1,0)"], "D9 (fixed 216c916), D10 (fixed d9d24ac): T.35 extension offset, Mauritania = 0x71")
# D1
write("C09", "d1-empty-entry", ["avcc 0142c01effe0010000 | ~Ok .*pps=ParamSet\\(Empty\\) ctx=Err", "avcc 0142c01effe1000000 | ~Ok .*sps=ParamSet\\(Empty\\)", "avcc 0142c01effe10000010000"],
      "D1 (fixed f170785): zero-length parameter set entries")
write("C03", "d1-empty-entry", ["avcc 0142c01effe0010000", "avcc 0142c01effe1000000"], "D1: iterator / create_context panicked on zero-length entries")
print("corpus written")
