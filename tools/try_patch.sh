#!/bin/bash
# usage: tools/try_patch.sh <patch.diff> <Cxx> [Cyy ...]
# Applies a candidate change to /repo's working tree, runs the named checks (quick tier), prints their verdict lines,
# and ALWAYS restores /repo afterwards (git checkout -- .). Never commits anything in /repo.
patch="$1"; shift
cd /verif
export VERIF_EVIDENCE_DIR=/verif/work/evidence-scratch
if ! git -C /repo diff --quiet; then echo "/repo has uncommitted changes; refusing"; exit 2; fi
git -C /repo apply "$patch" || { echo "patch does not apply"; exit 2; }
trap 'git -C /repo checkout -- . ; git -C /repo clean -fdq -- src tests 2>/dev/null' EXIT
for p in "$@"; do
  out=$(./check "$p" --tier quick 2>&1); rc=$?
  echo "--- $p exit=$rc"
  echo "$out" | grep -E "^VIOLATION|^KNOWN-FINDING|^C[0-9]+ \[|does not build|failed" | cut -c1-300 | head -8
done
