"""Projections of raw observations to the observable a property talks about, and path tags for coverage."""
import re


def identity(case, obs):
    return obs


def size_bucket(case):
    n = len(case)
    return "<64" if n < 64 else "<256" if n < 256 else "<1024" if n < 1024 else ">=1024"


def default_tag(case, obs):
    kind = case.split(" ", 1)[0]
    if len(case.split()) <= 1:
        return "trivial"
    o = re.sub(r"[0-9a-f]{4,}", "X", obs)
    o = re.sub(r"\d+", "N", o)
    return kind + ":" + o[:48]


# ---- annexb ---------------------------------------------------------------------------------------------------------
def annexb_groups(obs):
    return [g.split() for g in re.findall(r"\[([^\]]*)\]", obs)]


def call_events(call):
    bufs, end = call.split(";")
    ev = []
    for b in bufs.split(","):
        ev += [b[i:i + 2] for i in range(0, len(b), 2)]
    if end == "1":
        ev.append("E")
    return ev


def c01(case, obs):
    """bytes and end markers, cut at every reset (which push delivered a byte is not part of the property)"""
    if not case.startswith("annexb"):
        return obs
    ops = case.split()[1:]
    out = []
    for op, grp in zip(ops, annexb_groups(obs)):
        for c in grp:
            out += call_events(c)
        if op == "r":
            out.append("|")
    return " ".join(out)


def c18(case, obs):
    """per operation: the delivered events (so that resets at arbitrary points and the fresh-reader clause are observed)
    and whether every call of that operation was well shaped (non-empty slices; no slices only with end); how the
    bytes of one operation are split into calls and slices is not part of the property"""
    if not case.startswith("annexb"):
        return obs
    out = []
    for grp in annexb_groups(obs):
        ev = []
        shaped = True
        for c in grp:
            bufs, end = c.split(";")
            sl = bufs.split(",") if bufs else []
            shaped = shaped and all(s for s in sl) and bool(sl or end == "1")
            ev.append("".join(sl) + ("E" if end == "1" else ""))
        out.append("[" + "".join(ev) + ("" if shaped else "!ILLSHAPED") + "]")
    return " ".join(out)


def annexb_tag(case, obs):
    ops = case.split()[1:]
    ev = c01(case, obs).split()
    n_end = ev.count("E")
    return f"annexb:units={min(n_end, 4)}:data={int(any(e not in ('E', '|') for e in ev))}:pushes={min(len(ops), 6)}:midreset={int('r' in ops[:-2])}"


def generic_tag(case, obs):
    return default_tag(case, obs)


def _shape(obs, n=6):
    toks = obs.split()
    o = []
    for t in toks[:n]:
        t = re.sub(r"[0-9a-f]{3,}", "X", t)
        o.append(re.sub(r"\d+", "N", t)[:16])
    return " ".join(o)


def rbsp_tag(case, obs):
    t = case.split()
    if t[0] == "decodenal":
        return "decodenal:" + obs[:2] + (":err" if obs.startswith("err") else "")
    nchunks = min(t[1].count(",") + 1, 4)
    big = len(t[1]) > 260
    errs = ",".join(sorted(set(re.findall(r"err:(\w+)", obs))))
    return f"rbsp:chunks={nchunks}:big={int(big)}:complete={t[2]}:skip={t[3]}:errs={errs}:end={int('ok: ' in obs + ' ' or obs.endswith('ok:'))}"


def bits_tag(case, obs):
    ops = [re.sub(r"\d+", "", o) for o in case.split()[2:]]
    outs = []
    for o in obs.split():
        if o.startswith("Io("):
            outs.append("eof")
        elif o.startswith("TooLarge"):
            outs.append("toolarge")
        elif o in ("Remaining", "ok", "true", "false", "-"):
            outs.append(o)
        else:
            outs.append("v")
    return "bits:" + ",".join(ops[:5]) + ":" + ",".join(outs[:5])


def parse_tag(case, obs):
    kind = case.split(" ", 1)[0]
    if len(case.split()) <= 1 and kind != "reset":
        return "trivial"
    if kind == "nal":
        t = case.split()
        hdr = t[1][:2]
        cls = obs.split(":", 1)[0] + ":" + ("Ok" if ":Ok" in obs[:12] else "WouldBlock" if "WouldBlock" in obs[:60] else "Err" if "Err" in obs[:12] else "msgs")
        return f"nal:{hdr}:complete={t[2]}:{cls}:chunks={min(t[1].count(',') + 1, 3)}"
    if obs.startswith("Ok("):
        # coarse shape of the accepted value: which optional parts are present
        feats = []
        for key in ("scaling_matrix: Some", "TypeOne", "TypeZero", "vui_parameters: Some", "nal_hrd_parameters: Some", "vcl_hrd_parameters: Some",
                    "frame_cropping: Some", "Fields", "slice_groups: Some", "extension: Some", "Interleaved", "Dispersed", "ForegroundAndLeftover",
                    "Changing", "ExplicitAssignment", "family: P", "family: B", "family: I", "family: SP", "family: SI", "pred_weight_table: Some",
                    "Adaptive", "Idr", "SlidingWindow", "idr_pic_id: Some", "colour_plane: Some", "Field(", "delays: Some", "pic_struct: Some",
                    "nal_hrd_bp: Some", "vcl_hrd_bp: Some", "time_offset: Some(-"):
            if key in obs:
                feats.append(key.split(":")[0][:10] + ("+" if "Some" in key else ""))
        return kind + ":Ok:" + ",".join(feats)[:120]
    return kind + ":" + _shape(obs, 2)


def c03(case, obs):
    """the observable of C03: did the call return (a value or an error) or did it panic / abort"""
    if obs in ("PANIC", "ABORT") or "PANIC" in obs:
        return "PANIC"
    return "returned"


def c02(case, obs):
    """robust observable of the streaming reader: all bytes taken out of it (reads, consumed parts of fills, the final
    drain), the kinds of errors met, and how the drain ended - not how many bytes each individual call returned"""
    t = case.split()
    if t[0] != "rbsp":
        return obs
    delivered = []
    last_fill = ""
    errs = []
    tail = []
    drained = False
    for op, o in zip(t[4:], obs.split(" ")):
        if drained:
            tail.append(o)          # behaviour after the end was reached is part of the observable
            continue
        if op.startswith("x") and o.startswith("err:"):
            # a failed read_exact has taken an unspecified number of bytes (std: "the contents of buf are unspecified"), and whether
            # a given read_exact fails depends on how much the earlier `consume(all of the last fill)` operations took, i.e. on
            # where the internal window stood. For programs with read_exact only this is comparable: everything delivered is
            # a prefix of the un-escaped payload (reference un-escaper below) - the whole of it if no read_exact failed
            so_far = "".join(delivered)
            want = _unescape_ref(_nal_of(t[1])[int(t[3]):]).hex()
            return "XPROG consistent=" + str(want.startswith(so_far))
        if o.startswith("ok:"):
            if op.startswith("f"):
                last_fill = o[3:]
            else:
                delivered.append(o[3:])
                last_fill = last_fill[len(o[3:]):]
        elif o.startswith("c"):
            k = 2 * int(o[1:])
            delivered.append(last_fill[:k])
            last_fill = last_fill[k:]
        elif o.startswith("D:"):
            _, got, status = o.split(":")
            delivered.append(got)
            errs.append("D=" + status)
            drained = True
        elif o.startswith("err:"):
            # when the end is reached depends on how much each call returned; the drain status below records it
            if o == "err:InvalidData" and o not in errs:
                errs.append(o)
    if any(op.startswith("x") for op in t[4:]):
        want = _unescape_ref(_nal_of(t[1])[int(t[3]):]).hex()
        got = "".join(delivered)
        return "XPROG consistent=" + str(got == want if drained and errs and errs[-1] == "D=end" else want.startswith(got))
    return "".join(delivered) + " " + ",".join(errs) + " " + " ".join(tail)


_RLE = re.compile(r"R([0-9a-fA-F]{2})x(\d+)\.")


def _unhex(h):
    """hex bytes; `R<hh>x<n>.` stands for the byte hh repeated n times (the run-length notation of long cases)"""
    if not h or h == "-":
        return b""
    if "R" not in h:
        return bytes.fromhex(h)
    out = bytearray()
    pos = 0
    for m in _RLE.finditer(h):
        out += bytes.fromhex(h[pos:m.start()])
        out += bytes([int(m.group(1), 16)]) * int(m.group(2))
        pos = m.end()
    out += bytes.fromhex(h[pos:])
    return bytes(out)


def rbsp_valid(payload):
    """reference validity of an escaped payload: no 00 00 00, and 00 00 03 only before a byte <= 3 or the end"""
    z = 0
    i = 0
    n = len(payload)
    while i < n:
        b = payload[i]
        if z >= 2:
            if b == 0:
                return False
            if b == 3:
                if i + 1 < n and payload[i + 1] > 3:
                    return False
                z = 0
                i += 1
                continue
        z = z + 1 if b == 0 else 0
        i += 1
    return True


def _unescape_ref(payload):
    """reference un-escaper (valid payloads): drop each 03 that follows two zero bytes"""
    out = bytearray()
    z = 0
    for b in payload:
        if z >= 2 and b == 3:
            z = 0
            continue
        out.append(b)
        z = z + 1 if b == 0 else 0
    return bytes(out)


def _nal_of(chunks):
    return b"".join(_unhex(c) for c in chunks.split(","))


_c02_plain = c02


def c02(case, obs):
    """for a payload with a forbidden sequence how many bytes come out before InvalidData depends on the scan window
    (the property only demands: nothing past the offending position) - compare only the statuses there"""
    t = case.split()
    if t[0] == "rbsp":
        nal = _nal_of(t[1])
        if not rbsp_valid(nal[int(t[3]):]):
            # every path must report InvalidData; when it does so relative to the other calls is window-dependent
            return "INVALID reported=" + str("InvalidData" in obs)
    return _c02_plain(case, obs)


def c10(case, obs):
    t = case.split()
    if t[0] == "sei" and not rbsp_valid(_nal_of(t[1])[1:]):
        toks = obs.split(" ")
        k = 0
        while k < len(toks) and toks[k].startswith("msg:"):
            k += 1
        return "INVALID " + " ".join(x if not x.startswith("err:Io(") else "err:Io(*," + x.split(",")[-1] for x in toks[k:])
    return obs


def c17(case, obs):
    t = case.split()
    if t[0] == "nal" and not rbsp_valid(_nal_of(t[1])[1:]):
        return "INVALID"
    return obs
