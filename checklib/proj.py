"""Projections of raw observations to the observable a property talks about, and path tags for coverage."""
import re


def identity(case, obs):
    return obs


def size_bucket(case):
    n = len(case)
    return "<64" if n < 64 else "<256" if n < 256 else "<1024" if n < 1024 else ">=1024"


def default_tag(case, obs):
    kind = case.split(" ", 1)[0]
    if len(case.split()) <= 1:
        return "trivial"
    o = re.sub(r"[0-9a-f]{4,}", "X", obs)
    o = re.sub(r"\d+", "N", o)
    return kind + ":" + o[:48]


# ---- annexb ---------------------------------------------------------------------------------------------------------
def annexb_groups(obs):
    return [g.split() for g in re.findall(r"\[([^\]]*)\]", obs)]


def call_events(call):
    bufs, end = call.split(";")
    ev = []
    for b in bufs.split(","):
        ev += [b[i:i + 2] for i in range(0, len(b), 2)]
    if end == "1":
        ev.append("E")
    return ev


def c01(case, obs):
    """bytes and end markers, cut at every reset (which push delivered a byte is not part of the property)"""
    if not case.startswith("annexb"):
        return obs
    ops = case.split()[1:]
    out = []
    for op, grp in zip(ops, annexb_groups(obs)):
        for c in grp:
            out += call_events(c)
        if op == "r":
            out.append("|")
    return " ".join(out)


def c18(case, obs):
    """per operation: events and, per call, whether it is well shaped (non-empty slices; no slices only with end)"""
    if not case.startswith("annexb"):
        return obs
    out = []
    for grp in annexb_groups(obs):
        o = []
        for c in grp:
            bufs, end = c.split(";")
            sl = bufs.split(",") if bufs else []
            shaped = all(s for s in sl) and (sl or end == "1")
            o.append("".join(sl) + ("E" if end == "1" else "") + ("" if shaped else "!ILLSHAPED"))
        out.append("[" + " ".join(o) + "]")
    return " ".join(out)


def annexb_tag(case, obs):
    ops = case.split()[1:]
    ev = c01(case, obs).split()
    n_end = ev.count("E")
    return f"annexb:units={min(n_end, 4)}:data={int(any(e not in ('E', '|') for e in ev))}:pushes={min(len(ops), 6)}:midreset={int('r' in ops[:-2])}"


def generic_tag(case, obs):
    return default_tag(case, obs)


def _shape(obs, n=6):
    toks = obs.split()
    o = []
    for t in toks[:n]:
        t = re.sub(r"[0-9a-f]{3,}", "X", t)
        o.append(re.sub(r"\d+", "N", t)[:16])
    return " ".join(o)


def rbsp_tag(case, obs):
    t = case.split()
    if t[0] == "decodenal":
        return "decodenal:" + obs[:2] + (":err" if obs.startswith("err") else "")
    nchunks = min(t[1].count(",") + 1, 4)
    big = len(t[1]) > 260
    errs = ",".join(sorted(set(re.findall(r"err:(\w+)", obs))))
    return f"rbsp:chunks={nchunks}:big={int(big)}:complete={t[2]}:skip={t[3]}:errs={errs}:end={int('ok: ' in obs + ' ' or obs.endswith('ok:'))}"


def bits_tag(case, obs):
    ops = [re.sub(r"\d+", "", o) for o in case.split()[2:]]
    outs = []
    for o in obs.split():
        if o.startswith("Io("):
            outs.append("eof")
        elif o.startswith("TooLarge"):
            outs.append("toolarge")
        elif o in ("Remaining", "ok", "true", "false", "-"):
            outs.append(o)
        else:
            outs.append("v")
    return "bits:" + ",".join(ops[:5]) + ":" + ",".join(outs[:5])


def parse_tag(case, obs):
    kind = case.split(" ", 1)[0]
    if len(case.split()) <= 1 and kind != "reset":
        return "trivial"
    if kind == "nal":
        t = case.split()
        hdr = t[1][:2]
        cls = obs.split(":", 1)[0] + ":" + ("Ok" if ":Ok" in obs[:12] else "WouldBlock" if "WouldBlock" in obs[:60] else "Err" if "Err" in obs[:12] else "msgs")
        return f"nal:{hdr}:complete={t[2]}:{cls}:chunks={min(t[1].count(',') + 1, 3)}"
    if obs.startswith("Ok("):
        # coarse shape of the accepted value: which optional parts are present
        feats = []
        for key in ("scaling_matrix: Some", "TypeOne", "TypeZero", "vui_parameters: Some", "nal_hrd_parameters: Some", "vcl_hrd_parameters: Some",
                    "frame_cropping: Some", "Fields", "slice_groups: Some", "extension: Some", "Interleaved", "Dispersed", "ForegroundAndLeftover",
                    "Changing", "ExplicitAssignment", "family: P", "family: B", "family: I", "family: SP", "family: SI", "pred_weight_table: Some",
                    "Adaptive", "Idr", "SlidingWindow", "idr_pic_id: Some", "colour_plane: Some", "Field(", "delays: Some", "pic_struct: Some",
                    "nal_hrd_bp: Some", "vcl_hrd_bp: Some", "time_offset: Some(-"):
            if key in obs:
                feats.append(key.split(":")[0][:10] + ("+" if "Some" in key else ""))
        return kind + ":Ok:" + ",".join(feats)[:120]
    return kind + ":" + _shape(obs, 2)


def c03(case, obs):
    """the observable of C03: did the call return (a value or an error) or did it panic / abort"""
    if obs in ("PANIC", "ABORT") or "PANIC" in obs:
        return "PANIC"
    return "returned"
