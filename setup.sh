#!/bin/bash
# Build the framework from files on disk only (offline): Lean library + native model driver, Rust harness.
set -e
cd "$(dirname "$0")"
export CARGO_NET_OFFLINE=true
mkdir -p .cache work replays evidence
(cd harness && cargo build --offline 2>&1 | tail -3)
# function graphs extracted from the running code (regenerated model part)
./.cache/harness-target/debug/h264harness tables | python3 tools/split_tables.py lean/H264
(cd lean && lake build H264 driver gen 2>&1 | grep -E "error|Build completed|✖" | tail -5)
