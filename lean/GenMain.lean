import H264.Gen
def main (args : List String) : IO Unit := do
  let n := (args.getD 0 "1000").toNat!
  let seed := (args.getD 1 "1").toNat!
  let mut rng : Gen.Rng := ⟨UInt64.ofNat (0x9E3779B97F4A7C15 + seed * 2654435761)⟩
  let out ← IO.getStdout
  for _ in List.range n do
    let ((c, e), rng') := Gen.spsCase.run rng
    rng := rng'
    out.putStrLn (c ++ " | " ++ e)
