import H264.Gen
import H264.Gen2
import H264.Gen3
/-! Lean-side generator: values drawn from `H264/Gen.lean`, encoded with the proved spec encoders; every line is
`<case> | <expected observation>` -/
def main (args : List String) : IO Unit := do
  let kind := args.getD 0 "sps"
  let n := (args.getD 1 "1000").toNat!
  let seed := (args.getD 2 "1").toNat!
  let mut rng : Gen.Rng := ⟨UInt64.ofNat (0x9E3779B97F4A7C15 + seed * 2654435761)⟩
  let out ← IO.getStdout
  for _ in List.range n do
    if kind = "sps" then
      let ((c, e), rng') := Gen.spsCase.run rng
      rng := rng'
      out.putStrLn (c ++ " | " ++ e)
    else if kind = "group" then
      let ((lines, _), rng') := Gen.groupCase.run rng
      rng := rng'
      for l in lines do out.putStrLn l
    else if kind = "seipayload" then
      let (lines, rng') := Gen.seiGroup.run rng
      rng := rng'
      for l in lines do out.putStrLn l
    else
      out.putStrLn "bad-kind"
