import H264.Slice
import H264.Context
import H264.GeneratedSmall
/-! one coded field of an SP slice header at a time (C16 / C06) -/
namespace SmallProof
open Bits

def encS' (v : Int) : Nat := if v < 0 then 2 * v.natAbs + 1 else 2 * v.natAbs

def sliceFieldRow (i : Nat) : Nat × Nat :=
  let field := i / 82; let k := i % 82
  let uv : Nat := if field = 2 ∧ k ≥ 41 then 86 + k else k % 41
  let sv : Int := (k : Int) - 29
  let fu (j dflt : Nat) : Nat := if j = field then uv else dflt
  let fs (j : Nat) : Int := if j = field then sv else 0
  let spsBits := encBits 8 66 ++ encBits 8 0 ++ encBits 8 30 ++ encUe 0 ++ encUe 0 ++ encUe 2 ++ encUe 1 ++ [false] ++ encUe 1 ++ encUe 1 ++ [true, false, false, false] ++ [true]
  match Sps.parseSps ⟨spsBits, .eof⟩ with
  | .error _ => (7, 7)
  | .ok (s, _) =>
    let sm := Ctx.put [] s.spsId s
    let ppsBits := encUe 0 ++ encUe 0 ++ [true, false] ++ encUe 0 ++ encUe 0 ++ encUe 0 ++ [false] ++ encBits 2 0 ++ encSe 0 ++ encSe 0 ++ encSe 0 ++ [true, false, true] ++ [true]
    match Pps.parsePps (Ctx.get sm) ⟨ppsBits, .eof⟩ with
    | .error _ => (7, 7)
    | .ok (p, _) =>
      let pm := Ctx.put [] p.ppsId p
      let idc := fu 7 0
      let bits := encUe (fu 0 0) ++ encUe 3 ++ encUe (fu 1 0) ++ encBits 4 5 ++ encUe (fu 2 0) ++ [true] ++ encUe (fu 3 0) ++ [false, false] ++
        encUe (fu 4 0) ++ encSe (fs 5) ++ [false] ++ encSe (fs 6) ++ encUe idc ++ (if idc ≠ 1 then encSe (fs 8) ++ encSe (fs 9) else []) ++
        encBits 8 0xA5 ++ [true]
      match Slice.parseSliceHeader ⟨Ctx.get sm, Ctx.get pm⟩ ⟨1, 1⟩ ⟨bits, .eof⟩ with
      | .error _ => (0, 0)
      | .ok ((h, _, pid), _) =>
        (1, match field with
          | 0 => h.firstMbInSlice | 1 => pid | 2 => h.redundantPicCnt.getD 999
          | 3 => (match h.numRefIdxActive with | some (.P l0) => l0 | _ => 999)
          | 4 => h.cabacInitIdc.getD 999 | 5 => encS' h.sliceQpDelta | 6 => h.sliceQs.getD 999
          | 7 => h.disableDeblockingFilterIdc | _ => 0)

/-- model `parseSliceHeader` = real `SliceHeader::from_bits` on ten fields of an SP slice header swept across their range checks
(pic_parameter_set_id defined or not, redundant_pic_cnt 127 / 128, num_ref_idx_l0_active_minus1 31 / 32, cabac_init_idc 2 / 3,
slice_qp_delta 51 / 52, SliceQS 0…51 through slice_qs_delta, disable_deblocking_filter_idc 6 / 7, alpha offset ±6 / ±7, …): accepted or
not, and the field as returned -/
theorem sliceFields_model_eq_code : (List.range 820).map sliceFieldRow = Generated.sliceFieldRows := by decide +kernel

end SmallProof
