import H264.SliceC06
import H264.PpsExact
/-! Prototype: converse for the slice header (C06 converse, C16 slice part) -/
namespace Slice
open Bits Sps Pps

theorem readModOps_exact (fuel : Nat) (s s' : Src) (ops : List ModOp) (h : readModOps fuel s = .ok (ops, s')) :
    (∀ o ∈ ops, o.WF) ∧ s.bits = (ops.map encModOp).flatten ++ (encUe 3 ++ s'.bits) ∧ s'.fin = s.fin := by
  induction fuel generalizing s ops with
  | zero => simp [readModOps] at h
  | succ f ih =>
    unfold readModOps at h
    bind_step h with idc s1 h1
    obtain ⟨i1, i2, i3⟩ := readUe_exact _ _ _ _ h1
    have step : ∀ (nm : String) (mk : Nat → ModOp) (code : Nat),
        idc = code → (∀ v, encModOp (mk v) = encUe code ++ encUe v) → (∀ v, (mk v).WF ↔ Ue v) →
        (do let v ← readUe nm; let rest ← readModOps f; Pure.pure (mk v :: rest) : P (List ModOp)) s1 = .ok (ops, s') →
        (∀ o ∈ ops, o.WF) ∧ s.bits = (ops.map encModOp).flatten ++ (encUe 3 ++ s'.bits) ∧ s'.fin = s.fin := by
      intro nm mk code hcode henc hwf h'
      bind_step h' with v s2 h2
      bind_step h' with rest s3 h3
      obtain ⟨rfl, rfl⟩ := pure_ok h'
      obtain ⟨v1, v2, v3⟩ := readUe_exact _ _ _ _ h2
      obtain ⟨r1, r2, r3⟩ := ih _ _ h3
      refine ⟨?_, ?_, by rw [r3, v3, i3]⟩
      · intro o ho; simp at ho; rcases ho with rfl | ho
        · exact (hwf v).mpr v1
        · exact r1 o ho
      · simp [henc, i2, hcode, v2, r2, List.append_assoc]
    by_cases c0 : idc = 0
    · simp only [c0, ↓reduceIte] at h
      exact step _ ModOp.subtract 0 c0 (fun _ => rfl) (fun _ => Iff.rfl) h
    · simp only [c0, ↓reduceIte] at h
      by_cases c1 : idc = 1
      · simp only [c1, ↓reduceIte] at h
        exact step _ ModOp.add 1 c1 (fun _ => rfl) (fun _ => Iff.rfl) h
      · simp only [c1, ↓reduceIte] at h
        by_cases c2 : idc = 2
        · simp only [c2, ↓reduceIte] at h
          exact step _ ModOp.longTermRef 2 c2 (fun _ => rfl) (fun _ => Iff.rfl) h
        · simp only [c2, ↓reduceIte] at h
          by_cases c3 : idc = 3
          · simp only [c3, ↓reduceIte] at h
            obtain ⟨rfl, rfl⟩ := pure_ok h
            exact ⟨by simp, by simp [i2, c3], i3⟩
          · simp [c3] at h

/-- the coded form is `flag 0` for an empty list *or* `flag 1` immediately followed by the terminator:
both parse to the empty list, so the converse is stated up to this choice -/
def encModListAlt (ops : List ModOp) (longForm : Bool) : List Bool :=
  if ops = [] ∧ longForm = false then encBool false else encBool true ++ (ops.map encModOp).flatten ++ encUe 3

theorem readModList_exact (s s' : Src) (ops : List ModOp) (h : readModList s = .ok (ops, s')) :
    (∀ o ∈ ops, o.WF) ∧ (∃ lf, s.bits = encModListAlt ops lf ++ s'.bits) ∧ s'.fin = s.fin := by
  unfold readModList at h
  bind_step h with f s1 h1
  obtain ⟨f2, f3⟩ := readBool_exact _ _ _ _ h1
  cases f with
  | false =>
    simp only [Bool.not_false, ↓reduceIte] at h
    obtain ⟨rfl, rfl⟩ := pure_ok h
    exact ⟨by simp, ⟨false, by simp [encModListAlt, f2]⟩, f3⟩
  | true =>
    simp only [Bool.not_true, Bool.false_eq_true, ↓reduceIte] at h
    obtain ⟨r1, r2, r3⟩ := readModOps_exact _ _ _ _ h
    refine ⟨r1, ⟨true, ?_⟩, by rw [r3, f3]⟩
    simp [encModListAlt, f2, r2, List.append_assoc]

#print axioms readModList_exact
end Slice

namespace Slice
open Bits Sps Pps

theorem readNumRefIdx_le (nm : String) (u u' : Src) (x : Nat) (h : readNumRefIdx nm u = .ok (x, u')) : x ≤ 31 := by
  unfold readNumRefIdx at h
  bind_step h with w u1 hw
  by_cases cw : w > 31
  · simp [cw] at h
  simp only [cw, ↓reduceIte] at h
  obtain ⟨rfl, rfl⟩ := pure_ok h
  omega

def NraLe : Option NumRefIdxActive → Prop
  | none => True
  | some (.P l0) => l0 ≤ 31
  | some (.B l0 l1) => l0 ≤ 31 ∧ l1 ≤ 31

theorem readNumRefIdxActive_le (fam : Family) (s s' : Src) (n : Option NumRefIdxActive)
    (h : readNumRefIdxActive fam s = .ok (n, s')) : NraLe n := by
  unfold readNumRefIdxActive at h
  by_cases hf : fam = .P ∨ fam = .SP ∨ fam = .B
  · rw [if_pos hf] at h
    bind_step h with o s1 h1
    cases o with
    | false => simp only [Bool.false_eq_true, ↓reduceIte] at h; obtain ⟨rfl, _⟩ := pure_ok h; trivial
    | true =>
      simp only [↓reduceIte] at h
      bind_step h with l0 s2 h2
      have hl0 := readNumRefIdx_le _ _ _ _ h2
      by_cases hb : fam = .B
      · simp only [hb, ↓reduceIte] at h
        bind_step h with l1 s3 h3
        have hl1 := readNumRefIdx_le _ _ _ _ h3
        obtain ⟨rfl, _⟩ := pure_ok h
        exact ⟨hl0, hl1⟩
      · simp only [hb, ↓reduceIte] at h
        obtain ⟨rfl, _⟩ := pure_ok h
        exact hl0
  · rw [if_neg hf] at h
    obtain ⟨rfl, _⟩ := pure_ok h; trivial

def PocLt (sps : Sps.Sps) : Option PicOrderCountLsb → Prop
  | some (.frame lsb) => ∀ l, sps.picOrderCnt = .typeZero l → lsb < 2^(l+4)
  | some (.fieldsAbsolute lsb _) => ∀ l, sps.picOrderCnt = .typeZero l → lsb < 2^(l+4)
  | _ => True

theorem readPoc_lt (sps : Sps.Sps) (pps : Pps.Pps) (fp : FieldPic) (s s' : Src) (p : Option PicOrderCountLsb)
    (h : readPoc sps pps fp s = .ok (p, s')) : PocLt sps p := by
  unfold readPoc at h
  cases hp : sps.picOrderCnt with
  | typeZero l =>
    simp only [hp] at h
    bind_step h with lsb s1 h1
    obtain ⟨l1, _, _⟩ := readBits_exact _ _ _ _ _ h1
    split at h
    · bind_step h with d s2 h2
      obtain ⟨rfl, _⟩ := pure_ok h
      intro l' hl'; rw [hp] at hl'; cases hl'; exact l1
    · obtain ⟨rfl, _⟩ := pure_ok h
      intro l' hl'; rw [hp] at hl'; cases hl'; exact l1
  | typeOne az a b offs =>
    simp only [hp] at h
    split at h
    · obtain ⟨rfl, _⟩ := pure_ok h; trivial
    · bind_step h with d0 s1 h1
      split at h
      · bind_step h with d1 s2 h2
        obtain ⟨rfl, _⟩ := pure_ok h; trivial
      · obtain ⟨rfl, _⟩ := pure_ok h; trivial
  | typeTwo =>
    simp only [hp] at h
    obtain ⟨rfl, _⟩ := pure_ok h; trivial

theorem readSwitchQs_le (fam : Family) (pps : Pps.Pps) (s s' : Src) (r : Option Bool × Option Nat)
    (h : readSwitchQs fam pps s = .ok (r, s')) : ∀ q, r.2 = some q → q ≤ 51 := by
  unfold readSwitchQs at h
  by_cases hf : fam = .SP ∨ fam = .SI
  · rw [if_pos hf] at h
    bind_step h with sw s1 h1
    bind_step h with d s2 h2
    by_cases hq : 26 + pps.picInitQsMinus26 + d < 0 ∨ 51 < 26 + pps.picInitQsMinus26 + d
    · simp [hq] at h
    rw [if_neg hq] at h
    obtain ⟨rfl, _⟩ := pure_ok h
    intro q hq'
    simp at hq'
    omega
  · rw [if_neg hf] at h
    obtain ⟨rfl, _⟩ := pure_ok h
    intro q hq'; simp at hq'

/-- **C16 (slice headers)**: an accepted slice header refers to parameter sets that are the context entries
named by the ids, `frame_num` and the POC lsb are below the declared moduli, reference counts are at most 32
(minus1 ≤ 31) and SliceQS is in 0…51 -/
theorem C16_slice (ctx : Ctx) (hdr : NalHdr) (s s' : Src) (h : SliceHeader) (sid pid : Nat)
    (hok : parseSliceHeader ctx hdr s = .ok ((h, sid, pid), s')) :
    ∃ pps sps, ctx.pps pid = some pps ∧ pps.spsId = sid ∧ ctx.sps sid = some sps ∧
      h.frameNum < 2 ^ (sps.log2MaxFrameNumMinus4 + 4) ∧ PocLt sps h.picOrderCntLsb ∧
      NraLe h.numRefIdxActive ∧ (∀ q, h.sliceQs = some q → q ≤ 51) ∧ h.sliceTypeId ≤ 9 := by
  unfold parseSliceHeader at hok
  bind_step hok with firstMb s1 h1
  bind_step hok with st s2 h2
  by_cases c9 : st > 9
  · simp [c9] at hok
  simp only [c9, ↓reduceIte] at hok
  bind_step hok with ppsId s3 h3
  by_cases c255 : ppsId > 255
  · simp [c255] at hok
  simp only [c255, ↓reduceIte] at hok
  cases hpps : ctx.pps ppsId with
  | none => simp [hpps] at hok
  | some pps =>
    simp only [hpps] at hok
    cases hsps : ctx.sps pps.spsId with
    | none => simp [hsps] at hok
    | some sps =>
      simp only [hsps] at hok
      unfold readSliceBody at hok
      bind_step hok with cp t1 g1
      bind_step hok with fn t2 g2
      bind_step hok with fp t3 g3
      bind_step hok with idr t4 g4
      bind_step hok with poc t5 g5
      bind_step hok with red t6 g6
      bind_step hok with dir t7 g7
      bind_step hok with nra t8 g8
      by_cases c20 : hdr.nalUnitType = 20 ∨ hdr.nalUnitType = 21
      · simp [c20] at hok
      simp only [c20, ↓reduceIte] at hok
      bind_step hok with mods t9 g9
      bind_step hok with pwt t10 g10
      bind_step hok with mark t11 g11
      bind_step hok with cabac t12 g12
      bind_step hok with qp t13 g13
      bind_step hok with swqs t14 g14
      obtain ⟨sw, qs⟩ := swqs
      simp only at hok
      bind_step hok with db t15 g15
      bind_step hok with u t16 g16
      obtain ⟨hv, _⟩ := pure_ok hok
      simp only [Prod.mk.injEq] at hv
      obtain ⟨rfl, rfl, rfl⟩ := hv
      obtain ⟨f1, _, _⟩ := readBits_exact _ _ _ _ _ g2
      refine ⟨pps, sps, hpps, rfl, hsps, f1, readPoc_lt _ _ _ _ _ _ g5, readNumRefIdxActive_le _ _ _ _ g8, ?_, by show st ≤ 9; omega⟩
      exact readSwitchQs_le _ _ _ _ _ g14

#print axioms C16_slice
end Slice
