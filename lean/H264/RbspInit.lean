import H264.RbspProofs4
import H264.RbspSpec
import H264.NalSrc
/-! The freshly constructed `ByteReader` over a chunked NAL: invariant, and its view in terms of the whole NAL -/
namespace Rbsp

/-- parse state a constructor starts in: `without_skip` (0), `skipping_h264_header` (1), `skipping_bytes(n)` -/
def initState (skip : Nat) : PS := if skip = 0 then .start else .skip skip

def initReader (chunks : List (List UInt8)) (complete : Bool) (skip maxFill : Nat) : BR :=
  ⟨NalSrc.mkChunked chunks complete, initState skip, 0, maxFill⟩

theorem mkChunked_rest (chunks : List (List UInt8)) (complete : Bool) :
    (NalSrc.mkChunked chunks complete).rest = chunks.flatten := by
  cases chunks <;> simp [NalSrc.mkChunked, Chunked.rest]

theorem mkChunked_wf (chunks : List (List UInt8)) (complete : Bool) (hne : ∀ c ∈ chunks, c ≠ []) :
    (NalSrc.mkChunked chunks complete).WF := by
  cases chunks with
  | nil => simp [NalSrc.mkChunked, Chunked.WF]
  | cons h t =>
    simp only [NalSrc.mkChunked, Chunked.WF]
    refine ⟨fun x hx => hne x (by simp [hx]), fun hh => ?_⟩
    exact absurd hh (hne h (by simp))

theorem initReader_inv (chunks : List (List UInt8)) (complete : Bool) (skip maxFill : Nat)
    (hne : ∀ c ∈ chunks, c ≠ []) (hmf : 1 ≤ maxFill) : Inv (initReader chunks complete skip maxFill) := by
  refine ⟨mkChunked_wf chunks complete hne, by simp [initReader], hmf, ?_⟩
  intro n hn
  simp only [initReader, initState] at hn
  split at hn
  · cases hn
  · injection hn with hn; subst hn; exact ⟨rfl, by omega⟩

/-- the view of a fresh reader depends only on the concatenation of the chunks -/
theorem initReader_view (chunks : List (List UInt8)) (complete : Bool) (skip maxFill : Nat) :
    view (initReader chunks complete skip maxFill) = unescFrom (initState skip) chunks.flatten := by
  simp [view, initReader, mkChunked_rest]

/-- skipping `n` bytes is un-escaping what follows them -/
theorem unescFrom_skip_drop (n : Nat) (hn : 1 ≤ n) (xs : List UInt8) :
    unescFrom (.skip n) xs = unescFrom .start (xs.drop n) := by
  induction xs generalizing n with
  | nil => simp [unescFrom]
  | cons x xs ih =>
    by_cases h1 : n ≤ 1
    · have : n = 1 := by omega
      subst this
      simp [unescFrom]
    · have : n = (n - 1) + 1 := by omega
      rw [unescFrom]
      simp only [h1, ↓reduceIte]
      rw [ih (n - 1) (by omega)]
      conv => rhs; rw [this, List.drop_succ_cons]

theorem initState_unesc (skip : Nat) (xs : List UInt8) :
    unescFrom (initState skip) xs = unesc (xs.drop skip) := by
  unfold initState
  by_cases h : skip = 0
  · simp [h, unescFrom_start_eq]
  · simp only [h, ↓reduceIte]
    rw [unescFrom_skip_drop skip (by omega), unescFrom_start_eq]

end Rbsp
