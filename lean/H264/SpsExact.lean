import H264.SpsC04
/-! Prototype: converse direction ("exactness"): whatever a model parser accepts is the standard's encoding of
the value it returns, and that value is within range (this also yields the C16 range invariants). -/
namespace Sps
open Bits

/-- peel one monadic bind off a successful run -/
macro "bind_step " h:ident " with " a:ident s:ident h1:ident : tactic =>
  `(tactic| (rw [bind_ok_iff] at $h:ident; obtain ⟨$a:ident, $s:ident, $h1:ident, $h:ident⟩ := $h:ident))

/-- a property of an optional value -/
def OptWF {α} (p : α → Prop) : Option α → Prop
  | none => True
  | some a => p a

theorem pure_ok {α} {a b : α} {s s' : Src} (h : (pure a : P α) s = .ok (b, s')) : a = b ∧ s = s' := by
  simp at h; exact h

theorem readCpbSpec_exact (s s' : Src) (c : CpbSpec) (h : readCpbSpec s = .ok (c, s')) :
    c.WF ∧ s.bits = encCpbSpec c ++ s'.bits ∧ s'.fin = s.fin := by
  unfold readCpbSpec at h
  bind_step h with a s1 h1
  bind_step h with b s2 h2
  bind_step h with d s3 h3
  obtain ⟨rfl, rfl⟩ := pure_ok h
  obtain ⟨a1, a2, a3⟩ := readUe_exact _ _ _ _ h1
  obtain ⟨b1, b2, b3⟩ := readUe_exact _ _ _ _ h2
  obtain ⟨d2, d3⟩ := readBool_exact _ _ _ _ h3
  refine ⟨⟨a1, b1⟩, ?_, by simp [*]⟩
  simp [encCpbSpec, a2, b2, d2, List.append_assoc]

theorem readCpbSpecs_exact (n : Nat) (s s' : Src) (cs : List CpbSpec) (h : readCpbSpecs n s = .ok (cs, s')) :
    cs.length = n ∧ (∀ c ∈ cs, c.WF) ∧ s.bits = (cs.map encCpbSpec).flatten ++ s'.bits ∧ s'.fin = s.fin := by
  induction n generalizing s cs with
  | zero => obtain ⟨rfl, rfl⟩ := pure_ok h; simp
  | succ n ih =>
    unfold readCpbSpecs at h
    bind_step h with x s1 h1
    bind_step h with xs s2 h2
    obtain ⟨rfl, rfl⟩ := pure_ok h
    obtain ⟨x1, x2, x3⟩ := readCpbSpec_exact _ _ _ h1
    obtain ⟨y0, y1, y2, y3⟩ := ih _ _ h2
    refine ⟨by simp [y0], ?_, ?_, by rw [y3, x3]⟩
    · intro c hc; simp at hc; rcases hc with rfl | hc; exact x1; exact y1 c hc
    · simp [x2, y2, List.append_assoc]

theorem readHrd_exact (s s' : Src) (h : Option Hrd) (hr : readHrd s = .ok (h, s')) :
    OptHrdWF h ∧ s.bits = encHrd h ++ s'.bits ∧ s'.fin = s.fin := by
  unfold readHrd at hr
  bind_step hr with f s0 h0
  obtain ⟨f2, f3⟩ := readBool_exact _ _ _ _ h0
  cases f with
  | false =>
    simp only [Bool.false_eq_true, ↓reduceIte] at hr
    obtain ⟨rfl, rfl⟩ := pure_ok hr
    exact ⟨trivial, by simp [encHrd, f2], f3⟩
  | true =>
    simp only [↓reduceIte] at hr
    bind_step hr with cnt s1 h1
    obtain ⟨c1, c2, c3⟩ := readUe_exact _ _ _ _ h1
    by_cases hc : cnt > 31
    · simp [hc] at hr
    · simp only [hc, ↓reduceIte] at hr
      bind_step hr with brs s2 h2
      bind_step hr with css s3 h3
      bind_step hr with specs s4 h4
      bind_step hr with a s5 h5
      bind_step hr with b s6 h6
      bind_step hr with c s7 h7
      bind_step hr with d s8 h8
      obtain ⟨rfl, rfl⟩ := pure_ok hr
      obtain ⟨p1, p2, p3⟩ := readBits_exact _ _ _ _ _ h2
      obtain ⟨q1, q2, q3⟩ := readBits_exact _ _ _ _ _ h3
      obtain ⟨r0, r1, r2, r3⟩ := readCpbSpecs_exact _ _ _ _ h4
      obtain ⟨t1, t2, t3⟩ := readBits_exact _ _ _ _ _ h5
      obtain ⟨u1, u2, u3⟩ := readBits_exact _ _ _ _ _ h6
      obtain ⟨v1, v2, v3⟩ := readBits_exact _ _ _ _ _ h7
      obtain ⟨w1, w2, w3⟩ := readBits_exact _ _ _ _ _ h8
      refine ⟨⟨p1, q1, by simp [r0], by simp [r0]; omega, r1, t1, u1, v1, w1⟩, ?_, by simp [*]⟩
      simp only [encHrd, r0, Nat.add_sub_cancel, f2, c2, p2, q2, r2, t2, u2, v2, w2, List.append_assoc]


theorem readAspectRatioInfo_exact (s s' : Src) (a : Option AspectRatioInfo)
    (h : readAspectRatioInfo s = .ok (a, s')) :
    OptWF AspectRatioInfo.WF a ∧ s.bits = encAspectRatioInfo a ++ s'.bits ∧ s'.fin = s.fin := by
  unfold readAspectRatioInfo at h
  bind_step h with f s0 h0
  obtain ⟨f2, f3⟩ := readBool_exact _ _ _ _ h0
  cases f with
  | false =>
    simp only [Bool.false_eq_true, ↓reduceIte] at h
    obtain ⟨rfl, rfl⟩ := pure_ok h
    exact ⟨trivial, by simp [encAspectRatioInfo, f2], f3⟩
  | true =>
    simp only [↓reduceIte] at h
    bind_step h with idc s1 h1
    obtain ⟨i1, i2, i3⟩ := readBits_exact _ _ _ _ _ h1
    by_cases h255 : idc = 255
    · simp only [h255, ↓reduceIte] at h
      bind_step h with w s2 h2
      bind_step h with ht s3 h3
      obtain ⟨rfl, rfl⟩ := pure_ok h
      obtain ⟨w1, w2, w3⟩ := readBits_exact _ _ _ _ _ h2
      obtain ⟨t1, t2, t3⟩ := readBits_exact _ _ _ _ _ h3
      subst h255
      exact ⟨⟨w1, t1⟩, by simp [encAspectRatioInfo, f2, i2, w2, t2, List.append_assoc], by simp [*]⟩
    · simp only [h255, ↓reduceIte] at h
      obtain ⟨rfl, rfl⟩ := pure_ok h
      refine ⟨?_, by simp [encAspectRatioInfo, f2, i2, List.append_assoc], by simp [*]⟩
      show idc < 255
      omega

theorem readOverscan_exact (s s' : Src) (o : OverscanAppropriate) (h : readOverscan s = .ok (o, s')) :
    s.bits = encOverscan o ++ s'.bits ∧ s'.fin = s.fin := by
  unfold readOverscan at h
  bind_step h with f s0 h0
  obtain ⟨f2, f3⟩ := readBool_exact _ _ _ _ h0
  cases f with
  | false =>
    simp only [Bool.false_eq_true, ↓reduceIte] at h
    obtain ⟨rfl, rfl⟩ := pure_ok h
    exact ⟨by simp [encOverscan, f2], f3⟩
  | true =>
    simp only [↓reduceIte] at h
    bind_step h with a s1 h1
    obtain ⟨a2, a3⟩ := readBool_exact _ _ _ _ h1
    obtain ⟨rfl, rfl⟩ := pure_ok h
    cases a <;> exact ⟨by simp [encOverscan, f2, a2, List.append_assoc], by simp [*]⟩

theorem readColourDescription_exact (s s' : Src) (c : Option ColourDescription)
    (h : readColourDescription s = .ok (c, s')) :
    OptWF ColourDescription.WF c ∧ s.bits = encColourDescription c ++ s'.bits ∧ s'.fin = s.fin := by
  unfold readColourDescription at h
  bind_step h with f s0 h0
  obtain ⟨f2, f3⟩ := readBool_exact _ _ _ _ h0
  cases f with
  | false =>
    simp only [Bool.false_eq_true, ↓reduceIte] at h
    obtain ⟨rfl, rfl⟩ := pure_ok h
    exact ⟨trivial, by simp [encColourDescription, f2], f3⟩
  | true =>
    simp only [↓reduceIte] at h
    bind_step h with a s1 h1
    bind_step h with b s2 h2
    bind_step h with d s3 h3
    obtain ⟨rfl, rfl⟩ := pure_ok h
    obtain ⟨a1, a2, a3⟩ := readBits_exact _ _ _ _ _ h1
    obtain ⟨b1, b2, b3⟩ := readBits_exact _ _ _ _ _ h2
    obtain ⟨d1, d2, d3⟩ := readBits_exact _ _ _ _ _ h3
    exact ⟨⟨a1, b1, d1⟩, by simp [encColourDescription, f2, a2, b2, d2, List.append_assoc], by simp [*]⟩

theorem readVideoSignalType_exact (s s' : Src) (v : Option VideoSignalType)
    (h : readVideoSignalType s = .ok (v, s')) :
    OptWF VideoSignalType.WF v ∧ s.bits = encVideoSignalType v ++ s'.bits ∧ s'.fin = s.fin := by
  unfold readVideoSignalType at h
  bind_step h with f s0 h0
  obtain ⟨f2, f3⟩ := readBool_exact _ _ _ _ h0
  cases f with
  | false =>
    simp only [Bool.false_eq_true, ↓reduceIte] at h
    obtain ⟨rfl, rfl⟩ := pure_ok h
    exact ⟨trivial, by simp [encVideoSignalType, f2], f3⟩
  | true =>
    simp only [↓reduceIte] at h
    bind_step h with vf s1 h1
    bind_step h with fr s2 h2
    bind_step h with cd s3 h3
    obtain ⟨rfl, rfl⟩ := pure_ok h
    obtain ⟨a1, a2, a3⟩ := readBits_exact _ _ _ _ _ h1
    obtain ⟨b2, b3⟩ := readBool_exact _ _ _ _ h2
    obtain ⟨c1, c2, c3⟩ := readColourDescription_exact _ _ _ h3
    refine ⟨⟨a1, ?_⟩, by simp [encVideoSignalType, f2, a2, b2, c2, List.append_assoc], by simp [*]⟩
    cases cd <;> simpa [OptWF] using c1

theorem readChromaLocInfo_exact (s s' : Src) (c : Option ChromaLocInfo) (h : readChromaLocInfo s = .ok (c, s')) :
    OptWF (fun a => Ue a.top ∧ Ue a.bottom) c ∧
    s.bits = encChromaLocInfo c ++ s'.bits ∧ s'.fin = s.fin := by
  unfold readChromaLocInfo at h
  bind_step h with f s0 h0
  obtain ⟨f2, f3⟩ := readBool_exact _ _ _ _ h0
  cases f with
  | false =>
    simp only [Bool.false_eq_true, ↓reduceIte] at h
    obtain ⟨rfl, rfl⟩ := pure_ok h
    exact ⟨trivial, by simp [encChromaLocInfo, f2], f3⟩
  | true =>
    simp only [↓reduceIte] at h
    bind_step h with a s1 h1
    bind_step h with b s2 h2
    obtain ⟨rfl, rfl⟩ := pure_ok h
    obtain ⟨a1, a2, a3⟩ := readUe_exact _ _ _ _ h1
    obtain ⟨b1, b2, b3⟩ := readUe_exact _ _ _ _ h2
    exact ⟨⟨a1, b1⟩, by simp [encChromaLocInfo, f2, a2, b2, List.append_assoc], by simp [*]⟩

theorem readTimingInfo_exact (s s' : Src) (t : Option TimingInfo) (h : readTimingInfo s = .ok (t, s')) :
    OptWF (fun t => t.numUnitsInTick < 2^32 ∧ t.timeScale < 2^32) t ∧
    s.bits = encTimingInfo t ++ s'.bits ∧ s'.fin = s.fin := by
  unfold readTimingInfo at h
  bind_step h with f s0 h0
  obtain ⟨f2, f3⟩ := readBool_exact _ _ _ _ h0
  cases f with
  | false =>
    simp only [Bool.false_eq_true, ↓reduceIte] at h
    obtain ⟨rfl, rfl⟩ := pure_ok h
    exact ⟨trivial, by simp [encTimingInfo, f2], f3⟩
  | true =>
    simp only [↓reduceIte] at h
    bind_step h with a s1 h1
    bind_step h with b s2 h2
    bind_step h with c s3 h3
    obtain ⟨rfl, rfl⟩ := pure_ok h
    obtain ⟨a1, a2, a3⟩ := readBits_exact _ _ _ _ _ h1
    obtain ⟨b1, b2, b3⟩ := readBits_exact _ _ _ _ _ h2
    obtain ⟨c2, c3⟩ := readBool_exact _ _ _ _ h3
    exact ⟨⟨a1, b1⟩, by simp [encTimingInfo, f2, a2, b2, c2, List.append_assoc], by simp [*]⟩

theorem readBitstreamRestrictions_exact (m : Nat) (s s' : Src) (b : Option BitstreamRestrictions)
    (h : readBitstreamRestrictions m s = .ok (b, s')) :
    OptWF (fun b => b.WF m) b ∧
    s.bits = encBitstreamRestrictions b ++ s'.bits ∧ s'.fin = s.fin := by
  unfold readBitstreamRestrictions at h
  bind_step h with f s0 h0
  obtain ⟨f2, f3⟩ := readBool_exact _ _ _ _ h0
  cases f with
  | false =>
    simp only [Bool.false_eq_true, ↓reduceIte] at h
    obtain ⟨rfl, rfl⟩ := pure_ok h
    exact ⟨trivial, by simp [encBitstreamRestrictions, f2], f3⟩
  | true =>
    simp only [↓reduceIte] at h
    bind_step h with mv s1 h1
    obtain ⟨m2, m3⟩ := readBool_exact _ _ _ _ h1
    bind_step h with a s2 h2
    obtain ⟨a1, a2, a3⟩ := readUe_exact _ _ _ _ h2
    by_cases ca : a > 16
    · simp [ca] at h
    simp only [ca, ↓reduceIte] at h
    bind_step h with b' s3 h3
    obtain ⟨b1, b2, b3⟩ := readUe_exact _ _ _ _ h3
    by_cases cb : b' > 16
    · simp [cb] at h
    simp only [cb, ↓reduceIte] at h
    bind_step h with c s4 h4
    obtain ⟨c1, c2, c3⟩ := readUe_exact _ _ _ _ h4
    by_cases cc : c > 16
    · simp [cc] at h
    simp only [cc, ↓reduceIte] at h
    bind_step h with d s5 h5
    obtain ⟨d1, d2, d3⟩ := readUe_exact _ _ _ _ h5
    by_cases cd : d > 16
    · simp [cd] at h
    simp only [cd, ↓reduceIte] at h
    bind_step h with r s6 h6
    obtain ⟨r1, r2, r3⟩ := readUe_exact _ _ _ _ h6
    bind_step h with mx s7 h7
    obtain ⟨x1, x2, x3⟩ := readUe_exact _ _ _ _ h7
    by_cases cr : r > mx
    · simp [cr] at h
    simp only [cr, ↓reduceIte] at h
    by_cases cm : mx < m
    · simp [cm] at h
    simp only [cm, ↓reduceIte] at h
    obtain ⟨rfl, rfl⟩ := pure_ok h
    refine ⟨?_, ?_, by simp [*]⟩
    · show a ≤ 16 ∧ b' ≤ 16 ∧ c ≤ 16 ∧ d ≤ 16 ∧ r ≤ mx ∧ m ≤ mx ∧ Ue mx
      exact ⟨by omega, by omega, by omega, by omega, by omega, by omega, x1⟩
    simp [encBitstreamRestrictions, f2, m2, a2, b2, c2, d2, r2, x2, List.append_assoc]


theorem optHrd_of (h : Option Hrd) (w : OptHrdWF h) : OptHrdWF h := w

theorem readVui_exact (m : Nat) (s s' : Src) (v : Option Vui) (h : readVui m s = .ok (v, s')) :
    OptWF (fun v => v.WF m) v ∧ s.bits = encVui v ++ s'.bits ∧ s'.fin = s.fin := by
  unfold readVui at h
  bind_step h with f s0 h0
  obtain ⟨f2, f3⟩ := readBool_exact _ _ _ _ h0
  cases f with
  | false =>
    simp only [Bool.false_eq_true, ↓reduceIte] at h
    obtain ⟨rfl, rfl⟩ := pure_ok h
    exact ⟨trivial, by simp [encVui, f2], f3⟩
  | true =>
    simp only [↓reduceIte] at h
    bind_step h with ar s1 h1
    bind_step h with os s2 h2
    bind_step h with vs s3 h3
    bind_step h with cl s4 h4
    bind_step h with ti s5 h5
    bind_step h with nal s6 h6
    bind_step h with vcl s7 h7
    bind_step h with ld s8 h8
    bind_step h with ps s9 h9
    bind_step h with br s10 h10
    obtain ⟨rfl, rfl⟩ := pure_ok h
    obtain ⟨a1, a2, a3⟩ := readAspectRatioInfo_exact _ _ _ h1
    obtain ⟨o2, o3⟩ := readOverscan_exact _ _ _ h2
    obtain ⟨v1, v2, v3⟩ := readVideoSignalType_exact _ _ _ h3
    obtain ⟨c1, c2, c3⟩ := readChromaLocInfo_exact _ _ _ h4
    obtain ⟨t1, t2, t3⟩ := readTimingInfo_exact _ _ _ h5
    obtain ⟨n1, n2, n3⟩ := readHrd_exact _ _ _ h6
    obtain ⟨w1, w2, w3⟩ := readHrd_exact _ _ _ h7
    obtain ⟨p2, p3⟩ := readBool_exact _ _ _ _ h9
    obtain ⟨b1, b2, b3⟩ := readBitstreamRestrictions_exact _ _ _ _ h10
    -- low_delay_hrd_flag
    have hld : ld.isSome = (nal.isSome || vcl.isSome) ∧
        s7.bits = encOptBool ld ++ s8.bits ∧ s8.fin = s7.fin := by
      unfold readLowDelayFlag at h8
      by_cases hc : (nal.isSome || vcl.isSome) = true
      · simp only [hc, ↓reduceIte] at h8
        bind_step h8 with bb s7' h8'
        obtain ⟨rfl, rfl⟩ := pure_ok h8
        obtain ⟨q2, q3⟩ := readBool_exact _ _ _ _ h8'
        exact ⟨by simp [hc], by simp [q2, encOptBool], q3⟩
      · simp only [hc, Bool.false_eq_true, ↓reduceIte] at h8
        obtain ⟨rfl, rfl⟩ := pure_ok h8
        have : (nal.isSome || vcl.isSome) = false := by simpa using hc
        exact ⟨by simp [this], by simp [encOptBool], rfl⟩
    obtain ⟨l1, l2, l3⟩ := hld
    refine ⟨?_, ?_, by simp [*]⟩
    · show Vui.WF _ m
      refine ⟨?_, ?_, ?_, ?_, n1, w1, l1, ?_⟩
      · cases ar <;> simpa [OptWF] using a1
      · cases vs <;> simpa [OptWF] using v1
      · cases cl <;> simpa [OptWF] using c1
      · cases ti <;> simpa [OptWF] using t1
      · cases br <;> simpa [OptWF] using b1
    · simp only [encVui, f2, a2, o2, v2, c2, t2, n2, w2, l2, p2, b2, List.append_assoc]

theorem readFrameCropping_exact (s s' : Src) (c : Option FrameCropping) (h : readFrameCropping s = .ok (c, s')) :
    OptWF (fun c => Ue c.left ∧ Ue c.right ∧ Ue c.top ∧ Ue c.bottom) c ∧
    s.bits = encFrameCropping c ++ s'.bits ∧ s'.fin = s.fin := by
  unfold readFrameCropping at h
  bind_step h with f s0 h0
  obtain ⟨f2, f3⟩ := readBool_exact _ _ _ _ h0
  cases f with
  | false =>
    simp only [Bool.false_eq_true, ↓reduceIte] at h
    obtain ⟨rfl, rfl⟩ := pure_ok h
    exact ⟨trivial, by simp [encFrameCropping, f2], f3⟩
  | true =>
    simp only [↓reduceIte] at h
    bind_step h with l s1 h1
    bind_step h with r s2 h2
    bind_step h with t s3 h3
    bind_step h with b s4 h4
    obtain ⟨rfl, rfl⟩ := pure_ok h
    obtain ⟨l1, l2, l3⟩ := readUe_exact _ _ _ _ h1
    obtain ⟨r1, r2, r3⟩ := readUe_exact _ _ _ _ h2
    obtain ⟨t1, t2, t3⟩ := readUe_exact _ _ _ _ h3
    obtain ⟨b1, b2, b3⟩ := readUe_exact _ _ _ _ h4
    exact ⟨⟨l1, r1, t1, b1⟩, by simp [encFrameCropping, f2, l2, r2, t2, b2, List.append_assoc], by simp [*]⟩

theorem readFrameMbsFlags_exact (s s' : Src) (f : FrameMbsFlags) (h : readFrameMbsFlags s = .ok (f, s')) :
    s.bits = encFrameMbsFlags f ++ s'.bits ∧ s'.fin = s.fin := by
  unfold readFrameMbsFlags at h
  bind_step h with fl s0 h0
  obtain ⟨f2, f3⟩ := readBool_exact _ _ _ _ h0
  cases fl with
  | true =>
    simp only [↓reduceIte] at h
    obtain ⟨rfl, rfl⟩ := pure_ok h
    exact ⟨by simp [encFrameMbsFlags, f2], f3⟩
  | false =>
    simp only [Bool.false_eq_true, ↓reduceIte] at h
    bind_step h with m s1 h1
    obtain ⟨m2, m3⟩ := readBool_exact _ _ _ _ h1
    obtain ⟨rfl, rfl⟩ := pure_ok h
    exact ⟨by simp [encFrameMbsFlags, f2, m2, List.append_assoc], by simp [*]⟩

theorem readSeList_exact (name) (n : Nat) (s s' : Src) (xs : List Int) (h : readSeList name n s = .ok (xs, s')) :
    xs.length = n ∧ (∀ x ∈ xs, SeRange x) ∧ s.bits = (xs.map encSe).flatten ++ s'.bits ∧ s'.fin = s.fin := by
  induction n generalizing s xs with
  | zero => obtain ⟨rfl, rfl⟩ := pure_ok h; simp
  | succ n ih =>
    unfold readSeList at h
    bind_step h with x s1 h1
    bind_step h with ys s2 h2
    obtain ⟨rfl, rfl⟩ := pure_ok h
    obtain ⟨x1, x2, x3⟩ := readSe_exact _ _ _ _ h1
    obtain ⟨y0, y1, y2, y3⟩ := ih _ _ h2
    refine ⟨by simp [y0], ?_, by simp [x2, y2, List.append_assoc], by rw [y3, x3]⟩
    intro z hz; simp at hz; rcases hz with rfl | hz; exact x1; exact y1 z hz

theorem readPicOrderCnt_exact (s s' : Src) (p : PicOrderCntType) (h : readPicOrderCnt s = .ok (p, s')) :
    p.WF ∧ s.bits = encPicOrderCnt p ++ s'.bits ∧ s'.fin = s.fin := by
  unfold readPicOrderCnt at h
  bind_step h with t s0 h0
  obtain ⟨t1, t2, t3⟩ := readUe_exact _ _ _ _ h0
  by_cases c0 : t = 0
  · subst c0
    simp only [↓reduceIte] at h
    bind_step h with v s1 h1
    obtain ⟨v1, v2, v3⟩ := readUe_exact _ _ _ _ h1
    by_cases cv : v > 12
    · simp [cv] at h
    simp only [cv, ↓reduceIte] at h
    obtain ⟨rfl, rfl⟩ := pure_ok h
    exact ⟨by show v ≤ 12; omega, by simp [encPicOrderCnt, t2, v2, List.append_assoc], by simp [*]⟩
  · simp only [c0, ↓reduceIte] at h
    by_cases c1 : t = 1
    · subst c1
      simp only [↓reduceIte] at h
      bind_step h with f s1 h1
      bind_step h with a s2 h2
      bind_step h with b s3 h3
      bind_step h with n s4 h4
      obtain ⟨f2, f3⟩ := readBool_exact _ _ _ _ h1
      obtain ⟨a1, a2, a3⟩ := readSe_exact _ _ _ _ h2
      obtain ⟨b1, b2, b3⟩ := readSe_exact _ _ _ _ h3
      obtain ⟨n1, n2, n3⟩ := readUe_exact _ _ _ _ h4
      by_cases cn : n > 255
      · simp [cn] at h
      simp only [cn, ↓reduceIte] at h
      bind_step h with offs s5 h5
      obtain ⟨rfl, rfl⟩ := pure_ok h
      obtain ⟨o0, o1, o2, o3⟩ := readSeList_exact _ _ _ _ _ h5
      refine ⟨⟨a1, b1, by omega, o1⟩, ?_, by simp [*]⟩
      simp [encPicOrderCnt, t2, f2, a2, b2, n2, o2, o0, List.append_assoc]
    · simp only [c1, ↓reduceIte] at h
      by_cases c2 : t = 2
      · subst c2
        simp only [↓reduceIte] at h
        obtain ⟨rfl, rfl⟩ := pure_ok h
        exact ⟨trivial, by simp [encPicOrderCnt, t2], t3⟩
      · simp [c2] at h


/-! ### scaling lists: what was read is the standard's process run on *some* coded delta sequence -/

theorem fillScalingList_exact (n j last next : Nat) (ud : Bool) (acc : List Nat) (s s' : Src)
    (l' : List Nat) (u : Bool) (h : fillScalingList n j last next ud acc s = .ok ((l', u), s')) :
    ∃ ds l, specFill n j last next ud ds = some (l, u) ∧ l' = acc.reverse ++ l ∧
      (∀ d ∈ ds, -128 ≤ d ∧ d ≤ 127) ∧ s.bits = (ds.map encSe).flatten ++ s'.bits ∧ s'.fin = s.fin := by
  induction n generalizing j last next ud acc s with
  | zero =>
    simp only [fillScalingList] at h
    obtain ⟨h1, rfl⟩ := pure_ok h
    simp only [Prod.mk.injEq] at h1
    obtain ⟨rfl, rfl⟩ := h1
    exact ⟨[], [], by simp [specFill], by simp, by simp, by simp, rfl⟩
  | succ n ih =>
    simp only [fillScalingList] at h
    by_cases hn : next ≠ 0
    · rw [if_pos hn] at h
      bind_step h with delta s1 h1
      obtain ⟨d1, d2, d3⟩ := readSe_exact _ _ _ _ h1
      by_cases hr : delta < -128 ∨ delta > 127
      · simp [hr] at h
      rw [if_neg hr] at h
      obtain ⟨ds, l, hs, hl, hd, hb, hf⟩ := ih _ _ _ _ _ _ h
      refine ⟨delta :: ds,
        (if ((last : Int) + delta + 256).toNat % 256 = 0 then last else ((last : Int) + delta + 256).toNat % 256) :: l,
        ?_, ?_, ?_, ?_, by rw [hf, d3]⟩
      · simp only [specFill, hn, ↓reduceIte, ne_eq, not_false_eq_true, hs, Option.map_some]
      · rw [hl]; simp
      · intro d hdm; simp at hdm; rcases hdm with rfl | hdm
        · omega
        · exact hd d hdm
      · simp [d2, hb, List.append_assoc]
    · rw [if_neg hn] at h
      obtain ⟨ds, l, hs, hl, hd, hb, hf⟩ := ih _ _ _ _ _ _ h
      refine ⟨ds, last :: l, ?_, ?_, hd, hb, hf⟩
      · simp only [specFill, hn, ↓reduceIte, hs, Option.map_some]
      · rw [hl]; simp

theorem readScalingList_exact (size : Nat) (s s' : Src) (r : ScalingList)
    (h : (do let p ← readBool "seq_scaling_list_present_flag"; readScalingList size p) s = .ok (r, s')) :
    ∃ sl, specScalingList size sl = some r ∧ deltasOk sl ∧ s.bits = encScalingList sl ++ s'.bits ∧ s'.fin = s.fin := by
  bind_step h with p s0 h0
  obtain ⟨p2, p3⟩ := readBool_exact _ _ _ _ h0
  unfold readScalingList at h
  cases p with
  | false =>
    simp only [Bool.not_false, ↓reduceIte] at h
    obtain ⟨rfl, rfl⟩ := pure_ok h
    exact ⟨none, by simp [specScalingList], trivial, by simp [encScalingList, p2], p3⟩
  | true =>
    simp only [Bool.not_true, Bool.false_eq_true, ↓reduceIte] at h
    bind_step h with lu s1 h1
    obtain ⟨l', u⟩ := lu
    obtain ⟨ds, l, hs, hl, hd, hb, hf⟩ := fillScalingList_exact _ _ _ _ _ _ _ _ _ _ h1
    simp only [List.reverse_nil, List.nil_append] at hl
    subst hl
    refine ⟨some ds, ?_, hd, ?_, ?_⟩
    · simp only [specScalingList, hs, Option.map_some]
      cases u with
      | true => simp only [↓reduceIte] at h ⊢; obtain ⟨rfl, _⟩ := pure_ok h; rfl
      | false => simp only [Bool.false_eq_true, ↓reduceIte] at h ⊢; obtain ⟨rfl, _⟩ := pure_ok h; rfl
    · have hs' : s1 = s' := by cases u <;> simp at h <;> exact h.2
      rw [← hs']; simp [encScalingList, p2, hb, List.append_assoc]
    · have hs' : s1 = s' := by cases u <;> simp at h <;> exact h.2
      rw [← hs', hf, p3]


theorem readScalingLists_exact (size4 : Nat) (n i : Nat) (a4 a8 : List ScalingList) (s s' : Src)
    (m : SeqScalingMatrix) (h : readScalingLists size4 n i a4 a8 s = .ok (m, s')) :
    ∃ ls x y, ls.length = n ∧ specLists size4 i ls = some (x, y) ∧ (∀ sl ∈ ls, deltasOk sl) ∧
      m = ⟨a4.reverse ++ x, a8.reverse ++ y⟩ ∧
      s.bits = (ls.map encScalingList).flatten ++ s'.bits ∧ s'.fin = s.fin := by
  induction n generalizing i a4 a8 s with
  | zero =>
    simp only [readScalingLists] at h
    obtain ⟨rfl, rfl⟩ := pure_ok h
    exact ⟨[], [], [], rfl, by simp [specLists], by simp, by simp, by simp, rfl⟩
  | succ n ih =>
    simp only [readScalingLists] at h
    by_cases hi : i < size4
    · -- 4x4 list
      have h' : (do let p ← readBool "seq_scaling_list_present_flag"
                    let sl ← readScalingList 16 p
                    readScalingLists size4 n (i+1) (sl :: a4) a8) s = .ok (m, s') := by
        simpa [hi] using h
      rw [bind_ok_iff] at h'
      obtain ⟨p, s0, hp, h'⟩ := h'
      rw [bind_ok_iff] at h'
      obtain ⟨sl, s1, hsl, h'⟩ := h'
      have hcomb : (do let p ← readBool "seq_scaling_list_present_flag"; readScalingList 16 p) s = .ok (sl, s1) := by
        rw [bind_ok_iff]; exact ⟨p, s0, hp, hsl⟩
      obtain ⟨syn, hs1, hd1, hb1, hf1⟩ := readScalingList_exact 16 s s1 sl hcomb
      obtain ⟨ls, x, y, hlen, hsp, hd, hm, hb, hf⟩ := ih _ _ _ _ h'
      refine ⟨syn :: ls, sl :: x, y, by simp [hlen], ?_, ?_, ?_, ?_, by rw [hf, hf1]⟩
      · simp only [specLists, hi, ↓reduceIte, hs1, Option.bind_some, hsp, Option.map_some]
      · intro z hz; simp at hz; rcases hz with rfl | hz; exact hd1; exact hd z hz
      · rw [hm]; simp
      · simp [hb1, hb, List.append_assoc]
    · have h' : (do let p ← readBool "seq_scaling_list_present_flag"
                    let sl ← readScalingList 64 p
                    readScalingLists size4 n (i+1) a4 (sl :: a8)) s = .ok (m, s') := by
        simpa [hi] using h
      rw [bind_ok_iff] at h'
      obtain ⟨p, s0, hp, h'⟩ := h'
      rw [bind_ok_iff] at h'
      obtain ⟨sl, s1, hsl, h'⟩ := h'
      have hcomb : (do let p ← readBool "seq_scaling_list_present_flag"; readScalingList 64 p) s = .ok (sl, s1) := by
        rw [bind_ok_iff]; exact ⟨p, s0, hp, hsl⟩
      obtain ⟨syn, hs1, hd1, hb1, hf1⟩ := readScalingList_exact 64 s s1 sl hcomb
      obtain ⟨ls, x, y, hlen, hsp, hd, hm, hb, hf⟩ := ih _ _ _ _ h'
      refine ⟨syn :: ls, x, sl :: y, by simp [hlen], ?_, ?_, ?_, ?_, by rw [hf, hf1]⟩
      · simp only [specLists, hi, ↓reduceIte, hs1, Option.bind_some, hsp, Option.map_some]
      · intro z hz; simp at hz; rcases hz with rfl | hz; exact hd1; exact hd z hz
      · rw [hm]; simp
      · simp [hb1, hb, List.append_assoc]

theorem readChromaInfo_exact (profileIdc : Nat) (hmvc : mvcOnlyProfile profileIdc = false)
    (s s' : Src) (c : ChromaInfo)
    (h : readChromaInfo profileIdc s = .ok (c, s')) :
    ∃ sm, c.WF profileIdc sm ∧ s.bits = encChromaInfo profileIdc c sm ++ s'.bits ∧ s'.fin = s.fin := by
  have hstd := hasChromaInfo_std profileIdc hmvc
  unfold readChromaInfo at h
  by_cases hp : hasChromaInfo profileIdc = true
  · simp only [hp, ↓reduceIte] at h
    bind_step h with idc s1 h1
    bind_step h with sep s2 h2
    bind_step h with bl s3 h3
    bind_step h with bc s4 h4
    bind_step h with q s5 h5
    bind_step h with sm s6 h6
    obtain ⟨rfl, rfl⟩ := pure_ok h
    obtain ⟨i1, i2, i3⟩ := readUe_exact _ _ _ _ h1
    obtain ⟨q2, q3⟩ := readBool_exact _ _ _ _ h5
    -- bit depths
    have hbd : ∀ (t t' : Src) (v : Nat), readBitDepthMinus8 t = .ok (v, t') →
        v ≤ 6 ∧ t.bits = encUe v ++ t'.bits ∧ t'.fin = t.fin := by
      intro t t' v hv
      unfold readBitDepthMinus8 at hv
      bind_step hv with w t1 hw
      obtain ⟨w1, w2, w3⟩ := readUe_exact _ _ _ _ hw
      by_cases c6 : w > 6
      · simp [c6] at hv
      simp only [c6, ↓reduceIte] at hv
      obtain ⟨rfl, rfl⟩ := pure_ok hv
      exact ⟨by omega, w2, w3⟩
    obtain ⟨l1, l2, l3⟩ := hbd _ _ _ h3
    obtain ⟨c1, c2, c3⟩ := hbd _ _ _ h4
    -- separate_colour_plane_flag
    have hsep : (idc ≠ 3 → sep = false) ∧
        s1.bits = (if idc = 3 then encBool sep else []) ++ s2.bits ∧ s2.fin = s1.fin := by
      unfold readSeparateColourPlane at h2
      by_cases h3' : idc = 3
      · simp only [h3', ↓reduceIte] at h2 ⊢
        obtain ⟨e2, e3⟩ := readBool_exact _ _ _ _ h2
        exact ⟨by simp, e2, e3⟩
      · simp only [h3', ↓reduceIte] at h2 ⊢
        obtain ⟨rfl, rfl⟩ := pure_ok h2
        exact ⟨fun _ => rfl, by simp, rfl⟩
    obtain ⟨p1, p2, p3⟩ := hsep
    -- scaling matrix
    have hidc : chromaFormatIdc (ChromaFormat.ofIdc idc) = idc := by
      unfold ChromaFormat.ofIdc
      split <;> simp [chromaFormatIdc]
    have hsm : ∃ syn, MatrixDerives idc syn sm ∧
        s5.bits = (match syn with
          | none => encBool false
          | some lists => encBool true ++ (lists.map encScalingList).flatten) ++ s6.bits ∧ s6.fin = s5.fin := by
      unfold readOptScalingMatrix at h6
      bind_step h6 with pres t0 hpres
      obtain ⟨e2, e3⟩ := readBool_exact _ _ _ _ hpres
      cases pres with
      | false =>
        simp only [Bool.false_eq_true, ↓reduceIte] at h6
        obtain ⟨rfl, rfl⟩ := pure_ok h6
        exact ⟨none, rfl, by simp [e2], e3⟩
      | true =>
        simp only [↓reduceIte] at h6
        bind_step h6 with mm t1 hmm
        obtain ⟨rfl, rfl⟩ := pure_ok h6
        unfold readSeqScalingMatrix at hmm
        obtain ⟨ls, x, y, hlen, hsp, hd, hm, hb, hf⟩ := readScalingLists_exact _ _ _ _ _ _ _ _ hmm
        refine ⟨some ls, ⟨hlen, hd, x, y, hsp, by rw [hm]; simp⟩, by simp [e2, hb, List.append_assoc], by rw [hf, e3]⟩
    obtain ⟨syn, m1, m2, m3⟩ := hsm
    refine ⟨syn, ?_, ?_, by simp [*]⟩
    · unfold ChromaInfo.WF
      rw [← hstd]
      simp only [hp, ↓reduceIte, hidc]
      exact ⟨i1, trivial, p1, l1, c1, m1⟩
    · simp only [encChromaInfo, ← hstd, hp, ↓reduceIte, hidc, i2, p2, l2, c2, q2, m2, List.append_assoc]
      cases syn <;> simp [List.append_assoc]
  · have hp' : hasChromaInfo profileIdc = false := by simpa using hp
    simp only [hp', Bool.false_eq_true, ↓reduceIte] at h
    obtain ⟨rfl, rfl⟩ := pure_ok h
    exact ⟨none, by simp [ChromaInfo.WF, ← hstd, hp'], by simp [encChromaInfo, ← hstd, hp'], rfl⟩


theorem finishRbsp_exact (s s' : Src) (h : finishRbsp s = .ok ((), s')) :
    s.fin = .eof ∧ ∃ z, s.bits = trailing z := by
  unfold finishRbsp at h
  cases hb : s.bits with
  | nil => simp [hb] at h
  | cons b rest =>
    cases b with
    | false => simp only [hb] at h; split at h <;> simp at h
    | true =>
      simp only [hb] at h
      by_cases ha : rest.any id
      · simp [ha] at h
      · simp only [ha, Bool.false_eq_true, ↓reduceIte] at h
        by_cases he : s.fin = .eof
        · refine ⟨he, rest.length, ?_⟩
          unfold trailing
          congr 1
          apply List.eq_replicate_iff.mpr
          refine ⟨rfl, ?_⟩
          intro b hb'
          cases b with
          | false => rfl
          | true => exact absurd (List.any_eq_true.mpr ⟨true, hb', rfl⟩) ha
        · simp [he] at h

/-- **C04 (converse)** and **C16 (SPS)**: whatever bit string the SPS parser accepts is the standard's encoding of
the returned structure (for some coded scaling-list syntax that derives the returned lists) followed by the
trailing bits and zero bits only — no bit skipped, read twice or interpreted differently — and the returned
structure satisfies every range of `Sps.WF`. It also needed to see the true end of the RBSP. -/
theorem C04_converse (s s' : Src) (v : Sps) (h : parseSps s = .ok (v, s'))
    (hmvc : mvcOnlyProfile v.profileIdc = false) :
    ∃ sm z, v.WF sm ∧ s.bits = encSps v sm ++ trailing z ∧ s.fin = .eof := by
  unfold parseSps at h
  bind_step h with p s1 h1
  bind_step h with cf s2 h2
  bind_step h with lv s3 h3
  bind_step h with id s4 h4
  obtain ⟨p1, p2, p3⟩ := readBits_exact _ _ _ _ _ h1
  obtain ⟨c1, c2, c3⟩ := readBits_exact _ _ _ _ _ h2
  obtain ⟨l1, l2, l3⟩ := readBits_exact _ _ _ _ _ h3
  obtain ⟨i1, i2, i3⟩ := readUe_exact _ _ _ _ h4
  by_cases cid : id > 31
  · simp [cid] at h
  simp only [cid, ↓reduceIte] at h
  bind_step h with ci s5 h5
  bind_step h with l2v s6 h6
  obtain ⟨f1, f2, f3⟩ := readUe_exact _ _ _ _ h6
  by_cases cl2 : l2v > 12
  · simp [cl2] at h
  simp only [cl2, ↓reduceIte] at h
  bind_step h with poc s7 h7
  obtain ⟨o1, o2, o3⟩ := readPicOrderCnt_exact _ _ _ h7
  bind_step h with mr s8 h8
  obtain ⟨m1, m2, m3⟩ := readUe_exact _ _ _ _ h8
  bind_step h with gaps s9 h9
  obtain ⟨g2, g3⟩ := readBool_exact _ _ _ _ h9
  bind_step h with w s10 h10
  obtain ⟨w1, w2, w3⟩ := readUe_exact _ _ _ _ h10
  bind_step h with ht s11 h11
  obtain ⟨t1, t2, t3⟩ := readUe_exact _ _ _ _ h11
  bind_step h with fm s12 h12
  obtain ⟨fm2, fm3⟩ := readFrameMbsFlags_exact _ _ _ h12
  bind_step h with d8 s13 h13
  obtain ⟨d2, d3⟩ := readBool_exact _ _ _ _ h13
  bind_step h with fc s14 h14
  obtain ⟨fc1, fc2, fc3⟩ := readFrameCropping_exact _ _ _ h14
  bind_step h with vui s15 h15
  obtain ⟨v1, v2, v3⟩ := readVui_exact _ _ _ _ h15
  bind_step h with u s16 h16
  obtain ⟨rfl, rfl⟩ := pure_ok h
  have hmvc' : mvcOnlyProfile p = false := hmvc
  obtain ⟨sm, ci1, ci2, ci3⟩ := readChromaInfo_exact _ hmvc' _ _ _ h5
  obtain ⟨e1, z, e2⟩ := finishRbsp_exact _ _ h16
  refine ⟨sm, z, ?_, ?_, ?_⟩
  · refine ⟨p1, c1, l1, by show id ≤ 31; omega, ci1, by show l2v ≤ 12; omega, o1, m1, w1, t1, ?_, ?_⟩
    · cases fc <;> simpa [OptWF] using fc1
    · cases vui <;> simpa [OptWF] using v1
  · simp only [encSps, p2, c2, l2, i2, ci2, f2, o2, m2, g2, w2, t2, fm2, d2, fc2, v2, e2, List.append_assoc]
  · rw [← e1, v3, fc3, d3, fm3, t3, w3, g3, m3, o3, f3, ci3, i3, l3, c3, p3]

/-- **C17 (SPS)**: the SPS parser never succeeds on a partially buffered NAL -/
theorem parseSps_needs_eof (s : Src) (h : s.fin ≠ .eof) (v : Sps) (s' : Src)
    (hmvc : mvcOnlyProfile v.profileIdc = false) : parseSps s ≠ .ok (v, s') := by
  intro hok
  obtain ⟨_, _, _, _, he⟩ := C04_converse s s' v hok hmvc
  exact h he

#print axioms C04_converse
end Sps
