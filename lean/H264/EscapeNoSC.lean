import H264.Serialise
import H264.RbspSpec
/-! Prototype for C12: an emulation-prevented NAL never contains a start-code pattern -/
namespace AnnexB
open Rbsp

theorem noSC_short (l : List UInt8) (h : l.length < 3) : noSC l = true := by
  match l with
  | [] => simp [noSC]
  | [_] => simp [noSC]
  | [_, _] => simp [noSC]
  | _ :: _ :: _ :: _ => simp at h; omega

theorem noSC_cons_nz (a : UInt8) (l : List UInt8) (h : a ≠ 0) : noSC (a :: l) = noSC l := by
  match l with
  | [] => simp [noSC]
  | [b] => simp [noSC]
  | b :: c :: rest => rw [noSC_cons3]; simp [h]

theorem noSC_0_nz (b : UInt8) (l : List UInt8) (h : b ≠ 0) : noSC (0 :: b :: l) = noSC (b :: l) := by
  match l with
  | [] => simp [noSC]
  | c :: rest => rw [noSC_cons3]; simp [h]

theorem noSC_00 (c : UInt8) (l : List UInt8) :
    noSC (0 :: 0 :: c :: l) = (!(c = 0 || c = 1) && noSC (0 :: c :: l)) := by
  rw [noSC_cons3]; simp

def zeros' (z : Nat) : List UInt8 := List.replicate z 0

/-- after `z ≤ 2` zero bytes, the escaped form of any payload contains no `00 00 00` / `00 00 01` -/
theorem noSC_escapeGo (p : List UInt8) (z : Nat) (hz : z ≤ 2) : noSC (zeros' z ++ escapeGo z p) = true := by
  induction p generalizing z with
  | nil =>
    match z, hz with
    | 0, _ => simp [escapeGo, zeros', noSC]
    | 1, _ => simp [escapeGo, zeros', noSC]
    | 2, _ => simp [escapeGo, zeros', List.replicate, noSC]
  | cons b bs ih =>
    have i0 : noSC (escapeGo 0 bs) = true := by simpa [zeros'] using ih 0 (by omega)
    have i1 : noSC (0 :: escapeGo 1 bs) = true := by simpa [zeros', List.replicate] using ih 1 (by omega)
    have i2 : noSC (0 :: 0 :: escapeGo 2 bs) = true := by simpa [zeros', List.replicate] using ih 2 (by omega)
    by_cases hb0 : b = 0
    · subst hb0
      match z, hz with
      | 0, _ => simpa [escapeGo, zeros'] using i1
      | 1, _ => simpa [escapeGo, zeros', List.replicate] using i2
      | 2, _ =>
        -- 00 00 | 03 00 …
        simp only [escapeGo, zeros', List.replicate, List.cons_append, List.nil_append]
        have h3 : (3 : UInt8) ≠ 0 := by decide
        simp only [show (2 ≥ 2 ∧ (0:UInt8) ≤ 3) from ⟨by omega, by decide⟩, and_self, ↓reduceIte]
        rw [noSC_00, noSC_0_nz _ _ h3, noSC_cons_nz _ _ h3]
        simp [i1]
    · match z, hz with
      | 0, _ =>
        simp only [escapeGo, zeros', List.replicate, List.nil_append, hb0, ↓reduceIte]
        have : ¬ (0 ≥ 2 ∧ b ≤ 3) := by omega
        simp only [this, ↓reduceIte]
        rw [noSC_cons_nz _ _ hb0]; exact i0
      | 1, _ =>
        simp only [escapeGo, zeros', List.replicate, List.cons_append, List.nil_append, hb0, ↓reduceIte]
        have : ¬ (1 ≥ 2 ∧ b ≤ 3) := by omega
        simp only [this, ↓reduceIte]
        rw [noSC_0_nz _ _ hb0, noSC_cons_nz _ _ hb0]; exact i0
      | 2, _ =>
        simp only [escapeGo, zeros', List.replicate, List.cons_append, List.nil_append, hb0, ↓reduceIte]
        have h3 : (3 : UInt8) ≠ 0 := by decide
        by_cases hle : b ≤ 3
        · simp only [show (2 ≥ 2 ∧ b ≤ 3) from ⟨by omega, hle⟩, and_self, ↓reduceIte]
          rw [noSC_00, noSC_0_nz _ _ h3, noSC_cons_nz _ _ h3, noSC_cons_nz _ _ hb0]
          simp [i0]
        · have : ¬ (2 ≥ 2 ∧ b ≤ 3) := by intro h; exact hle h.2
          simp only [this, ↓reduceIte]
          have hb1 : b ≠ 1 := by intro h; subst h; exact hle (by decide)
          rw [noSC_00, noSC_0_nz _ _ hb0, noSC_cons_nz _ _ hb0]
          simp [hb0, hb1, i0]

/-- a NAL built as `header :: escape rbsp` with a non-zero header byte has no start-code pattern inside -/
theorem noSC_nal (hdr : UInt8) (h : hdr ≠ 0) (rbsp : List UInt8) : noSC (hdr :: escape rbsp) = true := by
  rw [noSC_cons_nz _ _ h]
  simpa [zeros', escape] using noSC_escapeGo rbsp 0 (by omega)

#print axioms noSC_nal
end AnnexB
