import H264.RbspProofs4
import H264.RbspSpec
import H264.Fast
/-! Prototype for C02: the one-shot `decode_nal` (post-fix D11) and its borrow rule -/
namespace Rbsp

/-- drain a reader with `fill_buf`/`consume(all)` until it reports the end or an error -/
def drainLoop : Nat → BR → List UInt8 → List UInt8 × Option IoKind
  | 0, _, acc => (acc, none)
  | fuel+1, r, acc =>
    match fillBuf r with
    | (_, .error k) => (acc, some k)
    | (r', .ok buf) => if buf = [] then (acc, none) else drainLoop fuel (consume r' buf.length) (acc ++ buf)

/-- the same loop with a reversed accumulator (linear time); the compiler uses it in place of `drainLoop` -/
def drainLoopFast : Nat → BR → List UInt8 → List UInt8 × Option IoKind
  | 0, _, ar => (ar.reverse, none)
  | fuel+1, r, ar =>
    match fillBuf r with
    | (_, .error k) => (ar.reverse, some k)
    | (r', .ok buf) => if buf = [] then (ar.reverse, none) else drainLoopFast fuel (consume r' buf.length) (buf.reverse ++ ar)

theorem drainLoopFast_eq (fuel : Nat) (r : BR) (ar : List UInt8) :
    drainLoopFast fuel r ar = drainLoop fuel r ar.reverse := by
  induction fuel generalizing r ar with
  | zero => rfl
  | succ f ih =>
    unfold drainLoopFast drainLoop
    split
    · rfl
    · split
      · rfl
      · rw [ih]; simp

def drainLoop' (fuel : Nat) (r : BR) (acc : List UInt8) : List UInt8 × Option IoKind := drainLoopFast fuel r acc.reverse

@[csimp] theorem drainLoop_eq_fast : @drainLoop = @drainLoop' := by
  funext fuel r acc; unfold drainLoop'; rw [drainLoopFast_eq]; simp

/-- `decode_nal(nal)`: `(borrowed?, bytes)` or `InvalidData` -/
def decodeNal (nal : List UInt8) : Except IoKind (Bool × List UInt8) :=
  let payload := nal.drop 1
  let r0 : BR := ⟨⟨nal, [], true⟩, .skip 1, 0, nal.length + 1⟩   -- max_fill = usize::MAX: never limits
  match fillBuf r0 with
  | (_, .error k) => .error k
  | (r1, .ok buf) =>
    if buf.length = payload.length then .ok (true, payload)
    else match drainLoop (nal.length + 2) r1 [] with
      | (_, some k) => .error k
      | (out, none) => .ok (false, out)

/-- every drained prefix plus the remaining view is the initial view -/
theorem drainLoop_spec (fuel : Nat) (r : BR) (hinv : Inv r) (acc : List UInt8) :
    match drainLoop fuel r acc with
    | (out, none) => ∃ rest, out ++ rest = acc ++ (view r).1
    | (out, some .invalidData) => (view r).2 = false ∧ ∃ rest, out ++ rest = acc ++ (view r).1
    | (out, some .wouldBlock) => r.inner.complete = false
    | (_, some .eof) => False := by
  induction fuel generalizing r acc with
  | zero => exact ⟨(view r).1, rfl⟩
  | succ fuel ih =>
    obtain ⟨f1, f2, f3, f4, f5⟩ := fillBuf_spec r hinv
    unfold drainLoop
    cases hres : (fillBuf r).2 with
    | error k =>
      have : fillBuf r = ((fillBuf r).1, .error k) := by rw [← hres]
      rw [this]; simp only
      rw [hres] at f5
      cases k with
      | wouldBlock => exact f5.1
      | invalidData => exact ⟨f5, (view r).1, rfl⟩
      | eof => exact f5
    | ok buf =>
      have : fillBuf r = ((fillBuf r).1, .ok buf) := by rw [← hres]
      rw [this]; simp only
      rw [hres] at f5
      obtain ⟨hbuf, hpre, hemp⟩ := f5
      by_cases hb : buf = []
      · simp only [hb, ↓reduceIte]; exact ⟨(view r).1, rfl⟩
      · simp only [hb, ↓reduceIte]
        have hamt : buf.length ≤ (fillBuf r).1.i := by rw [hbuf, List.length_take]; omega
        obtain ⟨c1, c2, c3, c4⟩ := consume_spec (fillBuf r).1 f1 buf.length hamt
        have ihh := ih (consume (fillBuf r).1 buf.length) c1 (acc ++ buf)
        obtain ⟨t, ht⟩ := hpre
        have hview : (view (consume (fillBuf r).1 buf.length)) = (t, (view r).2) := by
          rw [c2, f2, ← ht]; simp
        cases hd : drainLoop fuel (consume (fillBuf r).1 buf.length) (acc ++ buf) with
        | mk out res =>
          rw [hd] at ihh
          cases res with
          | none =>
            obtain ⟨rest, hr⟩ := ihh
            exact ⟨rest, by rw [hr, hview, ← ht]; simp⟩
          | some k =>
            cases k with
            | invalidData =>
              obtain ⟨hv, rest, hr⟩ := ihh
              exact ⟨by rw [hview] at hv; exact hv, rest, by rw [hr, hview, ← ht]; simp⟩
            | wouldBlock => rw [c3, f3] at ihh; exact ihh
            | eof => exact ihh

#print axioms drainLoop_spec
end Rbsp
