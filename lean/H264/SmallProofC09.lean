import H264.AvccCtx
import H264.GeneratedSmall
/-! the AVC configuration record on a complete small domain (C09) -/
namespace SmallProof

def avccBase : List Nat := [0x01, 0x42, 0xc0, 0x1e, 0xff, 0xe1, 0x00, 0x02, 0x67, 0x42, 0x01, 0x00, 0x02, 0x68, 0xce]
/-- the base record, then every single-byte replacement by {00, 01, e2, ff} (position-major) -/
def avccVariants : List (List Nat) :=
  avccBase :: (List.range 15).flatMap fun pos => [0x00, 0x01, 0xe2, 0xff].map fun v => avccBase.set pos v
def avccInputs : List (List Nat) := avccVariants.flatMap fun r => (List.range 16).map fun len => r.take len

def itemsOf : Avcc.Res (List (List UInt8)) → List Nat
  | .ok l => l.flatMap fun b => 1 :: b.length :: b.map (·.toNat)
  | _ => [777]
/-- the iterator view of the harness: items until the first entry the iterator rejects -/
def iterItems (d : List UInt8) (wantType n pos : Nat) : Nat → List Nat
  | 0 => []
  | fuel+1 =>
    if n = 0 then [] else
    match Avcc.iter d wantType 1 pos with
    | .ok [b] => (1 :: b.length :: b.map (·.toNat)) ++ iterItems d wantType (n - 1) (pos + 2 + b.length) fuel
    | .ok _ => []
    | _ => [0]

def avccRow (w : List Nat) : List (List Nat) :=
  let d := w.map UInt8.ofNat
  match Avcc.tryFrom d with
  | .ok () =>
    (match Avcc.fields d, Avcc.numSps d, Avcc.spsEnd d with
     | .ok f, .ok n, .ok off =>
       let npps := (d.getD off 0).toNat
       [[1], [f.version, f.numSps, f.profile, f.compat, f.level, f.lengthSizeMinusOne], iterItems d 7 n 6 40, iterItems d 8 npps (off + 1) 300]
     | _, _, _ => [[777]])
  | .notEnoughData _ _ => [[2]]
  | .unsupportedVersion _ => [[3]]
  | _ => [[4]]

/-- model `Avcc.tryFrom` / accessors / iterators = real `AvcDecoderConfigurationRecord` on 976 records: the base record, every
single-byte replacement by {00, 01, e2, ff}, every prefix of each (truncation inside every field and every entry) -/
theorem avcc_model_eq_code : avccInputs.map avccRow = Generated.avccRows := by decide +kernel

end SmallProof
