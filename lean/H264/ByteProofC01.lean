import H264.ByteProof
/-! theorems of `ByteProof` that belong to C01 (a module of their own, so that a broken table or row of another property does not
take this property's module down with it) -/
namespace ByteProof


theorem annexb_model_eq_code : (words [0x00, 0x01, 0x03, 0xa5]).map annexbRow = Generated.annexbRows := by
  decide +kernel

end ByteProof
