/-! Prototype for C09: `AvcDecoderConfigurationRecord` — validation once, check-free accessors afterwards.
Every slice index of the Rust is a bounds-checked `idx` here, so "cannot panic" is a theorem. -/
namespace Avcc

inductive Res (α : Type)
  | ok (a : α)
  | notEnoughData (expected actual : Nat)
  | unsupportedVersion (v : Nat)
  | paramSetErr (tag : String)
  | panic (tag : String)
deriving Repr

def Res.isPanic {α} : Res α → Bool | .panic _ => true | _ => false

def idx (d : List UInt8) (i : Nat) : Res Nat :=
  match d[i]? with
  | some b => .ok b.toNat
  | none => .panic "index out of bounds"

@[inline] def Res.bind {α β} (r : Res α) (f : α → Res β) : Res β :=
  match r with
  | .ok a => f a
  | .notEnoughData e a => .notEnoughData e a
  | .unsupportedVersion v => .unsupportedVersion v
  | .paramSetErr t => .paramSetErr t
  | .panic t => .panic t

instance : Monad Res where
  pure := Res.ok
  bind := Res.bind

def ck (d : List UInt8) (len : Nat) : Res Unit :=
  if d.length < len then .notEnoughData len d.length else .ok ()

/-- walk `n` length-prefixed entries starting at `pos`; returns the end position -/
def walk (d : List UInt8) : Nat → Nat → Res Nat
  | 0, pos => .ok pos
  | n+1, pos => do
    ck d (pos + 2)
    let hi ← idx d pos
    let lo ← idx d (pos + 1)
    let len := hi * 256 + lo
    ck d (pos + 2 + len)
    walk d n (pos + 2 + len)

def numSps (d : List UInt8) : Res Nat := do let b ← idx d 5; pure (b % 32)

def spsEnd (d : List UInt8) : Res Nat := do
  let n ← numSps d
  walk d n 6

/-- `TryFrom<&[u8]>` -/
def tryFrom (d : List UInt8) : Res Unit := do
  ck d 6
  let v ← idx d 0
  if v ≠ 1 then .unsupportedVersion v else do
  let len ← spsEnd d
  ck d (len + 1)
  let numPps ← idx d len
  let _ ← walk d numPps (len + 1)
  pure ()

/-- `ParamSetIter::next` (after the repair: a zero-length entry is an error, not an index) repeated `n` times
from `pos`; yields the NAL byte strings; `wantType` is the expected `nal_unit_type` -/
def iter (d : List UInt8) (wantType : Nat) : Nat → Nat → Res (List (List UInt8))
  | 0, _ => .ok []
  | n+1, pos =>
    if pos ≥ d.length then .ok [] else do        -- `self.0.is_empty()` ⇒ None
    let hi ← idx d pos
    let lo ← idx d (pos + 1)
    let len := hi * 256 + lo
    if len = 0 then .paramSetErr "Empty" else do
    let h ← idx d (pos + 2)
    if h ≥ 128 then .paramSetErr "ForbiddenZeroBit" else
    if h % 32 ≠ wantType then .paramSetErr "IncorrectNalType" else
    if pos + 2 + len > d.length then .panic "split_at out of bounds" else do
    let rest ← iter d wantType n (pos + 2 + len)
    pure (((d.drop (pos + 2)).take len) :: rest)

def spsList (d : List UInt8) : Res (List (List UInt8)) := do
  let n ← numSps d
  iter d 7 n 6

def ppsList (d : List UInt8) : Res (List (List UInt8)) := do
  let off ← spsEnd d            -- `.unwrap()` in the Rust: an error here would be a panic
  let n ← idx d off
  iter d 8 n (off + 1)

/-! ### facts -/

theorem idx_ok (d : List UInt8) (i : Nat) (h : i < d.length) : ∃ b, idx d i = .ok b ∧ b < 256 := by
  unfold idx
  rw [List.getElem?_eq_getElem h]
  exact ⟨_, rfl, UInt8.toNat_lt _⟩

theorem ck_ok_iff (d : List UInt8) (len : Nat) : ck d len = .ok () ↔ len ≤ d.length := by
  unfold ck; split <;> simp <;> omega

/-- validation of `n` entries from `pos` succeeded up to position `e` -/
def Walked (d : List UInt8) : Nat → Nat → Nat → Prop
  | 0, pos, e => e = pos ∧ pos ≤ d.length
  | n+1, pos, e => pos + 2 ≤ d.length ∧
      ∃ hi lo, idx d pos = .ok hi ∧ idx d (pos+1) = .ok lo ∧ pos + 2 + (hi * 256 + lo) ≤ d.length ∧
        Walked d n (pos + 2 + (hi * 256 + lo)) e

theorem walk_ok (d : List UInt8) (n pos e : Nat) (hp : pos ≤ d.length) (h : walk d n pos = .ok e) :
    Walked d n pos e := by
  induction n generalizing pos with
  | zero => simp [walk] at h; exact ⟨h.symm, hp⟩
  | succ n ih =>
    simp only [walk, bind, Res.bind] at h
    cases hc : ck d (pos + 2) with
    | ok u =>
      rw [hc] at h; simp only at h
      have h2 : pos + 2 ≤ d.length := (ck_ok_iff _ _).mp (by rw [hc])
      obtain ⟨hi, hhi, _⟩ := idx_ok d pos (by omega)
      obtain ⟨lo, hlo, _⟩ := idx_ok d (pos+1) (by omega)
      rw [hhi, hlo] at h; simp only at h
      cases hc2 : ck d (pos + 2 + (hi * 256 + lo)) with
      | ok u2 =>
        rw [hc2] at h; simp only at h
        have h3 := (ck_ok_iff _ _).mp (by rw [hc2])
        exact ⟨h2, hi, lo, hhi, hlo, h3, ih _ h3 h⟩
      | notEnoughData a b => rw [hc2] at h; simp at h
      | unsupportedVersion v => rw [hc2] at h; simp at h
      | paramSetErr t => rw [hc2] at h; simp at h
      | panic t => rw [hc2] at h; simp at h
    | notEnoughData a b => rw [hc] at h; simp at h
    | unsupportedVersion v => rw [hc] at h; simp at h
    | paramSetErr t => rw [hc] at h; simp at h
    | panic t => rw [hc] at h; simp at h

/-- **C09 (no panic)**: on a validated region the iterator never indexes out of bounds, whatever the NAL bytes,
lengths (zero included) and header types are, and however many items are requested -/
theorem iter_noPanic (d : List UInt8) (wantType : Nat) (n pos e : Nat) (h : Walked d n pos e) :
    ∀ k, k ≤ n → (iter d wantType k pos).isPanic = false := by
  induction n generalizing pos with
  | zero => intro k hk; have : k = 0 := by omega
            subst this; simp [iter, Res.isPanic]
  | succ n ih =>
    intro k hk
    cases k with
    | zero => simp [iter, Res.isPanic]
    | succ k =>
      obtain ⟨h2, hi, lo, hhi, hlo, h3, hw⟩ := h
      simp only [iter]
      have hnot : ¬ pos ≥ d.length := by omega
      simp only [hnot, ↓reduceIte, bind, Res.bind, hhi, hlo]
      by_cases hz : hi * 256 + lo = 0
      · simp [hz, Res.isPanic]
      · simp only [hz, ↓reduceIte]
        obtain ⟨hb, hhb, _⟩ := idx_ok d (pos + 2) (by omega)
        simp only [hhb]
        split
        · simp [Res.isPanic]
        · split
          · simp [Res.isPanic]
          · have hle : ¬ pos + 2 + (hi * 256 + lo) > d.length := by omega
            simp only [hle, ↓reduceIte]
            have := ih _ hw k (by omega)
            cases hr : iter d wantType k (pos + 2 + (hi * 256 + lo)) with
            | ok r => simp [Res.isPanic, pure]
            | notEnoughData a b => simp [Res.isPanic]
            | unsupportedVersion v => simp [Res.isPanic]
            | paramSetErr t => simp [Res.isPanic]
            | panic t => rw [hr] at this; simp [Res.isPanic] at this

end Avcc

namespace Avcc

theorem Res.bind_ok {α β} {r : Res α} {f : α → Res β} {b : β} (h : (r >>= f) = .ok b) :
    ∃ a, r = .ok a ∧ f a = .ok b := by
  cases r with
  | ok a => exact ⟨a, rfl, h⟩
  | notEnoughData e a => change Res.notEnoughData e a = _ at h; cases h
  | unsupportedVersion v => change Res.unsupportedVersion v = _ at h; cases h
  | paramSetErr t => change Res.paramSetErr t = _ at h; cases h
  | panic t => change Res.panic t = _ at h; cases h

/-- **C09 (no panic after validation)**: once `try_from` has accepted *any* bytes, neither iterator can index
out of bounds, however many items are pulled -/
theorem validated_noPanic (d : List UInt8) (h : tryFrom d = .ok ()) :
    (spsList d).isPanic = false ∧ (ppsList d).isPanic = false := by
  unfold tryFrom at h
  obtain ⟨u, hck, h⟩ := Res.bind_ok h
  have h6 : 6 ≤ d.length := (ck_ok_iff _ _).mp (by rw [hck])
  obtain ⟨v, hv, h⟩ := Res.bind_ok h
  by_cases hv1 : v ≠ 1
  · simp [hv1] at h
  · simp only [hv1, ↓reduceIte] at h
    obtain ⟨len, hend, h⟩ := Res.bind_ok h
    obtain ⟨u2, hck2, h⟩ := Res.bind_ok h
    have hlen1 : len + 1 ≤ d.length := (ck_ok_iff _ _).mp (by rw [hck2])
    obtain ⟨numPps, hnp, h⟩ := Res.bind_ok h
    obtain ⟨e2, hw2, _⟩ := Res.bind_ok h
    -- SPS part
    unfold spsEnd at hend
    obtain ⟨n, hn, hwalk⟩ := Res.bind_ok hend
    have w1 := walk_ok d n 6 len h6 hwalk
    have w2 := walk_ok d numPps (len + 1) e2 hlen1 hw2
    constructor
    · unfold spsList
      simp only [bind, Res.bind, hn]
      exact iter_noPanic d 7 n 6 len w1 n (Nat.le_refl _)
    · unfold ppsList spsEnd
      simp only [bind, Res.bind, hn, hwalk, hnp]
      exact iter_noPanic d 8 numPps (len + 1) e2 w2 numPps (Nat.le_refl _)

#print axioms validated_noPanic
end Avcc
