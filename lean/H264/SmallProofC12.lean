import H264.SmallNalDefs
import H264.C12
/-! a four-NAL Annex B stream pushed in two pieces, every cut (C12) -/
namespace SmallProof
open Bits

def streamBytes : List UInt8 := (List.range 4).flatMap fun k => [0, 0, 1] ++ nalBytes k

structure PState where
  sps : Ctx.PMap Sps.Sps := []
  pps : Ctx.PMap Pps.Pps := []
  out : List Nat := []

/-- what the handler of `tables.rs` does with one complete NAL (given as the chunks it is shown) -/
def handle (st : PState) (chunks : List (List UInt8)) : PState :=
  let hdr : Nat := match chunks with | (b :: _) :: _ => b.toNat | _ => 255
  let ty := hdr % 32
  let src := NalSrc.srcOfNal chunks true
  if ty = 7 then
    match Sps.parseSps src with
    | .ok (s, _) => { st with sps := Ctx.put st.sps s.spsId s, out := st.out ++ [0, 1, s.spsId] }
    | .error _ => { st with out := st.out ++ [0, 0, 0] }
  else if ty = 8 then
    match Pps.parsePps (Ctx.get st.sps) src with
    | .ok (p, _) => { st with pps := Ctx.put st.pps p.ppsId p, out := st.out ++ [1, 1, p.ppsId] }
    | .error _ => { st with out := st.out ++ [1, 0, 0] }
  else if ty = 1 ∨ ty = 5 then
    match Slice.parseSliceHeader ⟨Ctx.get st.sps, Ctx.get st.pps⟩ ⟨hdr / 32 % 4, ty⟩ src with
    | .ok ((h, _, _), _) => { st with out := st.out ++ [2, 1, h.frameNum] }
    | .error _ => { st with out := st.out ++ [2, 0, 0] }
  else if ty = 6 then
    let d := NalSrc.drain (NalSrc.rbspBytes chunks true)
    let r := seiCount (d.1.length + 4) ⟨⟨d.1, NalSrc.kindOf d.2⟩, 0, false⟩ 0
    { st with out := st.out ++ [3, (if r.1 = 1 then 1 else 0), r.2] }
  else { st with out := st.out ++ [9, 9, 9] }

/-- the whole model pipeline: Annex B reader (two pushes + reset) → accumulator (always Buffer) → parsers inside the handler -/
def streamRow (cut : Nat) : List Nat :=
  let r1 := AnnexB.push .start (streamBytes.take cut)
  let r2 := AnnexB.push r1.1 (streamBytes.drop cut)
  let r3 := AnnexB.reset r2.1
  let tr := (Accum.run Accum.init (C12.stepsOf (r1.2 ++ r2.2 ++ r3.2)) []).2
  ((tr.filter (·.complete)).foldl (fun st i => handle st (i.head :: i.tail)) {}).out

/-- **the whole pipeline, model = real code, by proof**: the four NAL units as one Annex B stream pushed through
`AnnexBReader::accumulate` in two pieces cut at every position, then reset: the model pipeline (Annex B model → accumulator model →
byte reader model → parsers, with the context it builds) parses inside its handler exactly what the real pipeline parsed inside
the real handler in this run's graph -/
theorem stream_model_eq_code : (List.range (streamBytes.length + 1)).map streamRow = Generated.streamRows := by decide +kernel

end SmallProof
