import H264.Tables2
/-! theorems of `Tables2` that belong to C04 (a module of their own, so that a broken table or row of another property does not
take this property's module down with it) -/
namespace Tables2
open Generated

/-- `has_chroma_info` of the running code is the model's list, for all 256 `profile_idc` values -/
theorem hasChroma_eq_model : hasChroma.length = 256 ∧
    ∀ b : Fin 256, hasChroma.getD b.val 9 = (if Sps.hasChromaInfo b.val then 1 else 0) := by
  decide +kernel

/-- every aspect_ratio_idc is parsed to its own distinct value (nothing is merged, so the coded value is recoverable),
and `get()` is Table E-1; `Extended_SAR` (255) returns the coded pair -/
theorem aspect_rows : aspect.length = 256 ∧
    (∀ b : Fin 256, (aspect.getD b.val (999,0,0)).1 = b.val) ∧
    (∀ b : Fin 256, (aspect.getD b.val (999,0,0)).2 = (if b.val = 255 then (0x1234, 0x0567) else tableE1 b.val)) := by
  decide +kernel

/-- (the extractor numbers distinct parsed values in order of first appearance, so "row b has number b" is exactly
"no two idc values are parsed to the same value") -/
theorem aspect_table : aspect.length = 256 ∧
    (∀ i j : Fin 256, (aspect.getD i.val (999,0,0)).1 = (aspect.getD j.val (999,0,0)).1 → i = j) ∧
    (∀ b : Fin 256, (aspect.getD b.val (999,0,0)).1 < 998) ∧
    (∀ b : Fin 256, (aspect.getD b.val (999,0,0)).2 = (if b.val = 255 then (0x1234, 0x0567) else tableE1 b.val)) := by
  obtain ⟨hl, hid, hget⟩ := aspect_rows
  refine ⟨hl, ?_, ?_, hget⟩
  · intro i j h; rw [hid i, hid j] at h; exact Fin.ext h
  · intro b; rw [hid b]; omega

/-- the 3-bit `video_format` values are parsed to eight distinct values -/
theorem videoFormat_injective : videoFormat.length = 8 ∧
    (∀ i j : Fin 8, videoFormat.getD i.val 999 = videoFormat.getD j.val 999 → i = j) ∧
    (∀ i : Fin 8, videoFormat.getD i.val 999 < 998) := by
  decide +kernel

/-- `chroma_format_idc` 0…3 are accepted and parsed to four distinct values -/
theorem chromaFormat_table : chromaFormat.length = 16 ∧
    (∀ i : Fin 4, (chromaFormat.getD i.val (0,0)).1 = 1) ∧
    (∀ i j : Fin 4, (chromaFormat.getD i.val (0,0)).2 = (chromaFormat.getD j.val (0,0)).2 → i = j) := by
  decide +kernel

end Tables2
