import H264.AvccCtx
/-! C09: the ISO/IEC 14496-15 record builder and its round trip through `tryFrom` and the iterators; truncations -/
namespace Avcc

def encEntry (nal : List UInt8) : List UInt8 :=
  UInt8.ofNat (nal.length / 256) :: UInt8.ofNat (nal.length % 256) :: nal

def encEntries (nals : List (List UInt8)) : List UInt8 := (nals.map encEntry).flatten

theorem encEntries_cons (nal : List UInt8) (rest : List (List UInt8)) :
    encEntries (nal :: rest) = encEntry nal ++ encEntries rest := by simp [encEntries]

theorem idx_append_right (pre rest : List UInt8) (i : Nat) : idx (pre ++ rest) (pre.length + i) = idx rest i := by
  unfold idx
  rw [List.getElem?_append_right (by omega)]
  simp

theorem idx_append_left (pre rest : List UInt8) (i : Nat) (h : i < pre.length) : idx (pre ++ rest) i = idx pre i := by
  unfold idx
  rw [List.getElem?_append_left h]

theorem hi_lo (l : Nat) (h : l ≤ 65535) :
    (UInt8.ofNat (l / 256)).toNat * 256 + (UInt8.ofNat (l % 256)).toNat = l := by
  have h1 : (UInt8.ofNat (l / 256)).toNat = l / 256 := by simp [UInt8.toNat_ofNat']; omega
  have h2 : (UInt8.ofNat (l % 256)).toNat = l % 256 := by simp [UInt8.toNat_ofNat']
  rw [h1, h2]; omega

/-- walking the encoded entries ends exactly behind them -/
theorem walk_enc (pre : List UInt8) (nals : List (List UInt8)) (post : List UInt8)
    (hl : ∀ n ∈ nals, n.length ≤ 65535) :
    walk (pre ++ (encEntries nals ++ post)) nals.length pre.length = .ok (pre.length + (encEntries nals).length) := by
  induction nals generalizing pre with
  | nil => simp [walk, encEntries]
  | cons nal rest ih =>
    have hn : nal.length ≤ 65535 := hl nal (by simp)
    have hrest : ∀ n ∈ rest, n.length ≤ 65535 := fun n h => hl n (by simp [h])
    rw [encEntries_cons]
    simp only [List.length_cons, walk, bind, Res.bind]
    have hd : pre ++ (encEntry nal ++ encEntries rest ++ post) =
        pre ++ (UInt8.ofNat (nal.length / 256) :: UInt8.ofNat (nal.length % 256) :: (nal ++ (encEntries rest ++ post))) := by
      simp [encEntry, List.append_assoc]
    rw [hd]
    have hck1 : ck (pre ++ (UInt8.ofNat (nal.length / 256) :: UInt8.ofNat (nal.length % 256) :: (nal ++ (encEntries rest ++ post)))) (pre.length + 2) = .ok () := by
      apply (ck_ok_iff _ _).mpr; simp
    rw [hck1]; simp only
    have hi := idx_append_right pre (UInt8.ofNat (nal.length / 256) :: UInt8.ofNat (nal.length % 256) :: (nal ++ (encEntries rest ++ post))) 0
    have lo := idx_append_right pre (UInt8.ofNat (nal.length / 256) :: UInt8.ofNat (nal.length % 256) :: (nal ++ (encEntries rest ++ post))) 1
    simp only [Nat.add_zero] at hi
    rw [hi, lo]
    simp only [idx, List.getElem?_cons_zero, List.getElem?_cons_succ]
    rw [hi_lo nal.length hn]
    have hck2 : ck (pre ++ (UInt8.ofNat (nal.length / 256) :: UInt8.ofNat (nal.length % 256) :: (nal ++ (encEntries rest ++ post)))) (pre.length + 2 + nal.length) = .ok () := by
      apply (ck_ok_iff _ _).mpr; simp; omega
    rw [hck2]; simp only
    have ih' := ih (pre ++ [UInt8.ofNat (nal.length / 256), UInt8.ofNat (nal.length % 256)] ++ nal) hrest
    have hre : pre ++ [UInt8.ofNat (nal.length / 256), UInt8.ofNat (nal.length % 256)] ++ nal ++ (encEntries rest ++ post) =
        pre ++ (UInt8.ofNat (nal.length / 256) :: UInt8.ofNat (nal.length % 256) :: (nal ++ (encEntries rest ++ post))) := by
      simp [List.append_assoc]
    rw [hre] at ih'
    have hlen : (pre ++ [UInt8.ofNat (nal.length / 256), UInt8.ofNat (nal.length % 256)] ++ nal).length = pre.length + 2 + nal.length := by
      simp; omega
    rw [hlen] at ih'
    rw [ih']
    simp [encEntry]; omega


/-- a NAL the iterator for `wantType` accepts: non-empty, forbidden bit clear, the right `nal_unit_type` -/
def NalOfType (wantType : Nat) (nal : List UInt8) : Prop :=
  ∃ h rest, nal = h :: rest ∧ h.toNat < 128 ∧ h.toNat % 32 = wantType ∧ nal.length ≤ 65535

/-- the iterator yields exactly the encoded NALs, in order -/
theorem iter_enc (wantType : Nat) (pre : List UInt8) (nals : List (List UInt8)) (post : List UInt8)
    (hn : ∀ n ∈ nals, NalOfType wantType n) :
    iter (pre ++ (encEntries nals ++ post)) wantType nals.length pre.length = .ok nals := by
  induction nals generalizing pre with
  | nil => simp [iter]
  | cons nal rest ih =>
    obtain ⟨h, tl, hnal, h128, hty, hlen⟩ := hn nal (by simp)
    have hrest : ∀ n ∈ rest, NalOfType wantType n := fun n hh => hn n (by simp [hh])
    subst hnal
    rw [encEntries_cons]
    generalize hA : UInt8.ofNat ((h :: tl).length / 256) = A
    generalize hB : UInt8.ofNat ((h :: tl).length % 256) = B
    have hAB : A.toNat * 256 + B.toNat = (h :: tl).length := by rw [← hA, ← hB]; exact hi_lo _ hlen
    have hd : pre ++ (encEntry (h :: tl) ++ encEntries rest ++ post) =
        pre ++ (A :: B :: h :: (tl ++ (encEntries rest ++ post))) := by
      unfold encEntry; rw [hA, hB]; simp [List.append_assoc]
    rw [hd]
    have hfull : (pre ++ (A :: B :: h :: (tl ++ (encEntries rest ++ post)))).length =
        pre.length + 3 + tl.length + (encEntries rest ++ post).length := by
      simp only [List.length_append, List.length_cons]; omega
    have hcons : (h :: tl).length = tl.length + 1 := by simp
    simp only [List.length_cons, iter]
    have hpos : ¬ pre.length ≥ (pre ++ (A :: B :: h :: (tl ++ (encEntries rest ++ post)))).length := by rw [hfull]; omega
    rw [if_neg hpos]
    simp only [bind, Res.bind]
    have hi : idx (pre ++ (A :: B :: h :: (tl ++ (encEntries rest ++ post)))) pre.length = .ok A.toNat := by
      have := idx_append_right pre (A :: B :: h :: (tl ++ (encEntries rest ++ post))) 0
      simpa [idx] using this
    have lo : idx (pre ++ (A :: B :: h :: (tl ++ (encEntries rest ++ post)))) (pre.length + 1) = .ok B.toNat := by
      have := idx_append_right pre (A :: B :: h :: (tl ++ (encEntries rest ++ post))) 1
      simpa [idx] using this
    have hh : idx (pre ++ (A :: B :: h :: (tl ++ (encEntries rest ++ post)))) (pre.length + 2) = .ok h.toNat := by
      have := idx_append_right pre (A :: B :: h :: (tl ++ (encEntries rest ++ post))) 2
      simpa [idx] using this
    rw [hi, lo]
    simp only
    rw [hAB]
    have hlen0 : (h :: tl).length ≠ 0 := by rw [hcons]; omega
    rw [if_neg hlen0, hh]
    simp only
    have n128 : ¬ h.toNat ≥ 128 := by omega
    have nty : ¬ h.toNat % 32 ≠ wantType := by omega
    rw [if_neg n128, if_neg nty]
    have nover : ¬ pre.length + 2 + (h :: tl).length > (pre ++ (A :: B :: h :: (tl ++ (encEntries rest ++ post)))).length := by
      rw [hfull, hcons]; omega
    rw [if_neg nover]
    have ih' := ih (pre ++ A :: B :: h :: tl) hrest
    have hre : (pre ++ A :: B :: h :: tl) ++ (encEntries rest ++ post) =
        pre ++ (A :: B :: h :: (tl ++ (encEntries rest ++ post))) := by simp [List.append_assoc]
    have hl2 : (pre ++ A :: B :: h :: tl).length = pre.length + 2 + (h :: tl).length := by
      simp only [List.length_append, List.length_cons]; omega
    rw [hre, hl2] at ih'
    rw [ih']
    simp only
    congr 1
    have hnil : List.drop (pre.length + 2) pre = [] := List.drop_eq_nil_of_le (Nat.le_add_right _ _)
    simp [hnil]


/-- AVCDecoderConfigurationRecord (ISO/IEC 14496-15 5.2.4.1): version 1, three profile/level bytes, a byte whose low
two bits are lengthSizeMinusOne, a byte whose low five bits are the SPS count (`b4`, `b5` carry arbitrary reserved
bits), the length-prefixed SPS NALs, the PPS count, the length-prefixed PPS NALs, then arbitrary extension bytes -/
def buildAvcc (b1 b2 b3 b4 b5 : UInt8) (sps pps : List (List UInt8)) (ext : List UInt8) : List UInt8 :=
  [1, b1, b2, b3, b4, b5] ++ (encEntries sps ++ (UInt8.ofNat pps.length :: (encEntries pps ++ ext)))

structure BuildOk (b5 : UInt8) (sps pps : List (List UInt8)) : Prop where
  nsps : b5.toNat % 32 = sps.length
  npps : pps.length ≤ 255
  lsps : ∀ n ∈ sps, n.length ≤ 65535
  lpps : ∀ n ∈ pps, n.length ≤ 65535

theorem build_shape2 (b1 b2 b3 b4 b5 : UInt8) (sps pps : List (List UInt8)) (ext : List UInt8) :
    buildAvcc b1 b2 b3 b4 b5 sps pps ext =
      ([1, b1, b2, b3, b4, b5] ++ encEntries sps ++ [UInt8.ofNat pps.length]) ++ (encEntries pps ++ ext) := by
  simp [buildAvcc, List.append_assoc]

theorem build_spsEnd (b1 b2 b3 b4 b5 : UInt8) (sps pps : List (List UInt8)) (ext : List UInt8) (ok : BuildOk b5 sps pps) :
    spsEnd (buildAvcc b1 b2 b3 b4 b5 sps pps ext) = .ok (6 + (encEntries sps).length) := by
  unfold spsEnd numSps
  have h5 : idx (buildAvcc b1 b2 b3 b4 b5 sps pps ext) 5 = .ok b5.toNat := by simp [buildAvcc, idx]
  simp only [bind, Res.bind, h5, pure, ok.nsps]
  exact walk_enc [1, b1, b2, b3, b4, b5] sps _ ok.lsps

/-- **C09 (construction succeeds)** for every record built from 0…31 SPS and 0…255 PPS NALs of lengths 0…65535,
arbitrary reserved bits and arbitrary trailing extension bytes -/
theorem build_accepted (b1 b2 b3 b4 b5 : UInt8) (sps pps : List (List UInt8)) (ext : List UInt8) (ok : BuildOk b5 sps pps) :
    tryFrom (buildAvcc b1 b2 b3 b4 b5 sps pps ext) = .ok () := by
  unfold tryFrom
  have hck : ck (buildAvcc b1 b2 b3 b4 b5 sps pps ext) 6 = .ok () := by
    apply (ck_ok_iff _ _).mpr; simp [buildAvcc]
  have h0 : idx (buildAvcc b1 b2 b3 b4 b5 sps pps ext) 0 = .ok 1 := by simp [buildAvcc, idx]
  simp only [bind, Res.bind, hck, h0, ne_eq, not_true_eq_false, ↓reduceIte, build_spsEnd b1 b2 b3 b4 b5 sps pps ext ok]
  have hck2 : ck (buildAvcc b1 b2 b3 b4 b5 sps pps ext) (6 + (encEntries sps).length + 1) = .ok () := by
    apply (ck_ok_iff _ _).mpr; simp [buildAvcc]; omega
  rw [hck2]; simp only
  have hnp : idx (buildAvcc b1 b2 b3 b4 b5 sps pps ext) (6 + (encEntries sps).length) = .ok pps.length := by
    have := idx_append_right ([1, b1, b2, b3, b4, b5] ++ encEntries sps) (UInt8.ofNat pps.length :: (encEntries pps ++ ext)) 0
    simp only [List.length_append, List.length_cons, List.length_nil, Nat.add_zero, Nat.zero_add] at this
    have hto : (UInt8.ofNat pps.length).toNat = pps.length := by simp [UInt8.toNat_ofNat']; have := ok.npps; omega
    simp only [buildAvcc, ← List.append_assoc]
    rw [this]; simp [idx, hto]
  rw [hnp]; simp only
  have hw := walk_enc ([1, b1, b2, b3, b4, b5] ++ encEntries sps ++ [UInt8.ofNat pps.length]) pps ext ok.lpps
  rw [← build_shape2] at hw
  have hl : ([1, b1, b2, b3, b4, b5] ++ encEntries sps ++ [UInt8.ofNat pps.length]).length = 6 + (encEntries sps).length + 1 := by
    simp; omega
  rw [hl] at hw
  rw [hw]
  rfl

/-- **C09 (iterators)**: the two iterators yield exactly the stored NAL byte strings, in order -/
theorem build_spsList (b1 b2 b3 b4 b5 : UInt8) (sps pps : List (List UInt8)) (ext : List UInt8) (ok : BuildOk b5 sps pps)
    (hs : ∀ n ∈ sps, NalOfType 7 n) :
    spsList (buildAvcc b1 b2 b3 b4 b5 sps pps ext) = .ok sps := by
  unfold spsList numSps
  have h5 : idx (buildAvcc b1 b2 b3 b4 b5 sps pps ext) 5 = .ok b5.toNat := by simp [buildAvcc, idx]
  simp only [bind, Res.bind, h5, pure, ok.nsps]
  exact iter_enc 7 [1, b1, b2, b3, b4, b5] sps _ hs

theorem build_ppsList (b1 b2 b3 b4 b5 : UInt8) (sps pps : List (List UInt8)) (ext : List UInt8) (ok : BuildOk b5 sps pps)
    (hp : ∀ n ∈ pps, NalOfType 8 n) :
    ppsList (buildAvcc b1 b2 b3 b4 b5 sps pps ext) = .ok pps := by
  unfold ppsList
  simp only [bind, Res.bind, build_spsEnd b1 b2 b3 b4 b5 sps pps ext ok]
  have hnp : idx (buildAvcc b1 b2 b3 b4 b5 sps pps ext) (6 + (encEntries sps).length) = .ok pps.length := by
    have := idx_append_right ([1, b1, b2, b3, b4, b5] ++ encEntries sps) (UInt8.ofNat pps.length :: (encEntries pps ++ ext)) 0
    simp only [List.length_append, List.length_cons, List.length_nil, Nat.add_zero, Nat.zero_add] at this
    have hto : (UInt8.ofNat pps.length).toNat = pps.length := by simp [UInt8.toNat_ofNat']; have := ok.npps; omega
    simp only [buildAvcc, ← List.append_assoc]
    rw [this]; simp [idx, hto]
  rw [hnp]; simp only
  have hi := iter_enc 8 ([1, b1, b2, b3, b4, b5] ++ encEntries sps ++ [UInt8.ofNat pps.length]) pps ext hp
  rw [← build_shape2] at hi
  have hl : ([1, b1, b2, b3, b4, b5] ++ encEntries sps ++ [UInt8.ofNat pps.length]).length = 6 + (encEntries sps).length + 1 := by
    simp; omega
  rw [hl] at hi
  exact hi

/-- **C09 (accessors)**: the fixed-field accessors return the stored values -/
theorem build_fields (b1 b2 b3 b4 b5 : UInt8) (sps pps : List (List UInt8)) (ext : List UInt8) (ok : BuildOk b5 sps pps) :
    fields (buildAvcc b1 b2 b3 b4 b5 sps pps ext) =
      .ok ⟨1, sps.length, b1.toNat, b2.toNat, b3.toNat, b4.toNat % 4⟩ := by
  simp [fields, buildAvcc, idx, bind, Res.bind, pure, ok.nsps]


/-! ### truncations -/

/-- the position behind the last declared parameter set, as `try_from` computes it -/
def declaredEnd (d : List UInt8) : Res Nat := do
  ck d 6
  let v ← idx d 0
  if v ≠ 1 then .unsupportedVersion v else do
  let len ← spsEnd d
  ck d (len + 1)
  let numPps ← idx d len
  walk d numPps (len + 1)

theorem tryFrom_eq (d : List UInt8) : tryFrom d = (declaredEnd d >>= fun _ => pure ()) := by
  unfold tryFrom declaredEnd
  simp only [bind, Res.bind]
  cases ck d 6 <;> try rfl
  simp only
  cases idx d 0 <;> try rfl
  simp only
  split
  · rfl
  · cases spsEnd d <;> try rfl
    simp only
    rename_i len
    cases ck d (len + 1) <;> try rfl
    simp only
    cases idx d len <;> try rfl

theorem Walked_le (d : List UInt8) (n pos e : Nat) (h : Walked d n pos e) : e ≤ d.length := by
  induction n generalizing pos with
  | zero => obtain ⟨rfl, h2⟩ := h; exact h2
  | succ n ih => obtain ⟨_, hi, lo, _, _, _, hw⟩ := h; exact ih _ hw

theorem ck_mono (d t : List UInt8) (n : Nat) (h : ck d n = .ok ()) : ck (d ++ t) n = .ok () := by
  have := (ck_ok_iff _ _).mp h
  apply (ck_ok_iff _ _).mpr; simp; omega

theorem idx_mono (d t : List UInt8) (i b : Nat) (h : idx d i = .ok b) : idx (d ++ t) i = .ok b := by
  unfold idx at h ⊢
  cases hd : d[i]? with
  | none => rw [hd] at h; cases h
  | some x =>
    have hi : i < d.length := by
      rcases Nat.lt_or_ge i d.length with hlt | hge
      · exact hlt
      · have : d[i]? = none := List.getElem?_eq_none hge
        rw [this] at hd; cases hd
    rw [List.getElem?_append_left hi, hd]; rw [hd] at h; exact h

theorem walk_mono (d t : List UInt8) (n pos e : Nat) (h : walk d n pos = .ok e) : walk (d ++ t) n pos = .ok e := by
  induction n generalizing pos with
  | zero => simpa [walk] using h
  | succ n ih =>
    simp only [walk] at h ⊢
    obtain ⟨u, hck, h⟩ := Res.bind_ok h
    obtain ⟨hi, hhi, h⟩ := Res.bind_ok h
    obtain ⟨lo, hlo, h⟩ := Res.bind_ok h
    obtain ⟨u2, hck2, h⟩ := Res.bind_ok h
    simp only [bind, Res.bind, ck_mono d t _ hck, idx_mono d t _ _ hhi, idx_mono d t _ _ hlo, ck_mono d t _ hck2]
    exact ih _ h

/-- what `try_from` accepts it accepts with the same declared end when more bytes follow -/
theorem declaredEnd_mono (d t : List UInt8) (e : Nat) (h : declaredEnd d = .ok e) : declaredEnd (d ++ t) = .ok e := by
  unfold declaredEnd at h ⊢
  obtain ⟨u, hck, h⟩ := Res.bind_ok h
  obtain ⟨v, hv, h⟩ := Res.bind_ok h
  by_cases hv1 : v ≠ 1
  · simp [hv1] at h
  · simp only [hv1, ↓reduceIte] at h
    obtain ⟨len, hend, h⟩ := Res.bind_ok h
    obtain ⟨u2, hck2, h⟩ := Res.bind_ok h
    obtain ⟨np, hnp, h⟩ := Res.bind_ok h
    unfold spsEnd numSps at hend
    obtain ⟨n, hn, hwalk⟩ := Res.bind_ok hend
    obtain ⟨b5, hb5, hn'⟩ := Res.bind_ok hn
    have hend' : spsEnd (d ++ t) = .ok len := by
      unfold spsEnd numSps
      simp only [bind, Res.bind, idx_mono d t _ _ hb5]
      cases hn'
      exact walk_mono d t _ _ _ hwalk
    simp only [bind, Res.bind, ck_mono d t _ hck, idx_mono d t _ _ hv, hv1, ↓reduceIte, hend', ck_mono d t _ hck2,
      idx_mono d t _ _ hnp]
    exact walk_mono d t _ _ _ h

theorem declaredEnd_le (d : List UInt8) (e : Nat) (h : declaredEnd d = .ok e) : e ≤ d.length := by
  unfold declaredEnd at h
  obtain ⟨u, hck, h⟩ := Res.bind_ok h
  obtain ⟨v, hv, h⟩ := Res.bind_ok h
  by_cases hv1 : v ≠ 1
  · simp [hv1] at h
  · simp only [hv1, ↓reduceIte] at h
    obtain ⟨len, hend, h⟩ := Res.bind_ok h
    obtain ⟨u2, hck2, h⟩ := Res.bind_ok h
    obtain ⟨np, hnp, h⟩ := Res.bind_ok h
    have hl : len + 1 ≤ d.length := (ck_ok_iff _ _).mp hck2
    exact Walked_le d np (len + 1) e (walk_ok d np (len + 1) e hl h)

theorem build_declaredEnd (b1 b2 b3 b4 b5 : UInt8) (sps pps : List (List UInt8)) (ext : List UInt8) (ok : BuildOk b5 sps pps) :
    declaredEnd (buildAvcc b1 b2 b3 b4 b5 sps pps ext) = .ok (6 + (encEntries sps).length + 1 + (encEntries pps).length) := by
  unfold declaredEnd
  have hck : ck (buildAvcc b1 b2 b3 b4 b5 sps pps ext) 6 = .ok () := by
    apply (ck_ok_iff _ _).mpr; simp [buildAvcc]
  have h0 : idx (buildAvcc b1 b2 b3 b4 b5 sps pps ext) 0 = .ok 1 := by simp [buildAvcc, idx]
  simp only [bind, Res.bind, hck, h0, ne_eq, not_true_eq_false, ↓reduceIte, build_spsEnd b1 b2 b3 b4 b5 sps pps ext ok]
  have hck2 : ck (buildAvcc b1 b2 b3 b4 b5 sps pps ext) (6 + (encEntries sps).length + 1) = .ok () := by
    apply (ck_ok_iff _ _).mpr; simp [buildAvcc]; omega
  rw [hck2]; simp only
  have hnp : idx (buildAvcc b1 b2 b3 b4 b5 sps pps ext) (6 + (encEntries sps).length) = .ok pps.length := by
    have := idx_append_right ([1, b1, b2, b3, b4, b5] ++ encEntries sps) (UInt8.ofNat pps.length :: (encEntries pps ++ ext)) 0
    simp only [List.length_append, List.length_cons, List.length_nil, Nat.add_zero, Nat.zero_add] at this
    have hto : (UInt8.ofNat pps.length).toNat = pps.length := by simp [UInt8.toNat_ofNat']; have := ok.npps; omega
    simp only [buildAvcc, ← List.append_assoc]
    rw [this]; simp [idx, hto]
  rw [hnp]; simp only
  have hw := walk_enc ([1, b1, b2, b3, b4, b5] ++ encEntries sps ++ [UInt8.ofNat pps.length]) pps ext ok.lpps
  rw [← build_shape2] at hw
  have hl : ([1, b1, b2, b3, b4, b5] ++ encEntries sps ++ [UInt8.ofNat pps.length]).length = 6 + (encEntries sps).length + 1 := by
    simp; omega
  rw [hl] at hw
  exact hw

/-- **C09 (truncation)**: every proper prefix of a record that ends with its last declared parameter set — i.e. every
truncation inside the declared parameter sets or the fixed fields — is refused at construction -/
theorem truncated_refused (b1 b2 b3 b4 b5 : UInt8) (sps pps : List (List UInt8)) (ok : BuildOk b5 sps pps)
    (k : Nat) (hk : k < (buildAvcc b1 b2 b3 b4 b5 sps pps []).length) :
    tryFrom ((buildAvcc b1 b2 b3 b4 b5 sps pps []).take k) ≠ .ok () := by
  intro hacc
  rw [tryFrom_eq] at hacc
  obtain ⟨e, he, _⟩ := Res.bind_ok hacc
  have hle := declaredEnd_le _ e he
  have hm := declaredEnd_mono _ ((buildAvcc b1 b2 b3 b4 b5 sps pps []).drop k) e he
  rw [List.take_append_drop] at hm
  rw [build_declaredEnd b1 b2 b3 b4 b5 sps pps [] ok] at hm
  have hlen : (buildAvcc b1 b2 b3 b4 b5 sps pps []).length = 6 + (encEntries sps).length + 1 + (encEntries pps).length := by
    simp [buildAvcc]; omega
  have hk' : ((buildAvcc b1 b2 b3 b4 b5 sps pps []).take k).length = k := by
    rw [List.length_take]; omega
  injection hm with hm
  omega

end Avcc
