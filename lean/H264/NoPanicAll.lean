import H264.NoPanic
import H264.SliceMono
import H264.SeiPayloads
/-! C03 (parsers): no model parser can reach a `panic` outcome, for any input bits and any context.
The only `panic` sites in the parser models are the exhaustion of the fuel of the two `do … while` loops of the slice
header; the lemmas `np_readModOps` / `np_readMmcos` show the fuel handed to them (remaining bits + 1) is never used up
because every iteration consumes at least one bit — which is also the termination argument of the Rust loops. -/
namespace Sps
open Bits

theorem np_readCpbSpec : NoPanic readCpbSpec := by unfold readCpbSpec; nopanic
macro_rules | `(tactic| np_step) => `(tactic| exact np_readCpbSpec)
theorem np_readCpbSpecs (n) : NoPanic (readCpbSpecs n) := by
  induction n with
  | zero => exact NoPanic.pure _
  | succ n ih => unfold readCpbSpecs; nopanic
macro_rules | `(tactic| np_step) => `(tactic| exact np_readCpbSpecs _)
theorem np_readHrd : NoPanic readHrd := by unfold readHrd; nopanic
macro_rules | `(tactic| np_step) => `(tactic| exact np_readHrd)
theorem np_readSeList (name n) : NoPanic (readSeList name n) := by
  induction n with
  | zero => exact NoPanic.pure _
  | succ n ih => unfold readSeList; nopanic
macro_rules | `(tactic| np_step) => `(tactic| exact np_readSeList _ _)
theorem np_readPicOrderCnt : NoPanic readPicOrderCnt := by unfold readPicOrderCnt; nopanic
macro_rules | `(tactic| np_step) => `(tactic| exact np_readPicOrderCnt)
theorem np_readFrameMbsFlags : NoPanic readFrameMbsFlags := by unfold readFrameMbsFlags; nopanic
macro_rules | `(tactic| np_step) => `(tactic| exact np_readFrameMbsFlags)
theorem np_readFrameCropping : NoPanic readFrameCropping := by unfold readFrameCropping; nopanic
macro_rules | `(tactic| np_step) => `(tactic| exact np_readFrameCropping)
theorem np_readAspectRatioInfo : NoPanic readAspectRatioInfo := by unfold readAspectRatioInfo; nopanic
macro_rules | `(tactic| np_step) => `(tactic| exact np_readAspectRatioInfo)
theorem np_readOverscan : NoPanic readOverscan := by unfold readOverscan; nopanic
macro_rules | `(tactic| np_step) => `(tactic| exact np_readOverscan)
theorem np_readColourDescription : NoPanic readColourDescription := by unfold readColourDescription; nopanic
macro_rules | `(tactic| np_step) => `(tactic| exact np_readColourDescription)
theorem np_readVideoSignalType : NoPanic readVideoSignalType := by unfold readVideoSignalType; nopanic
macro_rules | `(tactic| np_step) => `(tactic| exact np_readVideoSignalType)
theorem np_readChromaLocInfo : NoPanic readChromaLocInfo := by unfold readChromaLocInfo; nopanic
macro_rules | `(tactic| np_step) => `(tactic| exact np_readChromaLocInfo)
theorem np_readTimingInfo : NoPanic readTimingInfo := by unfold readTimingInfo; nopanic
macro_rules | `(tactic| np_step) => `(tactic| exact np_readTimingInfo)
theorem np_readBitstreamRestrictions (m) : NoPanic (readBitstreamRestrictions m) := by
  unfold readBitstreamRestrictions; nopanic
macro_rules | `(tactic| np_step) => `(tactic| exact np_readBitstreamRestrictions _)
theorem np_readVui (m) : NoPanic (readVui m) := by unfold readVui readLowDelayFlag; nopanic
macro_rules | `(tactic| np_step) => `(tactic| exact np_readVui _)

theorem np_fillScalingList (n j last next ud acc) : NoPanic (fillScalingList n j last next ud acc) := by
  induction n generalizing j last next ud acc with
  | zero => exact NoPanic.pure _
  | succ n ih =>
    unfold fillScalingList
    have ih' : ∀ j last next ud acc, NoPanic (fillScalingList n j last next ud acc) := ih
    nopanic
    all_goals exact ih' _ _ _ _ _
macro_rules | `(tactic| np_step) => `(tactic| exact np_fillScalingList _ _ _ _ _ _)
theorem np_readScalingList (size p) : NoPanic (readScalingList size p) := by
  unfold readScalingList; nopanic
macro_rules | `(tactic| np_step) => `(tactic| exact np_readScalingList _ _)
theorem np_readScalingLists (s4 n i a4 a8) : NoPanic (readScalingLists s4 n i a4 a8) := by
  induction n generalizing i a4 a8 with
  | zero => exact NoPanic.pure _
  | succ n ih =>
    unfold readScalingLists
    nopanic
    all_goals exact ih _ _ _
macro_rules | `(tactic| np_step) => `(tactic| exact np_readScalingLists _ _ _ _ _)
theorem np_readChromaInfo (p) : NoPanic (readChromaInfo p) := by
  unfold readChromaInfo readBitDepthMinus8 readSeparateColourPlane readOptScalingMatrix readSeqScalingMatrix
  nopanic
macro_rules | `(tactic| np_step) => `(tactic| exact np_readChromaInfo _)

/-- **C17 (SPS)**: on any truncated, still-incomplete view of an RBSP the SPS parser either blocks or agrees
with the run on the complete RBSP … -/
theorem np_parseSps : NoPanic parseSps := by
  unfold parseSps; nopanic


end Sps

namespace Pps
open Bits Sps

macro_rules | `(tactic| np_step) => `(tactic| split)

theorem np_readUeList (name tag bound n) : NoPanic (readUeList name bound tag n) := by
  induction n with
  | zero => exact NoPanic.pure _
  | succ n ih => unfold readUeList; nopanic
macro_rules | `(tactic| np_step) => `(tactic| exact np_readUeList _ _ _ _)
theorem np_readRect (s) : NoPanic (readRect s) := by unfold readRect; nopanic
macro_rules | `(tactic| np_step) => `(tactic| exact np_readRect _)
theorem np_readRects (s n) : NoPanic (readRects s n) := by
  induction n with
  | zero => exact NoPanic.pure _
  | succ n ih => unfold readRects; nopanic
macro_rules | `(tactic| np_step) => `(tactic| exact np_readRects _ _)
theorem np_readBitsList (name w n) : NoPanic (readBitsList name w n) := by
  induction n with
  | zero => exact NoPanic.pure _
  | succ n ih => unfold readBitsList; nopanic
macro_rules | `(tactic| np_step) => `(tactic| exact np_readBitsList _ _ _)
theorem np_readSliceGroup (n s) : NoPanic (readSliceGroup n s) := by unfold readSliceGroup; nopanic
macro_rules | `(tactic| np_step) => `(tactic| exact np_readSliceGroup _ _)
theorem np_readSliceGroups (s) : NoPanic (readSliceGroups s) := by unfold readSliceGroups; nopanic
macro_rules | `(tactic| np_step) => `(tactic| exact np_readSliceGroups _)
theorem np_readNumRefIdx (name) : NoPanic (Pps.readNumRefIdx name) := by unfold Pps.readNumRefIdx; nopanic
macro_rules | `(tactic| np_step) => `(tactic| exact np_readNumRefIdx _)
theorem np_readPicScalingMatrix (s t) : NoPanic (readPicScalingMatrix s t) := by unfold readPicScalingMatrix; nopanic
macro_rules | `(tactic| np_step) => `(tactic| exact np_readPicScalingMatrix _ _)
theorem np_readPpsExtra (s) : NoPanic (readPpsExtra s) := by unfold readPpsExtra; nopanic
macro_rules | `(tactic| np_step) => `(tactic| exact np_readPpsExtra _)

/-- **C17 (PPS)** -/
theorem np_parsePps (ctx) : NoPanic (parsePps ctx) := by
  unfold parsePps
  nopanic


end Pps

namespace Slice
open Bits Sps Pps

/-- the fuel handed to the MMCO loop is never exhausted: every iteration consumes a bit -/
theorem np_readMmcos (fuel : Nat) (s : Src) (hf : s.bits.length < fuel) :
    ∀ e, readMmcos fuel s = .error e → e.isPanic = false := by
  induction fuel generalizing s with
  | zero => omega
  | succ f ih =>
    intro e h
    unfold readMmcos at h
    simp only [bind_run] at h
    cases hu : readUe "memory_management_control_operation" s with
    | error e' => rw [hu] at h; simp at h; rw [← h]; exact np_readUe _ s e' hu
    | ok v =>
      obtain ⟨op, s1⟩ := v
      have hc := readUe_consumes _ _ _ _ hu
      rw [hu] at h; simp only at h
      have rec0 : ∀ (mk : Mmco),
          (do let rest ← readMmcos f; Pure.pure (mk :: rest) : P (List Mmco)) s1 = .error e → e.isPanic = false := by
        intro mk h'
        simp only [bind_run] at h'
        cases hr : readMmcos f s1 with
        | error e' => rw [hr] at h'; simp at h'; rw [← h']; exact ih s1 (by omega) e' hr
        | ok r => rw [hr] at h'; simp at h'
      have rec1 : ∀ (nm : String) (mk : Nat → Mmco),
          (do let v ← readUe nm; let rest ← readMmcos f; Pure.pure (mk v :: rest) : P (List Mmco)) s1 = .error e →
          e.isPanic = false := by
        intro nm mk h'
        simp only [bind_run] at h'
        cases hv : readUe nm s1 with
        | error e' => rw [hv] at h'; simp at h'; rw [← h']; exact np_readUe _ s1 e' hv
        | ok w =>
          obtain ⟨v, s2⟩ := w
          have hc2 := readUe_consumes _ _ _ _ hv
          rw [hv] at h'; simp only at h'
          cases hr : readMmcos f s2 with
          | error e' => rw [hr] at h'; simp at h'; rw [← h']; exact ih s2 (by omega) e' hr
          | ok r => rw [hr] at h'; simp at h'
      have rec2 : ∀ (nm nm2 : String) (mk : Nat → Nat → Mmco),
          (do let v ← readUe nm; let w ← readUe nm2; let rest ← readMmcos f; Pure.pure (mk v w :: rest) : P (List Mmco)) s1 = .error e →
          e.isPanic = false := by
        intro nm nm2 mk h'
        simp only [bind_run] at h'
        cases hv : readUe nm s1 with
        | error e' => rw [hv] at h'; simp at h'; rw [← h']; exact np_readUe _ s1 e' hv
        | ok w =>
          obtain ⟨v, s2⟩ := w
          have hc2 := readUe_consumes _ _ _ _ hv
          rw [hv] at h'; simp only at h'
          cases hv2 : readUe nm2 s2 with
          | error e' => rw [hv2] at h'; simp at h'; rw [← h']; exact np_readUe _ s2 e' hv2
          | ok w2 =>
            obtain ⟨v2, s3⟩ := w2
            have hc3 := readUe_consumes _ _ _ _ hv2
            rw [hv2] at h'; simp only at h'
            cases hr : readMmcos f s3 with
            | error e' => rw [hr] at h'; simp at h'; rw [← h']; exact ih s3 (by omega) e' hr
            | ok r => rw [hr] at h'; simp at h'
      split at h
      · simp at h
      · split at h
        · exact rec1 _ _ h
        · split at h
          · exact rec1 _ _ h
          · split at h
            · exact rec2 _ _ _ h
            · split at h
              · exact rec1 _ _ h
              · split at h
                · exact rec0 _ h
                · split at h
                  · exact rec1 _ _ h
                  · simp at h; rw [← h]; rfl

theorem np_readModOpsAuto : NoPanic (fun s => readModOps (s.bits.length + 1) s) :=
  fun s e h => np_readModOps _ s (by omega) e h
theorem np_readMmcosAuto : NoPanic (fun s => readMmcos (s.bits.length + 1) s) :=
  fun s e h => np_readMmcos _ s (by omega) e h
macro_rules | `(tactic| np_step) => `(tactic| exact np_readModOpsAuto)
macro_rules | `(tactic| np_step) => `(tactic| exact np_readMmcosAuto)

macro_rules | `(tactic| np_step) => `(tactic| exact np_readModList)
theorem np_readRefPicListMods (fam) : NoPanic (readRefPicListMods fam) := by unfold readRefPicListMods; nopanic
theorem np_readLumaWeight : NoPanic readLumaWeight := by unfold readLumaWeight; nopanic
theorem np_readChromaWeights : NoPanic readChromaWeights := by unfold readChromaWeights; nopanic
macro_rules | `(tactic| np_step) => `(tactic| exact np_readLumaWeight)
macro_rules | `(tactic| np_step) => `(tactic| exact np_readChromaWeights)
theorem np_readPredWeightEntries (c n) : NoPanic (readPredWeightEntries c n) := by
  induction n with
  | zero => unfold readPredWeightEntries; nopanic
  | succ n ih => unfold readPredWeightEntries; nopanic
macro_rules | `(tactic| np_step) => `(tactic| exact np_readPredWeightEntries _ _)
theorem np_readPredWeightTable (fam pps sps nra) : NoPanic (readPredWeightTable fam pps sps nra) := by
  unfold readPredWeightTable; nopanic
theorem np_readDecRefPicMarking (hdr) : NoPanic (readDecRefPicMarking hdr) := by unfold readDecRefPicMarking; nopanic
theorem np_readNumRefIdx' (name) : NoPanic (Slice.readNumRefIdx name) := by unfold Slice.readNumRefIdx; nopanic
macro_rules | `(tactic| np_step) => `(tactic| exact np_readNumRefIdx' _)
theorem np_readColourPlane (sps) : NoPanic (readColourPlane sps) := by unfold readColourPlane; nopanic
theorem np_readFieldPic (sps) : NoPanic (readFieldPic sps) := by unfold readFieldPic; nopanic
theorem np_readIdrPicId (hdr) : NoPanic (readIdrPicId hdr) := by unfold readIdrPicId; nopanic
theorem np_readPoc (sps pps fp) : NoPanic (readPoc sps pps fp) := by unfold readPoc; nopanic
theorem np_readRedundant (pps) : NoPanic (readRedundant pps) := by unfold readRedundant; nopanic
theorem np_readDirect (fam) : NoPanic (readDirect fam) := by unfold readDirect; nopanic
theorem np_readNumRefIdxActive (fam) : NoPanic (readNumRefIdxActive fam) := by unfold readNumRefIdxActive; nopanic
macro_rules | `(tactic| np_step) => `(tactic| exact np_readPredWeightTable _ _ _ _)
theorem np_readPwtOpt (fam pps sps nra) : NoPanic (readPwtOpt fam pps sps nra) := by unfold readPwtOpt; nopanic
macro_rules | `(tactic| np_step) => `(tactic| exact np_readDecRefPicMarking _)
theorem np_readMarkingOpt (hdr) : NoPanic (readMarkingOpt hdr) := by unfold readMarkingOpt; nopanic
theorem np_readCabac (fam pps) : NoPanic (readCabac fam pps) := by unfold readCabac; nopanic
theorem np_readQpDelta : NoPanic readQpDelta := by unfold readQpDelta; nopanic
theorem np_readSpSwitch (fam) : NoPanic (readSpSwitch fam) := by unfold readSpSwitch; nopanic
macro_rules | `(tactic| np_step) => `(tactic| exact np_readSpSwitch _)
theorem np_readSwitchQs (fam pps) : NoPanic (readSwitchQs fam pps) := by unfold readSwitchQs; nopanic
theorem np_readDeblock (pps) : NoPanic (readDeblock pps) := by unfold readDeblock; nopanic
theorem np_requireMore : NoPanic requireMore := by unfold requireMore; nopanic

macro_rules | `(tactic| np_step) => `(tactic| first
  | exact np_readColourPlane _ | exact np_readFieldPic _ | exact np_readIdrPicId _ | exact np_readPoc _ _ _
  | exact np_readRedundant _ | exact np_readDirect _ | exact np_readNumRefIdxActive _
  | exact np_readRefPicListMods _ | exact np_readPwtOpt _ _ _ _ | exact np_readMarkingOpt _
  | exact np_readCabac _ _ | exact np_readQpDelta | exact np_readSwitchQs _ _ | exact np_readDeblock _
  | exact np_requireMore)

theorem np_readSliceBody (sps pps hdr a b c) : NoPanic (readSliceBody sps pps hdr a b c) := by
  unfold readSliceBody; nopanic

macro_rules | `(tactic| np_step) => `(tactic| exact np_readSliceBody _ _ _ _ _ _)

/-- **C17 (slice header)**: a header accepted from a truncated, incomplete view equals the one parsed from the whole -/
theorem np_parseSliceHeader (ctx hdr) : NoPanic (parseSliceHeader ctx hdr) := by
  unfold parseSliceHeader; nopanic


end Slice

namespace SeiPayload
open Bits Sps

theorem np_finishSei : NoPanic finishSei := by
  intro s e h; unfold finishSei at h
  split at h
  · split at h <;> simp at h; rw [← h]; rfl
  · simp at h; rw [← h]; rfl
  · split at h
    · simp at h; rw [← h]; rfl
    · split at h <;> simp at h; rw [← h]; rfl
macro_rules | `(tactic| np_step) => `(tactic| exact np_finishSei)
macro_rules | `(tactic| np_step) => `(tactic| split)

theorem np_readSmh (full) : NoPanic (readSmh full) := by unfold readSmh; nopanic
macro_rules | `(tactic| np_step) => `(tactic| exact np_readSmh _)
theorem np_readTimeOffset (tol) : NoPanic (readTimeOffset tol) := by unfold readTimeOffset; nopanic
macro_rules | `(tactic| np_step) => `(tactic| exact np_readTimeOffset _)
theorem np_readClockTimestamp (s) : NoPanic (readClockTimestamp s) := by unfold readClockTimestamp; nopanic
macro_rules | `(tactic| np_step) => `(tactic| exact np_readClockTimestamp _)
theorem np_readOptClockTimestamp (s) : NoPanic (readOptClockTimestamp s) := by unfold readOptClockTimestamp; nopanic
macro_rules | `(tactic| np_step) => `(tactic| exact np_readOptClockTimestamp _)
theorem np_readClockTimestamps (s n) : NoPanic (readClockTimestamps s n) := by
  induction n with
  | zero => exact NoPanic.pure _
  | succ n ih => unfold readClockTimestamps; nopanic
macro_rules | `(tactic| np_step) => `(tactic| exact np_readClockTimestamps _ _)
theorem np_readDelays (s) : NoPanic (readDelays s) := by unfold readDelays; nopanic
theorem np_readPicStruct (s) : NoPanic (readPicStruct s) := by unfold readPicStruct; nopanic
macro_rules | `(tactic| np_step) => `(tactic| first | exact np_readDelays _ | exact np_readPicStruct _)
/-- `PicTiming::read` -/
theorem np_readPicTiming (s) : NoPanic (readPicTiming s) := by unfold readPicTiming; nopanic

theorem np_readCpbRemovalList (len n) : NoPanic (readCpbRemovalList len n) := by
  induction n with
  | zero => exact NoPanic.pure _
  | succ n ih => unfold readCpbRemovalList readCpbRemoval; nopanic
macro_rules | `(tactic| np_step) => `(tactic| exact np_readCpbRemovalList _ _)
theorem np_readOptHrdBp (h) : NoPanic (readOptHrdBp h) := by unfold readOptHrdBp; nopanic
macro_rules | `(tactic| np_step) => `(tactic| exact np_readOptHrdBp _)
/-- `BufferingPeriod::read` -/
theorem np_readBufferingPeriod (ctx) : NoPanic (readBufferingPeriod ctx) := by unfold readBufferingPeriod; nopanic

end SeiPayload
