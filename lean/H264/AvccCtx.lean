import H264.Avcc
import H264.NalSrc
import H264.Sps
import H264.Pps
import H264.Context
/-! `AvcDecoderConfigurationRecord`: fixed-field accessors and `create_context` (lazy iteration: each parameter
set is parsed before the next entry is looked at) -/
namespace Avcc

structure Fields where
  version : Nat
  numSps : Nat
  profile : Nat
  compat : Nat
  level : Nat
  lengthSizeMinusOne : Nat
deriving DecidableEq, Repr

/-- the accessors, each a bounds-checked index -/
def fields (d : List UInt8) : Res Fields := do
  let v ← idx d 0
  let p ← idx d 1
  let c ← idx d 2
  let l ← idx d 3
  let ls ← idx d 4
  let n ← idx d 5
  pure ⟨v, n % 32, p, c, l, ls % 4⟩

/-- one step of `ParamSetIter::next` at `pos` (which is `< d.length`): the NAL and the next position -/
def entry (d : List UInt8) (wantType : Nat) (pos : Nat) : Res (List UInt8 × Nat) := do
  let hi ← idx d pos
  let lo ← idx d (pos + 1)
  let len := hi * 256 + lo
  if len = 0 then .paramSetErr "Empty" else do
  let h ← idx d (pos + 2)
  if h ≥ 128 then .paramSetErr "ForbiddenZeroBit" else
  if h % 32 ≠ wantType then .paramSetErr "IncorrectNalType" else
  if pos + 2 + len > d.length then .panic "split_at out of bounds" else
  pure ((d.drop (pos + 2)).take len, pos + 2 + len)

inductive CtxErr | paramSet (tag : String) | sps | pps | panic (tag : String)
deriving DecidableEq, Repr

structure Context where
  sps : Ctx.PMap Sps.Sps
  pps : Ctx.PMap Pps.Pps

def liftErr {α} : Res α → Except CtxErr α
  | .ok a => .ok a
  | .paramSetErr t => .error (.paramSet t)
  | .panic t => .error (.panic t)
  | .notEnoughData _ _ => .error (.panic "unwrap on NotEnoughData")
  | .unsupportedVersion _ => .error (.panic "unwrap on UnsupportedVersion")

def ctxSps (d : List UInt8) : Nat → Nat → Ctx.PMap Sps.Sps → Except CtxErr (Ctx.PMap Sps.Sps)
  | 0, _, m => .ok m
  | n+1, pos, m =>
    if pos ≥ d.length then .ok m else
    match liftErr (entry d 7 pos) with
    | .error e => .error e
    | .ok (nal, next) =>
      match Sps.parseSps (NalSrc.srcOfNal [nal] true) with
      | .error _ => .error .sps
      | .ok (s, _) => ctxSps d n next (Ctx.put m s.spsId s)

def ctxPps (d : List UInt8) (spsMap : Ctx.PMap Sps.Sps) : Nat → Nat → Ctx.PMap Pps.Pps → Except CtxErr (Ctx.PMap Pps.Pps)
  | 0, _, m => .ok m
  | n+1, pos, m =>
    if pos ≥ d.length then .ok m else
    match liftErr (entry d 8 pos) with
    | .error e => .error e
    | .ok (nal, next) =>
      match Pps.parsePps (Ctx.get spsMap) (NalSrc.srcOfNal [nal] true) with
      | .error _ => .error .pps
      | .ok (p, _) => ctxPps d spsMap n next (Ctx.put m p.ppsId p)

/-- `create_context` -/
def createContext (d : List UInt8) : Except CtxErr Context :=
  match liftErr (numSps d) with
  | .error e => .error e
  | .ok n =>
    match ctxSps d n 6 [] with
    | .error e => .error e
    | .ok sm =>
      match liftErr (spsEnd d) with
      | .error e => .error e
      | .ok off =>
        match liftErr (idx d off) with
        | .error e => .error e
        | .ok np =>
          match ctxPps d sm np (off + 1) [] with
          | .error e => .error e
          | .ok pm => .ok ⟨sm, pm⟩

end Avcc
