import H264.Avcc
import H264.NalSrc
import H264.Sps
import H264.Pps
import H264.Context
/-! `AvcDecoderConfigurationRecord`: fixed-field accessors and `create_context` (lazy iteration: each parameter
set is parsed before the next entry is looked at) -/
namespace Avcc

structure Fields where
  version : Nat
  numSps : Nat
  profile : Nat
  compat : Nat
  level : Nat
  lengthSizeMinusOne : Nat
deriving DecidableEq, Repr

/-- `avc_level_indication()` is `Level::from_constraint_flags_and_level_idc(profile_compatibility, level byte)`: the
stored byte, read as Level 1b exactly when it is 11 and constraint_set3_flag is set (table proved in C20) -/
def Fields.levelIs1b (f : Fields) : Bool := f.level = 11 && f.compat / 16 % 2 = 1

/-- the accessors, each a bounds-checked index -/
def fields (d : List UInt8) : Res Fields := do
  let v ← idx d 0
  let p ← idx d 1
  let c ← idx d 2
  let l ← idx d 3
  let ls ← idx d 4
  let n ← idx d 5
  pure ⟨v, n % 32, p, c, l, ls % 4⟩

/-- one step of `ParamSetIter::next` at `pos` (which is `< d.length`): the NAL and the next position -/
def entry (d : List UInt8) (wantType : Nat) (pos : Nat) : Res (List UInt8 × Nat) := do
  let hi ← idx d pos
  let lo ← idx d (pos + 1)
  let len := hi * 256 + lo
  if len = 0 then .paramSetErr "Empty" else do
  let h ← idx d (pos + 2)
  if h ≥ 128 then .paramSetErr "ForbiddenZeroBit" else
  if h % 32 ≠ wantType then .paramSetErr "IncorrectNalType" else
  if pos + 2 + len > d.length then .panic "split_at out of bounds" else
  pure ((d.drop (pos + 2)).take len, pos + 2 + len)

inductive CtxErr | paramSet (tag : String) | sps | pps | panic (tag : String)
deriving DecidableEq, Repr

structure Context where
  sps : Ctx.PMap Sps.Sps
  pps : Ctx.PMap Pps.Pps

def liftErr {α} : Res α → Except CtxErr α
  | .ok a => .ok a
  | .paramSetErr t => .error (.paramSet t)
  | .panic t => .error (.panic t)
  | .notEnoughData _ _ => .error (.panic "unwrap on NotEnoughData")
  | .unsupportedVersion _ => .error (.panic "unwrap on UnsupportedVersion")

def ctxSps (d : List UInt8) : Nat → Nat → Ctx.PMap Sps.Sps → Except CtxErr (Ctx.PMap Sps.Sps)
  | 0, _, m => .ok m
  | n+1, pos, m =>
    if pos ≥ d.length then .ok m else
    match liftErr (entry d 7 pos) with
    | .error e => .error e
    | .ok (nal, next) =>
      match Sps.parseSps (NalSrc.srcOfNal [nal] true) with
      | .error (.panic t) => .error (.panic t)
      | .error _ => .error .sps
      | .ok (s, _) => ctxSps d n next (Ctx.put m s.spsId s)

def ctxPps (d : List UInt8) (spsMap : Ctx.PMap Sps.Sps) : Nat → Nat → Ctx.PMap Pps.Pps → Except CtxErr (Ctx.PMap Pps.Pps)
  | 0, _, m => .ok m
  | n+1, pos, m =>
    if pos ≥ d.length then .ok m else
    match liftErr (entry d 8 pos) with
    | .error e => .error e
    | .ok (nal, next) =>
      match Pps.parsePps (Ctx.get spsMap) (NalSrc.srcOfNal [nal] true) with
      | .error (.panic t) => .error (.panic t)
      | .error _ => .error .pps
      | .ok (p, _) => ctxPps d spsMap n next (Ctx.put m p.ppsId p)

/-- `create_context` -/
def createContext (d : List UInt8) : Except CtxErr Context :=
  match liftErr (numSps d) with
  | .error e => .error e
  | .ok n =>
    match ctxSps d n 6 [] with
    | .error e => .error e
    | .ok sm =>
      match liftErr (spsEnd d) with
      | .error e => .error e
      | .ok off =>
        match liftErr (idx d off) with
        | .error e => .error e
        | .ok np =>
          match ctxPps d sm np (off + 1) [] with
          | .error e => .error e
          | .ok pm => .ok ⟨sm, pm⟩

end Avcc

namespace Avcc

theorem walk_noPanic (d : List UInt8) (n pos : Nat) : (walk d n pos).isPanic = false := by
  induction n generalizing pos with
  | zero => simp [walk, Res.isPanic]
  | succ n ih =>
    simp only [walk, bind, Res.bind]
    cases hc : ck d (pos + 2) with
    | ok u =>
      simp only
      have h2 : pos + 2 ≤ d.length := (ck_ok_iff _ _).mp (by rw [hc])
      obtain ⟨hi, hhi, _⟩ := idx_ok d pos (by omega)
      obtain ⟨lo, hlo, _⟩ := idx_ok d (pos+1) (by omega)
      rw [hhi, hlo]; simp only
      cases hc2 : ck d (pos + 2 + (hi * 256 + lo)) with
      | ok u2 => exact ih _
      | notEnoughData a b => rfl
      | unsupportedVersion v => rfl
      | paramSetErr t => rfl
      | panic t => unfold ck at hc2; split at hc2 <;> cases hc2
    | notEnoughData a b => rfl
    | unsupportedVersion v => rfl
    | paramSetErr t => rfl
    | panic t => unfold ck at hc; split at hc <;> cases hc

/-- construction never panics, on any bytes: every index is preceded by its length check -/
theorem tryFrom_noPanic (d : List UInt8) : (tryFrom d).isPanic = false := by
  unfold tryFrom
  simp only [bind, Res.bind]
  cases hc : ck d 6 with
  | ok u =>
    simp only
    have h6 : 6 ≤ d.length := (ck_ok_iff _ _).mp (by rw [hc])
    obtain ⟨v, hv, _⟩ := idx_ok d 0 (by omega)
    rw [hv]; simp only
    by_cases hv1 : v ≠ 1
    · simp [hv1, Res.isPanic]
    · simp only [hv1, ↓reduceIte]
      unfold spsEnd numSps
      simp only [bind, Res.bind]
      obtain ⟨b5, h5, _⟩ := idx_ok d 5 (by omega)
      rw [h5]; simp only [pure]
      have hw := walk_noPanic d (b5 % 32) 6
      cases hwalk : walk d (b5 % 32) 6 with
      | ok len =>
        simp only
        cases hc2 : ck d (len + 1) with
        | ok u2 =>
          simp only
          have hl : len + 1 ≤ d.length := (ck_ok_iff _ _).mp (by rw [hc2])
          obtain ⟨np, hnp, _⟩ := idx_ok d len (by omega)
          rw [hnp]; simp only
          have hw2 := walk_noPanic d np (len + 1)
          cases hwalk2 : walk d np (len + 1) with
          | ok e => rfl
          | notEnoughData a b => rfl
          | unsupportedVersion v => rfl
          | paramSetErr t => rfl
          | panic t => rw [hwalk2] at hw2; simp [Res.isPanic] at hw2
        | notEnoughData a b => rfl
        | unsupportedVersion v => rfl
        | paramSetErr t => rfl
        | panic t => unfold ck at hc2; split at hc2 <;> cases hc2
      | notEnoughData a b => rfl
      | unsupportedVersion v => rfl
      | paramSetErr t => rfl
      | panic t => rw [hwalk] at hw; simp [Res.isPanic] at hw
  | notEnoughData a b => rfl
  | unsupportedVersion v => rfl
  | paramSetErr t => rfl
  | panic t => unfold ck at hc; split at hc <;> cases hc

end Avcc
