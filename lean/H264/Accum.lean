/-! Prototype for C08: `NalAccumulator::nal_fragment` under an arbitrary handler policy -/
namespace Accum

inductive Interest | buffer | ignore
deriving DecidableEq, Repr

structure Acc where
  buf : List UInt8
  interest : Interest
deriving DecidableEq, Repr

def init : Acc := ⟨[], .buffer⟩

/-- what the handler is shown: the NAL as head + tail chunks, and `is_complete` -/
structure Invocation where
  head : List UInt8
  tail : List (List UInt8)
  complete : Bool
deriving DecidableEq, Repr

def Invocation.bytes (i : Invocation) : List UInt8 := i.head ++ i.tail.flatten

/-- one fragment delivery; `decide` is the handler's answer if it is invoked -/
def frag (a : Acc) (bufs : List (List UInt8)) (fin : Bool) (decide : Invocation → Interest) :
    Acc × Option Invocation :=
  if a.interest ≠ .ignore then
    let inv? : Option Invocation :=
      if a.buf ≠ [] then some ⟨a.buf, bufs, fin⟩
      else match bufs with
        | [] => none
        | b :: bs => some ⟨b, bs, fin⟩
    match inv? with
    | none => (a, none)                                   -- early `return` (state untouched)
    | some inv =>
      let a1 : Acc := match decide inv with
        | .buffer => if !fin then { a with buf := a.buf ++ bufs.flatten } else a
        | .ignore => { a with interest := .ignore }
      (if fin then init else a1, some inv)
  else (if fin then init else a, none)

/-- a history: fragments, each with the answer the handler would give if invoked -/
structure Step where
  bufs : List (List UInt8)
  fin : Bool
  answer : Interest

def run : Acc → List Step → List Invocation → Acc × List Invocation
  | a, [], tr => (a, tr)
  | a, s :: ss, tr =>
    let r := frag a s.bufs s.fin (fun _ => s.answer)
    run r.1 ss (match r.2 with | some i => tr ++ [i] | none => tr)

/-- ghost state of the specification: bytes of the current NAL delivered so far, and whether it was ignored -/
structure Ghost where
  soFar : List UInt8
  ignored : Bool

def Inv (a : Acc) (g : Ghost) : Prop :=
  (a.interest = .ignore ↔ g.ignored = true) ∧ (g.ignored = false → a.buf = g.soFar)

def ghostStep (g : Ghost) (s : Step) (invoked : Bool) : Ghost :=
  if s.fin then ⟨[], false⟩
  else ⟨g.soFar ++ s.bufs.flatten, g.ignored || (invoked && s.answer == .ignore)⟩

theorem interest_cases (i : Interest) : i = .buffer ∨ i = .ignore := by cases i <;> simp

/-- **C08 (one step)**: the handler is invoked iff the NAL is not ignored and has at least one byte so far;
it sees exactly all bytes of the current NAL so far; `complete` iff this delivery ends the NAL;
and the state afterwards again satisfies the invariant (reset to `init` at the end of the NAL). -/
theorem frag_spec (a : Acc) (g : Ghost) (s : Step) (h : Inv a g) (hne : ∀ b ∈ s.bufs, b ≠ []) :
    (match (frag a s.bufs s.fin (fun _ => s.answer)).2 with
     | some i => g.ignored = false ∧ i.bytes = g.soFar ++ s.bufs.flatten ∧ i.head ≠ [] ∧ i.complete = s.fin
     | none => g.ignored = true ∨ (g.soFar = [] ∧ s.bufs = [])) ∧
    Inv (frag a s.bufs s.fin (fun _ => s.answer)).1
      (ghostStep g s (frag a s.bufs s.fin (fun _ => s.answer)).2.isSome) ∧
    (s.fin = true → (frag a s.bufs s.fin (fun _ => s.answer)).1 = init) := by
  obtain ⟨h1, h2⟩ := h
  obtain ⟨abuf, aint⟩ := a
  obtain ⟨bufs, fin, answer⟩ := s
  obtain ⟨soFar, ignored⟩ := g
  simp only at h1 h2 hne ⊢
  cases aint with
  | ignore =>
    have hg : ignored = true := h1.mp rfl
    subst hg
    cases fin <;> simp [frag, ghostStep, Inv, init]
  | buffer =>
    have hg : ignored = false := by
      cases ignored with
      | false => rfl
      | true => have := h1.mpr rfl; simp at this
    subst hg
    have hb : abuf = soFar := h2 rfl
    subst hb
    by_cases hbe : abuf = []
    · subst hbe
      cases bufs with
      | nil => cases fin <;> simp [frag, ghostStep, Inv, init]
      | cons b bs =>
        have hbne : b ≠ [] := hne b (by simp)
        cases fin <;> cases answer <;>
          simp [frag, ghostStep, Inv, init, Invocation.bytes, hbne]
    · cases fin <;> cases answer <;>
        simp [frag, ghostStep, Inv, init, Invocation.bytes, hbe]

end Accum

namespace Accum

/-- the specification of a whole history: what each invocation must carry, from the ghost state alone -/
def specRun : Ghost → List Step → List (List UInt8 × Bool)
  | _, [] => []
  | g, s :: ss =>
    let invoked := !g.ignored && !(g.soFar ++ s.bufs.flatten).isEmpty
    (if invoked then [(g.soFar ++ s.bufs.flatten, s.fin)] else []) ++ specRun (ghostStep g s invoked) ss

def obs (tr : List Invocation) : List (List UInt8 × Bool) := tr.map fun i => (i.bytes, i.complete)

/-- **C08**: for every sequence of deliveries (non-empty slices) and every handler policy, each invocation shows
exactly the bytes of the current NAL so far, flagged complete iff that delivery ended it; nothing after `Ignore`;
nothing carried over -/
theorem run_spec (a : Acc) (g : Ghost) (h : Inv a g) (steps : List Step)
    (hne : ∀ s ∈ steps, ∀ b ∈ s.bufs, b ≠ []) (tr : List Invocation) :
    obs (run a steps tr).2 = obs tr ++ specRun g steps ∧ 
    ∃ g', Inv (run a steps tr).1 g' := by
  induction steps generalizing a g tr with
  | nil => exact ⟨by simp [run, specRun], g, h⟩
  | cons s ss ih =>
    obtain ⟨f1, f2, _⟩ := frag_spec a g s h (hne s (by simp))
    simp only [run]
    cases hr : (frag a s.bufs s.fin (fun _ => s.answer)).2 with
    | none =>
      rw [hr] at f1 f2
      simp only [Option.isSome_none] at f2
      have hinv : (!g.ignored && !(g.soFar ++ s.bufs.flatten).isEmpty) = false := by
        rcases f1 with h1 | ⟨h1, h2⟩
        · simp [h1]
        · simp [h1, h2]
      obtain ⟨i1, i2⟩ := ih _ _ f2 (fun s' hs' => hne s' (by simp [hs'])) tr
      refine ⟨?_, i2⟩
      rw [i1]; simp only [specRun, hinv, Bool.false_eq_true, ↓reduceIte, List.nil_append]
    | some inv =>
      rw [hr] at f1 f2
      simp only [Option.isSome_some] at f2
      obtain ⟨g0, gb, ghd, gc⟩ := f1
      have hne' : (g.soFar ++ s.bufs.flatten) ≠ [] := by
        rw [← gb]; unfold Invocation.bytes
        intro h'; simp at h'; exact ghd h'.1
      have hinv : (!g.ignored && !(g.soFar ++ s.bufs.flatten).isEmpty) = true := by
        simp [g0, hne']
      obtain ⟨i1, i2⟩ := ih _ _ f2 (fun s' hs' => hne s' (by simp [hs'])) (tr ++ [inv])
      refine ⟨?_, i2⟩
      rw [i1]; simp only [specRun, hinv, ↓reduceIte, obs, List.map_append, List.map_cons, List.map_nil,
        List.append_assoc, gb, gc, List.cons_append, List.nil_append]

#print axioms run_spec
end Accum
