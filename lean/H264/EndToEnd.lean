import H264.C12
import H264.NalSrcProofs
import H264.EscapeNoSC
/-! C12, last link: what a parser reads inside the handler. Each complete invocation of the accumulating handler shows
the NAL as `head :: tail` chunks (the buffered bytes, then the new slices); the RBSP bit source that `rbsp_bits()` gives
over those chunks is the RBSP bit source of the NAL alone in one contiguous buffer — for every NAL of the sequence, in
order, however the stream was pushed. Every model parser is a function of (context, bit source), and the context is
the fold of the earlier results, so "same SPS, PPS, SEI messages and slice headers" follows by `congrArg`. -/
namespace C12
open AnnexB Accum

/-- the bit source a parser gets from `nal.rbsp_bits()` inside the handler -/
def invSrc (i : Invocation) : Bits.Src := NalSrc.srcOfNal (i.head :: i.tail) i.complete

theorem frag_chunks_nonempty (a : Acc) (bufs : List (List UInt8)) (fin : Bool) (d : Invocation → Interest)
    (hb : ∀ b ∈ bufs, b ≠ []) (i : Invocation) (h : (frag a bufs fin d).2 = some i) :
    i.head ≠ [] ∧ ∀ t ∈ i.tail, t ≠ [] := by
  unfold frag at h
  by_cases hi : a.interest ≠ .ignore
  · rw [if_pos hi] at h
    by_cases hbuf : a.buf ≠ []
    · rw [if_pos hbuf] at h
      simp only [Option.some.injEq] at h
      subst h
      exact ⟨hbuf, hb⟩
    · rw [if_neg hbuf] at h
      cases bufs with
      | nil => simp at h
      | cons b bs =>
        simp only [Option.some.injEq] at h
        subst h
        exact ⟨hb b (by simp), fun t ht => hb t (by simp [ht])⟩
  · rw [if_neg hi] at h
    simp at h

theorem run_chunks_nonempty (a : Acc) (steps : List Step) (hne : ∀ s ∈ steps, ∀ b ∈ s.bufs, b ≠ [])
    (tr : List Invocation) (htr : ∀ i ∈ tr, i.head ≠ [] ∧ ∀ t ∈ i.tail, t ≠ []) :
    ∀ i ∈ (Accum.run a steps tr).2, i.head ≠ [] ∧ ∀ t ∈ i.tail, t ≠ [] := by
  induction steps generalizing a tr with
  | nil => simpa [Accum.run] using htr
  | cons s ss ih =>
    simp only [Accum.run]
    apply ih
    · intro s' hs'; exact hne s' (by simp [hs'])
    · intro i hi
      cases hr : (frag a s.bufs s.fin fun _ => s.answer).2 with
      | none => rw [hr] at hi; exact htr i hi
      | some j =>
        rw [hr] at hi
        rcases List.mem_append.mp hi with h | h
        · exact htr i h
        · simp only [List.mem_singleton] at h
          subst h
          exact frag_chunks_nonempty a s.bufs s.fin _ (hne s (by simp)) _ hr

theorem completeOnes_obs (tr : List Invocation) :
    completeOnes (obs tr) = (tr.filter (·.complete)).map Invocation.bytes := by
  induction tr with
  | nil => simp [completeOnes, obs]
  | cons i tr ih =>
    simp only [completeOnes, obs, List.map_cons, List.filter_cons] at ih ⊢
    cases hc : i.complete <;> simp [hc, ih]

/-- **C12 (end to end)**: for any sequence of well-formed NAL units free of forbidden byte sequences, serialised as an
Annex B stream and pushed in arbitrary pieces through the accumulating reader, the bit sources that parsers obtain
inside the handler from the complete invocations are, in order, exactly the bit sources of the NAL units taken alone
from contiguous buffers -/
theorem end_to_end (nals : List (Nat × List UInt8)) (hok : ∀ p ∈ nals, NalOk p.2)
    (hvalid : ∀ p ∈ nals, (Rbsp.unesc (p.2.drop 1)).2 = true)
    (chunks : List (List UInt8)) (hcut : chunks.flatten = serialise nals) :
    let calls := (pushAll St.start chunks).2 ++ (AnnexB.reset (pushAll St.start chunks).1).2
    let tr := (Accum.run Accum.init (stepsOf calls) []).2
    (tr.filter (·.complete)).map invSrc = nals.map (fun p => NalSrc.srcOfNal [p.2] true) := by
  intro calls tr
  have hfr := C12_framing nals hok chunks hcut
  have hshape : ∀ c ∈ calls, c.WellShaped := by
    intro c hc
    rcases List.mem_append.mp hc with h | h
    · exact pushAll_shaped _ _ c h
    · exact reset_shaped _ c h
  have hne : ∀ s ∈ stepsOf calls, ∀ b ∈ s.bufs, b ≠ [] := by
    intro s hs b hb
    simp only [stepsOf, List.mem_map] at hs
    obtain ⟨c, hc, rfl⟩ := hs
    exact (hshape c hc).1 b hb
  have hch := run_chunks_nonempty Accum.init (stepsOf calls) hne [] (by simp)
  have hbytes : (tr.filter (·.complete)).map Invocation.bytes = nals.map (·.2) := by
    rw [← completeOnes_obs]; exact hfr
  -- each complete invocation: source over its chunks = source over its bytes in one buffer
  have hsrc : ∀ i ∈ tr.filter (·.complete), invSrc i = NalSrc.srcOfNal [i.bytes] true := by
    intro i hi
    obtain ⟨hit, hic⟩ := List.mem_filter.mp hi
    have hmem : i.bytes ∈ nals.map (·.2) := by rw [← hbytes]; exact List.mem_map_of_mem hi
    obtain ⟨p, hp, hpe⟩ := List.mem_map.mp hmem
    have hv : (Rbsp.unesc (i.bytes.drop 1)).2 = true := by rw [← hpe]; exact hvalid p hp
    have hnn : i.bytes ≠ [] := by rw [← hpe]; exact (hok p hp).1
    obtain ⟨hh, ht⟩ := hch i hit
    have hcne : ∀ c ∈ i.head :: i.tail, c ≠ [] := by
      intro c hc
      rcases List.mem_cons.mp hc with h | h
      · rw [h]; exact hh
      · exact ht c h
    have hflat : (i.head :: i.tail).flatten = i.bytes := by simp [Invocation.bytes]
    unfold invSrc
    have hic' : i.complete = true := by simpa using hic
    rw [hic', NalSrc.srcOfNal_valid (i.head :: i.tail) true hcne (by rw [hflat]; exact hv),
        NalSrc.srcOfNal_valid [i.bytes] true (by intro c hc; simp at hc; rw [hc]; exact hnn) (by simpa using hv), hflat]
    simp
  rw [List.map_congr_left hsrc]
  have : (tr.filter (·.complete)).map (fun i => NalSrc.srcOfNal [i.bytes] true) =
      ((tr.filter (·.complete)).map Invocation.bytes).map (fun b => NalSrc.srcOfNal [b] true) := by
    simp [List.map_map]
  rw [this, hbytes]
  simp [List.map_map]

/-- … hence any parser (a function of the bit source) returns inside the handler what it returns on the NAL alone -/
theorem parsed_inside_eq_parsed_alone {β} (parse : Bits.Src → β) (nals : List (Nat × List UInt8))
    (hok : ∀ p ∈ nals, NalOk p.2) (hvalid : ∀ p ∈ nals, (Rbsp.unesc (p.2.drop 1)).2 = true)
    (chunks : List (List UInt8)) (hcut : chunks.flatten = serialise nals) :
    let calls := (pushAll St.start chunks).2 ++ (AnnexB.reset (pushAll St.start chunks).1).2
    let tr := (Accum.run Accum.init (stepsOf calls) []).2
    (tr.filter (·.complete)).map (fun i => parse (invSrc i)) = nals.map (fun p => parse (NalSrc.srcOfNal [p.2] true)) := by
  intro calls tr
  have := congrArg (List.map parse) (end_to_end nals hok hvalid chunks hcut)
  simp only [List.map_map] at this
  exact this

/-! ### the NAL units the theorem is about exist: `header :: escape(rbsp)` for any RBSP that ends in a non-zero byte
(rbsp_trailing_bits) is well formed and free of forbidden sequences, and un-escapes to that RBSP -/

theorem escapeGo_getLast? (z : Nat) (p : List UInt8) (x : UInt8) (hx : x ≠ 0) (hp : p.getLast? = some x) :
    (Rbsp.escapeGo z p).getLast? = some x := by
  induction p generalizing z with
  | nil => simp at hp
  | cons b rest ih =>
    cases rest with
    | nil =>
      simp only [List.getLast?_singleton, Option.some.injEq] at hp
      subst hp
      simp only [Rbsp.escapeGo, hx, ↓reduceIte]
      split <;> simp [Rbsp.escapeGo]
    | cons c rest' =>
      have hp' : (c :: rest').getLast? = some x := by simpa [List.getLast?_cons_cons] using hp
      rw [Rbsp.escapeGo]
      split
      · have := ih (if b = 0 then 1 else 0) hp'
        cases he : Rbsp.escapeGo (if b = 0 then 1 else 0) (c :: rest') with
        | nil => rw [he] at this; simp at this
        | cons e es => rw [he] at this; simp only [List.getLast?_cons_cons]; exact this
      · have := ih (if b = 0 then z + 1 else 0) hp'
        cases he : Rbsp.escapeGo (if b = 0 then z + 1 else 0) (c :: rest') with
        | nil => rw [he] at this; simp at this
        | cons e es => rw [he] at this; simp only [List.getLast?_cons_cons]; exact this

theorem escaped_nal_ok (hdr : UInt8) (h0 : hdr ≠ 0) (rbsp : List UInt8) (x : UInt8) (hx : x ≠ 0)
    (hl : rbsp.getLast? = some x) :
    NalOk (hdr :: Rbsp.escape rbsp) ∧ Rbsp.unesc ((hdr :: Rbsp.escape rbsp).drop 1) = (rbsp, true) := by
  refine ⟨⟨by simp, noSC_nal hdr h0 rbsp, ?_⟩, by simp [Rbsp.unesc_escape]⟩
  intro h
  have he := escapeGo_getLast? 0 rbsp x hx hl
  have hne : Rbsp.escape rbsp ≠ [] := by
    intro hc; unfold Rbsp.escape at hc; rw [hc] at he; simp at he
  rw [List.getLast_cons hne]
  have : (Rbsp.escape rbsp).getLast? = some ((Rbsp.escape rbsp).getLast hne) := List.getLast?_eq_some_getLast hne
  unfold Rbsp.escape at this he
  rw [he] at this
  simp only [Option.some.injEq] at this
  unfold Rbsp.escape
  rw [← this]; exact hx

/-- **C12, for encoder-produced streams**: NAL units given as (extra leading zeros, header byte, RBSP ending in its
trailing bits), emulation prevention applied by `escape`, serialised and pushed in any pieces: parsing inside the handler
gives, NAL by NAL, what parsing `header :: escape rbsp` alone gives -/
theorem end_to_end_escaped {β} (parse : Bits.Src → β) (units : List (Nat × UInt8 × List UInt8))
    (hu : ∀ u ∈ units, u.2.1 ≠ 0 ∧ ∃ x, x ≠ 0 ∧ u.2.2.getLast? = some x)
    (chunks : List (List UInt8))
    (hcut : chunks.flatten = serialise (units.map fun u => (u.1, u.2.1 :: Rbsp.escape u.2.2))) :
    let calls := (pushAll St.start chunks).2 ++ (AnnexB.reset (pushAll St.start chunks).1).2
    let tr := (Accum.run Accum.init (stepsOf calls) []).2
    (tr.filter (·.complete)).map (fun i => parse (invSrc i)) =
      units.map (fun u => parse (NalSrc.srcOfNal [u.2.1 :: Rbsp.escape u.2.2] true)) := by
  intro calls tr
  have hall : ∀ p ∈ units.map (fun u => (u.1, u.2.1 :: Rbsp.escape u.2.2)),
      NalOk p.2 ∧ (Rbsp.unesc (p.2.drop 1)).2 = true := by
    intro p hp
    obtain ⟨u, hu', rfl⟩ := List.mem_map.mp hp
    obtain ⟨h0, x, hx, hl⟩ := hu u hu'
    have := escaped_nal_ok u.2.1 h0 u.2.2 x hx hl
    exact ⟨this.1, by rw [this.2]⟩
  have := parsed_inside_eq_parsed_alone parse _ (fun p hp => (hall p hp).1) (fun p hp => (hall p hp).2) chunks hcut
  simp only [List.map_map] at this
  exact this

end C12
