import H264.NalSrcProofs
import H264.RbspPrefix
import H264.Mono
/-! C17, byte level: a proper prefix of a valid NAL, presented as an incomplete NAL in any chunking, gives the
parsers a truncated, would-block view of what the complete contiguous NAL gives them -/
namespace NalSrc
open Rbsp Bits

theorem bitsOfBytes_append (a b : List UInt8) : bitsOfBytes (a ++ b) = bitsOfBytes a ++ bitsOfBytes b := by
  simp [bitsOfBytes]

theorem prefix_view (nal : List UInt8) (hv : (unesc (nal.drop 1)).2 = true)
    (chunks' : List (List UInt8)) (hc : ∀ c ∈ chunks', c ≠ []) (t : List UInt8) (hflat : chunks'.flatten ++ t = nal)
    (hne : chunks' ≠ []) :
    (srcOfNal chunks' false).IsPrefixOf (srcOfNal [nal] true) := by
  have hnal : nal ≠ [] := by
    intro h; rw [h] at hflat
    cases chunks' with
    | nil => exact hne rfl
    | cons c cs =>
      have := hc c (by simp)
      simp at hflat; exact this hflat.1
  have hp1 : 1 ≤ chunks'.flatten.length := by
    cases chunks' with
    | nil => exact absurd rfl hne
    | cons c cs =>
      have := hc c (by simp)
      have : c.length ≠ 0 := fun h => this (List.length_eq_zero_iff.mp h)
      simp; omega
  have hdrop : nal.drop 1 = chunks'.flatten.drop 1 ++ t := by
    rw [← hflat, List.drop_append_of_le_length hp1]
  have hvv := hv
  rw [hdrop, ← unescFrom_start_eq] at hvv
  obtain ⟨pv, ppre⟩ := unescFrom_prefix .start (chunks'.flatten.drop 1) t hvv
  rw [unescFrom_start_eq] at pv ppre
  rw [unescFrom_start_eq, ← hdrop] at ppre
  have h1 := srcOfNal_valid chunks' false hc pv
  have h2 := srcOfNal_valid [nal] true (by intro c hc'; simp at hc'; rw [hc']; exact hnal) (by simpa using hv)
  rw [h1, h2]
  obtain ⟨u, hu⟩ := ppre
  refine ⟨by simp, bitsOfBytes u, ?_⟩
  simp only [List.flatten_cons, List.flatten_nil, List.append_nil, Bool.false_eq_true, ↓reduceIte]
  rw [← hu, bitsOfBytes_append]

/-- **C17**: every prefix-monotone parser, applied to the incomplete prefix in any chunking, either fails because it
would have to wait, or agrees with its outcome on the complete contiguous NAL -/
theorem partial_agrees {α} (p : P α) (hp : Mono p) (nal : List UInt8) (hv : (unesc (nal.drop 1)).2 = true)
    (chunks' : List (List UInt8)) (hc : ∀ c ∈ chunks', c ≠ []) (t : List UInt8) (hflat : chunks'.flatten ++ t = nal)
    (hne : chunks' ≠ []) :
    MonoRes (p (srcOfNal [nal] true)) (p (srcOfNal chunks' false)) :=
  hp _ _ (prefix_view nal hv chunks' hc t hflat hne)

end NalSrc
