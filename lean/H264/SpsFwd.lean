import H264.SpsStd
/-! Prototype: forward round trip, structure by structure -/
namespace Sps
open Bits

theorem readCpbSpec_enc (c : CpbSpec) (wf : c.WF) (rest fin) :
    readCpbSpec ⟨encCpbSpec c ++ rest, fin⟩ = .ok (c, ⟨rest, fin⟩) := by
  obtain ⟨h1, h2⟩ := wf
  simp [readCpbSpec, encCpbSpec, List.append_assoc, readUe_enc _ _ h1, readUe_enc _ _ h2]

theorem readCpbSpecs_enc (cs : List CpbSpec) (wf : ∀ c ∈ cs, c.WF) (rest fin) :
    readCpbSpecs cs.length ⟨(cs.map encCpbSpec).flatten ++ rest, fin⟩ = .ok (cs, ⟨rest, fin⟩) := by
  induction cs with
  | nil => simp [readCpbSpecs]
  | cons c cs ih =>
    simp [readCpbSpecs, List.append_assoc, readCpbSpec_enc c (wf c (by simp)),
      ih (fun c' hc' => wf c' (by simp [hc']))]

theorem readHrd_enc (h : Option Hrd) (wf : OptHrdWF h) (rest fin) :
    readHrd ⟨encHrd h ++ rest, fin⟩ = .ok (h, ⟨rest, fin⟩) := by
  cases h with
  | none => simp [readHrd, encHrd]
  | some h =>
    obtain ⟨w1, w2, w3, w4, w5, w6, w7, w8, w9⟩ := wf
    have hk : h.cpbSpecs.length - 1 < 2^32 - 1 := by omega
    have hle : ¬ (h.cpbSpecs.length - 1 > 31) := by omega
    have hlen : h.cpbSpecs.length - 1 + 1 = h.cpbSpecs.length := by omega
    simp [readHrd, encHrd, List.append_assoc, readUe_enc _ _ hk, hle, hlen,
      readBits_enc, w1, w2, w6, w7, w8, w9, readCpbSpecs_enc _ w5]

theorem readAspectRatioInfo_enc (a : Option AspectRatioInfo)
    (wf : match a with | none => True | some a => a.WF) (rest fin) :
    readAspectRatioInfo ⟨encAspectRatioInfo a ++ rest, fin⟩ = .ok (a, ⟨rest, fin⟩) := by
  cases a with
  | none => simp [readAspectRatioInfo, encAspectRatioInfo]
  | some a =>
    cases a with
    | idc v =>
      have hv : v < 255 := wf
      have h1 : v < 2^8 := by omega
      have h2 : v ≠ 255 := by omega
      simp [readAspectRatioInfo, encAspectRatioInfo, List.append_assoc, readBits_enc _ _ _ h1, h2]
    | extended w h =>
      obtain ⟨hw, hh⟩ := wf
      have h1 : 255 < 2^8 := by omega
      simp [readAspectRatioInfo, encAspectRatioInfo, List.append_assoc, readBits_enc _ _ _ h1,
        readBits_enc _ _ _ hw, readBits_enc _ _ _ hh]

theorem readOverscan_enc (o : OverscanAppropriate) (rest fin) :
    readOverscan ⟨encOverscan o ++ rest, fin⟩ = .ok (o, ⟨rest, fin⟩) := by
  cases o <;> simp [readOverscan, encOverscan, List.append_assoc]

theorem readColourDescription_enc (c : Option ColourDescription)
    (wf : match c with | none => True | some c => c.WF) (rest fin) :
    readColourDescription ⟨encColourDescription c ++ rest, fin⟩ = .ok (c, ⟨rest, fin⟩) := by
  cases c with
  | none => simp [readColourDescription, encColourDescription]
  | some c =>
    obtain ⟨h1, h2, h3⟩ := wf
    simp [readColourDescription, encColourDescription, List.append_assoc,
      readBits_enc _ 8 _ (show c.colourPrimaries < 2^8 from h1),
      readBits_enc _ 8 _ (show c.transferCharacteristics < 2^8 from h2),
      readBits_enc _ 8 _ (show c.matrixCoefficients < 2^8 from h3)]

theorem readVideoSignalType_enc (v : Option VideoSignalType)
    (wf : match v with | none => True | some v => v.WF) (rest fin) :
    readVideoSignalType ⟨encVideoSignalType v ++ rest, fin⟩ = .ok (v, ⟨rest, fin⟩) := by
  cases v with
  | none => simp [readVideoSignalType, encVideoSignalType]
  | some v =>
    obtain ⟨h1, h2⟩ := wf
    simp [readVideoSignalType, encVideoSignalType, List.append_assoc,
      readBits_enc _ 3 _ (show v.videoFormat < 2^3 from h1), readColourDescription_enc _ h2]

theorem readChromaLocInfo_enc (c : Option ChromaLocInfo)
    (wf : match c with | none => True | some a => Ue a.top ∧ Ue a.bottom) (rest fin) :
    readChromaLocInfo ⟨encChromaLocInfo c ++ rest, fin⟩ = .ok (c, ⟨rest, fin⟩) := by
  cases c with
  | none => simp [readChromaLocInfo, encChromaLocInfo]
  | some c =>
    obtain ⟨h1, h2⟩ := wf
    simp [readChromaLocInfo, encChromaLocInfo, List.append_assoc, readUe_enc _ _ h1, readUe_enc _ _ h2]

theorem readTimingInfo_enc (t : Option TimingInfo)
    (wf : match t with | none => True | some t => t.numUnitsInTick < 2^32 ∧ t.timeScale < 2^32) (rest fin) :
    readTimingInfo ⟨encTimingInfo t ++ rest, fin⟩ = .ok (t, ⟨rest, fin⟩) := by
  cases t with
  | none => simp [readTimingInfo, encTimingInfo]
  | some t =>
    obtain ⟨h1, h2⟩ := wf
    simp [readTimingInfo, encTimingInfo, List.append_assoc, readBits_enc _ 32 _ h1, readBits_enc _ 32 _ h2]

theorem readBitstreamRestrictions_enc (b : Option BitstreamRestrictions) (m : Nat)
    (wf : match b with | none => True | some b => b.WF m) (rest fin) :
    readBitstreamRestrictions m ⟨encBitstreamRestrictions b ++ rest, fin⟩ = .ok (b, ⟨rest, fin⟩) := by
  cases b with
  | none => simp [readBitstreamRestrictions, encBitstreamRestrictions]
  | some b =>
    obtain ⟨h1, h2, h3, h4, h5, h6, h7⟩ := wf
    have u1 : Ue b.maxBytesPerPicDenom := by unfold Ue; omega
    have u2 : Ue b.maxBitsPerMbDenom := by unfold Ue; omega
    have u3 : Ue b.log2MaxMvLengthHorizontal := by unfold Ue; omega
    have u4 : Ue b.log2MaxMvLengthVertical := by unfold Ue; omega
    have u5 : Ue b.maxNumReorderFrames := by unfold Ue at *; omega
    have n1 : ¬ b.maxBytesPerPicDenom > 16 := by omega
    have n2 : ¬ b.maxBitsPerMbDenom > 16 := by omega
    have n3 : ¬ b.log2MaxMvLengthHorizontal > 16 := by omega
    have n4 : ¬ b.log2MaxMvLengthVertical > 16 := by omega
    have n5 : ¬ b.maxNumReorderFrames > b.maxDecFrameBuffering := by omega
    have n6 : ¬ b.maxDecFrameBuffering < m := by omega
    simp [readBitstreamRestrictions, encBitstreamRestrictions, List.append_assoc,
      readUe_enc _ _ u1, readUe_enc _ _ u2, readUe_enc _ _ u3, readUe_enc _ _ u4, readUe_enc _ _ u5,
      readUe_enc _ _ h7, n1, n2, n3, n4, n5, n6]

theorem readVui_enc (v : Option Vui) (m : Nat)
    (wf : match v with | none => True | some v => v.WF m) (rest fin) :
    readVui m ⟨encVui v ++ rest, fin⟩ = .ok (v, ⟨rest, fin⟩) := by
  cases v with
  | none => simp [readVui, encVui]
  | some v =>
    obtain ⟨ar, os, vs, cl, ti, nal, vcl, ld, ps, br⟩ := v
    obtain ⟨w1, w2, w3, w4, w5, w6, w7, w8⟩ := wf
    simp only at w1 w2 w3 w4 w5 w6 w7 w8
    cases ld with
    | none =>
      have hn : nal = none := by cases nal <;> simp_all
      have hv : vcl = none := by cases vcl <;> simp_all
      subst hn; subst hv
      simp [readVui, readLowDelayFlag, encVui, encOptBool, List.append_assoc, readAspectRatioInfo_enc _ w1, readOverscan_enc,
        readVideoSignalType_enc _ w2, readChromaLocInfo_enc _ w3, readTimingInfo_enc _ w4,
        readHrd_enc _ w5, readBitstreamRestrictions_enc _ _ w8]
    | some b =>
      have hyes : nal.isSome = true ∨ vcl.isSome = true := by
        cases nal <;> cases vcl <;> simp_all
      simp [readVui, readLowDelayFlag, encVui, encOptBool, List.append_assoc, readAspectRatioInfo_enc _ w1, readOverscan_enc,
        readVideoSignalType_enc _ w2, readChromaLocInfo_enc _ w3, readTimingInfo_enc _ w4,
        readHrd_enc _ w5, readHrd_enc _ w6, hyes, readBitstreamRestrictions_enc _ _ w8]


theorem readFrameCropping_enc (c : Option FrameCropping)
    (wf : match c with | none => True | some c => Ue c.left ∧ Ue c.right ∧ Ue c.top ∧ Ue c.bottom) (rest fin) :
    readFrameCropping ⟨encFrameCropping c ++ rest, fin⟩ = .ok (c, ⟨rest, fin⟩) := by
  cases c with
  | none => simp [readFrameCropping, encFrameCropping]
  | some c =>
    obtain ⟨h1, h2, h3, h4⟩ := wf
    simp [readFrameCropping, encFrameCropping, List.append_assoc, readUe_enc _ _ h1, readUe_enc _ _ h2,
      readUe_enc _ _ h3, readUe_enc _ _ h4]

theorem readFrameMbsFlags_enc (f : FrameMbsFlags) (rest fin) :
    readFrameMbsFlags ⟨encFrameMbsFlags f ++ rest, fin⟩ = .ok (f, ⟨rest, fin⟩) := by
  cases f <;> simp [readFrameMbsFlags, encFrameMbsFlags, List.append_assoc]

theorem readSeList_enc (name) (xs : List Int) (wf : ∀ x ∈ xs, SeRange x) (rest fin) :
    readSeList name xs.length ⟨(xs.map encSe).flatten ++ rest, fin⟩ = .ok (xs, ⟨rest, fin⟩) := by
  induction xs with
  | nil => simp [readSeList]
  | cons x xs ih =>
    simp [readSeList, List.append_assoc, readSe_enc _ _ (wf x (by simp)),
      ih (fun y hy => wf y (by simp [hy]))]

theorem readPicOrderCnt_enc (p : PicOrderCntType) (wf : p.WF) (rest fin) :
    readPicOrderCnt ⟨encPicOrderCnt p ++ rest, fin⟩ = .ok (p, ⟨rest, fin⟩) := by
  have u0 : (0 : Nat) < 2^32 - 1 := by omega
  have u1 : (1 : Nat) < 2^32 - 1 := by omega
  have u2 : (2 : Nat) < 2^32 - 1 := by omega
  cases p with
  | typeZero v =>
    have hv : v ≤ 12 := wf
    have hu : v < 2^32 - 1 := by omega
    have hn : ¬ v > 12 := by omega
    simp [readPicOrderCnt, encPicOrderCnt, List.append_assoc, readUe_enc _ _ u0, readUe_enc _ _ hu, hn]
  | typeOne f a b offs =>
    obtain ⟨ha, hb, hl, ho⟩ := wf
    have hu : offs.length < 2^32 - 1 := by omega
    have hn : ¬ offs.length > 255 := by omega
    simp [readPicOrderCnt, encPicOrderCnt, List.append_assoc, readUe_enc _ _ u1, readUe_enc _ _ hu, hn,
      readSe_enc _ _ ha, readSe_enc _ _ hb, readSeList_enc _ _ ho]
  | typeTwo =>
    simp [readPicOrderCnt, encPicOrderCnt, readUe_enc _ _ u2]

/-! ### scaling lists -/

theorem fillScalingList_enc (n j last next : Nat) (ud : Bool) (acc : List Nat) (ds : List Int)
    (l : List Nat) (u : Bool) (hs : specFill n j last next ud ds = some (l, u))
    (hd : ∀ d ∈ ds, -128 ≤ d ∧ d ≤ 127) (rest fin) :
    fillScalingList n j last next ud acc ⟨(ds.map encSe).flatten ++ rest, fin⟩
      = .ok ((acc.reverse ++ l, u), ⟨rest, fin⟩) := by
  induction n generalizing j last next ud acc ds l u with
  | zero =>
    simp only [specFill] at hs
    split at hs
    · rename_i h; subst h; simp at hs; obtain ⟨rfl, rfl⟩ := hs; simp [fillScalingList]
    · simp at hs
  | succ n ih =>
    simp only [specFill] at hs
    by_cases hn : next ≠ 0
    · rw [if_pos hn] at hs
      cases ds with
      | nil => simp at hs
      | cons d ds' =>
        simp only [Option.map_eq_some_iff] at hs
        obtain ⟨r, hr, hrl⟩ := hs
        obtain ⟨rl, ru⟩ := r
        simp only [Prod.mk.injEq] at hrl
        obtain ⟨rfl, rfl⟩ := hrl
        have hdr := hd d (by simp)
        have hse : SeRange d := by unfold SeRange; omega
        have hrange : ¬ (d < -128 ∨ d > 127) := by omega
        have := ih (j+1) _ _ _ ((if ((last : Int) + d + 256).toNat % 256 = 0 then last
            else ((last : Int) + d + 256).toNat % 256) :: acc) ds' rl ru hr
          (fun x hx => hd x (by simp [hx]))
        simp only [fillScalingList, hn, ↓reduceIte, bind_run, List.map_cons, List.flatten_cons,
          List.append_assoc, readSe_enc _ _ hse, hrange, ne_eq, not_false_eq_true]
        rw [this]; simp
    · rw [if_neg hn] at hs
      simp only [Option.map_eq_some_iff] at hs
      obtain ⟨r, hr, hrl⟩ := hs
      obtain ⟨rl, ru⟩ := r
      simp only [Prod.mk.injEq] at hrl
      obtain ⟨rfl, rfl⟩ := hrl
      have := ih (j+1) _ _ _ (last :: acc) ds rl ru hr hd
      simp only [fillScalingList, hn, ↓reduceIte]
      rw [this]; simp

theorem readScalingList_enc (size : Nat) (sl : Option (List Int)) (r : ScalingList)
    (hs : specScalingList size sl = some r) (hd : deltasOk sl) (rest fin) :
    (do let p ← readBool "seq_scaling_list_present_flag"; readScalingList size p)
      ⟨encScalingList sl ++ rest, fin⟩ = .ok (r, ⟨rest, fin⟩) := by
  cases sl with
  | none =>
    simp [specScalingList] at hs; subst hs
    simp [encScalingList, readScalingList]
  | some ds =>
    simp only [specScalingList, Option.map_eq_some_iff] at hs
    obtain ⟨⟨l, u⟩, hf, hr⟩ := hs
    have := fillScalingList_enc size 0 8 8 false [] ds l u hf hd rest fin
    simp only [encScalingList, List.append_assoc, bind_run, readBool_enc, readScalingList,
      Bool.not_true, Bool.false_eq_true, ↓reduceIte, this]
    subst hr
    cases u <;> simp


/-- the standard's derivation of the whole matrix from the coded lists (first `size4` lists are 4x4) -/
def specLists (size4 : Nat) : (i : Nat) → ScalingSyntax → Option (List ScalingList × List ScalingList)
  | _, [] => some ([], [])
  | i, sl :: rest =>
    if i < size4 then
      (specScalingList 16 sl).bind fun r => (specLists size4 (i+1) rest).map fun p => (r :: p.1, p.2)
    else
      (specScalingList 64 sl).bind fun r => (specLists size4 (i+1) rest).map fun p => (p.1, r :: p.2)

theorem readScalingLists_enc (size4 : Nat) (ls : ScalingSyntax) (i : Nat) (a4 a8 x y : List ScalingList)
    (hs : specLists size4 i ls = some (x, y)) (hd : ∀ sl ∈ ls, deltasOk sl) (rest fin) :
    readScalingLists size4 ls.length i a4 a8 ⟨(ls.map encScalingList).flatten ++ rest, fin⟩
      = .ok (⟨a4.reverse ++ x, a8.reverse ++ y⟩, ⟨rest, fin⟩) := by
  induction ls generalizing i a4 a8 x y with
  | nil => simp [specLists] at hs; obtain ⟨rfl, rfl⟩ := hs; simp [readScalingLists]
  | cons sl ls ih =>
    simp only [specLists] at hs
    by_cases hi : i < size4
    · rw [if_pos hi] at hs
      simp only [Option.bind_eq_some_iff, Option.map_eq_some_iff] at hs
      obtain ⟨r, hr, ⟨p1, p2⟩, hp, hxy⟩ := hs
      simp only [Prod.mk.injEq] at hxy
      obtain ⟨rfl, rfl⟩ := hxy
      have h1 := readScalingList_enc 16 sl r hr (hd sl (by simp)) ((ls.map encScalingList).flatten ++ rest) fin
      have h2 := ih (i+1) (r :: a4) a8 p1 p2 hp (fun s hs => hd s (by simp [hs]))
      simp only [bind_run] at h1
      simp only [List.length_cons, readScalingLists, List.map_cons, List.flatten_cons, List.append_assoc,
        bind_run, hi, ↓reduceIte]
      cases hb : readBool "seq_scaling_list_present_flag"
          ⟨encScalingList sl ++ ((ls.map encScalingList).flatten ++ rest), fin⟩ with
      | error e => rw [hb] at h1; simp at h1
      | ok v =>
        obtain ⟨pf, s1⟩ := v
        rw [hb] at h1
        simp only at h1 ⊢
        rw [h1]
        simp only
        rw [h2]; simp
    · rw [if_neg hi] at hs
      simp only [Option.bind_eq_some_iff, Option.map_eq_some_iff] at hs
      obtain ⟨r, hr, ⟨p1, p2⟩, hp, hxy⟩ := hs
      simp only [Prod.mk.injEq] at hxy
      obtain ⟨rfl, rfl⟩ := hxy
      have h1 := readScalingList_enc 64 sl r hr (hd sl (by simp)) ((ls.map encScalingList).flatten ++ rest) fin
      have h2 := ih (i+1) a4 (r :: a8) p1 p2 hp (fun s hs => hd s (by simp [hs]))
      simp only [bind_run] at h1
      simp only [List.length_cons, readScalingLists, List.map_cons, List.flatten_cons, List.append_assoc,
        bind_run, hi, ↓reduceIte]
      cases hb : readBool "seq_scaling_list_present_flag"
          ⟨encScalingList sl ++ ((ls.map encScalingList).flatten ++ rest), fin⟩ with
      | error e => rw [hb] at h1; simp at h1
      | ok v =>
        obtain ⟨pf, s1⟩ := v
        rw [hb] at h1
        simp only at h1 ⊢
        rw [h1]
        simp only
        rw [h2]; simp

/-- relation between the coded scaling syntax and the derived matrix stored in the parsed SPS -/
def MatrixDerives (idc : Nat) : Option ScalingSyntax → Option SeqScalingMatrix → Prop
  | none, m => m = none
  | some ls, m => ls.length = (if idc = 3 then 12 else 8) ∧ (∀ sl ∈ ls, deltasOk sl) ∧
      ∃ x y, specLists 6 0 ls = some (x, y) ∧ m = some ⟨x, y⟩

def ChromaInfo.WF (profileIdc : Nat) (c : ChromaInfo) (sm : Option ScalingSyntax) : Prop :=
  if stdHasChromaInfo profileIdc then
    Ue (chromaFormatIdc c.chromaFormat) ∧ c.chromaFormat = ChromaFormat.ofIdc (chromaFormatIdc c.chromaFormat) ∧
    (chromaFormatIdc c.chromaFormat ≠ 3 → c.separateColourPlaneFlag = false) ∧
    c.bitDepthLumaMinus8 ≤ 6 ∧ c.bitDepthChromaMinus8 ≤ 6 ∧
    MatrixDerives (chromaFormatIdc c.chromaFormat) sm c.scalingMatrix
  else c = {} 

theorem readChromaInfo_enc (profileIdc : Nat) (hmvc : mvcOnlyProfile profileIdc = false)
    (c : ChromaInfo) (sm : Option ScalingSyntax)
    (wf : c.WF profileIdc sm) (rest fin) :
    readChromaInfo profileIdc ⟨encChromaInfo profileIdc c sm ++ rest, fin⟩ = .ok (c, ⟨rest, fin⟩) := by
  unfold ChromaInfo.WF at wf
  unfold encChromaInfo
  rw [← hasChromaInfo_std profileIdc hmvc] at wf ⊢
  by_cases hp : hasChromaInfo profileIdc = true
  · rw [if_pos hp] at wf
    obtain ⟨w1, w2, w3, w4, w5, w6⟩ := wf
    obtain ⟨cf, sep, bl, bc, q, m⟩ := c
    simp only at w1 w2 w3 w4 w5 w6
    have ubl : bl < 2^32 - 1 := by omega
    have ubc : bc < 2^32 - 1 := by omega
    have nbl : ¬ bl > 6 := by omega
    have nbc : ¬ bc > 6 := by omega
    simp only [hp, ↓reduceIte]
    generalize hidc : chromaFormatIdc cf = idc at w1 w2 w3 w6 ⊢
    subst w2
    cases sm with
    | none =>
      simp only [MatrixDerives] at w6; subst w6
      by_cases h3 : idc = 3
      · subst h3
        simp [readChromaInfo, readSeparateColourPlane, readOptScalingMatrix, hp, List.append_assoc, readUe_enc _ _ w1, readBitDepthMinus8,
          readUe_enc _ _ ubl, readUe_enc _ _ ubc, nbl, nbc]
      · have := w3 h3; subst this
        simp [readChromaInfo, readSeparateColourPlane, readOptScalingMatrix, hp, List.append_assoc, readUe_enc _ _ w1, h3, readBitDepthMinus8,
          readUe_enc _ _ ubl, readUe_enc _ _ ubc, nbl, nbc]
    | some ls =>
      obtain ⟨hlen, hd, x, y, hxy, hm⟩ := w6
      subst hm
      have hsl := readScalingLists_enc 6 ls 0 [] [] x y hxy hd rest fin
      rw [hlen] at hsl
      by_cases h3 : idc = 3
      · subst h3
        simp only [↓reduceIte] at hsl
        simp [readChromaInfo, readSeparateColourPlane, readOptScalingMatrix, hp, List.append_assoc, readUe_enc _ _ w1, readBitDepthMinus8,
          readUe_enc _ _ ubl, readUe_enc _ _ ubc, nbl, nbc, readSeqScalingMatrix, hsl]
      · have := w3 h3; subst this
        simp only [h3, ↓reduceIte] at hsl
        simp [readChromaInfo, readSeparateColourPlane, readOptScalingMatrix, hp, List.append_assoc, readUe_enc _ _ w1, h3, readBitDepthMinus8,
          readUe_enc _ _ ubl, readUe_enc _ _ ubc, nbl, nbc, readSeqScalingMatrix, hsl]
  · have hp' : hasChromaInfo profileIdc = false := by simpa using hp
    rw [hp'] at wf
    simp only [Bool.false_eq_true, ↓reduceIte] at wf
    subst wf
    simp [readChromaInfo, hp']

#print axioms readChromaInfo_enc
end Sps
