import H264.SpsC04
/-! Prototype for C13: `pixel_dimensions` with the Rust `checked_*` guards vs the standard's formula on ℕ -/
namespace Sps

inductive DimErr
  | tooLarge (field : String)
  | cropping
deriving DecidableEq, Repr

def U32 : Nat := 4294967296

def mulOf : FrameMbsFlags → Nat | .fields _ => 2 | .frames => 1
def vsubOf (c : ChromaFormat) : Nat := if c = .yuv420 then 1 else 0
def hsubOf (c : ChromaFormat) : Nat := if c = .yuv420 ∨ c = .yuv422 then 1 else 0

/-! the standard's quantities (7.4.2.1.1, Table 6-1), on unbounded ℕ -/
def cropUnitX (s : Sps) : Nat := 2 ^ hsubOf s.chromaInfo.chromaFormat
def cropUnitY (s : Sps) : Nat := mulOf s.frameMbsFlags * 2 ^ vsubOf s.chromaInfo.chromaFormat
def lumaWidth (s : Sps) : Nat := 16 * (s.picWidthInMbsMinus1 + 1)
def lumaHeight (s : Sps) : Nat := 16 * mulOf s.frameMbsFlags * (s.picHeightInMapUnitsMinus1 + 1)

/-- model of `SeqParameterSet::pixel_dimensions`: every `checked_mul` / `checked_sub` of the Rust, in its order,
as the guard it is -/
def pixelDimensions (s : Sps) : Except DimErr (Nat × Nat) :=
  if ¬ lumaWidth s < U32 then .error (.tooLarge "pic_width_in_mbs_minus1") else
  if ¬ lumaHeight s < U32 then .error (.tooLarge "pic_height_in_map_units_minus1") else
  match s.frameCropping with
  | none => .ok (lumaWidth s, lumaHeight s)
  | some c =>
    if ¬ c.left * cropUnitX s < U32 then .error (.tooLarge "left_offset") else
    if ¬ c.right * cropUnitX s < U32 then .error (.tooLarge "right_offset") else
    if ¬ c.top * cropUnitY s < U32 then .error (.tooLarge "top_offset") else
    if ¬ c.bottom * cropUnitY s < U32 then .error (.tooLarge "bottom_offset") else
    if c.left * cropUnitX s ≤ lumaWidth s ∧ c.right * cropUnitX s ≤ lumaWidth s - c.left * cropUnitX s ∧
       c.top * cropUnitY s ≤ lumaHeight s ∧ c.bottom * cropUnitY s ≤ lumaHeight s - c.top * cropUnitY s
    then .ok (lumaWidth s - c.left * cropUnitX s - c.right * cropUnitX s,
              lumaHeight s - c.top * cropUnitY s - c.bottom * cropUnitY s)
    else .error .cropping

def cropOf (s : Sps) : FrameCropping := s.frameCropping.getD ⟨0, 0, 0, 0⟩

/-- everything fits 32 bits and the crop does not exceed the picture -/
def DimsOk (s : Sps) : Prop :=
  lumaWidth s < U32 ∧ lumaHeight s < U32 ∧
  (cropOf s).left * cropUnitX s < U32 ∧ (cropOf s).right * cropUnitX s < U32 ∧
  (cropOf s).top * cropUnitY s < U32 ∧ (cropOf s).bottom * cropUnitY s < U32 ∧
  ((cropOf s).left + (cropOf s).right) * cropUnitX s ≤ lumaWidth s ∧
  ((cropOf s).top + (cropOf s).bottom) * cropUnitY s ≤ lumaHeight s

/-- **C13**: `Ok` exactly when no product exceeds 32 bits and the crop does not exceed the picture, and then the
value is the standard's formula -/
theorem C13_dims (s : Sps) :
    (DimsOk s → pixelDimensions s =
      .ok (lumaWidth s - ((cropOf s).left + (cropOf s).right) * cropUnitX s,
           lumaHeight s - ((cropOf s).top + (cropOf s).bottom) * cropUnitY s)) ∧
    (¬ DimsOk s → ∃ e, pixelDimensions s = .error e) := by
  unfold DimsOk pixelDimensions cropOf
  generalize lumaWidth s = W
  generalize lumaHeight s = H
  generalize cropUnitX s = X
  generalize cropUnitY s = Y
  cases hc : s.frameCropping with
  | none =>
    simp only [Option.getD_none, Nat.zero_mul, Nat.zero_add, Nat.sub_zero]
    constructor
    · rintro ⟨h1, h2, _⟩; simp [h1, h2]
    · intro hn
      by_cases h1 : W < U32
      · by_cases h2 : H < U32
        · exfalso; apply hn; exact ⟨h1, h2, by decide, by decide, by decide, by decide, by omega, by omega⟩
        · exact ⟨.tooLarge "pic_height_in_map_units_minus1", by simp [h1, h2]⟩
      · exact ⟨.tooLarge "pic_width_in_mbs_minus1", by simp [h1]⟩
  | some c =>
    simp only [Option.getD_some]
    rw [Nat.add_mul, Nat.add_mul]
    generalize c.left * X = L
    generalize c.right * X = R
    generalize c.top * Y = T
    generalize c.bottom * Y = B
    constructor
    · rintro ⟨h1, h2, h3, h4, h5, h6, h7, h8⟩
      have g : L ≤ W ∧ R ≤ W - L ∧ T ≤ H ∧ B ≤ H - T := by omega
      simp only [h1, h2, h3, h4, h5, h6, not_true_eq_false, ↓reduceIte, g, and_self]
      congr 2 <;> omega
    · intro hn
      by_cases h1 : W < U32
      · by_cases h2 : H < U32
        · by_cases h3 : L < U32
          · by_cases h4 : R < U32
            · by_cases h5 : T < U32
              · by_cases h6 : B < U32
                · have g : ¬ (L ≤ W ∧ R ≤ W - L ∧ T ≤ H ∧ B ≤ H - T) := by
                    intro ⟨a, b, c', d⟩; apply hn
                    exact ⟨h1, h2, h3, h4, h5, h6, by omega, by omega⟩
                  exact ⟨.cropping, by simp [h1, h2, h3, h4, h5, h6, g]⟩
                · exact ⟨.tooLarge "bottom_offset", by simp [h1, h2, h3, h4, h5, h6]⟩
              · exact ⟨.tooLarge "top_offset", by simp [h1, h2, h3, h4, h5]⟩
            · exact ⟨.tooLarge "right_offset", by simp [h1, h2, h3, h4]⟩
          · exact ⟨.tooLarge "left_offset", by simp [h1, h2, h3]⟩
        · exact ⟨.tooLarge "pic_height_in_map_units_minus1", by simp [h1, h2]⟩
      · exact ⟨.tooLarge "pic_width_in_mbs_minus1", by simp [h1]⟩

#print axioms C13_dims
end Sps

namespace Sps
/-! ### the remaining helper values (C13) -/
def picWidthInMbs (s : Sps) : Nat := s.picWidthInMbsMinus1 + 1
def picHeightInMapUnits (s : Sps) : Nat := s.picHeightInMapUnitsMinus1 + 1
/-- `saturating_mul` -/
def picSizeInMapUnits (s : Sps) : Nat := min (picWidthInMbs s * picHeightInMapUnits s) (U32 - 1)

/-- `fps()` as the exact pair (time_scale, num_units_in_tick); the value is time_scale / (2 · num_units_in_tick) -/
def fpsOf (s : Sps) : Option (Nat × Nat) :=
  match s.vui with
  | none => none
  | some v => match v.timingInfo with
    | none => none
    | some t => some (t.timeScale, t.numUnitsInTick)

def hexDigitU (n : Nat) : Char := if n < 10 then Char.ofNat (48 + n) else Char.ofNat (55 + n)
def hex2U (n : Nat) : String := String.ofList [hexDigitU (n / 16 % 16), hexDigitU (n % 16)]
/-- RFC 6381 codec string: `avc1.` followed by profile_idc, constraint flags and level_idc in hex -/
def rfc6381 (s : Sps) : String := "avc1." ++ hex2U s.profileIdc ++ hex2U s.constraintFlags ++ hex2U s.levelIdc
end Sps
