import H264.PpsC05
import H264.Context
import H264.GeneratedSmall
namespace SmallProof
open Bits

def ppsMapRow (i : Nat) : Nat × Nat :=
  let n := i / 8; let t := i % 8
  let spsBits := encBits 8 66 ++ encBits 8 0 ++ encBits 8 30 ++ encUe 0 ++ encUe 0 ++ encUe 2 ++ encUe 1 ++ [false] ++ encUe 1 ++ encUe 1 ++ [true, false, false, false] ++ [true]
  match Sps.parseSps ⟨spsBits, .eof⟩ with
  | .error _ => (7, 7)
  | .ok (s, _) =>
    let m := Ctx.put [] s.spsId s
    let cont : List Bool :=
      if n = 0 then [] else encUe t ++
        (if t = 0 then (List.replicate (n + 1) (encUe 0)).flatten
         else if t = 2 then (List.replicate n (encUe 0 ++ encUe 0)).flatten
         else if t = 3 ∨ t = 4 ∨ t = 5 then [false] ++ encUe 0
         else if t = 6 then encUe 0 ++ encBits (if n ≥ 4 then 3 else if n ≥ 2 then 2 else 1) 0
         else [])
    let bits := encUe 0 ++ encUe 0 ++ [false, false] ++ encUe n ++ cont ++ encUe 0 ++ encUe 0 ++ [false] ++ encBits 2 0 ++ encSe 0 ++ encSe 0 ++ encSe 0 ++ [false, false, false] ++ [true]
    match Pps.parsePps (Ctx.get m) ⟨bits, .eof⟩ with
    | .ok (p, _) => (1, match p.sliceGroups with
        | none => 0 | some (.interleaved _) => 1 | some (.dispersed _) => 2 | some (.foregroundAndLeftover _) => 3
        | some (.changing ..) => 4 | some (.explicitAssignment ..) => 5)
    | .error _ => (0, 0)

/-- model `parsePps` = real `PicParameterSet::from_bits` on num_slice_groups_minus1 0…8 × slice_group_map_type 0…7 (72 PPS with the
element counts 7.3.2.2 prescribes): accepted or not, and which kind of slice group came back -/
theorem ppsMap_model_eq_code : (List.range 72).map ppsMapRow = Generated.ppsMapRows := by decide +kernel

end SmallProof
