import H264.TblProof
/-! theorems of `TblProof` that belong to C04 (a module of their own, so that a broken table or row of another property does not
take this property's module down with it) -/
namespace TblProof
open TblModel Bits

/-- **the model parser and the real parser agree on the whole swept domain, by proof**: for every aspect_ratio_idc, running
`Sps.parseSps` (the model) on the frame that the harness fed to `SeqParameterSet::from_bits` gives the row the real parser
produced (`Generated.aspect`, regenerated on every run) -/
theorem aspect_model_eq_code : ∀ b : Fin 256, aspectCode b.val = some (Generated.aspect.getD b.val (999, 0, 0)) := by
  decide +kernel

theorem videoFormat_model_eq_code : ∀ i : Fin 8, videoFormatCode i.val = some (Generated.videoFormat.getD i.val 999) := by
  decide +kernel

theorem chromaFormat_model_eq_code : ∀ i : Fin 16, chromaFormatCode i.val = Generated.chromaFormat.getD i.val (9, 9) := by
  decide +kernel

end TblProof
