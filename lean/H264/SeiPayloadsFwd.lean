import H264.SeiPayloads
import H264.SpsC04
/-! C11: Annex D encoders for pic_timing (D.1.2) and buffering_period (D.1.1) and the forward round trips -/
namespace SeiPayload
open Bits Sps

/-- syntax-level clock timestamp: the parsed value plus the coded full_timestamp_flag (not kept in the result) -/
abbrev ClockSyn := Option (ClockTimestamp × Bool)

def ClockTimestamp.WF (tol : Nat) (c : ClockTimestamp) (full : Bool) : Prop :=
  c.ctType < 4 ∧ c.countingType < 32 ∧ c.nFrames < 256 ∧ c.smh.WF full ∧ TimeOffsetWF tol c.timeOffset

theorem encClockTimestamp_eq (tol : Nat) (c : ClockTimestamp) (full : Bool) :
    encClockTimestamp tol c full =
      encBits 2 c.ctType ++ encBool c.nuitFieldBasedFlag ++ encBits 5 c.countingType ++ encBool full ++
      encBool c.discontinuityFlag ++ encBool c.cntDroppedFlag ++ encBits 8 c.nFrames ++ encSmh full c.smh ++
      encTimeOffset tol c.timeOffset := by
  unfold encClockTimestamp encTimeOffset; cases c.timeOffset <;> rfl

theorem readClockTimestamp_enc (s : Sps.Sps) (c : ClockTimestamp) (full : Bool)
    (wf : c.WF (timeOffsetLength s) full) (rest fin) :
    readClockTimestamp s ⟨encClockTimestamp (timeOffsetLength s) c full ++ rest, fin⟩ = .ok (c, ⟨rest, fin⟩) := by
  obtain ⟨w1, w2, w3, w4, w5⟩ := wf
  obtain ⟨ct, nuit, cnt, disc, drop, nf, smh, off⟩ := c
  simp only at w1 w2 w3 w4 w5
  rw [encClockTimestamp_eq]
  simp [readClockTimestamp, List.append_assoc, readBits_enc _ 2 _ (show ct < 2^2 from w1),
    readBits_enc _ 5 _ (show cnt < 2^5 from w2), readBits_enc _ 8 _ (show nf < 2^8 from w3),
    readSmh_enc full smh w4, readTimeOffset_enc _ off w5, readBool_enc]

def encOptClock (tol : Nat) : ClockSyn → List Bool
  | none => encBool false
  | some (c, full) => encBool true ++ encClockTimestamp tol c full

def ClockSyn.WF (tol : Nat) : ClockSyn → Prop
  | none => True
  | some (c, full) => c.WF tol full

def ClockSyn.value : ClockSyn → Option ClockTimestamp
  | none => none
  | some (c, _) => some c

theorem readOptClockTimestamp_enc (s : Sps.Sps) (x : ClockSyn) (wf : x.WF (timeOffsetLength s)) (rest fin) :
    readOptClockTimestamp s ⟨encOptClock (timeOffsetLength s) x ++ rest, fin⟩ = .ok (x.value, ⟨rest, fin⟩) := by
  cases x with
  | none => simp [readOptClockTimestamp, encOptClock, readBool_enc, ClockSyn.value]
  | some p =>
    obtain ⟨c, full⟩ := p
    simp [readOptClockTimestamp, encOptClock, readBool_enc, List.append_assoc,
      readClockTimestamp_enc s c full wf, ClockSyn.value]

theorem readClockTimestamps_enc (s : Sps.Sps) (xs : List ClockSyn) (wf : ∀ x ∈ xs, x.WF (timeOffsetLength s))
    (rest fin) :
    readClockTimestamps s xs.length ⟨(xs.map (encOptClock (timeOffsetLength s))).flatten ++ rest, fin⟩
      = .ok (xs.map ClockSyn.value, ⟨rest, fin⟩) := by
  induction xs with
  | nil => simp [readClockTimestamps]
  | cons x xs ih =>
    simp [readClockTimestamps, List.append_assoc, readOptClockTimestamp_enc s x (wf x (by simp)),
      ih (fun y hy => wf y (by simp [hy]))]

/-- syntax-level pic_timing -/
structure PicTimingSyn where
  delays : Option (Nat × Nat)
  picStruct : Option (Nat × List ClockSyn)

def PicTimingSyn.value (p : PicTimingSyn) : PicTiming :=
  ⟨p.delays, p.picStruct.map fun q => ⟨q.1, q.2.map ClockSyn.value⟩⟩

def encDelays (h : Option Hrd) (d : Option (Nat × Nat)) : List Bool :=
  match h, d with
  | some h, some (c, d) => encBits (h.cpbRemovalDelayLengthMinus1 + 1) c ++ encBits (h.dpbOutputDelayLengthMinus1 + 1) d
  | _, _ => []

def encPicStruct (tol : Nat) : Option (Nat × List ClockSyn) → List Bool
  | some (ps, cts) => encBits 4 ps ++ (cts.map (encOptClock tol)).flatten
  | none => []

def encPicTiming (s : Sps.Sps) (p : PicTimingSyn) : List Bool :=
  encDelays (delayHrd s) p.delays ++ encPicStruct (timeOffsetLength s) p.picStruct

/-- payload end: nothing (byte aligned) or the `1 0*` alignment bits -/
def SeiTail (tail : List Bool) : Prop := tail = [] ∨ ∃ z, tail = trailing z

theorem finishSei_tail (tail : List Bool) (h : SeiTail tail) : finishSei ⟨tail, .eof⟩ = .ok ((), ⟨[], .eof⟩) := by
  rcases h with h | ⟨z, h⟩
  · subst h; simp [finishSei]
  · subst h
    unfold finishSei trailing
    have : (List.replicate z false).any id = false := by
      induction z with
      | zero => rfl
      | succ n ih => simp [List.replicate_succ, ih]
    simp [this]

/-- **C11 (pic_timing)**: CPB/DPB delays whenever either HRD is present, with the widths that HRD declares; pic_struct
and the prescribed number of clock timestamps with all optional parts and the signed time offset -/
def DelaysWF (h : Option Hrd) (d : Option (Nat × Nat)) : Prop :=
  match h with
  | some h => ∃ c e, d = some (c, e) ∧ c < 2^(h.cpbRemovalDelayLengthMinus1 + 1) ∧
                 e < 2^(h.dpbOutputDelayLengthMinus1 + 1)
  | none => d = none

theorem readDelays_enc (s : Sps.Sps) (d : Option (Nat × Nat)) (wf : DelaysWF (delayHrd s) d) (rest fin) :
    readDelays s ⟨encDelays (delayHrd s) d ++ rest, fin⟩ = .ok (d, ⟨rest, fin⟩) := by
  unfold readDelays
  cases hh : delayHrd s with
  | none => rw [hh] at wf; simp only [DelaysWF] at wf; subst wf; simp [encDelays]
  | some h =>
    rw [hh] at wf
    obtain ⟨c, e, rfl, hc, he⟩ := wf
    simp [encDelays, List.append_assoc, readBits_enc _ _ _ hc, readBits_enc _ _ _ he]

def PicStructWF (s : Sps.Sps) (p : Option (Nat × List ClockSyn)) : Prop :=
  if picStructPresent s then
     ∃ ps cts, p = some (ps, cts) ∧ ps < 16 ∧ cts.length = numClockTs ps ∧ ∀ x ∈ cts, x.WF (timeOffsetLength s)
  else p = none

def picStructValue (p : Option (Nat × List ClockSyn)) : Option PicStruct :=
  p.map fun q => ⟨q.1, q.2.map ClockSyn.value⟩

theorem readPicStruct_enc (s : Sps.Sps) (p : Option (Nat × List ClockSyn)) (wf : PicStructWF s p) (rest fin) :
    readPicStruct s ⟨encPicStruct (timeOffsetLength s) p ++ rest, fin⟩ = .ok (picStructValue p, ⟨rest, fin⟩) := by
  unfold readPicStruct PicStructWF at *
  by_cases hpp : picStructPresent s = true
  · simp only [hpp, ↓reduceIte] at wf ⊢
    obtain ⟨ps, cts, rfl, hps, hlen, hall⟩ := wf
    simp only [encPicStruct, List.append_assoc, bind_run, readBits_enc _ 4 _ (show ps < 2^4 from hps)]
    rw [← hlen, readClockTimestamps_enc s cts hall]
    simp [picStructValue]
  · simp only [hpp, Bool.false_eq_true, ↓reduceIte] at wf ⊢
    subst wf; simp [encPicStruct, picStructValue]

/-- **C11 (pic_timing)**: CPB/DPB delays whenever either HRD is present, with the widths that HRD declares; pic_struct
and the prescribed number of clock timestamps with all optional parts and the signed time offset -/
theorem readPicTiming_enc (s : Sps.Sps) (p : PicTimingSyn)
    (w1 : DelaysWF (delayHrd s) p.delays) (w2 : PicStructWF s p.picStruct) (tail : List Bool) (ht : SeiTail tail) :
    readPicTiming s ⟨encPicTiming s p ++ tail, .eof⟩ = .ok (p.value, ⟨[], .eof⟩) := by
  unfold readPicTiming encPicTiming
  simp only [bind_run, List.append_assoc, readDelays_enc s _ w1, readPicStruct_enc s _ w2,
    finishSei_tail tail ht, PicTimingSyn.value, picStructValue, pure_run]

/-! ### buffering_period -/

theorem readCpbRemovalList_enc (len : Nat) (l : List InitialCpbRemoval)
    (wf : ∀ x ∈ l, x.delay < 2^len ∧ x.offset < 2^len) (rest fin) :
    readCpbRemovalList len l.length ⟨encCpbRemovalList len l ++ rest, fin⟩ = .ok (l, ⟨rest, fin⟩) := by
  induction l with
  | nil => simp [readCpbRemovalList, encCpbRemovalList]
  | cons x xs ih =>
    obtain ⟨h1, h2⟩ := wf x (by simp)
    have ih' := ih (fun y hy => wf y (by simp [hy]))
    simp only [encCpbRemovalList] at ih' ⊢
    simp [readCpbRemovalList, readCpbRemoval, encCpbRemoval, List.append_assoc,
      readBits_enc _ _ _ h1, readBits_enc _ _ _ h2, ih']

/-- one delay pair per CPB for an HRD that is present, nothing for an absent one -/
def HrdBpWF : Option Hrd → Option (List InitialCpbRemoval) → Prop
  | none, l => l = none
  | some h, l => ∃ xs, l = some xs ∧ xs.length = h.cpbSpecs.length ∧
      ∀ x ∈ xs, x.delay < 2^(h.initialCpbRemovalDelayLengthMinus1 + 1) ∧ x.offset < 2^(h.initialCpbRemovalDelayLengthMinus1 + 1)

theorem readOptHrdBp_enc (h : Option Hrd) (l : Option (List InitialCpbRemoval)) (wf : HrdBpWF h l) (rest fin) :
    readOptHrdBp h ⟨encOptHrdBp h l ++ rest, fin⟩ = .ok (l, ⟨rest, fin⟩) := by
  cases h with
  | none => simp only [HrdBpWF] at wf; subst wf; simp [readOptHrdBp, encOptHrdBp]
  | some h =>
    obtain ⟨xs, rfl, hlen, hall⟩ := wf
    simp only [readOptHrdBp, encOptHrdBp, bind_run]
    rw [← hlen, readCpbRemovalList_enc _ xs hall]
    simp

/-- **C11 (buffering_period)**: one delay pair per CPB for each HRD that is present -/
theorem readBufferingPeriod_enc (spsById : Nat → Option Sps.Sps) (s : Sps.Sps) (b : BufferingPeriod)
    (hid : s.spsId ≤ 31) (hctx : spsById s.spsId = some s)
    (wn : HrdBpWF (nalHrdOf s) b.nalHrdBp) (wv : HrdBpWF (vclHrdOf s) b.vclHrdBp)
    (tail : List Bool) (ht : SeiTail tail) :
    readBufferingPeriod spsById ⟨encBufferingPeriod s b ++ tail, .eof⟩ = .ok (b, ⟨[], .eof⟩) := by
  have hu : s.spsId < 2^32 - 1 := by omega
  have hn : ¬ s.spsId > 31 := by omega
  obtain ⟨n, v⟩ := b
  simp [readBufferingPeriod, encBufferingPeriod, List.append_assoc, readUe_enc _ _ hu, hn, hctx,
    readOptHrdBp_enc _ _ wn, readOptHrdBp_enc _ _ wv, finishSei_tail tail ht]

/-! ### T.35 -/
theorem readT35_code (b : Nat) (hb : b < 255) (rest : List UInt8) :
    readT35 (encT35 (.code b) ++ rest) = .ok (.code b) rest := by
  have hne : UInt8.ofNat b ≠ 0xFF := by
    intro h
    have := congrArg UInt8.toNat h
    simp [UInt8.toNat_ofNat'] at this
    omega
  have hto : (UInt8.ofNat b).toNat = b := by simp [UInt8.toNat_ofNat']; omega
  simp [readT35, encT35, hne, hto]

theorem readT35_extended (e : Nat) (he : e < 256) (rest : List UInt8) :
    readT35 (encT35 (.extended e) ++ rest) = .ok (.extended e) rest := by
  have hto : (UInt8.ofNat e).toNat = e := by simp [UInt8.toNat_ofNat']; omega
  simp [readT35, encT35, hto]

/-- the remainder starts immediately after the country code (and extension byte): exactness -/
theorem readT35_exact (p : List UInt8) (c : T35Code) (rest : List UInt8) (h : readT35 p = .ok c rest) :
    (∃ b, c = .code b ∧ b < 255 ∧ p = UInt8.ofNat b :: rest) ∨ (∃ e, c = .extended e ∧ e < 256 ∧ p = 0xFF :: UInt8.ofNat e :: rest) := by
  cases p with
  | nil => simp [readT35] at h
  | cons b bs =>
    simp only [readT35] at h
    by_cases hff : b = 0xFF
    · simp only [hff, ↓reduceIte] at h
      cases bs with
      | nil => simp at h
      | cons e bs' =>
        simp only [T35Res.ok.injEq] at h
        obtain ⟨rfl, rfl⟩ := h
        right
        exact ⟨e.toNat, rfl, e.toNat_lt, by simp [hff]⟩
    · simp only [hff, ↓reduceIte, T35Res.ok.injEq] at h
      obtain ⟨rfl, rfl⟩ := h
      left
      refine ⟨b.toNat, rfl, ?_, by simp⟩
      have := b.toNat_lt
      have hne : b.toNat ≠ 255 := by
        intro hh; apply hff
        apply UInt8.toNat_inj.mp; simpa using hh
      omega

end SeiPayload
