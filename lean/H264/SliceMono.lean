import H264.PpsSliceMono
/-! C17 for the slice header: every sub-reader is prefix-monotone, including the two fuel-carrying loops -/
namespace Slice
open Bits Sps Pps

/-- with more fuel than remaining bits the MMCO loop's result does not depend on the fuel -/
theorem readMmcos_fuel (f f' : Nat) (s : Src) (h : s.bits.length < f) (h' : s.bits.length < f') :
    readMmcos f s = readMmcos f' s := by
  induction f generalizing f' s with
  | zero => omega
  | succ f ih =>
    cases f' with
    | zero => omega
    | succ f' =>
      unfold readMmcos
      simp only [bind_run]
      cases hu : readUe "memory_management_control_operation" s with
      | error e => rfl
      | ok v =>
        obtain ⟨op, s1⟩ := v
        have hc := readUe_consumes _ _ _ _ hu
        simp only
        have rec0 : ∀ (mk : Mmco),
            (do let rest ← readMmcos f; Pure.pure (mk :: rest) : P (List Mmco)) s1 =
            (do let rest ← readMmcos f'; Pure.pure (mk :: rest) : P (List Mmco)) s1 := by
          intro mk
          simp only [bind_run]
          rw [ih f' s1 (by omega) (by omega)]
        have rec1 : ∀ (nm : String) (mk : Nat → Mmco),
            (do let v ← readUe nm; let rest ← readMmcos f; Pure.pure (mk v :: rest) : P (List Mmco)) s1 =
            (do let v ← readUe nm; let rest ← readMmcos f'; Pure.pure (mk v :: rest) : P (List Mmco)) s1 := by
          intro nm mk
          simp only [bind_run]
          cases hv : readUe nm s1 with
          | error e => rfl
          | ok w =>
            obtain ⟨v, s2⟩ := w
            have hc2 := readUe_consumes _ _ _ _ hv
            simp only
            rw [ih f' s2 (by omega) (by omega)]
        have rec2 : ∀ (nm nm2 : String) (mk : Nat → Nat → Mmco),
            (do let v ← readUe nm; let w ← readUe nm2; let rest ← readMmcos f; Pure.pure (mk v w :: rest) : P (List Mmco)) s1 =
            (do let v ← readUe nm; let w ← readUe nm2; let rest ← readMmcos f'; Pure.pure (mk v w :: rest) : P (List Mmco)) s1 := by
          intro nm nm2 mk
          simp only [bind_run]
          cases hv : readUe nm s1 with
          | error e => rfl
          | ok w =>
            obtain ⟨v, s2⟩ := w
            have hc2 := readUe_consumes _ _ _ _ hv
            simp only
            cases hv2 : readUe nm2 s2 with
            | error e => rfl
            | ok w2 =>
              obtain ⟨v2, s3⟩ := w2
              have hc3 := readUe_consumes _ _ _ _ hv2
              simp only
              rw [ih f' s3 (by omega) (by omega)]
        split
        · rfl
        · split
          · exact rec1 _ _
          · split
            · exact rec1 _ _
            · split
              · exact rec2 _ _ _
              · split
                · exact rec1 _ _
                · split
                  · exact rec0 _
                  · split
                    · exact rec1 _ _
                    · rfl

theorem mono_readMmcos (f : Nat) : Mono (readMmcos f) := by
  induction f with
  | zero => unfold readMmcos; intro s' s h; simp [MonoRes]
  | succ f ih => unfold readMmcos; mono

theorem mono_readMmcosAuto : Mono (fun s => readMmcos (s.bits.length + 1) s) := by
  intro s' s hp
  obtain ⟨hfin, t, ht⟩ := hp
  have h1 := mono_readMmcos (s.bits.length + 1) s' s ⟨hfin, t, ht⟩
  have hlen : s'.bits.length ≤ s.bits.length := by rw [ht]; simp
  show MonoRes (readMmcos (s.bits.length + 1) s) (readMmcos (s'.bits.length + 1) s')
  rw [readMmcos_fuel (s'.bits.length + 1) (s.bits.length + 1) s' (by omega) (by omega)]
  exact h1

macro_rules | `(tactic| mono_step) => `(tactic| exact mono_readModOpsAuto)
macro_rules | `(tactic| mono_step) => `(tactic| exact mono_readMmcosAuto)

theorem mono_readModList : Mono readModList := by unfold readModList; mono
macro_rules | `(tactic| mono_step) => `(tactic| exact mono_readModList)
theorem mono_readRefPicListMods (fam) : Mono (readRefPicListMods fam) := by unfold readRefPicListMods; mono
theorem mono_readLumaWeight : Mono readLumaWeight := by unfold readLumaWeight; mono
theorem mono_readChromaWeights : Mono readChromaWeights := by unfold readChromaWeights; mono
macro_rules | `(tactic| mono_step) => `(tactic| exact mono_readLumaWeight)
macro_rules | `(tactic| mono_step) => `(tactic| exact mono_readChromaWeights)
theorem mono_readPredWeightEntries (c n) : Mono (readPredWeightEntries c n) := by
  induction n with
  | zero => unfold readPredWeightEntries; mono
  | succ n ih => unfold readPredWeightEntries; mono
macro_rules | `(tactic| mono_step) => `(tactic| exact mono_readPredWeightEntries _ _)
theorem mono_readPredWeightTable (fam pps sps nra) : Mono (readPredWeightTable fam pps sps nra) := by
  unfold readPredWeightTable; mono
theorem mono_readDecRefPicMarking (hdr) : Mono (readDecRefPicMarking hdr) := by unfold readDecRefPicMarking; mono
theorem mono_readNumRefIdx' (name) : Mono (Slice.readNumRefIdx name) := by unfold Slice.readNumRefIdx; mono
macro_rules | `(tactic| mono_step) => `(tactic| exact mono_readNumRefIdx' _)
theorem mono_readColourPlane (sps) : Mono (readColourPlane sps) := by unfold readColourPlane; mono
theorem mono_readFieldPic (sps) : Mono (readFieldPic sps) := by unfold readFieldPic; mono
theorem mono_readIdrPicId (hdr) : Mono (readIdrPicId hdr) := by unfold readIdrPicId; mono
theorem mono_readPoc (sps pps fp) : Mono (readPoc sps pps fp) := by unfold readPoc; mono
theorem mono_readRedundant (pps) : Mono (readRedundant pps) := by unfold readRedundant; mono
theorem mono_readDirect (fam) : Mono (readDirect fam) := by unfold readDirect; mono
theorem mono_readNumRefIdxActive (fam) : Mono (readNumRefIdxActive fam) := by unfold readNumRefIdxActive; mono
macro_rules | `(tactic| mono_step) => `(tactic| exact mono_readPredWeightTable _ _ _ _)
theorem mono_readPwtOpt (fam pps sps nra) : Mono (readPwtOpt fam pps sps nra) := by unfold readPwtOpt; mono
macro_rules | `(tactic| mono_step) => `(tactic| exact mono_readDecRefPicMarking _)
theorem mono_readMarkingOpt (hdr) : Mono (readMarkingOpt hdr) := by unfold readMarkingOpt; mono
theorem mono_readCabac (fam pps) : Mono (readCabac fam pps) := by unfold readCabac; mono
theorem mono_readQpDelta : Mono readQpDelta := by unfold readQpDelta; mono
theorem mono_readSpSwitch (fam) : Mono (readSpSwitch fam) := by unfold readSpSwitch; mono
macro_rules | `(tactic| mono_step) => `(tactic| exact mono_readSpSwitch _)
theorem mono_readSwitchQs (fam pps) : Mono (readSwitchQs fam pps) := by unfold readSwitchQs; mono
theorem mono_readDeblock (pps) : Mono (readDeblock pps) := by unfold readDeblock; mono
theorem mono_requireMore : Mono requireMore := by unfold requireMore; mono

macro_rules | `(tactic| mono_step) => `(tactic| first
  | exact mono_readColourPlane _ | exact mono_readFieldPic _ | exact mono_readIdrPicId _ | exact mono_readPoc _ _ _
  | exact mono_readRedundant _ | exact mono_readDirect _ | exact mono_readNumRefIdxActive _
  | exact mono_readRefPicListMods _ | exact mono_readPwtOpt _ _ _ _ | exact mono_readMarkingOpt _
  | exact mono_readCabac _ _ | exact mono_readQpDelta | exact mono_readSwitchQs _ _ | exact mono_readDeblock _
  | exact mono_requireMore)

theorem mono_readSliceBody (sps pps hdr a b c) : Mono (readSliceBody sps pps hdr a b c) := by
  unfold readSliceBody; mono

macro_rules | `(tactic| mono_step) => `(tactic| exact mono_readSliceBody _ _ _ _ _ _)

/-- **C17 (slice header)**: a header accepted from a truncated, incomplete view equals the one parsed from the whole -/
theorem mono_parseSliceHeader (ctx hdr) : Mono (parseSliceHeader ctx hdr) := by
  unfold parseSliceHeader; mono

end Slice
