import H264.Render2
import H264.SeiPayloads
/-! Rust-`Debug`-compatible rendering of the SEI payload results -/
namespace Render
open SeiPayload in
def renderSmh : SecMinHour → String
  | .none => "None" | .s s => s!"S({s})" | .sm s m => s!"SM({s}, {m})" | .smh s m h => s!"SMH({s}, {m}, {h})"
def ctTypeName : Nat → String | 0 => "Progressive" | 1 => "Interlaced" | 2 => "Unknown" | _ => "Reserved"
def countingName : Nat → String
  | 0 => "NoDroppingNoOffset" | 1 => "NoDropping" | 2 => "DroppingIndividualZero" | 3 => "DroppingIndividualMax"
  | 4 => "DroppingTwoLowest" | 5 => "DroppingIndividual" | 6 => "Dropping" | n => s!"Reserved({n})"
def picStructName : Nat → String
  | 0 => "Frame" | 1 => "TopField" | 2 => "BottomField" | 3 => "TopFieldBottomField" | 4 => "BottomFieldTopField"
  | 5 => "TopFieldBottomFieldTopFieldRepeated" | 6 => "BottomFieldTopFieldBottomFieldRepeated" | 7 => "FrameDoubling"
  | 8 => "FrameTripling" | n => s!"Reserved({n})"
open SeiPayload Render in
def renderClock (c : ClockTimestamp) : String :=
  s!"ClockTimestamp \{ ct_type: {ctTypeName c.ctType}, nuit_field_based_flag: {b c.nuitFieldBasedFlag}, counting_type: {countingName c.countingType}, discontinuity_flag: {b c.discontinuityFlag}, cnt_dropped_flag: {b c.cntDroppedFlag}, n_frames: {c.nFrames}, smh: {renderSmh c.smh}, time_offset: {opt int c.timeOffset} }"
open SeiPayload Render in
def renderPicTiming (p : PicTiming) : String :=
  let delays := opt (fun (d : Nat × Nat) => s!"Delays \{ cpb_removal_delay: {d.1}, dpb_output_delay: {d.2} }") p.delays
  let ps := opt (fun (x : PicStruct) => s!"PicStruct \{ pic_struct: {picStructName x.picStruct}, clock_timestamps: {list (opt renderClock) x.clockTimestamps} }") p.picStruct
  s!"PicTiming \{ delays: {delays}, pic_struct: {ps} }"
open SeiPayload Render in
def renderBp (p : BufferingPeriod) : String :=
  let l := opt (list fun (x : InitialCpbRemoval) => s!"InitialCpbRemoval \{ initial_cpb_removal_delay: {x.delay}, initial_cpb_removal_delay_offset: {x.offset} }")
  s!"BufferingPeriod \{ nal_hrd_bp: {l p.nalHrdBp}, vcl_hrd_bp: {l p.vclHrdBp} }"



open SeiPayload in
/-- what the harness prints for a parsed pic_timing: the Debug text and, per present clock timestamp, the accessors s:m:h -/
def ptObs (p : PicTiming) : String :=
  let acc := match p.picStruct with
    | none => ""
    | some ps => " smh=[" ++ ",".intercalate (ps.clockTimestamps.map fun (c : Option ClockTimestamp) => match c with
        | none => "-"
        | some c => s!"{c.smh.seconds}:{c.smh.minutes}:{c.smh.hours}") ++ "]"
  s!"Ok({renderPicTiming p}){acc}"
end Render
