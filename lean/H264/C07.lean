import H264.Bits
/-! Prototype for C07: the remaining clauses — too-large and truncated codewords, and the Rust `u32`/`i32`
expression of `golomb_to_signed` -/
namespace Bits

/-- 32 or more leading zero bits: rejected as too large, whatever follows -/
theorem readUe_tooLarge (name) (n : Nat) (h : 32 ≤ n) (rest fin) :
    readUe name ⟨List.replicate n false ++ true :: rest, fin⟩ = .error (.tooLarge name) := by
  have hc : n > 31 := by omega
  simp [readUe, readUnary1_enc, hc]

theorem unaryGo_zeros (name fin) (n acc : Nat) :
    unaryGo name fin (List.replicate n false) acc = .error (.io name fin) := by
  induction n generalizing acc with
  | zero => simp [unaryGo]
  | succ n ih => simp [List.replicate_succ, unaryGo, ih]

theorem readBits_short (name) (n : Nat) (bits : List Bool) (h : bits.length < n) (fin) :
    readBits name n ⟨bits, fin⟩ = .error (.io name fin) := by
  induction n generalizing bits with
  | zero => omega
  | succ n ih =>
    cases bits with
    | nil => simp [readBits, readBit]
    | cons b bs =>
      have : bs.length < n := by simp at h; omega
      simp [readBits, readBit, ih bs this]

theorem readUe'_truncated (name) (n v : Nat) (hn31 : n ≤ 31) (m : Nat) (hm : m < (encUe' n v).length) (fin) :
    readUe name ⟨(encUe' n v).take m, fin⟩ = .error (.io name fin) := by
  unfold encUe' at *
  simp only [List.length_append, List.length_replicate, List.length_cons, encBits_length] at hm
  by_cases hmn : m ≤ n
  · -- cut inside the zero prefix
    have : (List.replicate n false ++ true :: encBits n v).take m = List.replicate m false := by
      rw [List.take_append_of_le_length (by simp; omega), List.take_replicate]
      congr 1; omega
    rw [this]
    simp [readUe, readUnary1, unaryGo_zeros]
  · -- cut inside the suffix
    have hsplit : (List.replicate n false ++ true :: encBits n v).take m
        = List.replicate n false ++ true :: (encBits n v).take (m - n - 1) := by
      rw [List.take_append, List.take_of_length_le (by simp; omega)]
      simp only [List.length_replicate]
      have : m - n = (m - n - 1) + 1 := by omega
      rw [this, List.take_succ_cons]
      simp
    rw [hsplit]
    have hshort : ((encBits n v).take (m - n - 1)).length < n := by
      rw [List.length_take, encBits_length]; omega
    have hn0 : n > 0 := by omega
    have hnle : ¬ n > 31 := by omega
    simp [readUe, readUnary1_enc, hnle, hn0, readBits_short _ _ _ hshort]

/-- a codeword cut short by the end of the data is a read error naming the field — never a wrong value -/
theorem readUe_truncated (name) (k : Nat) (hk : k < 2^32 - 1) (m : Nat) (hm : m < (encUe k).length) (fin) :
    readUe name ⟨(encUe k).take m, fin⟩ = .error (.io name fin) := by
  have hn31 : Nat.log2 (k + 1) ≤ 31 := by
    apply Nat.le_of_lt_succ
    apply (Nat.log2_lt (by omega)).mpr
    omega
  exact readUe'_truncated name _ _ hn31 m hm fin

/-! the Rust expression, operation by operation, on 32-bit values with wrap-around made explicit -/
def wrapI32 (x : Int) : Int := ((x + 2^31) % 2^32) - 2^31

/-- `golomb_to_signed(val: u32) -> i32`:
`let sign = (((val & 1) as i32) << 1) - 1; ((val >> 1) as i32 + (val & 1) as i32) * sign` -/
def golombToSignedRust (val : Nat) : Int :=
  let sign := wrapI32 (wrapI32 (((val % 2 : Nat) : Int) * 2) - 1)
  wrapI32 (wrapI32 (wrapI32 ((val / 2 : Nat) : Int) + ((val % 2 : Nat) : Int)) * sign)

theorem wrapI32_id (x : Int) (h : -(2^31) ≤ x ∧ x < 2^31) : wrapI32 x = x := by
  unfold wrapI32; omega

/-- no intermediate result leaves the `i32` range for any value `read_ue` can return, and the result is
(−1)^(k+1)·⌈k/2⌉ -/
theorem golombToSignedRust_eq (k : Nat) (h : k < 2^32 - 1) : golombToSignedRust k = seOfUe k := by
  unfold golombToSignedRust seOfUe
  simp only []
  by_cases hodd : k % 2 = 1
  · have hk2 : ((k % 2 : Nat) : Int) = 1 := by omega
    rw [hk2]
    rw [wrapI32_id ((1 : Int) * 2) (by omega)]
    rw [wrapI32_id ((1 : Int) * 2 - 1) (by omega)]
    rw [wrapI32_id ((k / 2 : Nat) : Int) (by omega)]
    rw [wrapI32_id (((k / 2 : Nat) : Int) + 1) (by omega)]
    have hmul : (((k / 2 : Nat) : Int) + 1) * ((1 : Int) * 2 - 1) = ((k / 2 : Nat) : Int) + 1 := by omega
    rw [hmul, wrapI32_id _ (by omega)]
    simp only [hodd, ↓reduceIte]
    omega
  · have hev : k % 2 = 0 := by omega
    have hk2 : ((k % 2 : Nat) : Int) = 0 := by omega
    rw [hk2]
    rw [wrapI32_id ((0 : Int) * 2) (by omega)]
    rw [wrapI32_id ((0 : Int) * 2 - 1) (by omega)]
    rw [wrapI32_id ((k / 2 : Nat) : Int) (by omega)]
    rw [wrapI32_id (((k / 2 : Nat) : Int) + 0) (by omega)]
    have hmul : (((k / 2 : Nat) : Int) + 0) * ((0 : Int) * 2 - 1) = -((k / 2 : Nat) : Int) := by omega
    rw [hmul, wrapI32_id _ (by omega)]
    simp only [hev, Nat.zero_ne_one, ↓reduceIte]

#print axioms readUe_truncated
#print axioms golombToSignedRust_eq
end Bits
