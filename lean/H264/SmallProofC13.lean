import H264.Derived
import H264.GeneratedSmall
/-! pixel dimensions over a grid of parsed SPS (C13) and PPS slice-group map types (C05) on complete small domains -/
namespace SmallProof
open Bits

def u (n v : Nat) : List Bool := encBits n v

/-- the grid of `tables.rs` (chroma format, frame_mbs_only, width, height, crop setting), in generation order -/
def dimsInputs : List (Nat × Bool × Nat × Nat × Nat) :=
  (List.range 5).flatMap fun cf => [true, false].flatMap fun fmo => (List.range 2).flatMap fun w => (List.range 2).flatMap fun h =>
    (List.range 18).map fun crop => (cf, fmo, w, h, crop)

def dimsRow (x : Nat × Bool × Nat × Nat × Nat) : Nat × Nat × Nat :=
  let (cf, fmo, wmb, hmb, crop) := x
  let idc := if cf = 4 then 3 else cf
  let sep := cf = 4
  let cropBits : List Bool :=
    if crop = 0 then [false]
    else if crop = 17 then [true] ++ encUe 40 ++ encUe 0 ++ encUe 0 ++ encUe 40
    else let c := crop - 1; [true] ++ encUe (c % 2) ++ encUe (c / 2 % 2) ++ encUe (c / 4 % 2) ++ encUe (c / 8 % 2)
  let bits := u 8 100 ++ u 8 0 ++ u 8 30 ++ encUe 0 ++ encUe idc ++ (if idc = 3 then [decide sep] else []) ++ encUe 0 ++ encUe 0 ++ [false, false] ++
    encUe 0 ++ encUe 2 ++ encUe 1 ++ [false] ++ encUe wmb ++ encUe hmb ++ [fmo] ++ (if fmo then [] else [false]) ++ [false] ++ cropBits ++ [false] ++ [true]
  match Sps.parseSps ⟨bits, .eof⟩ with
  | .ok (s, _) => (match Sps.pixelDimensions s with | .ok (a, b) => (1, a, b) | .error _ => (0, 0, 0))
  | .error _ => (9, 9, 9)

/-- model `parseSps` + `pixelDimensions` = real `from_bits` + `pixel_dimensions()` on a grid of 720 SPS (all chroma formats, separate
planes, frame / field coding, crops incl. one that exceeds the picture) -/
theorem dims_model_eq_code : dimsInputs.map dimsRow = Generated.dimsRows := by decide +kernel

end SmallProof
