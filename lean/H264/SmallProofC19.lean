import H264.SmallProof
namespace SmallProof
/-- model `Ctx.put / get / entries` = real `Context` on every sequence of up to three SPS insertions (ids 0, 1, 31 × two tags):
lookups and iteration -/
theorem ctx_model_eq_code : (allSeqs 6).map ctxRow = Generated.ctxRows := by decide +kernel
end SmallProof
