import H264.Sps
/-! Prototype: the standard's SPS syntax (7.3.2.1.1, 7.3.2.1.1.1, E.1.1, E.1.2) as an encoder,
well-formedness, and the forward round-trip theorem -/
namespace Sps
open Bits

/-! ### scaling lists: syntax level = coded delta_scale values -/

/-- per list: `none` = seq_scaling_list_present_flag 0, `some ds` = the coded delta_scale sequence -/
abbrev ScalingSyntax := List (Option (List Int))

/-- 7.3.2.1.1.1 scaling_list(): the process that derives the list from the coded deltas.
Returns `none` when `ds` is not exactly the sequence of deltas the process consumes. -/
def specFill : (remaining j last next : Nat) → (ud : Bool) → (ds : List Int) → Option (List Nat × Bool)
  | 0, _, _, _, ud, ds => if ds = [] then some ([], ud) else none
  | n+1, j, last, next, ud, ds =>
    if next ≠ 0 then
      match ds with
      | [] => none
      | d :: ds' =>
        let next' := ((last : Int) + d + 256).toNat % 256
        let nv := if next' = 0 then last else next'
        (specFill n (j+1) nv next' (j == 0 && next' == 0) ds').map fun r => (nv :: r.1, r.2)
    else (specFill n (j+1) last next ud ds).map fun r => (last :: r.1, r.2)

def specScalingList (size : Nat) : Option (List Int) → Option ScalingList
  | none => some .notPresent
  | some ds => (specFill size 0 8 8 false ds).map fun r => if r.2 then .useDefault else .list r.1

def encScalingList : Option (List Int) → List Bool
  | none => encBool false
  | some ds => encBool true ++ (ds.map encSe).flatten

def deltasOk : Option (List Int) → Prop
  | none => True
  | some ds => ∀ d ∈ ds, -128 ≤ d ∧ d ≤ 127

/-! ### encoders, in the order of the syntax tables -/

def encCpbSpec (c : CpbSpec) : List Bool :=
  encUe c.bitRateValueMinus1 ++ encUe c.cpbSizeValueMinus1 ++ encBool c.cbrFlag

def encHrd : Option Hrd → List Bool
  | none => encBool false
  | some h => encBool true ++
      encUe (h.cpbSpecs.length - 1) ++ encBits 4 h.bitRateScale ++ encBits 4 h.cpbSizeScale ++
      (h.cpbSpecs.map encCpbSpec).flatten ++
      encBits 5 h.initialCpbRemovalDelayLengthMinus1 ++ encBits 5 h.cpbRemovalDelayLengthMinus1 ++
      encBits 5 h.dpbOutputDelayLengthMinus1 ++ encBits 5 h.timeOffsetLength

def encAspectRatioInfo : Option AspectRatioInfo → List Bool
  | none => encBool false
  | some (.idc v) => encBool true ++ encBits 8 v
  | some (.extended w h) => encBool true ++ encBits 8 255 ++ encBits 16 w ++ encBits 16 h

def encOverscan : OverscanAppropriate → List Bool
  | .unspecified => encBool false
  | .appropriate => encBool true ++ encBool true
  | .inappropriate => encBool true ++ encBool false

def encColourDescription : Option ColourDescription → List Bool
  | none => encBool false
  | some c => encBool true ++ encBits 8 c.colourPrimaries ++ encBits 8 c.transferCharacteristics ++
      encBits 8 c.matrixCoefficients

def encVideoSignalType : Option VideoSignalType → List Bool
  | none => encBool false
  | some v => encBool true ++ encBits 3 v.videoFormat ++ encBool v.videoFullRangeFlag ++
      encColourDescription v.colourDescription

def encChromaLocInfo : Option ChromaLocInfo → List Bool
  | none => encBool false
  | some c => encBool true ++ encUe c.top ++ encUe c.bottom

def encTimingInfo : Option TimingInfo → List Bool
  | none => encBool false
  | some t => encBool true ++ encBits 32 t.numUnitsInTick ++ encBits 32 t.timeScale ++ encBool t.fixedFrameRateFlag

def encBitstreamRestrictions : Option BitstreamRestrictions → List Bool
  | none => encBool false
  | some b => encBool true ++ encBool b.motionVectorsOverPicBoundariesFlag ++
      encUe b.maxBytesPerPicDenom ++ encUe b.maxBitsPerMbDenom ++
      encUe b.log2MaxMvLengthHorizontal ++ encUe b.log2MaxMvLengthVertical ++
      encUe b.maxNumReorderFrames ++ encUe b.maxDecFrameBuffering

def encOptBool : Option Bool → List Bool
  | some b => encBool b
  | none => []

def encVui : Option Vui → List Bool
  | none => encBool false
  | some v => encBool true ++ encAspectRatioInfo v.aspectRatioInfo ++ encOverscan v.overscanAppropriate ++
      encVideoSignalType v.videoSignalType ++ encChromaLocInfo v.chromaLocInfo ++ encTimingInfo v.timingInfo ++
      encHrd v.nalHrd ++ encHrd v.vclHrd ++
      encOptBool v.lowDelayHrdFlag ++
      encBool v.picStructPresentFlag ++ encBitstreamRestrictions v.bitstreamRestrictions

def encFrameCropping : Option FrameCropping → List Bool
  | none => encBool false
  | some c => encBool true ++ encUe c.left ++ encUe c.right ++ encUe c.top ++ encUe c.bottom

def encFrameMbsFlags : FrameMbsFlags → List Bool
  | .frames => encBool true
  | .fields m => encBool false ++ encBool m

def encPicOrderCnt : PicOrderCntType → List Bool
  | .typeZero v => encUe 0 ++ encUe v
  | .typeOne f a b offs => encUe 1 ++ encBool f ++ encSe a ++ encSe b ++ encUe offs.length ++ (offs.map encSe).flatten
  | .typeTwo => encUe 2

def chromaFormatIdc : ChromaFormat → Nat
  | .monochrome => 0 | .yuv420 => 1 | .yuv422 => 2 | .yuv444 => 3 | .invalid v => v

/-- 7.3.2.1.1 (edition 2016 and later): the profile_idc values for which the chroma / bit-depth / scaling
syntax is present. Written from the standard, *not* from the code. -/
def stdHasChromaInfo (profileIdc : Nat) : Bool :=
  [100, 110, 122, 244, 44, 83, 86, 118, 128, 138, 139, 134, 135].contains profileIdc

/-- the profile_idc values on which the library's list deviates (MVC / 3D profiles of Annex H, I, J) -/
def mvcOnlyProfile (profileIdc : Nat) : Bool := [118, 128, 138, 139, 134, 135].contains profileIdc

theorem hasChromaInfo_std (p : Nat) (h : mvcOnlyProfile p = false) : hasChromaInfo p = stdHasChromaInfo p := by
  unfold hasChromaInfo stdHasChromaInfo mvcOnlyProfile at *
  simp only [List.contains_cons, List.contains_nil, Bool.or_false, Bool.or_eq_false_iff, beq_eq_false_iff_ne, ne_eq] at h
  obtain ⟨h1, h2, h3, h4, h5, h6⟩ := h
  simp [List.contains_cons, h1, h2, h3, h4, h5, h6, Bool.or_assoc]

def encChromaInfo (profileIdc : Nat) (c : ChromaInfo) (sm : Option ScalingSyntax) : List Bool :=
  if stdHasChromaInfo profileIdc then
    encUe (chromaFormatIdc c.chromaFormat) ++
    (if chromaFormatIdc c.chromaFormat = 3 then encBool c.separateColourPlaneFlag else []) ++
    encUe c.bitDepthLumaMinus8 ++ encUe c.bitDepthChromaMinus8 ++ encBool c.qpprimeYZeroTransformBypassFlag ++
    (match sm with
     | none => encBool false
     | some lists => encBool true ++ (lists.map encScalingList).flatten)
  else []

def encSps (v : Sps) (sm : Option ScalingSyntax) : List Bool :=
  encBits 8 v.profileIdc ++ encBits 8 v.constraintFlags ++ encBits 8 v.levelIdc ++ encUe v.spsId ++
  encChromaInfo v.profileIdc v.chromaInfo sm ++
  encUe v.log2MaxFrameNumMinus4 ++ encPicOrderCnt v.picOrderCnt ++ encUe v.maxNumRefFrames ++
  encBool v.gapsInFrameNumValueAllowedFlag ++ encUe v.picWidthInMbsMinus1 ++ encUe v.picHeightInMapUnitsMinus1 ++
  encFrameMbsFlags v.frameMbsFlags ++ encBool v.direct8x8InferenceFlag ++ encFrameCropping v.frameCropping ++
  encVui v.vui

/-- rbsp_trailing_bits() followed by any number of zero bits (e.g. cabac_zero_words / trailing zero bytes) -/
def trailing (z : Nat) : List Bool := true :: List.replicate z false

/-! ### well-formedness = the value ranges of the standard (as far as the syntax constrains them) -/

def Ue (v : Nat) : Prop := v < 2^32 - 1

def CpbSpec.WF (c : CpbSpec) : Prop := Ue c.bitRateValueMinus1 ∧ Ue c.cpbSizeValueMinus1
def Hrd.WF (h : Hrd) : Prop :=
  h.bitRateScale < 16 ∧ h.cpbSizeScale < 16 ∧ 1 ≤ h.cpbSpecs.length ∧ h.cpbSpecs.length ≤ 32 ∧
  (∀ c ∈ h.cpbSpecs, c.WF) ∧
  h.initialCpbRemovalDelayLengthMinus1 < 32 ∧ h.cpbRemovalDelayLengthMinus1 < 32 ∧
  h.dpbOutputDelayLengthMinus1 < 32 ∧ h.timeOffsetLength < 32
def OptHrdWF : Option Hrd → Prop | none => True | some h => h.WF

def AspectRatioInfo.WF : AspectRatioInfo → Prop
  | .idc v => v < 255
  | .extended w h => w < 2^16 ∧ h < 2^16
def ColourDescription.WF (c : ColourDescription) : Prop :=
  c.colourPrimaries < 256 ∧ c.transferCharacteristics < 256 ∧ c.matrixCoefficients < 256
def VideoSignalType.WF (v : VideoSignalType) : Prop :=
  v.videoFormat < 8 ∧ (match v.colourDescription with | none => True | some c => c.WF)
def BitstreamRestrictions.WF (b : BitstreamRestrictions) (maxNumRefFrames : Nat) : Prop :=
  b.maxBytesPerPicDenom ≤ 16 ∧ b.maxBitsPerMbDenom ≤ 16 ∧ b.log2MaxMvLengthHorizontal ≤ 16 ∧
  b.log2MaxMvLengthVertical ≤ 16 ∧ b.maxNumReorderFrames ≤ b.maxDecFrameBuffering ∧
  maxNumRefFrames ≤ b.maxDecFrameBuffering ∧ Ue b.maxDecFrameBuffering
def Vui.WF (v : Vui) (maxNumRefFrames : Nat) : Prop :=
  (match v.aspectRatioInfo with | none => True | some a => a.WF) ∧
  (match v.videoSignalType with | none => True | some a => a.WF) ∧
  (match v.chromaLocInfo with | none => True | some a => Ue a.top ∧ Ue a.bottom) ∧
  (match v.timingInfo with | none => True | some t => t.numUnitsInTick < 2^32 ∧ t.timeScale < 2^32) ∧
  OptHrdWF v.nalHrd ∧ OptHrdWF v.vclHrd ∧
  (v.lowDelayHrdFlag.isSome = (v.nalHrd.isSome || v.vclHrd.isSome)) ∧
  (match v.bitstreamRestrictions with | none => True | some b => b.WF maxNumRefFrames)

def PicOrderCntType.WF : PicOrderCntType → Prop
  | .typeZero v => v ≤ 12
  | .typeOne _ a b offs => SeRange a ∧ SeRange b ∧ offs.length ≤ 255 ∧ ∀ o ∈ offs, SeRange o
  | .typeTwo => True

end Sps
