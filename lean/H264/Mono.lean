import H264.Bits
/-! Prototype for C17: prefix-monotonicity of every parser built from the primitives -/
namespace Bits

/-- `s'` is a truncated, still-incomplete view of `s` -/
def Src.IsPrefixOf (s' s : Src) : Prop := s'.fin = .wouldBlock ∧ ∃ t, s.bits = s'.bits ++ t

def Err.isWouldBlock : Err → Prop
  | .io _ .wouldBlock => True
  | _ => False

/-- outcome on the truncated source vs. outcome `full` on the complete one -/
def MonoRes {α} (full : Except Err (α × Src)) : Except Err (α × Src) → Prop
  | .ok (a, r') => ∃ r, full = .ok (a, r) ∧ r'.IsPrefixOf r
  | .error e => e.isWouldBlock ∨ ∃ e', full = .error e'

/-- prefix-monotone parser: on a truncated source it either needs more data, or agrees with the full run -/
def Mono {α} (p : P α) : Prop := ∀ s' s, s'.IsPrefixOf s → MonoRes (p s) (p s')

theorem Mono.pure {α} (a : α) : Mono (pure a : P α) := by
  intro s' s h; simp [MonoRes]; exact h

theorem Mono.fail {α} (e : Err) : Mono (fail e : P α) := by
  intro s' s h; simp [MonoRes]

theorem Mono.bind {α β} {p : P α} {f : α → P β} (hp : Mono p) (hf : ∀ a, Mono (f a)) :
    Mono (p >>= f) := by
  intro s' s h
  have h1 := hp s' s h
  simp only [bind_run]
  cases hps' : p s' with
  | error e =>
    rw [hps'] at h1
    simp only [MonoRes] at h1 ⊢
    rcases h1 with h1 | ⟨e', he'⟩
    · exact Or.inl h1
    · exact Or.inr ⟨e', by simp [he']⟩
  | ok v =>
    obtain ⟨a, r'⟩ := v
    rw [hps'] at h1
    simp only [MonoRes] at h1
    obtain ⟨r, hr, hpre⟩ := h1
    have h2 := hf a r' r hpre
    simp only [hr]
    exact h2

theorem Mono.ite {α} (c : Prop) [Decidable c] {p q : P α} (hp : Mono p) (hq : Mono q) :
    Mono (if c then p else q) := by
  split <;> assumption

theorem mono_readBit (name) : Mono (readBit name) := by
  intro s' s ⟨hfin, t, ht⟩
  unfold readBit
  cases hb : s'.bits with
  | nil => simp [hfin, Err.isWouldBlock, MonoRes]
  | cons b bs =>
    simp only [hb, List.cons_append] at ht
    simp only [ht, MonoRes]
    exact ⟨_, rfl, hfin, t, rfl⟩

theorem mono_readBits (name) (n) : Mono (readBits name n) := by
  induction n with
  | zero => exact Mono.pure 0
  | succ n ih =>
    unfold readBits
    exact Mono.bind (mono_readBit name) fun b => Mono.bind ih fun r => Mono.pure _

theorem mono_unaryGo (name) (fin : IoKind) (bits' t : List Bool) (acc : Nat) :
    MonoRes (unaryGo name fin (bits' ++ t) acc) (unaryGo name .wouldBlock bits' acc) := by
  induction bits' generalizing acc with
  | nil => simp [unaryGo, Err.isWouldBlock, MonoRes]
  | cons b bs ih =>
    cases b with
    | true => simp only [unaryGo, List.cons_append, MonoRes]; exact ⟨_, rfl, rfl, t, rfl⟩
    | false => simpa [unaryGo] using ih (acc + 1)

theorem mono_readUnary1 (name) : Mono (readUnary1 name) := by
  intro s' s ⟨hfin, t, ht⟩
  unfold readUnary1
  rw [hfin, ht]
  exact mono_unaryGo name s.fin s'.bits t 0

theorem mono_readUe (name) : Mono (readUe name) := by
  unfold readUe
  refine Mono.bind (mono_readUnary1 name) fun count => ?_
  refine Mono.ite _ (Mono.fail _) (Mono.ite _ ?_ (Mono.pure _))
  exact Mono.bind (mono_readBits name count) fun v => Mono.pure _

theorem mono_readSe (name) : Mono (readSe name) :=
  Mono.bind (mono_readUe name) fun _ => Mono.pure _

theorem mono_readBool (name) : Mono (readBool name) := mono_readBit name

theorem any_append_false {l t : List Bool} (h : (l ++ t).any id = false) : l.any id = false := by
  simp only [List.any_append, Bool.or_eq_false_iff] at h; exact h.1

/-- `has_more_rbsp_data` on a partial NAL: `true` only if the 1 bit is already there, otherwise it blocks -/
theorem mono_hasMore (name) : Mono (hasMore name) := by
  intro s' s ⟨hfin, t, ht⟩
  unfold hasMore
  cases hb : s'.bits with
  | nil => simp [hfin, MonoRes, Err.isWouldBlock]
  | cons b rest =>
    simp only [hb, List.cons_append] at ht
    simp only [ht]
    by_cases ha : rest.any id
    · have : (rest ++ t).any id = true := by simp [List.any_append, ha]
      simp only [ha, this, ↓reduceIte, MonoRes]
      exact ⟨_, rfl, hfin, t, by simp [hb, ht]⟩
    · simp [ha, hfin, MonoRes, Err.isWouldBlock]

/-- `finish_rbsp` never succeeds on a partial NAL: it needs to see the real end -/
theorem mono_finishRbsp : Mono finishRbsp := by
  intro s' s ⟨hfin, t, ht⟩
  unfold finishRbsp
  cases hb : s'.bits with
  | nil => simp [hfin, MonoRes, Err.isWouldBlock]
  | cons b rest =>
    simp only [hb, List.cons_append] at ht
    simp only [ht]
    cases b with
    | false =>
      by_cases ha : rest.any id
      · have : (rest ++ t).any id = true := by simp [List.any_append, ha]
        simp [ha, this, MonoRes]
      · simp [ha, hfin, MonoRes, Err.isWouldBlock]
    | true =>
      by_cases ha : rest.any id
      · have : (rest ++ t).any id = true := by simp [List.any_append, ha]
        simp [ha, this, MonoRes]
      · simp [ha, hfin, MonoRes, Err.isWouldBlock]

theorem finishRbsp_needs_eof (s : Src) (h : s.fin ≠ .eof) : ∀ r, finishRbsp s ≠ .ok r := by
  intro r
  unfold finishRbsp
  cases hb : s.bits with
  | nil => simp
  | cons b rest =>
    cases b with
    | false => simp only; split <;> simp
    | true => simp only; split <;> simp [h]

#print axioms mono_hasMore
end Bits
