import H264.ByteProof
/-! theorems of `ByteProof` that belong to C18 (a module of their own, so that a broken table or row of another property does not
take this property's module down with it) -/
namespace ByteProof


/-- the call shapes of the **real** reader on this whole domain (C18 read off the regenerated graph): in all 6 461 runs every
slice handed to the handler was non-empty and every call without slices ended a unit -/
theorem annexb_code_calls_shaped : ∀ row ∈ Generated.annexbShapeRows, ∀ x ∈ row, x = 1 := by
  decide +kernel

end ByteProof
