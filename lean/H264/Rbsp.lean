/-! Prototype: L0 model of `rbsp::ByteReader` over a chunked NAL reader, and its refinement to `unescFrom` -/
namespace Rbsp

inductive IoKind | eof | wouldBlock | invalidData
deriving DecidableEq, Repr

/-- model of `RefNalReader` -/
structure Chunked where
  cur : List UInt8
  tail : List (List UInt8)
  complete : Bool
deriving DecidableEq, Repr

namespace Chunked
def nextChunk (c : Chunked) : Chunked :=
  match c.tail with
  | first :: tail => { c with cur := first, tail := tail }
  | [] => { c with cur := [] }

def fillBuf (c : Chunked) : Except IoKind (List UInt8) :=
  if c.cur = [] ∧ c.complete = false then .error .wouldBlock else .ok c.cur

/-- `consume amt`, precondition `amt ≤ cur.length` -/
def consume (c : Chunked) (amt : Nat) : Chunked :=
  let c' := { c with cur := c.cur.drop amt }
  if c'.cur = [] then c'.nextChunk else c'

/-- all bytes still to come -/
def rest (c : Chunked) : List UInt8 := c.cur ++ c.tail.flatten

/-- chunks are non-empty, and `cur` is empty only at the very end -/
def WF (c : Chunked) : Prop := (∀ t ∈ c.tail, t ≠ []) ∧ (c.cur = [] → c.tail = [])
end Chunked

inductive PS | start | oneZero | twoZero | skip (n : Nat) | three | postThree
deriving DecidableEq, Repr

structure BR where
  inner : Chunked
  st : PS
  i : Nat
  maxFill : Nat
deriving Repr

/-- spec-level continuation of the scanner: output bytes and whether the input stayed valid -/
def unescFrom : PS → List UInt8 → List UInt8 × Bool
  | _, [] => ([], true)
  | .start, b :: bs =>
      if b = 0 then let r := unescFrom .oneZero bs; (b :: r.1, r.2)
      else let r := unescFrom .start bs; (b :: r.1, r.2)
  | .oneZero, b :: bs =>
      if b = 0 then let r := unescFrom .twoZero bs; (b :: r.1, r.2)
      else let r := unescFrom .start bs; (b :: r.1, r.2)
  | .twoZero, b :: bs =>
      if b = 3 then unescFrom .postThree bs
      else if b = 0 then ([], false)
      else let r := unescFrom .start bs; (b :: r.1, r.2)
  | .skip n, _ :: bs => unescFrom (if n ≤ 1 then .start else .skip (n - 1)) bs
  | .three, _ :: bs => unescFrom .postThree bs
  | .postThree, b :: bs =>
      if b = 0 then let r := unescFrom .oneZero bs; (b :: r.1, r.2)
      else if b ≤ 3 then let r := unescFrom .start bs; (b :: r.1, r.2)
      else ([], false)

inductive ScanRes
  | done (st : PS) (i : Nat)
  | consumeInner (k : Nat) (st : PS)
  | invalid (st : PS) (i : Nat)
deriving Repr

/-- the `while self.i < limit` loop of `try_fill_buf_slow`; `todo` = bytes `chunk[i..limit]` -/
def scan (chunkLen : Nat) : PS → Nat → List UInt8 → ScanRes
  | st, i, [] => .done st i
  | .start, i, b :: bs => if b = 0 then scan chunkLen .oneZero (i+1) bs else scan chunkLen .start (i+1) bs
  | .oneZero, i, b :: bs => if b = 0 then scan chunkLen .twoZero (i+1) bs else scan chunkLen .start (i+1) bs
  | .twoZero, i, b :: bs =>
      if b = 3 then .done .three i
      else if b = 0 then .invalid .twoZero i
      else scan chunkLen .start (i+1) bs
  | .skip n, _, _ :: _ =>
      let k := min chunkLen n
      .consumeInner k (if n - k = 0 then .start else .skip (n - k))
  | .three, _, _ :: _ => .consumeInner 1 .postThree
  | .postThree, i, b :: bs =>
      if b = 0 then scan chunkLen .oneZero (i+1) bs
      else if b ≤ 3 then scan chunkLen .start (i+1) bs
      else .invalid .postThree i

/-- `try_fill_buf_slow` (called with `i = 0`): new reader and `Ok(more)` / `Err(kind)` -/
def tryFill (r : BR) : BR × Except IoKind Bool :=
  match r.inner.fillBuf with
  | .error k => (r, .error k)
  | .ok chunk =>
    if chunk = [] then (r, .ok false) else
    let limit := min chunk.length r.maxFill
    match scan chunk.length r.st r.i ((chunk.take limit).drop r.i) with
    | .done st i => ({ r with st := st, i := i }, .ok true)
    | .consumeInner k st => ({ r with inner := r.inner.consume k, st := st }, .ok true)
    | .invalid st i => ({ r with st := st, i := i }, .error .invalidData)

/-- `while self.i == 0 && self.try_fill_buf_slow()? {}` with explicit fuel -/
def fillLoop : Nat → BR → BR × Except IoKind Unit
  | 0, r => (r, .ok ())
  | fuel+1, r =>
    if r.i ≠ 0 then (r, .ok ()) else
    match tryFill r with
    | (r', .error k) => (r', .error k)
    | (r', .ok false) => (r', .ok ())
    | (r', .ok true) => fillLoop fuel r'

/-- enough fuel: every productive iteration with `i` still 0 consumes ≥ 1 inner byte -/
def fuelFor (r : BR) : Nat := 2 * r.inner.rest.length + 3

def fillBuf (r : BR) : BR × Except IoKind (List UInt8) :=
  match fillLoop (fuelFor r) r with
  | (r', .error k) => (r', .error k)
  | (r', .ok ()) =>
    match r'.inner.fillBuf with
    | .error k => (r', .error k)
    | .ok chunk => (r', .ok (chunk.take r'.i))

/-- `consume amt`; precondition `amt ≤ i` (Rust: `checked_sub(amt).unwrap()`) -/
def consume (r : BR) (amt : Nat) : BR :=
  { r with i := r.i - amt, inner := r.inner.consume amt }

def read (r : BR) (n : Nat) : BR × Except IoKind (List UInt8) :=
  match fillBuf r with
  | (r', .error k) => (r', .error k)
  | (r', .ok chunk) =>
    let amt := min n chunk.length
    (consume r' amt, .ok (chunk.take amt))

/-- what the reader will still deliver, and whether the rest of the input is valid -/
def view (r : BR) : List UInt8 × Bool :=
  let u := unescFrom r.st (r.inner.rest.drop r.i)
  (r.inner.cur.take r.i ++ u.1, u.2)

/-- representation invariant -/
def Inv (r : BR) : Prop :=
  r.inner.WF ∧ r.i ≤ r.inner.cur.length ∧ 1 ≤ r.maxFill ∧
  (∀ n, r.st = .skip n → r.i = 0 ∧ 1 ≤ n)

end Rbsp
