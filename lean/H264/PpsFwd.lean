import H264.Pps
/-! Prototype: standard encoder for the PPS (7.3.2.2) and the forward round trip (C05) -/
namespace Pps
open Bits Sps

def numGroupsMinus1 : SliceGroup → Nat
  | .interleaved rl => rl.length - 1
  | .dispersed n => n
  | .foregroundAndLeftover rs => rs.length
  | .changing _ n _ _ => n
  | .explicitAssignment n _ => n

def encSliceGroup : SliceGroup → List Bool
  | .interleaved rl => encUe 0 ++ (rl.map encUe).flatten
  | .dispersed _ => encUe 1
  | .foregroundAndLeftover rs => encUe 2 ++ (rs.map fun r => encUe r.1 ++ encUe r.2).flatten
  | .changing t _ d r => encUe t ++ encBool d ++ encUe r
  | .explicitAssignment n ids => encUe 6 ++ encUe (ids.length - 1) ++ (ids.map (encBits (groupIdBits n))).flatten

def encSliceGroups : Option SliceGroup → List Bool
  | none => encUe 0
  | some g => encUe (numGroupsMinus1 g) ++ encSliceGroup g

def encPicScalingMatrix : Option ScalingSyntax → List Bool
  | none => encBool false
  | some lists => encBool true ++ (lists.map encScalingList).flatten

def encPpsExtra : Option PpsExtra → Option ScalingSyntax → List Bool
  | none, _ => []
  | some e, sm => encBool e.transform8x8ModeFlag ++ encPicScalingMatrix sm ++ encSe e.secondChromaQpIndexOffset

def encPps (v : Pps) (sm : Option ScalingSyntax) : List Bool :=
  encUe v.ppsId ++ encUe v.spsId ++ encBool v.entropyCodingModeFlag ++
  encBool v.bottomFieldPicOrderInFramePresentFlag ++ encSliceGroups v.sliceGroups ++
  encUe v.numRefIdxL0DefaultActiveMinus1 ++ encUe v.numRefIdxL1DefaultActiveMinus1 ++
  encBool v.weightedPredFlag ++ encBits 2 v.weightedBipredIdc ++
  encSe v.picInitQpMinus26 ++ encSe v.picInitQsMinus26 ++ encSe v.chromaQpIndexOffset ++
  encBool v.deblockingFilterControlPresentFlag ++ encBool v.constrainedIntraPredFlag ++
  encBool v.redundantPicCntPresentFlag ++ encPpsExtra v.extension sm

/-! ### ranges -/

def SliceGroup.WF (s : Sps.Sps) : SliceGroup → Prop
  | .interleaved rl => 2 ≤ rl.length ∧ rl.length ≤ 8 ∧ ∀ r ∈ rl, r ≤ picSizeInMapUnits s - 1
  | .dispersed n => 1 ≤ n ∧ n ≤ 7
  | .foregroundAndLeftover rs => 1 ≤ rs.length ∧ rs.length ≤ 7 ∧
      ∀ r ∈ rs, r.1 ≤ r.2 ∧ r.2 ≤ picSizeInMapUnits s ∧ r.2 < 2^32 - 1 ∧
        r.1 % picWidthInMbs s ≤ r.2 % picWidthInMbs s
  | .changing t n _ r => (t = 3 ∨ t = 4 ∨ t = 5) ∧ 1 ≤ n ∧ n ≤ 7 ∧ r ≤ picSizeInMapUnits s - 1
  | .explicitAssignment n ids => 1 ≤ n ∧ n ≤ 7 ∧ 1 ≤ ids.length ∧ ids.length ≤ 2^32 - 1 ∧
      ∀ i ∈ ids, i < 2 ^ groupIdBits n

theorem picSize_lt (s : Sps.Sps) : picSizeInMapUnits s < 2^32 := by
  unfold picSizeInMapUnits; omega

theorem readUeList_enc (name tag) (bound : Nat) (hb : bound < 2^32 - 1) (xs : List Nat) (h : ∀ x ∈ xs, x ≤ bound)
    (rest fin) :
    readUeList name bound tag xs.length ⟨(xs.map encUe).flatten ++ rest, fin⟩ = .ok (xs, ⟨rest, fin⟩) := by
  induction xs with
  | nil => simp [readUeList]
  | cons x xs ih =>
    have hx := h x (by simp)
    have hu : x < 2^32 - 1 := by omega
    have hn : ¬ x > bound := by omega
    simp [readUeList, List.append_assoc, readUe_enc _ _ hu, hn, ih (fun y hy => h y (by simp [hy]))]

theorem readRects_enc (s : Sps.Sps) (rs : List (Nat × Nat))
    (h : ∀ r ∈ rs, r.1 ≤ r.2 ∧ r.2 ≤ picSizeInMapUnits s ∧ r.2 < 2^32 - 1 ∧
      r.1 % picWidthInMbs s ≤ r.2 % picWidthInMbs s)
    (rest fin) :
    readRects s rs.length ⟨(rs.map fun r => encUe r.1 ++ encUe r.2).flatten ++ rest, fin⟩
      = .ok (rs, ⟨rest, fin⟩) := by
  induction rs with
  | nil => simp [readRects]
  | cons r rs ih =>
    obtain ⟨h1, h2, h3, h4⟩ := h r (by simp)
    have u1 : r.1 < 2^32 - 1 := by omega
    have n1 : ¬ r.1 > r.2 := by omega
    have n2 : ¬ r.2 > picSizeInMapUnits s := by omega
    have n3 : ¬ r.1 % picWidthInMbs s > r.2 % picWidthInMbs s := by omega
    simp [readRects, readRect, List.append_assoc, readUe_enc _ _ u1, readUe_enc _ _ h3, n1, n2, n3,
      ih (fun y hy => h y (by simp [hy]))]

theorem readBitsList_enc (name) (w : Nat) (xs : List Nat) (h : ∀ x ∈ xs, x < 2^w) (rest fin) :
    readBitsList name w xs.length ⟨(xs.map (encBits w)).flatten ++ rest, fin⟩ = .ok (xs, ⟨rest, fin⟩) := by
  induction xs with
  | nil => simp [readBitsList]
  | cons x xs ih =>
    simp [readBitsList, List.append_assoc, readBits_enc _ _ _ (h x (by simp)),
      ih (fun y hy => h y (by simp [hy]))]

theorem readSliceGroups_enc (s : Sps.Sps) (g : Option SliceGroup)
    (wf : match g with | none => True | some g => g.WF s) (rest fin) :
    readSliceGroups s ⟨encSliceGroups g ++ rest, fin⟩ = .ok (g, ⟨rest, fin⟩) := by
  have hp := picSize_lt s
  have u0 : (0:Nat) < 2^32 - 1 := by omega
  cases g with
  | none => simp [readSliceGroups, encSliceGroups, readUe_enc _ _ u0]
  | some g =>
    cases g with
    | interleaved rl =>
      obtain ⟨h1, h2, h3⟩ := wf
      have un : rl.length - 1 < 2^32 - 1 := by omega
      have nn : ¬ rl.length - 1 > 7 := by omega
      have pn : rl.length - 1 > 0 := by omega
      have hl : rl.length - 1 + 1 = rl.length := by omega
      have hb : picSizeInMapUnits s - 1 < 2^32 - 1 := by omega
      have := readUeList_enc "run_length_minus1" "InvalidRunLengthMinus1" _ hb rl h3 rest fin
      simp [readSliceGroups, encSliceGroups, numGroupsMinus1, encSliceGroup, List.append_assoc,
        readUe_enc _ _ un, nn, pn, readSliceGroup, readUe_enc _ _ u0, hl, this]
    | dispersed n =>
      obtain ⟨h1, h2⟩ := wf
      have un : n < 2^32 - 1 := by omega
      have nn : ¬ n > 7 := by omega
      have pn : n > 0 := by omega
      have u1 : (1:Nat) < 2^32 - 1 := by omega
      simp [readSliceGroups, encSliceGroups, numGroupsMinus1, encSliceGroup, List.append_assoc,
        readUe_enc _ _ un, nn, pn, readSliceGroup, readUe_enc _ _ u1]
    | foregroundAndLeftover rs =>
      obtain ⟨h1, h2, h3⟩ := wf
      have un : rs.length < 2^32 - 1 := by omega
      have nn : ¬ rs.length > 7 := by omega
      have pn : rs.length > 0 := by omega
      have u2 : (2:Nat) < 2^32 - 1 := by omega
      have := readRects_enc s rs h3 rest fin
      simp [readSliceGroups, encSliceGroups, numGroupsMinus1, encSliceGroup, List.append_assoc,
        readUe_enc _ _ un, nn, pn, readSliceGroup, readUe_enc _ _ u2, this]
    | changing t n d r =>
      obtain ⟨ht, h1, h2, h3⟩ := wf
      have un : n < 2^32 - 1 := by omega
      have nn : ¬ n > 7 := by omega
      have pn : n > 0 := by omega
      have ut : t < 2^32 - 1 := by omega
      have ur : r < 2^32 - 1 := by omega
      have nr : ¬ r > picSizeInMapUnits s - 1 := by omega
      have t0 : t ≠ 0 := by omega
      have t1 : t ≠ 1 := by omega
      have t2 : t ≠ 2 := by omega
      simp [readSliceGroups, encSliceGroups, numGroupsMinus1, encSliceGroup, List.append_assoc,
        readUe_enc _ _ un, nn, pn, readSliceGroup, readUe_enc _ _ ut, t0, t1, t2, ht,
        readUe_enc _ _ ur, nr]
    | explicitAssignment n ids =>
      obtain ⟨h1, h2, h3, h4, h5⟩ := wf
      have un : n < 2^32 - 1 := by omega
      have nn : ¬ n > 7 := by omega
      have pn : n > 0 := by omega
      have u6 : (6:Nat) < 2^32 - 1 := by omega
      have ul : ids.length - 1 < 2^32 - 1 := by omega
      have hl : ids.length - 1 + 1 = ids.length := by omega
      have := readBitsList_enc "slice_group_id" (groupIdBits n) ids h5 rest fin
      simp [readSliceGroups, encSliceGroups, numGroupsMinus1, encSliceGroup, List.append_assoc,
        readUe_enc _ _ un, nn, pn, readSliceGroup, readUe_enc _ _ u6, readUe_enc _ _ ul, hl, this]


/-! ### the optional tail, gated by more_rbsp_data() -/

theorem any_replicate_false (z : Nat) : (List.replicate z false).any id = false := by
  induction z with
  | zero => rfl
  | succ n ih => simp [List.replicate_succ, ih]

theorem hasMore_trailing (name) (z : Nat) :
    hasMore name ⟨trailing z, .eof⟩ = .ok (false, ⟨trailing z, .eof⟩) := by
  simp [hasMore, trailing, any_replicate_false]

theorem hasMore_before_trailing (name) (b : Bool) (xs : List Bool) (z : Nat) :
    hasMore name ⟨b :: (xs ++ trailing z), .eof⟩ = .ok (true, ⟨b :: (xs ++ trailing z), .eof⟩) := by
  simp [hasMore, trailing, List.any_append]

/-- coded pic scaling syntax ↦ the matrix stored in the parsed PPS -/
def PicMatrixDerives (s : Sps.Sps) (t : Bool) : Option ScalingSyntax → Option PicScalingMatrix → Prop
  | none, m => m = none
  | some ls, m => ls.length = 6 + count8 s t ∧ (∀ sl ∈ ls, deltasOk sl) ∧
      ∃ x y, specLists 6 0 ls = some (x, y) ∧ m = some ⟨x, if y.isEmpty then none else some y⟩

theorem readPicScalingMatrix_enc (s : Sps.Sps) (t : Bool) (sm : Option ScalingSyntax)
    (m : Option PicScalingMatrix) (h : PicMatrixDerives s t sm m) (rest fin) :
    readPicScalingMatrix s t ⟨encPicScalingMatrix sm ++ rest, fin⟩ = .ok (m, ⟨rest, fin⟩) := by
  cases sm with
  | none =>
    simp only [PicMatrixDerives] at h; subst h
    simp [readPicScalingMatrix, encPicScalingMatrix]
  | some ls =>
    obtain ⟨hlen, hd, x, y, hxy, hm⟩ := h
    subst hm
    have := readScalingLists_enc 6 ls 0 [] [] x y hxy hd rest fin
    rw [hlen] at this
    simp [readPicScalingMatrix, encPicScalingMatrix, List.append_assoc, this]

def PpsExtra.WF (s : Sps.Sps) (e : PpsExtra) (sm : Option ScalingSyntax) : Prop :=
  PicMatrixDerives s e.transform8x8ModeFlag sm e.picScalingMatrix ∧
  -12 ≤ e.secondChromaQpIndexOffset ∧ e.secondChromaQpIndexOffset ≤ 12

/-- **C05 (tail)**: the optional tail is read exactly when it is there -/
theorem readPpsExtra_enc (s : Sps.Sps) (e : Option PpsExtra) (sm : Option ScalingSyntax)
    (wf : match e with | none => True | some e => e.WF s sm) (z : Nat) :
    readPpsExtra s ⟨encPpsExtra e sm ++ trailing z, .eof⟩ = .ok (e, ⟨trailing z, .eof⟩) := by
  cases e with
  | none => simp [readPpsExtra, encPpsExtra, hasMore_trailing]
  | some e =>
    obtain ⟨t, m, q⟩ := e
    obtain ⟨w1, w2, w3⟩ := wf
    simp only at w1 w2 w3
    have hse : SeRange q := by unfold SeRange; omega
    have hn : ¬ (q < -12 ∨ q > 12) := by omega
    have hm := hasMore_before_trailing "transform_8x8_mode_flag" t (encPicScalingMatrix sm ++ encSe q) z
    simp only [List.append_assoc] at hm
    simp [readPpsExtra, encPpsExtra, encBool, List.append_assoc, hm]
    have hb : readBool "transform_8x8_mode_flag"
        ⟨t :: (encPicScalingMatrix sm ++ (encSe q ++ trailing z)), .eof⟩
        = .ok (t, ⟨encPicScalingMatrix sm ++ (encSe q ++ trailing z), .eof⟩) := by
      simp [readBool, readBit]
    simp [hb, readPicScalingMatrix_enc s t sm m w1, readSe_enc _ _ hse, hn]

#print axioms readPpsExtra_enc
end Pps
