import H264.PpsC05
import H264.Context
import H264.GeneratedSmall
/-! one coded field of a minimal SPS / PPS swept over the values around every range check (C16) -/
namespace SmallProof
open Bits

def encS (v : Int) : Nat := if v < 0 then 2 * v.natAbs + 1 else 2 * v.natAbs

def spsFieldRow (i : Nat) : Nat × Nat :=
  let field := i / 41; let v := i % 41
  let high := field ≥ 6
  let f (k dflt : Nat) : Nat := if k = field then v else dflt
  let poc := f 2 2
  let bits := encBits 8 (if high then 100 else 66) ++ encBits 8 0 ++ encBits 8 30 ++ encUe (f 0 0) ++
    (if high then encUe 1 ++ encUe (f 6 0) ++ encUe (f 7 0) ++ [false, false] else []) ++
    encUe (f 1 0) ++ encUe poc ++
    (if poc = 0 then encUe 0 else if poc = 1 then [false] ++ encSe 0 ++ encSe 0 ++ encUe 0 else []) ++
    encUe (f 3 1) ++ [false] ++ encUe (f 4 1) ++ encUe (f 5 1) ++ [true, false, false, false] ++ [true]
  match Sps.parseSps ⟨bits, .eof⟩ with
  | .error _ => (0, 0)
  | .ok (s, _) =>
    (1, match field with
      | 0 => s.spsId | 1 => s.log2MaxFrameNumMinus4
      | 2 => (match s.picOrderCnt with | .typeZero _ => 0 | .typeOne .. => 1 | .typeTwo => 2)
      | 3 => s.maxNumRefFrames | 4 => s.picWidthInMbsMinus1 | 5 => s.picHeightInMapUnitsMinus1
      | 6 => s.chromaInfo.bitDepthLumaMinus8 | _ => s.chromaInfo.bitDepthChromaMinus8)

/-- model `parseSps` = real `from_bits` on eight fields × values 0…40 (every range check of the minimal SPS is crossed: id 31 / 32,
log2_max_frame_num_minus4 12 / 13, POC type 2 / 3, bit depths 6 / 7, …): accepted or not, and the field as returned -/
theorem spsFields_model_eq_code : (List.range 328).map spsFieldRow = Generated.spsFieldRows := by decide +kernel

def ppsFieldRow (i : Nat) : Nat × Nat :=
  let field := i / 82; let k := i % 82
  let uv : Nat := if field = 0 ∧ k ≥ 41 then 195 + k else k % 41
  let sv : Int := (k : Int) - 41
  let fu (j dflt : Nat) : Nat := if j = field then uv else dflt
  let fs (j : Nat) : Int := if j = field then sv else 0
  let spsBits := encBits 8 66 ++ encBits 8 0 ++ encBits 8 30 ++ encUe 0 ++ encUe 0 ++ encUe 2 ++ encUe 1 ++ [false] ++ encUe 1 ++ encUe 1 ++ [true, false, false, false] ++ [true]
  match Sps.parseSps ⟨spsBits, .eof⟩ with
  | .error _ => (7, 7)
  | .ok (s, _) =>
    let m := Ctx.put [] s.spsId s
    let bits := encUe (fu 0 0) ++ encUe (fu 1 0) ++ [false, false] ++ encUe 0 ++ encUe (fu 2 0) ++ encUe (fu 3 0) ++ [false] ++ encBits 2 0 ++
      encSe (fs 4) ++ encSe (fs 5) ++ encSe (fs 6) ++ [false, false, false] ++ [true]
    match Pps.parsePps (Ctx.get m) ⟨bits, .eof⟩ with
    | .error _ => (0, 0)
    | .ok (p, _) =>
      (1, match field with
        | 0 => p.ppsId | 1 => p.spsId | 2 => p.numRefIdxL0DefaultActiveMinus1 | 3 => p.numRefIdxL1DefaultActiveMinus1
        | 4 => encS p.picInitQpMinus26 | 5 => encS p.picInitQsMinus26 | _ => encS p.chromaQpIndexOffset)

/-- model `parsePps` = real `from_bits` on seven fields swept across their range checks (pps_id 255 / 256, sps_id present or not,
reference counts 31 / 32, pic_init_qp −26 / −27 and 25 / 26, pic_init_qs likewise, chroma offset ±12 / ±13) -/
theorem ppsFields_model_eq_code : (List.range 574).map ppsFieldRow = Generated.ppsFieldRows := by decide +kernel

end SmallProof
