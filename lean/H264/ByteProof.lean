import H264.DecodeNal
import H264.NalSrc
import H264.AnnexBL0
import H264.GeneratedBytes
/-! The two byte-level state machines on complete small domains, by proof: every string of length 0…5 over a
4-symbol alphabet that contains all the bytes the machines distinguish. The rows of the real code are extracted on every
run; the kernel evaluates the **call-level models** (`Rbsp.decodeNal`, the `ByteReader` model drained byte by byte,
`AnnexB.push` / `reset` over two pushes cut at every position) and checks that they return exactly those rows. -/
namespace ByteProof

/-- all words of a given length over an alphabet, most significant symbol first -/
def wordsOf (alpha : List Nat) : Nat → List (List Nat)
  | 0 => [[]]
  | n+1 => alpha.flatMap fun a => (wordsOf alpha n).map (a :: ·)
/-- length-major enumeration 0…5 (the order of `tables.rs: words`) -/
def words (alpha : List Nat) : List (List Nat) := (List.range 6).flatMap (wordsOf alpha)

def bytes (w : List Nat) : List UInt8 := w.map UInt8.ofNat
def nats (b : List UInt8) : List Nat := b.map (·.toNat)

def decodeRow (p : List Nat) : Nat × Nat × List Nat :=
  match Rbsp.decodeNal (0x65 :: bytes p) with
  | .ok (b, out) => (1, (if b then 1 else 0), nats out)
  | .error _ => (0, 0, [])

def drainRow (p : List Nat) : List Nat × Nat :=
  let d := NalSrc.drain (NalSrc.rbspBytes [0x65 :: bytes p] true)
  (nats d.1, match d.2 with | .eof => 0 | .invalidData => 1 | .wouldBlock => 2)

def evCode : AnnexB.Ev → Nat | .byte b => b.toNat | .endUnit => 256

def annexbRow (s : List Nat) : List (List Nat) :=
  (List.range (s.length + 1)).map fun cut =>
    let r1 := AnnexB.push .start (bytes (s.take cut))
    let r2 := AnnexB.push r1.1 (bytes (s.drop cut))
    let r3 := AnnexB.reset r2.1
    (AnnexB.events (r1.2 ++ r2.2 ++ r3.2)).map evCode

end ByteProof
