import H264.SliceFwd
/-! Prototype: C06 — the whole slice header -/
namespace Slice
open Bits Sps Pps

theorem readColourPlane_enc (sps : Sps.Sps) (h : SliceHeader)
    (wf : if sps.chromaInfo.separateColourPlaneFlag then ∃ v, h.colourPlane = some v ∧ v ≤ 2 else h.colourPlane = none)
    (rest fin) :
    readColourPlane sps ⟨encColourPlane sps h ++ rest, fin⟩ = .ok (h.colourPlane, ⟨rest, fin⟩) := by
  unfold readColourPlane encColourPlane
  by_cases hs : sps.chromaInfo.separateColourPlaneFlag = true
  · simp only [hs, ↓reduceIte] at wf ⊢
    obtain ⟨v, hv, hle⟩ := wf
    have h4 : v < 2^2 := by omega
    have hn : ¬ v > 2 := by omega
    simp [hv, readBits_enc _ 2 _ h4, hn]
  · simp only [hs, Bool.false_eq_true, ↓reduceIte] at wf ⊢
    simp [wf]

theorem readFieldPic_enc (sps : Sps.Sps) (h : SliceHeader)
    (wf : sps.frameMbsFlags = .frames → h.fieldPic = .frame) (rest fin) :
    readFieldPic sps ⟨encFieldPic sps h ++ rest, fin⟩ = .ok (h.fieldPic, ⟨rest, fin⟩) := by
  unfold readFieldPic encFieldPic
  cases hf : sps.frameMbsFlags with
  | frames => simp [wf hf]
  | fields m => cases h.fieldPic <;> simp [List.append_assoc]

theorem readIdrPicId_enc (hdr : NalHdr) (h : SliceHeader)
    (wf : if hdr.nalUnitType = 5 then ∃ v, h.idrPicId = some v ∧ Ue v else h.idrPicId = none) (rest fin) :
    readIdrPicId hdr ⟨encIdrPicId hdr h ++ rest, fin⟩ = .ok (h.idrPicId, ⟨rest, fin⟩) := by
  unfold readIdrPicId encIdrPicId
  by_cases h5 : hdr.nalUnitType = 5
  · simp only [h5, ↓reduceIte] at wf ⊢
    obtain ⟨v, hv, hu⟩ := wf
    simp [hv, readUe_enc _ _ hu]
  · simp only [h5, ↓reduceIte] at wf ⊢
    simp [wf]

/-- the POC part of the header is consistent with the SPS POC type and the PPS/field flags -/
def PocWF (sps : Sps.Sps) (pps : Pps.Pps) (h : SliceHeader) : Prop :=
  let bottomCoded := pps.bottomFieldPicOrderInFramePresentFlag && h.fieldPic == .frame
  match sps.picOrderCnt with
  | .typeZero l =>
    if bottomCoded then ∃ lsb d, h.picOrderCntLsb = some (.fieldsAbsolute lsb d) ∧ lsb < 2^(l+4) ∧ SeRange d
    else ∃ lsb, h.picOrderCntLsb = some (.frame lsb) ∧ lsb < 2^(l+4)
  | .typeOne az _ _ _ =>
    if az then h.picOrderCntLsb = some (.fieldsDelta 0 0)
    else if bottomCoded then ∃ d0 d1, h.picOrderCntLsb = some (.fieldsDelta d0 d1) ∧ SeRange d0 ∧ SeRange d1
    else ∃ d0, h.picOrderCntLsb = some (.fieldsDelta d0 0) ∧ SeRange d0
  | .typeTwo => h.picOrderCntLsb = none

theorem readPoc_enc (sps : Sps.Sps) (pps : Pps.Pps) (h : SliceHeader) (wf : PocWF sps pps h) (rest fin) :
    readPoc sps pps h.fieldPic ⟨encPoc sps pps h ++ rest, fin⟩ = .ok (h.picOrderCntLsb, ⟨rest, fin⟩) := by
  unfold PocWF at wf
  unfold readPoc encPoc
  cases hp : sps.picOrderCnt with
  | typeZero l =>
    simp only [hp] at wf
    by_cases hb : (pps.bottomFieldPicOrderInFramePresentFlag && h.fieldPic == .frame) = true
    · simp only [hb, ↓reduceIte] at wf
      obtain ⟨lsb, d, hv, hl, hd⟩ := wf
      simp [hv, List.append_assoc, readBits_enc _ _ _ hl, hb, readSe_enc _ _ hd]
    · simp only [hb, Bool.false_eq_true, ↓reduceIte] at wf
      obtain ⟨lsb, hv, hl⟩ := wf
      simp [hv, readBits_enc _ _ _ hl, hb]
  | typeOne az a b offs =>
    simp only [hp] at wf
    cases az with
    | true => simp only [↓reduceIte] at wf; simp [wf]
    | false =>
      simp only [Bool.false_eq_true, ↓reduceIte] at wf
      by_cases hb : (pps.bottomFieldPicOrderInFramePresentFlag && h.fieldPic == .frame) = true
      · simp only [hb, ↓reduceIte] at wf
        obtain ⟨d0, d1, hv, h0, h1⟩ := wf
        simp [hv, hb, List.append_assoc, readSe_enc _ _ h0, readSe_enc _ _ h1]
      · simp only [hb, Bool.false_eq_true, ↓reduceIte] at wf
        obtain ⟨d0, hv, h0⟩ := wf
        simp [hv, hb, readSe_enc _ _ h0]
  | typeTwo =>
    simp only [hp] at wf
    simp [wf]

theorem readRedundant_enc (pps : Pps.Pps) (h : SliceHeader)
    (wf : if pps.redundantPicCntPresentFlag then ∃ v, h.redundantPicCnt = some v ∧ Ue v else h.redundantPicCnt = none)
    (rest fin) :
    readRedundant pps ⟨encRedundant pps h ++ rest, fin⟩ = .ok (h.redundantPicCnt, ⟨rest, fin⟩) := by
  unfold readRedundant encRedundant
  by_cases hr : pps.redundantPicCntPresentFlag = true
  · simp only [hr, ↓reduceIte] at wf ⊢
    obtain ⟨v, hv, hu⟩ := wf
    simp [hv, readUe_enc _ _ hu]
  · simp only [hr, Bool.false_eq_true, ↓reduceIte] at wf ⊢
    simp [wf]

theorem readDirect_enc (fam : Family) (h : SliceHeader)
    (wf : if fam = .B then ∃ b, h.directSpatialMvPredFlag = some b else h.directSpatialMvPredFlag = none)
    (rest fin) :
    readDirect fam ⟨encDirect fam h ++ rest, fin⟩ = .ok (h.directSpatialMvPredFlag, ⟨rest, fin⟩) := by
  unfold readDirect encDirect
  by_cases hb : fam = .B
  · simp only [hb, ↓reduceIte] at wf ⊢
    obtain ⟨b, hv⟩ := wf
    simp [hv]
  · simp only [hb, ↓reduceIte] at wf ⊢
    simp [wf]

def NraWF (fam : Family) : Option NumRefIdxActive → Prop
  | none => True
  | some (.P l0) => (fam = .P ∨ fam = .SP) ∧ l0 ≤ 31
  | some (.B l0 l1) => fam = .B ∧ l0 ≤ 31 ∧ l1 ≤ 31

theorem readNumRefIdxActive_enc (fam : Family) (h : SliceHeader) (wf : NraWF fam h.numRefIdxActive) (rest fin) :
    readNumRefIdxActive fam ⟨encNumRefIdxActive fam h ++ rest, fin⟩ = .ok (h.numRefIdxActive, ⟨rest, fin⟩) := by
  unfold readNumRefIdxActive encNumRefIdxActive
  cases hn : h.numRefIdxActive with
  | none =>
    by_cases hf : fam = .P ∨ fam = .SP ∨ fam = .B
    · simp [hf]
    · simp [hf]
  | some n =>
    rw [hn] at wf
    cases n with
    | P l0 =>
      obtain ⟨hf, hl⟩ := wf
      have hu : l0 < 2^32 - 1 := by omega
      have hn31 : ¬ l0 > 31 := by omega
      rcases hf with hfam | hfam <;>
        simp [hfam, List.append_assoc, readNumRefIdx, readUe_enc _ _ hu, hn31]
    | B l0 l1 =>
      obtain ⟨hf, hl0, hl1⟩ := wf
      have hu0 : l0 < 2^32 - 1 := by omega
      have hu1 : l1 < 2^32 - 1 := by omega
      have hn0 : ¬ l0 > 31 := by omega
      have hn1 : ¬ l1 > 31 := by omega
      simp [hf, List.append_assoc, readNumRefIdx, readUe_enc _ _ hu0, readUe_enc _ _ hu1, hn0, hn1]

def ModsWF (fam : Family) : RefPicListMods → Prop
  | .I => fam = .I ∨ fam = .SI
  | .P a => (fam = .P ∨ fam = .SP) ∧ ∀ o ∈ a, o.WF
  | .B a b => fam = .B ∧ (∀ o ∈ a, o.WF) ∧ ∀ o ∈ b, o.WF

theorem readRefPicListMods_enc (fam : Family) (m : RefPicListMods) (wf : ModsWF fam m) (rest fin) :
    readRefPicListMods fam ⟨encRefPicListMods m ++ rest, fin⟩ = .ok (m, ⟨rest, fin⟩) := by
  cases m with
  | I => rcases wf with h | h <;> simp [h, readRefPicListMods, encRefPicListMods]
  | P a =>
    obtain ⟨hf, ha⟩ := wf
    rcases hf with h | h <;>
      simp [h, readRefPicListMods, encRefPicListMods, readModList_enc a ha]
  | B a b =>
    obtain ⟨hf, ha, hb⟩ := wf
    simp [hf, readRefPicListMods, encRefPicListMods, List.append_assoc, readModList_enc a ha, readModList_enc b hb]


/-! pred_weight_table -/
def PwtWF (fam : Family) (pps : Pps.Pps) (sps : Sps.Sps) (nra : Option NumRefIdxActive) (t : PredWeightTable) : Prop :=
  fam ≠ .B ∧ Ue t.lumaLog2WeightDenom ∧
  (if isChroma sps then ∃ v, t.chromaLog2WeightDenom = some v ∧ Ue v else t.chromaLog2WeightDenom = none) ∧
  t.lumaWeights.length = effectiveL0 pps nra + 1 ∧ (∀ l ∈ t.lumaWeights, LumaW.WF l) ∧
  (if isChroma sps then t.chromaWeights.length = t.lumaWeights.length ∧ ∀ c ∈ t.chromaWeights, ChromaW.WF c
   else t.chromaWeights = [])

theorem readPredWeightTable_enc (fam : Family) (pps : Pps.Pps) (sps : Sps.Sps) (nra : Option NumRefIdxActive)
    (t : PredWeightTable) (wf : PwtWF fam pps sps nra t) (rest fin) :
    readPredWeightTable fam pps sps nra ⟨encPredWeightTable (isChroma sps) t ++ rest, fin⟩ = .ok (t, ⟨rest, fin⟩) := by
  obtain ⟨hb, hld, hcd, hlen, hlw, hcw⟩ := wf
  obtain ⟨ld, cd, lws, cws⟩ := t
  simp only at hld hcd hlen hlw hcw
  have hent := readPredWeightEntries_enc (isChroma sps) lws cws hlw hcw rest fin
  rw [hlen] at hent
  unfold readPredWeightTable encPredWeightTable
  have hch : (!(sps.chromaInfo.separateColourPlaneFlag) && sps.chromaInfo.chromaFormat != .monochrome) = isChroma sps := rfl
  by_cases hc : isChroma sps = true
  · simp only [hc, ↓reduceIte] at hcd hent
    obtain ⟨v, hv, hu⟩ := hcd
    subst hv
    simp only [hch, hc, ↓reduceIte, List.append_assoc, bind_run, readUe_enc _ _ hld, readUe_enc _ _ hu,
      pure_run, hent, hb, fail_run]
  · have hc' : isChroma sps = false := by simpa using hc
    simp only [hc', Bool.false_eq_true, ↓reduceIte] at hcd hent
    subst hcd
    simp only [hch, hc', Bool.false_eq_true, ↓reduceIte, List.append_assoc, bind_run, readUe_enc _ _ hld,
      pure_run, List.nil_append, hent, hb, fail_run]

theorem readPwtOpt_enc (fam : Family) (pps : Pps.Pps) (sps : Sps.Sps) (h : SliceHeader)
    (wf : if pwtPresent fam pps then ∃ t, h.predWeightTable = some t ∧ PwtWF fam pps sps h.numRefIdxActive t
          else h.predWeightTable = none) (rest fin) :
    readPwtOpt fam pps sps h.numRefIdxActive ⟨encPwtOpt fam pps sps h ++ rest, fin⟩
      = .ok (h.predWeightTable, ⟨rest, fin⟩) := by
  unfold readPwtOpt encPwtOpt
  by_cases hp : pwtPresent fam pps = true
  · simp only [hp, ↓reduceIte] at wf ⊢
    obtain ⟨t, ht, hwf⟩ := wf
    simp [ht, readPredWeightTable_enc fam pps sps _ t hwf]
  · simp only [hp, Bool.false_eq_true, ↓reduceIte] at wf ⊢
    simp [wf]

theorem readMarkingOpt_enc (hdr : NalHdr) (h : SliceHeader)
    (wf : if hdr.nalRefIdc = 0 then h.decRefPicMarking = none
          else ∃ m, h.decRefPicMarking = some m ∧ m.WF hdr) (rest fin) :
    readMarkingOpt hdr ⟨encMarkingOpt hdr h ++ rest, fin⟩ = .ok (h.decRefPicMarking, ⟨rest, fin⟩) := by
  unfold readMarkingOpt encMarkingOpt
  by_cases h0 : hdr.nalRefIdc = 0
  · simp only [h0, ↓reduceIte] at wf ⊢
    simp [wf]
  · simp only [h0, ↓reduceIte] at wf ⊢
    obtain ⟨m, hm, hwf⟩ := wf
    simp [hm, readDecRefPicMarking_enc hdr m hwf]

theorem readCabac_enc (fam : Family) (pps : Pps.Pps) (h : SliceHeader)
    (wf : if pps.entropyCodingModeFlag ∧ fam ≠ .I ∧ fam ≠ .SI then ∃ v, h.cabacInitIdc = some v ∧ Ue v
          else h.cabacInitIdc = none) (rest fin) :
    readCabac fam pps ⟨encCabac fam pps h ++ rest, fin⟩ = .ok (h.cabacInitIdc, ⟨rest, fin⟩) := by
  unfold readCabac encCabac
  by_cases hc : pps.entropyCodingModeFlag = true ∧ fam ≠ .I ∧ fam ≠ .SI
  · rw [if_pos hc] at wf
    rw [if_pos hc, if_pos hc]
    obtain ⟨v, hv, hu⟩ := wf
    simp [hv, readUe_enc _ _ hu]
  · rw [if_neg hc] at wf
    rw [if_neg hc, if_neg hc]
    simp [wf]

theorem readQpDelta_enc (q : Int) (h1 : SeRange q) (h2 : q ≤ 51) (rest fin) :
    readQpDelta ⟨encSe q ++ rest, fin⟩ = .ok (q, ⟨rest, fin⟩) := by
  have : ¬ q > 51 := by omega
  simp [readQpDelta, readSe_enc _ _ h1, this]

/-- slice_qs_delta / SliceQS relation of 7.4.3 -/
def SwitchQsWF (fam : Family) (pps : Pps.Pps) (h : SliceHeader) (x : Extra) : Prop :=
  if fam = .SP ∨ fam = .SI then
    (if fam = .SP then ∃ b, h.spForSwitchFlag = some b else h.spForSwitchFlag = none) ∧
    SeRange x.sliceQsDelta ∧ 0 ≤ 26 + pps.picInitQsMinus26 + x.sliceQsDelta ∧
    26 + pps.picInitQsMinus26 + x.sliceQsDelta ≤ 51 ∧
    h.sliceQs = some (26 + pps.picInitQsMinus26 + x.sliceQsDelta).toNat
  else h.spForSwitchFlag = none ∧ h.sliceQs = none

theorem readSwitchQs_enc (fam : Family) (pps : Pps.Pps) (h : SliceHeader) (x : Extra)
    (wf : SwitchQsWF fam pps h x) (rest fin) :
    readSwitchQs fam pps ⟨encSwitchQs fam h x ++ rest, fin⟩ = .ok ((h.spForSwitchFlag, h.sliceQs), ⟨rest, fin⟩) := by
  unfold SwitchQsWF at wf
  unfold readSwitchQs encSwitchQs
  by_cases hf : fam = .SP ∨ fam = .SI
  · rw [if_pos hf] at wf
    obtain ⟨hsw, hse, hlo, hhi, hqs⟩ := wf
    have hn : ¬ (26 + pps.picInitQsMinus26 + x.sliceQsDelta < 0 ∨ 51 < 26 + pps.picInitQsMinus26 + x.sliceQsDelta) := by omega
    by_cases hsp : fam = .SP
    · simp only [hsp, ↓reduceIte] at hsw
      obtain ⟨b, hb⟩ := hsw
      simp [readSpSwitch, hsp, hb, List.append_assoc, readSe_enc _ _ hse, hn, hqs]
    · simp only [hsp, ↓reduceIte] at hsw
      have hsi : fam = .SI := by
        rcases hf with h' | h'
        · exact absurd h' hsp
        · exact h'
      simp [readSpSwitch, hsi, hsw, readSe_enc _ _ hse, hn, hqs]
  · rw [if_neg hf] at wf
    simp [hf, wf.1, wf.2]

def DeblockWF (pps : Pps.Pps) (h : SliceHeader) (x : Extra) : Prop :=
  if pps.deblockingFilterControlPresentFlag then
    h.disableDeblockingFilterIdc ≤ 6 ∧
    (h.disableDeblockingFilterIdc ≠ 1 → -6 ≤ x.alpha ∧ x.alpha ≤ 6 ∧ SeRange x.beta)
  else h.disableDeblockingFilterIdc = 0

theorem readDeblock_enc (pps : Pps.Pps) (h : SliceHeader) (x : Extra) (wf : DeblockWF pps h x) (rest fin) :
    readDeblock pps ⟨encDeblock pps h x ++ rest, fin⟩ = .ok (h.disableDeblockingFilterIdc, ⟨rest, fin⟩) := by
  unfold DeblockWF at wf
  unfold readDeblock encDeblock
  by_cases hd : pps.deblockingFilterControlPresentFlag = true
  · simp only [hd, ↓reduceIte] at wf ⊢
    obtain ⟨h6, hab⟩ := wf
    have hu : h.disableDeblockingFilterIdc < 2^32 - 1 := by omega
    have hn6 : ¬ h.disableDeblockingFilterIdc > 6 := by omega
    by_cases h1 : h.disableDeblockingFilterIdc = 1
    · simp [h1, readUe_enc _ _ u1]
    · obtain ⟨ha1, ha2, hb⟩ := hab h1
      have hsa : SeRange x.alpha := by unfold SeRange; omega
      have hna : ¬ (x.alpha < -6 ∨ 6 < x.alpha) := by omega
      simp [h1, List.append_assoc, readUe_enc _ _ hu, hn6, readSe_enc _ _ hsa, hna, readSe_enc _ _ hb]
  · simp only [hd, Bool.false_eq_true, ↓reduceIte] at wf ⊢
    simp [wf]

/-- slice data follows: at least one bit, and the RBSP trailing bits after it -/
theorem requireMore_ok (d : Bool) (data : List Bool) (z : Nat) :
    requireMore ⟨d :: (data ++ trailing z), .eof⟩ = .ok ((), ⟨d :: (data ++ trailing z), .eof⟩) := by
  simp [requireMore, hasMore_before_trailing]

/-- everything the standard requires of a slice header w.r.t. its NAL header and active parameter sets -/
structure SliceWF (sps : Sps.Sps) (pps : Pps.Pps) (hdr : NalHdr) (h : SliceHeader) (x : Extra) : Prop where
  firstMb : Ue h.firstMbInSlice
  sliceType : h.sliceTypeId ≤ 9
  ppsId : pps.ppsId ≤ 255
  nalType : hdr.nalUnitType ≠ 20 ∧ hdr.nalUnitType ≠ 21
  colourPlane : if sps.chromaInfo.separateColourPlaneFlag then ∃ v, h.colourPlane = some v ∧ v ≤ 2 else h.colourPlane = none
  frameNum : h.frameNum < 2 ^ (sps.log2MaxFrameNumMinus4 + 4)
  fieldPic : sps.frameMbsFlags = .frames → h.fieldPic = .frame
  idr : if hdr.nalUnitType = 5 then ∃ v, h.idrPicId = some v ∧ Ue v else h.idrPicId = none
  poc : PocWF sps pps h
  redundant : if pps.redundantPicCntPresentFlag then ∃ v, h.redundantPicCnt = some v ∧ Ue v else h.redundantPicCnt = none
  direct : if familyOf h.sliceTypeId = .B then ∃ b, h.directSpatialMvPredFlag = some b else h.directSpatialMvPredFlag = none
  nra : NraWF (familyOf h.sliceTypeId) h.numRefIdxActive
  mods : ModsWF (familyOf h.sliceTypeId) h.refPicListModification
  pwt : if pwtPresent (familyOf h.sliceTypeId) pps then
          ∃ t, h.predWeightTable = some t ∧ PwtWF (familyOf h.sliceTypeId) pps sps h.numRefIdxActive t
        else h.predWeightTable = none
  marking : if hdr.nalRefIdc = 0 then h.decRefPicMarking = none else ∃ m, h.decRefPicMarking = some m ∧ m.WF hdr
  cabac : if pps.entropyCodingModeFlag ∧ familyOf h.sliceTypeId ≠ .I ∧ familyOf h.sliceTypeId ≠ .SI
          then ∃ v, h.cabacInitIdc = some v ∧ Ue v else h.cabacInitIdc = none
  qp : SeRange h.sliceQpDelta ∧ h.sliceQpDelta ≤ 51
  qs : SwitchQsWF (familyOf h.sliceTypeId) pps h x
  deblock : DeblockWF pps h x

/-- **C06 (forward)**: for every conforming slice header of NAL types 1/5 (any `nal_ref_idc`, any slice type
except B with explicit weighted prediction, which `PwtWF` excludes), with its PPS and SPS in the context, the
parser returns every field equal to the encoded value, the ids of the activated parameter sets, and a reader
positioned on the first bit of the slice data. -/
theorem C06_forward (ctx : Ctx) (sps : Sps.Sps) (pps : Pps.Pps) (hdr : NalHdr) (h : SliceHeader) (x : Extra)
    (hpps : ctx.pps pps.ppsId = some pps) (hsps : ctx.sps pps.spsId = some sps)
    (wf : SliceWF sps pps hdr h x) (d : Bool) (data : List Bool) (z : Nat) :
    parseSliceHeader ctx hdr ⟨encSliceHeader sps pps hdr h x ++ d :: (data ++ trailing z), .eof⟩
      = .ok ((h, pps.spsId, pps.ppsId), ⟨d :: (data ++ trailing z), .eof⟩) := by
  obtain ⟨w1, w2, w3, w4, w5, w6, w7, w8, w9, w10, w11, w12, w13, w14, w15, w16, w17, w18, w19⟩ := wf
  have ust : h.sliceTypeId < 2^32 - 1 := by omega
  have nst : ¬ h.sliceTypeId > 9 := by omega
  have upp : pps.ppsId < 2^32 - 1 := by omega
  have npp : ¬ pps.ppsId > 255 := by omega
  have n20 : ¬ (hdr.nalUnitType = 20 ∨ hdr.nalUnitType = 21) := by omega
  simp only [parseSliceHeader, encSliceHeader, List.append_assoc, bind_run, readUe_enc _ _ w1,
    readUe_enc _ _ ust, nst, ↓reduceIte, readUe_enc _ _ upp, npp, hpps, hsps, readSliceBody]
  rw [readColourPlane_enc sps _ w5]; simp only
  rw [readBits_enc _ _ _ w6]; simp only
  rw [readFieldPic_enc sps _ w7]; simp only
  rw [readIdrPicId_enc hdr _ w8]; simp only
  rw [readPoc_enc sps pps _ w9]; simp only
  rw [readRedundant_enc pps _ w10]; simp only
  rw [readDirect_enc _ _ w11]; simp only
  rw [readNumRefIdxActive_enc _ _ w12]; simp only [n20, ↓reduceIte, bind_run]
  rw [readRefPicListMods_enc _ _ w13]; simp only
  rw [readPwtOpt_enc _ pps sps _ w14]; simp only
  rw [readMarkingOpt_enc hdr _ w15]; simp only
  rw [readCabac_enc _ pps _ w16]; simp only
  rw [readQpDelta_enc _ w17.1 w17.2]; simp only
  rw [readSwitchQs_enc _ pps _ x w18]; simp only
  rw [readDeblock_enc pps _ x w19]; simp only
  rw [requireMore_ok]; simp

#print axioms C06_forward
end Slice
