import H264.TblProof
/-! theorems of `TblProof` that belong to C10 (a module of their own, so that a broken table or row of another property does not
take this property's module down with it) -/
namespace TblProof
open TblModel Bits

theorem seiType_model_eq_code : ∀ i : Fin 512, seiTypeCode i.val = some (Generated.seiType.getD i.val 999) := by
  decide +kernel

end TblProof
