import H264.AnnexBSpec
import H264.AnnexBShapes
/-! Arbitrary interleavings of `push` and `reset` (C01 prefixes, C18 reset at arbitrary points) -/
namespace AnnexB
open St

inductive Op | push (b : List UInt8) | reset
deriving DecidableEq, Repr

/-- the reader driven by an arbitrary sequence of pushes and resets -/
def runOps : St → List Op → St × List Call
  | s, [] => (s, [])
  | s, .push b :: ops => let r := AnnexB.push s b; let r' := runOps r.1 ops; (r'.1, r.2 ++ r'.2)
  | s, .reset :: ops => let r := AnnexB.reset s; let r' := runOps r.1 ops; (r'.1, r.2 ++ r'.2)

/-- specification: each reset-delimited portion is segmented on its own; the open tail has delivered what the
byte machine has emitted for it so far -/
def specOps : List UInt8 → List Op → List Ev
  | acc, [] => (run start acc).2
  | acc, .push b :: ops => specOps (acc ++ b) ops
  | acc, .reset :: ops => outside acc ++ specOps [] ops

theorem events_reset (s : St) : events (AnnexB.reset s).2 = resetEv s := by
  cases s <;> simp [AnnexB.reset, backtrack, resetEv, events, Call.events, zeros]

theorem runOps_spec (acc : List UInt8) (ops : List Op) :
    (run start acc).2 ++ events (runOps (run start acc).1 ops).2 = specOps acc ops := by
  induction ops generalizing acc with
  | nil => simp [runOps, specOps, events]
  | cons op ops ih =>
    cases op with
    | push b =>
      obtain ⟨p1, p2⟩ := push_refines_run (run start acc).1 b
      have ha := run_append start acc b
      simp only [runOps, specOps, events_append]
      rw [← ih (acc ++ b), ha, p1, p2]
      simp [List.append_assoc]
    | reset =>
      simp only [runOps, specOps, events_append, events_reset, reset_fresh]
      have h0 : (run start ([] : List UInt8)) = (start, []) := by simp [run]
      have := ih []
      rw [h0] at this
      simp only [List.nil_append] at this
      rw [this, ← List.append_assoc, run_spec]
      rfl

/-- every call of every operation sequence is well shaped -/
theorem runOps_shaped (s : St) (ops : List Op) : ∀ c ∈ (runOps s ops).2, c.WellShaped := by
  induction ops generalizing s with
  | nil => simp [runOps]
  | cons op ops ih =>
    cases op with
    | push b =>
      intro c hc
      simp only [runOps, List.mem_append] at hc
      rcases hc with hc | hc
      · exact push_shaped s b c hc
      · exact ih _ c hc
    | reset =>
      intro c hc
      simp only [runOps, List.mem_append] at hc
      rcases hc with hc | hc
      · exact reset_shaped s c hc
      · exact ih _ c hc

/-- a reset inside a unit makes exactly one call, and that call ends the unit -/
theorem reset_ends_once (s : St) (n : Nat) (h : backtrack s = some n) :
    ∃ c, (AnnexB.reset s).2 = [c] ∧ c.fin = true := by
  cases s <;> simp [backtrack] at h <;> subst h <;> simp [AnnexB.reset, backtrack]

/-- after a reset, whatever happened before, the continuation is that of a fresh reader -/
theorem after_reset_fresh (s : St) (ops : List Op) :
    (runOps s (.reset :: ops)).2 = (AnnexB.reset s).2 ++ (runOps start ops).2 ∧
    (runOps s (.reset :: ops)).1 = (runOps start ops).1 := by
  simp [runOps, reset_fresh]

end AnnexB
