import H264.Bits
/-! Prototype: value types and model parser for `SeqParameterSet::from_bits` (post-fix code) -/
namespace Sps
open Bits

inductive ScalingList
  | notPresent
  | useDefault
  | list (vals : List Nat)
deriving DecidableEq, Repr

structure SeqScalingMatrix where
  l4x4 : List ScalingList
  l8x8 : List ScalingList
deriving DecidableEq, Repr

inductive ChromaFormat | monochrome | yuv420 | yuv422 | yuv444 | invalid (v : Nat)
deriving DecidableEq, Repr

def ChromaFormat.ofIdc : Nat → ChromaFormat
  | 0 => .monochrome | 1 => .yuv420 | 2 => .yuv422 | 3 => .yuv444 | v => .invalid v

structure ChromaInfo where
  chromaFormat : ChromaFormat := .yuv420
  separateColourPlaneFlag : Bool := false
  bitDepthLumaMinus8 : Nat := 0
  bitDepthChromaMinus8 : Nat := 0
  qpprimeYZeroTransformBypassFlag : Bool := false
  scalingMatrix : Option SeqScalingMatrix := none
deriving DecidableEq, Repr

inductive PicOrderCntType
  | typeZero (log2MaxPicOrderCntLsbMinus4 : Nat)
  | typeOne (deltaPicOrderAlwaysZeroFlag : Bool) (offsetForNonRefPic : Int)
      (offsetForTopToBottomField : Int) (offsetsForRefFrame : List Int)
  | typeTwo
deriving DecidableEq, Repr

inductive FrameMbsFlags | frames | fields (mbAdaptiveFrameFieldFlag : Bool)
deriving DecidableEq, Repr

structure FrameCropping where
  left : Nat
  right : Nat
  top : Nat
  bottom : Nat
deriving DecidableEq, Repr

inductive AspectRatioInfo
  | idc (v : Nat)                 -- 0 = Unspecified, 1..16 = table E-1, others Reserved
  | extended (w h : Nat)
deriving DecidableEq, Repr

inductive OverscanAppropriate | unspecified | appropriate | inappropriate
deriving DecidableEq, Repr

structure ColourDescription where
  colourPrimaries : Nat
  transferCharacteristics : Nat
  matrixCoefficients : Nat
deriving DecidableEq, Repr

structure VideoSignalType where
  videoFormat : Nat
  videoFullRangeFlag : Bool
  colourDescription : Option ColourDescription
deriving DecidableEq, Repr

structure ChromaLocInfo where
  top : Nat
  bottom : Nat
deriving DecidableEq, Repr

structure TimingInfo where
  numUnitsInTick : Nat
  timeScale : Nat
  fixedFrameRateFlag : Bool
deriving DecidableEq, Repr

structure CpbSpec where
  bitRateValueMinus1 : Nat
  cpbSizeValueMinus1 : Nat
  cbrFlag : Bool
deriving DecidableEq, Repr

structure Hrd where
  bitRateScale : Nat
  cpbSizeScale : Nat
  cpbSpecs : List CpbSpec
  initialCpbRemovalDelayLengthMinus1 : Nat
  cpbRemovalDelayLengthMinus1 : Nat
  dpbOutputDelayLengthMinus1 : Nat
  timeOffsetLength : Nat
deriving DecidableEq, Repr

structure BitstreamRestrictions where
  motionVectorsOverPicBoundariesFlag : Bool
  maxBytesPerPicDenom : Nat
  maxBitsPerMbDenom : Nat
  log2MaxMvLengthHorizontal : Nat
  log2MaxMvLengthVertical : Nat
  maxNumReorderFrames : Nat
  maxDecFrameBuffering : Nat
deriving DecidableEq, Repr

structure Vui where
  aspectRatioInfo : Option AspectRatioInfo
  overscanAppropriate : OverscanAppropriate
  videoSignalType : Option VideoSignalType
  chromaLocInfo : Option ChromaLocInfo
  timingInfo : Option TimingInfo
  nalHrd : Option Hrd
  vclHrd : Option Hrd
  lowDelayHrdFlag : Option Bool
  picStructPresentFlag : Bool
  bitstreamRestrictions : Option BitstreamRestrictions
deriving DecidableEq, Repr

structure Sps where
  profileIdc : Nat
  constraintFlags : Nat
  levelIdc : Nat
  spsId : Nat
  chromaInfo : ChromaInfo
  log2MaxFrameNumMinus4 : Nat
  picOrderCnt : PicOrderCntType
  maxNumRefFrames : Nat
  gapsInFrameNumValueAllowedFlag : Bool
  picWidthInMbsMinus1 : Nat
  picHeightInMapUnitsMinus1 : Nat
  frameMbsFlags : FrameMbsFlags
  direct8x8InferenceFlag : Bool
  frameCropping : Option FrameCropping
  vui : Option Vui
deriving DecidableEq, Repr

/-! ### model parsers (same order of reads and checks as the Rust) -/

def hasChromaInfo (profileIdc : Nat) : Bool :=
  profileIdc = 100 || profileIdc = 110 || profileIdc = 122 || profileIdc = 244 || profileIdc = 44 ||
  profileIdc = 83 || profileIdc = 86

/-- `fill_scaling_list`: returns the list and `use_default_scaling_matrix_flag` -/
def fillScalingList : (remaining j last next : Nat) → (useDefault : Bool) → (acc : List Nat) → P (List Nat × Bool)
  | 0, _, _, _, ud, acc => pure (acc.reverse, ud)
  | n+1, j, last, next, ud, acc =>
    if next ≠ 0 then do
      let delta ← readSe "delta_scale"
      if delta < -128 ∨ delta > 127 then fail (.other "DeltaScaleOutOfRange") else
      let next' := ((last : Int) + delta + 256).toNat % 256
      let ud' := j == 0 && next' == 0
      let nv := if next' = 0 then last else next'
      fillScalingList n (j+1) nv next' ud' (nv :: acc)
    else
      let nv := last
      fillScalingList n (j+1) nv next ud (nv :: acc)

def readScalingList (size : Nat) (present : Bool) : P ScalingList :=
  if !present then pure .notPresent else do
    let (l, ud) ← fillScalingList size 0 8 8 false []
    if ud then pure .useDefault else pure (.list l)

def readScalingLists (size4 : Nat) : (count i : Nat) → (a4 a8 : List ScalingList) → P SeqScalingMatrix
  | 0, _, a4, a8 => pure ⟨a4.reverse, a8.reverse⟩
  | n+1, i, a4, a8 => do
    let present ← readBool "seq_scaling_list_present_flag"
    if i < size4 then do
      let sl ← readScalingList 16 present
      readScalingLists size4 n (i+1) (sl :: a4) a8
    else do
      let sl ← readScalingList 64 present
      readScalingLists size4 n (i+1) a4 (sl :: a8)

def readSeqScalingMatrix (chromaFormatIdc : Nat) : P SeqScalingMatrix :=
  readScalingLists 6 (if chromaFormatIdc = 3 then 12 else 8) 0 [] []

def readBitDepthMinus8 : P Nat := do
  let v ← readUe "read_bit_depth_minus8"
  if v > 6 then fail (.other "BitDepthOutOfRange") else pure v

def readSeparateColourPlane (idc : Nat) : P Bool :=
  if idc = 3 then readBool "separate_colour_plane_flag" else pure false

def readOptScalingMatrix (idc : Nat) : P (Option SeqScalingMatrix) := do
  let present ← readBool "scaling_matrix_present_flag"
  if present then do
    let m ← readSeqScalingMatrix idc
    pure (some m)
  else pure none

def readChromaInfo (profileIdc : Nat) : P ChromaInfo :=
  if hasChromaInfo profileIdc then do
    let idc ← readUe "chroma_format_idc"
    let sep ← readSeparateColourPlane idc
    let bl ← readBitDepthMinus8
    let bc ← readBitDepthMinus8
    let q ← readBool "qpprime_y_zero_transform_bypass_flag"
    let sm ← readOptScalingMatrix idc
    pure ⟨ChromaFormat.ofIdc idc, sep, bl, bc, q, sm⟩
  else pure {}

def readSeList (name : String) : Nat → P (List Int)
  | 0 => pure []
  | n+1 => do
    let x ← readSe name
    let xs ← readSeList name n
    pure (x :: xs)

def readPicOrderCnt : P PicOrderCntType := do
  let t ← readUe "pic_order_cnt_type"
  if t = 0 then do
    let v ← readUe "log2_max_pic_order_cnt_lsb_minus4"
    if v > 12 then fail (.other "Log2MaxPicOrderCntLsbMinus4OutOfRange") else pure (.typeZero v)
  else if t = 1 then do
    let f ← readBool "delta_pic_order_always_zero_flag"
    let a ← readSe "offset_for_non_ref_pic"
    let b ← readSe "offset_for_top_to_bottom_field"
    let n ← readUe "num_ref_frames_in_pic_order_cnt_cycle"
    if n > 255 then fail (.other "NumRefFramesInPicOrderCntCycleOutOfRange") else do
    let offs ← readSeList "offset_for_ref_frame" n
    pure (.typeOne f a b offs)
  else if t = 2 then pure .typeTwo
  else fail (.other "InvalidPicOrderCountType")

def readFrameMbsFlags : P FrameMbsFlags := do
  let f ← readBool "frame_mbs_only_flag"
  if f then pure .frames else do
    let m ← readBool "mb_adaptive_frame_field_flag"
    pure (.fields m)

def readFrameCropping : P (Option FrameCropping) := do
  let f ← readBool "frame_cropping_flag"
  if f then do
    let l ← readUe "left_offset"
    let r ← readUe "right_offset"
    let t ← readUe "top_offset"
    let b ← readUe "bottom_offset"
    pure (some ⟨l, r, t, b⟩)
  else pure none

def readAspectRatioInfo : P (Option AspectRatioInfo) := do
  let f ← readBool "aspect_ratio_info_present_flag"
  if f then do
    let idc ← readBits "aspect_ratio_idc" 8
    if idc = 255 then do
      let w ← readBits "sar_width" 16
      let h ← readBits "sar_height" 16
      pure (some (.extended w h))
    else pure (some (.idc idc))
  else pure none

def readOverscan : P OverscanAppropriate := do
  let f ← readBool "overscan_info_present_flag"
  if f then do
    let a ← readBool "overscan_appropriate_flag"
    pure (if a then .appropriate else .inappropriate)
  else pure .unspecified

def readColourDescription : P (Option ColourDescription) := do
  let f ← readBool "colour_description_present_flag"
  if f then do
    let a ← readBits "colour_primaries" 8
    let b ← readBits "transfer_characteristics" 8
    let c ← readBits "matrix_coefficients" 8
    pure (some ⟨a, b, c⟩)
  else pure none

def readVideoSignalType : P (Option VideoSignalType) := do
  let f ← readBool "video_signal_type_present_flag"
  if f then do
    let vf ← readBits "video_format" 3
    let fr ← readBool "video_full_range_flag"
    let cd ← readColourDescription
    pure (some ⟨vf, fr, cd⟩)
  else pure none

def readChromaLocInfo : P (Option ChromaLocInfo) := do
  let f ← readBool "chroma_loc_info_present_flag"
  if f then do
    let a ← readUe "chroma_sample_loc_type_top_field"
    let b ← readUe "chroma_sample_loc_type_bottom_field"
    pure (some ⟨a, b⟩)
  else pure none

def readTimingInfo : P (Option TimingInfo) := do
  let f ← readBool "timing_info_present_flag"
  if f then do
    let a ← readBits "num_units_in_tick" 32
    let b ← readBits "time_scale" 32
    let c ← readBool "fixed_frame_rate_flag"
    pure (some ⟨a, b, c⟩)
  else pure none

def readCpbSpec : P CpbSpec := do
  let a ← readUe "bit_rate_value_minus1"
  let b ← readUe "cpb_size_value_minus1"
  let c ← readBool "cbr_flag"
  pure ⟨a, b, c⟩

def readCpbSpecs : Nat → P (List CpbSpec)
  | 0 => pure []
  | n+1 => do
    let x ← readCpbSpec
    let xs ← readCpbSpecs n
    pure (x :: xs)

def readHrd : P (Option Hrd) := do
  let f ← readBool "hrd_parameters_present_flag"
  if f then do
    let cpbCntMinus1 ← readUe "cpb_cnt_minus1"
    if cpbCntMinus1 > 31 then fail (.other "CpbCountOutOfRange") else do
    let brs ← readBits "bit_rate_scale" 4
    let css ← readBits "cpb_size_scale" 4
    let specs ← readCpbSpecs (cpbCntMinus1 + 1)
    let a ← readBits "initial_cpb_removal_delay_length_minus1" 5
    let b ← readBits "cpb_removal_delay_length_minus1" 5
    let c ← readBits "dpb_output_delay_length_minus1" 5
    let d ← readBits "time_offset_length" 5
    pure (some ⟨brs, css, specs, a, b, c, d⟩)
  else pure none

def readBitstreamRestrictions (maxNumRefFrames : Nat) : P (Option BitstreamRestrictions) := do
  let f ← readBool "bitstream_restriction_flag"
  if f then do
    let mv ← readBool "motion_vectors_over_pic_boundaries_flag"
    let a ← readUe "max_bytes_per_pic_denom"
    if a > 16 then fail (.other "FieldValueTooLarge max_bytes_per_pic_denom") else do
    let b ← readUe "max_bits_per_mb_denom"
    if b > 16 then fail (.other "FieldValueTooLarge max_bits_per_mb_denom") else do
    let c ← readUe "log2_max_mv_length_horizontal"
    if c > 16 then fail (.other "FieldValueTooLarge log2_max_mv_length_horizontal") else do
    let d ← readUe "log2_max_mv_length_vertical"
    if d > 16 then fail (.other "FieldValueTooLarge log2_max_mv_length_vertical") else do
    let r ← readUe "max_num_reorder_frames"
    let m ← readUe "max_dec_frame_buffering"
    if r > m then fail (.other "FieldValueTooLarge max_num_reorder_frames") else
    if m < maxNumRefFrames then fail (.other "FieldValueTooSmall max_dec_frame_buffering") else
    pure (some ⟨mv, a, b, c, d, r, m⟩)
  else pure none

def readLowDelayFlag (hrdPresent : Bool) : P (Option Bool) :=
  if hrdPresent then do
    let b ← readBool "low_delay_hrd_flag"
    pure (some b)
  else pure none

def readVui (maxNumRefFrames : Nat) : P (Option Vui) := do
  let f ← readBool "vui_parameters_present_flag"
  if f then do
    let ar ← readAspectRatioInfo
    let os ← readOverscan
    let vs ← readVideoSignalType
    let cl ← readChromaLocInfo
    let ti ← readTimingInfo
    let nal ← readHrd
    let vcl ← readHrd
    let ld ← readLowDelayFlag (nal.isSome || vcl.isSome)
    let ps ← readBool "pic_struct_present_flag"
    let br ← readBitstreamRestrictions maxNumRefFrames
    pure (some ⟨ar, os, vs, cl, ti, nal, vcl, ld, ps, br⟩)
  else pure none

def parseSps : P Sps := do
  let profileIdc ← readBits "profile_idc" 8
  let constraintFlags ← readBits "constraint_flags" 8
  let levelIdc ← readBits "level_idc" 8
  let id ← readUe "seq_parameter_set_id"
  if id > 31 then fail (.other "BadSeqParamSetId") else do
  let ci ← readChromaInfo profileIdc
  let l2 ← readUe "log2_max_frame_num_minus4"
  if l2 > 12 then fail (.other "Log2MaxFrameNumMinus4OutOfRange") else do
  let poc ← readPicOrderCnt
  let mr ← readUe "max_num_ref_frames"
  let gaps ← readBool "gaps_in_frame_num_value_allowed_flag"
  let w ← readUe "pic_width_in_mbs_minus1"
  let h ← readUe "pic_height_in_map_units_minus1"
  let fm ← readFrameMbsFlags
  let d8 ← readBool "direct_8x8_inference_flag"
  let fc ← readFrameCropping
  let vui ← readVui mr
  finishRbsp
  pure ⟨profileIdc, constraintFlags, levelIdc, id, ci, l2, poc, mr, gaps, w, h, fm, d8, fc, vui⟩

end Sps
