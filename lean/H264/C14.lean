import H264.Bits
/-! Prototype for C14: exact outcome of the three trailing-bit predicates on every bit string (complete RBSP) -/
namespace Bits

def allZero (l : List Bool) : Bool := !(l.any id)

/-- `finish_rbsp`: the complete outcome table -/
theorem finishRbsp_outcome (bits : List Bool) :
    finishRbsp ⟨bits, .eof⟩ =
      match bits with
      | [] => .error (.io "finish" .eof)
      | true :: rest => if allZero rest then .ok ((), ⟨[], .eof⟩) else .error .remaining
      | false :: rest => if allZero rest then .error (.io "finish" .eof) else .error .remaining := by
  unfold finishRbsp allZero
  cases bits with
  | nil => rfl
  | cons b rest => cases b <;> cases h : rest.any id <;> simp [h]

/-- `finish_sei_payload`: additionally succeeds when nothing is left -/
theorem finishSei_outcome (bits : List Bool) :
    finishSei ⟨bits, .eof⟩ =
      match bits with
      | [] => .ok ((), ⟨[], .eof⟩)
      | true :: rest => if allZero rest then .ok ((), ⟨[], .eof⟩) else .error .remaining
      | false :: _ => .error .remaining := by
  unfold finishSei allZero
  cases bits with
  | nil => rfl
  | cons b rest => cases b <;> cases h : rest.any id <;> simp [h]

/-- `has_more_rbsp_data`: true exactly when a 1 bit lies strictly after the current bit; never moves -/
theorem hasMore_outcome (name) (bits : List Bool) :
    hasMore name ⟨bits, .eof⟩ = .ok (!(allZero (bits.drop 1)), ⟨bits, .eof⟩) := by
  unfold hasMore allZero
  cases bits with
  | nil => simp
  | cons b rest => cases h : rest.any id <;> simp [h]

#print axioms finishSei_outcome
end Bits
