import H264.Tables2
/-! theorems of `Tables2` that belong to C06 (a module of their own, so that a broken table or row of another property does not
take this property's module down with it) -/
namespace Tables2
open Generated

/-- Table 7-6: slice_type 0…9 accepted, 10…63 refused; the family is the model's `familyOf` (slice_type mod 5) and
types 5…9 are the "all slices of the picture" variants -/
theorem sliceType_table : sliceType.length = 64 ∧
    ∀ t : Fin 64, sliceType.getD t.val (9,9,9) =
      (if t.val ≤ 9 then (1, famIdx (Slice.familyOf t.val), if t.val ≥ 5 then 1 else 0) else (0, 0, 0)) := by
  decide +kernel

end Tables2
