/-! Prototype: bit-level reader model + Exp-Golomb round trip -/
namespace Bits

inductive IoKind | eof | wouldBlock | invalidData | invalidInput
deriving DecidableEq, Repr

inductive Err
  | io (name : String) (k : IoKind)
  | tooLarge (name : String)
  | remaining
  | other (tag : String)
  | unsupported (tag : String)
  | panic (tag : String)
deriving DecidableEq, Repr

structure Src where
  bits : List Bool
  fin : IoKind      -- what the byte source reports once `bits` is exhausted
deriving DecidableEq, Repr

abbrev P (α : Type) := Src → Except Err (α × Src)

@[inline] def P.pure {α} (a : α) : P α := fun s => .ok (a, s)
@[inline] def P.bind {α β} (p : P α) (f : α → P β) : P β := fun s =>
  match p s with
  | .ok (a, s') => f a s'
  | .error e => .error e

instance : Monad P where
  pure := P.pure
  bind := P.bind

def fail {α} (e : Err) : P α := fun _ => .error e

@[simp] theorem pure_run {α} (a : α) (s : Src) : (pure a : P α) s = .ok (a, s) := rfl
@[simp] theorem bind_run {α β} (p : P α) (f : α → P β) (s : Src) :
    (p >>= f) s = match p s with | .ok (a, s') => f a s' | .error e => .error e := rfl
@[simp] theorem fail_run {α} (e : Err) (s : Src) : (fail e : P α) s = .error e := rfl

theorem bind_ok_iff {α β} (p : P α) (f : α → P β) (s : Src) (r : β × Src) :
    (p >>= f) s = .ok r ↔ ∃ a s', p s = .ok (a, s') ∧ f a s' = .ok r := by
  simp only [bind_run]
  cases h : p s with
  | error e => simp
  | ok v =>
    obtain ⟨a, s'⟩ := v
    constructor
    · intro hf; exact ⟨a, s', rfl, hf⟩
    · rintro ⟨a', s'', heq, hf⟩; cases heq; exact hf

/-- `n` bits, big endian, of `v` -/
def encBits : Nat → Nat → List Bool
  | 0, _ => []
  | n+1, v => decide (2^n ≤ v) :: encBits n (v % 2^n)

def readBit (name : String) : P Bool := fun s =>
  match s.bits with
  | b :: bs => .ok (b, ⟨bs, s.fin⟩)
  | [] => .error (.io name s.fin)

def readBits (name : String) : Nat → P Nat
  | 0 => pure 0
  | n+1 => do
      let b ← readBit name
      let r ← readBits name n
      pure (b.toNat * 2^n + r)

def unaryGo (name : String) (fin : IoKind) : List Bool → Nat → Except Err (Nat × Src)
  | [], _ => .error (.io name fin)
  | true :: bs, acc => .ok (acc, ⟨bs, fin⟩)
  | false :: bs, acc => unaryGo name fin bs (acc + 1)

/-- number of leading zeros before the first 1; consumes the 1 -/
def readUnary1 (name : String) : P Nat := fun s => unaryGo name s.fin s.bits 0

def readUe (name : String) : P Nat := do
  let count ← readUnary1 name
  if count > 31 then fail (.tooLarge name)
  else if count > 0 then
    let v ← readBits name count
    pure (2^count - 1 + v)
  else pure 0

/-- codeword with `n` leading zeros and suffix value `v < 2^n` -/
def encUe' (n v : Nat) : List Bool := List.replicate n false ++ true :: encBits n v

def encUe (k : Nat) : List Bool :=
  let n := Nat.log2 (k + 1)
  encUe' n (k + 1 - 2^n)

@[simp] theorem encBits_length (n v) : (encBits n v).length = n := by
  induction n generalizing v with
  | zero => rfl
  | succ n ih => simp [encBits, ih]

theorem readBits_enc (name) (n v : Nat) (h : v < 2^n) (rest : List Bool) (fin) :
    readBits name n ⟨encBits n v ++ rest, fin⟩ = .ok (v, ⟨rest, fin⟩) := by
  induction n generalizing v rest with
  | zero => simp [readBits, encBits] ; omega
  | succ n ih =>
    have hpos : 0 < 2^n := Nat.two_pow_pos n
    have hlt : v % 2^n < 2^n := Nat.mod_lt _ hpos
    simp only [readBits, encBits, bind_run, readBit, List.cons_append, ih _ hlt, pure_run]
    have : v < 2 * 2^n := by rw [Nat.pow_succ] at h; omega
    by_cases hc : 2^n ≤ v
    · simp [hc]; rw [Nat.mod_eq_sub_mod hc, Nat.mod_eq_of_lt (by omega)]; omega
    · simp [hc]; exact Nat.mod_eq_of_lt (by omega)

/-- converse: whatever `readBits` accepts is the canonical encoding of the value it returns -/
theorem readBits_exact (name) (n : Nat) (s s' : Src) (v : Nat)
    (h : readBits name n s = .ok (v, s')) :
    v < 2^n ∧ s.bits = encBits n v ++ s'.bits ∧ s'.fin = s.fin := by
  induction n generalizing s s' v with
  | zero => simp [readBits] at h; obtain ⟨rfl, rfl⟩ := h; simp [encBits]
  | succ n ih =>
    simp only [readBits] at h
    rw [bind_ok_iff] at h
    obtain ⟨b, s1, hb, h⟩ := h
    rw [bind_ok_iff] at h
    obtain ⟨r, s2, hr, h⟩ := h
    simp at h
    obtain ⟨rfl, rfl⟩ := h
    obtain ⟨hr1, hr2, hr3⟩ := ih _ _ _ hr
    unfold readBit at hb
    have hpos : 0 < 2^n := Nat.two_pow_pos n
    split at hb
    · rename_i b' bs hbits
      simp at hb; obtain ⟨rfl, rfl⟩ := hb
      simp at hr2 hr3
      refine ⟨?_, ?_, hr3⟩
      · rw [Nat.pow_succ]; cases b' <;> simp <;> omega
      · rw [hbits, hr2]
        cases b' <;> simp [encBits]
        · constructor
          · omega
          · rw [Nat.mod_eq_of_lt hr1]
        · rw [Nat.mod_eq_of_lt hr1]
    · simp at hb

theorem unaryGo_enc (name fin) (n : Nat) (rest : List Bool) (acc : Nat) :
    unaryGo name fin (List.replicate n false ++ true :: rest) acc = .ok (acc + n, ⟨rest, fin⟩) := by
  induction n generalizing acc with
  | zero => simp [unaryGo]
  | succ n ih => simp [List.replicate_succ, unaryGo, ih]; omega

theorem readUnary1_enc (name) (n : Nat) (rest : List Bool) (fin) :
    readUnary1 name ⟨List.replicate n false ++ true :: rest, fin⟩ = .ok (n, ⟨rest, fin⟩) := by
  simp [readUnary1, unaryGo_enc]

theorem unaryGo_exact (name fin) (bits : List Bool) (acc n : Nat) (s' : Src)
    (h : unaryGo name fin bits acc = .ok (n, s')) :
    acc ≤ n ∧ bits = List.replicate (n - acc) false ++ true :: s'.bits ∧ s'.fin = fin := by
  induction bits generalizing acc with
  | nil => simp [unaryGo] at h
  | cons b bs ih =>
    cases b with
    | true => simp [unaryGo] at h; obtain ⟨rfl, rfl⟩ := h; simp
    | false =>
      simp only [unaryGo] at h
      obtain ⟨h1, h2, h3⟩ := ih _ h
      refine ⟨by omega, ?_, h3⟩
      have : n - acc = (n - (acc + 1)) + 1 := by omega
      rw [this, List.replicate_succ, h2]; simp

theorem readUe'_enc (name) (n v : Nat) (hn : n ≤ 31) (hv : v < 2^n) (rest fin) :
    readUe name ⟨encUe' n v ++ rest, fin⟩ = .ok (2^n - 1 + v, ⟨rest, fin⟩) := by
  unfold readUe encUe'
  simp only [bind_run, List.append_assoc, List.cons_append, readUnary1_enc]
  have : ¬ n > 31 := by omega
  simp only [this, if_false]
  by_cases h0 : n > 0
  · simp [h0, readBits_enc _ _ _ hv]
  · have : n = 0 := by omega
    subst this; simp at hv; subst hv; simp [encBits]

theorem log2_spec (m : Nat) (h : 0 < m) : 2 ^ Nat.log2 m ≤ m ∧ m < 2 ^ (Nat.log2 m + 1) :=
  ⟨Nat.log2_self_le (by omega), Nat.lt_log2_self⟩

theorem readUe_enc (name) (k : Nat) (h : k < 2^32 - 1) (rest : List Bool) (fin) :
    readUe name ⟨encUe k ++ rest, fin⟩ = .ok (k, ⟨rest, fin⟩) := by
  unfold encUe
  obtain ⟨h1, h2⟩ := log2_spec (k + 1) (by omega)
  have hn : Nat.log2 (k + 1) ≤ 31 := by
    apply Nat.le_of_lt_succ
    apply (Nat.pow_lt_pow_iff_right (a := 2) (by omega)).mp
    omega
  have hv : k + 1 - 2 ^ Nat.log2 (k + 1) < 2 ^ Nat.log2 (k + 1) := by
    rw [Nat.pow_succ] at h2; omega
  simp only []
  rw [readUe'_enc _ _ _ hn hv]
  congr 2
  have := Nat.two_pow_pos (Nat.log2 (k+1))
  omega


theorem encUe_eq (n v : Nat) (hv : v < 2^n) : encUe (2^n - 1 + v) = encUe' n v := by
  unfold encUe
  have hpos := Nat.two_pow_pos n
  have h1 : 2^n - 1 + v + 1 = 2^n + v := by omega
  have hlog : Nat.log2 (2^n - 1 + v + 1) = n := by
    rw [h1]
    apply (Nat.log2_eq_iff (by omega)).mpr
    rw [Nat.pow_succ]; omega
  show encUe' (Nat.log2 (2^n - 1 + v + 1)) (2^n - 1 + v + 1 - 2^(Nat.log2 (2^n - 1 + v + 1))) = encUe' n v
  rw [hlog]
  congr 1
  omega

/-- converse for `ue(v)`: an accepted codeword is the canonical codeword of the returned value -/
theorem readUe_exact (name) (s s' : Src) (k : Nat) (h : readUe name s = .ok (k, s')) :
    k < 2^32 - 1 ∧ s.bits = encUe k ++ s'.bits ∧ s'.fin = s.fin := by
  unfold readUe at h
  rw [bind_ok_iff] at h
  obtain ⟨count, s1, hu, h⟩ := h
  obtain ⟨_, hb1, hf1⟩ := unaryGo_exact name s.fin s.bits 0 count s1 hu
  simp only [Nat.sub_zero] at hb1
  by_cases hc : count > 31
  · simp [hc] at h
  · simp only [hc, ↓reduceIte] at h
    by_cases h0 : count > 0
    · simp only [h0, ↓reduceIte] at h
      rw [bind_ok_iff] at h
      obtain ⟨v, s2, hr, h⟩ := h
      simp at h
      obtain ⟨rfl, rfl⟩ := h
      obtain ⟨hv, hb2, hf2⟩ := readBits_exact name count s1 s2 v hr
      refine ⟨?_, ?_, by rw [hf2, hf1]⟩
      · have : 2^count ≤ 2^31 := Nat.pow_le_pow_right (by omega) (by omega)
        omega
      · rw [encUe_eq count v hv, hb1, hb2]; simp [encUe']
    · have hz : count = 0 := by omega
      subst hz
      simp at h
      obtain ⟨rfl, rfl⟩ := h
      refine ⟨by omega, ?_, hf1⟩
      have hl : Nat.log2 (0 + 1) = 0 := by decide
      rw [hb1]; simp [encUe, encUe', hl, encBits]

/-! ### u(1) -/
def readBool (name : String) : P Bool := readBit name
def encBool (b : Bool) : List Bool := [b]

@[simp] theorem readBool_enc (name) (b : Bool) (rest fin) :
    readBool name ⟨encBool b ++ rest, fin⟩ = .ok (b, ⟨rest, fin⟩) := by
  simp [readBool, readBit, encBool]

theorem readBool_exact (name) (s s' : Src) (b : Bool) (h : readBool name s = .ok (b, s')) :
    s.bits = encBool b ++ s'.bits ∧ s'.fin = s.fin := by
  unfold readBool readBit at h
  split at h
  · rename_i b' bs hb; simp at h; obtain ⟨rfl, rfl⟩ := h; simp [encBool, hb]
  · simp at h

/-! ### se(v) -/

/-- mathematical mapping of 9.1.1: codeNum k ↦ (−1)^(k+1) ⌈k/2⌉ -/
def seOfUe (k : Nat) : Int := if k % 2 = 1 then ((k + 1) / 2 : Nat) else -((k / 2 : Nat) : Int)
def ueOfSe (v : Int) : Nat := if v > 0 then (2 * v - 1).toNat else (-2 * v).toNat

def readSe (name : String) : P Int := do
  let k ← readUe name
  pure (seOfUe k)

def encSe (v : Int) : List Bool := encUe (ueOfSe v)

theorem seOfUe_ueOfSe (v : Int) : seOfUe (ueOfSe v) = v := by
  unfold seOfUe ueOfSe
  by_cases h : v > 0
  · simp only [h, ↓reduceIte]
    have : (2 * v - 1).toNat % 2 = 1 := by omega
    simp only [this, ↓reduceIte]; omega
  · simp only [h, ↓reduceIte]
    have : (-2 * v).toNat % 2 = 0 := by omega
    simp [this]; omega

theorem ueOfSe_seOfUe (k : Nat) : ueOfSe (seOfUe k) = k := by
  unfold seOfUe ueOfSe
  by_cases h : k % 2 = 1
  · simp only [h, ↓reduceIte]
    have : ((((k + 1) / 2 : Nat) : Int) > 0) := by omega
    simp only [this, ↓reduceIte]; omega
  · simp only [h, ↓reduceIte]
    have : ¬ (-((k / 2 : Nat) : Int) > 0) := by omega
    simp only [this, ↓reduceIte]; omega

/-- the `se(v)` values the 32-bit code space can carry -/
def SeRange (v : Int) : Prop := -(2^31 - 1) ≤ v ∧ v ≤ 2^31 - 1

theorem readSe_enc (name) (v : Int) (h : SeRange v) (rest fin) :
    readSe name ⟨encSe v ++ rest, fin⟩ = .ok (v, ⟨rest, fin⟩) := by
  have hk : ueOfSe v < 2^32 - 1 := by
    unfold ueOfSe; obtain ⟨h1, h2⟩ := h; split <;> omega
  simp [readSe, encSe, readUe_enc _ _ hk, seOfUe_ueOfSe]

theorem readSe_exact (name) (s s' : Src) (v : Int) (h : readSe name s = .ok (v, s')) :
    SeRange v ∧ s.bits = encSe v ++ s'.bits ∧ s'.fin = s.fin := by
  unfold readSe at h
  rw [bind_ok_iff] at h
  obtain ⟨k, s1, hk, h⟩ := h
  simp at h; obtain ⟨rfl, rfl⟩ := h
  obtain ⟨h1, h2, h3⟩ := readUe_exact _ _ _ _ hk
  refine ⟨?_, by rw [encSe, ueOfSe_seOfUe]; exact h2, h3⟩
  unfold SeRange seOfUe; split <;> omega

/-! ### more_rbsp_data / trailing bits (C14) -/

/-- `has_more_rbsp_data`: on a clone, skip one bit and look for a 1 -/
def hasMore (name : String) : P Bool := fun s =>
  match s.bits with
  | [] => if s.fin = .eof then .ok (false, s) else .error (.io name s.fin)
  | _ :: rest =>
    if rest.any id then .ok (true, s)
    else if s.fin = .eof then .ok (false, s) else .error (.io name s.fin)

/-- `finish_rbsp` -/
def finishRbsp : P Unit := fun s =>
  match s.bits with
  | [] => .error (.io "finish" s.fin)
  | false :: rest => if rest.any id then .error .remaining else .error (.io "finish" s.fin)
  | true :: rest =>
    if rest.any id then .error .remaining
    else if s.fin = .eof then .ok ((), ⟨[], s.fin⟩) else .error (.io "finish" s.fin)

/-- `finish_sei_payload` -/
def finishSei : P Unit := fun s =>
  match s.bits with
  | [] => if s.fin = .eof then .ok ((), s) else .error (.io "finish" s.fin)
  | false :: _ => .error .remaining
  | true :: rest =>
    if rest.any id then .error .remaining
    else if s.fin = .eof then .ok ((), ⟨[], s.fin⟩) else .error (.io "finish" s.fin)

/-- **C14**: the query is true exactly when a 1 bit lies strictly after the current bit; it never moves the reader -/
theorem hasMore_spec (name) (s : Src) (h : s.fin = .eof) :
    hasMore name s = .ok (decide (∃ b ∈ s.bits.drop 1, b = true), s) := by
  unfold hasMore
  cases hb : s.bits with
  | nil => simp [h]
  | cons b rest =>
    simp only [List.drop_succ_cons, List.drop_zero]
    by_cases ha : rest.any id
    · simp only [ha, ↓reduceIte]
      have : ∃ b ∈ rest, b = true := by simpa using ha
      simp [this]
    · simp only [ha, h, ↓reduceIte]
      have : ¬ ∃ b ∈ rest, b = true := by simpa using ha
      simp [this]

/-- **C14**: finishing succeeds exactly on `1 0*` -/
theorem finishRbsp_ok_iff (s : Src) (h : s.fin = .eof) :
    (∃ r, finishRbsp s = .ok r) ↔ ∃ n, s.bits = true :: List.replicate n false := by
  unfold finishRbsp
  cases hb : s.bits with
  | nil => simp
  | cons b rest =>
    cases b with
    | false => simp; split <;> simp
    | true =>
      simp only [h, ↓reduceIte]
      by_cases ha : rest.any id
      · simp only [ha, ↓reduceIte]
        constructor
        · rintro ⟨r, hr⟩; simp at hr
        · rintro ⟨n, hn⟩
          simp at hn; subst hn
          simp at ha
      · simp only [ha, ↓reduceIte]
        constructor
        · intro _
          refine ⟨rest.length, ?_⟩
          congr 1
          apply List.eq_replicate_iff.mpr
          refine ⟨rfl, ?_⟩
          intro b hb
          cases b with
          | false => rfl
          | true => exact absurd (List.any_eq_true.mpr ⟨true, hb, rfl⟩) ha
        · intro _; exact ⟨_, rfl⟩

#print axioms readUe_exact
#print axioms readSe_enc
#print axioms finishRbsp_ok_iff
end Bits
