import H264.AnnexBL0
namespace AnnexB
open St

def bytesEv (l : List UInt8) : List Ev := l.map Ev.byte

/-- loop invariant of `push`: `C` = bytes of the open unit seen so far that are committed
(not held back) but not yet handed to the handler -/
def LoopInv (buf : List UInt8) (i : Nat) (st : St) (fs : Option (Nat × Nat)) (C : List UInt8) : Prop :=
  i ≤ buf.length ∧
  match backtrack st, fs with
  | none, none => C = []
  | some bt, some (fake, from_) =>
      from_ ≤ i ∧ zeros fake ++ (buf.take i).drop from_ = C ++ zeros bt ∧ (C = [] ∨ from_ + bt < i)
  | _, _ => False

theorem events_append (a b : List Call) : events (a ++ b) = events a ++ events b := by
  simp [events]

theorem zeros_succ (n : Nat) : zeros (n+1) = zeros n ++ [0] := by
  simp [zeros, List.replicate_succ']

theorem drop_take_split {α} (L : List α) (a m : Nat) (h : a ≤ m) :
    L.drop a = (L.take m).drop a ++ L.drop m := by
  conv => lhs; rw [← List.take_append_drop m L]
  rw [List.drop_append]
  congr 1
  by_cases h2 : a ≤ (L.take m).length
  · have : a - (L.take m).length = 0 := by omega
    rw [this]; rfl
  · rw [List.length_take] at h2
    have : L.length ≤ m := by omega
    rw [List.drop_eq_nil_of_le this]; simp

/-- what `maybe_emit` hands out is exactly the committed bytes -/
theorem maybeEmit_events (buf : List UInt8) (i bt fake from_ : Nat) (C : List UInt8) (isEnd : Bool)
    (hi : i ≤ buf.length) (hf : from_ ≤ i)
    (hW : zeros fake ++ (buf.take i).drop from_ = C ++ zeros bt) (hC : C = [] ∨ from_ + bt < i) :
    events (maybeEmit buf (some (fake, from_)) i bt isEnd) = bytesEv C ++ (if isEnd then [Ev.endUnit] else []) := by
  unfold maybeEmit
  by_cases hlt : from_ + bt < i
  · simp only [hlt, ↓reduceIte]
    -- body = buf[from .. i-bt]
    have hsplit : (buf.take i).drop from_ = (buf.take (i - bt)).drop from_ ++ (buf.take i).drop (i - bt) := by
      have h1 : buf.take (i - bt) = (buf.take i).take (i - bt) := by
        rw [List.take_take]; congr 1; omega
      rw [h1]
      exact drop_take_split _ _ _ (by omega)
    have hlen : ((buf.take i).drop (i - bt)).length = bt := by
      rw [List.length_drop, List.length_take]; omega
    rw [hsplit, ← List.append_assoc] at hW
    have hC' : zeros fake ++ (buf.take (i - bt)).drop from_ = C :=
      (List.append_inj' hW (by rw [hlen]; simp [zeros])).1
    by_cases hfk : fake > 0
    · simp only [hfk, ↓reduceIte, events, Call.events, List.map_cons, List.map_nil, List.flatten_cons,
        List.flatten_nil, List.append_nil]
      rw [← hC']; simp [bytesEv]
    · have : fake = 0 := by omega
      subst this
      simp only [Nat.lt_irrefl, ↓reduceIte, events, Call.events, List.map_cons, List.map_nil,
        List.flatten_cons, List.flatten_nil, List.append_nil]
      rw [← hC']; simp [bytesEv, zeros]
  · have hCnil : C = [] := by
      rcases hC with h | h
      · exact h
      · exact absurd h hlt
    subst hCnil
    simp only [hlt, ↓reduceIte, bytesEv, List.map_nil, List.nil_append]
    cases isEnd <;> simp [events, Call.events]

end AnnexB

namespace AnnexB
open St

theorem take_succ_of_split (done : List UInt8) (b : UInt8) (rest : List UInt8) :
    (done ++ b :: rest).take (done.length + 1) = (done ++ b :: rest).take done.length ++ [b] := by
  have h1 : (done ++ b :: rest).take done.length = done := by simp
  have h2 : (done ++ b :: rest).take (done.length + 1) = done ++ [b] := by
    rw [List.take_append]; simp [List.take_of_length_le]
  rw [h1, h2]

/-- extending the window by one byte -/
theorem window_succ (buf : List UInt8) (i from_ : Nat) (b : UInt8) (hf : from_ ≤ i)
    (ht : buf.take (i+1) = buf.take i ++ [b]) (hi : i ≤ buf.length) :
    (buf.take (i+1)).drop from_ = (buf.take i).drop from_ ++ [b] := by
  rw [ht, List.drop_append_of_le_length (by rw [List.length_take]; omega)]

theorem pushGo_spec (buf : List UInt8) (rest : List UInt8) :
    ∀ (done : List UInt8), buf = done ++ rest →
    ∀ (st : St) (fs : Option (Nat × Nat)) (calls : List Call) (C : List UInt8),
    LoopInv buf done.length st fs C →
    ∃ C', LoopInv buf buf.length (pushGo buf rest done.length st fs calls).1
            (pushGo buf rest done.length st fs calls).2.1 C' ∧
      (pushGo buf rest done.length st fs calls).1 = (run st rest).1 ∧
      events (pushGo buf rest done.length st fs calls).2.2 ++ bytesEv C'
        = events calls ++ bytesEv C ++ (run st rest).2 := by
  induction rest with
  | nil =>
    intro done hb st fs calls C hinv
    have : buf.length = done.length := by rw [hb]; simp
    refine ⟨C, ?_, ?_, ?_⟩
    · simp only [pushGo]; rw [this]; exact hinv
    · simp [pushGo, run]
    · simp [pushGo, run]
  | cons b rest ih =>
    intro done hb st fs calls C hinv
    have hb' : buf = (done ++ [b]) ++ rest := by rw [hb]; simp
    have hlen' : (done ++ [b]).length = done.length + 1 := by simp
    have hi1 : done.length + 1 ≤ buf.length := by rw [hb]; simp
    have htk : buf.take (done.length + 1) = buf.take done.length ++ [b] := by
      rw [hb]; exact take_succ_of_split done b rest
    obtain ⟨hile, hm⟩ := hinv
    -- helper to finish a case once the next-state invariant and event equation are known
    have fin : ∀ (st1 : St) (fs1 : Option (Nat × Nat)) (newcalls : List Call) (C1 : List UInt8) (evs : List Ev),
        LoopInv buf (done.length + 1) st1 fs1 C1 →
        events newcalls ++ bytesEv C1 = bytesEv C ++ evs →
        ∃ C', LoopInv buf buf.length (pushGo buf rest (done.length+1) st1 fs1 (calls ++ newcalls)).1
              (pushGo buf rest (done.length+1) st1 fs1 (calls ++ newcalls)).2.1 C' ∧
          (pushGo buf rest (done.length+1) st1 fs1 (calls ++ newcalls)).1 = (run st1 rest).1 ∧
          events (pushGo buf rest (done.length+1) st1 fs1 (calls ++ newcalls)).2.2 ++ bytesEv C'
            = events calls ++ bytesEv C ++ (evs ++ (run st1 rest).2) := by
      intro st1 fs1 newcalls C1 evs hinv1 hev
      have := ih (done ++ [b]) hb' st1 fs1 (calls ++ newcalls) C1 (by rw [hlen']; exact hinv1)
      rw [hlen'] at this
      obtain ⟨C', h1, h2, h3⟩ := this
      refine ⟨C', h1, h2, ?_⟩
      rw [h3, events_append]
      simp only [List.append_assoc]
      congr 1
      rw [← List.append_assoc, hev, List.append_assoc]
    -- shape of the goal after one unfolding of `run`
    have runStep : ∀ (st1 : St) (evs : List Ev), step st b = (st1, evs) →
        run st (b :: rest) = ((run st1 rest).1, evs ++ (run st1 rest).2) := by
      intro st1 evs h; simp [run, h]
    cases st with
    | start =>
      cases fs with
      | some p => simp [LoopInv, backtrack] at hm
      | none =>
        simp only [backtrack] at hm
        by_cases h0 : b = 0
        · have := fin start1 none [] [] [] ⟨hi1, by simp [backtrack]⟩ (by simp [hm, events, bytesEv])
          rw [runStep start1 [] (by simp [step, h0])]
          simpa [pushGo, h0] using this
        · have := fin start none [] [] [] ⟨hi1, by simp [backtrack]⟩ (by simp [hm, events, bytesEv])
          rw [runStep start [] (by simp [step, h0])]
          simpa [pushGo, h0] using this
    | start1 =>
      cases fs with
      | some p => simp [LoopInv, backtrack] at hm
      | none =>
        simp only [backtrack] at hm
        by_cases h0 : b = 0
        · have := fin start2 none [] [] [] ⟨hi1, by simp [backtrack]⟩ (by simp [hm, events, bytesEv])
          rw [runStep start2 [] (by simp [step, h0])]
          simpa [pushGo, h0] using this
        · have := fin start none [] [] [] ⟨hi1, by simp [backtrack]⟩ (by simp [hm, events, bytesEv])
          rw [runStep start [] (by simp [step, h0])]
          simpa [pushGo, h0] using this
    | start2 =>
      cases fs with
      | some p => simp [LoopInv, backtrack] at hm
      | none =>
        simp only [backtrack] at hm
        by_cases h0 : b = 0
        · have := fin start2 none [] [] [] ⟨hi1, by simp [backtrack]⟩ (by simp [hm, events, bytesEv])
          rw [runStep start2 [] (by simp [step, h0])]
          simpa [pushGo, h0] using this
        · by_cases h1 : b = 1
          · have := fin inUnit (some (0, done.length + 1)) [] [] []
              ⟨hi1, by simp [backtrack, zeros]⟩ (by simp [hm, events, bytesEv])
            rw [runStep inUnit [] (by simp [step, h0, h1])]
            simpa [pushGo, h0, h1] using this
          · have := fin start none [] [] [] ⟨hi1, by simp [backtrack]⟩ (by simp [hm, events, bytesEv])
            rw [runStep start [] (by simp [step, h0, h1])]
            simpa [pushGo, h0, h1] using this
    | inUnit =>
      cases fs with
      | none => simp [LoopInv, backtrack] at hm
      | some p =>
        obtain ⟨fake, from_⟩ := p
        simp only [backtrack] at hm
        obtain ⟨hf, hW, hC⟩ := hm
        have hw := window_succ buf done.length from_ b hf htk hile
        by_cases h0 : b = 0
        · subst h0
          have := fin inUnit1 (some (fake, from_)) [] C []
            ⟨hi1, by
              simp only [backtrack]
              refine ⟨by omega, ?_, ?_⟩
              · rw [hw, ← List.append_assoc, hW]; simp [zeros]
              · rcases hC with h | h
                · exact Or.inl h
                · right; omega⟩ (by simp [events])
          rw [runStep inUnit1 [] (by simp [step])]
          simpa [pushGo] using this
        · have := fin inUnit (some (fake, from_)) [] (C ++ [b]) [Ev.byte b]
            ⟨hi1, by
              simp only [backtrack]
              refine ⟨by omega, ?_, Or.inr (by omega)⟩
              rw [hw, ← List.append_assoc, hW]; simp [zeros]⟩ (by simp [events, bytesEv])
          rw [runStep inUnit [Ev.byte b] (by simp [step, h0])]
          simpa [pushGo, h0] using this
    | inUnit1 =>
      cases fs with
      | none => simp [LoopInv, backtrack] at hm
      | some p =>
        obtain ⟨fake, from_⟩ := p
        simp only [backtrack] at hm
        obtain ⟨hf, hW, hC⟩ := hm
        have hw := window_succ buf done.length from_ b hf htk hile
        by_cases h0 : b = 0
        · subst h0
          have := fin inUnit2 (some (fake, from_)) [] C []
            ⟨hi1, by
              simp only [backtrack]
              refine ⟨by omega, ?_, ?_⟩
              · rw [hw, ← List.append_assoc, hW]; simp [zeros]
              · rcases hC with h | h
                · exact Or.inl h
                · right; omega⟩ (by simp [events])
          rw [runStep inUnit2 [] (by simp [step])]
          simpa [pushGo] using this
        · have := fin inUnit (some (fake, from_)) [] (C ++ [0, b]) [Ev.byte 0, Ev.byte b]
            ⟨hi1, by
              simp only [backtrack]
              refine ⟨by omega, ?_, Or.inr (by omega)⟩
              rw [hw, ← List.append_assoc, hW]; simp [zeros]⟩ (by simp [events, bytesEv])
          rw [runStep inUnit [Ev.byte 0, Ev.byte b] (by simp [step, h0])]
          simpa [pushGo, h0] using this
    | inUnit2 =>
      cases fs with
      | none => simp [LoopInv, backtrack] at hm
      | some p =>
        obtain ⟨fake, from_⟩ := p
        simp only [backtrack] at hm
        obtain ⟨hf, hW, hC⟩ := hm
        have hw := window_succ buf done.length from_ b hf htk hile
        have hem := maybeEmit_events buf done.length 2 fake from_ C true hile hf hW hC
        by_cases h0 : b = 0
        · subst h0
          have := fin start2 none (maybeEmit buf (some (fake, from_)) done.length 2 true) [] [Ev.endUnit]
            ⟨hi1, by simp [backtrack]⟩ (by rw [hem]; simp [bytesEv])
          rw [runStep start2 [Ev.endUnit] (by simp [step])]
          simpa [pushGo] using this
        · by_cases h1 : b = 1
          · subst h1
            have := fin inUnit (some (0, done.length + 1))
              (maybeEmit buf (some (fake, from_)) done.length 2 true) [] [Ev.endUnit]
              ⟨hi1, by simp [backtrack, zeros]⟩ (by rw [hem]; simp [bytesEv])
            rw [runStep inUnit [Ev.endUnit] (by simp [step])]
            simpa [pushGo] using this
          · have := fin inUnit (some (fake, from_)) [] (C ++ [0, 0, b]) [Ev.byte 0, Ev.byte 0, Ev.byte b]
              ⟨hi1, by
                simp only [backtrack]
                refine ⟨by omega, ?_, Or.inr (by omega)⟩
                rw [hw, ← List.append_assoc, hW]; simp [zeros]⟩ (by simp [events, bytesEv])
            rw [runStep inUnit [Ev.byte 0, Ev.byte 0, Ev.byte b] (by simp [step, h0, h1])]
            simpa [pushGo, h0, h1] using this

end AnnexB

namespace AnnexB
open St

/-- C01 core: one `push` hands the handler exactly the events of the byte-level machine -/
theorem push_refines_run (st : St) (buf : List UInt8) :
    (push st buf).1 = (run st buf).1 ∧ events (push st buf).2 = (run st buf).2 := by
  have hinit : LoopInv buf ([] : List UInt8).length st ((backtrack st).map fun b => (b, 0)) [] := by
    refine ⟨by simp, ?_⟩
    cases st <;> simp [backtrack, zeros]
  obtain ⟨C', h1, h2, h3⟩ := pushGo_spec buf buf [] (by simp) st _ [] [] hinit
  simp only [List.length_nil] at h1 h2 h3
  obtain ⟨hle, hm⟩ := h1
  cases hbt : backtrack (pushGo buf buf 0 st ((backtrack st).map fun b => (b, 0)) []).1 with
  | none =>
    rw [hbt] at hm
    simp only [push, hbt]
    cases hfs : (pushGo buf buf 0 st ((backtrack st).map fun b => (b, 0)) []).2.1 with
    | some p => rw [hfs] at hm; simp at hm
    | none =>
      rw [hfs] at hm
      simp only at hm
      subst hm
      refine ⟨h2, ?_⟩
      simpa [events, bytesEv] using h3
  | some bt =>
    rw [hbt] at hm
    simp only [push, hbt]
    cases hfs : (pushGo buf buf 0 st ((backtrack st).map fun b => (b, 0)) []).2.1 with
    | none => rw [hfs] at hm; simp at hm
    | some p =>
      obtain ⟨fake, from_⟩ := p
      rw [hfs] at hm
      simp only at hm
      obtain ⟨hf, hW, hC⟩ := hm
      refine ⟨h2, ?_⟩
      rw [events_append, maybeEmit_events buf buf.length bt fake from_ C' false (Nat.le_refl _) hf hW hC]
      simpa [events, bytesEv] using h3

#print axioms push_refines_run
end AnnexB
