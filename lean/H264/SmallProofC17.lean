import H264.SmallNalDefs
/-! four NAL units as every prefix (C17) -/
namespace SmallProof
open Bits

def prefixInputs : List (Nat × Nat) :=
  (List.range 4).flatMap fun k => (List.range (nalBytes k).length).map fun l => (k, l + 1)

/-- model = real code on every prefix: an SPS, a PPS, a P-slice and a two-message SEI NAL, each presented as every proper prefix
(incomplete) and complete: the model parsers over the model byte reader block, accept (with the same id / frame_num / number of
messages) or refuse exactly where the real parsers did in this run's graph -/
theorem prefixes_model_eq_code : prefixInputs.map (fun x => prefixRow x.1 x.2) = Generated.prefixRows := by decide +kernel

end SmallProof
