import H264.GeneratedTables
/-! theorems over the function graphs extracted from the running code: parameter-set id wrappers (a module of its own, so that a broken table of another
property does not take this one down) -/
namespace C20
open Generated

theorem id_wrappers : ∀ p ∈ idProbes,
    p.2.1 = (if p.1 ≤ 31 then some p.1 else none) ∧ p.2.2 = (if p.1 ≤ 255 then some p.1 else none) := by
  decide +kernel

end C20
