import H264.SpsStd
import H264.Render
/-! Prototype: Lean-side generator — random well-formed SPS values, encoded with the *standard's* encoder,
with the expected `Debug` text. The Rust harness parses the bytes with the real code and compares. -/
namespace Gen
open Sps Bits

instance : Inhabited OverscanAppropriate := ⟨.unspecified⟩

structure Rng where s : UInt64
def Rng.next (r : Rng) : Rng × Nat :=
  let x := r.s
  let x := x ^^^ (x <<< 13)
  let x := x ^^^ (x >>> 7)
  let x := x ^^^ (x <<< 17)
  (⟨x⟩, x.toNat)
abbrev G := StateM Rng
def nat (n : Nat) : G Nat := do let r ← get; let (r', v) := r.next; set r'; pure (v % n)
def flag : G Bool := do let v ← nat 2; pure (v = 1)
def pick {α} [Inhabited α] (xs : List α) : G α := do let i ← nat xs.length; pure (xs.getD i default)
def ueVal : G Nat := do
  let k ← nat 10
  if k = 0 then pick [255, 256, 65535, 65536, 2147483647, 2147483648, 4294967294]
  else if k < 3 then nat 40 else nat 4
def seVal (lim : Nat) : G Int := do
  let k ← nat 8
  if k = 0 then pure (lim : Int) else if k = 1 then pure (-(lim : Int))
  else if k = 2 then pure 2147483647 else if k = 3 then pure (-2147483647)
  else do let v ← nat (2 * lim + 1); pure ((v : Int) - lim)
def listOf {α} (n : Nat) (g : G α) : G (List α) := (List.range n).mapM fun _ => g
def optOf {α} (g : G α) : G (Option α) := do let f ← flag; if f then (do let a ← g; pure (some a)) else pure none

/-- a coded scaling list (deltas) that the standard's process accepts, and its derived list -/
def genDeltas (size : Nat) : G (Option (List Int)) := do
  let present ← nat 3
  if present = 0 then return none
  let mut last : Int := 8
  let mut next : Int := 8
  let mut ds : List Int := []
  for _ in List.range size do
    if next != 0 then
      let k ← nat 40
      let d : Int ← (if k = 0 then pure (-last) else if k = 1 then pure 127 else if k = 2 then pure (-128)
        else if k = 3 then pure (256 - last - 1) else do let v ← nat 9; pure ((v : Int) - 4))
      let d := if d < -128 then -128 else if d > 127 then 127 else d
      ds := ds ++ [d]
      next := (last + d + 256) % 256
    last := if next = 0 then last else next
  return some ds

def genHrd : G Hrd := do
  let cnt ← pick [1, 1, 2, 3, 32]
  let specs ← listOf cnt (do let a ← ueVal; let b ← ueVal; let c ← flag; pure (⟨a, b, c⟩ : CpbSpec))
  pure ⟨← nat 16, ← nat 16, specs, ← nat 32, ← nat 32, ← nat 32, ← nat 32⟩

def genVui (maxRef : Nat) : G Vui := do
  let ar ← optOf (do let k ← nat 4; if k = 0 then (do pure (AspectRatioInfo.extended (← nat 65536) (← nat 65536)))
                      else (do pure (AspectRatioInfo.idc (← pick [0, 1, 13, 16, 17, 100, 254]))))
  let os ← pick [OverscanAppropriate.unspecified, .appropriate, .inappropriate]
  let vs ← optOf (do pure (⟨← nat 8, ← flag, ← optOf (do pure ⟨← nat 256, ← nat 256, ← nat 256⟩)⟩ : VideoSignalType))
  let cl ← optOf (do pure (⟨← nat 6, ← nat 6⟩ : ChromaLocInfo))
  let ti ← optOf (do pure (⟨← pick [0, 1, 1001, 4294967295], ← pick [0, 50, 60000, 4294967295], ← flag⟩ : TimingInfo))
  let nal ← (do let k ← nat 3; if k = 0 then (do pure (some (← genHrd))) else pure none)
  let vcl ← (do let k ← nat 3; if k = 0 then (do pure (some (← genHrd))) else pure none)
  let ld ← if nal.isSome || vcl.isSome then (do pure (some (← flag))) else pure none
  let ps ← flag
  let br ← optOf (do
    let r ← nat 6
    let m ← nat 6
    pure (⟨← flag, ← pick [0, 2, 16], ← pick [0, 1, 16], ← pick [0, 15, 16], ← pick [0, 15, 16], r, r + maxRef + m⟩ : BitstreamRestrictions))
  pure ⟨ar, os, vs, cl, ti, nal, vcl, ld, ps, br⟩

def deriveList (size : Nat) (sl : Option (List Int)) : ScalingList := (specScalingList size sl).getD .notPresent

def genSps : G (Sps × Option ScalingSyntax) := do
  let profile ← pick [66, 77, 88, 100, 110, 122, 244, 44, 83, 86]
  let hasCi := hasChromaInfo profile
  let idc ← if hasCi then pick [0, 1, 1, 2, 3, 3] else pure 1
  let sep ← if hasCi && idc = 3 then flag else pure false
  let smPresent : Bool ← if hasCi then (do let k ← nat 3; pure (decide (k = 0))) else pure false
  let count := if idc = 3 then 12 else 8
  let sm : Option ScalingSyntax ← if smPresent then
      (do let l ← (List.range count).mapM fun i => genDeltas (if i < 6 then 16 else 64); pure (some l)) else pure none
  let matrix : Option SeqScalingMatrix := sm.map fun ls =>
    ⟨(ls.take 6).map (deriveList 16), (ls.drop 6).map (deriveList 64)⟩
  let ci : ChromaInfo ← if hasCi then
      (do pure ⟨ChromaFormat.ofIdc idc, sep, ← nat 7, ← nat 7, ← flag, matrix⟩) else pure {}
  let pocT ← nat 3
  let poc ← if pocT = 0 then (do pure (PicOrderCntType.typeZero (← nat 13)))
    else if pocT = 1 then (do
      let n ← pick [0, 1, 2, 3, 255]
      pure (PicOrderCntType.typeOne (← flag) (← seVal 100) (← seVal 100) (← listOf n (seVal 5))))
    else pure PicOrderCntType.typeTwo
  let maxRef ← nat 5
  let fmo ← flag
  let fm ← if fmo then pure FrameMbsFlags.frames else (do pure (FrameMbsFlags.fields (← flag)))
  let fc ← (do let k ← nat 3; if k = 0 then (do pure (some (⟨← ueVal, ← ueVal, ← ueVal, ← ueVal⟩ : FrameCropping))) else pure none)
  let vui ← (do let k ← nat 2; if k = 0 then (do pure (some (← genVui maxRef))) else pure none)
  let v : Sps := ⟨profile, ← nat 256, ← pick [10, 11, 30, 40, 51, 9, 255], ← pick [0, 1, 2, 31], ci, ← nat 13, poc, maxRef,
    ← flag, ← ueVal, ← ueVal, fm, ← flag, fc, vui⟩
  pure (v, sm)

def bytesGo : Nat → List Bool → List Nat
  | 0, _ => []
  | _, [] => []
  | fuel+1, l => (l.take 8).foldl (fun a b => a * 2 + b.toNat) 0 * 2 ^ (8 - (l.take 8).length) :: bytesGo fuel (l.drop 8)
def bytesOfBits (bits : List Bool) : List Nat := bytesGo (bits.length + 1) bits
def hexDigit (n : Nat) : Char := if n < 10 then Char.ofNat (48 + n) else Char.ofNat (87 + n)
def hexOfNats (bs : List Nat) : String := String.ofList (bs.flatMap fun b => [hexDigit (b / 16), hexDigit (b % 16)])

def spsCase : G (String × String) := do
  let (v, sm) ← genSps
  let z ← pick [0, 0, 8, 16]
  let bits := encSps v sm ++ trailing 0
  let pad := (8 - bits.length % 8) % 8
  let bits := bits ++ List.replicate (pad + z) false
  pure (s!"sps {hexOfNats (bytesOfBits bits)}", s!"Ok({Render.sps v})")

end Gen
