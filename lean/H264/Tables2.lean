import H264.GeneratedTables
import H264.Slice
import H264.PicTiming
/-! Theorems over the function graphs that the harness extracts *through the real parsers* (one coded field swept over
its whole domain, everything else fixed): the private tables of the code (`ProfileIdc::has_chroma_info`, Table E-1,
`video_format`, `chroma_format_idc`, the SEI payload-type table, Table D-1 `NumClockTS`, Table 7-6 `slice_type`)
are tied to the tables of the model / of the standard **by proof** — a change to one of them in the source changes
`Generated.*` and the kernel re-decides these statements on the next run. -/
namespace Tables2
open Generated

/-- `has_chroma_info` of the running code is the model's list, for all 256 `profile_idc` values -/
theorem hasChroma_eq_model : hasChroma.length = 256 ∧
    ∀ b : Fin 256, hasChroma.getD b.val 9 = (if Sps.hasChromaInfo b.val then 1 else 0) := by
  decide +kernel

/-- Table E-1 of the standard: aspect_ratio_idc ↦ sample aspect ratio (0 = unspecified / reserved) -/
def tableE1 : Nat → Nat × Nat
  | 1 => (1, 1) | 2 => (12, 11) | 3 => (10, 11) | 4 => (16, 11) | 5 => (40, 33) | 6 => (24, 11) | 7 => (20, 11)
  | 8 => (32, 11) | 9 => (80, 33) | 10 => (18, 11) | 11 => (15, 11) | 12 => (64, 33) | 13 => (160, 99)
  | 14 => (4, 3) | 15 => (3, 2) | 16 => (2, 1)
  | _ => (0, 0)

/-- every aspect_ratio_idc is parsed to its own distinct value (nothing is merged, so the coded value is recoverable),
and `get()` is Table E-1; `Extended_SAR` (255) returns the coded pair -/
theorem aspect_rows : aspect.length = 256 ∧
    (∀ b : Fin 256, (aspect.getD b.val (999,0,0)).1 = b.val) ∧
    (∀ b : Fin 256, (aspect.getD b.val (999,0,0)).2 = (if b.val = 255 then (0x1234, 0x0567) else tableE1 b.val)) := by
  decide +kernel
/-- (the extractor numbers distinct parsed values in order of first appearance, so "row b has number b" is exactly
"no two idc values are parsed to the same value") -/
theorem aspect_table : aspect.length = 256 ∧
    (∀ i j : Fin 256, (aspect.getD i.val (999,0,0)).1 = (aspect.getD j.val (999,0,0)).1 → i = j) ∧
    (∀ b : Fin 256, (aspect.getD b.val (999,0,0)).1 < 998) ∧
    (∀ b : Fin 256, (aspect.getD b.val (999,0,0)).2 = (if b.val = 255 then (0x1234, 0x0567) else tableE1 b.val)) := by
  obtain ⟨hl, hid, hget⟩ := aspect_rows
  refine ⟨hl, ?_, ?_, hget⟩
  · intro i j h; rw [hid i, hid j] at h; exact Fin.ext h
  · intro b; rw [hid b]; omega

/-- the 3-bit `video_format` values are parsed to eight distinct values -/
theorem videoFormat_injective : videoFormat.length = 8 ∧
    (∀ i j : Fin 8, videoFormat.getD i.val 999 = videoFormat.getD j.val 999 → i = j) ∧
    (∀ i : Fin 8, videoFormat.getD i.val 999 < 998) := by
  decide +kernel

/-- `chroma_format_idc` 0…3 are accepted and parsed to four distinct values -/
theorem chromaFormat_table : chromaFormat.length = 16 ∧
    (∀ i : Fin 4, (chromaFormat.getD i.val (0,0)).1 = 1) ∧
    (∀ i j : Fin 4, (chromaFormat.getD i.val (0,0)).2 = (chromaFormat.getD j.val (0,0)).2 → i = j) := by
  decide +kernel

/-- SEI payload types 0…511 (one- to three-byte codings): the reader delivers every message, and distinct
payloadType values are reported as distinct types -/
theorem seiType_rows : seiType.length = 512 ∧ ∀ i : Fin 512, seiType.getD i.val 999 = i.val := by
  decide +kernel
theorem seiType_injective : seiType.length = 512 ∧
    (∀ i : Fin 512, seiType.getD i.val 999 < 998) ∧
    (∀ i : Fin 512, ∀ j : Fin 512, seiType.getD i.val 999 = seiType.getD j.val 999 → i = j) := by
  obtain ⟨hl, hid⟩ := seiType_rows
  refine ⟨hl, ?_, ?_⟩
  · intro i; rw [hid i]; omega
  · intro i j h; rw [hid i, hid j] at h; exact Fin.ext h

/-- Table D-1: every 4-bit pic_struct is accepted as its own distinct value, and the number of clock-timestamp
slots the parser reads is the model's / the standard's NumClockTS -/
theorem picStruct_table : picStruct.length = 16 ∧
    (∀ p : Fin 16, (picStruct.getD p.val (0,0,0)).1 = 1 ∧
      (picStruct.getD p.val (0,0,0)).2.2 = SeiPayload.numClockTs p.val) ∧
    (∀ i j : Fin 16, (picStruct.getD i.val (0,0,0)).2.1 = (picStruct.getD j.val (0,0,0)).2.1 → i = j) := by
  decide +kernel

def famIdx : Slice.Family → Nat | .P => 0 | .B => 1 | .I => 2 | .SP => 3 | .SI => 4

/-- Table 7-6: slice_type 0…9 accepted, 10…63 refused; the family is the model's `familyOf` (slice_type mod 5) and
types 5…9 are the "all slices of the picture" variants -/
theorem sliceType_table : sliceType.length = 64 ∧
    ∀ t : Fin 64, sliceType.getD t.val (9,9,9) =
      (if t.val ≤ 9 then (1, famIdx (Slice.familyOf t.val), if t.val ≥ 5 then 1 else 0) else (0, 0, 0)) := by
  decide +kernel

end Tables2
