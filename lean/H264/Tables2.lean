import H264.GeneratedTables
import H264.Slice
import H264.PicTiming
/-! Theorems over the function graphs that the harness extracts *through the real parsers* (one coded field swept over
its whole domain, everything else fixed): the private tables of the code (`ProfileIdc::has_chroma_info`, Table E-1,
`video_format`, `chroma_format_idc`, the SEI payload-type table, Table D-1 `NumClockTS`, Table 7-6 `slice_type`)
are tied to the tables of the model / of the standard **by proof** — a change to one of them in the source changes
`Generated.*` and the kernel re-decides these statements on the next run. -/
namespace Tables2
open Generated

/-- Table E-1 of the standard: aspect_ratio_idc ↦ sample aspect ratio (0 = unspecified / reserved) -/
def tableE1 : Nat → Nat × Nat
  | 1 => (1, 1) | 2 => (12, 11) | 3 => (10, 11) | 4 => (16, 11) | 5 => (40, 33) | 6 => (24, 11) | 7 => (20, 11)
  | 8 => (32, 11) | 9 => (80, 33) | 10 => (18, 11) | 11 => (15, 11) | 12 => (64, 33) | 13 => (160, 99)
  | 14 => (4, 3) | 15 => (3, 2) | 16 => (2, 1)
  | _ => (0, 0)

def famIdx : Slice.Family → Nat | .P => 0 | .B => 1 | .I => 2 | .SP => 3 | .SI => 4

end Tables2
