import H264.SliceC06
import H264.SliceExact
/-! C06 converse: whatever `parseSliceHeader` accepts is exactly the standard-order coding of what it returned
(and the returned header is well-formed in the sense of `SliceWF`, so `C06_forward` applies to it). -/
namespace Slice
open Bits Sps Pps

/-! ### per-element exactness lemmas

Shape: `readX … s = .ok (v, s')` and `hd.field = v` give the `SliceWF` clause for that field,
`s.bits = encX … hd ++ s'.bits` and `s'.fin = s.fin`. -/

theorem readColourPlane_exact (sps : Sps.Sps) (s s' : Src) (v : Option Nat)
    (h : readColourPlane sps s = .ok (v, s')) (hd : SliceHeader) (e : hd.colourPlane = v) :
    (if sps.chromaInfo.separateColourPlaneFlag then ∃ v, hd.colourPlane = some v ∧ v ≤ 2 else hd.colourPlane = none) ∧
    s.bits = encColourPlane sps hd ++ s'.bits ∧ s'.fin = s.fin := by
  unfold readColourPlane at h
  unfold encColourPlane
  by_cases c : sps.chromaInfo.separateColourPlaneFlag = true
  · simp only [c, ↓reduceIte] at h ⊢
    bind_step h with w s1 h1
    obtain ⟨_, b2, b3⟩ := readBits_exact _ _ _ _ _ h1
    by_cases c2 : w > 2
    · simp [c2] at h
    simp only [c2, ↓reduceIte] at h
    obtain ⟨rfl, rfl⟩ := pure_ok h
    rw [e]
    exact ⟨⟨w, rfl, by omega⟩, b2, b3⟩
  · simp only [c, Bool.false_eq_true, ↓reduceIte] at h ⊢
    obtain ⟨rfl, rfl⟩ := pure_ok h
    simp [e]

theorem readFieldPic_exact (sps : Sps.Sps) (s s' : Src) (v : FieldPic)
    (h : readFieldPic sps s = .ok (v, s')) (hd : SliceHeader) (e : hd.fieldPic = v) :
    (sps.frameMbsFlags = .frames → hd.fieldPic = .frame) ∧
    s.bits = encFieldPic sps hd ++ s'.bits ∧ s'.fin = s.fin := by
  unfold readFieldPic at h
  unfold encFieldPic
  cases hf : sps.frameMbsFlags with
  | frames =>
    simp only [hf] at h ⊢
    obtain ⟨rfl, rfl⟩ := pure_ok h
    simp [e]
  | fields m =>
    simp only [hf] at h ⊢
    bind_step h with f s1 h1
    obtain ⟨f2, f3⟩ := readBool_exact _ _ _ _ h1
    cases f with
    | false =>
      simp only [Bool.false_eq_true, ↓reduceIte] at h
      obtain ⟨rfl, rfl⟩ := pure_ok h
      simp only [e]
      exact ⟨by simp, f2, f3⟩
    | true =>
      simp only [↓reduceIte] at h
      bind_step h with b s2 h2
      obtain ⟨b2, b3⟩ := readBool_exact _ _ _ _ h2
      obtain ⟨rfl, rfl⟩ := pure_ok h
      simp only [e]
      cases b <;> simp [f2, b2, b3, f3, List.append_assoc]

theorem readIdrPicId_exact (hdr : NalHdr) (s s' : Src) (v : Option Nat)
    (h : readIdrPicId hdr s = .ok (v, s')) (hd : SliceHeader) (e : hd.idrPicId = v) :
    (if hdr.nalUnitType = 5 then ∃ v, hd.idrPicId = some v ∧ Ue v else hd.idrPicId = none) ∧
    s.bits = encIdrPicId hdr hd ++ s'.bits ∧ s'.fin = s.fin := by
  unfold readIdrPicId at h
  unfold encIdrPicId
  by_cases c : hdr.nalUnitType = 5
  · simp only [c, ↓reduceIte] at h ⊢
    bind_step h with w s1 h1
    obtain ⟨b1, b2, b3⟩ := readUe_exact _ _ _ _ h1
    obtain ⟨rfl, rfl⟩ := pure_ok h
    rw [e]
    exact ⟨⟨w, rfl, b1⟩, b2, b3⟩
  · simp only [c, ↓reduceIte] at h ⊢
    obtain ⟨rfl, rfl⟩ := pure_ok h
    simp [e]

theorem readRedundant_exact (pps : Pps.Pps) (s s' : Src) (v : Option Nat)
    (h : readRedundant pps s = .ok (v, s')) (hd : SliceHeader) (e : hd.redundantPicCnt = v) :
    (if pps.redundantPicCntPresentFlag then ∃ v, hd.redundantPicCnt = some v ∧ Ue v else hd.redundantPicCnt = none) ∧
    s.bits = encRedundant pps hd ++ s'.bits ∧ s'.fin = s.fin := by
  unfold readRedundant at h
  unfold encRedundant
  by_cases c : pps.redundantPicCntPresentFlag = true
  · simp only [c, ↓reduceIte] at h ⊢
    bind_step h with w s1 h1
    obtain ⟨b1, b2, b3⟩ := readUe_exact _ _ _ _ h1
    obtain ⟨rfl, rfl⟩ := pure_ok h
    rw [e]
    exact ⟨⟨w, rfl, b1⟩, b2, b3⟩
  · simp only [c, Bool.false_eq_true, ↓reduceIte] at h ⊢
    obtain ⟨rfl, rfl⟩ := pure_ok h
    simp [e]

theorem readDirect_exact (fam : Family) (s s' : Src) (v : Option Bool)
    (h : readDirect fam s = .ok (v, s')) (hd : SliceHeader) (e : hd.directSpatialMvPredFlag = v) :
    (if fam = .B then ∃ b, hd.directSpatialMvPredFlag = some b else hd.directSpatialMvPredFlag = none) ∧
    s.bits = encDirect fam hd ++ s'.bits ∧ s'.fin = s.fin := by
  unfold readDirect at h
  unfold encDirect
  by_cases c : fam = .B
  · simp only [c, ↓reduceIte] at h ⊢
    bind_step h with w s1 h1
    obtain ⟨b2, b3⟩ := readBool_exact _ _ _ _ h1
    obtain ⟨rfl, rfl⟩ := pure_ok h
    rw [e]
    exact ⟨⟨w, rfl⟩, b2, b3⟩
  · simp only [c, ↓reduceIte] at h ⊢
    obtain ⟨rfl, rfl⟩ := pure_ok h
    simp [e]


theorem readPoc_exact (sps : Sps.Sps) (pps : Pps.Pps) (s s' : Src) (v : Option PicOrderCountLsb) (hd : SliceHeader)
    (h : readPoc sps pps hd.fieldPic s = .ok (v, s')) (e : hd.picOrderCntLsb = v) :
    PocWF sps pps hd ∧ s.bits = encPoc sps pps hd ++ s'.bits ∧ s'.fin = s.fin := by
  unfold readPoc at h
  unfold PocWF encPoc
  cases hp : sps.picOrderCnt with
  | typeZero l =>
    simp only [hp] at h ⊢
    bind_step h with lsb s1 h1
    obtain ⟨a1, a2, a3⟩ := readBits_exact _ _ _ _ _ h1
    by_cases hb : (pps.bottomFieldPicOrderInFramePresentFlag && hd.fieldPic == .frame) = true
    · simp only [hb, ↓reduceIte] at h ⊢
      bind_step h with d s2 h2
      obtain ⟨d1, d2, d3⟩ := readSe_exact _ _ _ _ h2
      obtain ⟨rfl, rfl⟩ := pure_ok h
      simp only [e]
      exact ⟨⟨lsb, d, rfl, a1, d1⟩, by rw [a2, d2, List.append_assoc], by rw [d3, a3]⟩
    · simp only [hb, Bool.false_eq_true, ↓reduceIte] at h ⊢
      obtain ⟨rfl, rfl⟩ := pure_ok h
      simp only [e]
      exact ⟨⟨lsb, rfl, a1⟩, a2, a3⟩
  | typeOne az a b offs =>
    simp only [hp] at h ⊢
    cases az with
    | true =>
      simp only [↓reduceIte] at h ⊢
      obtain ⟨rfl, rfl⟩ := pure_ok h
      simp [e]
    | false =>
      simp only [Bool.false_eq_true, ↓reduceIte] at h ⊢
      bind_step h with d0 s1 h1
      obtain ⟨a1, a2, a3⟩ := readSe_exact _ _ _ _ h1
      by_cases hb : (pps.bottomFieldPicOrderInFramePresentFlag && hd.fieldPic == .frame) = true
      · simp only [hb, ↓reduceIte] at h ⊢
        bind_step h with d1 s2 h2
        obtain ⟨b1, b2, b3⟩ := readSe_exact _ _ _ _ h2
        obtain ⟨rfl, rfl⟩ := pure_ok h
        simp only [e]
        exact ⟨⟨d0, d1, rfl, a1, b1⟩, by rw [a2, b2, List.append_assoc], by rw [b3, a3]⟩
      · simp only [hb, Bool.false_eq_true, ↓reduceIte] at h ⊢
        obtain ⟨rfl, rfl⟩ := pure_ok h
        simp only [e]
        exact ⟨⟨d0, rfl, a1⟩, by simpa using a2, a3⟩
  | typeTwo =>
    simp only [hp] at h ⊢
    obtain ⟨rfl, rfl⟩ := pure_ok h
    simp [e]

theorem readNumRefIdx_exact (nm : String) (s s' : Src) (x : Nat) (h : readNumRefIdx nm s = .ok (x, s')) :
    x ≤ 31 ∧ s.bits = encUe x ++ s'.bits ∧ s'.fin = s.fin := by
  unfold readNumRefIdx at h
  bind_step h with w u1 hw
  obtain ⟨_, a2, a3⟩ := readUe_exact _ _ _ _ hw
  by_cases cw : w > 31
  · simp [cw] at h
  simp only [cw, ↓reduceIte] at h
  obtain ⟨rfl, rfl⟩ := pure_ok h
  exact ⟨by omega, a2, a3⟩

theorem readNumRefIdxActive_exact (fam : Family) (s s' : Src) (v : Option NumRefIdxActive)
    (h : readNumRefIdxActive fam s = .ok (v, s')) (hd : SliceHeader) (e : hd.numRefIdxActive = v) :
    NraWF fam hd.numRefIdxActive ∧ s.bits = encNumRefIdxActive fam hd ++ s'.bits ∧ s'.fin = s.fin := by
  unfold readNumRefIdxActive at h
  unfold encNumRefIdxActive
  by_cases hf : fam = .P ∨ fam = .SP ∨ fam = .B
  · rw [if_pos hf] at h
    rw [if_pos hf]
    bind_step h with o s1 h1
    obtain ⟨o2, o3⟩ := readBool_exact _ _ _ _ h1
    cases o with
    | false =>
      simp only [Bool.false_eq_true, ↓reduceIte] at h
      obtain ⟨rfl, rfl⟩ := pure_ok h
      simp only [e]
      exact ⟨trivial, o2, o3⟩
    | true =>
      simp only [↓reduceIte] at h
      bind_step h with l0 s2 h2
      obtain ⟨a1, a2, a3⟩ := readNumRefIdx_exact _ _ _ _ h2
      by_cases hb : fam = .B
      · simp only [hb, ↓reduceIte] at h
        bind_step h with l1 s3 h3
        obtain ⟨b1, b2, b3⟩ := readNumRefIdx_exact _ _ _ _ h3
        obtain ⟨rfl, rfl⟩ := pure_ok h
        simp only [e]
        exact ⟨⟨hb, a1, b1⟩, by rw [o2, a2, b2]; simp [List.append_assoc], by rw [b3, a3, o3]⟩
      · simp only [hb, ↓reduceIte] at h
        obtain ⟨rfl, rfl⟩ := pure_ok h
        simp only [e]
        refine ⟨⟨?_, a1⟩, by rw [o2, a2]; simp [List.append_assoc], by rw [a3, o3]⟩
        rcases hf with h' | h' | h'
        · exact Or.inl h'
        · exact Or.inr h'
        · exact absurd h' hb
  · rw [if_neg hf] at h
    rw [if_neg hf]
    obtain ⟨rfl, rfl⟩ := pure_ok h
    simp only [e]
    exact ⟨trivial, by simp, trivial⟩

/-- which of the two codings of an empty ref_pic_list_modification list was used (list 0, list 1) -/
structure ModAlt where
  l0 : Bool := false
  l1 : Bool := false

def encRefPicListModsAlt (a : ModAlt) : RefPicListMods → List Bool
  | .I => []
  | .P x => encModListAlt x a.l0
  | .B x y => encModListAlt x a.l0 ++ encModListAlt y a.l1

theorem readRefPicListMods_exact (fam : Family) (s s' : Src) (m : RefPicListMods)
    (h : readRefPicListMods fam s = .ok (m, s')) :
    ModsWF fam m ∧ (∃ alt, s.bits = encRefPicListModsAlt alt m ++ s'.bits) ∧ s'.fin = s.fin := by
  have hP : fam = .P ∨ fam = .SP →
      (do let a ← readModList; Pure.pure (RefPicListMods.P a) : P RefPicListMods) s = .ok (m, s') →
      ModsWF fam m ∧ (∃ alt, s.bits = encRefPicListModsAlt alt m ++ s'.bits) ∧ s'.fin = s.fin := by
    intro hf h
    bind_step h with a s1 h1
    obtain ⟨a1, ⟨lf, a2⟩, a3⟩ := readModList_exact _ _ _ h1
    obtain ⟨rfl, rfl⟩ := pure_ok h
    exact ⟨⟨hf, a1⟩, ⟨⟨lf, false⟩, a2⟩, a3⟩
  have hI : fam = .I ∨ fam = .SI → (Pure.pure RefPicListMods.I : P RefPicListMods) s = .ok (m, s') →
      ModsWF fam m ∧ (∃ alt, s.bits = encRefPicListModsAlt alt m ++ s'.bits) ∧ s'.fin = s.fin := by
    intro hf h
    obtain ⟨rfl, rfl⟩ := pure_ok h
    exact ⟨hf, ⟨⟨false, false⟩, by simp [encRefPicListModsAlt]⟩, rfl⟩
  cases fam with
  | P => exact hP (Or.inl rfl) h
  | SP => exact hP (Or.inr rfl) h
  | I => exact hI (Or.inl rfl) h
  | SI => exact hI (Or.inr rfl) h
  | B =>
    simp only [readRefPicListMods] at h
    bind_step h with a s1 h1
    bind_step h with b s2 h2
    obtain ⟨a1, ⟨lf, a2⟩, a3⟩ := readModList_exact _ _ _ h1
    obtain ⟨b1, ⟨lg, b2⟩, b3⟩ := readModList_exact _ _ _ h2
    obtain ⟨rfl, rfl⟩ := pure_ok h
    exact ⟨⟨rfl, a1, b1⟩, ⟨⟨lf, lg⟩, by simp [encRefPicListModsAlt, a2, b2, List.append_assoc]⟩, by rw [b3, a3]⟩

/-! ### pred_weight_table -/

theorem readLumaWeight_exact (s s' : Src) (lw : Option (Int × Int)) (h : readLumaWeight s = .ok (lw, s')) :
    LumaW.WF lw ∧ s.bits = encLumaW lw ++ s'.bits ∧ s'.fin = s.fin := by
  unfold readLumaWeight at h
  bind_step h with f s1 h1
  obtain ⟨f2, f3⟩ := readBool_exact _ _ _ _ h1
  cases f with
  | false =>
    simp only [Bool.false_eq_true, ↓reduceIte] at h
    obtain ⟨rfl, rfl⟩ := pure_ok h
    exact ⟨trivial, f2, f3⟩
  | true =>
    simp only [↓reduceIte] at h
    bind_step h with w s2 h2
    bind_step h with o s3 h3
    obtain ⟨w1, w2, w3⟩ := readSe_exact _ _ _ _ h2
    obtain ⟨o1, o2, o3⟩ := readSe_exact _ _ _ _ h3
    obtain ⟨rfl, rfl⟩ := pure_ok h
    exact ⟨⟨w1, o1⟩, by simp [encLumaW, f2, w2, o2, List.append_assoc], by rw [o3, w3, f3]⟩

theorem readChromaWeights_exact (s s' : Src) (cw : List (Int × Int)) (h : readChromaWeights s = .ok (cw, s')) :
    ChromaW.WF cw ∧ s.bits = encChromaW cw ++ s'.bits ∧ s'.fin = s.fin := by
  unfold readChromaWeights at h
  bind_step h with f s1 h1
  obtain ⟨f2, f3⟩ := readBool_exact _ _ _ _ h1
  cases f with
  | false =>
    simp only [Bool.false_eq_true, ↓reduceIte] at h
    obtain ⟨rfl, rfl⟩ := pure_ok h
    exact ⟨Or.inl rfl, f2, f3⟩
  | true =>
    simp only [↓reduceIte] at h
    bind_step h with w0 s2 h2
    bind_step h with o0 s3 h3
    bind_step h with w1 s4 h4
    bind_step h with o1 s5 h5
    obtain ⟨a1, a2, a3⟩ := readSe_exact _ _ _ _ h2
    obtain ⟨b1, b2, b3⟩ := readSe_exact _ _ _ _ h3
    obtain ⟨c1, c2, c3⟩ := readSe_exact _ _ _ _ h4
    obtain ⟨d1, d2, d3⟩ := readSe_exact _ _ _ _ h5
    obtain ⟨rfl, rfl⟩ := pure_ok h
    exact ⟨Or.inr ⟨_, _, rfl, a1, b1, c1, d1⟩, by simp [encChromaW, f2, a2, b2, c2, d2, List.append_assoc],
      by rw [d3, c3, b3, a3, f3]⟩

theorem readPredWeightEntries_exact (chroma : Bool) (n : Nat) (s s' : Src)
    (ls : List (Option (Int × Int))) (cs : List (List (Int × Int)))
    (h : readPredWeightEntries chroma n s = .ok ((ls, cs), s')) :
    ls.length = n ∧ (∀ l ∈ ls, LumaW.WF l) ∧
    (if chroma then cs.length = ls.length ∧ ∀ c ∈ cs, ChromaW.WF c else cs = []) ∧
    s.bits = encPredWeightEntries chroma ls cs ++ s'.bits ∧ s'.fin = s.fin := by
  induction n generalizing s ls cs with
  | zero =>
    unfold readPredWeightEntries at h
    obtain ⟨hv, rfl⟩ := pure_ok h
    simp only [Prod.mk.injEq] at hv
    obtain ⟨rfl, rfl⟩ := hv
    cases chroma <;> simp [encPredWeightEntries]
  | succ n ih =>
    unfold readPredWeightEntries at h
    bind_step h with lw s1 h1
    obtain ⟨l1, l2, l3⟩ := readLumaWeight_exact _ _ _ h1
    cases chroma with
    | true =>
      simp only [↓reduceIte] at h
      bind_step h with cw s2 h2
      obtain ⟨c1, c2, c3⟩ := readChromaWeights_exact _ _ _ h2
      bind_step h with r s3 h3
      obtain ⟨ls', cs'⟩ := r
      simp only at h
      obtain ⟨hv, rfl⟩ := pure_ok h
      simp only [Prod.mk.injEq] at hv
      obtain ⟨rfl, rfl⟩ := hv
      obtain ⟨r0, r1, r2, r3, r4⟩ := ih _ _ _ h3
      simp only [↓reduceIte] at r2 ⊢
      refine ⟨by simp [r0], ?_, ⟨by simp [r2.1], ?_⟩, ?_, by rw [r4, c3, l3]⟩
      · intro l hl; simp at hl; rcases hl with rfl | hl
        · exact l1
        · exact r1 l hl
      · intro c hc; simp at hc; rcases hc with rfl | hc
        · exact c1
        · exact r2.2 c hc
      · simp [encPredWeightEntries, l2, c2, r3, List.append_assoc]
    | false =>
      simp only [Bool.false_eq_true, ↓reduceIte] at h
      bind_step h with r s3 h3
      obtain ⟨ls', cs'⟩ := r
      simp only at h
      obtain ⟨hv, rfl⟩ := pure_ok h
      simp only [Prod.mk.injEq] at hv
      obtain ⟨rfl, rfl⟩ := hv
      obtain ⟨r0, r1, r2, r3, r4⟩ := ih _ _ _ h3
      simp only [Bool.false_eq_true, ↓reduceIte] at r2 ⊢
      refine ⟨by simp [r0], ?_, r2, ?_, by rw [r4, l3]⟩
      · intro l hl; simp at hl; rcases hl with rfl | hl
        · exact l1
        · exact r1 l hl
      · simp [encPredWeightEntries, l2, r3, List.append_assoc]

theorem readPredWeightTable_exact (fam : Family) (pps : Pps.Pps) (sps : Sps.Sps) (nra : Option NumRefIdxActive)
    (s s' : Src) (t : PredWeightTable) (h : readPredWeightTable fam pps sps nra s = .ok (t, s')) :
    PwtWF fam pps sps nra t ∧ s.bits = encPredWeightTable (isChroma sps) t ++ s'.bits ∧ s'.fin = s.fin := by
  unfold readPredWeightTable at h
  have hch : (!(sps.chromaInfo.separateColourPlaneFlag) && sps.chromaInfo.chromaFormat != .monochrome) = isChroma sps := rfl
  simp only [hch] at h
  bind_step h with ld s1 h1
  obtain ⟨a1, a2, a3⟩ := readUe_exact _ _ _ _ h1
  have tail : ∀ (cd : Option Nat) (u : Src),
      (do let x ← readPredWeightEntries (isChroma sps) (effectiveL0 pps nra + 1)
          if fam = Family.B then fail (Err.unsupported "B frame")
          else Pure.pure (⟨ld, cd, x.fst, x.snd⟩ : PredWeightTable) : P PredWeightTable) u = .ok (t, s') →
      fam ≠ .B ∧ t.lumaLog2WeightDenom = ld ∧ t.chromaLog2WeightDenom = cd ∧
      t.lumaWeights.length = effectiveL0 pps nra + 1 ∧ (∀ l ∈ t.lumaWeights, LumaW.WF l) ∧
      (if isChroma sps then t.chromaWeights.length = t.lumaWeights.length ∧ ∀ c ∈ t.chromaWeights, ChromaW.WF c
       else t.chromaWeights = []) ∧
      u.bits = encPredWeightEntries (isChroma sps) t.lumaWeights t.chromaWeights ++ s'.bits ∧ s'.fin = u.fin := by
    intro cd u hu
    bind_step hu with x u1 g1
    obtain ⟨ls, cs⟩ := x
    by_cases hb : fam = .B
    · simp [hb] at hu
    simp only [hb, ↓reduceIte] at hu
    obtain ⟨rfl, rfl⟩ := pure_ok hu
    obtain ⟨r0, r1, r2, r3, r4⟩ := readPredWeightEntries_exact _ _ _ _ _ _ g1
    exact ⟨hb, rfl, rfl, r0, r1, r2, r3, r4⟩
  unfold PwtWF encPredWeightTable
  by_cases hc : isChroma sps = true
  · simp only [hc, ↓reduceIte] at h tail ⊢
    bind_step h with cd s2 h2
    bind_step h2 with v s3 h3
    obtain ⟨rfl, rfl⟩ := pure_ok h2
    obtain ⟨b1, b2, b3⟩ := readUe_exact _ _ _ _ h3
    obtain ⟨t0, t1, t2, t3, t4, t5, t6, t7⟩ := tail _ _ h
    rw [t1, t2]
    exact ⟨⟨t0, a1, ⟨v, rfl, b1⟩, t3, t4, t5⟩, by rw [a2, b2, t6]; simp [List.append_assoc], by rw [t7, b3, a3]⟩
  · simp only [hc, Bool.false_eq_true, ↓reduceIte] at h tail ⊢
    bind_step h with cd s2 h2
    obtain ⟨rfl, rfl⟩ := pure_ok h2
    obtain ⟨t0, t1, t2, t3, t4, t5, t6, t7⟩ := tail _ _ h
    rw [t1, t2]
    exact ⟨⟨t0, a1, rfl, t3, t4, t5⟩, by rw [a2, t6]; simp [List.append_assoc], by rw [t7, a3]⟩

theorem readPwtOpt_exact (fam : Family) (pps : Pps.Pps) (sps : Sps.Sps) (s s' : Src) (v : Option PredWeightTable)
    (hd : SliceHeader) (h : readPwtOpt fam pps sps hd.numRefIdxActive s = .ok (v, s')) (e : hd.predWeightTable = v) :
    (if pwtPresent fam pps then ∃ t, hd.predWeightTable = some t ∧ PwtWF fam pps sps hd.numRefIdxActive t
     else hd.predWeightTable = none) ∧
    s.bits = encPwtOpt fam pps sps hd ++ s'.bits ∧ s'.fin = s.fin := by
  unfold readPwtOpt at h
  unfold encPwtOpt
  by_cases c : pwtPresent fam pps = true
  · simp only [c, ↓reduceIte] at h ⊢
    bind_step h with t s1 h1
    obtain ⟨b1, b2, b3⟩ := readPredWeightTable_exact _ _ _ _ _ _ _ h1
    obtain ⟨rfl, rfl⟩ := pure_ok h
    simp only [e]
    exact ⟨⟨t, rfl, b1⟩, b2, b3⟩
  · simp only [c, Bool.false_eq_true, ↓reduceIte] at h ⊢
    obtain ⟨rfl, rfl⟩ := pure_ok h
    simp [e]

/-! ### dec_ref_pic_marking -/

theorem readMmcos_exact (fuel : Nat) (s s' : Src) (ops : List Mmco) (h : readMmcos fuel s = .ok (ops, s')) :
    (∀ o ∈ ops, o.WF) ∧ s.bits = (ops.map encMmco).flatten ++ (encUe 0 ++ s'.bits) ∧ s'.fin = s.fin := by
  induction fuel generalizing s ops with
  | zero => simp [readMmcos] at h
  | succ f ih =>
    unfold readMmcos at h
    bind_step h with op s1 h1
    obtain ⟨i1, i2, i3⟩ := readUe_exact _ _ _ _ h1
    have cons : ∀ (o : Mmco) (s2 : Src) (rest : List Mmco), o.WF → s.bits = encMmco o ++ s2.bits → s2.fin = s.fin →
        readMmcos f s2 = .ok (rest, s') → o :: rest = ops →
        (∀ o ∈ ops, o.WF) ∧ s.bits = (ops.map encMmco).flatten ++ (encUe 0 ++ s'.bits) ∧ s'.fin = s.fin := by
      intro o s2 rest hwf hb hfin hr he
      subst he
      obtain ⟨r1, r2, r3⟩ := ih _ _ hr
      refine ⟨?_, by simp [hb, r2, List.append_assoc], by rw [r3, hfin]⟩
      intro x hx; simp at hx; rcases hx with rfl | hx
      · exact hwf
      · exact r1 x hx
    by_cases c0 : op = 0
    · simp only [c0, ↓reduceIte] at h
      obtain ⟨rfl, rfl⟩ := pure_ok h
      exact ⟨by simp, by simp [i2, c0], i3⟩
    simp only [c0, ↓reduceIte] at h
    by_cases c1 : op = 1
    · simp only [c1, ↓reduceIte] at h
      bind_step h with d s2 h2
      bind_step h with rest s3 h3
      obtain ⟨d1, d2, d3⟩ := readUe_exact _ _ _ _ h2
      obtain ⟨he, rfl⟩ := pure_ok h
      exact cons (.shortTermUnused d) s2 rest d1 (by simp [encMmco, i2, c1, d2, List.append_assoc]) (by rw [d3, i3]) h3 he
    simp only [c1, ↓reduceIte] at h
    by_cases c2 : op = 2
    · simp only [c2, ↓reduceIte] at h
      bind_step h with d s2 h2
      bind_step h with rest s3 h3
      obtain ⟨d1, d2, d3⟩ := readUe_exact _ _ _ _ h2
      obtain ⟨he, rfl⟩ := pure_ok h
      exact cons (.longTermUnused d) s2 rest d1 (by simp [encMmco, i2, c2, d2, List.append_assoc]) (by rw [d3, i3]) h3 he
    simp only [c2, ↓reduceIte] at h
    by_cases c3 : op = 3
    · simp only [c3, ↓reduceIte] at h
      bind_step h with d s2 h2
      bind_step h with i s2' h2'
      bind_step h with rest s3 h3
      obtain ⟨d1, d2, d3⟩ := readUe_exact _ _ _ _ h2
      obtain ⟨j1, j2, j3⟩ := readUe_exact _ _ _ _ h2'
      obtain ⟨he, rfl⟩ := pure_ok h
      exact cons (.shortTermToLongTerm d i) s2' rest ⟨d1, j1⟩
        (by simp [encMmco, i2, c3, d2, j2, List.append_assoc]) (by rw [j3, d3, i3]) h3 he
    simp only [c3, ↓reduceIte] at h
    by_cases c4 : op = 4
    · simp only [c4, ↓reduceIte] at h
      bind_step h with d s2 h2
      bind_step h with rest s3 h3
      obtain ⟨d1, d2, d3⟩ := readUe_exact _ _ _ _ h2
      obtain ⟨he, rfl⟩ := pure_ok h
      exact cons (.maxLongTermIdx d) s2 rest d1 (by simp [encMmco, i2, c4, d2, List.append_assoc]) (by rw [d3, i3]) h3 he
    simp only [c4, ↓reduceIte] at h
    by_cases c5 : op = 5
    · simp only [c5, ↓reduceIte] at h
      bind_step h with rest s3 h3
      obtain ⟨he, rfl⟩ := pure_ok h
      exact cons .allUnused s1 rest trivial (by simp [encMmco, i2, c5]) i3 h3 he
    simp only [c5, ↓reduceIte] at h
    by_cases c6 : op = 6
    · simp only [c6, ↓reduceIte] at h
      bind_step h with d s2 h2
      bind_step h with rest s3 h3
      obtain ⟨d1, d2, d3⟩ := readUe_exact _ _ _ _ h2
      obtain ⟨he, rfl⟩ := pure_ok h
      exact cons (.currentToLongTerm d) s2 rest d1 (by simp [encMmco, i2, c6, d2, List.append_assoc]) (by rw [d3, i3]) h3 he
    simp [c6] at h

theorem readDecRefPicMarking_exact (hdr : NalHdr) (s s' : Src) (m : DecRefPicMarking)
    (h : readDecRefPicMarking hdr s = .ok (m, s')) :
    m.WF hdr ∧ s.bits = encDecRefPicMarking m ++ s'.bits ∧ s'.fin = s.fin := by
  unfold readDecRefPicMarking at h
  by_cases c : hdr.nalUnitType = 5
  · simp only [c, ↓reduceIte] at h
    bind_step h with a s1 h1
    bind_step h with b s2 h2
    obtain ⟨a2, a3⟩ := readBool_exact _ _ _ _ h1
    obtain ⟨b2, b3⟩ := readBool_exact _ _ _ _ h2
    obtain ⟨rfl, rfl⟩ := pure_ok h
    exact ⟨c, by simp [encDecRefPicMarking, a2, b2, List.append_assoc], by rw [b3, a3]⟩
  · simp only [c, ↓reduceIte] at h
    bind_step h with f s1 h1
    obtain ⟨f2, f3⟩ := readBool_exact _ _ _ _ h1
    cases f with
    | false =>
      simp only [Bool.false_eq_true, ↓reduceIte] at h
      obtain ⟨rfl, rfl⟩ := pure_ok h
      exact ⟨c, f2, f3⟩
    | true =>
      simp only [↓reduceIte] at h
      bind_step h with ops s2 h2
      obtain ⟨r1, r2, r3⟩ := readMmcos_exact _ _ _ _ h2
      obtain ⟨rfl, rfl⟩ := pure_ok h
      exact ⟨⟨c, r1⟩, by simp [encDecRefPicMarking, f2, r2, List.append_assoc], by rw [r3, f3]⟩

theorem readMarkingOpt_exact (hdr : NalHdr) (s s' : Src) (v : Option DecRefPicMarking)
    (h : readMarkingOpt hdr s = .ok (v, s')) (hd : SliceHeader) (e : hd.decRefPicMarking = v) :
    (if hdr.nalRefIdc = 0 then hd.decRefPicMarking = none else ∃ m, hd.decRefPicMarking = some m ∧ m.WF hdr) ∧
    s.bits = encMarkingOpt hdr hd ++ s'.bits ∧ s'.fin = s.fin := by
  unfold readMarkingOpt at h
  unfold encMarkingOpt
  by_cases c : hdr.nalRefIdc = 0
  · simp only [c, ↓reduceIte] at h ⊢
    obtain ⟨rfl, rfl⟩ := pure_ok h
    simp [e]
  · simp only [c, ↓reduceIte] at h ⊢
    bind_step h with m s1 h1
    obtain ⟨b1, b2, b3⟩ := readDecRefPicMarking_exact _ _ _ _ h1
    obtain ⟨rfl, rfl⟩ := pure_ok h
    simp only [e]
    exact ⟨⟨m, rfl, b1⟩, b2, b3⟩

/-! ### the tail of the header -/

theorem readCabac_exact (fam : Family) (pps : Pps.Pps) (s s' : Src) (v : Option Nat)
    (h : readCabac fam pps s = .ok (v, s')) (hd : SliceHeader) (e : hd.cabacInitIdc = v) :
    (if pps.entropyCodingModeFlag ∧ fam ≠ .I ∧ fam ≠ .SI then ∃ v, hd.cabacInitIdc = some v ∧ Ue v
     else hd.cabacInitIdc = none) ∧
    s.bits = encCabac fam pps hd ++ s'.bits ∧ s'.fin = s.fin := by
  unfold readCabac at h
  unfold encCabac
  by_cases c : pps.entropyCodingModeFlag = true ∧ fam ≠ .I ∧ fam ≠ .SI
  · rw [if_pos c] at h
    rw [if_pos c, if_pos c]
    bind_step h with w s1 h1
    obtain ⟨b1, b2, b3⟩ := readUe_exact _ _ _ _ h1
    obtain ⟨rfl, rfl⟩ := pure_ok h
    rw [e]
    exact ⟨⟨w, rfl, b1⟩, b2, b3⟩
  · rw [if_neg c] at h
    rw [if_neg c, if_neg c]
    obtain ⟨rfl, rfl⟩ := pure_ok h
    simp [e]

theorem readQpDelta_exact (s s' : Src) (q : Int) (h : readQpDelta s = .ok (q, s')) :
    (SeRange q ∧ q ≤ 51) ∧ s.bits = encSe q ++ s'.bits ∧ s'.fin = s.fin := by
  unfold readQpDelta at h
  bind_step h with w s1 h1
  obtain ⟨b1, b2, b3⟩ := readSe_exact _ _ _ _ h1
  by_cases c : w > 51
  · simp [c] at h
  simp only [c, ↓reduceIte] at h
  obtain ⟨rfl, rfl⟩ := pure_ok h
  exact ⟨⟨b1, by omega⟩, b2, b3⟩

theorem readSpSwitch_exact (fam : Family) (s s' : Src) (v : Option Bool) (h : readSpSwitch fam s = .ok (v, s')) :
    (if fam = .SP then ∃ b, v = some b else v = none) ∧
    s.bits = (if fam = .SP then encBool (v.getD false) else []) ++ s'.bits ∧ s'.fin = s.fin := by
  unfold readSpSwitch at h
  by_cases c : fam = .SP
  · simp only [c, ↓reduceIte] at h ⊢
    bind_step h with b s1 h1
    obtain ⟨b2, b3⟩ := readBool_exact _ _ _ _ h1
    obtain ⟨rfl, rfl⟩ := pure_ok h
    exact ⟨⟨b, rfl⟩, b2, b3⟩
  · simp only [c, ↓reduceIte] at h ⊢
    obtain ⟨rfl, rfl⟩ := pure_ok h
    simp

/-- slice_qs_delta itself is not kept (only SliceQS is), so it is existentially quantified -/
theorem readSwitchQs_exact (fam : Family) (pps : Pps.Pps) (s s' : Src) (r : Option Bool × Option Nat)
    (h : readSwitchQs fam pps s = .ok (r, s')) (hd : SliceHeader)
    (e1 : hd.spForSwitchFlag = r.1) (e2 : hd.sliceQs = r.2) :
    (∃ d : Int, ∀ x : Extra, x.sliceQsDelta = d →
      SwitchQsWF fam pps hd x ∧ s.bits = encSwitchQs fam hd x ++ s'.bits) ∧ s'.fin = s.fin := by
  unfold readSwitchQs at h
  unfold SwitchQsWF encSwitchQs
  by_cases hf : fam = .SP ∨ fam = .SI
  · rw [if_pos hf] at h
    bind_step h with sw s1 h1
    bind_step h with d s2 h2
    obtain ⟨a1, a2, a3⟩ := readSpSwitch_exact _ _ _ _ h1
    obtain ⟨d1, d2, d3⟩ := readSe_exact _ _ _ _ h2
    by_cases hq : 26 + pps.picInitQsMinus26 + d < 0 ∨ 51 < 26 + pps.picInitQsMinus26 + d
    · simp [hq] at h
    rw [if_neg hq] at h
    obtain ⟨rfl, rfl⟩ := pure_ok h
    simp only at e1 e2
    refine ⟨⟨d, ?_⟩, by rw [d3, a3]⟩
    intro x hx
    rw [if_pos hf, if_pos hf, hx, e1, e2]
    refine ⟨⟨a1, d1, by omega, by omega, rfl⟩, ?_⟩
    rw [a2, d2, List.append_assoc]
  · rw [if_neg hf] at h
    obtain ⟨rfl, rfl⟩ := pure_ok h
    simp only at e1 e2
    refine ⟨⟨0, ?_⟩, rfl⟩
    intro x _
    rw [if_neg hf, if_neg hf]
    exact ⟨⟨e1, e2⟩, by simp⟩

/-- slice_alpha_c0_offset_div2 and slice_beta_offset_div2 are not kept, so they are existentially quantified -/
theorem readDeblock_exact (pps : Pps.Pps) (s s' : Src) (v : Nat)
    (h : readDeblock pps s = .ok (v, s')) (hd : SliceHeader) (e : hd.disableDeblockingFilterIdc = v) :
    (∃ a b : Int, ∀ x : Extra, x.alpha = a → x.beta = b →
      DeblockWF pps hd x ∧ s.bits = encDeblock pps hd x ++ s'.bits) ∧ s'.fin = s.fin := by
  unfold readDeblock at h
  unfold DeblockWF encDeblock
  by_cases c : pps.deblockingFilterControlPresentFlag = true
  · simp only [c, ↓reduceIte] at h ⊢
    bind_step h with w s1 h1
    obtain ⟨w1, w2, w3⟩ := readUe_exact _ _ _ _ h1
    by_cases c6 : w > 6
    · simp [c6] at h
    simp only [c6, ↓reduceIte] at h
    by_cases c1 : w = 1
    · simp only [c1, ne_eq, not_true_eq_false, ↓reduceIte] at h
      obtain ⟨rfl, rfl⟩ := pure_ok h
      refine ⟨⟨0, 0, ?_⟩, w3⟩
      intro x _ _
      rw [e]
      simp only [ne_eq, not_true_eq_false, ↓reduceIte, List.append_nil]
      exact ⟨⟨by omega, fun hh => hh.elim⟩, by rw [w2, c1]⟩
    · simp only [ne_eq, c1, not_false_eq_true, ↓reduceIte] at h
      bind_step h with a s2 h2
      obtain ⟨a1, a2, a3⟩ := readSe_exact _ _ _ _ h2
      by_cases ca : a < -6 ∨ 6 < a
      · simp [ca] at h
      rw [if_neg ca] at h
      bind_step h with b s3 h3
      obtain ⟨b1, b2, b3⟩ := readSe_exact _ _ _ _ h3
      obtain ⟨rfl, rfl⟩ := pure_ok h
      refine ⟨⟨a, b, ?_⟩, by rw [b3, a3, w3]⟩
      intro x hxa hxb
      rw [e, hxa, hxb]
      simp only [ne_eq, c1, not_false_eq_true, ↓reduceIte]
      exact ⟨⟨by omega, fun _ => ⟨by omega, by omega, b1⟩⟩, by rw [w2, a2, b2]; simp [List.append_assoc]⟩
  · simp only [c, Bool.false_eq_true, ↓reduceIte] at h ⊢
    obtain ⟨rfl, rfl⟩ := pure_ok h
    refine ⟨⟨0, 0, ?_⟩, rfl⟩
    intro x _ _
    exact ⟨e, by simp⟩

/-- `requireMore` consumes nothing and succeeds only if a `1` bit follows the next bit
(i.e. slice data precedes the RBSP stop bit) -/
theorem requireMore_exact (s s' : Src) (h : requireMore s = .ok ((), s')) :
    s' = s ∧ (s.bits.drop 1).any id = true := by
  unfold requireMore at h
  bind_step h with more s1 h1
  cases more with
  | false => simp at h
  | true =>
    simp only [Bool.not_true, Bool.false_eq_true, ↓reduceIte] at h
    obtain ⟨_, rfl⟩ := pure_ok h
    unfold hasMore at h1
    cases hb : s.bits with
    | nil =>
      simp only [hb] at h1
      split at h1 <;> simp at h1
    | cons b rest =>
      simp only [hb] at h1
      by_cases hr : rest.any id = true
      · simp only [hr, ↓reduceIte] at h1
        simp only [Except.ok.injEq, Prod.mk.injEq, true_and] at h1
        exact ⟨h1.symm, by simpa using hr⟩
      · simp only [hr, Bool.false_eq_true, ↓reduceIte] at h1
        split at h1 <;> simp at h1

/-! ### the whole header -/

/-- `encSliceHeader`, except that the coded pic_parameter_set_id is the given `pid` (the key under which the
context holds the PPS) and each (empty) ref_pic_list_modification list may use either of its two codings -/
def encSliceHeaderAlt (sps : Sps.Sps) (pps : Pps.Pps) (hdr : NalHdr) (h : SliceHeader) (x : Extra)
    (pid : Nat) (alt : ModAlt) : List Bool :=
  let fam := familyOf h.sliceTypeId
  encUe h.firstMbInSlice ++ encUe h.sliceTypeId ++ encUe pid ++
  encColourPlane sps h ++ encBits (sps.log2MaxFrameNumMinus4 + 4) h.frameNum ++ encFieldPic sps h ++
  encIdrPicId hdr h ++ encPoc sps pps h ++ encRedundant pps h ++ encDirect fam h ++
  encNumRefIdxActive fam h ++ encRefPicListModsAlt alt h.refPicListModification ++ encPwtOpt fam pps sps h ++
  encMarkingOpt hdr h ++ encCabac fam pps h ++ encSe h.sliceQpDelta ++ encSwitchQs fam h x ++
  encDeblock pps h x

theorem encModListAlt_false (ops : List ModOp) : encModListAlt ops false = encModList ops := by
  simp [encModListAlt, encModList]

theorem encRefPicListModsAlt_false (m : RefPicListMods) :
    encRefPicListModsAlt ⟨false, false⟩ m = encRefPicListMods m := by
  cases m <;> simp [encRefPicListModsAlt, encRefPicListMods, encModListAlt_false]

/-- sanity: with the short coding of empty modification lists and the PPS's own id, `encSliceHeaderAlt` is the
encoder of `C06_forward` -/
theorem encSliceHeaderAlt_std (sps : Sps.Sps) (pps : Pps.Pps) (hdr : NalHdr) (h : SliceHeader) (x : Extra) :
    encSliceHeaderAlt sps pps hdr h x pps.ppsId ⟨false, false⟩ = encSliceHeader sps pps hdr h x := by
  unfold encSliceHeaderAlt encSliceHeader
  rw [encRefPicListModsAlt_false]

theorem C06_converse (ctx : Ctx) (hdr : NalHdr) (s s' : Src) (h : SliceHeader) (sid pid : Nat)
    (hok : parseSliceHeader ctx hdr s = .ok ((h, sid, pid), s')) :
    ∃ pps sps x alt, ctx.pps pid = some pps ∧ pps.spsId = sid ∧ ctx.sps sid = some sps ∧ pid ≤ 255 ∧
      s.bits = encSliceHeaderAlt sps pps hdr h x pid alt ++ s'.bits ∧ s'.fin = s.fin ∧
      (s'.bits.drop 1).any id = true ∧
      (pps.ppsId = pid → SliceWF sps pps hdr h x) := by
  unfold parseSliceHeader at hok
  bind_step hok with firstMb s1 h1
  bind_step hok with st s2 h2
  by_cases c9 : st > 9
  · simp [c9] at hok
  simp only [c9, ↓reduceIte] at hok
  bind_step hok with ppsId s3 h3
  by_cases c255 : ppsId > 255
  · simp [c255] at hok
  simp only [c255, ↓reduceIte] at hok
  cases hpps : ctx.pps ppsId with
  | none => simp [hpps] at hok
  | some pps =>
    simp only [hpps] at hok
    cases hsps : ctx.sps pps.spsId with
    | none => simp [hsps] at hok
    | some sps =>
      simp only [hsps] at hok
      unfold readSliceBody at hok
      bind_step hok with cp t1 g1
      bind_step hok with fn t2 g2
      bind_step hok with fp t3 g3
      bind_step hok with idr t4 g4
      bind_step hok with poc t5 g5
      bind_step hok with red t6 g6
      bind_step hok with dir t7 g7
      bind_step hok with nra t8 g8
      by_cases c20 : hdr.nalUnitType = 20 ∨ hdr.nalUnitType = 21
      · simp [c20] at hok
      simp only [c20, ↓reduceIte] at hok
      bind_step hok with mods t9 g9
      bind_step hok with pwt t10 g10
      bind_step hok with mark t11 g11
      bind_step hok with cabac t12 g12
      bind_step hok with qp t13 g13
      bind_step hok with swqs t14 g14
      bind_step hok with db t15 g15
      bind_step hok with u t16 g16
      obtain ⟨hv, rfl⟩ := pure_ok hok
      simp only [Prod.mk.injEq] at hv
      obtain ⟨hh, rfl, rfl⟩ := hv
      have e_mb : h.firstMbInSlice = firstMb := by rw [← hh]
      have e_st : h.sliceTypeId = st := by rw [← hh]
      have e_cp : h.colourPlane = cp := by rw [← hh]
      have e_fn : h.frameNum = fn := by rw [← hh]
      have e_fp : h.fieldPic = fp := by rw [← hh]
      have e_idr : h.idrPicId = idr := by rw [← hh]
      have e_poc : h.picOrderCntLsb = poc := by rw [← hh]
      have e_red : h.redundantPicCnt = red := by rw [← hh]
      have e_dir : h.directSpatialMvPredFlag = dir := by rw [← hh]
      have e_nra : h.numRefIdxActive = nra := by rw [← hh]
      have e_mods : h.refPicListModification = mods := by rw [← hh]
      have e_pwt : h.predWeightTable = pwt := by rw [← hh]
      have e_mark : h.decRefPicMarking = mark := by rw [← hh]
      have e_cabac : h.cabacInitIdc = cabac := by rw [← hh]
      have e_qp : h.sliceQpDelta = qp := by rw [← hh]
      have e_sw : h.spForSwitchFlag = swqs.1 := by rw [← hh]
      have e_qs : h.sliceQs = swqs.2 := by rw [← hh]
      have e_db : h.disableDeblockingFilterIdc = db := by rw [← hh]
      clear hh hok
      rw [← e_st] at g7 g8 g9 g10 g12 g14
      rw [← e_fp] at g5
      rw [← e_nra] at g10
      obtain ⟨a1, a2, a3⟩ := readUe_exact _ _ _ _ h1
      obtain ⟨_, b2, b3⟩ := readUe_exact _ _ _ _ h2
      obtain ⟨_, c2, c3⟩ := readUe_exact _ _ _ _ h3
      obtain ⟨w1, x1, y1⟩ := readColourPlane_exact _ _ _ _ g1 h e_cp
      obtain ⟨w2, x2, y2⟩ := readBits_exact _ _ _ _ _ g2
      obtain ⟨w3, x3, y3⟩ := readFieldPic_exact _ _ _ _ g3 h e_fp
      obtain ⟨w4, x4, y4⟩ := readIdrPicId_exact _ _ _ _ g4 h e_idr
      obtain ⟨w5, x5, y5⟩ := readPoc_exact _ _ _ _ _ h g5 e_poc
      obtain ⟨w6, x6, y6⟩ := readRedundant_exact _ _ _ _ g6 h e_red
      obtain ⟨w7, x7, y7⟩ := readDirect_exact _ _ _ _ g7 h e_dir
      obtain ⟨w8, x8, y8⟩ := readNumRefIdxActive_exact _ _ _ _ g8 h e_nra
      obtain ⟨w9, ⟨alt, x9⟩, y9⟩ := readRefPicListMods_exact _ _ _ _ g9
      obtain ⟨w10, x10, y10⟩ := readPwtOpt_exact _ _ _ _ _ _ h g10 e_pwt
      obtain ⟨w11, x11, y11⟩ := readMarkingOpt_exact _ _ _ _ g11 h e_mark
      obtain ⟨w12, x12, y12⟩ := readCabac_exact _ _ _ _ _ g12 h e_cabac
      obtain ⟨w13, x13, y13⟩ := readQpDelta_exact _ _ _ g13
      obtain ⟨⟨d, wx14⟩, y14⟩ := readSwitchQs_exact _ _ _ _ _ g14 h e_sw e_qs
      obtain ⟨⟨a, b, wx15⟩, y15⟩ := readDeblock_exact _ _ _ _ g15 h e_db
      obtain ⟨rfl, more⟩ := requireMore_exact _ _ g16
      obtain ⟨w14, x14⟩ := wx14 ⟨d, a, b, false⟩ rfl
      obtain ⟨w15, x15⟩ := wx15 ⟨d, a, b, false⟩ rfl rfl
      refine ⟨pps, sps, ⟨d, a, b, false⟩, alt, hpps, rfl, hsps, by omega, ?_, ?_, more, ?_⟩
      · unfold encSliceHeaderAlt
        rw [e_mb, e_fn, e_mods, e_qp]
        rw [a2, b2, c2, x1, x2, x3, x4, x5, x6, x7, x8, x9, x10, x11, x12, x13, x14, x15]
        simp only [e_st, List.append_assoc]
      · rw [y15, y14, y13, y12, y11, y10, y9, y8, y7, y6, y5, y4, y3, y2, y1, c3, b3, a3]
      · intro hp
        exact {
          firstMb := by rw [e_mb]; exact a1
          sliceType := by rw [e_st]; omega
          ppsId := by rw [hp]; omega
          nalType := by omega
          colourPlane := w1
          frameNum := by rw [e_fn]; exact w2
          fieldPic := w3
          idr := w4
          poc := w5
          redundant := w6
          direct := w7
          nra := w8
          mods := by rw [e_mods]; exact w9
          pwt := w10
          marking := w11
          cabac := w12
          qp := by rw [e_qp]; exact w13
          qs := w14
          deblock := w15 }

/-- the two directions meet: in a context whose PPS table is keyed by the PPS's own id, an accepted header is
well-formed, and parsing its *standard* coding (`encSliceHeader`, the encoder of `C06_forward`) followed by any
slice data returns the same header and parameter-set ids -/
theorem C06_reencode (ctx : Ctx) (hdr : NalHdr) (s s' : Src) (h : SliceHeader) (sid pid : Nat)
    (hok : parseSliceHeader ctx hdr s = .ok ((h, sid, pid), s'))
    (hkey : ∀ p, ctx.pps pid = some p → p.ppsId = pid) :
    ∃ pps sps x, ctx.pps pid = some pps ∧ ctx.sps sid = some sps ∧ SliceWF sps pps hdr h x ∧
      ∀ (d : Bool) (data : List Bool) (z : Nat),
        parseSliceHeader ctx hdr ⟨encSliceHeader sps pps hdr h x ++ d :: (data ++ trailing z), .eof⟩
          = .ok ((h, sid, pid), ⟨d :: (data ++ trailing z), .eof⟩) := by
  obtain ⟨pps, sps, x, alt, hpps, hsid, hsps, _, _, _, _, hwf⟩ := C06_converse ctx hdr s s' h sid pid hok
  have hp := hkey pps hpps
  refine ⟨pps, sps, x, hpps, hsps, hwf hp, ?_⟩
  intro d data z
  subst hp
  subst hsid
  exact C06_forward ctx sps pps hdr h x hpps hsps (hwf rfl) d data z

#print axioms Slice.encSliceHeaderAlt_std
#print axioms Slice.C06_converse
#print axioms Slice.C06_reencode
end Slice
