/-! Prototype: L0 model of `AnnexBReader::push`/`reset` (calls with slices) -/
namespace AnnexB

inductive St | start | start1 | start2 | inUnit | inUnit1 | inUnit2
deriving DecidableEq, Repr

/-- one call to `NalFragmentHandler::nal_fragment` -/
structure Call where
  bufs : List (List UInt8)
  fin : Bool
deriving DecidableEq, Repr

open St

def backtrack : St → Option Nat
  | inUnit => some 0 | inUnit1 => some 1 | inUnit2 => some 2 | _ => none

def zeros (n : Nat) : List UInt8 := List.replicate n 0

/-- `maybe_emit(buf, fake_and_start, end, backtrack, is_end)`; `buf` as list, slices via take/drop -/
def maybeEmit (buf : List UInt8) (fs : Option (Nat × Nat)) (end_ bt : Nat) (isEnd : Bool) : List Call :=
  match fs with
  | some (fake, from_) =>
    if from_ + bt < end_ then
      let body := (buf.take (end_ - bt)).drop from_
      if fake > 0 then [⟨[zeros fake, body], isEnd⟩] else [⟨[body], isEnd⟩]
    else if isEnd then [⟨[], true⟩] else []
  | none => []

/-- the `while i < buf.len()` loop, byte at a time (`memchr` skipping is not observable) -/
def pushGo (buf : List UInt8) : List UInt8 → Nat → St → Option (Nat × Nat) → List Call → St × Option (Nat × Nat) × List Call
  | [], _, st, fs, calls => (st, fs, calls)
  | b :: rest, i, st, fs, calls =>
    match st with
    | start => pushGo buf rest (i+1) (if b = 0 then start1 else start) fs calls
    | start1 => pushGo buf rest (i+1) (if b = 0 then start2 else start) fs calls
    | start2 =>
        if b = 0 then pushGo buf rest (i+1) start2 fs calls
        else if b = 1 then pushGo buf rest (i+1) inUnit (some (0, i+1)) calls
        else pushGo buf rest (i+1) start fs calls
    | inUnit => pushGo buf rest (i+1) (if b = 0 then inUnit1 else inUnit) fs calls
    | inUnit1 => pushGo buf rest (i+1) (if b = 0 then inUnit2 else inUnit) fs calls
    | inUnit2 =>
        if b = 0 then pushGo buf rest (i+1) start2 none (calls ++ maybeEmit buf fs i 2 true)
        else if b = 1 then pushGo buf rest (i+1) inUnit (some (0, i+1)) (calls ++ maybeEmit buf fs i 2 true)
        else pushGo buf rest (i+1) inUnit fs calls

def push (st : St) (buf : List UInt8) : St × List Call :=
  let r := pushGo buf buf 0 st ((backtrack st).map fun b => (b, 0)) []
  match backtrack r.1 with
  | some bt => (r.1, r.2.2 ++ maybeEmit buf r.2.1 buf.length bt false)
  | none => (r.1, r.2.2)

def reset (st : St) : St × List Call :=
  match backtrack st with
  | some 0 => (start, [⟨[], true⟩])
  | some bt => (start, [⟨[zeros bt], true⟩])
  | none => (start, [])

/-- property-level observation: bytes and end markers -/
inductive Ev | byte (b : UInt8) | endUnit
deriving DecidableEq, Repr

def Call.events (c : Call) : List Ev := c.bufs.flatten.map Ev.byte ++ (if c.fin then [Ev.endUnit] else [])
def events (cs : List Call) : List Ev := (cs.map Call.events).flatten

end AnnexB

namespace AnnexB
open St
/-- event-level machine (same as in the spec proof) -/
def step (s : St) (b : UInt8) : St × List Ev :=
  match s with
  | start   => if b = 0 then (start1, []) else (start, [])
  | start1  => if b = 0 then (start2, []) else (start, [])
  | start2  => if b = 0 then (start2, []) else if b = 1 then (inUnit, []) else (start, [])
  | inUnit  => if b = 0 then (inUnit1, []) else (inUnit, [.byte b])
  | inUnit1 => if b = 0 then (inUnit2, []) else (inUnit, [.byte 0, .byte b])
  | inUnit2 => if b = 0 then (start2, [.endUnit]) else if b = 1 then (inUnit, [.endUnit])
               else (inUnit, [.byte 0, .byte 0, .byte b])

def run (s : St) : List UInt8 → St × List Ev
  | [] => (s, [])
  | b :: bs => let (s1, e1) := step s b; let (s2, e2) := run s1 bs; (s2, e1 ++ e2)

end AnnexB
