import H264.RbspProofs3
namespace Rbsp

theorem read_spec (r : BR) (hinv : Inv r) (n : Nat) :
    Inv (read r n).1 ∧ (read r n).1.inner.complete = r.inner.complete ∧
    (match (read r n).2 with
     | .ok bs => bs = (view r).1.take bs.length ∧ bs.length ≤ n ∧
          view (read r n).1 = ((view r).1.drop bs.length, (view r).2) ∧
          (bs = [] → n = 0 ∨ (view r = ([], true) ∧ r.inner.complete = true))
     | .error .wouldBlock => view (read r n).1 = view r ∧ r.inner.complete = false ∧ view r = ([], true)
     | .error .invalidData => view (read r n).1 = view r ∧ (view r).2 = false
     | .error .eof => False) := by
  obtain ⟨f1, f2, f3, f4, f5⟩ := fillBuf_spec r hinv
  unfold read
  cases hres : (fillBuf r).2 with
  | error k =>
    have : fillBuf r = ((fillBuf r).1, .error k) := by rw [← hres]
    rw [this]; simp only
    rw [hres] at f5
    cases k with
    | wouldBlock => exact ⟨f1, f3, f2, f5.1, f5.2⟩
    | invalidData => exact ⟨f1, f3, f2, f5⟩
    | eof => exact absurd f5 id
  | ok chunk =>
    have : fillBuf r = ((fillBuf r).1, .ok chunk) := by rw [← hres]
    rw [this]; simp only
    rw [hres] at f5
    obtain ⟨hbuf, hpre, hemp⟩ := f5
    generalize (fillBuf r).1 = r' at *
    have hamt : min n chunk.length ≤ r'.i := by
      have : chunk.length ≤ r'.i := by rw [hbuf, List.length_take]; omega
      omega
    obtain ⟨c1, c2, c3, c4⟩ := consume_spec r' f1 (min n chunk.length) hamt
    have hlen : (chunk.take (min n chunk.length)).length = min n chunk.length := by
      rw [List.length_take]; omega
    refine ⟨c1, c3.trans f3, ?_, ?_, ?_, ?_⟩
    · rw [hlen]
      obtain ⟨t, ht⟩ := hpre
      rw [← ht, List.take_append_of_le_length (by omega)]
    · rw [hlen]; omega
    · rw [c2, f2, hlen]
    · intro h
      have h0 : min n chunk.length = 0 := by rw [← hlen, h]; rfl
      by_cases hn : n = 0
      · left; exact hn
      · right
        have : chunk.length = 0 := by omega
        exact hemp (List.length_eq_zero_iff.mp this)

/-! ### every program of reader operations delivers a prefix of the view, in order, exactly once -/

inductive Op | fill | consume (k : Nat) | read (n : Nat)

/-- run a program; `delivered` accumulates consumed bytes. A `consume k` outside the `BufRead`
contract (`k > i`) stops the run (Rust would panic: it is the caller's obligation). -/
def runOps : BR → List Op → List UInt8 → BR × List UInt8
  | r, [], d => (r, d)
  | r, .fill :: ops, d => runOps (fillBuf r).1 ops d
  | r, .consume k :: ops, d =>
      if k ≤ r.i then runOps (consume r k) ops (d ++ r.inner.cur.take k) else (r, d)
  | r, .read n :: ops, d =>
      match (read r n).2 with
      | .ok bs => runOps (read r n).1 ops (d ++ bs)
      | .error _ => runOps (read r n).1 ops d

theorem runOps_spec (r : BR) (hinv : Inv r) (ops : List Op) (d : List UInt8) :
    Inv (runOps r ops d).1 ∧
    (runOps r ops d).2 ++ (view (runOps r ops d).1).1 = d ++ (view r).1 ∧
    (view (runOps r ops d).1).2 = (view r).2 := by
  induction ops generalizing r d with
  | nil => simp [runOps, hinv]
  | cons op ops ih =>
    cases op with
    | fill =>
      obtain ⟨f1, f2, _⟩ := fillBuf_spec r hinv
      simp only [runOps]
      obtain ⟨i1, i2, i3⟩ := ih (fillBuf r).1 f1 d
      exact ⟨i1, by rw [i2, f2], by rw [i3, f2]⟩
    | consume k =>
      simp only [runOps]
      by_cases hk : k ≤ r.i
      · simp only [hk, ↓reduceIte]
        obtain ⟨c1, c2, _⟩ := consume_spec r hinv k hk
        obtain ⟨i1, i2, i3⟩ := ih (consume r k) c1 (d ++ r.inner.cur.take k)
        refine ⟨i1, ?_, by rw [i3, c2]⟩
        rw [i2, c2]
        simp only [List.append_assoc]
        congr 1
        have : r.inner.cur.take k = (view r).1.take k := by
          simp only [view]
          rw [List.take_append_of_le_length (by rw [List.length_take]; have := hinv.2.1; omega)]
          rw [List.take_take]; congr 1; omega
        rw [this, List.take_append_drop]
      · simp [hk, hinv]
    | read n =>
      obtain ⟨r1, _, r3⟩ := read_spec r hinv n
      simp only [runOps]
      cases hres : (read r n).2 with
      | ok bs =>
        rw [hres] at r3
        obtain ⟨h1, _, h3, _⟩ := r3
        simp only
        obtain ⟨i1, i2, i3⟩ := ih (read r n).1 r1 (d ++ bs)
        refine ⟨i1, ?_, by rw [i3, h3]⟩
        rw [i2, h3, List.append_assoc]
        congr 1
        show bs ++ List.drop bs.length (view r).1 = (view r).1
        have h1' : bs ++ List.drop bs.length (view r).1
            = List.take bs.length (view r).1 ++ List.drop bs.length (view r).1 := by rw [← h1]
        rw [h1', List.take_append_drop]
      | error k =>
        rw [hres] at r3
        simp only
        obtain ⟨i1, i2, i3⟩ := ih (read r n).1 r1 d
        cases k with
        | wouldBlock => exact ⟨i1, by rw [i2, r3.1], by rw [i3, r3.1]⟩
        | invalidData => exact ⟨i1, by rw [i2, r3.1], by rw [i3, r3.1]⟩
        | eof => exact absurd r3 id

#print axioms runOps_spec
end Rbsp
