import H264.Rbsp
namespace Rbsp

def okAfter03 : List UInt8 → Bool
  | [] => true
  | d :: _ => decide (d ≤ 3)

/-- declarative emulation-prevention removal over 3-byte windows:
`00 00 03` drops the `03` (which must be followed by a byte ≤ 3 or by the end), `00 00 00` is invalid,
everything else is data -/
def unesc : List UInt8 → List UInt8 × Bool
  | a :: b :: c :: rest =>
      if a = 0 ∧ b = 0 ∧ c = 3 then
        if okAfter03 rest then let r := unesc rest; (0 :: 0 :: r.1, r.2) else ([0, 0], false)
      else if a = 0 ∧ b = 0 ∧ c = 0 then ([0, 0], false)
      else let r := unesc (b :: c :: rest); (a :: r.1, r.2)
  | l => (l, true)
termination_by l => l.length

/-- escaping: insert `03` before a byte ≤ 3 that follows two zeros, and after a trailing `00 00` -/
def escapeGo : Nat → List UInt8 → List UInt8
  | z, [] => if z ≥ 2 then [3] else []
  | z, b :: bs =>
      if z ≥ 2 ∧ b ≤ 3 then 3 :: b :: escapeGo (if b = 0 then 1 else 0) bs
      else b :: escapeGo (if b = 0 then z + 1 else 0) bs

def escape (p : List UInt8) : List UInt8 := escapeGo 0 p

def cons0 (r : List UInt8 × Bool) : List UInt8 × Bool := (0 :: r.1, r.2)

theorem unesc_cons_nz (a : UInt8) (l : List UInt8) (h : a ≠ 0) :
    unesc (a :: l) = (a :: (unesc l).1, (unesc l).2) := by
  match l with
  | [] => simp [unesc]
  | [b] => simp [unesc]
  | b :: c :: rest => rw [unesc]; simp [h]

theorem unesc_0_nz (b : UInt8) (l : List UInt8) (h : b ≠ 0) :
    unesc (0 :: b :: l) = cons0 (unesc (b :: l)) := by
  match l with
  | [] => simp [unesc, cons0]
  | c :: rest => rw [unesc]; simp [h, cons0]

theorem unesc_00_o (b : UInt8) (l : List UInt8) (h0 : b ≠ 0) (h3 : b ≠ 3) :
    unesc (0 :: 0 :: b :: l) = cons0 (unesc (0 :: b :: l)) := by
  rw [unesc]; simp [h0, h3, cons0]

theorem unesc_00_0 (l : List UInt8) : unesc (0 :: 0 :: 0 :: l) = ([0, 0], false) := by
  rw [unesc]; simp

theorem unesc_00_3 (l : List UInt8) :
    unesc (0 :: 0 :: 3 :: l) =
      if okAfter03 l then (0 :: 0 :: (unesc l).1, (unesc l).2) else ([0, 0], false) := by
  rw [unesc]; simp

theorem unesc_spec_aux (n : Nat) : ∀ xs : List UInt8, xs.length ≤ n →
    unesc xs = unescFrom .start xs ∧
    unesc (0 :: xs) = cons0 (unescFrom .oneZero xs) ∧
    unesc (0 :: 0 :: xs) = cons0 (cons0 (unescFrom .twoZero xs)) := by
  induction n with
  | zero =>
    intro xs h
    have : xs = [] := List.length_eq_zero_iff.mp (by omega)
    subst this
    simp [unesc, unescFrom, cons0]
  | succ n ih =>
    intro xs h
    match xs with
    | [] => simp [unesc, unescFrom, cons0]
    | b :: bs =>
      have hbs : bs.length ≤ n := by simp at h; omega
      obtain ⟨iA, iB, iC⟩ := ih bs hbs
      by_cases hb0 : b = 0
      · subst hb0
        refine ⟨?_, ?_, ?_⟩
        · rw [iB]; simp [unescFrom, cons0]
        · rw [iC]; simp [unescFrom, cons0]
        · rw [unesc_00_0]; simp [unescFrom, cons0]
      · refine ⟨?_, ?_, ?_⟩
        · rw [unesc_cons_nz _ _ hb0, iA]; simp [unescFrom, hb0]
        · rw [unesc_0_nz _ _ hb0, unesc_cons_nz _ _ hb0, iA]; simp [unescFrom, hb0, cons0]
        · by_cases hb3 : b = 3
          · subst hb3
            rw [unesc_00_3]
            have hu : unescFrom .twoZero (3 :: bs) = unescFrom .postThree bs := by simp [unescFrom]
            rw [hu]
            match bs with
            | [] => simp [okAfter03, unesc, unescFrom, cons0]
            | d :: ds =>
              have hds : ds.length ≤ n := by simp at hbs; omega
              obtain ⟨jA, jB, _⟩ := ih ds (by omega)
              by_cases hd0 : d = 0
              · subst hd0
                simp only [okAfter03]
                rw [jB]; simp [unescFrom, cons0]
              · by_cases hd3 : d ≤ 3
                · simp only [okAfter03, hd3, decide_true, ↓reduceIte]
                  rw [unesc_cons_nz _ _ hd0, jA]; simp [unescFrom, hd0, hd3, cons0]
                · simp [okAfter03, hd3, unescFrom, hd0, cons0]
          · rw [unesc_00_o _ _ hb0 hb3, unesc_0_nz _ _ hb0, unesc_cons_nz _ _ hb0, iA]
            simp [unescFrom, hb0, hb3, cons0]

/-- the scanner's state-machine semantics is the declarative window semantics -/
theorem unescFrom_start_eq (xs : List UInt8) : unescFrom .start xs = unesc xs :=
  ((unesc_spec_aux xs.length xs (Nat.le_refl _)).1).symm

def stOf : Nat → PS
  | 0 => .start
  | 1 => .oneZero
  | _ => .twoZero

theorem unesc_escapeGo (p : List UInt8) (z : Nat) (hz : z ≤ 2) :
    unescFrom (stOf z) (escapeGo z p) = (p, true) := by
  induction p generalizing z with
  | nil =>
    match z, hz with
    | 0, _ => simp [escapeGo, stOf, unescFrom]
    | 1, _ => simp [escapeGo, stOf, unescFrom]
    | 2, _ => simp [escapeGo, stOf, unescFrom]
  | cons b bs ih =>
    have h0 : unescFrom .start (escapeGo 0 bs) = (bs, true) := ih 0 (by omega)
    have h1 : unescFrom .oneZero (escapeGo 1 bs) = (bs, true) := ih 1 (by omega)
    have h2 : unescFrom .twoZero (escapeGo 2 bs) = (bs, true) := ih 2 (by omega)
    by_cases hb0 : b = 0
    · subst hb0
      match z, hz with
      | 0, _ => simp [escapeGo, stOf, unescFrom, h1]
      | 1, _ => simp [escapeGo, stOf, unescFrom, h2]
      | 2, _ => simp [escapeGo, stOf, unescFrom, h1]
    · match z, hz with
      | 0, _ => simp [escapeGo, stOf, unescFrom, hb0, h0]
      | 1, _ => simp [escapeGo, stOf, unescFrom, hb0, h0]
      | 2, _ =>
        by_cases hb3 : b ≤ 3
        · simp [escapeGo, stOf, unescFrom, hb0, hb3, h0]
        · have hne3 : b ≠ 3 := by intro h; subst h; exact hb3 (by decide)
          simp [escapeGo, stOf, unescFrom, hb0, hb3, hne3, h0]

/-- C02, algebraic core: un-escaping the escaped form of *any* payload returns that payload -/
theorem unesc_escape (p : List UInt8) : unesc (escape p) = (p, true) := by
  rw [← unescFrom_start_eq]; exact unesc_escapeGo p 0 (by omega)

#print axioms unesc_escape
end Rbsp
