import H264.Rbsp
import H264.RefNal
/-! Faster, provably equal implementations of model functions that the compiled driver executes (`@[csimp]`): the
compiler replaces the model function by the fast one; the kernel has checked that they are the same function. -/
namespace Rbsp

/-- `fill_buf` without computing the loop fuel when bytes are already buffered -/
def fillBufFast (r : BR) : BR × Except IoKind (List UInt8) :=
  if r.i ≠ 0 then
    match r.inner.fillBuf with
    | .error k => (r, .error k)
    | .ok chunk => (r, .ok (chunk.take r.i))
  else fillBuf r

@[csimp] theorem fillBuf_eq_fast : @fillBuf = @fillBufFast := by
  funext r
  unfold fillBufFast
  by_cases hi : r.i ≠ 0
  · rw [if_pos hi]
    unfold fillBuf
    have hf : fuelFor r = (2 * r.inner.rest.length + 2) + 1 := by unfold fuelFor; omega
    rw [hf, fillLoop, if_pos hi]
    rfl
  · rw [if_neg hi]

def readFast (r : BR) (n : Nat) : BR × Except IoKind (List UInt8) :=
  match fillBufFast r with
  | (r', .error k) => (r', .error k)
  | (r', .ok chunk) =>
    let amt := min n chunk.length
    (consume r' amt, .ok (chunk.take amt))

@[csimp] theorem read_eq_fast : @read = @readFast := by
  funext r n
  unfold read readFast
  rw [fillBuf_eq_fast]
  rfl

end Rbsp

