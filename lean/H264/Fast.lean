import H264.Rbsp
import H264.RefNal
/-! Faster, provably equal implementations of model functions that the compiled driver executes (`@[csimp]`): the
compiler replaces the model function by the fast one; the kernel has checked that they are the same function. -/
namespace Rbsp

/-- `scan` over the first `k` bytes of a list without materialising `take k` -/
def scanLim (chunkLen : Nat) : Nat → PS → Nat → List UInt8 → ScanRes
  | 0, st, i, _ => .done st i
  | _+1, st, i, [] => .done st i
  | k+1, .start, i, b :: bs => if b = 0 then scanLim chunkLen k .oneZero (i+1) bs else scanLim chunkLen k .start (i+1) bs
  | k+1, .oneZero, i, b :: bs => if b = 0 then scanLim chunkLen k .twoZero (i+1) bs else scanLim chunkLen k .start (i+1) bs
  | k+1, .twoZero, i, b :: bs =>
      if b = 3 then .done .three i
      else if b = 0 then .invalid .twoZero i
      else scanLim chunkLen k .start (i+1) bs
  | _+1, .skip n, _, _ :: _ =>
      let m := min chunkLen n
      .consumeInner m (if n - m = 0 then .start else .skip (n - m))
  | _+1, .three, _, _ :: _ => .consumeInner 1 .postThree
  | k+1, .postThree, i, b :: bs =>
      if b = 0 then scanLim chunkLen k .oneZero (i+1) bs
      else if b ≤ 3 then scanLim chunkLen k .start (i+1) bs
      else .invalid .postThree i

theorem scanLim_eq (cl k : Nat) (st : PS) (i : Nat) (l : List UInt8) :
    scanLim cl k st i l = scan cl st i (l.take k) := by
  induction k generalizing st i l with
  | zero => cases st <;> simp [scanLim, scan]
  | succ k ih =>
    cases l with
    | nil => cases st <;> simp [scanLim, scan]
    | cons b bs =>
      cases st <;> simp only [scanLim, scan, List.take_succ_cons, ih]

/-- the chunk length matters to `scan` only through `min chunkLen n` in the skipping state -/
theorem scan_chunkLen (a b : Nat) (st : PS) (i : Nat) (l : List UInt8)
    (h : ∀ n, st = .skip n → min a n = min b n) : scan a st i l = scan b st i l := by
  induction l generalizing st i with
  | nil => cases st <;> simp [scan]
  | cons x xs ih =>
    cases st with
    | skip n => simp only [scan]; rw [h n rfl]
    | start => simp only [scan]; rw [ih .oneZero (i+1) (by intro n hn; cases hn), ih .start (i+1) (by intro n hn; cases hn)]
    | oneZero => simp only [scan]; rw [ih .twoZero (i+1) (by intro n hn; cases hn), ih .start (i+1) (by intro n hn; cases hn)]
    | twoZero => simp only [scan]; rw [ih .start (i+1) (by intro n hn; cases hn)]
    | three => simp only [scan]
    | postThree => simp only [scan]; rw [ih .oneZero (i+1) (by intro n hn; cases hn), ih .start (i+1) (by intro n hn; cases hn)]

/-- `try_fill_buf_slow` without `chunk.length` and without copying the window -/
def tryFillFast (r : BR) : BR × Except IoKind Bool :=
  match r.inner.fillBuf with
  | .error k => (r, .error k)
  | .ok chunk =>
    if chunk = [] then (r, .ok false) else
    let cl := match r.st with | .skip n => (chunk.take n).length | _ => 0
    match scanLim cl (r.maxFill - r.i) r.st r.i (chunk.drop r.i) with
    | .done st i => ({ r with st := st, i := i }, .ok true)
    | .consumeInner k st => ({ r with inner := r.inner.consume k, st := st }, .ok true)
    | .invalid st i => ({ r with st := st, i := i }, .error .invalidData)

theorem tryFill_eq_fast' (r : BR) : tryFill r = tryFillFast r := by
  unfold tryFill tryFillFast
  cases hf : r.inner.fillBuf with
  | error k => rfl
  | ok chunk =>
    simp only
    by_cases hc : chunk = []
    · simp [hc]
    · simp only [hc, ↓reduceIte]
      have htodo : (chunk.take (min chunk.length r.maxFill)).drop r.i = (chunk.drop r.i).take (r.maxFill - r.i) := by
        rw [List.take_drop]
        have : List.take (min chunk.length r.maxFill) chunk = List.take r.maxFill chunk := by
          by_cases hm : chunk.length ≤ r.maxFill
          · rw [Nat.min_eq_left hm, List.take_of_length_le (Nat.le_refl _), List.take_of_length_le hm]
          · rw [Nat.min_eq_right (by omega)]
        rw [this]
        by_cases hi : r.i ≤ r.maxFill
        · have e : r.i + (r.maxFill - r.i) = r.maxFill := by omega
          rw [e]
        · rw [List.drop_eq_nil_of_le (by simp only [List.length_take]; omega),
              List.drop_eq_nil_of_le (by simp only [List.length_take]; omega)]
      rw [htodo, scanLim_eq]
      have hs := scan_chunkLen chunk.length (match r.st with | .skip n => (chunk.take n).length | _ => 0) r.st r.i
        ((chunk.drop r.i).take (r.maxFill - r.i)) (by
          intro n hn
          rw [hn]
          simp only [List.length_take]
          omega)
      rw [hs]
      rfl

@[csimp] theorem tryFill_eq_fast : @tryFill = @tryFillFast := by
  funext r; exact tryFill_eq_fast' r

end Rbsp

namespace Rbsp

/-- the fill loop with "out of fuel" made visible -/
def fillLoopF : Nat → BR → Option (BR × Except IoKind Unit)
  | 0, _ => none
  | fuel+1, r =>
    if r.i ≠ 0 then some (r, .ok ()) else
    match tryFill r with
    | (r', .error k) => some (r', .error k)
    | (r', .ok false) => some (r', .ok ())
    | (r', .ok true) => fillLoopF fuel r'

/-- when the loop finishes within `f` steps, any larger fuel gives the same result -/
theorem fillLoopF_some (f : Nat) (r : BR) (x : BR × Except IoKind Unit) (h : fillLoopF f r = some x) (g : Nat) (hg : f ≤ g) :
    fillLoop g r = x := by
  induction f generalizing r g with
  | zero => simp [fillLoopF] at h
  | succ f ih =>
    obtain ⟨g', rfl⟩ : ∃ g', g = g' + 1 := ⟨g - 1, by omega⟩
    unfold fillLoopF at h
    unfold fillLoop
    by_cases hi : r.i ≠ 0
    · rw [if_pos hi] at h ⊢; exact (Option.some.inj h)
    · rw [if_neg hi] at h ⊢
      cases ht : tryFill r with
      | mk r' res =>
        rw [ht] at h
        cases res with
        | error k => exact (Option.some.inj h)
        | ok b =>
          cases b with
          | false => exact (Option.some.inj h)
          | true => exact ih r' h g' (by omega)

/-- a fuel that costs O(1) to compute and never exceeds `fuelFor` -/
def fastFuel (r : BR) : Nat := 2 * (r.inner.cur.take 3).length + 3

theorem fastFuel_le (r : BR) : fastFuel r ≤ fuelFor r := by
  unfold fastFuel fuelFor Chunked.rest
  have : (r.inner.cur.take 3).length ≤ r.inner.cur.length := by simp [List.length_take]; omega
  simp only [List.length_append]
  omega

/-- `fill_buf` without computing the loop fuel (the length of everything still to come) unless the loop really needs
more than a handful of steps -/
def fillBufFast (r : BR) : BR × Except IoKind (List UInt8) :=
  if r.i ≠ 0 then
    match r.inner.fillBuf with
    | .error k => (r, .error k)
    | .ok chunk => (r, .ok (chunk.take r.i))
  else
    match fillLoopF (fastFuel r) r with
    | some (r', .error k) => (r', .error k)
    | some (r', .ok ()) =>
      (match r'.inner.fillBuf with
       | .error k => (r', .error k)
       | .ok chunk => (r', .ok (chunk.take r'.i)))
    | none => fillBuf r

@[csimp] theorem fillBuf_eq_fast : @fillBuf = @fillBufFast := by
  funext r
  unfold fillBufFast
  by_cases hi : r.i ≠ 0
  · rw [if_pos hi]
    unfold fillBuf
    have hf : fuelFor r = (2 * r.inner.rest.length + 2) + 1 := by unfold fuelFor; omega
    rw [hf, fillLoop, if_pos hi]
    rfl
  · rw [if_neg hi]
    cases hF : fillLoopF (fastFuel r) r with
    | none => rfl
    | some x =>
      have hx := fillLoopF_some (fastFuel r) r x hF (fuelFor r) (fastFuel_le r)
      unfold fillBuf
      rw [hx]
      obtain ⟨r', res⟩ := x
      cases res with
      | error k => rfl
      | ok u => cases u; rfl

def readFast (r : BR) (n : Nat) : BR × Except IoKind (List UInt8) :=
  match fillBufFast r with
  | (r', .error k) => (r', .error k)
  | (r', .ok chunk) =>
    let amt := min n chunk.length
    (consume r' amt, .ok (chunk.take amt))

@[csimp] theorem read_eq_fast : @read = @readFast := by
  funext r n
  unfold read readFast
  rw [fillBuf_eq_fast]
  rfl

end Rbsp

