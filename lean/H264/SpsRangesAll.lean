import H264.SpsExact
/-! C16 for **every** accepted SPS, including the MVC / 3D profile_idc values that C04 sets aside: the range facts do
not depend on which profiles carry the chroma syntax -/
namespace Sps
open Bits

theorem specLists_len (size4 : Nat) (ls : ScalingSyntax) (i : Nat) (x y : List ScalingList)
    (h : specLists size4 i ls = some (x, y)) :
    x.length = min (size4 - i) ls.length ∧ x.length + y.length = ls.length := by
  induction ls generalizing i x y with
  | nil => simp [specLists] at h; obtain ⟨rfl, rfl⟩ := h; simp
  | cons sl rest ih =>
    simp only [specLists] at h
    by_cases hi : i < size4
    · simp only [hi, ↓reduceIte] at h
      cases hs : specScalingList 16 sl with
      | none => simp [hs] at h
      | some r =>
        simp only [hs, Option.bind_some] at h
        cases hr : specLists size4 (i+1) rest with
        | none => simp [hr] at h
        | some p =>
          obtain ⟨px, py⟩ := p
          simp only [hr, Option.map_some, Option.some.injEq, Prod.mk.injEq] at h
          obtain ⟨rfl, rfl⟩ := h
          obtain ⟨a, b⟩ := ih (i+1) px py hr
          simp only [List.length_cons]
          constructor <;> omega
    · simp only [hi, ↓reduceIte] at h
      cases hs : specScalingList 64 sl with
      | none => simp [hs] at h
      | some r =>
        simp only [hs, Option.bind_some] at h
        cases hr : specLists size4 (i+1) rest with
        | none => simp [hr] at h
        | some p =>
          obtain ⟨px, py⟩ := p
          simp only [hr, Option.map_some, Option.some.injEq, Prod.mk.injEq] at h
          obtain ⟨rfl, rfl⟩ := h
          obtain ⟨a, b⟩ := ih (i+1) px py hr
          simp only [List.length_cons]
          constructor <;> omega

/-- bit depths at most 14 and scaling-list counts matching the chroma format, for every profile_idc -/
theorem readChromaInfo_ranges (profileIdc : Nat) (s s' : Src) (c : ChromaInfo)
    (h : readChromaInfo profileIdc s = .ok (c, s')) :
    c.bitDepthLumaMinus8 ≤ 6 ∧ c.bitDepthChromaMinus8 ≤ 6 ∧
    (∀ m, c.scalingMatrix = some m → m.l4x4.length = 6 ∧ m.l8x8.length = if c.chromaFormat = .yuv444 then 6 else 2) ∧
    s'.fin = s.fin := by
  unfold readChromaInfo at h
  by_cases hp : hasChromaInfo profileIdc = true
  · simp only [hp, ↓reduceIte] at h
    bind_step h with idc s1 h1
    bind_step h with sep s2 h2
    bind_step h with bl s3 h3
    bind_step h with bc s4 h4
    bind_step h with q s5 h5
    bind_step h with sm s6 h6
    obtain ⟨rfl, rfl⟩ := pure_ok h
    have hbd : ∀ (t t' : Src) (v : Nat), readBitDepthMinus8 t = .ok (v, t') → v ≤ 6 ∧ t'.fin = t.fin := by
      intro t t' v hv
      unfold readBitDepthMinus8 at hv
      bind_step hv with w t1 hw
      obtain ⟨_, _, w3⟩ := readUe_exact _ _ _ _ hw
      by_cases c6 : w > 6
      · simp [c6] at hv
      simp only [c6, ↓reduceIte] at hv
      obtain ⟨rfl, rfl⟩ := pure_ok hv
      exact ⟨by omega, w3⟩
    obtain ⟨_, _, i3⟩ := readUe_exact _ _ _ _ h1
    have p3 : s2.fin = s1.fin := by
      unfold readSeparateColourPlane at h2
      by_cases h3' : idc = 3
      · simp only [h3', ↓reduceIte] at h2; exact (readBool_exact _ _ _ _ h2).2
      · simp only [h3', ↓reduceIte] at h2; obtain ⟨_, rfl⟩ := pure_ok h2; rfl
    obtain ⟨_, q3⟩ := readBool_exact _ _ _ _ h5
    have m3 : s6.fin = s5.fin := by
      unfold readOptScalingMatrix at h6
      bind_step h6 with pres t0 hpres
      obtain ⟨_, e3⟩ := readBool_exact _ _ _ _ hpres
      cases pres with
      | false =>
        simp only [Bool.false_eq_true, ↓reduceIte] at h6
        obtain ⟨_, rfl⟩ := pure_ok h6; exact e3
      | true =>
        simp only [↓reduceIte] at h6
        bind_step h6 with mm t1 hmm
        obtain ⟨_, rfl⟩ := pure_ok h6
        unfold readSeqScalingMatrix at hmm
        obtain ⟨_, _, _, _, _, _, _, _, hf⟩ := readScalingLists_exact _ _ _ _ _ _ _ _ hmm
        rw [hf, e3]
    refine ⟨(hbd _ _ _ h3).1, (hbd _ _ _ h4).1, ?_, by rw [m3, q3, (hbd _ _ _ h4).2, (hbd _ _ _ h3).2, p3, i3]⟩
    intro m hm
    simp only at hm
    unfold readOptScalingMatrix at h6
    bind_step h6 with pres t0 hpres
    cases pres with
    | false =>
      simp only [Bool.false_eq_true, ↓reduceIte] at h6
      obtain ⟨rfl, rfl⟩ := pure_ok h6
      cases hm
    | true =>
      simp only [↓reduceIte] at h6
      bind_step h6 with mm t1 hmm
      obtain ⟨rfl, rfl⟩ := pure_ok h6
      injection hm with hm; subst hm
      unfold readSeqScalingMatrix at hmm
      obtain ⟨ls, x, y, hlen, hsp, _, hmv, _, _⟩ := readScalingLists_exact _ _ _ _ _ _ _ _ hmm
      obtain ⟨lx, lxy⟩ := specLists_len 6 ls 0 x y hsp
      rw [hmv]
      simp only [List.reverse_nil, List.nil_append]
      have h444 : (ChromaFormat.ofIdc idc = .yuv444) ↔ idc = 3 := by
        unfold ChromaFormat.ofIdc; split <;> simp_all
      by_cases h3 : idc = 3
      · simp only [h3, ↓reduceIte] at hlen
        have : ChromaFormat.ofIdc idc = .yuv444 := h444.mpr h3
        simp only [this, ↓reduceIte]
        omega
      · simp only [h3, ↓reduceIte] at hlen
        have : ¬ ChromaFormat.ofIdc idc = .yuv444 := fun hh => h3 (h444.mp hh)
        simp only [this, ↓reduceIte]
        omega
  · have hp' : hasChromaInfo profileIdc = false := by simpa using hp
    simp only [hp', Bool.false_eq_true, ↓reduceIte] at h
    obtain ⟨rfl, rfl⟩ := pure_ok h
    exact ⟨by decide, by decide, (by intro m hm; cases hm), rfl⟩

/-- the ranges of `Sps.WF` that do not concern the chroma syntax -/
def Sps.RangesCore (v : Sps) : Prop :=
  v.profileIdc < 256 ∧ v.constraintFlags < 256 ∧ v.levelIdc < 256 ∧ v.spsId ≤ 31 ∧
  v.log2MaxFrameNumMinus4 ≤ 12 ∧ v.picOrderCnt.WF ∧
  Ue v.maxNumRefFrames ∧ Ue v.picWidthInMbsMinus1 ∧ Ue v.picHeightInMapUnitsMinus1 ∧
  (match v.frameCropping with | none => True | some c => Ue c.left ∧ Ue c.right ∧ Ue c.top ∧ Ue c.bottom) ∧
  (match v.vui with | none => True | some u => u.WF v.maxNumRefFrames)

/-- **C16 (SPS), every profile_idc**: whatever the SPS parser accepts is within the documented bounds and must have seen
the end of the RBSP -/
theorem parseSps_ranges_all (s s' : Src) (v : Sps) (h : parseSps s = .ok (v, s')) :
    v.RangesCore ∧ v.chromaInfo.bitDepthLumaMinus8 ≤ 6 ∧ v.chromaInfo.bitDepthChromaMinus8 ≤ 6 ∧
    (∀ m, v.chromaInfo.scalingMatrix = some m →
      m.l4x4.length = 6 ∧ m.l8x8.length = if v.chromaInfo.chromaFormat = .yuv444 then 6 else 2) ∧ s.fin = .eof := by
  unfold parseSps at h
  bind_step h with p s1 h1
  bind_step h with cf s2 h2
  bind_step h with lv s3 h3
  bind_step h with id s4 h4
  obtain ⟨p1, _, _⟩ := readBits_exact _ _ _ _ _ h1
  obtain ⟨c1, _, _⟩ := readBits_exact _ _ _ _ _ h2
  obtain ⟨l1, _, _⟩ := readBits_exact _ _ _ _ _ h3
  by_cases cid : id > 31
  · simp [cid] at h
  simp only [cid, ↓reduceIte] at h
  bind_step h with ci s5 h5
  bind_step h with l2v s6 h6
  by_cases cl2 : l2v > 12
  · simp [cl2] at h
  simp only [cl2, ↓reduceIte] at h
  bind_step h with poc s7 h7
  obtain ⟨o1, _, o3⟩ := readPicOrderCnt_exact _ _ _ h7
  bind_step h with mr s8 h8
  obtain ⟨m1, _, m3⟩ := readUe_exact _ _ _ _ h8
  bind_step h with gaps s9 h9
  obtain ⟨_, g3⟩ := readBool_exact _ _ _ _ h9
  bind_step h with w s10 h10
  obtain ⟨w1, _, w3⟩ := readUe_exact _ _ _ _ h10
  bind_step h with ht s11 h11
  obtain ⟨t1, _, t3⟩ := readUe_exact _ _ _ _ h11
  bind_step h with fm s12 h12
  obtain ⟨_, fm3⟩ := readFrameMbsFlags_exact _ _ _ h12
  bind_step h with d8 s13 h13
  obtain ⟨_, d3⟩ := readBool_exact _ _ _ _ h13
  bind_step h with fc s14 h14
  obtain ⟨fc1, _, fc3⟩ := readFrameCropping_exact _ _ _ h14
  bind_step h with vui s15 h15
  obtain ⟨v1, _, v3⟩ := readVui_exact _ _ _ _ h15
  bind_step h with u s16 h16
  obtain ⟨rfl, rfl⟩ := pure_ok h
  obtain ⟨b1, b2, b3, ci3⟩ := readChromaInfo_ranges _ _ _ _ h5
  obtain ⟨e1, _, _⟩ := finishRbsp_exact _ _ h16
  refine ⟨⟨p1, c1, l1, by show id ≤ 31; omega, by show l2v ≤ 12; omega, o1, m1, w1, t1, ?_, ?_⟩, b1, b2, b3, ?_⟩
  · cases fc <;> simpa [OptWF] using fc1
  · cases vui <;> simpa [OptWF] using v1
  · -- the end of the RBSP: `fin` is threaded unchanged through every read
    obtain ⟨_, _, i3⟩ := readUe_exact _ _ _ _ h4
    obtain ⟨_, _, f3⟩ := readUe_exact _ _ _ _ h6
    obtain ⟨_, _, p3⟩ := readBits_exact _ _ _ _ _ h1
    obtain ⟨_, _, c3⟩ := readBits_exact _ _ _ _ _ h2
    obtain ⟨_, _, l3⟩ := readBits_exact _ _ _ _ _ h3
    rw [← e1, v3, fc3, d3, fm3, t3, w3, g3, m3, o3, f3, ci3, i3, l3, c3, p3]

end Sps
