import H264.PpsFwd
namespace Pps
open Bits Sps

def Pps.WF (s : Sps.Sps) (v : Pps) (sm : Option ScalingSyntax) : Prop :=
  v.ppsId ≤ 255 ∧ v.spsId ≤ 31 ∧
  (match v.sliceGroups with | none => True | some g => g.WF s) ∧
  v.numRefIdxL0DefaultActiveMinus1 ≤ 31 ∧ v.numRefIdxL1DefaultActiveMinus1 ≤ 31 ∧
  v.weightedBipredIdc < 4 ∧
  -(26 + 6 * (s.chromaInfo.bitDepthLumaMinus8 : Int)) ≤ v.picInitQpMinus26 ∧ v.picInitQpMinus26 ≤ 25 ∧
  -26 ≤ v.picInitQsMinus26 ∧ v.picInitQsMinus26 ≤ 25 ∧
  -12 ≤ v.chromaQpIndexOffset ∧ v.chromaQpIndexOffset ≤ 12 ∧
  (match v.extension with | none => True | some e => e.WF s sm)

/-- **C05 (forward)**: every PPS within the standard's ranges that refers to an SPS present in the context
(whose bit depth is the accepted range), encoded per 7.3.2.2 and followed by trailing bits, parses to exactly the
encoded values — every slice-group map type with the prescribed number of elements, and the optional tail. -/
theorem C05_forward (spsById : Nat → Option Sps.Sps) (s : Sps.Sps) (v : Pps) (sm : Option ScalingSyntax)
    (hctx : spsById v.spsId = some s) (hbd : s.chromaInfo.bitDepthLumaMinus8 ≤ 6)
    (wf : v.WF s sm) (z : Nat) :
    parsePps spsById ⟨encPps v sm ++ trailing z, .eof⟩ = .ok (v, ⟨[], .eof⟩) := by
  obtain ⟨ppsId, spsId, ec, bf, sg, l0, l1, wp, wb, qp, qs, cq, db, ci, rp, ext⟩ := v
  obtain ⟨w1, w2, w3, w4, w5, w6, w7, w8, w9, w10, w11, w12, w13⟩ := wf
  simp only at hctx w1 w2 w3 w4 w5 w6 w7 w8 w9 w10 w11 w12 w13
  have u1 : ppsId < 2^32 - 1 := by omega
  have n1 : ¬ ppsId > 255 := by omega
  have u2 : spsId < 2^32 - 1 := by omega
  have n2 : ¬ spsId > 31 := by omega
  have u4 : l0 < 2^32 - 1 := by omega
  have n4 : ¬ l0 > 31 := by omega
  have u5 : l1 < 2^32 - 1 := by omega
  have n5 : ¬ l1 > 31 := by omega
  have sqp : SeRange qp := by unfold SeRange; omega
  have sqs : SeRange qs := by unfold SeRange; omega
  have scq : SeRange cq := by unfold SeRange; omega
  have nqp : ¬ (qp < -(26 + 6 * (s.chromaInfo.bitDepthLumaMinus8 : Int)) ∨ qp > 25) := by omega
  have nqs : ¬ (qs < -26 ∨ qs > 25) := by omega
  have ncq : ¬ (cq < -12 ∨ cq > 12) := by omega
  simp [parsePps, encPps, List.append_assoc, readUe_enc _ _ u1, n1, readUe_enc _ _ u2, n2, hctx,
    readSliceGroups_enc s sg w3, readNumRefIdx, readUe_enc _ _ u4, n4, readUe_enc _ _ u5, n5,
    readBits_enc _ 2 _ (show wb < 2^2 from w6), readSe_enc _ _ sqp, readSe_enc _ _ sqs, readSe_enc _ _ scq,
    readPpsExtra_enc s ext sm w13 z, nqp, nqs, ncq, finishRbsp_trailing]

#print axioms C05_forward
end Pps
