import H264.SmallProof
namespace SmallProof
/-- model `Chunked` reader = real `RefNalReader` on every chunking of a four-byte NAL × complete / incomplete × six drain programs -/
theorem refnal_model_eq_code : (List.range 96).map refnalRow = Generated.refnalRows := by decide +kernel
end SmallProof
