import H264.GeneratedTables
/-! theorems over the function graphs extracted from the running code: the T.35 country-code table (a module of its own, so that a broken table of another
property does not take this one down) -/
namespace C20
open Generated

/-- T.35: named countries are exactly the codes 00…C4; FF is the extension escape; remainder offsets -/
theorem t35_table : t35.length = 256 ∧ ∀ b : Fin 256,
    t35.getD b.val (9,9) = (if b.val ≤ 0xC4 then (0, 1) else if b.val = 0xFF then (2, 2) else (1, 1)) := by
  decide +kernel

end C20
