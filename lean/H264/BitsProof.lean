import H264.Bits
import H264.GeneratedBits
namespace BitsProof
open Bits

/-! ### the bit reader (`rbsp::BitReader` over bitstream-io) on a complete small domain, by proof

The bit-list semantics of `bitstream-io` is an assumption of the whole bit-level model (trusted base). On the domain
{all first bytes} × {00, ff, 5a} × {bit offsets 0…7} the real reader's results are extracted on every run and the kernel
checks that the model functions return exactly them: values, how many bits are left, which error. -/

def secondBytes : List Nat := [0x00, 0xff, 0x5a]
def srcAt (b0 j : Nat) : Src := ⟨(encBits 8 b0 ++ encBits 8 (secondBytes.getD (j / 8) 0)).drop (j % 8), .eof⟩
def errCode : Err → Nat
  | .tooLarge _ => 3 | .io _ .eof => 2 | .remaining => 5 | _ => 4

def ueRow (b0 j : Nat) : Nat × Nat × Nat :=
  match readUe "f" (srcAt b0 j) with
  | .ok (v, s') => (1, v, s'.bits.length)
  | .error e => (errCode e, 0, 0)
def seRow (b0 j : Nat) : Nat × Nat × Nat :=
  match readSe "f" (srcAt b0 j) with
  | .ok (v, s') => (1, (if v < 0 then 2 * v.natAbs + 1 else 2 * v.natAbs), s'.bits.length)
  | .error e => (errCode e, 0, 0)
def endRow (b0 j : Nat) : Nat × Nat × Nat :=
  ((match hasMore "f" (srcAt b0 j) with | .ok (true, _) => 1 | .ok (false, _) => 0 | .error _ => 9),
   (match finishRbsp (srcAt b0 j) with | .ok _ => 1 | .error e => errCode e),
   (match finishSei (srcAt b0 j) with | .ok _ => 1 | .error e => errCode e))

end BitsProof
