import H264.GeneratedTables
/-! theorems over the function graphs extracted from the running code: profile_idc and (constraint flags, level_idc) round trips (a module of its own, so that a broken table of another
property does not take this one down) -/
namespace C20
open Generated

/-- profile_idc → Profile → profile_idc is the identity on all 256 values -/
theorem profile_roundtrip : profileRoundTrip.length = 256 ∧ ∀ b : Fin 256, profileRoundTrip.getD b.val 999 = b.val := by
  decide +kernel

def level (f l : Nat) : Nat × Nat := (levelRows.getD (levelRowIdx.getD f 99) []).getD l (999, 9)

theorem level_rows : levelRowIdx.length = 256 ∧ levelRows.length = 2 ∧
    (∀ f : Fin 256, levelRowIdx.getD f.val 99 = f.val / 16 % 2) ∧
    (∀ l : Fin 256, (levelRows.getD 0 []).getD l.val (999,9) = (l.val, 0)) ∧
    (∀ l : Fin 256, (levelRows.getD 1 []).getD l.val (999,9) = (l.val, if l.val = 11 then 1 else 0)) := by
  decide +kernel

/-- all 2¹⁶ (flags, level_idc) pairs: the idc is recovered; level 1b ⇔ idc 11 ∧ constraint flag 3 -/
theorem level_roundtrip (f l : Fin 256) :
    (level f.val l.val).1 = l.val ∧ ((level f.val l.val).2 = 1 ↔ (l.val = 11 ∧ f.val / 16 % 2 = 1)) := by
  obtain ⟨_, _, hidx, h0, h1⟩ := level_rows
  unfold level
  rw [hidx f]
  have hb : f.val / 16 % 2 = 0 ∨ f.val / 16 % 2 = 1 := by omega
  rcases hb with hb | hb
  · rw [hb, h0 l]; simp [hb]
  · rw [hb, h1 l]; by_cases h11 : l.val = 11 <;> simp [h11, hb]

/-- Table A-1: exactly the level_idc values 10, 11, 12, 13, 20, 21, 22, 30, 31, 32, 40, 41, 42, 50, 51, 52, 60, 61, 62 are named levels
(whatever the constraint flags); every other value is carried as `Unknown(idc)` -/
theorem level_known : levelKnown.length = 256 ∧ ∀ l : Fin 256,
    levelKnown.getD l.val 9 = (if [10, 11, 12, 13, 20, 21, 22, 30, 31, 32, 40, 41, 42, 50, 51, 52, 60, 61, 62].contains l.val then 1 else 0) := by
  decide +kernel

end C20
