import H264.SliceC06
import H264.SpsExact
/-! Prototype for C03 (parsers): no model parser can reach a `panic` outcome, whatever the input and context -/
namespace Bits

def Err.isPanic : Err → Bool | .panic _ => true | _ => false

/-- `p` never panics, on any source -/
def NoPanic {α} (p : P α) : Prop := ∀ s e, p s = .error e → e.isPanic = false

theorem NoPanic.pure {α} (a : α) : NoPanic (pure a : P α) := by intro s e h; simp at h
theorem NoPanic.fail {α} (e : Err) (h : e.isPanic = false) : NoPanic (fail e : P α) := by
  intro s e' h'; simp at h'; rw [← h']; exact h
theorem NoPanic.bind {α β} {p : P α} {f : α → P β} (hp : NoPanic p) (hf : ∀ a, NoPanic (f a)) :
    NoPanic (p >>= f) := by
  intro s e h
  simp only [bind_run] at h
  cases hps : p s with
  | error e' => rw [hps] at h; simp at h; rw [← h]; exact hp s e' hps
  | ok v => obtain ⟨a, s'⟩ := v; rw [hps] at h; exact hf a s' e h
theorem NoPanic.ite {α} (c : Prop) [Decidable c] {p q : P α} (hp : NoPanic p) (hq : NoPanic q) :
    NoPanic (if c then p else q) := by split <;> assumption

theorem np_readBit (name) : NoPanic (readBit name) := by
  intro s e h; unfold readBit at h; split at h <;> simp at h; rw [← h]; rfl
theorem np_readBits (name n) : NoPanic (readBits name n) := by
  induction n with
  | zero => exact NoPanic.pure _
  | succ n ih => unfold readBits; exact NoPanic.bind (np_readBit _) fun _ => NoPanic.bind ih fun _ => NoPanic.pure _
theorem np_unaryGo (name fin bits acc e) (h : unaryGo name fin bits acc = .error e) : e.isPanic = false := by
  induction bits generalizing acc with
  | nil => simp [unaryGo] at h; rw [← h]; rfl
  | cons b bs ih => cases b <;> simp [unaryGo] at h; exact ih _ h
theorem np_readUnary1 (name) : NoPanic (readUnary1 name) := fun s e h => np_unaryGo name _ _ _ e h
theorem np_readUe (name) : NoPanic (readUe name) := by
  unfold readUe
  refine NoPanic.bind (np_readUnary1 _) fun c => NoPanic.ite _ (NoPanic.fail _ rfl) (NoPanic.ite _ ?_ (NoPanic.pure _))
  exact NoPanic.bind (np_readBits _ _) fun _ => NoPanic.pure _
theorem np_readSe (name) : NoPanic (readSe name) := NoPanic.bind (np_readUe _) fun _ => NoPanic.pure _
theorem np_readBool (name) : NoPanic (readBool name) := np_readBit name
theorem np_hasMore (name) : NoPanic (hasMore name) := by
  intro s e h; unfold hasMore at h
  split at h
  · split at h <;> simp at h; rw [← h]; rfl
  · split at h
    · simp at h
    · split at h <;> simp at h; rw [← h]; rfl
theorem np_finishRbsp : NoPanic finishRbsp := by
  intro s e h; unfold finishRbsp at h
  split at h
  · simp at h; rw [← h]; rfl
  · split at h <;> simp at h <;> rw [← h] <;> rfl
  · split at h
    · simp at h; rw [← h]; rfl
    · split at h <;> simp at h; rw [← h]; rfl

/-- a successful `ue(v)` read consumes at least one bit -/
theorem readUe_consumes (name) (s s' : Src) (k : Nat) (h : readUe name s = .ok (k, s')) :
    s'.bits.length < s.bits.length := by
  obtain ⟨_, hb, _⟩ := readUe_exact name s s' k h
  rw [hb]; simp [encUe, encUe']; omega

syntax "np_step" : tactic
macro_rules | `(tactic| np_step) => `(tactic| first
  | exact NoPanic.pure _ | exact NoPanic.fail _ rfl | exact np_readUe _ | exact np_readSe _
  | exact np_readBool _ | exact np_readBits _ _ | exact np_hasMore _ | exact np_finishRbsp
  | assumption
  | apply NoPanic.ite | refine NoPanic.bind ?_ (fun _ => ?_))
macro "nopanic" : tactic => `(tactic| repeat' np_step)

end Bits

namespace Slice
open Bits

/-- the fuel handed to the list-modification loop is never exhausted: every iteration consumes a bit -/
theorem np_readModOps (fuel : Nat) (s : Src) (hf : s.bits.length < fuel) :
    ∀ e, readModOps fuel s = .error e → e.isPanic = false := by
  induction fuel generalizing s with
  | zero => omega
  | succ f ih =>
    intro e h
    unfold readModOps at h
    simp only [bind_run] at h
    cases hu : readUe "modification_of_pic_nums_idc" s with
    | error e' => rw [hu] at h; simp at h; rw [← h]; exact np_readUe _ s e' hu
    | ok v =>
      obtain ⟨idc, s1⟩ := v
      have hc := readUe_consumes _ _ _ _ hu
      rw [hu] at h; simp only at h
      -- the three recursive branches have the same shape
      have recur : ∀ (nm : String) (mk : Nat → ModOp),
          (do let v ← readUe nm; let rest ← readModOps f; Pure.pure (mk v :: rest) : P (List ModOp)) s1 = .error e →
          e.isPanic = false := by
        intro nm mk h'
        simp only [bind_run] at h'
        cases hv : readUe nm s1 with
        | error e' => rw [hv] at h'; simp at h'; rw [← h']; exact np_readUe _ s1 e' hv
        | ok w =>
          obtain ⟨v, s2⟩ := w
          have hc2 := readUe_consumes _ _ _ _ hv
          rw [hv] at h'; simp only at h'
          cases hr : readModOps f s2 with
          | error e' => rw [hr] at h'; simp at h'; rw [← h']; exact ih s2 (by omega) e' hr
          | ok r => rw [hr] at h'; simp at h'
      split at h
      · exact recur _ _ h
      · split at h
        · exact recur _ _ h
        · split at h
          · exact recur _ _ h
          · split at h
            · simp at h
            · simp at h; rw [← h]; rfl

theorem np_readModList : NoPanic readModList := by
  unfold readModList
  refine NoPanic.bind (np_readBool _) fun f => NoPanic.ite _ (NoPanic.pure _) ?_
  intro s e h
  exact np_readModOps _ s (by omega) e h

#print axioms np_readModList
end Slice
