import H264.Serialise
import H264.AnnexBShapes
import H264.Accum
/-! Prototype for C12: Annex B reader ∘ accumulator on a chunked, serialised NAL sequence delivers every NAL
completely, exactly once, in order and byte-identical (handler policy: always `Buffer`) -/
namespace C12
open AnnexB Accum

/-- group an event stream into units (bytes between end markers); empty units are dropped, as the accumulator
never shows an empty NAL -/
def splitUnits : List UInt8 → List Ev → List (List UInt8)
  | _, [] => []
  | cur, .byte b :: es => splitUnits (cur ++ [b]) es
  | cur, .endUnit :: es => (if cur = [] then [] else [cur]) ++ splitUnits [] es

def stepsOf (calls : List Call) : List Step := calls.map fun c => ⟨c.bufs, c.fin, .buffer⟩

def completeOnes (l : List (List UInt8 × Bool)) : List (List UInt8) := (l.filter (·.2)).map (·.1)

theorem splitUnits_bytes (cur bs : List UInt8) (es : List Ev) :
    splitUnits cur (bs.map Ev.byte ++ es) = splitUnits (cur ++ bs) es := by
  induction bs generalizing cur with
  | nil => simp
  | cons b bs ih => simp [splitUnits, ih]

/-- with an always-`Buffer` handler the complete invocations are exactly the non-empty units of the event stream -/
theorem complete_eq_units (calls : List Call) (cur : List UInt8) :
    completeOnes (specRun ⟨cur, false⟩ (stepsOf calls)) = splitUnits cur (events calls) := by
  induction calls generalizing cur with
  | nil => simp [stepsOf, specRun, completeOnes, events, splitUnits]
  | cons c cs ih =>
    have hev : events (c :: cs) = c.bufs.flatten.map Ev.byte ++ ((if c.fin then [Ev.endUnit] else []) ++ events cs) := by
      simp [events, Call.events, List.append_assoc]
    rw [hev, splitUnits_bytes]
    simp only [stepsOf, List.map_cons, specRun, Bool.not_false, Bool.true_and]
    cases hf : c.fin with
    | true =>
      simp only [ghostStep, ↓reduceIte, List.cons_append, List.nil_append, splitUnits]
      have := ih []
      simp only [stepsOf] at this
      by_cases he : cur ++ c.bufs.flatten = []
      · simp [he, completeOnes] at this ⊢; exact this
      · have he' : (cur ++ c.bufs.flatten).isEmpty = false := by simpa using he
        simp only [he', Bool.not_false, ↓reduceIte, he]
        simp only [completeOnes, List.cons_append, List.nil_append, List.filter_cons, ↓reduceIte,
          List.map_cons] at this ⊢
        rw [this]
    | false =>
      simp only [ghostStep, Bool.false_eq_true, ↓reduceIte, List.nil_append]
      have := ih (cur ++ c.bufs.flatten)
      simp only [stepsOf] at this
      by_cases he : cur ++ c.bufs.flatten = []
      · simp [he, completeOnes] at this ⊢; exact this
      · have he' : (cur ++ c.bufs.flatten).isEmpty = false := by simpa using he
        simp only [he', Bool.not_false, ↓reduceIte, Bool.false_or, beq_self_eq_true, Bool.and_false]
        have hbeq : (Interest.buffer == Interest.ignore) = false := by decide
        simp only [completeOnes, List.cons_append, List.nil_append, List.filter_cons, Bool.false_eq_true,
          ↓reduceIte, hbeq] at this ⊢
        exact this

theorem splitUnits_unitsOf (nals : List (Nat × List UInt8)) (h : ∀ p ∈ nals, p.2 ≠ []) :
    splitUnits [] (unitsOf nals) = nals.map (·.2) := by
  induction nals with
  | nil => simp [unitsOf, splitUnits]
  | cons p rest ih =>
    have hp := h p (by simp)
    simp only [unitsOf, List.map_cons, List.flatten_cons, List.append_assoc]
    rw [splitUnits_bytes]
    simp only [List.nil_append, List.cons_append, splitUnits, hp, ↓reduceIte]
    have := ih (fun q hq => h q (by simp [hq]))
    simp only [unitsOf] at this
    rw [this]

theorem pushAll_shaped (s : St) (chunks : List (List UInt8)) : ∀ c ∈ (pushAll s chunks).2, c.WellShaped := by
  induction chunks generalizing s with
  | nil => simp [pushAll]
  | cons ch cs ih =>
    intro c hc
    simp only [pushAll] at hc
    rcases List.mem_append.mp hc with h | h
    · exact push_shaped s ch c h
    · exact ih _ c h

/-- **C12 (framing + accumulation)**: however the serialised stream is cut into `push` calls, after the final
`reset` the always-`Buffer` handler has been shown every NAL unit completely, exactly once, in order, byte-identical -/
theorem C12_framing (nals : List (Nat × List UInt8)) (hok : ∀ p ∈ nals, NalOk p.2)
    (chunks : List (List UInt8)) (hcut : chunks.flatten = serialise nals) :
    let calls := (pushAll St.start chunks).2 ++ (reset (pushAll St.start chunks).1).2
    completeOnes (obs (Accum.run Accum.init (stepsOf calls) []).2) = nals.map (·.2) := by
  intro calls
  have hshape : ∀ c ∈ calls, c.WellShaped := by
    intro c hc
    rcases List.mem_append.mp hc with h | h
    · exact pushAll_shaped _ _ c h
    · exact reset_shaped _ c h
  have hne : ∀ s ∈ stepsOf calls, ∀ b ∈ s.bufs, b ≠ [] := by
    intro s hs b hb
    simp only [stepsOf, List.mem_map] at hs
    obtain ⟨c, hc, rfl⟩ := hs
    exact (hshape c hc).1 b hb
  have hinit : Accum.Inv Accum.init ⟨[], false⟩ := by simp [Accum.Inv, Accum.init]
  obtain ⟨hrun, _⟩ := Accum.run_spec Accum.init ⟨[], false⟩ hinit (stepsOf calls) hne []
  rw [hrun]
  simp only [obs, List.map_nil, List.nil_append]
  rw [complete_eq_units calls []]
  have hev : events calls = unitsOf nals := by
    show events ((pushAll St.start chunks).2 ++ (reset (pushAll St.start chunks).1).2) = _
    rw [C01_reset, hcut, segment_serialise nals hok]
  rw [hev]
  exact splitUnits_unitsOf nals (fun p hp => (hok p hp).1)

#print axioms C12_framing
end C12
