import H264.RefNal
import H264.RbspInit
import H264.C20Hdr
import H264.SmallProofC15
/-! # C15 — A NAL over head + tail chunks reads as their concatenation; partial NALs block

Model: `Rbsp.Chunked` = `RefNalReader { cur, tail, complete }` with `read` / `fill_buf` / `consume`; a clone is the same
value (the real `Clone` is exercised by the correspondence scripts). `WF`: the chunks are non-empty.
The header accessors are covered by the function graph extracted from the running code (`Generated.hdr`). -/
namespace C15
open Rbsp

/-- every interleaving of `read(n ≥ 0)` / `fill_buf` / `consume(k ≤ available)` / `clone` on the reader of any chunking
delivers the concatenated bytes, each once and in order: delivered ++ still-to-come = all bytes -/
theorem reads_as_concatenation (chunks : List (List UInt8)) (complete : Bool) (hne : ∀ c ∈ chunks, c ≠ [])
    (ops : List Chunked.Op) :
    let c := NalSrc.mkChunked chunks complete
    (Chunked.runOps c ops []).2 ++ (Chunked.runOps c ops []).1.rest = chunks.flatten ∧
    (Chunked.runOps c ops []).1.complete = complete := by
  intro c
  obtain ⟨_, h2, h3⟩ := Chunked.runOps_spec c (mkChunked_wf chunks complete hne) ops []
  rw [mkChunked_rest] at h2
  refine ⟨by simpa using h2, ?_⟩
  rw [h3]; cases chunks <;> rfl

/-- `read` hands out the next bytes; 0 bytes only for a 0-length buffer or at the end of a complete NAL; `WouldBlock`
only at the end of an incomplete NAL, leaving the reader unchanged -/
theorem read_contract (c : Chunked) (hwf : c.WF) (n : Nat) :
    (c.read n).1.WF ∧ (c.read n).1.complete = c.complete ∧
    (match (c.read n).2 with
     | .ok bs => bs ++ (c.read n).1.rest = c.rest ∧ bs.length ≤ n ∧
          (bs = [] → n = 0 ∨ (c.rest = [] ∧ c.complete = true))
     | .error .wouldBlock => (c.read n).1 = c ∧ c.rest = [] ∧ c.complete = false ∧ n ≠ 0
     | .error _ => False) := Chunked.read_spec c hwf n

/-- after the last byte: a complete NAL reports end of data, an incomplete one `WouldBlock` — never end of data -/
theorem fill_buf_at_end (c : Chunked) (hwf : c.WF) (h : c.rest = []) :
    c.fillBuf = (if c.complete then .ok [] else .error .wouldBlock) := Chunked.fillBuf_at_end c hwf h

/-- before the end `fill_buf` always shows a non-empty chunk -/
theorem fill_buf_before_end (c : Chunked) (hwf : c.WF) (h : c.rest ≠ []) :
    c.fillBuf = .ok c.cur ∧ c.cur ≠ [] := Chunked.fillBuf_nonempty c hwf h

/-- … and it stays that way: at the end `read` and `consume 0` leave a reader that is still at the end -/
theorem end_is_stable (c : Chunked) (hwf : c.WF) (h : c.rest = []) (n : Nat) :
    (c.read n).1.rest = [] ∧ (c.read n).1.complete = c.complete ∧ (c.consume 0).rest = [] ∧
    (c.read n).2 = (if n = 0 then .ok [] else if c.complete then .ok [] else .error .wouldBlock) := by
  have hc : c.cur = [] := by simp only [Chunked.rest, List.append_eq_nil_iff] at h; exact h.1
  have ht : c.tail = [] := hwf.2 hc
  unfold Chunked.read Chunked.consume Chunked.nextChunk Chunked.rest
  by_cases h0 : n = 0
  · simp [h0, hc, ht]
  · cases hcm : c.complete <;> simp [h0, hc, ht, hcm]

/-- header accessors, all 256 first bytes (graph extracted from the running code): refused exactly when the top bit
is set; otherwise nal_ref_idc / nal_unit_type are bits 5–6 / 0–4 -/
theorem header_accessors : Generated.hdr.length = 256 ∧ ∀ b : Fin 256,
    (Generated.hdr.getD b.val (9,9,9)).1 = (if b.val ≥ 128 then 0 else 1) ∧
    (b.val < 128 → (Generated.hdr.getD b.val (9,9,9)).2.1 = b.val / 32 % 4 ∧
      (Generated.hdr.getD b.val (9,9,9)).2.2 = b.val % 32) := _root_.C20.header_bytes

/-- non-vacuity -/
example : (NalSrc.mkChunked [[0x65, 1], [2], [3, 4]] false).WF := mkChunked_wf _ _ (by simp)

/-- **call-level model = real code on a complete small domain, by proof**: a four-byte NAL in every chunking (8 compositions),
complete and incomplete, drained by six programs (reads of 1 / 2 / 3 / 5 bytes, fill + consume all, fill + consume 1): the
model reader delivers what the real `RefNalReader` delivered in this run's graph, ends the same way (end of data vs
WouldBlock) and answers the same when asked again -/
theorem model_reader_reproduces_code : (List.range 96).map SmallProof.refnalRow = Generated.refnalRows :=
  SmallProof.refnal_model_eq_code

end C15
