import H264.C20Hdr
import H264.C20Prof
import H264.C20Ids
/-! # C20 — Header-byte and idc enumerations are total and round-trip over their domain

These theorems are about `Generated.*`: function graphs that the harness extracts from the **running code** on every
run (every function evaluated on its entire finite domain). A code change alters the generated definitions and the
kernel re-decides the statements (`decide +kernel`), so here the proof obligation itself is tied to the source. -/
namespace C20
open Generated

/-- all 256 header bytes: refused exactly when the top bit is set; otherwise nal_ref_idc / unit type are bits 5–6 / 0–4 -/
theorem header_bytes_total : hdr.length = 256 ∧ ∀ b : Fin 256,
    (hdr.getD b.val (9,9,9)).1 = (if b.val ≥ 128 then 0 else 1) ∧
    (b.val < 128 → (hdr.getD b.val (9,9,9)).2.1 = b.val / 32 % 4 ∧ (hdr.getD b.val (9,9,9)).2.2 = b.val % 32) :=
  _root_.C20.header_bytes

/-- unit type ids 0…31 are accepted, map to pairwise distinct values, each returning its own id; ids above 31 rejected -/
theorem unit_types_bijective : unitType.length = 256 ∧
    (∀ i : Fin 256, (unitType.getD i.val (9,9,9)).1 = (if i.val ≤ 31 then 1 else 0)) ∧
    (∀ i : Fin 32, (unitType.getD i.val (9,9,9)).2.2 = i.val) ∧
    (∀ i j : Fin 32, (unitType.getD i.val (9,9,9)).2.1 = (unitType.getD j.val (9,9,9)).2.1 → i = j) :=
  _root_.C20.unit_types

/-- profile_idc → Profile → profile_idc is the identity on all 256 values -/
theorem profile_round_trip : profileRoundTrip.length = 256 ∧ ∀ b : Fin 256, profileRoundTrip.getD b.val 999 = b.val :=
  _root_.C20.profile_roundtrip

/-- all 2¹⁶ (constraint flags, level_idc) pairs: the idc is recovered; level 1b ⇔ idc 11 ∧ constraint flag 3 -/
theorem level_round_trip (f l : Fin 256) :
    (_root_.C20.level f.val l.val).1 = l.val ∧
    ((_root_.C20.level f.val l.val).2 = 1 ↔ (l.val = 11 ∧ f.val / 16 % 2 = 1)) := _root_.C20.level_roundtrip f l

/-- the parameter-set-id wrappers at the u32 boundary values: value preserved, limits 0…31 / 0…255 enforced -/
theorem id_wrappers_limits : ∀ p ∈ idProbes,
    p.2.1 = (if p.1 ≤ 31 then some p.1 else none) ∧ p.2.2 = (if p.1 ≤ 255 then some p.1 else none) :=
  _root_.C20.id_wrappers

/-- the probe list does contain the boundary values -/
theorem id_probes_cover : ∀ v ∈ [0, 31, 32, 255, 256, 4294967295], ∃ p ∈ idProbes, p.1 = v := by decide +kernel

/-- the named levels are exactly those of Table A-1 (graph of the running code, re-decided on every run) -/
theorem named_levels_are_table_A1 : Generated.levelKnown.length = 256 ∧ ∀ l : Fin 256,
    Generated.levelKnown.getD l.val 9 = (if [10, 11, 12, 13, 20, 21, 22, 30, 31, 32, 40, 41, 42, 50, 51, 52, 60, 61, 62].contains l.val then 1 else 0) :=
  _root_.C20.level_known

end C20
