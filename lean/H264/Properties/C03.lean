import H264.NoPanicAll
import H264.SliceExact
import H264.C07
import H264.Derived
import H264.AnnexBOps
import H264.RbspInit
import H264.DecodeNal
import H264.Properties.C09
/-! # C03 — No input can panic, overflow, hang or over-allocate any parsing entry point

What the model can carry, and what it cannot:

* **panic / abort**: every Rust operation that can trap (slice index, `unwrap`, `assert!`, exhausted loop) is an
  explicit `panic` outcome of the model (`Bits.Err.panic`, `Avcc.Res.panic`); `NoPanic p` says no source makes `p`
  produce it. The byte-level models (`AnnexB.push/reset`, `Rbsp.fillBuf/read/consume`, `Rbsp.Chunked.*`, `Accum.frag`,
  `Sei.next`) have no panic outcome at all: they are total functions whose every index is guarded structurally.
* **hang**: every model function is accepted by Lean's termination checker (structural recursion, or explicit fuel
  proved sufficient); the two `do … while` loops of the slice header carry fuel `remaining bits + 1` and the lemmas
  below show it is never exhausted, because each iteration consumes a bit.
* **integer overflow**: the arithmetic the parsers perform on parsed values is modelled on ℕ/ℤ together with the
  guards the Rust uses (`checked_*`, range checks before casts); the theorems below show the guarded expressions stay
  inside the machine range, so wrapping and checked builds agree on the model.
* **time / allocation** of the real allocator and clock are runtime behaviour: the model bounds the *number of bits
  each loop iteration consumes* (termination measure); real allocation and inner-reader call counts are *measured* on
  the implementation by the harness (see DESIGN.md, C03) — this part of the claim is labelled partial. -/
namespace C03
open Bits

/-- SPS, PPS, slice header (any context, any NAL header), pic_timing, buffering_period: no input bits and no context
lead to a panic outcome -/
theorem sps_never_panics : NoPanic Sps.parseSps := Sps.np_parseSps
theorem pps_never_panics (spsById) : NoPanic (Pps.parsePps spsById) := Pps.np_parsePps spsById
theorem slice_header_never_panics (ctx hdr) : NoPanic (Slice.parseSliceHeader ctx hdr) := Slice.np_parseSliceHeader ctx hdr
theorem pic_timing_never_panics (s) : NoPanic (SeiPayload.readPicTiming s) := SeiPayload.np_readPicTiming s
theorem buffering_period_never_panics (ctx) : NoPanic (SeiPayload.readBufferingPeriod ctx) :=
  SeiPayload.np_readBufferingPeriod ctx

/-- bit reader primitives -/
theorem ue_never_panics (name) : NoPanic (readUe name) := np_readUe name
theorem se_never_panics (name) : NoPanic (readSe name) := np_readSe name
theorem bits_never_panic (name n) : NoPanic (readBits name n) := np_readBits name n
theorem more_data_never_panics (name) : NoPanic (hasMore name) := np_hasMore name
theorem finish_never_panics : NoPanic finishRbsp := np_finishRbsp

/-- the two loops terminate: with fuel = remaining bits + 1 the fuel-exhausted outcome is unreachable -/
theorem mod_list_loop_terminates (fuel : Nat) (s : Src) (hf : s.bits.length < fuel) :
    ∀ e, Slice.readModOps fuel s = .error e → e.isPanic = false := Slice.np_readModOps fuel s hf
theorem mmco_loop_terminates (fuel : Nat) (s : Src) (hf : s.bits.length < fuel) :
    ∀ e, Slice.readMmcos fuel s = .error e → e.isPanic = false := Slice.np_readMmcos fuel s hf
/-- each `ue(v)` read consumes at least one bit (the termination measure, and the linear step bound: a parser
performs at most one read per remaining bit in every loop) -/
theorem ue_consumes_a_bit (name) (s s' : Src) (k : Nat) (h : readUe name s = .ok (k, s')) :
    s'.bits.length < s.bits.length := Bits.readUe_consumes name s s' k h

/-- no integer overflow in `golomb_to_signed`: the `u32`/`i32` expression with wrap-around made explicit equals the
mathematical mapping for every value `read_ue` can return -/
theorem se_no_overflow (k : Nat) (h : k < 2^32 - 1) : golombToSignedRust k = seOfUe k := golombToSignedRust_eq k h

/-- `read_ue` returns at most 2³²−2, so `x + 1` on any parsed `u32` cannot overflow -/
theorem ue_plus_one_fits (name) (s s' : Src) (k : Nat) (h : readUe name s = .ok (k, s')) : k + 1 < 2^32 := by
  have := (readUe_exact name s s' k h).1; omega

/-- the map-unit product saturates instead of overflowing, and stays a `u32` -/
theorem pic_size_fits (s : Sps.Sps) : Sps.picSizeInMapUnits s < 2^32 := by
  unfold Sps.picSizeInMapUnits Sps.U32; omega

/-- `pixel_dimensions`: every product and difference is guarded; the result is a value or an error, for every SPS -/
theorem pixel_dimensions_total (s : Sps.Sps) :
    (∃ w h, Sps.pixelDimensions s = .ok (w, h) ∧ w < 2^32 ∧ h < 2^32) ∨ ∃ e, Sps.pixelDimensions s = .error e := by
  by_cases hd : Sps.DimsOk s
  · left
    have := (Sps.C13_dims s).1 hd
    refine ⟨_, _, this, ?_, ?_⟩
    · have := hd.1; unfold Sps.U32 at this; omega
    · have := hd.2.1; unfold Sps.U32 at this; omega
  · right; exact (Sps.C13_dims s).2 hd

/-- SliceQS: computed in 64 bits from two 32-bit values, then range-checked to 0…51 before the cast -/
theorem slice_qs_in_range (fam : Slice.Family) (pps : Pps.Pps) (s s' : Src) (r : Option Bool × Option Nat)
    (h : Slice.readSwitchQs fam pps s = .ok (r, s')) : ∀ q, r.2 = some q → q ≤ 51 :=
  Slice.readSwitchQs_le fam pps s s' r h

/-- AVC configuration record: after successful construction on any bytes no iterator step can index out of bounds -/
theorem avcc_iterators_never_panic (d : List UInt8) (h : Avcc.tryFrom d = .ok ()) :
    (Avcc.spsList d).isPanic = false ∧ (Avcc.ppsList d).isPanic = false := Avcc.validated_noPanic d h
theorem avcc_accessors_never_panic (d : List UInt8) (h : Avcc.tryFrom d = .ok ()) : ∃ f, Avcc.fields d = .ok f :=
  C09.accessors_never_panic d h
theorem avcc_context_creation_never_panics (d : List UInt8) (h : Avcc.tryFrom d = .ok ()) :
    ∀ err, Avcc.createContext d = .error err → err.isPanic = false := Avcc.createContext_noPanic d h
/-- construction itself never panics, on any bytes: every index is preceded by its length check -/
theorem avcc_construction_never_panics (d : List UInt8) : (Avcc.tryFrom d).isPanic = false := Avcc.tryFrom_noPanic d

/-- RBSP byte reader: the representation invariant (in particular `i ≤ chunk length`, so `consume` within the
`BufRead` contract cannot underflow and slices stay in bounds) holds for a fresh reader and is preserved by every
operation; `fill_buf` never reports `UnexpectedEof` -/
theorem byte_reader_invariant (chunks : List (List UInt8)) (complete : Bool) (skip maxFill : Nat)
    (hne : ∀ c ∈ chunks, c ≠ []) (hmf : 1 ≤ maxFill) (ops : List Rbsp.Op) :
    Rbsp.Inv (Rbsp.runOps (Rbsp.initReader chunks complete skip maxFill) ops []).1 :=
  (Rbsp.runOps_spec _ (Rbsp.initReader_inv chunks complete skip maxFill hne hmf) ops []).1

/-- Annex B reader: every call of every push/reset sequence is well formed (slices within the pushed buffer,
non-empty) — the index arithmetic of `push` (`start`, `i - backtrack`, `fake` zeros) never leaves the buffer -/
theorem annexb_calls_well_formed (ops : List AnnexB.Op) : ∀ c ∈ (AnnexB.runOps .start ops).2, c.WellShaped :=
  AnnexB.runOps_shaped .start ops

end C03
