import H264.NoPanicAll
import H264.SliceExact
import H264.C07
import H264.Derived
import H264.AnnexBOps
import H264.RbspInit
import H264.DecodeNal
import H264.Properties.C09
import H264.Overflow
import H264.History
import H264.Alloc
/-! # C03 — No input can panic, overflow, hang or over-allocate any parsing entry point

What the model can carry, and what it cannot:

* **panic / abort**: every Rust operation that can trap (slice index, `unwrap`, `assert!`, exhausted loop) is an
  explicit `panic` outcome of the model (`Bits.Err.panic`, `Avcc.Res.panic`); `NoPanic p` says no source makes `p`
  produce it. The byte-level models (`AnnexB.push/reset`, `Rbsp.fillBuf/read/consume`, `Rbsp.Chunked.*`, `Accum.frag`,
  `Sei.next`) have no panic outcome at all: they are total functions whose every index is guarded structurally.
* **hang**: every model function is accepted by Lean's termination checker (structural recursion, or explicit fuel
  proved sufficient); the two `do … while` loops of the slice header carry fuel `remaining bits + 1` and the lemmas
  below show it is never exhausted, because each iteration consumes a bit.
* **integer overflow**: the arithmetic the parsers perform on parsed values is modelled on ℕ/ℤ together with the
  guards the Rust uses (`checked_*`, range checks before casts); the theorems below show the guarded expressions stay
  inside the machine range, so wrapping and checked builds agree on the model.
* **allocation**: the *size ledger* at the end of this file (`H264/Alloc.lean`) bounds everything the model builds or
  keeps by the input it was built from or by a constant: decoded RBSP ≤ payload, SEI scratch request ≤ 255·input, SEI
  payload + rest ≤ input, parameter-set tables ≤ 32 / 256 slots, SPS lists ≤ 255 / 32 / 6 + 6 (the `with_capacity`
  requests), PPS slice-group ids ≤ input bits, slice-header operation lists ≤ consumed bits. Capacity doubling, the real
  allocator and wall-clock time are runtime behaviour: *measured* on the implementation by the harness (counting
  allocator, call counts; see DESIGN.md, C03) — that part of the claim is labelled partial. -/
namespace C03
open Bits

/-- SPS, PPS, slice header (any context, any NAL header), pic_timing, buffering_period: no input bits and no context
lead to a panic outcome -/
theorem sps_never_panics : NoPanic Sps.parseSps := Sps.np_parseSps
theorem pps_never_panics (spsById) : NoPanic (Pps.parsePps spsById) := Pps.np_parsePps spsById
theorem slice_header_never_panics (ctx hdr) : NoPanic (Slice.parseSliceHeader ctx hdr) := Slice.np_parseSliceHeader ctx hdr
theorem pic_timing_never_panics (s) : NoPanic (SeiPayload.readPicTiming s) := SeiPayload.np_readPicTiming s
theorem buffering_period_never_panics (ctx) : NoPanic (SeiPayload.readBufferingPeriod ctx) :=
  SeiPayload.np_readBufferingPeriod ctx

/-- bit reader primitives -/
theorem ue_never_panics (name) : NoPanic (readUe name) := np_readUe name
theorem se_never_panics (name) : NoPanic (readSe name) := np_readSe name
theorem bits_never_panic (name n) : NoPanic (readBits name n) := np_readBits name n
theorem more_data_never_panics (name) : NoPanic (hasMore name) := np_hasMore name
theorem finish_never_panics : NoPanic finishRbsp := np_finishRbsp

/-- the two loops terminate: with fuel = remaining bits + 1 the fuel-exhausted outcome is unreachable -/
theorem mod_list_loop_terminates (fuel : Nat) (s : Src) (hf : s.bits.length < fuel) :
    ∀ e, Slice.readModOps fuel s = .error e → e.isPanic = false := Slice.np_readModOps fuel s hf
theorem mmco_loop_terminates (fuel : Nat) (s : Src) (hf : s.bits.length < fuel) :
    ∀ e, Slice.readMmcos fuel s = .error e → e.isPanic = false := Slice.np_readMmcos fuel s hf
/-- each `ue(v)` read consumes at least one bit (the termination measure, and the linear step bound: a parser
performs at most one read per remaining bit in every loop) -/
theorem ue_consumes_a_bit (name) (s s' : Src) (k : Nat) (h : readUe name s = .ok (k, s')) :
    s'.bits.length < s.bits.length := Bits.readUe_consumes name s s' k h

/-- no integer overflow in `golomb_to_signed`: the `u32`/`i32` expression with wrap-around made explicit equals the
mathematical mapping for every value `read_ue` can return -/
theorem se_no_overflow (k : Nat) (h : k < 2^32 - 1) : golombToSignedRust k = seOfUe k := golombToSignedRust_eq k h

/-- `read_ue` returns at most 2³²−2, so `x + 1` on any parsed `u32` cannot overflow -/
theorem ue_plus_one_fits (name) (s s' : Src) (k : Nat) (h : readUe name s = .ok (k, s')) : k + 1 < 2^32 := by
  have := (readUe_exact name s s' k h).1; omega

/-- the map-unit product saturates instead of overflowing, and stays a `u32` -/
theorem pic_size_fits (s : Sps.Sps) : Sps.picSizeInMapUnits s < 2^32 := by
  unfold Sps.picSizeInMapUnits Sps.U32; omega

/-- `pixel_dimensions`: every product and difference is guarded; the result is a value or an error, for every SPS -/
theorem pixel_dimensions_total (s : Sps.Sps) :
    (∃ w h, Sps.pixelDimensions s = .ok (w, h) ∧ w < 2^32 ∧ h < 2^32) ∨ ∃ e, Sps.pixelDimensions s = .error e := by
  by_cases hd : Sps.DimsOk s
  · left
    have := (Sps.C13_dims s).1 hd
    refine ⟨_, _, this, ?_, ?_⟩
    · have := hd.1; unfold Sps.U32 at this; omega
    · have := hd.2.1; unfold Sps.U32 at this; omega
  · right; exact (Sps.C13_dims s).2 hd

/-- SliceQS: computed in 64 bits from two 32-bit values, then range-checked to 0…51 before the cast -/
theorem slice_qs_in_range (fam : Slice.Family) (pps : Pps.Pps) (s s' : Src) (r : Option Bool × Option Nat)
    (h : Slice.readSwitchQs fam pps s = .ok (r, s')) : ∀ q, r.2 = some q → q ≤ 51 :=
  Slice.readSwitchQs_le fam pps s s' r h

/-- AVC configuration record: after successful construction on any bytes no iterator step can index out of bounds -/
theorem avcc_iterators_never_panic (d : List UInt8) (h : Avcc.tryFrom d = .ok ()) :
    (Avcc.spsList d).isPanic = false ∧ (Avcc.ppsList d).isPanic = false := Avcc.validated_noPanic d h
theorem avcc_accessors_never_panic (d : List UInt8) (h : Avcc.tryFrom d = .ok ()) : ∃ f, Avcc.fields d = .ok f :=
  C09.accessors_never_panic d h
theorem avcc_context_creation_never_panics (d : List UInt8) (h : Avcc.tryFrom d = .ok ()) :
    ∀ err, Avcc.createContext d = .error err → err.isPanic = false := Avcc.createContext_noPanic d h
/-- construction itself never panics, on any bytes: every index is preceded by its length check -/
theorem avcc_construction_never_panics (d : List UInt8) : (Avcc.tryFrom d).isPanic = false := Avcc.tryFrom_noPanic d

/-- RBSP byte reader: the representation invariant (in particular `i ≤ chunk length`, so `consume` within the
`BufRead` contract cannot underflow and slices stay in bounds) holds for a fresh reader and is preserved by every
operation; `fill_buf` never reports `UnexpectedEof` -/
theorem byte_reader_invariant (chunks : List (List UInt8)) (complete : Bool) (skip maxFill : Nat)
    (hne : ∀ c ∈ chunks, c ≠ []) (hmf : 1 ≤ maxFill) (ops : List Rbsp.Op) :
    Rbsp.Inv (Rbsp.runOps (Rbsp.initReader chunks complete skip maxFill) ops []).1 :=
  (Rbsp.runOps_spec _ (Rbsp.initReader_inv chunks complete skip maxFill hne hmf) ops []).1

/-- Annex B reader: every call of every push/reset sequence is well formed (slices within the pushed buffer,
non-empty) — the index arithmetic of `push` (`start`, `i - backtrack`, `fake` zeros) never leaves the buffer -/
theorem annexb_calls_well_formed (ops : List AnnexB.Op) : ∀ c ∈ (AnnexB.runOps .start ops).2, c.WellShaped :=
  AnnexB.runOps_shaped .start ops

/-! ### machine-arithmetic ledger: the fixed-width expression of each Rust site equals the unbounded model expression
and no intermediate leaves its type, under exactly what the parser has checked at that point (`H264/Overflow.lean`) -/

/-- `read_ue`: `(1 << count) - 1 + val` -/
theorem ue_assembly_no_overflow (count val : Nat) (hc : count ≤ 31) (hv : val < 2^count) :
    count < 32 ∧ 1 ≤ 2^count ∧ Overflow.FitsU32 ((2^count : Nat) : Int) ∧
    Overflow.FitsU32 (((2^count - 1 + val : Nat) : Int)) ∧ 2^count - 1 + val ≤ 2^32 - 2 :=
  Overflow.ue_assembly_fits count val hc hv
/-- `fill_scaling_list`: `(last_scale as i32 + delta_scale + 256) % 256` then `as u8` -/
theorem next_scale_no_overflow (last : Nat) (delta : Int) (hl : 1 ≤ last ∧ last ≤ 255)
    (hd : ¬ (delta < -128 ∨ delta > 127)) :
    Overflow.FitsI32 ((last : Int) + delta) ∧ Overflow.FitsI32 ((last : Int) + delta + 256) ∧
    0 < (last : Int) + delta + 256 ∧ Overflow.FitsU8 (((last : Int) + delta + 256) % 256) ∧
    ((((last : Int) + delta + 256).toNat % 256 : Nat) : Int) = ((last : Int) + delta + 256) % 256 :=
  Overflow.next_scale_fits last delta hl hd
/-- PPS QP bound: `6 * bit_depth_luma_minus8` (u8) and `-(26 + …)` (i32), for every accepted SPS -/
theorem qp_bound_no_overflow (s s' : Src) (v : Sps.Sps) (h : Sps.parseSps s = .ok (v, s')) :
    Overflow.FitsU8 (6 * (v.chromaInfo.bitDepthLumaMinus8 : Int)) ∧
    Overflow.FitsI32 (26 + 6 * (v.chromaInfo.bitDepthLumaMinus8 : Int)) ∧
    Overflow.FitsI32 (-(26 + 6 * (v.chromaInfo.bitDepthLumaMinus8 : Int))) := Overflow.qp_bd_offset_fits s s' v h
/-- slice QS: the 64-bit sum of two 32-bit values and 26 -/
theorem qs_sum_no_overflow (a b : Int) (ha : Overflow.FitsI32 a) (hb : Overflow.FitsI32 b) :
    Overflow.FitsI64 (26 + a) ∧ Overflow.FitsI64 (26 + a + b) ∧ Overflow.wrapI64 (26 + a + b) = 26 + a + b :=
  Overflow.qs_y_fits a b ha hb
/-- `pic_size_in_map_units() - 1` never underflows, for any SPS value -/
theorem pic_size_minus_one_no_underflow (s : Sps.Sps) : 1 ≤ Pps.picSizeInMapUnits s := Overflow.pic_size_pos s
/-- `pic_width_in_mbs()`, `pic_height_in_map_units()`, `log2_max_frame_num()` on accepted SPS -/
theorem helper_increments_no_overflow (s s' : Src) (v : Sps.Sps) (h : Sps.parseSps s = .ok (v, s')) :
    Overflow.FitsU32 ((v.picWidthInMbsMinus1 : Int) + 1) ∧ Overflow.FitsU32 ((v.picHeightInMapUnitsMinus1 : Int) + 1) ∧
    Overflow.FitsU8 ((v.log2MaxFrameNumMinus4 : Int) + 4) :=
  ⟨(Overflow.dims_plus_one_fit s s' v h).1, (Overflow.dims_plus_one_fit s s' v h).2, Overflow.log2_frame_num_fits s s' v h⟩
/-- pic_timing `time_offset`: `((raw << (32 - len)) as i32) >> (32 - len)` is the two's-complement value of the
field, with both shift amounts below the width, for every `len` the reader can be asked for (1…31; 0 is skipped) -/
theorem time_offset_no_overflow (len raw : Nat) (hl : 1 ≤ len ∧ len ≤ 31) (hr : raw < 2^len) :
    32 - len < 32 ∧ len ≤ 32 ∧ Overflow.timeOffsetRust len raw = SeiPayload.signExtend len raw :=
  Overflow.timeOffsetRust_eq len raw hl hr
/-- not vacuous: −1 in a 5-bit field -/
example : Overflow.timeOffsetRust 5 31 = -1 := by decide

/-! ### "any context built from previously accepted parameter sets": the arithmetic the PPS and slice parsers do on
SPS fields taken from the context stays in range for every reachable context -/
theorem reachable_context_qp_bound_no_overflow (ops : List History.Op) (i : Nat) (v : Sps.Sps)
    (h : Ctx.get (History.run ops).sps i = some v) :
    Overflow.FitsU8 (6 * (v.chromaInfo.bitDepthLumaMinus8 : Int)) ∧
    Overflow.FitsI32 (-(26 + 6 * (v.chromaInfo.bitDepthLumaMinus8 : Int))) := History.reachable_qp_bound_fits ops i v h
theorem reachable_context_widths (ops : List History.Op) (i : Nat) (v : Sps.Sps)
    (h : Ctx.get (History.run ops).sps i = some v) :
    v.spsId = i ∧ i ≤ 31 ∧ v.log2MaxFrameNumMinus4 + 4 ≤ 16 ∧ v.picWidthInMbsMinus1 + 1 < 2^32 ∧
    v.picHeightInMapUnitsMinus1 + 1 < 2^32 := History.reachable_sps_widths ops i v h

/-! ### size ledger: nothing the parsers build or keep is larger than a fixed multiple of the input -/

/-- `decode_nal` never returns more bytes than the payload it was given -/
theorem decoded_rbsp_not_longer_than_payload (nal : List UInt8) (b : Bool) (out : List UInt8)
    (h : Rbsp.decodeNal nal = .ok (b, out)) : out.length ≤ nal.length - 1 := Alloc.decodeNal_length_le nal b out h
/-- un-escaping from any scanner state never produces more than it consumed (streaming reader) -/
theorem unescaped_not_longer (st : Rbsp.PS) (xs : List UInt8) : (Rbsp.unescFrom st xs).1.length ≤ xs.length :=
  Alloc.unescFrom_length_le st xs
/-- the SEI scratch buffer is resized to `payload_size` before the payload is known to be present: that request is at
most 255 bytes per input byte -/
theorem sei_scratch_request_bounded (name : String) (fin : IoKind) (bs : List UInt8) (len : Nat) (rest : List UInt8)
    (h : Sei.readU32 name fin bs 0 = .ok (len, rest)) : len ≤ 255 * bs.length := Alloc.scratch_request_le name fin bs len rest h
/-- a delivered message and what is left to read fit into what was there -/
theorem sei_message_within_input (r r' : Sei.Reader) (ty : Nat) (pl : List UInt8)
    (h : Sei.next r = (r', .ok (some (ty, pl)))) : pl.length + r'.src.bytes.length + 2 ≤ r.src.bytes.length :=
  Alloc.next_payload_le r r' ty pl h
/-- the NAL accumulator's buffer never holds more than the bytes delivered to it, whatever the handler answers -/
theorem accumulator_buffer_bounded (a : Accum.Acc) (steps : List Accum.Step) (tr : List Accum.Invocation) :
    (Accum.run a steps tr).1.buf.length ≤ a.buf.length + (steps.map fun s => s.bufs.flatten.length).sum :=
  Alloc.acc_buffer_le_input a steps tr
/-- parameter-set tables: never more than `B` slots after any insertions under checked ids (`B` = 32 / 256) -/
theorem param_set_table_bounded {α} (B : Nat) (ws : List (Nat × α)) (m : Ctx.PMap α) (hm : m.length ≤ B)
    (h : ∀ w ∈ ws, w.1 < B) : (ws.foldl (fun m w => Ctx.put m w.1 w.2) m).length ≤ B := Alloc.table_length_le B ws m hm h
/-- SPS: all lists bounded by the constants that are requested as capacities -/
theorem sps_lists_bounded (s s' : Src) (v : Sps.Sps) (h : Sps.parseSps s = .ok (v, s')) :
    (∀ f a b offs, v.picOrderCnt = .typeOne f a b offs → offs.length ≤ 255) ∧
    (∀ u hrd, v.vui = some u → (u.nalHrd = some hrd ∨ u.vclHrd = some hrd) → hrd.cpbSpecs.length ≤ 32) ∧
    (∀ m, v.chromaInfo.scalingMatrix = some m → m.l4x4.length = 6 ∧ m.l8x8.length ≤ 6) := Alloc.sps_cells_const s s' v h
/-- PPS: run lengths ≤ 8, rectangles ≤ 7, explicit slice-group ids at most one per input bit -/
theorem pps_lists_bounded (spsById : Nat → Option Sps.Sps) (s s' : Src) (v : Pps.Pps)
    (h : Pps.parsePps spsById s = .ok (v, s')) :
    Alloc.sliceGroupCells v.sliceGroups ≤ s.bits.length + 8 ∧
    (∀ rl, v.sliceGroups = some (.interleaved rl) → rl.length ≤ 8) ∧
    (∀ rs, v.sliceGroups = some (.foregroundAndLeftover rs) → rs.length ≤ 7) ∧
    (∀ n ids, v.sliceGroups = some (.explicitAssignment n ids) → ids.length ≤ s.bits.length) :=
  Alloc.pps_cells_le spsById s s' v h
/-- slice header, in every reachable context: list-modification operations + MMCOs ≤ header bits consumed -/
theorem slice_lists_bounded (ops : List History.Op) (hdr : Slice.NalHdr) (s s' : Src) (h : Slice.SliceHeader)
    (sid pid : Nat)
    (hok : Slice.parseSliceHeader (History.sctx (History.run ops)) hdr s = .ok ((h, sid, pid), s')) :
    Alloc.modCells h.refPicListModification + Alloc.markCells h.decRefPicMarking + s'.bits.length ≤ s.bits.length :=
  Alloc.slice_cells_le_reachable ops hdr s s' h sid pid hok
/-- not vacuous: an explicit map with 3 ids in 2 groups costs 3 bits -/
example : Alloc.sliceGroupCells (some (.explicitAssignment 1 [0, 1, 0])) = 3 := by decide

end C03
