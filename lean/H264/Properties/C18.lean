import H264.AnnexBShapes
import H264.AnnexBOps
import H264.ByteProofC18
/-! # C18 — Fragment handlers are only ever given non-empty slices and meaningful calls

`Call.WellShaped c` : every slice of the call is non-empty, and a call without slices has `end = true`.
Statements hold from every reader state, for every pushed buffer and every sequence of pushes and resets. -/
namespace C18
open AnnexB

/-- every call made by one `push`, from any state, is well shaped -/
theorem push_calls_shaped (st : St) (buf : List UInt8) : ∀ c ∈ (push st buf).2, c.WellShaped :=
  push_shaped st buf

/-- every call made by `reset` is well shaped -/
theorem reset_calls_shaped (st : St) : ∀ c ∈ (reset st).2, c.WellShaped := reset_shaped st

/-- every call of every interleaving of pushes and resets is well shaped -/
theorem all_calls_shaped (ops : List Op) : ∀ c ∈ (runOps St.start ops).2, c.WellShaped :=
  runOps_shaped St.start ops

/-- reset with no open unit makes no call -/
theorem reset_outside_unit_silent (st : St) (h : backtrack st = none) : (reset st).2 = [] := reset_idle st h

/-- reset inside a unit makes exactly one call and it ends the unit -/
theorem reset_inside_unit_ends_once (st : St) (n : Nat) (h : backtrack st = some n) :
    ∃ c, (reset st).2 = [c] ∧ c.fin = true := reset_ends_once st n h

/-- after a reset the reader is the freshly constructed one … -/
theorem reset_gives_fresh_reader (st : St) : (reset st).1 = St.start := reset_fresh st

/-- … so whatever follows behaves exactly as on a fresh reader -/
theorem after_reset_like_fresh (st : St) (ops : List Op) :
    (runOps st (.reset :: ops)).2 = (reset st).2 ++ (runOps St.start ops).2 ∧
    (runOps st (.reset :: ops)).1 = (runOps St.start ops).1 := after_reset_fresh st ops

/-- units are bracketed: the end markers delivered are exactly those of the segmentation of each reset-delimited
portion, so every started unit is ended exactly once, before the next one starts or by the reset -/
theorem ends_match_segmentation (ops : List Op) : events (runOps St.start ops).2 = specOps [] ops := by
  have h := runOps_spec [] ops
  simpa [run] using h

/-- non-vacuity: a push that ends one unit, starts the next and holds back two zeros; then a reset -/
example : (runOps St.start [.push [0,0,1,0x65,0,0,1,0x41,0,0], .reset]).2 =
    [⟨[[0x65]], true⟩, ⟨[[0x41]], false⟩, ⟨[[0,0]], true⟩] := by decide

/-- **the real reader on a complete small domain, by proof**: for every string of length 0…5 over {00, 01, 03, a5} pushed in
two pieces cut at every position, then reset (6 461 runs, regenerated on every run), every slice the real `AnnexBReader`
handed to its handler was non-empty and every call without slices ended a unit; the delivered bytes and end markers of
the same runs are those of the model (`C01.model_reader_reproduces_code`), for which the shape theorems above hold -/
theorem code_calls_shaped_on_small_domain : ∀ row ∈ Generated.annexbShapeRows, ∀ x ∈ row, x = 1 :=
  ByteProof.annexb_code_calls_shaped

end C18
