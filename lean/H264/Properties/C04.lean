import H264.SpsC04
import H264.SpsExact
import H264.Tables2C04
import H264.TblProofC04
/-! # C04 — SPS parsing recovers exactly the values encoded per H.264 7.3.2.1 / Annex E

Model: `Sps.parseSps` mirrors `SeqParameterSet::from_bits` and all its sub-readers (same order of reads and checks).
Spec: `Sps.encSps v sm` — the encoder transcribed from the syntax tables 7.3.2.1.1, 7.3.2.1.1.1, E.1.1, E.1.2 (it never
looks at the Rust); `sm` is the *coded* scaling-list syntax (delta_scale sequences) and `v` holds the *derived* lists,
related by the standard's scaling_list() process `specFill` (`MatrixDerives`). `Sps.WF`: the standard's ranges.
`trailing z` = rbsp_trailing_bits followed by `z` zero bits.

Scope hypothesis `mvcOnlyProfile v.profileIdc = false`: the property is about AVC profile_idc classes; for the MVC/3D
ids 118, 128, 134, 135, 138, 139 (Annex H/I/J subset SPS) the library's list of profiles carrying the chroma syntax
deviates from newer editions of 7.3.2.1.1 (recorded in DESIGN.md, not a listed property). -/
namespace C04
open Sps Bits

/-- **forward**: every SPS within the standard's ranges, encoded with the standard's syntax, followed by the RBSP
trailing bits and any number of zero bits, parses to exactly the encoded values and consumes everything -/
theorem forward (v : Sps) (sm : Option ScalingSyntax) (wf : v.WF sm)
    (hmvc : mvcOnlyProfile v.profileIdc = false) (z : Nat) :
    parseSps ⟨encSps v sm ++ trailing z, .eof⟩ = .ok (v, ⟨[], .eof⟩) := C04_forward v sm wf hmvc z

/-- **converse**: whatever the parser accepts is the standard's encoding of the returned structure (for some coded
scaling syntax deriving the returned lists; `none` when there are no lists) followed by trailing bits and zero bits
only — no bit is skipped, read twice or interpreted differently — the result is within every range of `WF`, and the
parser had to see the true end of the RBSP -/
theorem converse (s s' : Src) (v : Sps) (h : parseSps s = .ok (v, s'))
    (hmvc : mvcOnlyProfile v.profileIdc = false) :
    ∃ sm z, v.WF sm ∧ s.bits = encSps v sm ++ trailing z ∧ s.fin = .eof := C04_converse s s' v h hmvc

/-- scaling lists, forward: the list read is the standard's process run on the coded deltas — wrap-around modulo 256,
early termination (`next = 0` keeps `last`), and the use-default flag (first delta giving 0) -/
theorem scaling_list_process (n j last next : Nat) (ud : Bool) (acc : List Nat) (ds : List Int)
    (l : List Nat) (u : Bool) (hs : specFill n j last next ud ds = some (l, u))
    (hd : ∀ d ∈ ds, -128 ≤ d ∧ d ≤ 127) (rest fin) :
    fillScalingList n j last next ud acc ⟨(ds.map encSe).flatten ++ rest, fin⟩
      = .ok ((acc.reverse ++ l, u), ⟨rest, fin⟩) := fillScalingList_enc n j last next ud acc ds l u hs hd rest fin

/-- scaling lists, converse: what was read is that process run on *some* in-range delta sequence that is exactly the
consumed bits -/
theorem scaling_list_exact (n j last next : Nat) (ud : Bool) (acc : List Nat) (s s' : Src)
    (l' : List Nat) (u : Bool) (h : fillScalingList n j last next ud acc s = .ok ((l', u), s')) :
    ∃ ds l, specFill n j last next ud ds = some (l, u) ∧ l' = acc.reverse ++ l ∧
      (∀ d ∈ ds, -128 ≤ d ∧ d ≤ 127) ∧ s.bits = (ds.map encSe).flatten ++ s'.bits ∧ s'.fin = s.fin :=
  fillScalingList_exact n j last next ud acc s s' l' u h

/-- the only place where the spec borrows nothing from the code: the two profile lists agree outside the MVC ids -/
theorem profile_lists_agree (p : Nat) (h : mvcOnlyProfile p = false) : hasChromaInfo p = stdHasChromaInfo p :=
  hasChromaInfo_std p h

/-- non-vacuity: a concrete 4:2:0 High-profile field-coded SPS with POC type 1, cropping, VUI and a NAL HRD satisfies
`WF` (proved next to the forward theorem, `Sps.sample`) and is outside the excluded ids -/
example : mvcOnlyProfile sample.profileIdc = false := by decide

/-! ### tables of the running code (graphs extracted through `SeqParameterSet::from_bits` on every run) -/

/-- the profile list that decides whether chroma information is read is, in the running code, the model's list — for
all 256 `profile_idc` values (regenerated and re-decided by the kernel on every run) -/
theorem code_profile_list_is_model_list : Generated.hasChroma.length = 256 ∧
    ∀ b : Fin 256, Generated.hasChroma.getD b.val 9 = (if Sps.hasChromaInfo b.val then 1 else 0) :=
  Tables2.hasChroma_eq_model

/-- every `aspect_ratio_idc` is recovered (no two coded values are parsed to the same value) and the reported sample
aspect ratio is Table E-1; `Extended_SAR` returns the coded pair -/
theorem code_aspect_ratio_table : Generated.aspect.length = 256 ∧
    (∀ i j : Fin 256, (Generated.aspect.getD i.val (999,0,0)).1 = (Generated.aspect.getD j.val (999,0,0)).1 → i = j) ∧
    (∀ b : Fin 256, (Generated.aspect.getD b.val (999,0,0)).1 < 998) ∧
    (∀ b : Fin 256, (Generated.aspect.getD b.val (999,0,0)).2 =
      (if b.val = 255 then (0x1234, 0x0567) else Tables2.tableE1 b.val)) := Tables2.aspect_table

/-- `video_format` and `chroma_format_idc`: every coded value is parsed to its own distinct value -/
theorem code_video_format_recovered : Generated.videoFormat.length = 8 ∧
    (∀ i j : Fin 8, Generated.videoFormat.getD i.val 999 = Generated.videoFormat.getD j.val 999 → i = j) ∧
    (∀ i : Fin 8, Generated.videoFormat.getD i.val 999 < 998) := Tables2.videoFormat_injective
theorem code_chroma_format_recovered : Generated.chromaFormat.length = 16 ∧
    (∀ i : Fin 4, (Generated.chromaFormat.getD i.val (0,0)).1 = 1) ∧
    (∀ i j : Fin 4, (Generated.chromaFormat.getD i.val (0,0)).2 = (Generated.chromaFormat.getD j.val (0,0)).2 → i = j) :=
  Tables2.chromaFormat_table

/-- **model parser = real parser on the swept frames, by proof**: for every aspect_ratio_idc / video_format /
chroma_format_idc, running the *model* `Sps.parseSps` on the very bit string the harness fed to
`SeqParameterSet::from_bits` yields the row the real parser produced (regenerated and re-decided by the kernel on every run) -/
theorem model_parser_reproduces_code_on_aspect_ratio_sweep :
    ∀ b : Fin 256, TblProof.aspectCode b.val = some (Generated.aspect.getD b.val (999, 0, 0)) := TblProof.aspect_model_eq_code
theorem model_parser_reproduces_code_on_video_format_sweep :
    ∀ i : Fin 8, TblProof.videoFormatCode i.val = some (Generated.videoFormat.getD i.val 999) := TblProof.videoFormat_model_eq_code
theorem model_parser_reproduces_code_on_chroma_format_sweep :
    ∀ i : Fin 16, TblProof.chromaFormatCode i.val = Generated.chromaFormat.getD i.val (9, 9) := TblProof.chromaFormat_model_eq_code

end C04
