import H264.SeiPayloadsFwd
import H264.C20T35
import H264.Tables2C11
import H264.TblProofC11
/-! # C11 — SEI payload parsers (buffering period, pic timing, T.35) recover encoded values

Models: `SeiPayload.readPicTiming s`, `readBufferingPeriod spsById`, `readT35` mirror `PicTiming::read`,
`BufferingPeriod::read`, `ItuTT35::read` on the payload bits / bytes. Encoders transcribed from D.1.1, D.1.2, D.1.6.
The SPS `s` selects widths and presences (E.1.1 / E.1.2): which HRD supplies the delay widths (NAL first, else VCL),
`time_offset_length`, `pic_struct_present_flag`. `SeiTail`: the payload ends byte-aligned or with `1 0*`. -/
namespace C11
open SeiPayload Bits

/-- **pic_timing**: for every SPS VUI shape (no VUI, NAL HRD only, VCL HRD only, both; any widths; time_offset_length
0…31; pic_struct_present on/off) and every payload value within the coded ranges, parsing returns exactly the encoded
values: CPB/DPB delays whenever either HRD is present with that HRD's widths, pic_struct and NumClockTS timestamps -/
theorem pic_timing_round_trip (s : Sps.Sps) (p : PicTimingSyn)
    (w1 : DelaysWF (delayHrd s) p.delays) (w2 : PicStructWF s p.picStruct) (tail : List Bool) (ht : SeiTail tail) :
    readPicTiming s ⟨encPicTiming s p ++ tail, .eof⟩ = .ok (p.value, ⟨[], .eof⟩) :=
  readPicTiming_enc s p w1 w2 tail ht

/-- which HRD supplies the widths: the NAL HRD if present, otherwise the VCL HRD, otherwise no delays are coded -/
theorem delay_hrd_choice (s : Sps.Sps) (v : Sps.Vui) (hv : s.vui = some v) :
    delayHrd s = (match v.nalHrd with | some h => some h | none => v.vclHrd) := by
  simp only [delayHrd, hv]; cases v.nalHrd <;> rfl

/-- the signed `i(v)` time offset of every declared width 1…31 round-trips; width 0 codes nothing -/
theorem time_offset_signed (tol : Nat) (o : Option Int) (wf : TimeOffsetWF tol o) (rest fin) :
    readTimeOffset tol ⟨encTimeOffset tol o ++ rest, fin⟩ = .ok (o, ⟨rest, fin⟩) := readTimeOffset_enc tol o wf rest fin

/-- NumClockTS per Table D-1 -/
theorem num_clock_ts_table : (List.range 16).map numClockTs = [1, 1, 1, 2, 2, 3, 3, 2, 3, 0, 0, 0, 0, 0, 0, 0] := by decide

/-- **buffering_period**: one delay pair per CPB for each HRD that is present, of the width that HRD declares -/
theorem buffering_period_round_trip (spsById : Nat → Option Sps.Sps) (s : Sps.Sps) (b : BufferingPeriod)
    (hid : s.spsId ≤ 31) (hctx : spsById s.spsId = some s)
    (wn : HrdBpWF (nalHrdOf s) b.nalHrdBp) (wv : HrdBpWF (vclHrdOf s) b.vclHrdBp)
    (tail : List Bool) (ht : SeiTail tail) :
    readBufferingPeriod spsById ⟨encBufferingPeriod s b ++ tail, .eof⟩ = .ok (b, ⟨[], .eof⟩) :=
  readBufferingPeriod_enc spsById s b hid hctx wn wv tail ht

/-- **T.35**: country code (and extension byte) and the remaining payload starting immediately after them -/
theorem t35_code (b : Nat) (hb : b < 255) (rest : List UInt8) :
    readT35 (encT35 (.code b) ++ rest) = .ok (.code b) rest := readT35_code b hb rest
theorem t35_extended (e : Nat) (he : e < 256) (rest : List UInt8) :
    readT35 (encT35 (.extended e) ++ rest) = .ok (.extended e) rest := readT35_extended e he rest
theorem t35_exact (p : List UInt8) (c : T35Code) (rest : List UInt8) (h : readT35 p = .ok c rest) :
    (∃ b, c = .code b ∧ b < 255 ∧ p = UInt8.ofNat b :: rest) ∨
    (∃ e, c = .extended e ∧ e < 256 ∧ p = 0xFF :: UInt8.ofNat e :: rest) := readT35_exact p c rest h

/-- the running code's table (extracted graph, all 256 country bytes): named countries are exactly the codes
`00…C4`, `FF` is the extension escape, everything else comes back as `Unknown(code)`; remainder offsets 1 / 2 -/
theorem t35_table_of_the_code : Generated.t35.length = 256 ∧ ∀ b : Fin 256,
    Generated.t35.getD b.val (9,9) = (if b.val ≤ 0xC4 then (0, 1) else if b.val = 0xFF then (2, 2) else (1, 1)) :=
  _root_.C20.t35_table

/-- … and the named values are pairwise distinct, so the code is recoverable from the returned value: the k-th byte
yields the k-th distinct value -/
theorem t35_values_distinct : ∀ b : Fin 197, Generated.t35Value.getD b.val 999 = b.val := by decide +kernel

/-- non-vacuity: an SPS shape with only a VCL HRD still gets its delays (the D7 regression) -/
example : DelaysWF (some (⟨0, 0, [⟨0, 0, false⟩], 3, 4, 5, 6⟩ : Sps.Hrd)) (some (31, 63)) := by
  exact ⟨31, 63, rfl, by decide, by decide⟩

/-- the public accessors `seconds() / minutes() / hours()` of a parsed clock timestamp return the coded parts, and 0 for
the parts that the coded flags left out (model of the three accessor functions; exercised on every pic_timing case) -/
theorem smh_accessors (x y z : Nat) :
    (SeiPayload.SecMinHour.smh x y z).seconds = x ∧ (SeiPayload.SecMinHour.smh x y z).minutes = y ∧
    (SeiPayload.SecMinHour.smh x y z).hours = z ∧
    (SeiPayload.SecMinHour.sm x y).seconds = x ∧ (SeiPayload.SecMinHour.sm x y).minutes = y ∧
    (SeiPayload.SecMinHour.sm x y).hours = 0 ∧
    (SeiPayload.SecMinHour.s x).seconds = x ∧ (SeiPayload.SecMinHour.s x).minutes = 0 ∧ (SeiPayload.SecMinHour.s x).hours = 0 ∧
    SeiPayload.SecMinHour.none.seconds = 0 ∧ SeiPayload.SecMinHour.none.minutes = 0 ∧ SeiPayload.SecMinHour.none.hours = 0 :=
  ⟨rfl, rfl, rfl, rfl, rfl, rfl, rfl, rfl, rfl, rfl, rfl, rfl⟩

/-- Table D-1 in the running code (graph extracted through `PicTiming::read` on every run): every pic_struct value is
accepted as its own distinct value and the number of clock-timestamp slots read is the model's `numClockTs` -/
theorem code_pic_struct_table : Generated.picStruct.length = 16 ∧
    (∀ p : Fin 16, (Generated.picStruct.getD p.val (0,0,0)).1 = 1 ∧
      (Generated.picStruct.getD p.val (0,0,0)).2.2 = SeiPayload.numClockTs p.val) ∧
    (∀ i j : Fin 16, (Generated.picStruct.getD i.val (0,0,0)).2.1 = (Generated.picStruct.getD j.val (0,0,0)).2.1 → i = j) :=
  Tables2.picStruct_table

/-- model `readPicTiming` = real `PicTiming::read` on the 16 swept pic_struct payloads (accepted, value, number of
clock-timestamp slots), by proof -/
theorem model_parser_reproduces_code_on_pic_struct_sweep :
    ∀ p : Fin 16, TblProof.picStructCode p.val = Generated.picStruct.getD p.val (9, 9, 9) := TblProof.picStruct_model_eq_code

end C11
