import H264.Derived
import H264.C20Prof
import H264.SmallProofC13
/-! # C13 — SPS-derived values (size, fps, level, profile, codec string) match the standard

`pixelDimensions` mirrors `SeqParameterSet::pixel_dimensions` with every `checked_mul` / `checked_sub` of the Rust as
the guard it is; the right-hand sides below are the standard's formulas (7.4.2.1.1, Table 6-1) on unbounded ℕ:
width = 16·PicWidthInMbs − CropUnitX·(left+right), height = 16·(2−frame_mbs_only)·PicHeightInMapUnits −
CropUnitY·(top+bottom), CropUnitX = SubWidthC, CropUnitY = SubHeightC·(2−frame_mbs_only) (1 and (2−frame_mbs_only) for
monochrome / separate planes, as the library treats ChromaArrayType). -/
namespace C13
open Sps

/-- the result is `Ok` exactly when no product exceeds 32 bits and the crop does not exceed the picture, and then it is
the standard's formula; otherwise it is an error — for every SPS value -/
theorem pixel_dimensions_exact (s : Sps) :
    (DimsOk s → pixelDimensions s =
      .ok (lumaWidth s - ((cropOf s).left + (cropOf s).right) * cropUnitX s,
           lumaHeight s - ((cropOf s).top + (cropOf s).bottom) * cropUnitY s)) ∧
    (¬ DimsOk s → ∃ e, pixelDimensions s = .error e) := C13_dims s

/-- crop units: chroma-format units horizontally; vertically they also double for field / MBAFF coding -/
theorem crop_units (s : Sps) :
    cropUnitX s = (if s.chromaInfo.chromaFormat = .yuv420 ∨ s.chromaInfo.chromaFormat = .yuv422 then 2 else 1) ∧
    cropUnitY s = (match s.frameMbsFlags with | .fields _ => 2 | .frames => 1) *
                  (if s.chromaInfo.chromaFormat = .yuv420 then 2 else 1) := by
  unfold cropUnitX cropUnitY hsubOf vsubOf mulOf
  constructor
  · split <;> simp
  · cases s.frameMbsFlags <;> by_cases h : s.chromaInfo.chromaFormat = .yuv420 <;> simp [h]

/-- no wrap-around in the map-unit product either: it saturates, and no parsed value can reach the saturation point -/
theorem pic_size_saturates (s : Sps) :
    picSizeInMapUnits s = min (picWidthInMbs s * picHeightInMapUnits s) (2^32 - 1) := rfl

/-- frame rate: defined exactly when timing info is present, as time_scale / (2 · num_units_in_tick) (returned here
as the exact pair; the implementation divides the two as `f64`, compared bit-exactly by the correspondence run) -/
theorem fps_when_timing_present (s : Sps) (v : Vui) (t : TimingInfo) (hv : s.vui = some v) (ht : v.timingInfo = some t) :
    fpsOf s = some (t.timeScale, t.numUnitsInTick) := by simp [fpsOf, hv, ht]

theorem fps_absent (s : Sps) : (s.vui = none ∨ ∃ v, s.vui = some v ∧ v.timingInfo = none) → fpsOf s = none := by
  rintro (h | ⟨v, hv, ht⟩) <;> simp [fpsOf, *]

/-- RFC 6381: `avc1.` followed by the three header bytes in hex -/
theorem codec_string (s : Sps) :
    rfc6381 s = "avc1." ++ hex2U s.profileIdc ++ hex2U s.constraintFlags ++ hex2U s.levelIdc := rfl

/-- level and profile enumerations map back to the idc they came from — over the graphs extracted from the running
code, all 256 profile_idc values and all 2¹⁶ (flags, level_idc) pairs -/
theorem profile_maps_back : ∀ b : Fin 256, Generated.profileRoundTrip.getD b.val 999 = b.val :=
  _root_.C20.profile_roundtrip.2

theorem level_maps_back (f l : Fin 256) : (_root_.C20.level f.val l.val).1 = l.val :=
  (_root_.C20.level_roundtrip f l).1

/-- non-vacuity: 1920×1080 (120×68 macroblocks, crop 4 at the bottom in 4:2:0 frame coding) -/
def sample1080 : Sps :=
  { profileIdc := 100, constraintFlags := 0, levelIdc := 40, spsId := 0,
    chromaInfo := {}, log2MaxFrameNumMinus4 := 0, picOrderCnt := .typeTwo,
    maxNumRefFrames := 1, gapsInFrameNumValueAllowedFlag := false, picWidthInMbsMinus1 := 119,
    picHeightInMapUnitsMinus1 := 67, frameMbsFlags := .frames, direct8x8InferenceFlag := true,
    frameCropping := some ⟨0, 0, 0, 4⟩, vui := none }
example : pixelDimensions sample1080 = .ok (1920, 1080) := by
  simp [pixelDimensions, sample1080, lumaWidth, lumaHeight, mulOf, cropUnitX, cropUnitY, hsubOf, vsubOf, U32]

/-- **model = real code on a complete small domain, by proof**: a grid of 720 High-profile SPS (chroma_format_idc 0…3 and 4:4:4 with
separate planes × frame / field coding × 1…2 × 1…2 macroblocks × every crop-offset pattern in {0,1}⁴ and one crop larger than
the picture): the model parser followed by the model `pixelDimensions` gives what the real `from_bits` + `pixel_dimensions()`
gave in this run's graph, the values and the error alike -/
theorem model_dimensions_reproduce_code : SmallProof.dimsInputs.map SmallProof.dimsRow = Generated.dimsRows :=
  SmallProof.dims_model_eq_code

/-- the named levels are exactly those of Table A-1 (graph of the running code, re-decided on every run) -/
theorem named_levels_are_table_A1 : Generated.levelKnown.length = 256 ∧ ∀ l : Fin 256,
    Generated.levelKnown.getD l.val 9 = (if [10, 11, 12, 13, 20, 21, 22, 30, 31, 32, 40, 41, 42, 50, 51, 52, 60, 61, 62].contains l.val then 1 else 0) :=
  _root_.C20.level_known

end C13
