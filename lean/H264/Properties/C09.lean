import H264.Avcc
import H264.AvccCtx
import H264.AvccBuild
import H264.AvccCtxProofs
import H264.SmallProofC09
/-! # C09 — A validated AVC configuration record yields exactly its parameter sets, never panics

Model: `Avcc.tryFrom` mirrors `TryFrom<&[u8]>` (all `ck` calls and the walk over the length-prefixed entries);
`Avcc.iter` mirrors `ParamSetIter::next`; every slice index of the Rust is a bounds-checked `idx` whose failure is
the explicit outcome `Res.panic`, so "cannot panic" is a theorem about the model and not an assumption of it. -/
namespace C09
open Avcc

/-- **builder round trip**: every record built per ISO/IEC 14496-15 from 0…31 SPS and 0…255 PPS NALs of lengths
0…65535, arbitrary reserved bits (`b4`, `b5`) and arbitrary trailing extension bytes is accepted … -/
theorem built_record_accepted (b1 b2 b3 b4 b5 : UInt8) (sps pps : List (List UInt8)) (ext : List UInt8)
    (ok : BuildOk b5 sps pps) : tryFrom (buildAvcc b1 b2 b3 b4 b5 sps pps ext) = .ok () :=
  build_accepted b1 b2 b3 b4 b5 sps pps ext ok

/-- … the fixed-field accessors return the stored values … -/
theorem built_record_fields (b1 b2 b3 b4 b5 : UInt8) (sps pps : List (List UInt8)) (ext : List UInt8)
    (ok : BuildOk b5 sps pps) :
    fields (buildAvcc b1 b2 b3 b4 b5 sps pps ext) = .ok ⟨1, sps.length, b1.toNat, b2.toNat, b3.toNat, b4.toNat % 4⟩ :=
  build_fields b1 b2 b3 b4 b5 sps pps ext ok

/-- … the two iterators yield exactly the stored NAL byte strings, in order … -/
theorem built_record_iterators (b1 b2 b3 b4 b5 : UInt8) (sps pps : List (List UInt8)) (ext : List UInt8)
    (ok : BuildOk b5 sps pps) (hs : ∀ n ∈ sps, NalOfType 7 n) (hp : ∀ n ∈ pps, NalOfType 8 n) :
    spsList (buildAvcc b1 b2 b3 b4 b5 sps pps ext) = .ok sps ∧ ppsList (buildAvcc b1 b2 b3 b4 b5 sps pps ext) = .ok pps :=
  ⟨build_spsList b1 b2 b3 b4 b5 sps pps ext ok hs, build_ppsList b1 b2 b3 b4 b5 sps pps ext ok hp⟩

/-- … and the created context equals the one obtained by parsing each NAL directly (SPS first, PPS against them) -/
theorem built_record_context (b1 b2 b3 b4 b5 : UInt8) (sps pps : List (List UInt8)) (ext : List UInt8)
    (ok : BuildOk b5 sps pps) (hs : ∀ n ∈ sps, NalOfType 7 n) (hp : ∀ n ∈ pps, NalOfType 8 n) :
    createContext (buildAvcc b1 b2 b3 b4 b5 sps pps ext) =
      (match foldSps sps [] with
       | .error e => .error e
       | .ok sm => match foldPps sm pps [] with
         | .error e => .error e
         | .ok pm => .ok ⟨sm, pm⟩) := build_createContext b1 b2 b3 b4 b5 sps pps ext ok hs hp

/-- **truncation**: every proper prefix of a record that ends with its last declared parameter set (any cut inside the
declared parameter sets, their length fields, the counts or the fixed fields) is refused at construction -/
theorem truncation_refused (b1 b2 b3 b4 b5 : UInt8) (sps pps : List (List UInt8)) (ok : BuildOk b5 sps pps)
    (k : Nat) (hk : k < (buildAvcc b1 b2 b3 b4 b5 sps pps []).length) :
    tryFrom ((buildAvcc b1 b2 b3 b4 b5 sps pps []).take k) ≠ .ok () :=
  truncated_refused b1 b2 b3 b4 b5 sps pps ok k hk

/-- once construction has succeeded on **any** bytes whatsoever, context creation cannot panic -/
theorem context_creation_never_panics (d : List UInt8) (h : tryFrom d = .ok ()) :
    ∀ err, createContext d = .error err → err.isPanic = false := createContext_noPanic d h

/-- once construction has succeeded on **any** bytes whatsoever, neither iterator can index out of bounds, however
many items are pulled and whatever the entries contain (zero-length entries, wrong NAL types, forbidden bit) -/
theorem iterators_never_panic (d : List UInt8) (h : tryFrom d = .ok ()) :
    (spsList d).isPanic = false ∧ (ppsList d).isPanic = false := validated_noPanic d h

/-- the same from any validated region, for any number of requested items -/
theorem iterator_steps_never_panic (d : List UInt8) (wantType : Nat) (n pos e : Nat) (h : Walked d n pos e) :
    ∀ k, k ≤ n → (iter d wantType k pos).isPanic = false := iter_noPanic d wantType n pos e h

/-- … and the fixed-field accessors are defined (the record has at least its six fixed bytes) -/
theorem accessors_never_panic (d : List UInt8) (h : tryFrom d = .ok ()) : ∃ f, fields d = .ok f := by
  unfold tryFrom at h
  obtain ⟨u, hck, _⟩ := Res.bind_ok h
  have h6 : 6 ≤ d.length := (ck_ok_iff _ _).mp (by rw [hck])
  obtain ⟨b0, h0, _⟩ := idx_ok d 0 (by omega)
  obtain ⟨b1, h1, _⟩ := idx_ok d 1 (by omega)
  obtain ⟨b2, h2, _⟩ := idx_ok d 2 (by omega)
  obtain ⟨b3, h3, _⟩ := idx_ok d 3 (by omega)
  obtain ⟨b4, h4, _⟩ := idx_ok d 4 (by omega)
  obtain ⟨b5, h5, _⟩ := idx_ok d 5 (by omega)
  exact ⟨_, by simp [fields, bind, Res.bind, h0, h1, h2, h3, h4, h5]; rfl⟩

/-- fewer than the six fixed bytes: refused, reporting what was needed -/
theorem too_short_refused (d : List UInt8) (h : d.length < 6) : tryFrom d = .notEnoughData 6 d.length := by
  simp [tryFrom, ck, h, bind, Res.bind]

/-- any version other than 1 is refused at construction -/
theorem wrong_version_refused (d : List UInt8) (h : 6 ≤ d.length) (v : UInt8) (hv : d[0]? = some v) (hne : v.toNat ≠ 1) :
    tryFrom d = .unsupportedVersion v.toNat := by
  have hck : ck d 6 = .ok () := (ck_ok_iff _ _).mpr h
  simp [tryFrom, bind, Res.bind, hck, idx, hv, hne]

/-- whatever construction accepts has passed the walk over every declared entry (what later code relies on) -/
theorem accepted_is_walked (d : List UInt8) (h : tryFrom d = .ok ()) :
    ∃ n e, numSps d = .ok n ∧ Walked d n 6 e ∧ e + 1 ≤ d.length := by
  unfold tryFrom at h
  obtain ⟨u, hck, h⟩ := Res.bind_ok h
  have h6 : 6 ≤ d.length := (ck_ok_iff _ _).mp (by rw [hck])
  obtain ⟨v, hv, h⟩ := Res.bind_ok h
  by_cases hv1 : v ≠ 1
  · simp [hv1] at h
  · simp only [hv1, ↓reduceIte] at h
    obtain ⟨len, hend, h⟩ := Res.bind_ok h
    obtain ⟨u2, hck2, h⟩ := Res.bind_ok h
    have hlen1 : len + 1 ≤ d.length := (ck_ok_iff _ _).mp (by rw [hck2])
    unfold spsEnd at hend
    obtain ⟨n, hn, hwalk⟩ := Res.bind_ok hend
    exact ⟨n, len, hn, walk_ok d n 6 len h6 hwalk, hlen1⟩

/-- non-vacuity: the record of the suite's `it_works` test header with no parameter sets is accepted -/
example : tryFrom [0x01, 0x42, 0xc0, 0x1e, 0xff, 0xe0, 0x00] = .ok () := by
  simp [tryFrom, ck, idx, spsEnd, numSps, walk, bind, Res.bind, pure]

/-- non-vacuity: two SPS-typed and one PPS-typed NAL, reserved bits set -/
example : BuildOk 0xE2 [[0x67, 1, 2], [0x27]] [[0x68, 3]] ∧ NalOfType 7 [0x67, 1, 2] ∧ NalOfType 8 [0x68, 3] := by
  refine ⟨⟨by decide, by decide, by decide, by decide⟩, ⟨0x67, [1, 2], rfl, by decide, by decide, by decide⟩,
    ⟨0x68, [3], rfl, by decide, by decide, by decide⟩⟩

/-- **model = real code on a complete small domain, by proof**: the record `01 42 c0 1e ff e1 0002 6742 01 0002 68ce`, every
single-byte replacement by {00, 01, e2, ff} and every prefix of each (976 records: truncation inside every fixed field, length
field and entry; wrong versions; counts and lengths too large; wrong NAL types and forbidden bits in the entries): the
model's construction verdict, fixed-field accessors and both iterators are those of the real
`AvcDecoderConfigurationRecord` in this run's graph -/
theorem model_record_reproduces_code : SmallProof.avccInputs.map SmallProof.avccRow = Generated.avccRows :=
  SmallProof.avcc_model_eq_code

end C09
