import H264.Avcc
import H264.AvccCtx
/-! # C09 — A validated AVC configuration record yields exactly its parameter sets, never panics

Model: `Avcc.tryFrom` mirrors `TryFrom<&[u8]>` (all `ck` calls and the walk over the length-prefixed entries);
`Avcc.iter` mirrors `ParamSetIter::next`; every slice index of the Rust is a bounds-checked `idx` whose failure is
the explicit outcome `Res.panic`, so "cannot panic" is a theorem about the model and not an assumption of it. -/
namespace C09
open Avcc

/-- once construction has succeeded on **any** bytes whatsoever, neither iterator can index out of bounds, however
many items are pulled and whatever the entries contain (zero-length entries, wrong NAL types, forbidden bit) -/
theorem iterators_never_panic (d : List UInt8) (h : tryFrom d = .ok ()) :
    (spsList d).isPanic = false ∧ (ppsList d).isPanic = false := validated_noPanic d h

/-- the same from any validated region, for any number of requested items -/
theorem iterator_steps_never_panic (d : List UInt8) (wantType : Nat) (n pos e : Nat) (h : Walked d n pos e) :
    ∀ k, k ≤ n → (iter d wantType k pos).isPanic = false := iter_noPanic d wantType n pos e h

/-- … and the fixed-field accessors are defined (the record has at least its six fixed bytes) -/
theorem accessors_never_panic (d : List UInt8) (h : tryFrom d = .ok ()) : ∃ f, fields d = .ok f := by
  unfold tryFrom at h
  obtain ⟨u, hck, _⟩ := Res.bind_ok h
  have h6 : 6 ≤ d.length := (ck_ok_iff _ _).mp (by rw [hck])
  obtain ⟨b0, h0, _⟩ := idx_ok d 0 (by omega)
  obtain ⟨b1, h1, _⟩ := idx_ok d 1 (by omega)
  obtain ⟨b2, h2, _⟩ := idx_ok d 2 (by omega)
  obtain ⟨b3, h3, _⟩ := idx_ok d 3 (by omega)
  obtain ⟨b4, h4, _⟩ := idx_ok d 4 (by omega)
  obtain ⟨b5, h5, _⟩ := idx_ok d 5 (by omega)
  exact ⟨_, by simp [fields, bind, Res.bind, h0, h1, h2, h3, h4, h5]; rfl⟩

/-- fewer than the six fixed bytes: refused, reporting what was needed -/
theorem too_short_refused (d : List UInt8) (h : d.length < 6) : tryFrom d = .notEnoughData 6 d.length := by
  simp [tryFrom, ck, h, bind, Res.bind]

/-- any version other than 1 is refused at construction -/
theorem wrong_version_refused (d : List UInt8) (h : 6 ≤ d.length) (v : UInt8) (hv : d[0]? = some v) (hne : v.toNat ≠ 1) :
    tryFrom d = .unsupportedVersion v.toNat := by
  have hck : ck d 6 = .ok () := (ck_ok_iff _ _).mpr h
  simp [tryFrom, bind, Res.bind, hck, idx, hv, hne]

/-- whatever construction accepts has passed the walk over every declared entry (what later code relies on) -/
theorem accepted_is_walked (d : List UInt8) (h : tryFrom d = .ok ()) :
    ∃ n e, numSps d = .ok n ∧ Walked d n 6 e ∧ e + 1 ≤ d.length := by
  unfold tryFrom at h
  obtain ⟨u, hck, h⟩ := Res.bind_ok h
  have h6 : 6 ≤ d.length := (ck_ok_iff _ _).mp (by rw [hck])
  obtain ⟨v, hv, h⟩ := Res.bind_ok h
  by_cases hv1 : v ≠ 1
  · simp [hv1] at h
  · simp only [hv1, ↓reduceIte] at h
    obtain ⟨len, hend, h⟩ := Res.bind_ok h
    obtain ⟨u2, hck2, h⟩ := Res.bind_ok h
    have hlen1 : len + 1 ≤ d.length := (ck_ok_iff _ _).mp (by rw [hck2])
    unfold spsEnd at hend
    obtain ⟨n, hn, hwalk⟩ := Res.bind_ok hend
    exact ⟨n, len, hn, walk_ok d n 6 len h6 hwalk, hlen1⟩

/-- non-vacuity: the record of the suite's `it_works` test header with no parameter sets is accepted -/
example : tryFrom [0x01, 0x42, 0xc0, 0x1e, 0xff, 0xe0, 0x00] = .ok () := by
  simp [tryFrom, ck, idx, spsEnd, numSps, walk, bind, Res.bind, pure]

end C09
