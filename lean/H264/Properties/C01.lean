import H264.AnnexBSpec
import H264.AnnexBOps
import H264.ByteProofC01
/-! # C01 — Annex B NAL framing is invariant under push chunking and matches start codes

Model: `AnnexB.push` / `AnnexB.reset` mirror `AnnexBReader::push` / `reset` at call level (index loop,
`fake_and_start`, `maybe_emit`); `events` projects the calls to delivered bytes and end markers.
Spec: `AnnexB.outside` — the declarative Annex B segmentation over 3-byte windows (a unit starts after each
`00 00 01`, ends before the next `00 00 00` / `00 00 01` or at the end of the stream; bytes outside units dropped).
All statements are for every byte stream and every partition (any count, any sizes, empty pieces included). -/
namespace C01
open AnnexB

/-- after the final reset the delivered bytes / end markers are the Annex B segmentation of the whole stream -/
theorem reset_is_segmentation (chunks : List (List UInt8)) :
    events ((pushAll St.start chunks).2 ++ (reset (pushAll St.start chunks).1).2) = outside chunks.flatten :=
  C01_reset chunks

/-- chunking invariance with the final reset -/
theorem chunking_invariant (cs₁ cs₂ : List (List UInt8)) (h : cs₁.flatten = cs₂.flatten) :
    events ((pushAll St.start cs₁).2 ++ (reset (pushAll St.start cs₁).1).2) =
    events ((pushAll St.start cs₂).2 ++ (reset (pushAll St.start cs₂).1).2) :=
  C01_chunking cs₁ cs₂ h

/-- chunking invariance of every prefix without reset: same deliveries, same reader state -/
theorem prefix_invariant (cs₁ cs₂ : List (List UInt8)) (h : cs₁.flatten = cs₂.flatten) :
    events (pushAll St.start cs₁).2 = events (pushAll St.start cs₂).2 ∧
    (pushAll St.start cs₁).1 = (pushAll St.start cs₂).1 :=
  C01_prefix cs₁ cs₂ h

/-- the call-level `push` (index loop) emits exactly the events of the byte-level machine, from every state -/
theorem push_is_machine (s : St) (buf : List UInt8) :
    (push s buf).1 = (run s buf).1 ∧ events (push s buf).2 = (run s buf).2 :=
  push_refines_run s buf

/-- the byte-level machine followed by reset computes the declarative segmentation, from every state -/
theorem machine_is_spec (s : St) (xs : List UInt8) : (run s xs).2 ++ resetEv (run s xs).1 = spec s xs :=
  run_spec s xs

/-- any interleaving of pushes and resets: every reset-delimited portion is segmented on its own, and the open
tail (no reset yet) has delivered exactly what the byte machine emits for it — in particular the deliveries of a
prefix do not depend on how it was cut -/
theorem ops_is_segmentation (ops : List Op) : events (runOps St.start ops).2 = specOps [] ops := by
  have h := runOps_spec [] ops
  simpa [run] using h

/-- non-vacuity: a stream with a 4-byte start code, an escaped-looking payload, a second unit and a trailing zero -/
example : outside [0,0,0,1,0x67,0,0,3,0,0,1,0x68,0] =
    [.byte 0x67, .byte 0, .byte 0, .byte 3, .endUnit, .byte 0x68, .byte 0, .endUnit] := by
  simp [outside, inside]

/-- **call-level model = real code on a complete small domain, by proof**: every string of length 0…5 over {00, 01, 03, a5}
pushed in two pieces cut at every position, then reset (6 461 runs): the model's `push` / `reset` deliver exactly the bytes
and end markers the real `AnnexBReader` delivered in this run's graph -/
theorem model_reader_reproduces_code :
    (ByteProof.words [0x00, 0x01, 0x03, 0xa5]).map ByteProof.annexbRow = Generated.annexbRows := ByteProof.annexb_model_eq_code

end C01
