import H264.PpsC05
import H264.PpsExact
import H264.SmallProofC05
/-! # C05 — PPS parsing recovers exactly the values encoded per H.264 7.3.2.2

Model: `Pps.parsePps spsById` mirrors `PicParameterSet::from_bits(ctx, …)`; the context enters as the lookup function.
Spec: `Pps.encPps` transcribed from 7.3.2.2 (map type 0: n+1 run lengths; type 2: **n** rectangles; 3–5: flag + rate;
6: size + ids of ⌈log₂(n+1)⌉ bits; the extension tail gated by more_rbsp_data; 6 / 8 / 12 lists by
transform_8x8_mode_flag × chroma_format_idc of the referenced SPS). `Pps.WF s sm`: the standard's ranges relative to
the referenced SPS `s`. -/
namespace C05
open Pps Bits Sps

/-- **forward**: for every context holding the referenced SPS (luma bit depth in the accepted range), every PPS
within the standard's ranges, encoded per 7.3.2.2 and followed by trailing bits, parses to exactly the encoded values -/
theorem forward (spsById : Nat → Option Sps.Sps) (s : Sps.Sps) (v : Pps) (sm : Option Sps.ScalingSyntax)
    (hctx : spsById v.spsId = some s) (hbd : s.chromaInfo.bitDepthLumaMinus8 ≤ 6)
    (wf : v.WF s sm) (z : Nat) :
    parsePps spsById ⟨encPps v sm ++ trailing z, .eof⟩ = .ok (v, ⟨[], .eof⟩) := C05_forward spsById s v sm hctx hbd wf z

/-- **converse** (stronger than the property asks: rectangles and scaling lists included): an accepted PPS is the
standard's encoding of the returned structure, the referenced SPS is the context entry, every range holds -/
theorem converse (spsById : Nat → Option Sps.Sps) (s s' : Src) (v : Pps)
    (h : parsePps spsById s = .ok (v, s')) :
    ∃ sp sm z, spsById v.spsId = some sp ∧ v.WF sp sm ∧ s.bits = encPps v sm ++ trailing z ∧ s.fin = .eof :=
  C05_converse spsById s s' v h

/-- every slice-group map type is read with exactly the number of elements the standard prescribes -/
theorem slice_groups_forward (s : Sps.Sps) (g : Option SliceGroup)
    (wf : match g with | none => True | some g => g.WF s) (rest fin) :
    readSliceGroups s ⟨encSliceGroups g ++ rest, fin⟩ = .ok (g, ⟨rest, fin⟩) := readSliceGroups_enc s g wf rest fin

/-- the optional tail is detected exactly when data precedes the trailing bits -/
theorem tail_detected_exactly (s : Sps.Sps) (e : Option PpsExtra) (sm : Option Sps.ScalingSyntax)
    (wf : match e with | none => True | some e => e.WF s sm) (z : Nat) :
    readPpsExtra s ⟨encPpsExtra e sm ++ trailing z, .eof⟩ = .ok (e, ⟨trailing z, .eof⟩) := readPpsExtra_enc s e sm wf z

/-- **model = real code on a complete small domain, by proof**: num_slice_groups_minus1 0…8 × slice_group_map_type 0…7, each with the
element counts 7.3.2.2 prescribes (n + 1 run lengths, n rectangles, one change rate, ids of ⌈log₂(n+1)⌉ bits), against a
2 × 2 macroblock SPS parsed by the model: the model PPS parser accepts exactly the PPS the real parser accepted in this run's graph
and returns the same kind of slice group -/
theorem model_parser_reproduces_code_on_map_types : (List.range 72).map SmallProof.ppsMapRow = Generated.ppsMapRows :=
  SmallProof.ppsMap_model_eq_code

end C05
