import H264.C07
import H264.BitsProofC07
/-! # C07 — Bit reader decodes every u(n)/ue(v)/se(v) codeword to the standard's value

Model: `Bits.Src = (remaining bits MSB first, what the byte source reports when they run out)`; `readBits`, `readUe`,
`readSe` mirror `BitRead::read / read_ue / read_se` over the documented bit-list meaning of `bitstream-io`
(`read`, `read_unary1`). Bit alignment is invisible at this level: a position is a suffix of the bit list, and the
residual source returned by each read is the "advances by exactly the codeword length" claim. That `bitstream-io`
realises this at byte offsets 0…7 is validated by the correspondence run. Encoders `encBits`, `encUe`, `encSe` are
clause 9.1 / 7.2 of the standard. -/
namespace C07
open Bits

/-- u(n): the big-endian value of exactly n bits, for every n and every value below 2ⁿ; the rest is untouched -/
theorem fixed_width (name) (n v : Nat) (h : v < 2^n) (rest : List Bool) (fin) :
    readBits name n ⟨encBits n v ++ rest, fin⟩ = .ok (v, ⟨rest, fin⟩) := readBits_enc name n v h rest fin

/-- ue(v): every codeNum 0 … 2³²−2 is returned exactly, consuming exactly its codeword -/
theorem ue_all_codewords (name) (k : Nat) (h : k < 2^32 - 1) (rest : List Bool) (fin) :
    readUe name ⟨encUe k ++ rest, fin⟩ = .ok (k, ⟨rest, fin⟩) := readUe_enc name k h rest fin

/-- converse: whatever `read_ue` accepts is the canonical codeword of the value it returns (no other bit pattern
decodes to a value, nothing is skipped) -/
theorem ue_exact (name) (s s' : Src) (k : Nat) (h : readUe name s = .ok (k, s')) :
    k < 2^32 - 1 ∧ s.bits = encUe k ++ s'.bits ∧ s'.fin = s.fin := readUe_exact name s s' k h

/-- se(v): the signed mapping (−1)^(k+1)·⌈k/2⌉, for every value whose codeNum is ≤ 2³²−2 -/
theorem se_all_codewords (name) (v : Int) (h : SeRange v) (rest fin) :
    readSe name ⟨encSe v ++ rest, fin⟩ = .ok (v, ⟨rest, fin⟩) := readSe_enc name v h rest fin

theorem se_exact (name) (s s' : Src) (v : Int) (h : readSe name s = .ok (v, s')) :
    SeRange v ∧ s.bits = encSe v ++ s'.bits ∧ s'.fin = s.fin := readSe_exact name s s' v h

/-- the mapping itself: codeNum k ↦ (−1)^(k+1)·⌈k/2⌉ and back -/
theorem se_mapping (k : Nat) : seOfUe k = if k % 2 = 1 then (((k + 1) / 2 : Nat) : Int) else -((k / 2 : Nat) : Int) := rfl
theorem se_mapping_inverse (v : Int) : seOfUe (ueOfSe v) = v := seOfUe_ueOfSe v

/-- the Rust `u32`/`i32` expression `golomb_to_signed`, with wrap-around made explicit, never wraps for any value
`read_ue` can return and equals that mapping -/
theorem se_rust_expression_exact (k : Nat) (h : k < 2^32 - 1) : golombToSignedRust k = seOfUe k :=
  golombToSignedRust_eq k h

/-- 32 or more leading zero bits: rejected as too large, whatever follows -/
theorem ue_too_large (name) (n : Nat) (h : 32 ≤ n) (rest fin) :
    readUe name ⟨List.replicate n false ++ true :: rest, fin⟩ = .error (.tooLarge name) :=
  readUe_tooLarge name n h rest fin

/-- a codeword cut short by the end of the data, at any of its truncation points, is a read error naming the field
— never a wrong value -/
theorem ue_truncated (name) (k : Nat) (hk : k < 2^32 - 1) (m : Nat) (hm : m < (encUe k).length) (fin) :
    readUe name ⟨(encUe k).take m, fin⟩ = .error (.io name fin) := readUe_truncated name k hk m hm fin

theorem fixed_width_truncated (name) (n : Nat) (bits : List Bool) (h : bits.length < n) (fin) :
    readBits name n ⟨bits, fin⟩ = .error (.io name fin) := readBits_short name n bits h fin

/-- sequences of mixed reads compose: each read starts where the previous one stopped -/
theorem sequence_example (a : Nat) (ha : a < 2^32 - 1) (v : Int) (hv : SeRange v) (n w : Nat) (hw : w < 2^n) (rest fin) :
    (do let x ← readUe "a"; let y ← readSe "b"; let z ← readBits "c" n; pure (x, y, z) : P _)
      ⟨encUe a ++ (encSe v ++ (encBits n w ++ rest)), fin⟩ = .ok ((a, v, w), ⟨rest, fin⟩) := by
  simp [readUe_enc _ _ ha, readSe_enc _ _ hv, readBits_enc _ _ _ hw]

/-- non-vacuity: the extreme codeNum and the extreme signed values are inside the hypotheses -/
example : (2^32 - 2 : Nat) < 2^32 - 1 ∧ SeRange (2^31 - 1) ∧ SeRange (-(2^31 - 1)) := by
  unfold SeRange; omega

/-- **the assumed bit-list semantics, checked by proof on a complete small domain**: for every first byte, second byte in
{00, ff, 5a} and bit offset 0…7 (6 144 positions), the model's `readUe` / `readSe` return exactly what the real
`rbsp::BitReader` (over bitstream-io) returned when the harness ran it for this run's graph: the value, the number of bits
left (so the codeword length), or the same error class -/
theorem model_ue_reproduces_code : ∀ b0 : Fin 256, ∀ j : Fin 24,
    BitsProof.ueRow b0.val j.val = (Generated.bitsUe.getD b0.val []).getD j.val (9, 9, 9) := BitsProof.bits_ue_model_eq_code
theorem model_se_reproduces_code : ∀ b0 : Fin 256, ∀ j : Fin 24,
    BitsProof.seRow b0.val j.val = (Generated.bitsSe.getD b0.val []).getD j.val (9, 9, 9) := BitsProof.bits_se_model_eq_code

end C07
