import H264.C14
import H264.Mono
import H264.BitsProofC14
/-! # C14 — more_rbsp_data / trailing-bits checks are exact at every bit position

A position in an RBSP is the list of bits still to be read (`Src.bits`); `fin = eof` is the complete RBSP.
The three theorems are complete outcome tables: for *every* remaining bit string they say which of
value / `RemainingData` / end-of-data error comes out. -/
namespace C14
open Bits

/-- `has_more_rbsp_data`: true exactly when some 1 bit lies strictly after the current bit; the reader does not move -/
theorem more_data_exact (name) (bits : List Bool) :
    hasMore name ⟨bits, .eof⟩ = .ok (!(allZero (bits.drop 1)), ⟨bits, .eof⟩) := hasMore_outcome name bits

theorem more_data_iff (name) (s : Src) (h : s.fin = .eof) :
    hasMore name s = .ok (decide (∃ b ∈ s.bits.drop 1, b = true), s) := hasMore_spec name s h

/-- `finish_rbsp`: succeeds exactly on `1 0*`; otherwise remaining data, or end of data when no 1 bit is left -/
theorem finish_rbsp_table (bits : List Bool) :
    finishRbsp ⟨bits, .eof⟩ =
      match bits with
      | [] => .error (.io "finish" .eof)
      | true :: rest => if allZero rest then .ok ((), ⟨[], .eof⟩) else .error .remaining
      | false :: rest => if allZero rest then .error (.io "finish" .eof) else .error .remaining :=
  finishRbsp_outcome bits

/-- … in the form of the property: success ⇔ next bit 1 and every later bit 0 (any number of trailing zero bytes) -/
theorem finish_rbsp_ok_iff (s : Src) (h : s.fin = .eof) :
    (∃ r, finishRbsp s = .ok r) ↔ ∃ n, s.bits = true :: List.replicate n false := finishRbsp_ok_iff s h

/-- `finish_sei_payload`: additionally succeeds when no bits remain -/
theorem finish_sei_table (bits : List Bool) :
    finishSei ⟨bits, .eof⟩ =
      match bits with
      | [] => .ok ((), ⟨[], .eof⟩)
      | true :: rest => if allZero rest then .ok ((), ⟨[], .eof⟩) else .error .remaining
      | false :: _ => .error .remaining := finishSei_outcome bits

/-- non-vacuity: cabac_zero_words (`0x0000` pairs) after the stop bit are tolerated -/
example : finishRbsp ⟨true :: List.replicate 39 false, .eof⟩ = .ok ((), ⟨[], .eof⟩) := by
  rw [finishRbsp_outcome]; simp [allZero]

/-- on the same complete small domain (first byte × {00, ff, 5a} × bit offset) the model's `hasMore`, `finishRbsp` and
`finishSei` return what the real `has_more_rbsp_data`, `finish_rbsp`, `finish_sei_payload` returned in this run's graph -/
theorem model_end_queries_reproduce_code : ∀ b0 : Fin 256, ∀ j : Fin 24,
    BitsProof.endRow b0.val j.val = (Generated.bitsEnd.getD b0.val []).getD j.val (9, 9, 9) := BitsProof.bits_end_model_eq_code

end C14
