import H264.Context
import H264.SmallProofC19
/-! # C19 — The parameter-set context behaves as a last-writer-wins map keyed by id

Model: `Ctx.PMap α = List (Option α)` mirrors `ParamSetMap<T>(Vec<Option<T>>)`: `put` resizes with `None` and
overwrites the slot, `get` indexes, `iter` filters. The context holds two such maps (SPS, PPS), which share nothing. -/
namespace C19
open Ctx

/-- lookup after one insertion -/
theorem lookup_after_put {α} (m : PMap α) (i j : Nat) (v : α) :
    get (put m i v) j = if j = i then some v else get m j := get_put m i j v

/-- after any sequence of insertions, lookup returns the most recently inserted value with that id, and what was
there before (nothing, for the empty map) for ids never inserted -/
theorem lookup_is_last_write {α} (ws : List (Nat × α)) (m : PMap α) (j : Nat) :
    get (ws.foldl (fun m w => put m w.1 w.2) m) j =
      match lastWrite ws j with | some w => some w | none => get m j := get_foldl ws m j

theorem lookup_empty {α} (j : Nat) : get ([] : PMap α) j = none := get_empty j

/-- iteration is the stored values in storage order … -/
theorem iteration_is_entries {α} (m : PMap α) : iter m = (entriesFrom 0 m).map Prod.snd := iter_eq m 0

/-- … which is strictly increasing id order (hence each id at most once) … -/
theorem iteration_sorted {α} (m : PMap α) : (entriesFrom 0 m).Pairwise (fun a b => a.1 < b.1) := entriesFrom_sorted m 0

/-- … and an entry is listed exactly when lookup by that id finds it -/
theorem iteration_complete {α} (m : PMap α) (i : Nat) (v : α) : (i, v) ∈ entriesFrom 0 m ↔ get m i = some v := by
  have := mem_entriesFrom m 0 i v
  simpa using this

/-- SPS and PPS stores do not affect each other: the context is a pair of maps and each operation touches one -/
theorem stores_independent {α β} (sm : PMap α) (pm : PMap β) (i : Nat) (v : α) (j : Nat) :
    get (sm, pm).2 j = get (put sm i v, pm).2 j := rfl

/-- non-vacuity -/
example : (entriesFrom 0 (put (put (put ([] : PMap Nat) 2 20) 0 7) 2 21)) = [(0, 7), (2, 21)] := by decide

/-- **model = real code on a complete small domain, by proof**: every sequence of up to three SPS insertions (ids 0, 1, 31 ×
two distinguishable values; 259 histories): lookups of ids 0, 1, 2, 31 and the iteration of the model map are those of the
real `Context` in this run's graph -/
theorem model_map_reproduces_code : (SmallProof.allSeqs 6).map SmallProof.ctxRow = Generated.ctxRows :=
  SmallProof.ctx_model_eq_code

end C19
