import H264.AccumCor
import H264.SmallProofC08
/-! # C08 — NAL accumulator shows each NAL from byte 0, completes it once, honours Ignore

Model: `Accum.frag` mirrors `NalAccumulator::nal_fragment`; a history is a list of `Step`s (slices, end flag, and the
answer the handler gives *if* it is invoked on that delivery), so quantifying over step lists quantifies over all
delivery sequences and all handler policies. `specRun` is the specification: from the ghost state
(bytes of the current NAL so far, ignored?) alone it lists what each invocation must carry.
Caller contract (proved for the Annex B reader as C18): slices are non-empty. -/
namespace C08
open Accum

/-- for every delivery sequence with non-empty slices and every policy: the invocations (bytes shown, complete flag)
are exactly those of the specification — each shows all bytes of the current NAL so far starting at its first byte,
complete iff that delivery ended the NAL, none after Ignore -/
theorem invocations_match_spec (steps : List Step) (hne : ∀ s ∈ steps, ∀ b ∈ s.bufs, b ≠ []) :
    obs (run init steps []).2 = specRun ⟨[], false⟩ steps := by
  have hinv : Accum.Inv init ⟨[], false⟩ := by simp [Accum.Inv, init]
  obtain ⟨h, _⟩ := run_spec init ⟨[], false⟩ hinv steps hne []
  simpa [obs] using h

/-- one delivery, from any reachable state: the handler is invoked iff the NAL is not ignored and has a byte so far; it
sees exactly the bytes so far, a non-empty head chunk, complete iff end; the invariant is re-established -/
theorem one_delivery (a : Acc) (g : Ghost) (s : Step) (h : Accum.Inv a g) (hne : ∀ b ∈ s.bufs, b ≠ []) :
    (match (frag a s.bufs s.fin (fun _ => s.answer)).2 with
     | some inv => g.ignored = false ∧ inv.bytes = g.soFar ++ s.bufs.flatten ∧ inv.head ≠ [] ∧ inv.complete = s.fin
     | none => g.ignored = true ∨ (g.soFar = [] ∧ s.bufs = [])) ∧
    Accum.Inv (frag a s.bufs s.fin (fun _ => s.answer)).1
      (ghostStep g s (frag a s.bufs s.fin (fun _ => s.answer)).2.isSome) := by
  obtain ⟨f1, f2, _⟩ := frag_spec a g s h hne
  exact ⟨f1, f2⟩

/-- a NAL with at least one byte whose handler never answered Ignore gets exactly one complete invocation, carrying
the whole NAL (all earlier invocations for it are flagged incomplete) -/
theorem exactly_one_complete (pre : List Step) (last : Step)
    (hpre : ∀ s ∈ pre, s.fin = false ∧ s.answer = .buffer) (hlast : last.fin = true)
    (hne : bytesOf (pre ++ [last]) ≠ []) (rest : List Step) :
    ∃ l, specRun ⟨[], false⟩ (pre ++ last :: rest) = l ++ (bytesOf (pre ++ [last]), true) :: specRun ⟨[], false⟩ rest ∧
      ∀ e ∈ l, e.2 = false := one_complete_invocation pre last hpre hlast hne rest

/-- after Ignore the handler is not invoked again for that NAL, and the next NAL starts clean -/
theorem silent_after_ignore (sofar : List UInt8) (pre : List Step) (last : Step) (rest : List Step)
    (hpre : ∀ s ∈ pre, s.fin = false) (hlast : last.fin = true) :
    specRun ⟨sofar, true⟩ (pre ++ last :: rest) = specRun ⟨[], false⟩ rest :=
  ignored_is_silent sofar pre last rest hpre hlast

/-- no byte or decision of one NAL carries over into the next: ending a NAL leaves the freshly constructed state -/
theorem nothing_carries_over (a : Acc) (bufs : List (List UInt8)) (d : Invocation → Interest) :
    (frag a bufs true d).1 = init := frag_end_init a bufs d

/-- non-vacuity: Buffer, then Ignore, then the end; then a second NAL -/
example : obs (run init [⟨[[1, 2]], false, .buffer⟩, ⟨[[3]], false, .ignore⟩, ⟨[[4]], true, .buffer⟩, ⟨[[5]], true, .buffer⟩] []).2 =
    [([1, 2], false), ([1, 2, 3], false), ([5], true)] := by decide

/-- **call-level model = real code on a complete small domain, by proof**: every sequence of up to three deliveries out of
five shapes (empty end, one slice, one slice + end, two slices, two slices + end) × two handler answers (1 111 histories):
the model invokes the handler on the same deliveries, with the same bytes and completeness flag, as the real
`NalAccumulator` did in this run's graph -/
theorem model_accumulator_reproduces_code : (SmallProof.allSeqs 10).map SmallProof.accRow = Generated.accRows :=
  SmallProof.acc_model_eq_code

end C08
