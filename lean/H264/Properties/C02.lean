import H264.RbspInit
import H264.DecodeNal
import H264.DecodeNalSpec
import H264.ByteProofC02
/-! # C02 — RBSP extraction removes exactly the emulation-prevention bytes, for any chunking

Model: `Rbsp.BR` mirrors `rbsp::ByteReader` at call level (`try_fill_buf_slow` scanner, `fill_buf`, `consume`, `read`)
over the chunked inner reader `Rbsp.Chunked` (= `RefNalReader`), with the scan window `maxFill` a parameter.
Spec: `Rbsp.unesc` — declarative removal over 3-byte windows (`00 00 03` drops the `03`, which must be followed by a
byte ≤ 3 or by the end; `00 00 00` is invalid); `Rbsp.escape` — the encoder's insertion rule of 7.4.1.1. -/
namespace C02
open Rbsp

/-- **streaming reader, every access pattern**: for every chunking of the NAL into non-empty chunks, complete or not,
every header skip count, every window size ≥ 1 and every program of `fill_buf` / `consume k` / `read n` calls, the
bytes delivered so far followed by what the reader still holds are exactly `unesc (nal.drop skip)`, and validity of
the remainder never changes — so nothing is delivered twice, reordered, or past a forbidden sequence -/
theorem stream_delivers_unesc (chunks : List (List UInt8)) (complete : Bool) (skip maxFill : Nat)
    (hne : ∀ c ∈ chunks, c ≠ []) (hmf : 1 ≤ maxFill) (ops : List Op) :
    let r := initReader chunks complete skip maxFill
    (runOps r ops []).2 ++ (view (runOps r ops []).1).1 = (unesc (chunks.flatten.drop skip)).1 ∧
    (view (runOps r ops []).1).2 = (unesc (chunks.flatten.drop skip)).2 := by
  intro r
  obtain ⟨_, h2, h3⟩ := runOps_spec r (initReader_inv chunks complete skip maxFill hne hmf) ops []
  have hv : view r = unesc (chunks.flatten.drop skip) := by
    show view (initReader chunks complete skip maxFill) = _
    rw [initReader_view, initState_unesc]
  rw [hv] at h2 h3
  exact ⟨by simpa using h2, h3⟩

/-- in particular the delivered bytes are a prefix of the un-escaped payload, whatever the program -/
theorem delivered_is_prefix (chunks : List (List UInt8)) (complete : Bool) (skip maxFill : Nat)
    (hne : ∀ c ∈ chunks, c ≠ []) (hmf : 1 ≤ maxFill) (ops : List Op) :
    (runOps (initReader chunks complete skip maxFill) ops []).2 <+: (unesc (chunks.flatten.drop skip)).1 := by
  obtain ⟨h, _⟩ := stream_delivers_unesc chunks complete skip maxFill hne hmf ops
  exact ⟨_, h⟩

/-- two chunkings of the same bytes are indistinguishable to any program run to the same point -/
theorem chunking_irrelevant (c₁ c₂ : List (List UInt8)) (complete : Bool) (skip m₁ m₂ : Nat)
    (h : c₁.flatten = c₂.flatten) :
    view (initReader c₁ complete skip m₁) = view (initReader c₂ complete skip m₂) := by
  rw [initReader_view, initReader_view, h]

/-- `fill_buf` contract: returns a prefix of what remains, empty only at the genuine end of a complete NAL;
`WouldBlock` only for an incomplete NAL whose buffered part is exhausted; `InvalidData` only if the rest is invalid -/
theorem fill_buf_contract (r : BR) (hinv : Inv r) :
    Inv (fillBuf r).1 ∧ view (fillBuf r).1 = view r ∧
    (match (fillBuf r).2 with
     | .ok buf => buf <+: (view r).1 ∧ (buf = [] → (view r) = ([], true) ∧ r.inner.complete = true)
     | .error .wouldBlock => r.inner.complete = false ∧ (view r) = ([], true)
     | .error .invalidData => (view r).2 = false
     | .error .eof => False) := by
  obtain ⟨f1, f2, _, _, f5⟩ := fillBuf_spec r hinv
  refine ⟨f1, f2, ?_⟩
  cases hres : (fillBuf r).2 with
  | error k => rw [hres] at f5; cases k <;> simpa using f5
  | ok buf => rw [hres] at f5; exact ⟨f5.2.1, f5.2.2⟩

/-- `read` contract: returns the next bytes of the view, 0 bytes only for `n = 0` or at the genuine end -/
theorem read_contract (r : BR) (hinv : Inv r) (n : Nat) :
    Inv (read r n).1 ∧
    (match (read r n).2 with
     | .ok bs => bs = (view r).1.take bs.length ∧ bs.length ≤ n ∧
          view (read r n).1 = ((view r).1.drop bs.length, (view r).2) ∧
          (bs = [] → n = 0 ∨ (view r = ([], true) ∧ r.inner.complete = true))
     | .error .wouldBlock => view (read r n).1 = view r ∧ r.inner.complete = false ∧ view r = ([], true)
     | .error .invalidData => view (read r n).1 = view r ∧ (view r).2 = false
     | .error .eof => False) := by
  obtain ⟨h1, _, h3⟩ := read_spec r hinv n
  exact ⟨h1, h3⟩

/-- the scanner's state machine computes the declarative window semantics -/
theorem scanner_is_window_spec (xs : List UInt8) : unescFrom .start xs = unesc xs := unescFrom_start_eq xs

/-- decoding the escaped form of *any* payload returns that payload -/
theorem escape_roundtrip (p : List UInt8) : unesc (escape p) = (p, true) := unesc_escape p

/-- **one-shot decoder**: `decode_nal` yields exactly the declarative un-escaping of everything after the header byte;
it reports `InvalidData` exactly when that is invalid; and it borrows its input exactly when nothing had to be removed
(also for the empty and the header-only NAL) -/
theorem oneshot_decoder (nal : List UInt8) :
    decodeNal nal =
      if (unesc (nal.drop 1)).2 then .ok (decide ((unesc (nal.drop 1)).1 = nal.drop 1), (unesc (nal.drop 1)).1)
      else .error .invalidData := decodeNal_eq nal

/-- so the one-shot decoder and every run-to-the-end of the streaming reader agree, whatever the chunking -/
theorem oneshot_agrees_with_stream (nal : List UInt8) (chunks : List (List UInt8)) (complete : Bool) (maxFill : Nat)
    (hflat : chunks.flatten = nal) (b : Bool) (out : List UInt8) (h : decodeNal nal = .ok (b, out)) :
    view (initReader chunks complete 1 maxFill) = (out, true) := by
  rw [initReader_view, initState_unesc, hflat]
  rw [decodeNal_eq] at h
  split at h
  · rename_i hv
    simp only [Except.ok.injEq, Prod.mk.injEq] at h
    exact Prod.ext h.2 hv
  · cases h

/-- non-vacuity: a NAL cut inside its escape sequence, header skipped -/
example : (unesc ([0x65, 0x01, 0x00, 0x00, 0x03, 0x01, 0x00, 0x00, 0x03].drop 1)) = ([0x01, 0x00, 0x00, 0x01, 0x00, 0x00], true) := by
  simp [unesc, okAfter03]
example : Inv (initReader [[0x65, 0x01, 0x00], [0x00], [0x03, 0x01]] false 1 128) :=
  initReader_inv _ _ _ _ (by simp) (by omega)

/-- **call-level model = real code on a complete small domain, by proof**: for every payload of length 0…5 over
{00, 01, 03, 04} behind a header byte (1 365 NALs: every escape, every forbidden sequence, every trailing-zero shape that
fits), the model's `decodeNal` returns what the real `decode_nal` returned in this run's graph (accepted or not, borrowed or
owned, the bytes), and the model `ByteReader` drained by single-byte reads delivers what the real one delivered -/
theorem model_decode_nal_reproduces_code :
    (ByteProof.words [0x00, 0x01, 0x03, 0x04]).map ByteProof.decodeRow = Generated.decodeNalRows := ByteProof.decodeNal_model_eq_code
theorem model_byte_reader_reproduces_code :
    (ByteProof.words [0x00, 0x01, 0x03, 0x04]).map ByteProof.drainRow = Generated.rbspDrainRows := ByteProof.byteReader_model_eq_code

end C02
