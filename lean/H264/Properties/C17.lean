import H264.NalPrefix
import H264.SpsMono
import H264.PpsSliceMono
import H264.SliceMono
import H264.SeiMono
import H264.SpsExact
import H264.PpsExact
import H264.SpsRangesAll
import H264.SeiScratch
import H264.SmallProofC17
/-! # C17 — Parsing a partially buffered NAL never contradicts parsing the complete NAL

`Mono p`: on every truncated, still-incomplete view (`fin = wouldBlock`, bits a prefix) the parser `p` either fails
with a would-block read error, or returns the value the run on the full source returns (the residual sources again in
prefix relation), or fails where the full run fails too. `MonoRes full partial` is that relation of outcomes.
Purity: the model parsers are functions of (context, source), so repeated invocation and scratch reuse cannot matter
in the model; the correspondence run repeats calls with dirty scratch storage on the implementation. -/
namespace C17
open Bits

/-- byte level: a proper prefix of a NAL free of forbidden sequences, presented as an incomplete NAL in **any**
chunking, is seen by the parsers as a truncated would-block view of what the complete contiguous NAL shows -/
theorem prefix_is_truncated_view (nal : List UInt8) (hv : (Rbsp.unesc (nal.drop 1)).2 = true)
    (chunks' : List (List UInt8)) (hc : ∀ c ∈ chunks', c ≠ []) (t : List UInt8) (hflat : chunks'.flatten ++ t = nal)
    (hne : chunks' ≠ []) :
    (NalSrc.srcOfNal chunks' false).IsPrefixOf (NalSrc.srcOfNal [nal] true) :=
  NalSrc.prefix_view nal hv chunks' hc t hflat hne

/-- the parsers are prefix-monotone -/
theorem sps_monotone : Mono Sps.parseSps := Sps.mono_parseSps
theorem pps_monotone (spsById) : Mono (Pps.parsePps spsById) := Pps.mono_parsePps spsById
theorem slice_header_monotone (ctx hdr) : Mono (Slice.parseSliceHeader ctx hdr) := Slice.mono_parseSliceHeader ctx hdr
theorem more_data_monotone (name) : Mono (hasMore name) := mono_hasMore name
theorem finish_monotone : Mono finishRbsp := mono_finishRbsp

/-- composition: each parser on the incomplete prefix (any chunking) blocks or agrees with the complete contiguous NAL -/
theorem partial_nal_agrees {α} (p : P α) (hp : Mono p) (nal : List UInt8) (hv : (Rbsp.unesc (nal.drop 1)).2 = true)
    (chunks' : List (List UInt8)) (hc : ∀ c ∈ chunks', c ≠ []) (t : List UInt8) (hflat : chunks'.flatten ++ t = nal)
    (hne : chunks' ≠ []) :
    MonoRes (p (NalSrc.srcOfNal [nal] true)) (p (NalSrc.srcOfNal chunks' false)) :=
  NalSrc.partial_agrees p hp nal hv chunks' hc t hflat hne

/-- SPS and PPS parsing must see the end of the RBSP: they never succeed on an incomplete NAL -/
theorem sps_never_succeeds_on_partial (s : Src) (h : s.fin ≠ .eof) (v : Sps.Sps) (s' : Src) :
    Sps.parseSps s ≠ .ok (v, s') := by
  intro hok
  exact h (Sps.parseSps_ranges_all s s' v hok).2.2.2.2

theorem pps_never_succeeds_on_partial (spsById) (s : Src) (h : s.fin ≠ .eof) (v : Pps.Pps) (s' : Src) :
    Pps.parsePps spsById s ≠ .ok (v, s') := by
  intro hok
  obtain ⟨_, _, _, _, _, _, he⟩ := Pps.C05_converse spsById s s' v hok
  exact h he

theorem finish_needs_the_end (s : Src) (h : s.fin ≠ .eof) : ∀ r, finishRbsp s ≠ .ok r := finishRbsp_needs_eof s h

/-- SEI reader: on the truncated view each call yields the same message as the complete run (readers stay in step),
never reports the end, and otherwise fails with would-block or exactly like the complete run — so it yields a prefix
of the complete message sequence and then such a failure -/
theorem sei_yields_prefix (r' r : Sei.Reader) (h : Sei.InStep r' r) :
    match (Sei.next r').2 with
    | .ok (some m) => (Sei.next r).2 = .ok (some m) ∧ Sei.InStep (Sei.next r').1 (Sei.next r).1
    | .ok none => False
    | .error e => e.isWouldBlock ∨ (Sei.next r).2 = .error e := Sei.next_prefix r' r h

/-- the RBSP of a prefix of a valid NAL is a prefix of the NAL's RBSP and is itself valid -/
theorem rbsp_of_prefix (p t : List UInt8) (hv : (Rbsp.unescFrom .start (p ++ t)).2 = true) :
    (Rbsp.unescFrom .start p).2 = true ∧ (Rbsp.unescFrom .start p).1 <+: (Rbsp.unescFrom .start (p ++ t)).1 :=
  Rbsp.unescFrom_prefix .start p t hv

/-- "reusing scratch buffers does not change the outcome": the SEI reader with its caller-supplied scratch vector
(`resize(len, 0)`, `read_exact`, the message borrows the vector) returns, for every previous content of that vector, the
result and the next state of the scratch-free model -/
theorem sei_reader_independent_of_scratch (r : Sei.Reader) (s₁ s₂ : List UInt8) :
    (Sei.nextS r s₁).1 = (Sei.nextS r s₂).1 ∧ (Sei.nextS r s₁).2.1 = (Sei.nextS r s₂).2.1 := Sei.scratch_irrelevant r s₁ s₂
theorem sei_reader_with_scratch_is_model (r : Sei.Reader) (scratch : List UInt8) :
    ((Sei.nextS r scratch).1, (Sei.nextS r scratch).2.1) = Sei.next r := Sei.nextS_eq_next r scratch

/-- **model = real code on every prefix, by proof**: an SPS, a PPS, a P-slice and a two-message SEI NAL unit (the bytes are part of
this run's graph), each presented as every proper prefix (an incomplete NAL) and complete: the model parsers over the model byte
reader (`NalSrc.srcOfNal`, the whole model stack evaluated in the kernel) block, accept — with the same id, frame_num or number of
messages delivered — or refuse exactly where the real parsers did -/
theorem model_prefix_outcomes_reproduce_code :
    SmallProof.prefixInputs.map (fun x => SmallProof.prefixRow x.1 x.2) = Generated.prefixRows := SmallProof.prefixes_model_eq_code

end C17
