import H264.C12
import H264.EscapeNoSC
import H264.NalSrcProofs
/-! # C12 — End to end: a chunked Annex B stream parses like its NALs parsed in isolation

Composition of C01 (segmentation), C18 (shapes), C08 (accumulation), C02/C15 (what a reader drains from a chunked NAL).
`serialise nals`: each NAL preceded by `lead` extra zero bytes and `00 00 01` (lead = 0 / 1 gives 3- / 4-byte start
codes; more covers trailing zeros of the previous NAL). `NalOk n`: non-empty, no `00 00 00` / `00 00 01` inside, last
byte non-zero — which `header :: escape(rbsp)` satisfies for any RBSP ending in rbsp_trailing_bits. -/
namespace C12
open AnnexB Accum

/-- however the serialised stream is cut into `push` calls, after the final `reset` the always-`Buffer` handler has
been shown every NAL unit completely, exactly once, in order, byte-identical -/
theorem framing_and_accumulation (nals : List (Nat × List UInt8)) (hok : ∀ p ∈ nals, NalOk p.2)
    (chunks : List (List UInt8)) (hcut : chunks.flatten = serialise nals) :
    let calls := (pushAll St.start chunks).2 ++ (AnnexB.reset (pushAll St.start chunks).1).2
    completeOnes (obs (Accum.run Accum.init (stepsOf calls) []).2) = nals.map (·.2) :=
  C12_framing nals hok chunks hcut

/-- the Annex B segmentation of a serialised sequence of well-formed NAL units is exactly that sequence -/
theorem segmentation_of_serialised (nals : List (Nat × List UInt8)) (h : ∀ p ∈ nals, NalOk p.2) :
    outside (serialise nals) = unitsOf nals := segment_serialise nals h

/-- emulation prevention does its job: `header :: escape(rbsp)` with a non-zero header byte contains no start code -/
theorem escaped_nal_has_no_start_code (hdr : UInt8) (h : hdr ≠ 0) (rbsp : List UInt8) :
    noSC (hdr :: Rbsp.escape rbsp) = true := noSC_nal hdr h rbsp

/-- parsing inside the handler = parsing the NAL alone: what any parser sees of a valid NAL depends only on the
concatenation of the chunks the handler was given (buffered head + new slices), not on how they were cut -/
theorem parse_inside_equals_parse_alone (chunks : List (List UInt8)) (hne : ∀ c ∈ chunks, c ≠ [])
    (hv : (Rbsp.unesc (chunks.flatten.drop 1)).2 = true) (hnn : chunks.flatten ≠ []) :
    NalSrc.srcOfNal chunks true = NalSrc.srcOfNal [chunks.flatten] true := by
  rw [NalSrc.srcOfNal_valid chunks true hne hv,
      NalSrc.srcOfNal_valid [chunks.flatten] true (by intro c hc; simp at hc; rw [hc]; exact hnn) (by simpa using hv)]
  simp

end C12
