import H264.C12
import H264.EscapeNoSC
import H264.NalSrcProofs
import H264.EndToEnd
import H264.Sps
import H264.SmallProofC12
/-! # C12 — End to end: a chunked Annex B stream parses like its NALs parsed in isolation

Composition of C01 (segmentation), C18 (shapes), C08 (accumulation), C02/C15 (what a reader drains from a chunked NAL).
`serialise nals`: each NAL preceded by `lead` extra zero bytes and `00 00 01` (lead = 0 / 1 gives 3- / 4-byte start
codes; more covers trailing zeros of the previous NAL). `NalOk n`: non-empty, no `00 00 00` / `00 00 01` inside, last
byte non-zero — which `header :: escape(rbsp)` satisfies for any RBSP ending in rbsp_trailing_bits. -/
namespace C12
open AnnexB Accum

/-- however the serialised stream is cut into `push` calls, after the final `reset` the always-`Buffer` handler has
been shown every NAL unit completely, exactly once, in order, byte-identical -/
theorem framing_and_accumulation (nals : List (Nat × List UInt8)) (hok : ∀ p ∈ nals, NalOk p.2)
    (chunks : List (List UInt8)) (hcut : chunks.flatten = serialise nals) :
    let calls := (pushAll St.start chunks).2 ++ (AnnexB.reset (pushAll St.start chunks).1).2
    completeOnes (obs (Accum.run Accum.init (stepsOf calls) []).2) = nals.map (·.2) :=
  C12_framing nals hok chunks hcut

/-- the Annex B segmentation of a serialised sequence of well-formed NAL units is exactly that sequence -/
theorem segmentation_of_serialised (nals : List (Nat × List UInt8)) (h : ∀ p ∈ nals, NalOk p.2) :
    outside (serialise nals) = unitsOf nals := segment_serialise nals h

/-- emulation prevention does its job: `header :: escape(rbsp)` with a non-zero header byte contains no start code -/
theorem escaped_nal_has_no_start_code (hdr : UInt8) (h : hdr ≠ 0) (rbsp : List UInt8) :
    noSC (hdr :: Rbsp.escape rbsp) = true := noSC_nal hdr h rbsp

/-- parsing inside the handler = parsing the NAL alone: what any parser sees of a valid NAL depends only on the
concatenation of the chunks the handler was given (buffered head + new slices), not on how they were cut -/
theorem parse_inside_equals_parse_alone (chunks : List (List UInt8)) (hne : ∀ c ∈ chunks, c ≠ [])
    (hv : (Rbsp.unesc (chunks.flatten.drop 1)).2 = true) (hnn : chunks.flatten ≠ []) :
    NalSrc.srcOfNal chunks true = NalSrc.srcOfNal [chunks.flatten] true := by
  rw [NalSrc.srcOfNal_valid chunks true hne hv,
      NalSrc.srcOfNal_valid [chunks.flatten] true (by intro c hc; simp at hc; rw [hc]; exact hnn) (by simpa using hv)]
  simp

/-- **the property, end to end**: for any sequence of well-formed NAL units free of forbidden byte sequences,
serialised as an Annex B stream and pushed in arbitrary pieces through the accumulating reader, the bit sources that
parsers obtain inside the handler from the complete invocations are, in order, exactly the bit sources of the NAL
units taken alone from contiguous buffers (composition of C01, C18, C08 and of the chunk-independence of C02/C15) -/
theorem bit_sources_inside_handler_are_those_of_the_nals_alone (nals : List (Nat × List UInt8))
    (hok : ∀ p ∈ nals, NalOk p.2) (hvalid : ∀ p ∈ nals, (Rbsp.unesc (p.2.drop 1)).2 = true)
    (chunks : List (List UInt8)) (hcut : chunks.flatten = serialise nals) :
    let calls := (pushAll St.start chunks).2 ++ (AnnexB.reset (pushAll St.start chunks).1).2
    let tr := (Accum.run Accum.init (stepsOf calls) []).2
    (tr.filter (·.complete)).map invSrc = nals.map (fun p => NalSrc.srcOfNal [p.2] true) :=
  end_to_end nals hok hvalid chunks hcut

/-- … for streams produced by an encoder: units given as (extra zeros, header byte ≠ 0, RBSP ending in its trailing
bits), emulation prevention applied; any function of the bit source — in particular each model parser with the
context folded from the earlier results — returns inside the handler what it returns on `header :: escape rbsp` alone -/
theorem parsing_inside_handler_equals_parsing_alone {β} (parse : Bits.Src → β) (units : List (Nat × UInt8 × List UInt8))
    (hu : ∀ u ∈ units, u.2.1 ≠ 0 ∧ ∃ x, x ≠ 0 ∧ u.2.2.getLast? = some x)
    (chunks : List (List UInt8))
    (hcut : chunks.flatten = serialise (units.map fun u => (u.1, u.2.1 :: Rbsp.escape u.2.2))) :
    let calls := (pushAll St.start chunks).2 ++ (AnnexB.reset (pushAll St.start chunks).1).2
    let tr := (Accum.run Accum.init (stepsOf calls) []).2
    (tr.filter (·.complete)).map (fun i => parse (invSrc i)) =
      units.map (fun u => parse (NalSrc.srcOfNal [u.2.1 :: Rbsp.escape u.2.2] true)) :=
  end_to_end_escaped parse units hu chunks hcut

/-- the SPS parser as an instance -/
theorem sps_inside_handler (units : List (Nat × UInt8 × List UInt8))
    (hu : ∀ u ∈ units, u.2.1 ≠ 0 ∧ ∃ x, x ≠ 0 ∧ u.2.2.getLast? = some x)
    (chunks : List (List UInt8))
    (hcut : chunks.flatten = serialise (units.map fun u => (u.1, u.2.1 :: Rbsp.escape u.2.2))) :
    let calls := (pushAll St.start chunks).2 ++ (AnnexB.reset (pushAll St.start chunks).1).2
    let tr := (Accum.run Accum.init (stepsOf calls) []).2
    (tr.filter (·.complete)).map (fun i => Sps.parseSps (invSrc i)) =
      units.map (fun u => Sps.parseSps (NalSrc.srcOfNal [u.2.1 :: Rbsp.escape u.2.2] true)) :=
  end_to_end_escaped Sps.parseSps units hu chunks hcut

/-- non-vacuity: a unit `67 | 42 80` (header 0x67, RBSP ending in a non-zero byte) satisfies the hypothesis -/
example : (0x67 : UInt8) ≠ 0 ∧ ∃ x : UInt8, x ≠ 0 ∧ ([0x42, 0x80] : List UInt8).getLast? = some x :=
  ⟨by decide, 0x80, by decide, rfl⟩

/-- **the whole pipeline, model = real code, by proof**: an SPS, a PPS, a P-slice and an SEI NAL unit as one Annex B stream, pushed
through `AnnexBReader::accumulate` in two pieces cut at every position, then reset (the bytes and the real pipeline's results are
part of this run's graph): the model pipeline — Annex B model, accumulator model, byte-reader model, parsers with the context they
build — parses inside its handler exactly what the real pipeline parsed inside the real handler, for every cut -/
theorem model_pipeline_reproduces_code :
    (List.range (SmallProof.streamBytes.length + 1)).map SmallProof.streamRow = Generated.streamRows := SmallProof.stream_model_eq_code

end C12
