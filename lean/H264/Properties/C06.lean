import H264.SliceC06
import H264.SliceExact
import H264.SliceConverse
import H264.History
import H264.Tables2C06
import H264.TblProofC06
import H264.SmallProofC16Slice
/-! # C06 — Slice header parsing follows H.264 7.3.3 and stops exactly at slice data

Model: `Slice.parseSliceHeader ctx hdr` mirrors `SliceHeader::from_bits(ctx, reader, nal_header)`.
Spec: `Slice.encSliceHeader sps pps hdr h x` transcribed from 7.3.3, 7.3.3.1, 7.3.3.2, 7.3.3.3 over a syntax-level
record: the header fields `h` plus `x : Extra` — the coded `slice_qs_delta`, `slice_alpha_c0_offset_div2` and
`slice_beta_offset_div2`, which the result type does not keep (it keeps the derived SliceQS). `SliceWF` spells out
the standard's presence conditions on slice_type % 5, nal_unit_type = 5, nal_ref_idc ≠ 0 and the SPS/PPS flags.
Excluded, as in the property: B slices with explicit weighted prediction (`PwtWF`), and PPS with slice-group map
types 3–5, whose slice_group_change_cycle the library does not read (so the residual position is the first bit of
slice data exactly for the other PPS). -/
namespace C06
open Slice Bits Sps

/-- **forward**: every conforming header of NAL types 1/5, any nal_ref_idc, any slice type, with its PPS and SPS in the
context: every field equals the encoded value, the activated parameter-set ids are returned, and the reader is left
on the first bit after the header (`d :: data`), not one bit early or late -/
theorem forward (ctx : Ctx) (sps : Sps.Sps) (pps : Pps.Pps) (hdr : NalHdr) (h : SliceHeader) (x : Extra)
    (hpps : ctx.pps pps.ppsId = some pps) (hsps : ctx.sps pps.spsId = some sps)
    (wf : SliceWF sps pps hdr h x) (d : Bool) (data : List Bool) (z : Nat) :
    parseSliceHeader ctx hdr ⟨encSliceHeader sps pps hdr h x ++ d :: (data ++ trailing z), .eof⟩
      = .ok ((h, pps.spsId, pps.ppsId), ⟨d :: (data ++ trailing z), .eof⟩) :=
  C06_forward ctx sps pps hdr h x hpps hsps wf d data z

/-- the one non-canonical coding the parser accepts in a header: a list-modification flag 1 followed at once by
the terminator parses like flag 0 (exactness of the loop) -/
theorem mod_list_exact (s s' : Src) (ops : List ModOp) (h : readModList s = .ok (ops, s')) :
    (∀ o ∈ ops, o.WF) ∧ (∃ lf, s.bits = encModListAlt ops lf ++ s'.bits) ∧ s'.fin = s.fin :=
  readModList_exact s s' ops h

/-- **converse** ("each conditional element is read exactly when the standard's condition holds"): whatever the parser
accepts, in any context, is the standard-order encoding of exactly what it returned followed by the untouched rest —
no bit skipped, read twice or read under another condition. The two places where different bit strings give the same
value are explicit: `alt` (an empty modification list coded as flag 1 + terminator) and `x` (the discarded
slice_qs_delta / alpha / beta offsets). The returned ids name the context entries used, slice data follows, and the
result satisfies the presence conditions `SliceWF` of the forward theorem -/
theorem converse (ctx : Ctx) (hdr : NalHdr) (s s' : Src) (h : SliceHeader) (sid pid : Nat)
    (hok : parseSliceHeader ctx hdr s = .ok ((h, sid, pid), s')) :
    ∃ pps sps x alt, ctx.pps pid = some pps ∧ pps.spsId = sid ∧ ctx.sps sid = some sps ∧ pid ≤ 255 ∧
      s.bits = encSliceHeaderAlt sps pps hdr h x pid alt ++ s'.bits ∧ s'.fin = s.fin ∧
      (s'.bits.drop 1).any id = true ∧
      (pps.ppsId = pid → SliceWF sps pps hdr h x) :=
  C06_converse ctx hdr s s' h sid pid hok

/-- the encoder of the converse is the encoder of the forward theorem (canonical choices) -/
theorem converse_encoder_is_standard (sps : Sps.Sps) (pps : Pps.Pps) (hdr : NalHdr) (h : SliceHeader) (x : Extra) :
    encSliceHeaderAlt sps pps hdr h x pps.ppsId ⟨false, false⟩ = encSliceHeader sps pps hdr h x :=
  encSliceHeaderAlt_std sps pps hdr h x

/-- both directions joined, **for every context reachable by feeding parameter-set NALs to the parsers**: a header
accepted there is conforming (`SliceWF`) and its standard encoding parses back to the same result in front of any
slice data. (The hypothesis of `C06_reencode` — PPS stored under their own ids — is the context invariant of
`History.reachable_inv`.) -/
theorem accepted_reencodes_in_reachable_context (ops : List History.Op) (hdr : NalHdr) (s s' : Src) (h : SliceHeader)
    (sid pid : Nat)
    (hok : parseSliceHeader (History.sctx (History.run ops)) hdr s = .ok ((h, sid, pid), s')) :
    ∃ pps sps x, (History.sctx (History.run ops)).pps pid = some pps ∧ (History.sctx (History.run ops)).sps sid = some sps ∧
      SliceWF sps pps hdr h x ∧
      ∀ (d : Bool) (data : List Bool) (z : Nat),
        parseSliceHeader (History.sctx (History.run ops)) hdr ⟨encSliceHeader sps pps hdr h x ++ d :: (data ++ trailing z), .eof⟩
          = .ok ((h, sid, pid), ⟨d :: (data ++ trailing z), .eof⟩) :=
  C06_reencode _ hdr s s' h sid pid hok (fun p hp => ((History.reachable_inv ops).2 pid p hp).1)

/-- Table 7-6 in the running code (graph extracted through `SliceHeader::from_bits` on every run): slice_type 0…9 are
accepted and 10…63 refused; the family is the model's `familyOf` and 5…9 are the exclusive variants -/
theorem code_slice_type_table : Generated.sliceType.length = 64 ∧
    ∀ t : Fin 64, Generated.sliceType.getD t.val (9,9,9) =
      (if t.val ≤ 9 then (1, Tables2.famIdx (Slice.familyOf t.val), if t.val ≥ 5 then 1 else 0) else (0, 0, 0)) :=
  Tables2.sliceType_table

/-- model `parseSliceHeader` (in the model context built by the model SPS / PPS parsers) = real `SliceHeader::from_bits`
on the 64 swept slice headers, by proof on every run -/
theorem model_parser_reproduces_code_on_slice_type_sweep :
    ∀ t : Fin 64, TblProof.sliceTypeCode t.val = Generated.sliceType.getD t.val (9, 9, 9) := TblProof.sliceType_model_eq_code

/-- **model = real code across every range check of a slice header, by proof**: ten coded fields of an SP slice header (against a
PPS with CABAC, redundant_pic_cnt and deblocking control switched on), one at a time swept across its bounds, everything else
valid (820 inputs): the model parser accepts exactly what the real parser accepted in this run's graph and returns the same field -/
theorem model_slice_bounds_reproduce_code : (List.range 820).map SmallProof.sliceFieldRow = Generated.sliceFieldRows :=
  SmallProof.sliceFields_model_eq_code

end C06
