import H264.SliceC06
import H264.SliceExact
/-! # C06 — Slice header parsing follows H.264 7.3.3 and stops exactly at slice data

Model: `Slice.parseSliceHeader ctx hdr` mirrors `SliceHeader::from_bits(ctx, reader, nal_header)`.
Spec: `Slice.encSliceHeader sps pps hdr h x` transcribed from 7.3.3, 7.3.3.1, 7.3.3.2, 7.3.3.3 over a syntax-level
record: the header fields `h` plus `x : Extra` — the coded `slice_qs_delta`, `slice_alpha_c0_offset_div2` and
`slice_beta_offset_div2`, which the result type does not keep (it keeps the derived SliceQS). `SliceWF` spells out
the standard's presence conditions on slice_type % 5, nal_unit_type = 5, nal_ref_idc ≠ 0 and the SPS/PPS flags.
Excluded, as in the property: B slices with explicit weighted prediction (`PwtWF`), and PPS with slice-group map
types 3–5, whose slice_group_change_cycle the library does not read (so the residual position is the first bit of
slice data exactly for the other PPS). -/
namespace C06
open Slice Bits Sps

/-- **forward**: every conforming header of NAL types 1/5, any nal_ref_idc, any slice type, with its PPS and SPS in the
context: every field equals the encoded value, the activated parameter-set ids are returned, and the reader is left
on the first bit after the header (`d :: data`), not one bit early or late -/
theorem forward (ctx : Ctx) (sps : Sps.Sps) (pps : Pps.Pps) (hdr : NalHdr) (h : SliceHeader) (x : Extra)
    (hpps : ctx.pps pps.ppsId = some pps) (hsps : ctx.sps pps.spsId = some sps)
    (wf : SliceWF sps pps hdr h x) (d : Bool) (data : List Bool) (z : Nat) :
    parseSliceHeader ctx hdr ⟨encSliceHeader sps pps hdr h x ++ d :: (data ++ trailing z), .eof⟩
      = .ok ((h, pps.spsId, pps.ppsId), ⟨d :: (data ++ trailing z), .eof⟩) :=
  C06_forward ctx sps pps hdr h x hpps hsps wf d data z

/-- the one non-canonical coding the parser accepts in a header: a list-modification flag 1 followed at once by
the terminator parses like flag 0 (exactness of the loop) -/
theorem mod_list_exact (s s' : Src) (ops : List ModOp) (h : readModList s = .ok (ops, s')) :
    (∀ o ∈ ops, o.WF) ∧ (∃ lf, s.bits = encModListAlt ops lf ++ s'.bits) ∧ s'.fin = s.fin :=
  readModList_exact s s' ops h

end C06
