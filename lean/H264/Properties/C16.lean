import H264.SpsExact
import H264.PpsExact
import H264.SliceExact
import H264.SpsRangesAll
import H264.History
import H264.SmallProofC16
import H264.SmallProofC16Slice
/-! # C16 — Accepted parameter sets and slice headers satisfy documented range invariants

Every statement has the form "the parser returned success on *some* input ⇒ the result is within the bounds", for
arbitrary input bits and an arbitrary context. The context in the PPS / slice statements is an arbitrary lookup
function, so they hold in particular for every context built from previously accepted parameter sets. -/
namespace C16
open Bits

/-- the bounds of an accepted SPS that later stages rely on, written out -/
def SpsRanges (v : Sps.Sps) : Prop :=
  v.spsId < 32 ∧ v.log2MaxFrameNumMinus4 + 4 ≤ 16 ∧
  (∀ n, v.picOrderCnt = .typeZero n → n + 4 ≤ 16) ∧
  (∀ a b c offs, v.picOrderCnt = .typeOne a b c offs → offs.length ≤ 255) ∧
  (∀ u, v.vui = some u →
    (∀ h, (u.nalHrd = some h ∨ u.vclHrd = some h) → 1 ≤ h.cpbSpecs.length ∧ h.cpbSpecs.length ≤ 32) ∧
    (∀ b, u.bitstreamRestrictions = some b →
      b.maxBytesPerPicDenom ≤ 16 ∧ b.maxBitsPerMbDenom ≤ 16 ∧ b.log2MaxMvLengthHorizontal ≤ 16 ∧
      b.log2MaxMvLengthVertical ≤ 16 ∧ b.maxNumReorderFrames ≤ b.maxDecFrameBuffering ∧
      v.maxNumRefFrames ≤ b.maxDecFrameBuffering))

/-- every accepted SPS (AVC profile classes, see C04) satisfies `Sps.WF` — ids, log2 sizes, bit depths, POC cycle
length, CPB counts, bitstream-restriction limits, scaling-list shape — and hence the written-out bounds -/
theorem sps_accepted_in_range (s s' : Src) (v : Sps.Sps) (h : Sps.parseSps s = .ok (v, s'))
    (hmvc : Sps.mvcOnlyProfile v.profileIdc = false) : (∃ sm, v.WF sm) ∧ SpsRanges v := by
  obtain ⟨sm, z, wf, _, _⟩ := Sps.C04_converse s s' v h hmvc
  refine ⟨⟨sm, wf⟩, ?_⟩
  obtain ⟨_, _, _, w4, _, w6, w7, _, _, _, _, w12⟩ := wf
  refine ⟨by omega, by omega, ?_, ?_, ?_⟩
  · intro n hn; rw [hn] at w7; simp only [Sps.PicOrderCntType.WF] at w7; omega
  · intro a b c offs hn; rw [hn] at w7; simp only [Sps.PicOrderCntType.WF] at w7; exact w7.2.2.1
  · intro u hu
    rw [hu] at w12
    simp only [Sps.Vui.WF] at w12
    obtain ⟨_, _, _, _, hn, hv, _, hb⟩ := w12
    refine ⟨?_, ?_⟩
    · rintro hh (hh' | hh')
      · rw [hh'] at hn; simp only [Sps.OptHrdWF, Sps.Hrd.WF] at hn; exact ⟨hn.2.2.1, hn.2.2.2.1⟩
      · rw [hh'] at hv; simp only [Sps.OptHrdWF, Sps.Hrd.WF] at hv; exact ⟨hv.2.2.1, hv.2.2.2.1⟩
    · intro b hb'
      rw [hb'] at hb
      simp only [Sps.BitstreamRestrictions.WF] at hb
      exact ⟨hb.1, hb.2.1, hb.2.2.1, hb.2.2.2.1, hb.2.2.2.2.1, hb.2.2.2.2.2.1⟩

/-- the same bounds for **every** accepted SPS, whatever its profile_idc (no AVC-profile hypothesis): ids, log2 sizes,
POC cycle length, CPB counts, bitstream-restriction limits and their consistency with max_num_ref_frames, bit depths at
most 14, and scaling-list counts matching the chroma format (6 4x4 lists and 2 or — for 4:4:4 — 6 8x8 lists) -/
theorem sps_accepted_in_range_every_profile (s s' : Src) (v : Sps.Sps) (h : Sps.parseSps s = .ok (v, s')) :
    SpsRanges v ∧ v.chromaInfo.bitDepthLumaMinus8 + 8 ≤ 14 ∧ v.chromaInfo.bitDepthChromaMinus8 + 8 ≤ 14 ∧
    (∀ m, v.chromaInfo.scalingMatrix = some m →
      m.l4x4.length = 6 ∧ m.l8x8.length = if v.chromaInfo.chromaFormat = .yuv444 then 6 else 2) := by
  obtain ⟨core, b1, b2, b3, _⟩ := Sps.parseSps_ranges_all s s' v h
  obtain ⟨_, _, _, w4, w6, w7, _, _, _, _, w12⟩ := core
  refine ⟨⟨by omega, by omega, ?_, ?_, ?_⟩, by omega, by omega, b3⟩
  · intro n hn; rw [hn] at w7; simp only [Sps.PicOrderCntType.WF] at w7; omega
  · intro a b c offs hn; rw [hn] at w7; simp only [Sps.PicOrderCntType.WF] at w7; exact w7.2.2.1
  · intro u hu
    rw [hu] at w12
    simp only [Sps.Vui.WF] at w12
    obtain ⟨_, _, _, _, hn, hv, _, hb⟩ := w12
    refine ⟨?_, ?_⟩
    · rintro hh (hh' | hh')
      · rw [hh'] at hn; simp only [Sps.OptHrdWF, Sps.Hrd.WF] at hn; exact ⟨hn.2.2.1, hn.2.2.2.1⟩
      · rw [hh'] at hv; simp only [Sps.OptHrdWF, Sps.Hrd.WF] at hv; exact ⟨hv.2.2.1, hv.2.2.2.1⟩
    · intro b hb'
      rw [hb'] at hb
      simp only [Sps.BitstreamRestrictions.WF] at hb
      exact ⟨hb.1, hb.2.1, hb.2.2.1, hb.2.2.2.1, hb.2.2.2.2.1, hb.2.2.2.2.2.1⟩

/-- bit depths at most 14 (minus8 ≤ 6) for profiles that carry them -/
theorem sps_bit_depths (s s' : Src) (v : Sps.Sps) (h : Sps.parseSps s = .ok (v, s'))
    (hmvc : Sps.mvcOnlyProfile v.profileIdc = false) :
    v.chromaInfo.bitDepthLumaMinus8 + 8 ≤ 14 ∧ v.chromaInfo.bitDepthChromaMinus8 + 8 ≤ 14 := by
  obtain ⟨sm, z, wf, _, _⟩ := Sps.C04_converse s s' v h hmvc
  obtain ⟨_, _, _, _, w5, _⟩ := wf
  unfold Sps.ChromaInfo.WF at w5
  split at w5
  · omega
  · rw [w5]; simp

/-- every accepted PPS refers to an SPS that is in the context, with reference counts at most 32 (minus1 ≤ 31), at most
8 slice groups, and QP / QS / chroma offsets in range (`Pps.WF` relative to that SPS) -/
theorem pps_accepted_in_range (spsById : Nat → Option Sps.Sps) (s s' : Src) (v : Pps.Pps)
    (h : Pps.parsePps spsById s = .ok (v, s')) :
    ∃ sp sm, spsById v.spsId = some sp ∧ v.WF sp sm ∧
      v.numRefIdxL0DefaultActiveMinus1 + 1 ≤ 32 ∧ v.numRefIdxL1DefaultActiveMinus1 + 1 ≤ 32 ∧
      -26 ≤ v.picInitQsMinus26 ∧ v.picInitQsMinus26 ≤ 25 ∧ -12 ≤ v.chromaQpIndexOffset ∧ v.chromaQpIndexOffset ≤ 12 := by
  obtain ⟨sp, sm, z, hsp, wf, _, _⟩ := Pps.C05_converse spsById s s' v h
  refine ⟨sp, sm, hsp, wf, ?_⟩
  obtain ⟨_, _, _, w4, w5, _, _, _, w9, w10, w11, w12, _⟩ := wf
  exact ⟨by omega, by omega, w9, w10, w11, w12⟩

/-- every accepted slice header: the returned parameter sets are the context entries named by the returned ids,
frame_num and the POC lsb are below the declared moduli, reference counts at most 32, SliceQS in 0…51, slice type 0…9 -/
theorem slice_accepted_in_range (ctx : Slice.Ctx) (hdr : Slice.NalHdr) (s s' : Src) (h : Slice.SliceHeader) (sid pid : Nat)
    (hok : Slice.parseSliceHeader ctx hdr s = .ok ((h, sid, pid), s')) :
    ∃ pps sps, ctx.pps pid = some pps ∧ pps.spsId = sid ∧ ctx.sps sid = some sps ∧
      h.frameNum < 2 ^ (sps.log2MaxFrameNumMinus4 + 4) ∧ Slice.PocLt sps h.picOrderCntLsb ∧
      Slice.NraLe h.numRefIdxActive ∧ (∀ q, h.sliceQs = some q → q ≤ 51) ∧ h.sliceTypeId ≤ 9 :=
  Slice.C16_slice ctx hdr s s' h sid pid hok

/-! ### the quantifier "under all contexts of previously accepted parameter sets", made explicit as an induction over
the history of feeds (`H264/History.lean`) -/

/-- after **any** sequence of SPS / PPS NAL payloads fed to the parsers (accepted ones stored, rejected ones dropped),
every SPS in the context sits under its own id and is within the SPS bounds, and every PPS sits under its own id and
was accepted against an in-range SPS with the id it names -/
theorem reachable_context_in_range (ops : List History.Op) : History.Inv (History.run ops) := History.reachable_inv ops

/-- a slice header accepted in any reachable context returns exactly the context entries named by its ids, and they
satisfy the stored-value bounds -/
theorem reachable_slice_params (ops : List History.Op) (hdr : Slice.NalHdr) (s s' : Src) (h : Slice.SliceHeader)
    (sid pid : Nat) (hok : Slice.parseSliceHeader (History.sctx (History.run ops)) hdr s = .ok ((h, sid, pid), s')) :
    ∃ pps sps, Ctx.get (History.run ops).pps pid = some pps ∧ pps.ppsId = pid ∧ pps.spsId = sid ∧
      Ctx.get (History.run ops).sps sid = some sps ∧ sps.spsId = sid ∧ History.SpsGood sps ∧ History.PpsGood pps :=
  History.reachable_slice_params ops hdr s s' h sid pid hok

/-- **model = real code across every range check of a minimal SPS / PPS, by proof**: one coded field at a time swept over 0…40
(SPS: id, log2_max_frame_num_minus4, pic_order_cnt_type, max_num_ref_frames, width, height, both bit depths) resp. over the
values around its bounds (PPS: pps_id up to 276, sps_id, both default reference counts, pic_init_qp / pic_init_qs −41…40,
chroma_qp_index_offset), everything else valid: the model parser accepts exactly what the real parser accepted in this run's
graph and returns the same field value — so the bounds proved for the model (`SpsRanges`, `pps_accepted_in_range`) are, on
these 902 inputs, bounds of the running code -/
theorem model_bounds_reproduce_code_sps : (List.range 328).map SmallProof.spsFieldRow = Generated.spsFieldRows :=
  SmallProof.spsFields_model_eq_code
theorem model_bounds_reproduce_code_pps : (List.range 574).map SmallProof.ppsFieldRow = Generated.ppsFieldRows :=
  SmallProof.ppsFields_model_eq_code

/-- **model = real code across every range check of a slice header, by proof**: ten coded fields of an SP slice header (against a
PPS with CABAC, redundant_pic_cnt and deblocking control switched on), one at a time swept across its bounds, everything else
valid (820 inputs): the model parser accepts exactly what the real parser accepted in this run's graph and returns the same field -/
theorem model_slice_bounds_reproduce_code : (List.range 820).map SmallProof.sliceFieldRow = Generated.sliceFieldRows :=
  SmallProof.sliceFields_model_eq_code

end C16
