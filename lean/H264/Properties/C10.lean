import H264.Sei
import H264.NalSrcProofs
import H264.SeiMono
import H264.Tables2C10
import H264.TblProofC10
import H264.SmallProofC10
/-! # C10 — SEI reader yields exactly the encoded (type, payload) messages, then stays ended

Model: `Sei.next` mirrors `SeiReader::next` over the bytes the RBSP byte reader delivers (`NalSrc.drain`: bytes
before the first error/end, and the kind of that end), with the fields `payloads_seen` and `done`.
Encoder: `Sei.encSei` = sei_message framing of 7.3.2.3.1 (type and size as 0xFF-extension bytes) + `0x80`. -/
namespace C10
open Sei Bits

/-- the reader returns exactly the encoded messages, in order, then reports the end — for every message list with
types and sizes below 2³² (including types 128, 255, 510, … and empty payloads), at least one message -/
theorem round_trip (ms : List Msg) (wf : ∀ m ∈ ms, m.WF) (hne : ms ≠ []) :
    readAll (ms.length + 1) ⟨⟨encSei ms, .eof⟩, 0, false⟩ [] = (ms, .ok ()) := by
  have := C10_roundtrip ms wf 0 (Or.inr hne) []
  simpa [encSei] using this

/-- the same through emulation-prevention removal and any chunking of the complete NAL `header :: escape(rbsp)` -/
theorem round_trip_through_nal (ms : List Msg) (wf : ∀ m ∈ ms, m.WF) (hne : ms ≠ [])
    (hdr : UInt8) (chunks : List (List UInt8)) (hc : ∀ c ∈ chunks, c ≠ [])
    (hflat : chunks.flatten = hdr :: Rbsp.escape (encSei ms)) :
    let d := NalSrc.drain (NalSrc.rbspBytes chunks true)
    readAll (ms.length + 1) ⟨⟨d.1, NalSrc.kindOf d.2⟩, 0, false⟩ [] = (ms, .ok ()) := by
  intro d
  have hv : Rbsp.unesc (chunks.flatten.drop 1) = (encSei ms, true) := by
    rw [hflat]; simp [Rbsp.unesc_escape]
  have hd : d = (encSei ms, .eof) := by
    have h := NalSrc.drain_valid chunks true 1 128 hc (by omega) (by rw [hv])
    have hinit : NalSrc.rbspBytes chunks true = Rbsp.initReader chunks true 1 128 := by
      simp [NalSrc.rbspBytes, Rbsp.initReader, Rbsp.initState]
    show NalSrc.drain (NalSrc.rbspBytes chunks true) = _
    rw [hinit, h, hv]; rfl
  rw [hd]
  exact round_trip ms wf hne

/-- a message of type 128 is distinguished from the trailing-bits byte by position: one message is returned exactly
wherever it stands -/
theorem message_anywhere (m : Msg) (wf : m.WF) (tl : List UInt8) (seen : Nat) :
    next ⟨⟨encMsg m ++ tl, .eof⟩, seen, false⟩ = (⟨⟨tl, .eof⟩, seen + 1, false⟩, .ok (some m)) := next_msg m wf tl seen

theorem trailing_byte_ends (seen : Nat) (h : seen > 0) :
    next ⟨⟨[0x80], .eof⟩, seen, false⟩ = (⟨⟨[0x80], .eof⟩, seen, true⟩, .ok none) := next_end seen h

/-- fused: after the end every further call reports the end … -/
theorem stays_ended (r : Reader) (h : r.done = true) : next r = (r, .ok none) := next_done r h

/-- … and every call that does not return a message (end or error) leaves the reader in that ended state -/
theorem failure_ends (r : Reader) (hd : r.done = false) :
    (∃ m, (next r).2 = .ok (some m) ∧ (next r).1.done = false) ∨ (next r).1.done = true :=
  next_sets_done_on_failure r hd

/-- a type or size never comes back wrapped: it is below 2³² or the read is an error -/
theorem no_wrapped_u32 (name fin) (bs : List UInt8) :
    match readU32 name fin bs 0 with
    | .ok (v, _) => v < 4294967296
    | .error _ => True := readU32_overflow name fin bs 0 (by omega)

/-- explicitly: a type or size whose 0xFF-extension coding sums to 2³² or more is rejected, whatever follows -/
theorem type_or_size_too_large (name : String) (fin : IoKind) (n : Nat) (hn : n ≥ 4294967296) (rest : List UInt8) :
    readU32 name fin (encU32 n ++ rest) 0 = .error (.io name .invalidData) := readU32_too_large name fin n hn rest

/-- a payload running past the data is an error (of the kind the source reports), and the reader is then ended -/
theorem truncated_payload (ty len : Nat) (hty : ty < 4294967296) (hlen : len < 4294967296)
    (pl : List UInt8) (hshort : pl.length < len) (seen : Nat) (fin : IoKind) :
    next ⟨⟨encU32 ty ++ encU32 len ++ pl, fin⟩, seen, false⟩ =
      (⟨⟨encU32 ty ++ encU32 len ++ pl, fin⟩, seen, true⟩, .error (.io "payload" fin)) :=
  next_truncated ty len hty hlen pl hshort seen fin

/-- non-vacuity: type 128 with an empty payload, then a 255-byte payload of type 510 -/
example : Msg.WF (128, []) ∧ Msg.WF (510, List.replicate 255 0) := by
  unfold Msg.WF; simp only [List.length_nil, List.length_replicate]; omega

/-- "with the right type", in the running code (graph extracted through `SeiReader::next` on every run): for
payloadType 0…511 — one-, two- and three-byte codings — the message is delivered and distinct payloadType values are
reported as distinct types -/
theorem code_payload_types_distinct : Generated.seiType.length = 512 ∧
    (∀ i : Fin 512, Generated.seiType.getD i.val 999 < 998) ∧
    (∀ i : Fin 512, ∀ j : Fin 512, Generated.seiType.getD i.val 999 = Generated.seiType.getD j.val 999 → i = j) :=
  Tables2.seiType_injective

/-- model `Sei.next` = real `SeiReader::next` on the 512 swept one-message SEI RBSPs (type recovered, payload intact), by proof -/
theorem model_reader_reproduces_code_on_payload_type_sweep :
    ∀ i : Fin 512, TblProof.seiTypeCode i.val = some (Generated.seiType.getD i.val 999) := TblProof.seiType_model_eq_code

/-- **model = real code on a complete small domain, by proof**: every RBSP of length 0…5 over {00, 01, 80, ff} (1 365 inputs: every
short coding of type and size incl. the ff extension, the trailing-bits byte in first and later position, truncations) read
until the reader has reported the end or an error three times: the model reader (with its scratch vector) returns what the
real `SeiReader::next` returned in this run's graph — each message, the end, each error class, and silence afterwards -/
theorem model_reader_reproduces_code_on_small_rbsps :
    (SmallProof.words4 [0x00, 0x01, 0x80, 0xff]).map SmallProof.seiRow = Generated.seiRows := SmallProof.sei_model_eq_code

end C10
