import H264.SpsC04
/-! Prototype: PPS value types, model parser (`PicParameterSet::from_bits`, post-fix), standard encoder (7.3.2.2) -/
namespace Pps
open Bits Sps

inductive SliceGroup
  | interleaved (runLengthMinus1 : List Nat)
  | dispersed (numSliceGroupsMinus1 : Nat)
  | foregroundAndLeftover (rects : List (Nat × Nat))
  | changing (mapType : Nat) (numSliceGroupsMinus1 : Nat) (directionFlag : Bool) (changeRateMinus1 : Nat)
  | explicitAssignment (numSliceGroupsMinus1 : Nat) (ids : List Nat)
deriving DecidableEq, Repr

structure PicScalingMatrix where
  l4x4 : List ScalingList
  l8x8 : Option (List ScalingList)
deriving DecidableEq, Repr

structure PpsExtra where
  transform8x8ModeFlag : Bool
  picScalingMatrix : Option PicScalingMatrix
  secondChromaQpIndexOffset : Int
deriving DecidableEq, Repr

structure Pps where
  ppsId : Nat
  spsId : Nat
  entropyCodingModeFlag : Bool
  bottomFieldPicOrderInFramePresentFlag : Bool
  sliceGroups : Option SliceGroup
  numRefIdxL0DefaultActiveMinus1 : Nat
  numRefIdxL1DefaultActiveMinus1 : Nat
  weightedPredFlag : Bool
  weightedBipredIdc : Nat
  picInitQpMinus26 : Int
  picInitQsMinus26 : Int
  chromaQpIndexOffset : Int
  deblockingFilterControlPresentFlag : Bool
  constrainedIntraPredFlag : Bool
  redundantPicCntPresentFlag : Bool
  extension : Option PpsExtra
deriving DecidableEq, Repr

/-- `SeqParameterSet::pic_size_in_map_units` after the repair: saturating `u32` product -/
def picSizeInMapUnits (s : Sps.Sps) : Nat :=
  min (2^32 - 1) ((s.picWidthInMbsMinus1 + 1) * (s.picHeightInMapUnitsMinus1 + 1))

def picWidthInMbs (s : Sps.Sps) : Nat := s.picWidthInMbsMinus1 + 1

/-- `(1f64 + n).log2().ceil()` for the admissible group counts -/
def groupIdBits : Nat → Nat
  | 0 => 0 | 1 => 1 | 2 => 2 | 3 => 2 | _ => 3

def readUeList (name : String) (bound : Nat) (errTag : String) : Nat → P (List Nat)
  | 0 => pure []
  | n+1 => do
    let x ← readUe name
    if x > bound then fail (.other errTag) else do
    let xs ← readUeList name bound errTag n
    pure (x :: xs)

def readRect (s : Sps.Sps) : P (Nat × Nat) := do
  let tl ← readUe "top_left"
  let br ← readUe "bottom_right"
  if tl > br then fail (.other "InvalidTopLeft") else
  if br > picSizeInMapUnits s then fail (.other "InvalidBottomRight") else
  if tl % picWidthInMbs s > br % picWidthInMbs s then fail (.other "InvalidTopLeft") else
  pure (tl, br)

def readRects (s : Sps.Sps) : Nat → P (List (Nat × Nat))
  | 0 => pure []
  | n+1 => do
    let x ← readRect s
    let xs ← readRects s n
    pure (x :: xs)

def readBitsList (name : String) (w : Nat) : Nat → P (List Nat)
  | 0 => pure []
  | n+1 => do
    let x ← readBits name w
    let xs ← readBitsList name w n
    pure (x :: xs)

def readSliceGroup (n : Nat) (s : Sps.Sps) : P SliceGroup := do
  let t ← readUe "slice_group_map_type"
  if t = 0 then do
    let rl ← readUeList "run_length_minus1" (picSizeInMapUnits s - 1) "InvalidRunLengthMinus1" (n + 1)
    pure (.interleaved rl)
  else if t = 1 then pure (.dispersed n)
  else if t = 2 then do
    let rs ← readRects s n
    pure (.foregroundAndLeftover rs)
  else if t = 3 ∨ t = 4 ∨ t = 5 then do
    let d ← readBool "slice_group_change_direction_flag"
    let r ← readUe "slice_group_change_rate_minus1"
    if r > picSizeInMapUnits s - 1 then fail (.other "InvalidSliceGroupChangeRateMinus1") else
    pure (.changing t n d r)
  else if t = 6 then do
    let sz ← readUe "pic_size_in_map_units_minus1"
    let ids ← readBitsList "slice_group_id" (groupIdBits n) (sz + 1)
    pure (.explicitAssignment n ids)
  else fail (.other "InvalidSliceGroupMapType")

def readSliceGroups (s : Sps.Sps) : P (Option SliceGroup) := do
  let n ← readUe "num_slice_groups_minus1"
  if n > 7 then fail (.other "InvalidNumSliceGroupsMinus1") else
  if n > 0 then do
    let g ← readSliceGroup n s
    pure (some g)
  else pure none

def readNumRefIdx (name : String) : P Nat := do
  let v ← readUe name
  if v > 31 then fail (.other "InvalidNumRefIdx") else pure v

def count8 (s : Sps.Sps) (t : Bool) : Nat :=
  if t then (if s.chromaInfo.chromaFormat = .yuv444 then 6 else 2) else 0

def readPicScalingMatrix (s : Sps.Sps) (transform8x8 : Bool) : P (Option PicScalingMatrix) := do
  let present ← readBool "pic_scaling_matrix_present_flag"
  if !present then pure none else do
  let m ← readScalingLists 6 (6 + count8 s transform8x8) 0 [] []
  pure (some ⟨m.l4x4, if m.l8x8.isEmpty then none else some m.l8x8⟩)

def readPpsExtra (s : Sps.Sps) : P (Option PpsExtra) := do
  let more ← hasMore "transform_8x8_mode_flag"
  if more then do
    let t ← readBool "transform_8x8_mode_flag"
    let m ← readPicScalingMatrix s t
    let q ← readSe "second_chroma_qp_index_offset"
    if q < -12 ∨ q > 12 then fail (.other "InvalidSecondChromaQpIndexOffset") else
    pure (some ⟨t, m, q⟩)
  else pure none

/-- `PicParameterSet::from_bits(ctx, r)`; the context is reduced to its SPS lookup -/
def parsePps (spsById : Nat → Option Sps.Sps) : P Pps := do
  let ppsId ← readUe "pic_parameter_set_id"
  if ppsId > 255 then fail (.other "BadPicParamSetId") else do
  let spsId ← readUe "seq_parameter_set_id"
  if spsId > 31 then fail (.other "BadSeqParamSetId") else
  match spsById spsId with
  | none => fail (.other "UnknownSeqParamSetId")
  | some s => do
    let ec ← readBool "entropy_coding_mode_flag"
    let bf ← readBool "bottom_field_pic_order_in_frame_present_flag"
    let sg ← readSliceGroups s
    let l0 ← readNumRefIdx "num_ref_idx_l0_default_active_minus1"
    let l1 ← readNumRefIdx "num_ref_idx_l1_default_active_minus1"
    let wp ← readBool "weighted_pred_flag"
    let wb ← readBits "weighted_bipred_idc" 2
    let qp ← readSe "pic_init_qp_minus26"
    let qs ← readSe "pic_init_qs_minus26"
    let cq ← readSe "chroma_qp_index_offset"
    let db ← readBool "deblocking_filter_control_present_flag"
    let ci ← readBool "constrained_intra_pred_flag"
    let rp ← readBool "redundant_pic_cnt_present_flag"
    let ext ← readPpsExtra s
    if qp < -(26 + 6 * (s.chromaInfo.bitDepthLumaMinus8 : Int)) ∨ qp > 25 then fail (.other "InvalidPicInitQpMinus26") else
    if qs < -26 ∨ qs > 25 then fail (.other "InvalidPicInitQsMinus26") else
    if cq < -12 ∨ cq > 12 then fail (.other "InvalidChromaQpIndexOffset") else do
    finishRbsp
    pure ⟨ppsId, spsId, ec, bf, sg, l0, l1, wp, wb, qp, qs, cq, db, ci, rp, ext⟩

end Pps
