/-! Prototype for C19: `ParamSetMap` (a `Vec<Option<T>>` indexed by id) refines a last-writer-wins map -/
namespace Ctx

abbrev PMap (α : Type) := List (Option α)

def get {α} (m : PMap α) (i : Nat) : Option α := (m[i]?).join

/-- `resize_with(index+1, || None)` when too short, then overwrite slot `index` -/
def put {α} (m : PMap α) (i : Nat) (v : α) : PMap α :=
  let m' := if m.length ≤ i then m ++ List.replicate (i + 1 - m.length) none else m
  m'.set i (some v)

def iter {α} (m : PMap α) : List α := m.filterMap id

/-- pairs (id, value) in storage order, for stating the order property -/
def entries {α} (m : PMap α) : List (Nat × α) :=
  (m.zipIdx).filterMap fun p => p.1.map fun v => (p.2, v)

theorem get_put {α} (m : PMap α) (i j : Nat) (v : α) :
    get (put m i v) j = if j = i then some v else get m j := by
  unfold get put
  by_cases hl : m.length ≤ i
  · simp only [hl, ↓reduceIte]
    by_cases hj : j = i
    · subst hj
      have hlen : j < m.length + (j + 1 - m.length) := by omega
      simp [List.getElem?_set, hlen]
    · simp only [hj, ↓reduceIte]
      rw [List.getElem?_set_ne (Ne.symm hj)]
      by_cases hjl : j < m.length
      · rw [List.getElem?_append_left hjl]
      · rw [List.getElem?_append_right (by omega)]
        have : m[j]? = none := List.getElem?_eq_none (by omega)
        rw [this]
        by_cases hjr : j - m.length < i + 1 - m.length
        · simp [List.getElem?_replicate, hjr]
        · simp [List.getElem?_replicate, hjr]
  · simp only [hl, ↓reduceIte]
    by_cases hj : j = i
    · subst hj
      have hlen : j < m.length := by omega
      simp [List.getElem?_set, hlen]
    · simp only [hj, ↓reduceIte]
      rw [List.getElem?_set_ne (Ne.symm hj)]

/-- **C19**: after any sequence of insertions, lookup returns the most recent value written under that id -/
def lastWrite {α} : List (Nat × α) → Nat → Option α
  | [], _ => none
  | (i, v) :: rest, j => match lastWrite rest j with
      | some w => some w
      | none => if j = i then some v else none

theorem get_foldl {α} (ws : List (Nat × α)) (m : PMap α) (j : Nat) :
    get (ws.foldl (fun m w => put m w.1 w.2) m) j =
      match lastWrite ws j with | some w => some w | none => get m j := by
  induction ws generalizing m with
  | nil => simp [lastWrite]
  | cons w ws ih =>
    simp only [List.foldl_cons, ih, lastWrite]
    cases lastWrite ws j with
    | some x => rfl
    | none => simp only [get_put]; split <;> rfl

theorem get_empty {α} (j : Nat) : get ([] : PMap α) j = none := by simp [get]

#print axioms get_foldl
end Ctx

namespace Ctx

/-- entries with explicit base index, recursive form -/
def entriesFrom {α} : Nat → PMap α → List (Nat × α)
  | _, [] => []
  | k, none :: rest => entriesFrom (k+1) rest
  | k, some v :: rest => (k, v) :: entriesFrom (k+1) rest

theorem iter_eq {α} (m : PMap α) (k : Nat) : iter m = (entriesFrom k m).map Prod.snd := by
  induction m generalizing k with
  | nil => simp [iter, entriesFrom]
  | cons x xs ih =>
    cases x with
    | none => simpa [iter, entriesFrom] using ih (k+1)
    | some v => simpa [iter, entriesFrom] using ih (k+1)

theorem entriesFrom_ge {α} (m : PMap α) (k : Nat) : ∀ p ∈ entriesFrom k m, k ≤ p.1 := by
  induction m generalizing k with
  | nil => simp [entriesFrom]
  | cons x xs ih =>
    intro p hp
    cases x with
    | none => have := ih (k+1) p (by simpa [entriesFrom] using hp); omega
    | some v =>
      simp only [entriesFrom, List.mem_cons] at hp
      rcases hp with rfl | hp
      · simp
      · have := ih (k+1) p hp; omega

/-- **C19 (iteration)**: iteration yields the stored sets in strictly increasing id order -/
theorem entriesFrom_sorted {α} (m : PMap α) (k : Nat) : (entriesFrom k m).Pairwise (fun a b => a.1 < b.1) := by
  induction m generalizing k with
  | nil => simp [entriesFrom]
  | cons x xs ih =>
    cases x with
    | none => simpa [entriesFrom] using ih (k+1)
    | some v =>
      simp only [entriesFrom, List.pairwise_cons]
      refine ⟨?_, ih (k+1)⟩
      intro p hp
      have := entriesFrom_ge xs (k+1) p hp
      simp; omega

/-- … and each stored set exactly once: an entry is listed iff lookup by that id finds it -/
theorem mem_entriesFrom {α} (m : PMap α) (k i : Nat) (v : α) :
    (k + i, v) ∈ entriesFrom k m ↔ get m i = some v := by
  induction m generalizing k i with
  | nil => simp [entriesFrom, get]
  | cons x xs ih =>
    cases i with
    | zero =>
      cases x with
      | none =>
        simp only [entriesFrom, get, Nat.add_zero, List.getElem?_cons_zero, Option.join_some]
        constructor
        · intro h; have := entriesFrom_ge xs (k+1) _ h; simp at this; omega
        · intro h; simp at h
      | some w =>
        simp only [entriesFrom, get, Nat.add_zero, List.getElem?_cons_zero, Option.join_some, List.mem_cons,
          Prod.mk.injEq, true_and, Option.some.injEq]
        constructor
        · rintro (h | h)
          · exact h.symm
          · have := entriesFrom_ge xs (k+1) _ h; simp at this; omega
        · intro h; exact Or.inl h.symm
    | succ j =>
      have hidx : k + (j + 1) = (k + 1) + j := by omega
      cases x with
      | none =>
        simp only [entriesFrom, get, List.getElem?_cons_succ]
        rw [hidx]; exact ih (k+1) j
      | some w =>
        simp only [entriesFrom, get, List.getElem?_cons_succ, List.mem_cons, Prod.mk.injEq]
        rw [hidx]
        constructor
        · rintro (⟨h1, _⟩ | h)
          · omega
          · exact (ih (k+1) j).mp h
        · intro h; exact Or.inr ((ih (k+1) j).mpr h)

#print axioms mem_entriesFrom
end Ctx
