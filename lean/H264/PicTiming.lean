import H264.SpsC04
/-! Prototype for C11: pic_timing / buffering_period payload parsers (post-fix D7, D8) + Annex D encoders -/
namespace SeiPayload
open Bits Sps

inductive SecMinHour | none | s (s : Nat) | sm (s m : Nat) | smh (s m h : Nat)
deriving DecidableEq, Repr

structure ClockTimestamp where
  ctType : Nat
  nuitFieldBasedFlag : Bool
  countingType : Nat
  discontinuityFlag : Bool
  cntDroppedFlag : Bool
  nFrames : Nat
  smh : SecMinHour
  timeOffset : Option Int
deriving DecidableEq, Repr

/-- the public accessors `SecMinHour::seconds / minutes / hours`: the coded part, 0 for a part that is not coded -/
def SecMinHour.seconds : SecMinHour → Nat | .none => 0 | .s x => x | .sm x _ => x | .smh x _ _ => x
def SecMinHour.minutes : SecMinHour → Nat | .none => 0 | .s _ => 0 | .sm _ y => y | .smh _ y _ => y
def SecMinHour.hours : SecMinHour → Nat | .none => 0 | .s _ => 0 | .sm _ _ => 0 | .smh _ _ z => z

structure PicStruct where
  picStruct : Nat
  clockTimestamps : List (Option ClockTimestamp)
deriving DecidableEq, Repr

structure PicTiming where
  delays : Option (Nat × Nat)
  picStruct : Option PicStruct
deriving DecidableEq, Repr

/-- Table D-1: NumClockTS -/
def numClockTs : Nat → Nat
  | 0 | 1 | 2 => 1
  | 3 | 4 | 7 => 2
  | 5 | 6 | 8 => 3
  | _ => 0

/-- two's-complement value of an `n`-bit field (the `i(v)` descriptor) -/
def signExtend (n v : Nat) : Int := if v < 2^(n-1) then (v : Int) else (v : Int) - 2^n
def toTwos (n : Nat) (i : Int) : Nat := (if i ≥ 0 then i else i + 2^n).toNat

/-- which HRD supplies the delay widths / time_offset_length (NAL first, then VCL) -/
def delayHrd (s : Sps.Sps) : Option Hrd :=
  match s.vui with
  | none => none
  | some v => match v.nalHrd with
    | some h => some h
    | none => v.vclHrd

def timeOffsetLength (s : Sps.Sps) : Nat :=
  match delayHrd s with
  | some h => h.timeOffsetLength
  | none => 24

def readSmh (full : Bool) : P SecMinHour :=
  if full then do
    let sec ← readBits "seconds_value" 6
    let min ← readBits "minutes_value" 6
    let hr ← readBits "hours_value" 5
    pure (SecMinHour.smh sec min hr)
  else do
    let sf ← readBool "seconds_flag"
    if sf then do
      let sec ← readBits "seconds_value" 6
      let mf ← readBool "minutes_flag"
      if mf then do
        let min ← readBits "minutes_value" 6
        let hf ← readBool "hours_flag"
        if hf then do
          let hr ← readBits "hours_value" 5
          pure (SecMinHour.smh sec min hr)
        else pure (SecMinHour.sm sec min)
      else pure (SecMinHour.s sec)
    else pure SecMinHour.none

def readTimeOffset (tol : Nat) : P (Option Int) :=
  if tol = 0 then pure none else do
    let v ← readBits "time_offset_length" tol
    pure (some (signExtend tol v))

def readClockTimestamp (s : Sps.Sps) : P ClockTimestamp := do
  let ct ← readBits "ct_type" 2
  let nuit ← readBool "nuit_field_based_flag"
  let counting ← readBits "counting_type" 5
  let full ← readBool "full_timestamp_flag"
  let disc ← readBool "discontinuity_flag"
  let dropped ← readBool "cnt_dropped_flag"
  let nFrames ← readBits "n_frames" 8
  let smh ← readSmh full
  let off ← readTimeOffset (timeOffsetLength s)
  pure ⟨ct, nuit, counting, disc, dropped, nFrames, smh, off⟩

def readOptClockTimestamp (s : Sps.Sps) : P (Option ClockTimestamp) := do
  let f ← readBool "clock_timestamp_flag"
  if f then do
    let c ← readClockTimestamp s
    pure (some c)
  else pure none

def readClockTimestamps (s : Sps.Sps) : Nat → P (List (Option ClockTimestamp))
  | 0 => pure []
  | n+1 => do
    let c ← readOptClockTimestamp s
    let rest ← readClockTimestamps s n
    pure (c :: rest)

def readDelays (s : Sps.Sps) : P (Option (Nat × Nat)) :=
  match delayHrd s with
  | some h => do
      let c ← readBits "cpb_removal_delay" (h.cpbRemovalDelayLengthMinus1 + 1)
      let d ← readBits "dpb_output_delay" (h.dpbOutputDelayLengthMinus1 + 1)
      pure (some (c, d))
  | none => pure none

def picStructPresent (s : Sps.Sps) : Bool :=
  match s.vui with
  | some v => v.picStructPresentFlag
  | none => false

def readPicStruct (s : Sps.Sps) : P (Option PicStruct) :=
  if picStructPresent s then do
    let p ← readBits "pic_struct" 4
    let cts ← readClockTimestamps s (numClockTs p)
    pure (some ⟨p, cts⟩)
  else pure none

def readPicTiming (s : Sps.Sps) : P PicTiming := do
  let delays ← readDelays s
  let ps ← readPicStruct s
  finishSei
  pure ⟨delays, ps⟩

/-! ### D.1.2 as an encoder -/

def SecMinHour.WF (full : Bool) : SecMinHour → Prop
  | .smh sec min hr => sec < 64 ∧ min < 64 ∧ hr < 32
  | .sm sec min => full = false ∧ sec < 64 ∧ min < 64
  | .s sec => full = false ∧ sec < 64
  | SecMinHour.none => full = false

def encSmh (full : Bool) : SecMinHour → List Bool
  | .smh s m h => if full then encBits 6 s ++ encBits 6 m ++ encBits 5 h
                  else encBool true ++ encBits 6 s ++ encBool true ++ encBits 6 m ++ encBool true ++ encBits 5 h
  | .sm s m => encBool true ++ encBits 6 s ++ encBool true ++ encBits 6 m ++ encBool false
  | .s s => encBool true ++ encBits 6 s ++ encBool false
  | .none => encBool false

/-- `full` = full_timestamp_flag as coded (only meaningful for `smh`) -/
def encClockTimestamp (tol : Nat) (c : ClockTimestamp) (full : Bool) : List Bool :=
  encBits 2 c.ctType ++ encBool c.nuitFieldBasedFlag ++ encBits 5 c.countingType ++ encBool full ++
  encBool c.discontinuityFlag ++ encBool c.cntDroppedFlag ++ encBits 8 c.nFrames ++ encSmh full c.smh ++
  (match c.timeOffset with | some o => encBits tol (toTwos tol o) | none => [])

theorem signExtend_toTwos (n : Nat) (i : Int) (hn : 1 ≤ n) (h : -(2^(n-1) : Int) ≤ i ∧ i < 2^(n-1)) :
    signExtend n (toTwos n i) = i ∧ toTwos n i < 2^n := by
  have hp : (2:Int)^n = 2 * 2^(n-1) := by
    have : n = (n - 1) + 1 := by omega
    conv => lhs; rw [this, Int.pow_succ]
    omega
  have hpn : ((2^n : Nat) : Int) = (2:Int)^n := by norm_cast
  have hpn1 : ((2^(n-1) : Nat) : Int) = (2:Int)^(n-1) := by norm_cast
  have hpos : (0:Int) < 2^(n-1) := Int.pow_pos (by decide)
  unfold signExtend toTwos
  by_cases hi : i ≥ 0
  · simp only [hi, ↓reduceIte]
    have h1 : (i.toNat : Int) = i := Int.toNat_of_nonneg hi
    have hlt : i.toNat < 2^(n-1) := by
      have : (i.toNat : Int) < ((2^(n-1) : Nat) : Int) := by rw [h1, hpn1]; exact h.2
      exact_mod_cast this
    refine ⟨by simp [hlt, h1], ?_⟩
    have : (i.toNat : Int) < ((2^n : Nat) : Int) := by rw [h1, hpn, hp]; omega
    exact_mod_cast this
  · simp only [hi, ↓reduceIte]
    have hneg : i < 0 := by omega
    have hnn : 0 ≤ i + 2^n := by rw [hp]; omega
    have h1 : ((i + 2^n).toNat : Int) = i + 2^n := Int.toNat_of_nonneg hnn
    have hge : ¬ (i + 2^n).toNat < 2^(n-1) := by
      intro hc
      have : ((i + 2^n).toNat : Int) < ((2^(n-1) : Nat) : Int) := by exact_mod_cast hc
      rw [h1, hpn1, hp] at this; omega
    refine ⟨by simp only [hge, ↓reduceIte, h1, hpn]; omega, ?_⟩
    have : ((i + 2^n).toNat : Int) < ((2^n : Nat) : Int) := by rw [h1, hpn]; omega
    exact_mod_cast this


theorem readSmh_enc (full : Bool) (x : SecMinHour) (wf : x.WF full) (rest fin) :
    readSmh full ⟨encSmh full x ++ rest, fin⟩ = .ok (x, ⟨rest, fin⟩) := by
  cases x with
  | smh a b c =>
    obtain ⟨h1, h2, h3⟩ := wf
    cases full <;>
      simp [readSmh, encSmh, List.append_assoc, readBits_enc _ 6 _ (show a < 2^6 from h1),
        readBits_enc _ 6 _ (show b < 2^6 from h2), readBits_enc _ 5 _ (show c < 2^5 from h3)]
  | sm a b =>
    obtain ⟨hf, h1, h2⟩ := wf
    subst hf
    simp [readSmh, encSmh, List.append_assoc, readBits_enc _ 6 _ (show a < 2^6 from h1),
      readBits_enc _ 6 _ (show b < 2^6 from h2)]
  | s a =>
    obtain ⟨hf, h1⟩ := wf
    subst hf
    simp [readSmh, encSmh, List.append_assoc, readBits_enc _ 6 _ (show a < 2^6 from h1)]
  | none =>
    have hf : full = false := wf
    subst hf
    simp [readSmh, encSmh]

/-- time_offset: absent iff time_offset_length = 0, otherwise any value of the `tol`-bit two's-complement range -/
def TimeOffsetWF (tol : Nat) : Option Int → Prop
  | none => tol = 0
  | some o => 1 ≤ tol ∧ -(2^(tol-1) : Int) ≤ o ∧ o < 2^(tol-1)

def encTimeOffset (tol : Nat) : Option Int → List Bool
  | some o => encBits tol (toTwos tol o)
  | none => []

theorem readTimeOffset_enc (tol : Nat) (o : Option Int) (wf : TimeOffsetWF tol o) (rest fin) :
    readTimeOffset tol ⟨encTimeOffset tol o ++ rest, fin⟩ = .ok (o, ⟨rest, fin⟩) := by
  cases o with
  | none => have : tol = 0 := wf; subst this; simp [readTimeOffset, encTimeOffset]
  | some v =>
    obtain ⟨h1, h2, h3⟩ := wf
    obtain ⟨r1, r2⟩ := signExtend_toTwos tol v h1 ⟨h2, h3⟩
    have hne : tol ≠ 0 := by omega
    simp [readTimeOffset, encTimeOffset, hne, readBits_enc _ _ _ r2, r1]

#print axioms readTimeOffset_enc
end SeiPayload
