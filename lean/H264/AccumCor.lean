import H264.Accum
/-! Corollaries of `Accum.run_spec` spelled out per NAL (C08) -/
namespace Accum

def bytesOf (steps : List Step) : List UInt8 := (steps.map fun s => s.bufs.flatten).flatten

/-- deliveries that do not end the NAL, all answered `Buffer`: no complete invocation, the ghost accumulates -/
theorem specRun_open_buffer (g : Ghost) (pre rest : List Step)
    (hpre : ∀ s ∈ pre, s.fin = false ∧ s.answer = .buffer) :
    ∃ l, specRun g (pre ++ rest) = l ++ specRun ⟨g.soFar ++ bytesOf pre, g.ignored⟩ rest ∧ ∀ e ∈ l, e.2 = false := by
  induction pre generalizing g with
  | nil => exact ⟨[], by simp [bytesOf], by simp⟩
  | cons s ss ih =>
    obtain ⟨hf, ha⟩ := hpre s (by simp)
    have hss : ∀ s' ∈ ss, s'.fin = false ∧ s'.answer = .buffer := fun s' h => hpre s' (by simp [h])
    obtain ⟨l, hl, hfl⟩ := ih (ghostStep g s (!g.ignored && !(g.soFar ++ s.bufs.flatten).isEmpty)) hss
    have hg : ghostStep g s (!g.ignored && !(g.soFar ++ s.bufs.flatten).isEmpty) = ⟨g.soFar ++ s.bufs.flatten, g.ignored⟩ := by
      simp [ghostStep, hf, ha]
    rw [hg] at hl
    refine ⟨(if (!g.ignored && !(g.soFar ++ s.bufs.flatten).isEmpty) then [(g.soFar ++ s.bufs.flatten, s.fin)] else []) ++ l, ?_, ?_⟩
    · simp only [List.cons_append, specRun, hg, hl, List.append_assoc]
      simp [bytesOf, List.append_assoc]
    · intro e he
      simp only [List.mem_append] at he
      rcases he with he | he
      · split at he
        · simp at he; rw [he]; exact hf
        · simp at he
      · exact hfl e he

/-- **exactly one complete invocation carrying the whole NAL**, for a NAL with at least one byte that is never ignored -/
theorem one_complete_invocation (pre : List Step) (last : Step)
    (hpre : ∀ s ∈ pre, s.fin = false ∧ s.answer = .buffer) (hlast : last.fin = true)
    (hne : bytesOf (pre ++ [last]) ≠ []) (rest : List Step) :
    ∃ l, specRun ⟨[], false⟩ (pre ++ last :: rest) = l ++ (bytesOf (pre ++ [last]), true) :: specRun ⟨[], false⟩ rest ∧
      ∀ e ∈ l, e.2 = false := by
  obtain ⟨l, hl, hfl⟩ := specRun_open_buffer ⟨[], false⟩ pre (last :: rest) hpre
  refine ⟨l, ?_, hfl⟩
  rw [hl]
  have hb : bytesOf (pre ++ [last]) = bytesOf pre ++ last.bufs.flatten := by simp [bytesOf]
  rw [hb] at hne
  have hne' : ([] ++ bytesOf pre ++ last.bufs.flatten).isEmpty = false := by
    simpa using hne
  simp only [specRun, List.nil_append, Bool.not_false, Bool.true_and, ghostStep, hlast, ↓reduceIte, hb]
  simp only [List.nil_append] at hne'
  simp [hne']

/-- **after Ignore the handler is not invoked again for that NAL**: an ignored NAL produces no invocation until it ends,
and the next NAL starts clean -/
theorem ignored_is_silent (sofar : List UInt8) (pre : List Step) (last : Step) (rest : List Step)
    (hpre : ∀ s ∈ pre, s.fin = false) (hlast : last.fin = true) :
    specRun ⟨sofar, true⟩ (pre ++ last :: rest) = specRun ⟨[], false⟩ rest := by
  induction pre generalizing sofar with
  | nil => simp [specRun, ghostStep, hlast]
  | cons s ss ih =>
    have hf := hpre s (by simp)
    have hss : ∀ s' ∈ ss, s'.fin = false := fun s' h => hpre s' (by simp [h])
    simp only [List.cons_append, specRun, Bool.not_true, Bool.false_and, Bool.false_eq_true, ↓reduceIte,
      List.nil_append, ghostStep, hf, Bool.true_or]
    exact ih _ hss

/-- **nothing carries over**: whatever the state, a delivery that ends the NAL leaves the freshly constructed state -/
theorem frag_end_init (a : Acc) (bufs : List (List UInt8)) (d : Invocation → Interest) :
    (frag a bufs true d).1 = init := by
  unfold frag
  by_cases hi : a.interest ≠ .ignore
  · simp only [hi, ↓reduceIte]
    by_cases hb : a.buf ≠ []
    · simp [hb]; split <;> rfl
    · simp only [hb, ↓reduceIte]
      cases bufs with
      | nil =>
        simp only
        have h1 : a.buf = [] := by simpa using hb
        have h2 : a.interest = .buffer := by cases h : a.interest <;> simp_all
        cases a; simp_all [init]
      | cons b bs => simp; split <;> rfl
  · simp [hi]

end Accum
