import H264.TblModel
import H264.GeneratedTables
namespace TblProof
open TblModel Bits

def Tables2Fam : Slice.Family → Nat | .P => 0 | .B => 1 | .I => 2 | .SP => 3 | .SI => 4

/-- the model parser run on the swept SPS frame: (idc code, get().w, get().h) -/
def aspectCode (b : Nat) : Option (Nat × Nat × Nat) :=
  let vui := bT ++ u 8 b ++ (if b = 255 then u 16 0x1234 ++ u 16 0x0567 else []) ++ zeros 8
  match Sps.parseSps (src (spsWithVui (some vui))) with
  | .ok (s, _) => (match s.vui.bind (·.aspectRatioInfo) with
      | some a => some ((match a with | .idc v => v | .extended _ _ => 255),
                        (match aspectGet a with | some (w, _) => w | none => 0), (match aspectGet a with | some (_, h) => h | none => 0))
      | none => none)
  | .error _ => none

def videoFormatCode (i : Nat) : Option Nat :=
  let vui := bF ++ bF ++ bT ++ u 3 (i % 8) ++ zeros 8
  match Sps.parseSps (src (spsWithVui (some vui))) with
  | .ok (s, _) => (s.vui.bind (·.videoSignalType)).map (·.videoFormat)
  | .error _ => none

def chromaFormatCode (i : Nat) : Nat × Nat :=
  let bits := u 8 100 ++ u 8 0 ++ u 8 30 ++ encUe 0 ++ encUe i ++ (if i = 3 then bF else []) ++ encUe 0 ++ encUe 0 ++ bF ++ bF ++
    encUe 0 ++ encUe 2 ++ encUe 1 ++ bF ++ encUe 10 ++ encUe 8 ++ bT ++ bF ++ bF ++ bF ++ bT
  match Sps.parseSps (src bits) with
  | .ok (s, _) => (1, match s.chromaInfo.chromaFormat with
      | .monochrome => 0 | .yuv420 => 1 | .yuv422 => 2 | .yuv444 => 3 | .invalid v => v)
  | .error _ => (0, 0)

def seiTypeCode (i : Nat) : Option Nat :=
  match (Sei.next ⟨⟨Sei.encU32 i ++ [1, 0x55, 0x80], .eof⟩, 0, false⟩).2 with
  | .ok (some (ty, pl)) => if pl = [0x55] then some ty else none
  | _ => none

def sliceTypeCode (i : Nat) : Nat × Nat × Nat :=
  match Sps.parseSps (src (spsWithVui none)) with
  | .error _ => (7, 7, 7)
  | .ok (s, _) =>
    let spsMap := Ctx.put [] s.spsId s
    let ppsBits := encUe 0 ++ encUe 0 ++ bF ++ bF ++ encUe 0 ++ encUe 0 ++ encUe 0 ++ bF ++ u 2 0 ++ encSe 0 ++ encSe 0 ++ encSe 0 ++ bF ++ bF ++ bF ++ bT
    match Pps.parsePps (Ctx.get spsMap) (src ppsBits) with
    | .error _ => (7, 7, 7)
    | .ok (p, _) =>
      let ppsMap := Ctx.put [] p.ppsId p
      let tail : List Bool := match i % 5 with
        | 0 => zeros 3 ++ encSe 0
        | 1 => zeros 5 ++ encSe 0
        | 2 => zeros 1 ++ encSe 0
        | 3 => zeros 3 ++ encSe 0 ++ bF ++ encSe 0
        | _ => zeros 1 ++ encSe 0 ++ encSe 0
      let bits := encUe 0 ++ encUe i ++ encUe 0 ++ u 4 3 ++ tail ++ u 8 0xA5 ++ bT
      match Slice.parseSliceHeader ⟨Ctx.get spsMap, Ctx.get ppsMap⟩ ⟨1, 1⟩ (src bits) with
      | .ok ((h, _, _), _) => (1, Tables2Fam (Slice.familyOf h.sliceTypeId), if h.sliceTypeId ≥ 5 then 1 else 0)
      | .error _ => (0, 0, 0)

def picStructCode (i : Nat) : Nat × Nat × Nat :=
  match Sps.parseSps (src (spsWithVui (some (zeros 7 ++ bT ++ bF)))) with
  | .error _ => (7, 7, 7)
  | .ok (s, _) =>
    let attempt (n : Nat) : Option (Nat × Nat × Nat) :=
      let body := u 4 (i % 16) ++ zeros n
      let pl := if body.length % 8 = 0 then body else body ++ bT ++ zeros (7 - body.length % 8)
      match SeiPayload.readPicTiming s (src pl) with
      | .ok (p, _) =>
        (match p.picStruct with
         | some ps => if ps.clockTimestamps.length = n ∧ ps.clockTimestamps.all (· == none) then some (1, ps.picStruct, n) else none
         | none => none)
      | .error _ => none
    match [0, 1, 2, 3, 4].filterMap attempt with
    | r :: _ => r
    | [] => (0, 0, 0)

end TblProof
