import H264.RbspProofs
namespace Rbsp

namespace Chunked

theorem consume_rest (c : Chunked) (k : Nat) (hwf : c.WF) (hk : k ≤ c.cur.length) :
    (c.consume k).rest = c.rest.drop k ∧ (c.consume k).WF ∧ (c.consume k).complete = c.complete := by
  obtain ⟨hne, hemp⟩ := hwf
  unfold consume
  by_cases hd : c.cur.drop k = []
  · -- current chunk used up: move on
    have hk' : k = c.cur.length := by
      have := List.drop_eq_nil_iff.mp hd; omega
    simp only [hd, ↓reduceIte, nextChunk]
    cases ht : c.tail with
    | nil =>
      simp [rest, WF, ht, hk']
    | cons t ts =>
      have htne : t ≠ [] := hne t (by simp [ht])
      refine ⟨?_, ⟨?_, ?_⟩, rfl⟩
      · simp [rest, ht, hk']
      · intro t' ht'; exact hne t' (by simp [ht, ht'])
      · intro h; exact absurd h htne
  · simp only [hd, ↓reduceIte]
    refine ⟨?_, ⟨hne, ?_⟩, trivial⟩
    · simp [rest, List.drop_append_of_le_length hk]
    · intro h; exact absurd h hd

end Chunked

theorem unescFrom_skip (n : Nat) (hn : 1 ≤ n) (chunk after : List UInt8) (hc : chunk ≠ []) :
    unescFrom (.skip n) (chunk ++ after) =
      unescFrom (if n - min chunk.length n = 0 then .start else .skip (n - min chunk.length n))
        (chunk.drop (min chunk.length n) ++ after) := by
  induction chunk generalizing n with
  | nil => exact absurd rfl hc
  | cons b bs ih =>
    by_cases hn1 : n ≤ 1
    · have : n = 1 := by omega
      subst this
      simp [unescFrom]
    · by_cases hbs : bs = []
      · subst hbs
        have h1 : min 1 n = 1 := by omega
        simp [unescFrom, hn1, h1]
        have : ¬ (n - 1 = 0) := by omega
        simp [this]
      · have := ih (n - 1) (by omega) hbs
        simp only [List.cons_append, unescFrom, hn1, ↓reduceIte, List.length_cons]
        rw [this]
        have hm : min (bs.length + 1) n = min bs.length (n - 1) + 1 := by omega
        rw [hm]
        simp only [List.drop_succ_cons]
        have he : n - 1 - min bs.length (n - 1) = n - (min bs.length (n - 1) + 1) := by omega
        rw [he]

end Rbsp

namespace Rbsp

def measure (r : BR) : Nat := 2 * r.inner.rest.length + (if r.st = .three then 0 else 1)

theorem take_drop_split (l : List UInt8) (k limit : Nat) (T : List UInt8) (hk : k ≤ limit) (hl : limit ≤ l.length) :
    (l.take limit).take k = l.take k ∧ (l.take limit).drop k ++ (l.drop limit ++ T) = (l ++ T).drop k := by
  constructor
  · rw [List.take_take]; congr 1; omega
  · rw [List.drop_append_of_le_length (by omega)]
    rw [← List.append_assoc]
    congr 1
    rw [List.drop_take]
    have : l.drop k = (l.drop k).take (limit - k) ++ (l.drop k).drop (limit - k) := (List.take_append_drop _ _).symm
    rw [List.drop_drop] at this
    have h2 : k + (limit - k) = limit := by omega
    rw [h2] at this
    exact this.symm

theorem tryFill_spec (r : BR) (hinv : Inv r) (hi : r.i = 0) :
    Inv (tryFill r).1 ∧ view (tryFill r).1 = view r ∧
    (tryFill r).1.inner.complete = r.inner.complete ∧ (tryFill r).1.maxFill = r.maxFill ∧
    (match (tryFill r).2 with
     | .error .wouldBlock => (tryFill r).1 = r ∧ r.inner.cur = [] ∧ r.inner.complete = false
     | .error .invalidData => (view r).2 = false
     | .error .eof => False
     | .ok false => (tryFill r).1 = r ∧ r.inner.cur = [] ∧ r.inner.complete = true
     | .ok true => measure (tryFill r).1 < measure r ∨ (tryFill r).1.i ≠ 0) := by
  have hinv' := hinv
  obtain ⟨hwf, hile, hmf, hskip⟩ := hinv
  by_cases hwb : r.inner.cur = [] ∧ r.inner.complete = false
  · have heq : tryFill r = (r, .error .wouldBlock) := by
      unfold tryFill Chunked.fillBuf; simp [hwb]
    rw [heq]
    exact ⟨hinv', rfl, rfl, rfl, rfl, hwb.1, hwb.2⟩
  · by_cases hemp : r.inner.cur = []
    · have hc : r.inner.complete = true := by
        cases h : r.inner.complete <;> simp_all
      have heq : tryFill r = (r, .ok false) := by
        unfold tryFill Chunked.fillBuf; simp [hemp, hc]
      rw [heq]
      exact ⟨hinv', rfl, rfl, rfl, rfl, hemp, hc⟩
    · -- non-empty chunk
      have hlen : 0 < r.inner.cur.length := List.length_pos_iff.mpr hemp
      have hlim1 : 1 ≤ min r.inner.cur.length r.maxFill := by
        rw [Nat.le_min]; exact ⟨hlen, hmf⟩
      have hlimle : min r.inner.cur.length r.maxFill ≤ r.inner.cur.length := Nat.min_le_left _ _
      generalize hlimdef : min r.inner.cur.length r.maxFill = limit at hlim1 hlimle
      have htodo : (r.inner.cur.take limit).drop r.i ≠ [] := by
        rw [hi]; simp only [List.drop_zero]
        intro h
        have h2 : (r.inner.cur.take limit).length = limit := by rw [List.length_take]; omega
        rw [h] at h2; simp at h2; omega
      have hss := scan_sound r.inner.cur.length r.st r.i ((r.inner.cur.take limit).drop r.i)
        (r.inner.cur.drop limit ++ r.inner.tail.flatten)
      have hfill : r.inner.fillBuf = .ok r.inner.cur := by
        unfold Chunked.fillBuf; simp [hwb]
      cases hsc : scan r.inner.cur.length r.st r.i ((r.inner.cur.take limit).drop r.i) with
      | done st' i' =>
        have heq : tryFill r = ({ r with st := st', i := i' }, .ok true) := by
          unfold tryFill; simp [hfill, hemp, hlimdef, hsc]
        rw [heq]
        rw [hsc] at hss
        obtain ⟨k, hk, hik, he⟩ := hss
        rw [hi] at hik he hk htodo hsc
        simp only [List.drop_zero, Nat.zero_add] at hik he hk htodo hsc
        subst hik
        have hklim : i' ≤ limit := by rw [List.length_take] at hk; omega
        obtain ⟨ht1, ht2⟩ := take_drop_split r.inner.cur i' limit r.inner.tail.flatten hklim hlimle
        have hall : r.inner.cur.take limit ++ (r.inner.cur.drop limit ++ r.inner.tail.flatten)
            = r.inner.cur ++ r.inner.tail.flatten := by
          rw [← List.append_assoc, List.take_append_drop]
        rw [hall, ht1, ht2] at he
        obtain ⟨b, bs, hbs⟩ := List.exists_cons_of_ne_nil htodo
        rw [hbs] at hsc
        refine ⟨⟨hwf, by simp; omega, hmf, ?_⟩, ?_, rfl, rfl, ?_⟩
        · intro n hn
          simp only at hn
          exfalso
          cases hst : r.st with
          | skip m => rw [hst] at hsc; simp [scan] at hsc
          | _ =>
            have := scan_done_noskip _ _ _ _ _ _ (by simp [hst, PS.isSkip]) hsc
            simp [hn, PS.isSkip] at this
        · simp only [view, Chunked.rest, hi, List.drop_zero, List.take_zero, List.nil_append]
          rw [he]
        · simp only
          rcases scan_progress _ _ _ _ _ _ _ hsc with h | ⟨h1, h2, h3⟩
          · right; omega
          · left; simp [measure, h1, h2]
      | consumeInner k st' =>
        have heq : tryFill r = ({ r with inner := r.inner.consume k, st := st' }, .ok true) := by
          unfold tryFill; simp [hfill, hemp, hlimdef, hsc]
        rw [heq]
        rw [hsc] at hss
        obtain ⟨_, hst⟩ := hss
        obtain ⟨b, bs, hbs⟩ := List.exists_cons_of_ne_nil htodo
        rw [hbs] at hsc
        have hcur : r.inner.cur = r.inner.cur.take 1 ++ r.inner.cur.drop 1 := (List.take_append_drop 1 _).symm
        have hL : r.inner.cur.length ≤ r.inner.rest.length := by simp [Chunked.rest]
        -- identify k and st'
        have hkst : 1 ≤ k ∧ k ≤ r.inner.cur.length ∧
            unescFrom r.st (r.inner.cur ++ r.inner.tail.flatten) =
              unescFrom st' (r.inner.cur.drop k ++ r.inner.tail.flatten) ∧
            (∀ m, st' = .skip m → 1 ≤ m) ∧ (r.st = .three ∨ st' ≠ .three) := by
          rcases hst with ⟨n, hn⟩ | h3
          · rw [hn] at hsc
            simp only [scan, ScanRes.consumeInner.injEq] at hsc
            obtain ⟨hk, hs'⟩ := hsc
            have hn1 : 1 ≤ n := (hskip n hn).2
            refine ⟨by omega, by omega, ?_, ?_, ?_⟩
            · rw [hn, unescFrom_skip n hn1 _ _ hemp, ← hs', ← hk]
            · intro m hm; rw [← hs'] at hm; split at hm <;> simp at hm; omega
            · right; rw [← hs']; split <;> simp
          · rw [h3] at hsc
            simp only [scan, ScanRes.consumeInner.injEq] at hsc
            obtain ⟨hk, hs'⟩ := hsc
            subst hk; subst hs'
            refine ⟨by omega, by omega, ?_, by simp, Or.inl h3⟩
            obtain ⟨c, cs, hcs⟩ := List.exists_cons_of_ne_nil hemp
            rw [h3, hcs]; simp [unescFrom]
        obtain ⟨hk1, hkle, hun, hsk, h3⟩ := hkst
        obtain ⟨hr1, hr2, hr3⟩ := Chunked.consume_rest r.inner k hwf hkle
        refine ⟨⟨hr2, by simp [hi], hmf, ?_⟩, ?_, hr3, rfl, ?_⟩
        · intro n hn; exact ⟨hi, hsk n hn⟩
        · simp only [view, hi, List.drop_zero, List.take_zero, List.nil_append, hr1]
          simp only [Chunked.rest]
          rw [hun, List.drop_append_of_le_length hkle]
        · left
          have hlen' : (r.inner.consume k).rest.length = r.inner.rest.length - k := by
            rw [hr1, List.length_drop]
          have hkL : k ≤ r.inner.rest.length := Nat.le_trans hkle hL
          show 2 * (r.inner.consume k).rest.length + (if st' = .three then 0 else 1)
              < 2 * r.inner.rest.length + (if r.st = .three then 0 else 1)
          rw [hlen']
          rcases h3 with h3 | h3
          · simp only [h3, ↓reduceIte]; split <;> omega
          · simp only [h3, ↓reduceIte]; split <;> omega
      | invalid st' i' =>
        have heq : tryFill r = ({ r with st := st', i := i' }, .error .invalidData) := by
          unfold tryFill; simp [hfill, hemp, hlimdef, hsc]
        rw [heq]
        rw [hsc] at hss
        obtain ⟨k, hk, hik, he, he2⟩ := hss
        rw [hi] at hik he he2 hk hsc
        simp only [List.drop_zero, Nat.zero_add] at hik he he2 hk hsc
        subst hik
        have hklim : i' ≤ limit := by rw [List.length_take] at hk; omega
        obtain ⟨ht1, ht2⟩ := take_drop_split r.inner.cur i' limit r.inner.tail.flatten hklim hlimle
        have hall : r.inner.cur.take limit ++ (r.inner.cur.drop limit ++ r.inner.tail.flatten)
            = r.inner.cur ++ r.inner.tail.flatten := by
          rw [← List.append_assoc, List.take_append_drop]
        rw [hall, ht1] at he
        rw [ht2] at he2
        refine ⟨⟨hwf, by simp; omega, hmf, ?_⟩, ?_, rfl, rfl, ?_⟩
        · intro n hn
          simp only at hn
          rcases scan_invalid_state _ _ _ _ _ _ hsc with h | h <;> simp [h] at hn
        · simp only [view, Chunked.rest, hi, List.drop_zero, List.take_zero, List.nil_append]
          rw [he, he2]; simp
        · simp only [view, Chunked.rest, hi, List.drop_zero]
          rw [he]

end Rbsp
