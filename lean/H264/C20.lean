import H264.GeneratedTables
/-! Prototype for C20: theorems over the function graphs extracted from the running code -/
namespace C20
open Generated

/-- all 256 header bytes: refused exactly when the top bit is set; otherwise ref_idc / type are bits 5–6 / 0–4 -/
theorem header_bytes : hdr.length = 256 ∧ ∀ b : Fin 256,
    (hdr.getD b.val (9,9,9)).1 = (if b.val ≥ 128 then 0 else 1) ∧
    (b.val < 128 → (hdr.getD b.val (9,9,9)).2.1 = b.val / 32 % 4 ∧ (hdr.getD b.val (9,9,9)).2.2 = b.val % 32) := by
  decide +kernel

/-- unit type ids 0…31 are accepted, map to pairwise distinct values, each returning its own id; > 31 rejected -/
theorem unit_types : unitType.length = 256 ∧
    (∀ i : Fin 256, (unitType.getD i.val (9,9,9)).1 = (if i.val ≤ 31 then 1 else 0)) ∧
    (∀ i : Fin 32, (unitType.getD i.val (9,9,9)).2.2 = i.val) ∧
    (∀ i j : Fin 32, (unitType.getD i.val (9,9,9)).2.1 = (unitType.getD j.val (9,9,9)).2.1 → i = j) := by
  decide +kernel

/-- profile_idc → Profile → profile_idc is the identity on all 256 values -/
theorem profile_roundtrip : profileRoundTrip.length = 256 ∧ ∀ b : Fin 256, profileRoundTrip.getD b.val 999 = b.val := by
  decide +kernel

def level (f l : Nat) : Nat × Nat := (levelRows.getD (levelRowIdx.getD f 99) []).getD l (999, 9)

theorem level_rows : levelRowIdx.length = 256 ∧ levelRows.length = 2 ∧
    (∀ f : Fin 256, levelRowIdx.getD f.val 99 = f.val / 16 % 2) ∧
    (∀ l : Fin 256, (levelRows.getD 0 []).getD l.val (999,9) = (l.val, 0)) ∧
    (∀ l : Fin 256, (levelRows.getD 1 []).getD l.val (999,9) = (l.val, if l.val = 11 then 1 else 0)) := by
  decide +kernel

/-- all 2¹⁶ (flags, level_idc) pairs: the idc is recovered; level 1b ⇔ idc 11 ∧ constraint flag 3 -/
theorem level_roundtrip (f l : Fin 256) :
    (level f.val l.val).1 = l.val ∧ ((level f.val l.val).2 = 1 ↔ (l.val = 11 ∧ f.val / 16 % 2 = 1)) := by
  obtain ⟨_, _, hidx, h0, h1⟩ := level_rows
  unfold level
  rw [hidx f]
  have hb : f.val / 16 % 2 = 0 ∨ f.val / 16 % 2 = 1 := by omega
  rcases hb with hb | hb
  · rw [hb, h0 l]; simp [hb]
  · rw [hb, h1 l]; by_cases h11 : l.val = 11 <;> simp [h11, hb]

theorem id_wrappers : ∀ p ∈ idProbes,
    p.2.1 = (if p.1 ≤ 31 then some p.1 else none) ∧ p.2.2 = (if p.1 ≤ 255 then some p.1 else none) := by
  decide +kernel

/-- T.35: named countries are exactly the codes 00…C4; FF is the extension escape; remainder offsets -/
theorem t35_table : t35.length = 256 ∧ ∀ b : Fin 256,
    t35.getD b.val (9,9) = (if b.val ≤ 0xC4 then (0, 1) else if b.val = 0xFF then (2, 2) else (1, 1)) := by
  decide +kernel

#print axioms level_roundtrip
#print axioms t35_table
end C20
