import H264.C20Hdr
import H264.C20Prof
import H264.C20Ids
import H264.C20T35
/-! (kept for the module name: the C20 graph theorems live in C20Hdr / C20Prof / C20Ids / C20T35) -/
