import H264.Sps
/-! Prototype: Rust-`Debug`-compatible rendering of the SPS result -/
namespace Render
open Sps

def b (x : Bool) : String := if x then "true" else "false"
def opt {α} (f : α → String) : Option α → String
  | none => "None"
  | some a => s!"Some({f a})"
def list {α} (f : α → String) (l : List α) : String := "[" ++ ", ".intercalate (l.map f) ++ "]"
def int (i : Int) : String := toString i

def scalingList : ScalingList → String
  | .notPresent => "NotPresent"
  | .useDefault => "UseDefault"
  | .list vs => s!"List({list toString vs})"

def seqScalingMatrix (m : SeqScalingMatrix) : String :=
  s!"SeqScalingMatrix \{ scaling_list4x4: {list scalingList m.l4x4}, scaling_list8x8: {list scalingList m.l8x8} }"

def chromaFormat : ChromaFormat → String
  | .monochrome => "Monochrome" | .yuv420 => "YUV420" | .yuv422 => "YUV422" | .yuv444 => "YUV444"
  | .invalid v => s!"Invalid({v})"

def chromaInfo (c : ChromaInfo) : String :=
  s!"ChromaInfo \{ chroma_format: {chromaFormat c.chromaFormat}, separate_colour_plane_flag: {b c.separateColourPlaneFlag}, bit_depth_luma_minus8: {c.bitDepthLumaMinus8}, bit_depth_chroma_minus8: {c.bitDepthChromaMinus8}, qpprime_y_zero_transform_bypass_flag: {b c.qpprimeYZeroTransformBypassFlag}, scaling_matrix: {opt seqScalingMatrix c.scalingMatrix} }"

def poc : PicOrderCntType → String
  | .typeZero v => s!"TypeZero \{ log2_max_pic_order_cnt_lsb_minus4: {v} }"
  | .typeOne f a bb offs => s!"TypeOne \{ delta_pic_order_always_zero_flag: {b f}, offset_for_non_ref_pic: {int a}, offset_for_top_to_bottom_field: {int bb}, offsets_for_ref_frame: {list int offs} }"
  | .typeTwo => "TypeTwo"

def frameMbs : FrameMbsFlags → String
  | .frames => "Frames"
  | .fields m => s!"Fields \{ mb_adaptive_frame_field_flag: {b m} }"

def cropping (c : FrameCropping) : String :=
  s!"FrameCropping \{ left_offset: {c.left}, right_offset: {c.right}, top_offset: {c.top}, bottom_offset: {c.bottom} }"

def aspect : AspectRatioInfo → String
  | .idc 0 => "Unspecified" | .idc 1 => "Ratio1_1" | .idc 2 => "Ratio12_11" | .idc 3 => "Ratio10_11"
  | .idc 4 => "Ratio16_11" | .idc 5 => "Ratio40_33" | .idc 6 => "Ratio24_11" | .idc 7 => "Ratio20_11"
  | .idc 8 => "Ratio32_11" | .idc 9 => "Ratio80_33" | .idc 10 => "Ratio18_11" | .idc 11 => "Ratio15_11"
  | .idc 12 => "Ratio64_33" | .idc 13 => "Ratio160_99" | .idc 14 => "Ratio4_3" | .idc 15 => "Ratio3_2"
  | .idc 16 => "Ratio2_1"
  | .idc v => s!"Reserved({v})"
  | .extended w h => s!"Extended({w}, {h})"

def overscan : OverscanAppropriate → String
  | .unspecified => "Unspecified" | .appropriate => "Appropriate" | .inappropriate => "Inappropriate"

def videoFormat : Nat → String
  | 0 => "Component" | 1 => "PAL" | 2 => "NTSC" | 3 => "SECAM" | 4 => "MAC" | 5 => "Unspecified"
  | v => s!"Reserved({v})"

def colour (c : ColourDescription) : String :=
  s!"ColourDescription \{ colour_primaries: {c.colourPrimaries}, transfer_characteristics: {c.transferCharacteristics}, matrix_coefficients: {c.matrixCoefficients} }"

def videoSignal (v : VideoSignalType) : String :=
  s!"VideoSignalType \{ video_format: {videoFormat v.videoFormat}, video_full_range_flag: {b v.videoFullRangeFlag}, colour_description: {opt colour v.colourDescription} }"

def chromaLoc (c : ChromaLocInfo) : String :=
  s!"ChromaLocInfo \{ chroma_sample_loc_type_top_field: {c.top}, chroma_sample_loc_type_bottom_field: {c.bottom} }"

def timing (t : TimingInfo) : String :=
  s!"TimingInfo \{ num_units_in_tick: {t.numUnitsInTick}, time_scale: {t.timeScale}, fixed_frame_rate_flag: {b t.fixedFrameRateFlag} }"

def cpb (c : CpbSpec) : String :=
  s!"CpbSpec \{ bit_rate_value_minus1: {c.bitRateValueMinus1}, cpb_size_value_minus1: {c.cpbSizeValueMinus1}, cbr_flag: {b c.cbrFlag} }"

def hrd (h : Hrd) : String :=
  s!"HrdParameters \{ bit_rate_scale: {h.bitRateScale}, cpb_size_scale: {h.cpbSizeScale}, cpb_specs: {list cpb h.cpbSpecs}, initial_cpb_removal_delay_length_minus1: {h.initialCpbRemovalDelayLengthMinus1}, cpb_removal_delay_length_minus1: {h.cpbRemovalDelayLengthMinus1}, dpb_output_delay_length_minus1: {h.dpbOutputDelayLengthMinus1}, time_offset_length: {h.timeOffsetLength} }"

def restrictions (r : BitstreamRestrictions) : String :=
  s!"BitstreamRestrictions \{ motion_vectors_over_pic_boundaries_flag: {b r.motionVectorsOverPicBoundariesFlag}, max_bytes_per_pic_denom: {r.maxBytesPerPicDenom}, max_bits_per_mb_denom: {r.maxBitsPerMbDenom}, log2_max_mv_length_horizontal: {r.log2MaxMvLengthHorizontal}, log2_max_mv_length_vertical: {r.log2MaxMvLengthVertical}, max_num_reorder_frames: {r.maxNumReorderFrames}, max_dec_frame_buffering: {r.maxDecFrameBuffering} }"

def vui (v : Vui) : String :=
  s!"VuiParameters \{ aspect_ratio_info: {opt aspect v.aspectRatioInfo}, overscan_appropriate: {overscan v.overscanAppropriate}, video_signal_type: {opt videoSignal v.videoSignalType}, chroma_loc_info: {opt chromaLoc v.chromaLocInfo}, timing_info: {opt timing v.timingInfo}, nal_hrd_parameters: {opt hrd v.nalHrd}, vcl_hrd_parameters: {opt hrd v.vclHrd}, low_delay_hrd_flag: {opt b v.lowDelayHrdFlag}, pic_struct_present_flag: {b v.picStructPresentFlag}, bitstream_restrictions: {opt restrictions v.bitstreamRestrictions} }"

def flags (f : Nat) : String :=
  s!"ConstraintFlags \{ flag0: {b (f / 128 % 2 == 1)}, flag1: {b (f / 64 % 2 == 1)}, flag2: {b (f / 32 % 2 == 1)}, flag3: {b (f / 16 % 2 == 1)}, flag4: {b (f / 8 % 2 == 1)}, flag5: {b (f / 4 % 2 == 1)}, reserved_zero_two_bits: {f % 4} }"

def sps (s : Sps) : String :=
  s!"SeqParameterSet \{ profile_idc: ProfileIdc({s.profileIdc}), constraint_flags: {flags s.constraintFlags}, level_idc: {s.levelIdc}, seq_parameter_set_id: SeqParamSetId({s.spsId}), chroma_info: {chromaInfo s.chromaInfo}, log2_max_frame_num_minus4: {s.log2MaxFrameNumMinus4}, pic_order_cnt: {poc s.picOrderCnt}, max_num_ref_frames: {s.maxNumRefFrames}, gaps_in_frame_num_value_allowed_flag: {b s.gapsInFrameNumValueAllowedFlag}, pic_width_in_mbs_minus1: {s.picWidthInMbsMinus1}, pic_height_in_map_units_minus1: {s.picHeightInMapUnitsMinus1}, frame_mbs_flags: {frameMbs s.frameMbsFlags}, direct_8x8_inference_flag: {b s.direct8x8InferenceFlag}, frame_cropping: {opt cropping s.frameCropping}, vui_parameters: {opt vui s.vui} }"

end Render
