import H264.BitsProof
/-! theorems of `BitsProof` that belong to C14 (a module of their own, so that a broken table or row of another property does not
take this property's module down with it) -/
namespace BitsProof
open Bits

theorem bits_end_model_eq_code : ∀ b0 : Fin 256, ∀ j : Fin 24,
    endRow b0.val j.val = (Generated.bitsEnd.getD b0.val []).getD j.val (9, 9, 9) := by decide +kernel

end BitsProof
