import H264.SpsFwd
namespace Sps
open Bits

/-- the standard's value ranges for a whole SPS (with the coded scaling syntax `sm`) -/
def Sps.WF (v : Sps) (sm : Option ScalingSyntax) : Prop :=
  v.profileIdc < 256 ∧ v.constraintFlags < 256 ∧ v.levelIdc < 256 ∧ v.spsId ≤ 31 ∧
  v.chromaInfo.WF v.profileIdc sm ∧ v.log2MaxFrameNumMinus4 ≤ 12 ∧ v.picOrderCnt.WF ∧
  Ue v.maxNumRefFrames ∧ Ue v.picWidthInMbsMinus1 ∧ Ue v.picHeightInMapUnitsMinus1 ∧
  (match v.frameCropping with | none => True | some c => Ue c.left ∧ Ue c.right ∧ Ue c.top ∧ Ue c.bottom) ∧
  (match v.vui with | none => True | some u => u.WF v.maxNumRefFrames)

theorem finishRbsp_trailing (z : Nat) :
    finishRbsp ⟨trailing z, .eof⟩ = .ok ((), ⟨[], .eof⟩) := by
  unfold finishRbsp trailing
  have : (List.replicate z false).any id = false := by
    induction z with
    | zero => rfl
    | succ n ih => simp [List.replicate_succ, ih]
  simp [this]

/-- **C04 (forward)**: every SPS within the standard's ranges, encoded with the standard's syntax and followed by
the RBSP trailing bits and any number of zero bits, parses to exactly the encoded values, consuming everything. -/
theorem C04_forward (v : Sps) (sm : Option ScalingSyntax) (wf : v.WF sm)
    (hmvc : mvcOnlyProfile v.profileIdc = false) (z : Nat) :
    parseSps ⟨encSps v sm ++ trailing z, .eof⟩ = .ok (v, ⟨[], .eof⟩) := by
  obtain ⟨p, cfl, lv, id, ci, l2, poc, mr, gaps, w, h, fm, d8, fc, vui⟩ := v
  obtain ⟨w1, w2, w3, w4, w5, w6, w7, w8, w9, w10, w11, w12⟩ := wf
  simp only at w1 w2 w3 w4 w5 w6 w7 w8 w9 w10 w11 w12 hmvc
  have uid : id < 2^32 - 1 := by omega
  have nid : ¬ id > 31 := by omega
  have ul2 : l2 < 2^32 - 1 := by omega
  have nl2 : ¬ l2 > 12 := by omega
  simp [parseSps, encSps, List.append_assoc,
    readBits_enc _ 8 _ (show p < 2^8 from w1), readBits_enc _ 8 _ (show cfl < 2^8 from w2),
    readBits_enc _ 8 _ (show lv < 2^8 from w3), readUe_enc _ _ uid, nid,
    readChromaInfo_enc _ hmvc _ _ w5, readUe_enc _ _ ul2, nl2, readPicOrderCnt_enc _ w7,
    readUe_enc _ _ w8, readUe_enc _ _ w9, readUe_enc _ _ w10, readFrameMbsFlags_enc,
    readFrameCropping_enc _ w11, readVui_enc _ _ w12, finishRbsp_trailing]

/-- non-vacuity: a concrete 4:2:0 High-profile SPS with VUI + HRD meets the hypotheses -/
def sample : Sps :=
  { profileIdc := 100, constraintFlags := 0, levelIdc := 40, spsId := 0,
    chromaInfo := { chromaFormat := .yuv420, bitDepthLumaMinus8 := 2, bitDepthChromaMinus8 := 2 },
    log2MaxFrameNumMinus4 := 4, picOrderCnt := .typeOne true (-3) 5 [1, -1],
    maxNumRefFrames := 4, gapsInFrameNumValueAllowedFlag := false,
    picWidthInMbsMinus1 := 119, picHeightInMapUnitsMinus1 := 33,
    frameMbsFlags := .fields true, direct8x8InferenceFlag := true,
    frameCropping := some ⟨0, 0, 0, 2⟩,
    vui := some { aspectRatioInfo := some (.extended 4 3), overscanAppropriate := .appropriate,
                  videoSignalType := none, chromaLocInfo := none,
                  timingInfo := some ⟨1001, 60000, true⟩,
                  nalHrd := some ⟨1, 2, [⟨100, 200, false⟩], 23, 23, 23, 24⟩, vclHrd := none,
                  lowDelayHrdFlag := some false, picStructPresentFlag := true,
                  bitstreamRestrictions := some ⟨true, 2, 1, 16, 16, 2, 4⟩ } }

example : sample.WF none := by
  refine ⟨by decide, by decide, by decide, by decide, ?_, by decide, ?_, by simp [sample, Ue], by simp [sample, Ue], by simp [sample, Ue], ?_, ?_⟩
  · simp [ChromaInfo.WF, sample, stdHasChromaInfo, chromaFormatIdc, Ue, ChromaFormat.ofIdc, MatrixDerives]
  · simp [sample, PicOrderCntType.WF, SeRange]
  · simp [sample, Ue]
  · simp [sample, Vui.WF, AspectRatioInfo.WF, OptHrdWF, Hrd.WF, CpbSpec.WF, Ue, BitstreamRestrictions.WF]

#print axioms C04_forward
end Sps
