import H264.Slice
/-! Prototype: slice_header() of 7.3.3 (with 7.3.3.1, 7.3.3.2, 7.3.3.3) as an encoder over a syntax-level record -/
namespace Slice
open Bits Sps Pps

/-- coded values that `SliceHeader` does not keep -/
structure Extra where
  sliceQsDelta : Int := 0
  alpha : Int := 0
  beta : Int := 0
  fullTimestamp : Bool := false

def encModOp : ModOp → List Bool
  | .subtract v => encUe 0 ++ encUe v
  | .add v => encUe 1 ++ encUe v
  | .longTermRef v => encUe 2 ++ encUe v

/-- ref_pic_list_modification for one list: flag, then the operations terminated by idc 3.
An empty list is coded as flag 0 (flag 1 followed immediately by 3 parses to the same value). -/
def encModList (ops : List ModOp) : List Bool :=
  if ops = [] then encBool false else encBool true ++ (ops.map encModOp).flatten ++ encUe 3

def encRefPicListMods : RefPicListMods → List Bool
  | .I => []
  | .P a => encModList a
  | .B a b => encModList a ++ encModList b

def encLumaW : Option (Int × Int) → List Bool
  | some (w, o) => encBool true ++ encSe w ++ encSe o
  | none => encBool false

def encChromaW : List (Int × Int) → List Bool
  | [] => encBool false
  | ws => encBool true ++ (ws.map fun p => encSe p.1 ++ encSe p.2).flatten

def encPredWeightEntries (chroma : Bool) : List (Option (Int × Int)) → List (List (Int × Int)) → List Bool
  | [], _ => []
  | lw :: ls, cws =>
    if chroma then encLumaW lw ++ encChromaW (cws.headD []) ++ encPredWeightEntries chroma ls cws.tail
    else encLumaW lw ++ encPredWeightEntries chroma ls cws

def encPredWeightTable (chroma : Bool) (t : PredWeightTable) : List Bool :=
  encUe t.lumaLog2WeightDenom ++
  (match t.chromaLog2WeightDenom with | some v => encUe v | none => []) ++
  encPredWeightEntries chroma t.lumaWeights t.chromaWeights

def encMmco : Mmco → List Bool
  | .shortTermUnused d => encUe 1 ++ encUe d
  | .longTermUnused n => encUe 2 ++ encUe n
  | .shortTermToLongTerm d i => encUe 3 ++ encUe d ++ encUe i
  | .maxLongTermIdx m => encUe 4 ++ encUe m
  | .allUnused => encUe 5
  | .currentToLongTerm i => encUe 6 ++ encUe i

def encDecRefPicMarking : DecRefPicMarking → List Bool
  | .idr a b => encBool a ++ encBool b
  | .slidingWindow => encBool false
  | .adaptive ops => encBool true ++ (ops.map encMmco).flatten ++ encUe 0

def isChroma (sps : Sps.Sps) : Bool :=
  !(sps.chromaInfo.separateColourPlaneFlag) && sps.chromaInfo.chromaFormat != .monochrome

/-! slice_header( ), element by element, each with the standard's condition -/

def encColourPlane (sps : Sps.Sps) (h : SliceHeader) : List Bool :=
  if sps.chromaInfo.separateColourPlaneFlag then encBits 2 (h.colourPlane.getD 0) else []

def encFieldPic (sps : Sps.Sps) (h : SliceHeader) : List Bool :=
  match sps.frameMbsFlags with
  | .frames => []                                   -- frame_mbs_only_flag = 1
  | .fields _ => match h.fieldPic with
    | .frame => encBool false
    | .top => encBool true ++ encBool false
    | .bottom => encBool true ++ encBool true

def encIdrPicId (hdr : NalHdr) (h : SliceHeader) : List Bool :=
  if hdr.nalUnitType = 5 then encUe (h.idrPicId.getD 0) else []

/-- pic_order_cnt_lsb / delta_pic_order_cnt_bottom / delta_pic_order_cnt[0..1] -/
def encPoc (sps : Sps.Sps) (pps : Pps.Pps) (h : SliceHeader) : List Bool :=
  let bottomCoded := pps.bottomFieldPicOrderInFramePresentFlag && h.fieldPic == .frame
  match sps.picOrderCnt, h.picOrderCntLsb with
  | .typeZero l, some (.frame lsb) => encBits (l + 4) lsb
  | .typeZero l, some (.fieldsAbsolute lsb d) => encBits (l + 4) lsb ++ encSe d
  | .typeOne false _ _ _, some (.fieldsDelta d0 d1) => encSe d0 ++ (if bottomCoded then encSe d1 else [])
  | _, _ => []

def encRedundant (pps : Pps.Pps) (h : SliceHeader) : List Bool :=
  if pps.redundantPicCntPresentFlag then encUe (h.redundantPicCnt.getD 0) else []

def encDirect (fam : Family) (h : SliceHeader) : List Bool :=
  if fam = .B then encBool (h.directSpatialMvPredFlag.getD false) else []

def encNumRefIdxActive (fam : Family) (h : SliceHeader) : List Bool :=
  if fam = .P ∨ fam = .SP ∨ fam = .B then
    match h.numRefIdxActive with
    | none => encBool false
    | some (.P l0) => encBool true ++ encUe l0
    | some (.B l0 l1) => encBool true ++ encUe l0 ++ encUe l1
  else []

def encPwtOpt (fam : Family) (pps : Pps.Pps) (sps : Sps.Sps) (h : SliceHeader) : List Bool :=
  if pwtPresent fam pps then
    match h.predWeightTable with
    | some t => encPredWeightTable (isChroma sps) t
    | none => []
  else []

def encMarkingOpt (hdr : NalHdr) (h : SliceHeader) : List Bool :=
  if hdr.nalRefIdc = 0 then [] else
    match h.decRefPicMarking with
    | some m => encDecRefPicMarking m
    | none => []

def encCabac (fam : Family) (pps : Pps.Pps) (h : SliceHeader) : List Bool :=
  if pps.entropyCodingModeFlag ∧ fam ≠ .I ∧ fam ≠ .SI then encUe (h.cabacInitIdc.getD 0) else []

def encSwitchQs (fam : Family) (h : SliceHeader) (x : Extra) : List Bool :=
  if fam = .SP ∨ fam = .SI then
    (if fam = .SP then encBool (h.spForSwitchFlag.getD false) else []) ++ encSe x.sliceQsDelta
  else []

def encDeblock (pps : Pps.Pps) (h : SliceHeader) (x : Extra) : List Bool :=
  if pps.deblockingFilterControlPresentFlag then
    encUe h.disableDeblockingFilterIdc ++
    (if h.disableDeblockingFilterIdc ≠ 1 then encSe x.alpha ++ encSe x.beta else [])
  else []

/-- slice_header( ) up to (not including) slice_group_change_cycle -/
def encSliceHeader (sps : Sps.Sps) (pps : Pps.Pps) (hdr : NalHdr) (h : SliceHeader) (x : Extra) : List Bool :=
  let fam := familyOf h.sliceTypeId
  encUe h.firstMbInSlice ++ encUe h.sliceTypeId ++ encUe pps.ppsId ++
  encColourPlane sps h ++ encBits (sps.log2MaxFrameNumMinus4 + 4) h.frameNum ++ encFieldPic sps h ++
  encIdrPicId hdr h ++ encPoc sps pps h ++ encRedundant pps h ++ encDirect fam h ++
  encNumRefIdxActive fam h ++ encRefPicListMods h.refPicListModification ++ encPwtOpt fam pps sps h ++
  encMarkingOpt hdr h ++ encCabac fam pps h ++ encSe h.sliceQpDelta ++ encSwitchQs fam h x ++
  encDeblock pps h x

end Slice
