import H264.Rbsp
/-! Prototype for C17 (byte level): the RBSP of a prefix of a valid NAL is a prefix of the NAL's RBSP -/
namespace Rbsp

theorem unescFrom_prefix (st : PS) (p t : List UInt8) (hv : (unescFrom st (p ++ t)).2 = true) :
    (unescFrom st p).2 = true ∧ (unescFrom st p).1 <+: (unescFrom st (p ++ t)).1 := by
  induction p generalizing st with
  | nil => cases st <;> simp [unescFrom]
  | cons b bs ih =>
    cases st with
    | start =>
      simp only [List.cons_append, unescFrom] at hv ⊢
      split at hv <;> rename_i hb
      · simp only [hb, ↓reduceIte] at hv ⊢
        obtain ⟨i1, i2⟩ := ih _ hv
        exact ⟨i1, by simpa using i2⟩
      · simp only [hb, ↓reduceIte] at hv ⊢
        obtain ⟨i1, i2⟩ := ih _ hv
        exact ⟨i1, by simpa using i2⟩
    | oneZero =>
      simp only [List.cons_append, unescFrom] at hv ⊢
      split at hv <;> rename_i hb
      · simp only [hb, ↓reduceIte] at hv ⊢
        obtain ⟨i1, i2⟩ := ih _ hv
        exact ⟨i1, by simpa using i2⟩
      · simp only [hb, ↓reduceIte] at hv ⊢
        obtain ⟨i1, i2⟩ := ih _ hv
        exact ⟨i1, by simpa using i2⟩
    | twoZero =>
      simp only [List.cons_append, unescFrom] at hv ⊢
      split at hv <;> rename_i hb
      · simp only [hb, ↓reduceIte] at hv ⊢
        exact ih _ hv
      · split at hv <;> rename_i hb0
        · simp at hv
        · simp only [hb, hb0, ↓reduceIte] at hv ⊢
          obtain ⟨i1, i2⟩ := ih _ hv
          exact ⟨i1, by simpa using i2⟩
    | skip n =>
      simp only [List.cons_append, unescFrom] at hv ⊢
      exact ih _ hv
    | three =>
      simp only [List.cons_append, unescFrom] at hv ⊢
      exact ih _ hv
    | postThree =>
      simp only [List.cons_append, unescFrom] at hv ⊢
      split at hv <;> rename_i hb
      · simp only [hb, ↓reduceIte] at hv ⊢
        obtain ⟨i1, i2⟩ := ih _ hv
        exact ⟨i1, by simpa using i2⟩
      · split at hv <;> rename_i hb3
        · simp only [hb, hb3, ↓reduceIte] at hv ⊢
          obtain ⟨i1, i2⟩ := ih _ hv
          exact ⟨i1, by simpa using i2⟩
        · simp at hv

#print axioms unescFrom_prefix
end Rbsp
