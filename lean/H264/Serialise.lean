import H264.AnnexBSpec
/-! Prototype for C12 (byte level): segmenting a serialised Annex B stream gives back the NAL units -/
namespace AnnexB
open St

/-- no `00 00 00` / `00 00 01` inside the NAL (what emulation prevention guarantees) -/
def noSC : List UInt8 → Bool
  | a :: b :: c :: rest => !(a = 0 && b = 0 && (c = 0 || c = 1)) && noSC (b :: c :: rest)
  | _ => true
termination_by l => l.length

/-- a NAL unit as it can stand in an Annex B stream: non-empty, free of start-code patterns, last byte ≠ 0 -/
def NalOk (n : List UInt8) : Prop := n ≠ [] ∧ noSC n = true ∧ ∀ h : n ≠ [], n.getLast h ≠ 0

theorem noSC_cons3 (a b c : UInt8) (rest : List UInt8) :
    noSC (a :: b :: c :: rest) = (!(a = 0 && b = 0 && (c = 0 || c = 1)) && noSC (b :: c :: rest)) := by
  rw [noSC]

/-- inside a clean NAL that is followed by `00 00 c …` (c ∈ {0,1}) every byte is data -/
theorem inside_nal (n : List UInt8) (hn : n ≠ []) (hsc : noSC n = true) (hlast : n.getLast hn ≠ 0)
    (c : UInt8) (rest : List UInt8) :
    inside (n ++ 0 :: 0 :: c :: rest) = n.map Ev.byte ++ inside (0 :: 0 :: c :: rest) := by
  induction n with
  | nil => exact absurd rfl hn
  | cons a n ih =>
    match n, ih with
    | [], _ =>
      have ha : a ≠ 0 := by simpa using hlast
      simp only [List.cons_append, List.nil_append, List.map_cons, List.map_nil]
      rw [inside_3]; simp [ha]
    | [b], ih =>
      have hb : b ≠ 0 := by simpa using hlast
      have := ih (by simp) (by simp [noSC]) (by simpa using hlast)
      simp only [List.cons_append, List.nil_append, List.map_cons, List.map_nil] at this ⊢
      rw [inside_3]; simp [hb, this]
    | b :: c' :: n', ih =>
      rw [noSC_cons3] at hsc
      simp only [Bool.and_eq_true, Bool.not_eq_true'] at hsc
      obtain ⟨h1, h2⟩ := hsc
      have := ih (by simp) h2 (by simpa using hlast)
      simp only [List.cons_append, List.map_cons] at this ⊢
      rw [inside_3]
      have hnot0 : ¬ (a = 0 ∧ b = 0 ∧ c' = 0) := by
        intro ⟨x, y, z⟩; simp [x, y, z] at h1
      have hnot1 : ¬ (a = 0 ∧ b = 0 ∧ c' = 1) := by
        intro ⟨x, y, z⟩; simp [x, y, z] at h1
      simp only [hnot0, hnot1, ↓reduceIte, this]

/-- at the very end of the stream the open unit is closed by `reset` -/
theorem inside_nal_end (n : List UInt8) (hsc : noSC n = true) :
    inside n = n.map Ev.byte ++ [Ev.endUnit] := by
  induction n with
  | nil => simp [inside]
  | cons a n ih =>
    match n, ih with
    | [], _ => simp [inside]
    | [b], _ => simp [inside]
    | b :: c :: n', ih =>
      rw [noSC_cons3] at hsc
      simp only [Bool.and_eq_true, Bool.not_eq_true'] at hsc
      obtain ⟨h1, h2⟩ := hsc
      rw [inside_3]
      have hnot0 : ¬ (a = 0 ∧ b = 0 ∧ c = 0) := by
        intro ⟨x, y, z⟩; simp [x, y, z] at h1
      have hnot1 : ¬ (a = 0 ∧ b = 0 ∧ c = 1) := by
        intro ⟨x, y, z⟩; simp [x, y, z] at h1
      simp only [hnot0, hnot1, ↓reduceIte, ih h2, List.map_cons, List.cons_append]

/-- `k` extra zero bytes before a start code prefix are skipped outside a unit (4-byte start codes,
leading_zero_8bits, trailing_zero_8bits of the previous NAL) -/
theorem outside_zeros_sc (k : Nat) (rest : List UInt8) :
    outside (List.replicate (k + 2) 0 ++ 1 :: rest) = inside rest := by
  induction k with
  | zero => simp only [List.replicate, List.cons_append, List.nil_append]; rw [outside_3]; simp
  | succ k ih =>
    have h1 : List.replicate (k + 1 + 2) (0:UInt8) ++ 1 :: rest
        = 0 :: 0 :: 0 :: (List.replicate k 0 ++ 1 :: rest) := by
      simp [List.replicate_succ]
    have h2 : List.replicate (k + 2) (0:UInt8) ++ 1 :: rest = 0 :: 0 :: (List.replicate k 0 ++ 1 :: rest) := by
      simp [List.replicate_succ]
    rw [h1, outside_3]
    simp only [show ¬ ((0:UInt8) = 0 ∧ (0:UInt8) = 0 ∧ (0:UInt8) = 1) by decide, ↓reduceIte]
    rw [← h2]; exact ih

/-- one serialised NAL: `lead` extra zeros, the 3-byte start code prefix, the NAL bytes -/
def serialiseOne (lead : Nat) (n : List UInt8) : List UInt8 := List.replicate (lead + 2) 0 ++ 1 :: n

def serialise : List (Nat × List UInt8) → List UInt8
  | [] => []
  | (lead, n) :: rest => serialiseOne lead n ++ serialise rest

def unitsOf (nals : List (Nat × List UInt8)) : List Ev :=
  (nals.map fun p => p.2.map Ev.byte ++ [Ev.endUnit]).flatten

theorem serialise_cons_shape (lead : Nat) (n : List UInt8) (rest : List (Nat × List UInt8)) :
    ∃ t, serialise ((lead, n) :: rest) = 0 :: 0 :: t ∧
      ((lead = 0 ∧ t = 1 :: (n ++ serialise rest)) ∨ (∃ t', t = 0 :: t')) := by
  cases lead with
  | zero => exact ⟨1 :: (n ++ serialise rest), by simp [serialise, serialiseOne, List.replicate_succ], Or.inl ⟨rfl, rfl⟩⟩
  | succ l =>
    refine ⟨0 :: (List.replicate l 0 ++ 1 :: (n ++ serialise rest)), ?_, Or.inr ⟨_, rfl⟩⟩
    simp [serialise, serialiseOne, List.replicate_succ]

/-- **C12 (byte level)**: the Annex B segmentation of a serialised sequence of well-formed NAL units
(3- or 4-byte start codes, any number of extra zero bytes before each start code) is exactly that sequence -/
theorem segment_serialise (nals : List (Nat × List UInt8)) (h : ∀ p ∈ nals, NalOk p.2) :
    outside (serialise nals) = unitsOf nals := by
  induction nals with
  | nil => simp [serialise, unitsOf, outside]
  | cons p rest ih =>
    obtain ⟨lead, n⟩ := p
    obtain ⟨hn, hsc, hl⟩ := h (lead, n) (by simp)
    have ih' := ih (fun q hq => h q (by simp [hq]))
    have hstep : outside (serialise ((lead, n) :: rest)) = inside (n ++ serialise rest) := by
      simp only [serialise, serialiseOne, List.append_assoc, List.cons_append]
      exact outside_zeros_sc lead (n ++ serialise rest)
    rw [hstep]
    simp only [unitsOf, List.map_cons, List.flatten_cons, List.append_assoc]
    cases rest with
    | nil =>
      simp only [serialise, List.append_nil, List.map_nil, List.flatten_nil, List.append_nil]
      exact inside_nal_end n hsc
    | cons q rest' =>
      obtain ⟨lead', n'⟩ := q
      obtain ⟨t, ht, hshape⟩ := serialise_cons_shape lead' n' rest'
      rw [ht]
      rcases hshape with ⟨_, rfl⟩ | ⟨t', rfl⟩
      · rw [inside_nal n hn hsc (hl hn) 1 _, inside_3]
        simp only [show ¬ ((0:UInt8) = 0 ∧ (0:UInt8) = 0 ∧ (1:UInt8) = 0) by decide, ↓reduceIte,
          show ((0:UInt8) = 0 ∧ (0:UInt8) = 0 ∧ (1:UInt8) = 1) by decide]
        have : outside (serialise ((lead', n') :: rest')) = inside (n' ++ serialise rest') := by
          simp only [serialise, serialiseOne, List.append_assoc, List.cons_append]
          exact outside_zeros_sc lead' _
        rw [this] at ih'
        simp only [unitsOf, List.map_cons, List.flatten_cons, List.append_assoc] at ih'
        rw [ih']; simp
      · rw [inside_nal n hn hsc (hl hn) 0 _, inside_3]
        have hskip : outside (0 :: 0 :: t') = outside (0 :: 0 :: 0 :: t') := by
          rw [outside_3 0 0 0 t']; simp
        simp only [true_and, and_self, ↓reduceIte, hskip]
        rw [← ht, ih']
        simp [unitsOf]

#print axioms segment_serialise
end AnnexB
