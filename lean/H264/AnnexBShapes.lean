import H264.AnnexBSpec
namespace AnnexB
open St

/-- C18 shape predicate for one handler call -/
def Call.WellShaped (c : Call) : Prop := (∀ b ∈ c.bufs, b ≠ []) ∧ (c.bufs = [] → c.fin = true)

theorem zeros_ne_nil (n : Nat) (h : n > 0) : zeros n ≠ [] := by
  cases n with
  | zero => omega
  | succ n => simp [zeros, List.replicate_succ]

theorem maybeEmit_shaped (buf : List UInt8) (fs : Option (Nat × Nat)) (e bt : Nat) (isEnd : Bool)
    (he : e ≤ buf.length) : ∀ c ∈ maybeEmit buf fs e bt isEnd, c.WellShaped := by
  intro c hc
  unfold maybeEmit at hc
  match fs with
  | none => simp at hc
  | some (fake, from_) =>
    simp only at hc
    by_cases hlt : from_ + bt < e
    · simp only [hlt, ↓reduceIte] at hc
      have hbody : (buf.take (e - bt)).drop from_ ≠ [] := by
        intro h
        have := congrArg List.length h
        rw [List.length_drop, List.length_take] at this
        simp at this; omega
      by_cases hfk : fake > 0
      · simp only [hfk, ↓reduceIte, List.mem_singleton] at hc
        subst hc
        refine ⟨?_, by simp⟩
        intro b hb
        simp at hb
        rcases hb with rfl | rfl
        · exact zeros_ne_nil _ hfk
        · exact hbody
      · simp only [hfk, ↓reduceIte, List.mem_singleton] at hc
        subst hc
        refine ⟨?_, by simp⟩
        intro b hb
        simp at hb
        subst hb; exact hbody
    · simp only [hlt, ↓reduceIte] at hc
      cases isEnd with
      | false => simp at hc
      | true =>
        simp at hc; subst hc
        exact ⟨by simp, by simp⟩

theorem pushGo_shaped (buf : List UInt8) (rest : List UInt8) :
    ∀ (i : Nat) (st : St) (fs : Option (Nat × Nat)) (calls : List Call),
    i + rest.length ≤ buf.length →
    (∀ c ∈ calls, c.WellShaped) → ∀ c ∈ (pushGo buf rest i st fs calls).2.2, c.WellShaped := by
  induction rest with
  | nil => intro i st fs calls _ h; simpa [pushGo] using h
  | cons b rest ih =>
    intro i st fs calls hlen h
    have hlen' : i + 1 + rest.length ≤ buf.length := by simp at hlen; omega
    have hi : i ≤ buf.length := by omega
    have hext : ∀ c ∈ calls ++ maybeEmit buf fs i 2 true, c.WellShaped := by
      intro c hc
      rcases List.mem_append.mp hc with h1 | h1
      · exact h c h1
      · exact maybeEmit_shaped buf fs i 2 true hi c h1
    cases st <;> simp only [pushGo]
    all_goals (repeat' split)
    all_goals first
      | exact ih _ _ _ _ hlen' h
      | exact ih _ _ _ _ hlen' hext

/-- **C18 (shapes)**: every call made by `push` passes only non-empty slices, and a call without slices ends a unit -/
theorem push_shaped (st : St) (buf : List UInt8) : ∀ c ∈ (push st buf).2, c.WellShaped := by
  have h := pushGo_shaped buf buf 0 st ((backtrack st).map fun b => (b, 0)) [] (by simp) (by simp)
  unfold push
  simp only
  split
  · intro c hc
    rcases List.mem_append.mp hc with h1 | h1
    · exact h c h1
    · exact maybeEmit_shaped buf _ buf.length _ false (Nat.le_refl _) c h1
  · exact h

theorem reset_shaped (st : St) : ∀ c ∈ (reset st).2, c.WellShaped := by
  intro c hc
  cases st <;> simp [reset, backtrack] at hc <;> subst hc <;>
    simp [Call.WellShaped, zeros, List.replicate_succ]

/-- **C18 (reset)**: after `reset` the reader is the freshly constructed one; outside a unit it makes no call -/
theorem reset_fresh (st : St) : (reset st).1 = start := by
  cases st <;> simp [reset, backtrack]

theorem reset_idle (st : St) (h : backtrack st = none) : (reset st).2 = [] := by
  cases st <;> simp_all [reset, backtrack]

#print axioms push_shaped
end AnnexB
