import H264.Sei
import H264.Mono
/-! C17 for the SEI reader: on a truncated, incomplete view it yields a prefix of the complete message sequence and
then fails because it would have to wait (or fails exactly like the complete run) -/
namespace Sei
open Bits

theorem readU32_prefix (name : String) (fin : IoKind) (bs t : List UInt8) (acc : Nat) :
    match readU32 name .wouldBlock bs acc with
    | .ok (v, rest) => readU32 name fin (bs ++ t) acc = .ok (v, rest ++ t)
    | .error e => e = .io name .wouldBlock ∨ readU32 name fin (bs ++ t) acc = .error e := by
  induction bs generalizing acc with
  | nil => simp [readU32]
  | cons b bs ih =>
    simp only [readU32, List.cons_append]
    by_cases hov : acc + b.toNat ≥ 4294967296
    · simp [hov]
    · simp only [hov, ↓reduceIte]
      by_cases hff : b ≠ 0xFF
      · simp [hff]
      · simp only [hff, ↓reduceIte]
        exact ih (acc + b.toNat)

/-- the two readers are in step: same bookkeeping, the truncated one holds a prefix and would block at its end -/
def InStep (r' r : Reader) : Prop :=
  r'.done = false ∧ r.done = false ∧ r'.payloadsSeen = r.payloadsSeen ∧ r'.src.fin = .wouldBlock ∧
  ∃ t, r.src.bytes = r'.src.bytes ++ t

/-- one call on the truncated view: a message ⇒ the complete run returns the same message and the readers stay in
step; it never reports the end; an error is "would block" or the very error of the complete run -/
theorem next_prefix (r' r : Reader) (h : InStep r' r) :
    match (next r').2 with
    | .ok (some m) => (next r).2 = .ok (some m) ∧ InStep (next r').1 (next r).1
    | .ok none => False
    | .error e => e.isWouldBlock ∨ (next r).2 = .error e := by
  obtain ⟨hd', hd, hseen, hfin, t, ht⟩ := h
  obtain ⟨⟨bs', fin'⟩, seen', done'⟩ := r'
  obtain ⟨⟨bs, fin⟩, seen, done⟩ := r
  simp only at hd' hd hseen hfin ht
  subst hd' hd hseen hfin ht
  unfold next
  simp only [Bool.false_eq_true, ↓reduceIte]
  have p1 := readU32_prefix "payload_type" fin bs' t 0
  cases h1 : readU32 "payload_type" .wouldBlock bs' 0 with
  | error e =>
    rw [h1] at p1
    simp only
    rcases p1 with p1 | p1
    · left; rw [p1]; trivial
    · right; rw [p1]
  | ok v =>
    obtain ⟨ty, rest⟩ := v
    rw [h1] at p1
    simp only at p1 ⊢
    rw [p1]
    simp only
    by_cases hend : ty = 0x80 ∧ seen' > 0 ∧ rest = []
    · -- the truncated reader cannot tell a trailing byte from a type: it blocks
      simp only [hend, and_self, ↓reduceIte]
      simp only [reduceCtorEq, ↓reduceIte]
      left; trivial
    · have hfull : ¬ (ty = 0x80 ∧ seen' > 0 ∧ rest ++ t = []) := by
        rintro ⟨a, b, c⟩
        exact hend ⟨a, b, (List.append_eq_nil_iff.mp c).1⟩
      simp only [hend, hfull, ↓reduceIte]
      have p2 := readU32_prefix "payload_len" fin rest t 0
      cases h2 : readU32 "payload_len" .wouldBlock rest 0 with
      | error e =>
        rw [h2] at p2
        simp only
        rcases p2 with p2 | p2
        · left; rw [p2]; trivial
        · right; rw [p2]
      | ok w =>
        obtain ⟨len, rest2⟩ := w
        rw [h2] at p2
        simp only at p2 ⊢
        rw [p2]
        simp only
        by_cases hshort : rest2.length < len
        · simp only [hshort, ↓reduceIte]; left; trivial
        · have hfl : ¬ (rest2 ++ t).length < len := by simp only [List.length_append]; omega
          simp only [hshort, hfl, ↓reduceIte]
          have hle : len ≤ rest2.length := by omega
          refine ⟨?_, rfl, rfl, rfl, rfl, t, ?_⟩
          · rw [List.take_append_of_le_length hle]
          · simp only
            rw [List.drop_append_of_le_length hle]

end Sei

namespace Sei
open Bits

set_option maxRecDepth 8000 in
theorem readU32_ff (name : String) (fin : IoKind) (k : Nat) (tl : List UInt8) (acc : Nat) (hacc : acc < 4294967296) :
    readU32 name fin (List.replicate k 0xFF ++ tl) acc =
      if acc + 255 * k ≥ 4294967296 then .error (.io name .invalidData) else readU32 name fin tl (acc + 255 * k) := by
  induction k generalizing acc with
  | zero =>
    have h0 : ¬ acc + 255 * 0 ≥ 4294967296 := by omega
    rw [if_neg h0]
    show readU32 name fin ([] ++ tl) acc = readU32 name fin tl (acc + 255 * 0)
    rw [List.nil_append, Nat.mul_zero, Nat.add_zero]
  | succ k ih =>
    rw [List.replicate_succ, List.cons_append, readU32]
    have hff : (0xFF : UInt8).toNat = 255 := by decide
    simp only [hff]
    by_cases hov : acc + 255 ≥ 4294967296
    · have h1 : acc + 255 * (k + 1) ≥ 4294967296 := by omega
      rw [if_pos hov, if_pos h1]
    · rw [if_neg hov]
      have hne : ¬ ((0xFF : UInt8) ≠ 0xFF) := by simp
      rw [if_neg hne, ih (acc + 255) (by omega)]
      have he : acc + 255 + 255 * k = acc + 255 * (k + 1) := by omega
      rw [he]

set_option maxRecDepth 8000 in
/-- **C10 (overflow)**: a type or size whose 0xFF-extension coding sums to 2³² or more is an error — never a wrapped
value — whatever follows -/
theorem readU32_too_large (name : String) (fin : IoKind) (n : Nat) (hn : n ≥ 4294967296) (rest : List UInt8) :
    readU32 name fin (encU32 n ++ rest) 0 = .error (.io name .invalidData) := by
  unfold encU32
  rw [List.append_assoc, readU32_ff name fin (n / 255) _ 0 (by omega)]
  by_cases hbig : 0 + 255 * (n / 255) ≥ 4294967296
  · rw [if_pos hbig]
  · rw [if_neg hbig]
    show readU32 name fin (UInt8.ofNat (n % 255) :: rest) (0 + 255 * (n / 255)) = _
    rw [readU32]
    have hto : (UInt8.ofNat (n % 255)).toNat = n % 255 := by
      rw [UInt8.toNat_ofNat']; omega
    simp only [hto]
    have h2 : 0 + 255 * (n / 255) + n % 255 ≥ 4294967296 := by omega
    rw [if_pos h2]

end Sei
