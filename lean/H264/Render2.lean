import H264.Render
import H264.Slice
/-! Prototype: Rust-`Debug`-compatible rendering of PPS and slice header results -/
namespace Render
open Pps Slice

def changeType : Nat → String | 3 => "BoxOut" | 4 => "RasterScan" | _ => "WipeOut"

def sliceGroup : SliceGroup → String
  | .interleaved rl => s!"Interleaved \{ run_length_minus1: {list toString rl} }"
  | .dispersed n => s!"Dispersed \{ num_slice_groups_minus1: {n} }"
  | .foregroundAndLeftover rs =>
      "ForegroundAndLeftover { rectangles: " ++ list (fun r => s!"SliceRect \{ top_left: {r.1}, bottom_right: {r.2} }") rs ++ " }"
  | .changing t n d r => s!"Changing \{ change_type: {changeType t}, num_slice_groups_minus1: {n}, slice_group_change_direction_flag: {b d}, slice_group_change_rate_minus1: {r} }"
  | .explicitAssignment n ids => s!"ExplicitAssignment \{ num_slice_groups_minus1: {n}, slice_group_id: {list toString ids} }"

def picScalingMatrix (m : PicScalingMatrix) : String :=
  s!"PicScalingMatrix \{ scaling_list4x4: {list scalingList m.l4x4}, scaling_list8x8: {opt (list scalingList) m.l8x8} }"

def ppsExtra (e : PpsExtra) : String :=
  s!"PicParameterSetExtra \{ transform_8x8_mode_flag: {b e.transform8x8ModeFlag}, pic_scaling_matrix: {opt picScalingMatrix e.picScalingMatrix}, second_chroma_qp_index_offset: {int e.secondChromaQpIndexOffset} }"

def pps (p : Pps.Pps) : String :=
  s!"PicParameterSet \{ pic_parameter_set_id: PicParamSetId({p.ppsId}), seq_parameter_set_id: SeqParamSetId({p.spsId}), entropy_coding_mode_flag: {b p.entropyCodingModeFlag}, bottom_field_pic_order_in_frame_present_flag: {b p.bottomFieldPicOrderInFramePresentFlag}, slice_groups: {opt sliceGroup p.sliceGroups}, num_ref_idx_l0_default_active_minus1: {p.numRefIdxL0DefaultActiveMinus1}, num_ref_idx_l1_default_active_minus1: {p.numRefIdxL1DefaultActiveMinus1}, weighted_pred_flag: {b p.weightedPredFlag}, weighted_bipred_idc: {p.weightedBipredIdc}, pic_init_qp_minus26: {int p.picInitQpMinus26}, pic_init_qs_minus26: {int p.picInitQsMinus26}, chroma_qp_index_offset: {int p.chromaQpIndexOffset}, deblocking_filter_control_present_flag: {b p.deblockingFilterControlPresentFlag}, constrained_intra_pred_flag: {b p.constrainedIntraPredFlag}, redundant_pic_cnt_present_flag: {b p.redundantPicCntPresentFlag}, extension: {opt ppsExtra p.extension} }"

def family : Family → String | .P => "P" | .B => "B" | .I => "I" | .SP => "SP" | .SI => "SI"
def sliceType (id : Nat) : String :=
  s!"SliceType \{ family: {family (familyOf id)}, exclusive: {if id ≥ 5 then "Exclusive" else "NonExclusive"} }"
def colourPlane : Nat → String | 0 => "Y" | 1 => "Cb" | _ => "Cr"
def fieldPic : FieldPic → String | .frame => "Frame" | .top => "Field(Top)" | .bottom => "Field(Bottom)"
def pocLsb : PicOrderCountLsb → String
  | .frame l => s!"Frame({l})"
  | .fieldsAbsolute l d => s!"FieldsAbsolute \{ pic_order_cnt_lsb: {l}, delta_pic_order_cnt_bottom: {int d} }"
  | .fieldsDelta a c => s!"FieldsDelta([{int a}, {int c}])"
def nra : NumRefIdxActive → String
  | .P l0 => s!"P \{ num_ref_idx_l0_active_minus1: {l0} }"
  | .B l0 l1 => s!"B \{ num_ref_idx_l0_active_minus1: {l0}, num_ref_idx_l1_active_minus1: {l1} }"
def modOp : ModOp → String
  | .subtract v => s!"Subtract({v})" | .add v => s!"Add({v})" | .longTermRef v => s!"LongTermRef({v})"
def mods : RefPicListMods → String
  | .I => "I"
  | .P l0 => s!"P \{ ref_pic_list_modification_l0: {list modOp l0} }"
  | .B l0 l1 => s!"B \{ ref_pic_list_modification_l0: {list modOp l0}, ref_pic_list_modification_l1: {list modOp l1} }"
def predWeight (p : Int × Int) : String := s!"PredWeight \{ weight: {int p.1}, offset: {int p.2} }"
def pwt (t : PredWeightTable) : String :=
  s!"PredWeightTable \{ luma_log2_weight_denom: {t.lumaLog2WeightDenom}, chroma_log2_weight_denom: {opt toString t.chromaLog2WeightDenom}, luma_weights: {list (opt predWeight) t.lumaWeights}, chroma_weights: {list (list predWeight) t.chromaWeights} }"
def mmco : Mmco → String
  | .shortTermUnused d => s!"ShortTermUnusedForRef \{ difference_of_pic_nums_minus1: {d} }"
  | .longTermUnused n => s!"LongTermUnusedForRef \{ long_term_pic_num: {n} }"
  | .shortTermToLongTerm d i => s!"ShortTermUsedForLongTerm \{ difference_of_pic_nums_minus1: {d}, long_term_frame_idx: {i} }"
  | .maxLongTermIdx m => s!"MaxUsedLongTermFrameRef \{ max_long_term_frame_idx_plus1: {m} }"
  | .allUnused => "AllRefPicturesUnused"
  | .currentToLongTerm i => s!"CurrentUsedForLongTerm \{ long_term_frame_idx: {i} }"
def marking : DecRefPicMarking → String
  | .idr a c => s!"Idr \{ no_output_of_prior_pics_flag: {b a}, long_term_reference_flag: {b c} }"
  | .slidingWindow => "SlidingWindow"
  | .adaptive ops => s!"Adaptive({list mmco ops})"

def sliceHeader (h : SliceHeader) : String :=
  s!"SliceHeader \{ first_mb_in_slice: {h.firstMbInSlice}, slice_type: {sliceType h.sliceTypeId}, colour_plane: {opt colourPlane h.colourPlane}, frame_num: {h.frameNum}, field_pic: {fieldPic h.fieldPic}, idr_pic_id: {opt toString h.idrPicId}, pic_order_cnt_lsb: {opt pocLsb h.picOrderCntLsb}, redundant_pic_cnt: {opt toString h.redundantPicCnt}, direct_spatial_mv_pred_flag: {opt b h.directSpatialMvPredFlag}, num_ref_idx_active: {opt nra h.numRefIdxActive}, ref_pic_list_modification: Some({mods h.refPicListModification}), pred_weight_table: {opt pwt h.predWeightTable}, dec_ref_pic_marking: {opt marking h.decRefPicMarking}, cabac_init_idc: {opt toString h.cabacInitIdc}, slice_qp_delta: {int h.sliceQpDelta}, sp_for_switch_flag: {opt b h.spForSwitchFlag}, slice_qs: {opt toString h.sliceQs}, disable_deblocking_filter_idc: {h.disableDeblockingFilterIdc} }"

end Render
