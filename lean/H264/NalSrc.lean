import H264.Rbsp
import H264.RefNal
import H264.Bits
import H264.Fast
/-! From a (chunked, possibly partial) NAL to the bit source the syntax parsers see.

`bitstream-io` pulls bytes out of `rbsp::ByteReader` one `read` at a time and never retries after an error, so
what a parser can observe of a NAL is `drain`: the bytes single-byte reads deliver before the first error or end,
and the kind of that end. -/
namespace NalSrc
open Rbsp

def drainGo : Nat → BR → List UInt8 → List UInt8 × IoKind
  | 0, _, acc => (acc, .eof)
  | fuel+1, r, acc =>
    match Rbsp.read r 1 with
    | (_, .error k) => (acc, k)
    | (r', .ok bs) => if bs = [] then (acc, .eof) else drainGo fuel r' (acc ++ bs)

/-- bytes delivered by repeated `read(1)` until the first error (`wouldBlock` / `invalidData`) or end (`eof`) -/
def drain (r : BR) : List UInt8 × IoKind := drainGo (r.inner.rest.length + 2) r []


def drainGoFast : Nat → BR → List UInt8 → List UInt8 × IoKind
  | 0, _, ar => (ar.reverse, .eof)
  | fuel+1, r, ar =>
    match Rbsp.read r 1 with
    | (_, .error k) => (ar.reverse, k)
    | (r', .ok bs) => if bs = [] then (ar.reverse, .eof) else drainGoFast fuel r' (bs.reverse ++ ar)

theorem drainGoFast_eq (fuel : Nat) (r : BR) (ar : List UInt8) :
    drainGoFast fuel r ar = drainGo fuel r ar.reverse := by
  induction fuel generalizing r ar with
  | zero => rfl
  | succ f ih =>
    unfold drainGoFast drainGo
    split
    · rfl
    · split
      · rfl
      · rw [ih]; simp

def drainFast (r : BR) : List UInt8 × IoKind := drainGoFast (r.inner.rest.length + 2) r []

@[csimp] theorem drain_eq_fast : @drain = @drainFast := by
  funext r; unfold drain drainFast; rw [drainGoFast_eq]; rfl


def mkChunked (chunks : List (List UInt8)) (complete : Bool) : Chunked :=
  match chunks with
  | [] => ⟨[], [], complete⟩
  | h :: t => ⟨h, t, complete⟩

/-- `RefNal::rbsp_bytes()`: skip the one-byte header, window 128 -/
def rbspBytes (chunks : List (List UInt8)) (complete : Bool) : BR := ⟨mkChunked chunks complete, .skip 1, 0, 128⟩

def kindOf : IoKind → Bits.IoKind
  | .eof => .eof | .wouldBlock => .wouldBlock | .invalidData => .invalidData

def bitsOfByte (b : UInt8) : List Bool :=
  let v := b.toNat
  [v / 128 % 2 == 1, v / 64 % 2 == 1, v / 32 % 2 == 1, v / 16 % 2 == 1, v / 8 % 2 == 1, v / 4 % 2 == 1, v / 2 % 2 == 1, v % 2 == 1]

def bitsOfBytes (bs : List UInt8) : List Bool := bs.flatMap bitsOfByte

/-- `RefNal::rbsp_bits()` as the parsers see it -/
def srcOfNal (chunks : List (List UInt8)) (complete : Bool) : Bits.Src :=
  let d := drain (rbspBytes chunks complete)
  ⟨bitsOfBytes d.1, kindOf d.2⟩

/-- a contiguous byte slice used directly as RBSP (`BitReader::new(&[u8])`) -/
def srcOfBytes (bs : List UInt8) : Bits.Src := ⟨bitsOfBytes bs, .eof⟩

end NalSrc
