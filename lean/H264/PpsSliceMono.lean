import H264.SpsMono
import H264.NoPanic
/-! Prototype for C17: PPS and slice-header parsers are prefix-monotone -/
namespace Pps
open Bits Sps

macro_rules | `(tactic| mono_step) => `(tactic| split)

theorem mono_readUeList (name tag bound n) : Mono (readUeList name bound tag n) := by
  induction n with
  | zero => exact Mono.pure _
  | succ n ih => unfold readUeList; mono
macro_rules | `(tactic| mono_step) => `(tactic| exact mono_readUeList _ _ _ _)
theorem mono_readRect (s) : Mono (readRect s) := by unfold readRect; mono
macro_rules | `(tactic| mono_step) => `(tactic| exact mono_readRect _)
theorem mono_readRects (s n) : Mono (readRects s n) := by
  induction n with
  | zero => exact Mono.pure _
  | succ n ih => unfold readRects; mono
macro_rules | `(tactic| mono_step) => `(tactic| exact mono_readRects _ _)
theorem mono_readBitsList (name w n) : Mono (readBitsList name w n) := by
  induction n with
  | zero => exact Mono.pure _
  | succ n ih => unfold readBitsList; mono
macro_rules | `(tactic| mono_step) => `(tactic| exact mono_readBitsList _ _ _)
theorem mono_readSliceGroup (n s) : Mono (readSliceGroup n s) := by unfold readSliceGroup; mono
macro_rules | `(tactic| mono_step) => `(tactic| exact mono_readSliceGroup _ _)
theorem mono_readSliceGroups (s) : Mono (readSliceGroups s) := by unfold readSliceGroups; mono
macro_rules | `(tactic| mono_step) => `(tactic| exact mono_readSliceGroups _)
theorem mono_readNumRefIdx (name) : Mono (Pps.readNumRefIdx name) := by unfold Pps.readNumRefIdx; mono
macro_rules | `(tactic| mono_step) => `(tactic| exact mono_readNumRefIdx _)
theorem mono_readPicScalingMatrix (s t) : Mono (readPicScalingMatrix s t) := by unfold readPicScalingMatrix; mono
macro_rules | `(tactic| mono_step) => `(tactic| exact mono_readPicScalingMatrix _ _)
theorem mono_readPpsExtra (s) : Mono (readPpsExtra s) := by unfold readPpsExtra; mono
macro_rules | `(tactic| mono_step) => `(tactic| exact mono_readPpsExtra _)

/-- **C17 (PPS)** -/
theorem mono_parsePps (ctx) : Mono (parsePps ctx) := by
  unfold parsePps
  mono

#print axioms mono_parsePps
end Pps

namespace Slice
open Bits Sps Pps

/-- with more fuel than remaining bits the loop's result does not depend on the fuel -/
theorem readModOps_fuel (f f' : Nat) (s : Src) (h : s.bits.length < f) (h' : s.bits.length < f') :
    readModOps f s = readModOps f' s := by
  induction f generalizing f' s with
  | zero => omega
  | succ f ih =>
    cases f' with
    | zero => omega
    | succ f' =>
      unfold readModOps
      simp only [bind_run]
      cases hu : readUe "modification_of_pic_nums_idc" s with
      | error e => rfl
      | ok v =>
        obtain ⟨idc, s1⟩ := v
        have hc := readUe_consumes _ _ _ _ hu
        simp only
        have recur : ∀ (nm : String) (mk : Nat → ModOp),
            (do let v ← readUe nm; let rest ← readModOps f; Pure.pure (mk v :: rest) : P (List ModOp)) s1 =
            (do let v ← readUe nm; let rest ← readModOps f'; Pure.pure (mk v :: rest) : P (List ModOp)) s1 := by
          intro nm mk
          simp only [bind_run]
          cases hv : readUe nm s1 with
          | error e => rfl
          | ok w =>
            obtain ⟨v, s2⟩ := w
            have hc2 := readUe_consumes _ _ _ _ hv
            simp only
            rw [ih f' s2 (by omega) (by omega)]
        split
        · exact recur _ _
        · split
          · exact recur _ _
          · split
            · exact recur _ _
            · rfl

theorem mono_readModOps (f : Nat) : Mono (readModOps f) := by
  induction f with
  | zero => unfold readModOps; intro s' s h; simp [MonoRes]
  | succ f ih => unfold readModOps; mono

/-- the loop as called by the parser (fuel = remaining bits + 1) -/
theorem mono_readModOpsAuto : Mono (fun s => readModOps (s.bits.length + 1) s) := by
  intro s' s hp
  obtain ⟨hfin, t, ht⟩ := hp
  have h1 := mono_readModOps (s.bits.length + 1) s' s ⟨hfin, t, ht⟩
  have hlen : s'.bits.length ≤ s.bits.length := by rw [ht]; simp
  show MonoRes (readModOps (s.bits.length + 1) s) (readModOps (s'.bits.length + 1) s')
  rw [readModOps_fuel (s'.bits.length + 1) (s.bits.length + 1) s' (by omega) (by omega)]
  exact h1

#print axioms mono_readModOpsAuto
end Slice
