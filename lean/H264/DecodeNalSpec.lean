import H264.DecodeNal
import H264.RbspInit
import H264.NalSrcProofs
/-! C02: the one-shot decoder `decode_nal` computes the declarative un-escaping, and borrows only if nothing was removed -/
namespace Rbsp

/-- if un-escaping keeps the length, nothing was removed and the input was valid -/
theorem unescFrom_same_length (st : PS) (hs : st = .start ∨ st = .oneZero ∨ st = .twoZero ∨ st = .postThree)
    (p : List UInt8) (h : (unescFrom st p).1.length = p.length) : unescFrom st p = (p, true) := by
  induction p generalizing st with
  | nil => simp [unescFrom]
  | cons b bs ih =>
    have l1 := NalSrc.unescFrom_length_le .start bs
    have l2 := NalSrc.unescFrom_length_le .oneZero bs
    have l3 := NalSrc.unescFrom_length_le .twoZero bs
    have l4 := NalSrc.unescFrom_length_le .postThree bs
    rcases hs with rfl | rfl | rfl | rfl
    · simp only [unescFrom] at h ⊢
      split at h <;> rename_i hb
      · simp only [List.length_cons, Nat.add_right_cancel_iff] at h
        simp [hb, ih .oneZero (by simp) h]
      · simp only [List.length_cons, Nat.add_right_cancel_iff] at h
        simp [hb, ih .start (by simp) h]
    · simp only [unescFrom] at h ⊢
      split at h <;> rename_i hb
      · simp only [List.length_cons, Nat.add_right_cancel_iff] at h
        simp [hb, ih .twoZero (by simp) h]
      · simp only [List.length_cons, Nat.add_right_cancel_iff] at h
        simp [hb, ih .start (by simp) h]
    · simp only [unescFrom] at h ⊢
      split at h <;> rename_i hb
      · simp only [List.length_cons] at h; omega
      · split at h <;> rename_i hb0
        · simp at h
        · simp only [List.length_cons, Nat.add_right_cancel_iff] at h
          simp [hb, hb0, ih .start (by simp) h]
    · simp only [unescFrom] at h ⊢
      split at h <;> rename_i hb
      · simp only [List.length_cons, Nat.add_right_cancel_iff] at h
        simp [hb, ih .oneZero (by simp) h]
      · split at h <;> rename_i hb3
        · simp only [List.length_cons, Nat.add_right_cancel_iff] at h
          simp [hb, hb3, ih .start (by simp) h]
        · simp at h

/-- the drain loop with enough fuel collects the whole view, or reports the invalidity of the remainder -/
theorem drainLoop_full (fuel : Nat) (r : BR) (hinv : Inv r) (hc : r.inner.complete = true) (acc : List UInt8)
    (hf : (view r).1.length < fuel) :
    drainLoop fuel r acc = if (view r).2 then (acc ++ (view r).1, none)
                           else ((drainLoop fuel r acc).1, some .invalidData) := by
  induction fuel generalizing r acc with
  | zero => omega
  | succ fuel ih =>
    obtain ⟨f1, f2, f3, f4, f5⟩ := fillBuf_spec r hinv
    unfold drainLoop
    cases hres : (fillBuf r).2 with
    | error k =>
      have heq : fillBuf r = ((fillBuf r).1, .error k) := by rw [← hres]
      rw [heq]; simp only
      rw [hres] at f5
      cases k with
      | wouldBlock => rw [hc] at f5; exact absurd f5.1 (by simp)
      | invalidData => simp [f5]
      | eof => exact absurd f5 id
    | ok buf =>
      have heq : fillBuf r = ((fillBuf r).1, .ok buf) := by rw [← hres]
      rw [heq]; simp only
      rw [hres] at f5
      obtain ⟨hbuf, hpre, hemp⟩ := f5
      by_cases hb : buf = []
      · simp only [hb, ↓reduceIte]
        obtain ⟨hv, _⟩ := hemp hb
        simp [hv]
      · simp only [hb, ↓reduceIte]
        have hamt : buf.length ≤ (fillBuf r).1.i := by rw [hbuf, List.length_take]; omega
        obtain ⟨c1, c2, c3, c4⟩ := consume_spec (fillBuf r).1 f1 buf.length hamt
        obtain ⟨t, ht⟩ := hpre
        have hview : view (consume (fillBuf r).1 buf.length) = (t, (view r).2) := by
          rw [c2, f2, ← ht]; simp
        have hbl : 0 < buf.length := List.length_pos_iff.mpr hb
        have hf' : (view (consume (fillBuf r).1 buf.length)).1.length < fuel := by
          rw [hview]; simp only
          have : (view r).1.length = buf.length + t.length := by rw [← ht]; simp
          omega
        have hc' : (consume (fillBuf r).1 buf.length).inner.complete = true := by rw [c3, f3, hc]
        rw [ih (consume (fillBuf r).1 buf.length) c1 hc' (acc ++ buf) hf', hview]
        simp only
        by_cases hv : (view r).2 = true
        · simp [hv, ← ht, List.append_assoc]
        · simp [hv]

/-- **C02 (one-shot decoder)**: `decode_nal` returns exactly the declarative un-escaping of everything after the
header byte — `InvalidData` iff that is invalid — and it hands back the borrowed input only if nothing had to be
removed -/
theorem decodeNal_spec (nal : List UInt8) :
    (if (unesc (nal.drop 1)).2 then ∃ b, decodeNal nal = .ok (b, (unesc (nal.drop 1)).1) ∧
        (b = true → (unesc (nal.drop 1)).1 = nal.drop 1)
     else decodeNal nal = .error .invalidData) := by
  obtain ⟨r0, hr0⟩ : ∃ r0 : BR, r0 = ⟨⟨nal, [], true⟩, .skip 1, 0, nal.length + 1⟩ := ⟨_, rfl⟩
  have hinv : Inv r0 := by
    rw [hr0]
    refine ⟨⟨by simp, by simp⟩, by simp, by simp, ?_⟩
    intro n hn; injection hn with hn; subst hn; exact ⟨rfl, by omega⟩
  have hcomp : r0.inner.complete = true := by rw [hr0]
  have hview : view r0 = unesc (nal.drop 1) := by
    have h1 : view r0 = unescFrom (.skip 1) nal := by rw [hr0]; simp [view, Chunked.rest]
    have h2 := initState_unesc 1 nal
    simp only [initState] at h2
    rw [h1]; exact h2
  obtain ⟨f1, f2, f3, f4, f5⟩ := fillBuf_spec r0 hinv
  have hdef : decodeNal nal =
      (match fillBuf r0 with
       | (_, .error k) => .error k
       | (r1, .ok buf) =>
         if buf.length = (nal.drop 1).length then .ok (true, nal.drop 1)
         else match drainLoop (nal.length + 2) r1 [] with
           | (_, some k) => .error k
           | (out, none) => .ok (false, out)) := by
    rw [hr0]; rfl
  rw [hdef]
  cases hres : (fillBuf r0).2 with
  | error k =>
    have heq : fillBuf r0 = ((fillBuf r0).1, .error k) := by rw [← hres]
    rw [heq]; simp only
    rw [hres] at f5
    cases k with
    | wouldBlock => rw [hcomp] at f5; exact absurd f5.1 (by simp)
    | invalidData => rw [hview] at f5; rw [f5]; simp
    | eof => exact absurd f5 id
  | ok buf =>
    have heq : fillBuf r0 = ((fillBuf r0).1, .ok buf) := by rw [← hres]
    rw [heq]; simp only
    rw [hres] at f5
    obtain ⟨_, hpre, _⟩ := f5
    rw [hview] at hpre
    have hle := NalSrc.unescFrom_length_le .start (nal.drop 1)
    rw [unescFrom_start_eq] at hle
    by_cases hlen : buf.length = (nal.drop 1).length
    · simp only [hlen, ↓reduceIte]
      obtain ⟨t, ht⟩ := hpre
      have hl : (unesc (nal.drop 1)).1.length = (nal.drop 1).length := by
        have : (unesc (nal.drop 1)).1.length = buf.length + t.length := by rw [← ht]; simp
        omega
      have hsame := unescFrom_same_length .start (by simp) (nal.drop 1) (by rw [unescFrom_start_eq]; exact hl)
      rw [unescFrom_start_eq] at hsame
      rw [hsame]
      simp
    · simp only [hlen, ↓reduceIte]
      have hf : (view (fillBuf r0).1).1.length < nal.length + 2 := by
        rw [f2, hview]
        have : (nal.drop 1).length ≤ nal.length := by simp
        omega
      have hd := drainLoop_full (nal.length + 2) _ f1 (by rw [f3, hcomp]) [] hf
      rw [f2, hview] at hd
      by_cases hv : (unesc (nal.drop 1)).2 = true
      · simp only [hv, ↓reduceIte, List.nil_append] at hd ⊢
        rw [hd]
        exact ⟨false, rfl, by simp⟩
      · simp only [hv, Bool.false_eq_true, ↓reduceIte] at hd ⊢
        rw [hd]

end Rbsp

namespace Rbsp

def plainState (st : PS) : Prop := st = .start ∨ st = .oneZero ∨ st = .twoZero ∨ st = .postThree

/-- on input from which nothing is removed the scanner runs through to the end of the window -/
theorem scan_noescape (cl : Nat) (st : PS) (hs : plainState st) (i : Nat) (todo : List UInt8)
    (h : unescFrom st todo = (todo, true)) :
    ∃ st', scan cl st i todo = .done st' (i + todo.length) ∧ plainState st' := by
  induction todo generalizing st i with
  | nil => exact ⟨st, by cases st <;> simp [scan], hs⟩
  | cons b bs ih =>
    have l4 := NalSrc.unescFrom_length_le .postThree bs
    rcases hs with rfl | rfl | rfl | rfl
    · simp only [unescFrom] at h
      simp only [scan]
      split at h <;> rename_i hb
      · simp only [Prod.mk.injEq, List.cons.injEq, true_and] at h
        obtain ⟨st', h1, h2⟩ := ih .oneZero (Or.inr (Or.inl rfl)) (i+1) (Prod.ext h.1 h.2)
        exact ⟨st', by simp [hb, h1]; omega, h2⟩
      · simp only [Prod.mk.injEq, List.cons.injEq, true_and] at h
        obtain ⟨st', h1, h2⟩ := ih .start (Or.inl rfl) (i+1) (Prod.ext h.1 h.2)
        exact ⟨st', by simp [hb, h1]; omega, h2⟩
    · simp only [unescFrom] at h
      simp only [scan]
      split at h <;> rename_i hb
      · simp only [Prod.mk.injEq, List.cons.injEq, true_and] at h
        obtain ⟨st', h1, h2⟩ := ih .twoZero (Or.inr (Or.inr (Or.inl rfl))) (i+1) (Prod.ext h.1 h.2)
        exact ⟨st', by simp [hb, h1]; omega, h2⟩
      · simp only [Prod.mk.injEq, List.cons.injEq, true_and] at h
        obtain ⟨st', h1, h2⟩ := ih .start (Or.inl rfl) (i+1) (Prod.ext h.1 h.2)
        exact ⟨st', by simp [hb, h1]; omega, h2⟩
    · simp only [unescFrom] at h
      simp only [scan]
      split at h <;> rename_i hb
      · exfalso
        have : (unescFrom .postThree bs).1.length = (b :: bs).length := by rw [h]
        simp at this; omega
      · split at h <;> rename_i hb0
        · simp at h
        · simp only [Prod.mk.injEq, List.cons.injEq, true_and] at h
          obtain ⟨st', h1, h2⟩ := ih .start (Or.inl rfl) (i+1) (Prod.ext h.1 h.2)
          exact ⟨st', by simp [hb, hb0, h1]; omega, h2⟩
    · simp only [unescFrom] at h
      simp only [scan]
      split at h <;> rename_i hb
      · simp only [Prod.mk.injEq, List.cons.injEq, true_and] at h
        obtain ⟨st', h1, h2⟩ := ih .oneZero (Or.inr (Or.inl rfl)) (i+1) (Prod.ext h.1 h.2)
        exact ⟨st', by simp [hb, h1]; omega, h2⟩
      · split at h <;> rename_i hb3
        · simp only [Prod.mk.injEq, List.cons.injEq, true_and] at h
          obtain ⟨st', h1, h2⟩ := ih .start (Or.inl rfl) (i+1) (Prod.ext h.1 h.2)
          exact ⟨st', by simp [hb, hb3, h1]; omega, h2⟩
        · simp at h

end Rbsp

namespace Rbsp

theorem scan_skip (cl n i : Nat) (b : UInt8) (bs : List UInt8) :
    scan cl (.skip n) i (b :: bs) =
      .consumeInner (min cl n) (if n - min cl n = 0 then .start else .skip (n - min cl n)) := by
  rw [scan]

/-- **C02 (borrow rule, converse)**: when nothing has to be removed, the decoder hands back the borrowed input -/
theorem decodeNal_borrows (nal : List UInt8) (h : unesc (nal.drop 1) = (nal.drop 1, true)) :
    decodeNal nal = .ok (true, nal.drop 1) := by
  cases nal with
  | nil => simp [decodeNal, fillBuf, fuelFor, fillLoop, tryFill, Chunked.fillBuf, Chunked.rest]
  | cons hd payload =>
    simp only [List.drop_succ_cons, List.drop_zero] at h
    have hmf : (hd :: payload).length + 1 = payload.length + 2 := by simp
    -- first iteration: skip the header byte
    have t0 : tryFill (⟨⟨hd :: payload, [], true⟩, .skip 1, 0, payload.length + 2⟩ : BR) =
        (⟨⟨payload, [], true⟩, .start, 0, payload.length + 2⟩, .ok true) := by
      have hmin : min (payload.length + 1) (payload.length + 2) = payload.length + 1 := by omega
      have hk : min (payload.length + 1) 1 = 1 := by omega
      simp only [tryFill, Chunked.fillBuf, List.length_cons, hmin, List.take_succ_cons, List.drop_zero, scan_skip, hk]
      cases payload <;> simp [Chunked.consume, Chunked.nextChunk, scan_skip]
    by_cases hp : payload = []
    · subst hp
      simp [decodeNal, fillBuf, fuelFor, fillLoop, tryFill, Chunked.fillBuf, Chunked.rest, scan, Chunked.consume,
        Chunked.nextChunk]
    · -- second iteration: scan the whole payload
      rw [← unescFrom_start_eq] at h
      obtain ⟨st', hs, _⟩ := scan_noescape payload.length .start (Or.inl rfl) 0 payload h
      have t1 : tryFill (⟨⟨payload, [], true⟩, .start, 0, payload.length + 2⟩ : BR) =
          (⟨⟨payload, [], true⟩, st', payload.length, payload.length + 2⟩, .ok true) := by
        have hmin : min payload.length (payload.length + 2) = payload.length := by omega
        simp only [tryFill, Chunked.fillBuf, hp, false_and, ↓reduceIte, hmin, List.take_length, List.drop_zero, hs,
          Nat.zero_add]
      have hlen : payload.length ≠ 0 := fun hh => hp (List.length_eq_zero_iff.mp hh)
      have hfuel : fuelFor (⟨⟨hd :: payload, [], true⟩, .skip 1, 0, payload.length + 2⟩ : BR) = (2 * payload.length + 2) + 3 := by
        simp [fuelFor, Chunked.rest]; omega
      have hfill : fillBuf (⟨⟨hd :: payload, [], true⟩, .skip 1, 0, payload.length + 2⟩ : BR) =
          (⟨⟨payload, [], true⟩, st', payload.length, payload.length + 2⟩, .ok payload) := by
        unfold fillBuf
        rw [hfuel]
        simp only [fillLoop, ne_eq, not_true_eq_false, ↓reduceIte, t0, t1, hlen, not_false_eq_true, Chunked.fillBuf, hp,
          false_and, List.take_length]
      unfold decodeNal
      simp only [hmf, hfill, List.drop_succ_cons, List.drop_zero, ↓reduceIte]

/-- **C02 (one-shot decoder, complete)**: valid ⇒ the un-escaped payload, borrowed exactly when nothing was removed;
invalid ⇒ `InvalidData` -/
theorem decodeNal_eq (nal : List UInt8) :
    decodeNal nal =
      if (unesc (nal.drop 1)).2 then .ok (decide ((unesc (nal.drop 1)).1 = nal.drop 1), (unesc (nal.drop 1)).1)
      else .error .invalidData := by
  have hs := decodeNal_spec nal
  by_cases hv : (unesc (nal.drop 1)).2 = true
  · simp only [hv, ↓reduceIte] at hs ⊢
    obtain ⟨b, hb, himp⟩ := hs
    by_cases heq : (unesc (nal.drop 1)).1 = nal.drop 1
    · have hfull : unesc (nal.drop 1) = (nal.drop 1, true) := Prod.ext heq hv
      rw [decodeNal_borrows nal hfull, heq]; simp
    · rw [hb]
      cases b with
      | true => exact absurd (himp rfl) heq
      | false => simpa using heq
  · simp only [hv, Bool.false_eq_true, ↓reduceIte] at hs ⊢
    exact hs

end Rbsp
