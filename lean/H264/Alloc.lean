import H264.DecodeNalSpec
import H264.Context
import H264.Sei
import H264.PpsExact
import H264.SliceConverse
import H264.SpsRangesAll
import H264.History
import H264.Accum
/-! # Size ledger (C03, "never over-allocates"): everything a model component builds or keeps is bounded by the size of
the input it was built from, or by a constant

The Rust allocates in exactly four ways: (1) `Vec::with_capacity(n)` right after `n` has been range-checked
(SPS offsets ≤ 255, CPB entries ≤ 32, run lengths / rectangles ≤ 8 / 7, 6 + 6 scaling lists, ≤ 32 weight entries);
(2) `push` after a successful read of at least one bit (slice-group ids, list-modification operations, MMCOs);
(3) buffers that hold a copy of input bytes (`decode_nal`, the NAL accumulator, the SEI scratch buffer);
(4) the parameter-set tables indexed by a checked id. The theorems below bound the corresponding model values, for all
inputs. (Capacity growth by doubling and the allocator itself are runtime behaviour: measured, see DESIGN C03.) -/
namespace Alloc
open Bits

/-! ### (3) copies of input bytes -/

/-- un-escaping never produces more bytes than it was given, from every scanner state -/
theorem unescFrom_length_le (st : Rbsp.PS) (xs : List UInt8) : (Rbsp.unescFrom st xs).1.length ≤ xs.length := by
  induction xs generalizing st with
  | nil => cases st <;> simp [Rbsp.unescFrom]
  | cons b bs ih =>
    have h1 := ih .start; have h2 := ih .oneZero; have h3 := ih .twoZero; have h4 := ih .postThree
    cases st with
    | skip n => have h5 := ih (.skip (n - 1)); simp only [Rbsp.unescFrom]; split <;> simp only [List.length_cons] <;> omega
    | _ => simp only [Rbsp.unescFrom] <;> (repeat' split) <;> simp only [List.length_cons, List.length_nil] <;> omega

/-- `decode_nal`: the decoded RBSP is never longer than the NAL's payload (so `with_capacity(payload.len())` suffices
and the output buffer never grows beyond the input) -/
theorem decodeNal_length_le (nal : List UInt8) (b : Bool) (out : List UInt8)
    (h : Rbsp.decodeNal nal = .ok (b, out)) : out.length ≤ nal.length - 1 := by
  rw [Rbsp.decodeNal_eq] at h
  split at h
  · simp only [Except.ok.injEq, Prod.mk.injEq] at h
    rw [← h.2, ← Rbsp.unescFrom_start_eq]
    have := unescFrom_length_le .start (nal.drop 1)
    simpa using this
  · simp at h

/-- SEI `ff`-extension numbers: the value read is at most 255 per byte consumed (so the scratch buffer that
`SeiReader::next` resizes to `payload_size` *before* the payload bytes are known to be there is ≤ 255·input) -/
theorem readU32_le (name : String) (fin : IoKind) (bs : List UInt8) (acc n : Nat) (rest : List UInt8)
    (h : Sei.readU32 name fin bs acc = .ok (n, rest)) :
    n + 255 * rest.length ≤ acc + 255 * bs.length ∧ rest.length < bs.length := by
  induction bs generalizing acc with
  | nil => simp [Sei.readU32] at h
  | cons b bs ih =>
    simp only [Sei.readU32] at h
    have hb : b.toNat ≤ 255 := by have := b.toNat_lt; omega
    split at h
    · simp at h
    · split at h
      · simp only [Except.ok.injEq, Prod.mk.injEq] at h
        obtain ⟨h1, h2⟩ := h
        subst h1 h2
        simp only [List.length_cons]; omega
      · have := ih _ h
        simp only [List.length_cons]; omega

/-- a delivered SEI message: its payload and everything still unread fit in what was there, and the requested scratch
size is the payload length -/
theorem next_payload_le (r r' : Sei.Reader) (ty : Nat) (pl : List UInt8)
    (h : Sei.next r = (r', .ok (some (ty, pl)))) :
    pl.length + r'.src.bytes.length + 2 ≤ r.src.bytes.length := by
  unfold Sei.next at h
  split at h
  · simp at h
  · split at h
    · simp at h
    · rename_i ty' rest hty
      have a := readU32_le _ _ _ _ _ _ hty
      split at h
      · split at h <;> simp at h
      · split at h
        · simp at h
        · rename_i len rest2 hlen
          have c := readU32_le _ _ _ _ _ _ hlen
          split at h
          · simp at h
          · rename_i hge
            simp only [Prod.mk.injEq, Except.ok.injEq, Option.some.injEq] at h
            obtain ⟨h1, -, h3⟩ := h
            subst h1 h3
            simp only [List.length_take, List.length_drop]
            omega

/-- the scratch size requested for a message whose payload turns out to be missing is still ≤ 255·(bytes given) -/
theorem scratch_request_le (name : String) (fin : IoKind) (bs : List UInt8) (len : Nat) (rest : List UInt8)
    (h : Sei.readU32 name fin bs 0 = .ok (len, rest)) : len ≤ 255 * bs.length := by
  have := readU32_le name fin bs 0 len rest h; omega

/-- the NAL accumulator: one delivery lengthens the buffer by at most the bytes delivered -/
theorem frag_buf_le (a : Accum.Acc) (bufs : List (List UInt8)) (fin : Bool) (d : Accum.Invocation → Accum.Interest) :
    (Accum.frag a bufs fin d).1.buf.length ≤ a.buf.length + bufs.flatten.length := by
  unfold Accum.frag
  by_cases hi : a.interest ≠ .ignore
  · rw [if_pos hi]
    by_cases hb : a.buf ≠ []
    · rw [if_pos hb]
      cases fin with
      | true => simp [Accum.init]
      | false =>
        simp only [Bool.false_eq_true, ↓reduceIte, Bool.not_false]
        split <;> simp only [List.length_append] <;> omega
    · rw [if_neg hb]
      cases bufs with
      | nil => simp
      | cons b bs =>
        cases fin with
        | true => simp [Accum.init]
        | false =>
          simp only [Bool.false_eq_true, ↓reduceIte, Bool.not_false]
          split <;> simp only [List.length_append, List.flatten_cons] <;> omega
  · rw [if_neg hi]
    cases fin <;> simp [Accum.init]

/-- … so after any history the buffer holds at most the bytes delivered (`reserve(len)` + `extend_from_slice` never
exceed the input), whatever the handler answered -/
theorem acc_buffer_le_input (a : Accum.Acc) (steps : List Accum.Step) (tr : List Accum.Invocation) :
    (Accum.run a steps tr).1.buf.length ≤ a.buf.length + (steps.map fun s => s.bufs.flatten.length).sum := by
  induction steps generalizing a tr with
  | nil => simp [Accum.run]
  | cons s ss ih =>
    have h1 := frag_buf_le a s.bufs s.fin (fun _ => s.answer)
    have h2 := ih (Accum.frag a s.bufs s.fin fun _ => s.answer).1
      (match (Accum.frag a s.bufs s.fin fun _ => s.answer).2 with | some i => tr ++ [i] | none => tr)
    have hrun : Accum.run a (s :: ss) tr = Accum.run (Accum.frag a s.bufs s.fin fun _ => s.answer).1 ss
      (match (Accum.frag a s.bufs s.fin fun _ => s.answer).2 with | some i => tr ++ [i] | none => tr) := by
      rfl
    rw [hrun, List.map_cons, List.sum_cons]
    omega

/-! ### (4) parameter-set tables: `resize_with(index + 1)` with a checked index -/

theorem put_length {α} (m : Ctx.PMap α) (i : Nat) (v : α) : (Ctx.put m i v).length = max m.length (i + 1) := by
  unfold Ctx.put
  split <;> simp <;> omega

/-- after any sequence of insertions under ids below `B` (32 for SPS, 256 for PPS: both ids are range-checked by the
parsers) the table never has more than `B` slots -/
theorem table_length_le {α} (B : Nat) (ws : List (Nat × α)) (m : Ctx.PMap α) (hm : m.length ≤ B)
    (h : ∀ w ∈ ws, w.1 < B) : (ws.foldl (fun m w => Ctx.put m w.1 w.2) m).length ≤ B := by
  induction ws generalizing m with
  | nil => simpa
  | cons w ws ih =>
    simp only [List.foldl_cons]
    apply ih
    · rw [put_length]; have := h w (by simp); omega
    · intro w' hw'; exact h w' (by simp [hw'])

/-! ### (1) + (2) parsed structures: list sizes against consumed bits -/

theorem flatten_map_length_ge {α} (f : α → List Bool) (k : Nat) (xs : List α) (h : ∀ x ∈ xs, k ≤ (f x).length) :
    k * xs.length ≤ (xs.map f).flatten.length := by
  induction xs with
  | nil => simp
  | cons x xs ih =>
    have hx := h x (by simp)
    have := ih (fun y hy => h y (by simp [hy]))
    simp only [List.map_cons, List.flatten_cons, List.length_append, List.length_cons]
    rw [Nat.mul_succ]; omega

theorem groupIdBits_pos (n : Nat) (h : 1 ≤ n) : 1 ≤ Pps.groupIdBits n := by
  unfold Pps.groupIdBits; split <;> omega

/-- number of list cells of the slice-group part of a PPS -/
def sliceGroupCells : Option Pps.SliceGroup → Nat
  | some (.interleaved rl) => rl.length
  | some (.foregroundAndLeftover rs) => rs.length
  | some (.explicitAssignment _ ids) => ids.length
  | _ => 0

/-- **PPS**: whatever is accepted, the only list whose length is not bounded by a constant — the explicit slice-group
ids — has at most one entry per input bit (every id is coded with ≥ 1 bit because there are ≥ 2 groups); run
lengths ≤ 8 and rectangles ≤ 7 are exactly the `with_capacity` requests -/
theorem pps_cells_le (spsById : Nat → Option Sps.Sps) (s s' : Src) (v : Pps.Pps)
    (h : Pps.parsePps spsById s = .ok (v, s')) :
    sliceGroupCells v.sliceGroups ≤ s.bits.length + 8 ∧
    (∀ rl, v.sliceGroups = some (.interleaved rl) → rl.length ≤ 8) ∧
    (∀ rs, v.sliceGroups = some (.foregroundAndLeftover rs) → rs.length ≤ 7) ∧
    (∀ n ids, v.sliceGroups = some (.explicitAssignment n ids) → ids.length ≤ s.bits.length) := by
  obtain ⟨sp, sm, z, -, wf, hbits, -⟩ := Pps.C05_converse spsById s s' v h
  obtain ⟨-, -, hg, -⟩ := wf
  have key : ∀ n ids, v.sliceGroups = some (.explicitAssignment n ids) → ids.length ≤ s.bits.length := by
    intro n ids hv
    rw [hv] at hg
    obtain ⟨h1, -, -, -, -⟩ := hg
    have hpos := groupIdBits_pos n h1
    have hl := flatten_map_length_ge (encBits (Pps.groupIdBits n)) 1 ids (by intro x _; simp; exact hpos)
    rw [hbits]
    simp only [Pps.encPps, Pps.encSliceGroups, hv, Pps.encSliceGroup, List.length_append]
    omega
  refine ⟨?_, ?_, ?_, key⟩
  · cases hv : v.sliceGroups with
    | none => simp [sliceGroupCells]
    | some g =>
      rw [hv] at hg
      cases g with
      | interleaved rl => have := hg.2.1; simp [sliceGroupCells]; omega
      | foregroundAndLeftover rs => have := hg.2.1; simp [sliceGroupCells]; omega
      | explicitAssignment n ids => have := key n ids hv; simp [sliceGroupCells]; omega
      | dispersed n => simp [sliceGroupCells]
      | changing t n d r => simp [sliceGroupCells]
  · intro rl hv; rw [hv] at hg; exact hg.2.1
  · intro rs hv; rw [hv] at hg; exact hg.2.1

open Slice in
def modCells : Slice.RefPicListMods → Nat
  | .I => 0 | .P a => a.length | .B a b => a.length + b.length
open Slice in
def markCells : Option Slice.DecRefPicMarking → Nat
  | some (.adaptive ops) => ops.length | _ => 0

open Slice in
theorem encModOp_pos (o : ModOp) : 1 ≤ (encModOp o).length := by
  cases o <;> simp only [encModOp, List.length_append] <;> (have := encUe_length_pos 0; have := encUe_length_pos 1; have := encUe_length_pos 2; omega)
open Slice in
theorem encMmco_pos (o : Mmco) : 1 ≤ (encMmco o).length := by
  cases o <;> simp only [encMmco, List.length_append] <;>
    (have := encUe_length_pos 1; have := encUe_length_pos 2; have := encUe_length_pos 3; have := encUe_length_pos 4
     have := encUe_length_pos 5; have := encUe_length_pos 6; omega)

open Slice in
theorem modList_le (ops : List ModOp) (lf : Bool) : ops.length ≤ (encModListAlt ops lf).length := by
  unfold encModListAlt
  split
  · rename_i h; simp [h.1]
  · have := flatten_map_length_ge encModOp 1 ops (fun o _ => encModOp_pos o)
    simp only [List.length_append]; omega

open Slice in
theorem mods_le (alt : ModAlt) (m : RefPicListMods) : modCells m ≤ (encRefPicListModsAlt alt m).length := by
  cases m with
  | I => simp [modCells]
  | P a => simpa [modCells, encRefPicListModsAlt] using modList_le a alt.l0
  | B a b =>
    have := modList_le a alt.l0; have := modList_le b alt.l1
    simp only [modCells, encRefPicListModsAlt, List.length_append]; omega

open Slice in
theorem marking_le (hdr : NalHdr) (h : SliceHeader) (hwf : hdr.nalRefIdc = 0 → h.decRefPicMarking = none) :
    markCells h.decRefPicMarking ≤ (encMarkingOpt hdr h).length := by
  unfold encMarkingOpt
  by_cases h0 : hdr.nalRefIdc = 0
  · simp [h0, hwf h0, markCells]
  · simp only [h0, ↓reduceIte]
    cases hm : h.decRefPicMarking with
    | none => simp [markCells]
    | some m =>
      cases m with
      | adaptive ops =>
        have := flatten_map_length_ge encMmco 1 ops (fun o _ => encMmco_pos o)
        simp only [markCells, encDecRefPicMarking, List.length_append]; omega
      | idr a b => simp [markCells]
      | slidingWindow => simp [markCells]

/-- **slice header**: the two lists that grow by `push` inside `do … while` loops — reference-list modification
operations and memory-management control operations — have together at most one entry per header bit consumed
(so the loops also make at most that many iterations on every accepted input). Context hypothesis: the PPS found
under `pid` carries that id (true of every reachable context, `History.reachable_inv`). -/
theorem slice_cells_le (ctx : Slice.Ctx) (hdr : Slice.NalHdr) (s s' : Src) (h : Slice.SliceHeader) (sid pid : Nat)
    (hok : Slice.parseSliceHeader ctx hdr s = .ok ((h, sid, pid), s'))
    (hctx : ∀ p, ctx.pps pid = some p → p.ppsId = pid) :
    modCells h.refPicListModification + markCells h.decRefPicMarking + s'.bits.length ≤ s.bits.length := by
  obtain ⟨pps, sps, x, alt, hp, -, -, -, hbits, -, -, hwf⟩ := Slice.C06_converse ctx hdr s s' h sid pid hok
  have wf := hwf (hctx pps hp)
  have hm := mods_le alt h.refPicListModification
  have hk := marking_le hdr h (by intro h0; have := wf.marking; simpa [h0] using this)
  rw [hbits]
  simp only [Slice.encSliceHeaderAlt, List.length_append]
  omega

/-- the same for every context reachable by feeding parameter sets -/
theorem slice_cells_le_reachable (ops : List History.Op) (hdr : Slice.NalHdr) (s s' : Src) (h : Slice.SliceHeader)
    (sid pid : Nat)
    (hok : Slice.parseSliceHeader (History.sctx (History.run ops)) hdr s = .ok ((h, sid, pid), s')) :
    modCells h.refPicListModification + markCells h.decRefPicMarking + s'.bits.length ≤ s.bits.length :=
  slice_cells_le _ hdr s s' h sid pid hok (fun p hp => ((History.reachable_inv ops).2 pid p hp).1)

/-- **SPS**: every list of an accepted SPS is bounded by a constant — the `with_capacity` requests 255 (reference
frame offsets), 32 (CPB entries per HRD), 6 and 6 / 2 (scaling lists) are the checked counts -/
theorem sps_cells_const (s s' : Src) (v : Sps.Sps) (h : Sps.parseSps s = .ok (v, s')) :
    (∀ f a b offs, v.picOrderCnt = .typeOne f a b offs → offs.length ≤ 255) ∧
    (∀ u hrd, v.vui = some u → (u.nalHrd = some hrd ∨ u.vclHrd = some hrd) → hrd.cpbSpecs.length ≤ 32) ∧
    (∀ m, v.chromaInfo.scalingMatrix = some m → m.l4x4.length = 6 ∧ m.l8x8.length ≤ 6) := by
  obtain ⟨core, -, -, hm, -⟩ := Sps.parseSps_ranges_all s s' v h
  obtain ⟨-, -, -, -, -, hpoc, -, -, -, -, hvui⟩ := core
  refine ⟨?_, ?_, ?_⟩
  · intro f a b offs hv; rw [hv] at hpoc; exact hpoc.2.2.1
  · intro u hrd hu hh
    rw [hu] at hvui
    obtain ⟨-, -, -, -, hn, hvc, -⟩ := hvui
    rcases hh with hh | hh
    · rw [hh] at hn; exact hn.2.2.2.1
    · rw [hh] at hvc; exact hvc.2.2.2.1
  · intro m hmm
    obtain ⟨h4, h8⟩ := hm m hmm
    refine ⟨h4, ?_⟩
    rw [h8]; split <;> omega

end Alloc
