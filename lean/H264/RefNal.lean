import H264.RbspProofs2
/-! Prototype for C15: `RefNalReader` as `Read + BufRead` over head + tail chunks -/
namespace Rbsp
namespace Chunked

/-- `Read::read` into a buffer of length `n` -/
def read (c : Chunked) (n : Nat) : Chunked × Except IoKind (List UInt8) :=
  if n = 0 then (c, .ok [])
  else if c.cur = [] ∧ c.complete = false then (c, .error .wouldBlock)
  else if n < c.cur.length then ({ c with cur := c.cur.drop n }, .ok (c.cur.take n))
  else (c.nextChunk, .ok c.cur)

inductive Op | fill | consume (k : Nat) | read (n : Nat) | clone
  
/-- run a program; `delivered` accumulates the bytes handed out by `read`/`consume` -/
def runOps : Chunked → List Op → List UInt8 → Chunked × List UInt8
  | c, [], d => (c, d)
  | c, .fill :: ops, d => runOps c ops d
  | c, .clone :: ops, d => runOps c ops d          -- a clone is the same value
  | c, .consume k :: ops, d =>
      if k ≤ c.cur.length then runOps (c.consume k) ops (d ++ c.cur.take k) else (c, d)
  | c, .read n :: ops, d =>
      match (c.read n).2 with
      | .ok bs => runOps (c.read n).1 ops (d ++ bs)
      | .error _ => runOps (c.read n).1 ops d

theorem nextChunk_spec (c : Chunked) (hwf : c.WF) :
    c.nextChunk.WF ∧ c.nextChunk.rest = c.tail.flatten ∧ c.nextChunk.complete = c.complete := by
  obtain ⟨hne, _⟩ := hwf
  unfold nextChunk
  cases ht : c.tail with
  | nil => simp [WF, rest, ht]
  | cons t ts =>
    have htne : t ≠ [] := hne t (by simp [ht])
    refine ⟨⟨fun t' h' => hne t' (by simp [ht, h']), fun h => absurd h htne⟩, by simp [rest], rfl⟩

theorem read_spec (c : Chunked) (hwf : c.WF) (n : Nat) :
    (c.read n).1.WF ∧ (c.read n).1.complete = c.complete ∧
    (match (c.read n).2 with
     | .ok bs => bs ++ (c.read n).1.rest = c.rest ∧ bs.length ≤ n ∧
          (bs = [] → n = 0 ∨ (c.rest = [] ∧ c.complete = true))
     | .error .wouldBlock => (c.read n).1 = c ∧ c.rest = [] ∧ c.complete = false ∧ n ≠ 0
     | .error _ => False) := by
  by_cases h0 : n = 0
  · have heq : c.read n = (c, .ok []) := by unfold read; simp [h0]
    rw [heq]; exact ⟨hwf, rfl, by simp, by simp, fun _ => Or.inl h0⟩
  · by_cases hwb : c.cur = [] ∧ c.complete = false
    · have heq : c.read n = (c, .error .wouldBlock) := by unfold read; simp [h0, hwb]
      rw [heq]
      have ht : c.tail = [] := hwf.2 hwb.1
      exact ⟨hwf, rfl, rfl, by simp [rest, hwb.1, ht], hwb.2, h0⟩
    · by_cases hlt : n < c.cur.length
      · have heq : c.read n = ({ c with cur := c.cur.drop n }, .ok (c.cur.take n)) := by
          unfold read; simp [h0, hwb, hlt]
        rw [heq]
        have hne : c.cur.drop n ≠ [] := by
          intro h; have := List.drop_eq_nil_iff.mp h; omega
        refine ⟨⟨hwf.1, fun h => absurd h hne⟩, rfl, ?_, ?_, ?_⟩
        · simp [rest, ← List.append_assoc, List.take_append_drop]
        · rw [List.length_take]; omega
        · intro h; have := List.take_eq_nil_iff.mp h
          rcases this with h | h
          · exact absurd h h0
          · rw [h] at hlt; simp at hlt
      · have heq : c.read n = (c.nextChunk, .ok c.cur) := by
          unfold read; simp [h0, hwb, hlt]
        rw [heq]
        obtain ⟨n1, n2, n3⟩ := nextChunk_spec c hwf
        refine ⟨n1, n3, ?_, by omega, ?_⟩
        · rw [n2]; rfl
        · intro h
          right
          have ht : c.tail = [] := hwf.2 h
          refine ⟨by simp [rest, h, ht], ?_⟩
          cases hc : c.complete with
          | true => rfl
          | false => exact absurd ⟨h, hc⟩ hwb

/-- **C15**: any interleaving of `read`/`fill_buf`/`consume`/`clone` delivers the concatenation of the chunks,
each byte once and in order -/
theorem runOps_spec (c : Chunked) (hwf : c.WF) (ops : List Op) (d : List UInt8) :
    (runOps c ops d).1.WF ∧ (runOps c ops d).2 ++ (runOps c ops d).1.rest = d ++ c.rest ∧
    (runOps c ops d).1.complete = c.complete := by
  induction ops generalizing c d with
  | nil => simp [runOps, hwf]
  | cons op ops ih =>
    cases op with
    | fill => simpa [runOps] using ih c hwf d
    | clone => simpa [runOps] using ih c hwf d
    | consume k =>
      simp only [runOps]
      by_cases hk : k ≤ c.cur.length
      · simp only [hk, ↓reduceIte]
        obtain ⟨c1, c2, c3⟩ := consume_rest c k hwf hk
        obtain ⟨i1, i2, i3⟩ := ih (c.consume k) c2 (d ++ c.cur.take k)
        refine ⟨i1, ?_, i3.trans c3⟩
        rw [i2, c1, List.append_assoc]
        congr 1
        simp only [rest]
        rw [List.drop_append_of_le_length hk, ← List.append_assoc, List.take_append_drop]
      · simp [hk, hwf]
    | read n =>
      obtain ⟨r1, r2, r3⟩ := read_spec c hwf n
      simp only [runOps]
      cases hres : (c.read n).2 with
      | ok bs =>
        rw [hres] at r3
        simp only
        obtain ⟨i1, i2, i3⟩ := ih (c.read n).1 r1 (d ++ bs)
        exact ⟨i1, by rw [i2, List.append_assoc, r3.1], i3.trans r2⟩
      | error k =>
        rw [hres] at r3
        simp only
        obtain ⟨i1, i2, i3⟩ := ih (c.read n).1 r1 d
        cases k with
        | wouldBlock => rw [r3.1] at i1 i2 i3 ⊢; exact ⟨i1, i2, i3⟩
        | eof => exact absurd r3 id
        | invalidData => exact absurd r3 id

/-- end behaviour: complete ⇒ end of data (repeatedly); incomplete ⇒ `WouldBlock`, never end of data -/
theorem fillBuf_at_end (c : Chunked) (hwf : c.WF) (h : c.rest = []) :
    c.fillBuf = (if c.complete then .ok [] else .error .wouldBlock) := by
  have hc : c.cur = [] := by
    simp only [rest, List.append_eq_nil_iff] at h; exact h.1
  unfold fillBuf; cases c.complete <;> simp [hc]

theorem fillBuf_nonempty (c : Chunked) (hwf : c.WF) (h : c.rest ≠ []) :
    c.fillBuf = .ok c.cur ∧ c.cur ≠ [] := by
  have hc : c.cur ≠ [] := by
    intro hc; apply h; simp [rest, hc, hwf.2 hc]
  unfold fillBuf; simp [hc]

#print axioms runOps_spec
end Chunked
end Rbsp
