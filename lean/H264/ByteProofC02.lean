import H264.ByteProof
/-! theorems of `ByteProof` that belong to C02 (a module of their own, so that a broken table or row of another property does not
take this property's module down with it) -/
namespace ByteProof


theorem decodeNal_model_eq_code : (words [0x00, 0x01, 0x03, 0x04]).map decodeRow = Generated.decodeNalRows := by
  decide +kernel

theorem byteReader_model_eq_code : (words [0x00, 0x01, 0x03, 0x04]).map drainRow = Generated.rbspDrainRows := by
  decide +kernel

end ByteProof
