import H264.SeiScratch
import H264.GeneratedSmall
/-! the SEI reader on a complete small domain (C10) -/
namespace SmallProof

def wordsOf4 (alpha : List Nat) : Nat → List (List Nat)
  | 0 => [[]]
  | n+1 => alpha.flatMap fun a => (wordsOf4 alpha n).map (a :: ·)
def words4 (alpha : List Nat) : List (List Nat) := (List.range 6).flatMap (wordsOf4 alpha)

/-- run the reader (with its scratch vector, as the driver does) until it has reported the end / an error three times -/
def seiRun : Nat → Nat → Sei.Reader → List UInt8 → List (List Nat)
  | 0, _, _, _ => []
  | fuel+1, extra, r, sc =>
    if extra ≥ 3 then [] else
    match Sei.nextS r sc with
    | (r', .ok (some m), sc') => (1 :: m.1 :: m.2.length :: m.2.map (·.toNat)) :: seiRun fuel extra r' sc'
    | (r', .ok none, sc') => [0] :: seiRun fuel (extra + 1) r' sc'
    | (r', .error e, sc') => [2, (match e with | .io _ .eof => 2 | _ => 3)] :: seiRun fuel (extra + 1) r' sc'

def seiRow (w : List Nat) : List (List Nat) :=
  seiRun 12 0 ⟨⟨w.map UInt8.ofNat, .eof⟩, 0, false⟩ [0xAA, 0xAA, 0xAA]

/-- model `Sei.nextS` = real `SeiReader::next` on every RBSP of length 0…5 over {00, 01, 80, ff} (1 365 inputs): every message (type,
length, payload), the end, every error class, and that the reader stays ended afterwards -/
theorem sei_model_eq_code : (words4 [0x00, 0x01, 0x80, 0xff]).map seiRow = Generated.seiRows := by decide +kernel

end SmallProof
