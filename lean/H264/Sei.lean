import H264.Bits
/-! Prototype for C10: `SeiReader::next` over the drained RBSP bytes -/
namespace Sei
open Bits

structure BSrc where
  bytes : List UInt8
  fin : IoKind
deriving DecidableEq, Repr

/-- `read_u32`: sum of 0xFF bytes plus the first non-0xFF byte, with `checked_add` -/
def readU32 (name : String) (fin : IoKind) : List UInt8 → Nat → Except Err (Nat × List UInt8)
  | [], _ => .error (.io name fin)
  | b :: bs, acc =>
    let acc' := acc + b.toNat
    if acc' ≥ 4294967296 then .error (.io name .invalidData)
    else if b ≠ 0xFF then .ok (acc', bs)
    else readU32 name fin bs acc'

structure Reader where
  src : BSrc
  payloadsSeen : Nat
  done : Bool
deriving DecidableEq, Repr

abbrev Msg := Nat × List UInt8

def next (r : Reader) : Reader × Except Err (Option Msg) :=
  if r.done then (r, .ok none) else
  let rd := { r with done := true }
  match readU32 "payload_type" r.src.fin r.src.bytes 0 with
  | .error e => (rd, .error e)
  | .ok (ty, rest) =>
    -- a 0x80 that is not the first payload may be the trailing bits: check for EOF
    if ty = 0x80 ∧ r.payloadsSeen > 0 ∧ rest = [] then
      (if r.src.fin = .eof then (rd, .ok none) else (rd, .error (.io "payload_type" r.src.fin)))
    else
    match readU32 "payload_len" r.src.fin rest 0 with
    | .error e => (rd, .error e)
    | .ok (len, rest2) =>
      if rest2.length < len then (rd, .error (.io "payload" r.src.fin))
      else ({ src := ⟨rest2.drop len, r.src.fin⟩, payloadsSeen := r.payloadsSeen + 1, done := false },
            .ok (some (ty, rest2.take len)))

/-! ### the standard's sei_message framing (7.3.2.3.1) -/
def encU32 (n : Nat) : List UInt8 := List.replicate (n / 255) 0xFF ++ [UInt8.ofNat (n % 255)]
def encMsg (m : Msg) : List UInt8 := encU32 m.1 ++ encU32 m.2.length ++ m.2
def encSei (ms : List Msg) : List UInt8 := (ms.map encMsg).flatten ++ [0x80]

theorem readU32_enc (name fin) (n acc : Nat) (h : acc + n < 4294967296) (rest : List UInt8) :
    readU32 name fin (encU32 n ++ rest) acc = .ok (acc + n, rest) := by
  induction hq : n / 255 generalizing n acc with
  | zero =>
    have hn : n < 255 := by omega
    have hmod : n % 255 = n := Nat.mod_eq_of_lt hn
    have hb : (UInt8.ofNat n).toNat = n := by
      simp [UInt8.toNat_ofNat]; omega
    have hne : UInt8.ofNat n ≠ 0xFF := by
      intro h'; have := congrArg UInt8.toNat h'; rw [hb] at this; simp at this; omega
    simp [encU32, hq, hmod, readU32, hb, hne]; omega
  | succ q ih =>
    have hn : n ≥ 255 := by omega
    have hq' : (n - 255) / 255 = q := by omega
    have := ih (n - 255) (acc + 255) (by omega) hq'
    have henc : encU32 n = 0xFF :: encU32 (n - 255) := by
      unfold encU32
      have h1 : n / 255 = (n - 255) / 255 + 1 := by omega
      have h2 : n % 255 = (n - 255) % 255 := by omega
      rw [h1, h2, List.replicate_succ]; simp
    rw [henc]
    have h255 : (0xFF : UInt8).toNat = 255 := by decide
    have hlt : ¬ (acc + (0xFF : UInt8).toNat ≥ 4294967296) := by rw [h255]; omega
    simp only [List.cons_append, readU32, hlt, ↓reduceIte, ne_eq, not_true_eq_false]
    rw [h255, this]
    have he : acc + 255 + (n - 255) = acc + n := by omega
    rw [he]

end Sei

namespace Sei
open Bits

theorem encU32_ne_nil (n : Nat) : encU32 n ≠ [] := by simp [encU32]

def Msg.WF (m : Msg) : Prop := m.1 < 4294967296 ∧ m.2.length < 4294967296

/-- one message is returned exactly, wherever it stands in the NAL (also a type-128 message) -/
theorem next_msg (m : Msg) (wf : m.WF) (tl : List UInt8) (seen : Nat) :
    next ⟨⟨encMsg m ++ tl, .eof⟩, seen, false⟩ = (⟨⟨tl, .eof⟩, seen + 1, false⟩, .ok (some m)) := by
  obtain ⟨ty, pl⟩ := m
  obtain ⟨h1, h2⟩ := wf
  simp only at h1 h2
  have e1 := readU32_enc "payload_type" .eof ty 0 (by omega) (encU32 pl.length ++ pl ++ tl)
  have e2 := readU32_enc "payload_len" .eof pl.length 0 (by omega) (pl ++ tl)
  simp only [Nat.zero_add] at e1 e2
  obtain ⟨c, cs, hc⟩ := List.exists_cons_of_ne_nil (encU32_ne_nil pl.length)
  have hne : encU32 pl.length ++ pl ++ tl ≠ [] := by simp [hc]
  unfold next
  simp only [Bool.false_eq_true, ↓reduceIte, encMsg, List.append_assoc] at e1 e2 ⊢
  rw [e1]
  simp only [List.append_assoc] at hne
  simp only [hne, and_false, ↓reduceIte]
  rw [e2]
  simp

/-- the trailing-bits byte after at least one message ends the sequence … -/
theorem next_end (seen : Nat) (h : seen > 0) :
    next ⟨⟨[0x80], .eof⟩, seen, false⟩ = (⟨⟨[0x80], .eof⟩, seen, true⟩, .ok none) := by
  simp [next, readU32, h]

/-- … and from then on (also after any error) every call reports the end -/
theorem next_done (r : Reader) (h : r.done = true) : next r = (r, .ok none) := by
  simp [next, h]

theorem next_sets_done_on_failure (r : Reader) (hd : r.done = false) :
    (∃ m, (next r).2 = .ok (some m) ∧ (next r).1.done = false) ∨ (next r).1.done = true := by
  unfold next
  simp only [hd, Bool.false_eq_true, ↓reduceIte]
  split
  · right; rfl
  · split
    · right; split <;> rfl
    · split
      · right; rfl
      · split
        · right; rfl
        · left; exact ⟨_, rfl, rfl⟩

/-- read everything: the messages in order, then the end -/
def readAll : Nat → Reader → List Msg → List Msg × Except Err Unit
  | 0, _, acc => (acc, .ok ())
  | fuel+1, r, acc =>
    match next r with
    | (_, .error e) => (acc, .error e)
    | (_, .ok none) => (acc, .ok ())
    | (r', .ok (some m)) => readAll fuel r' (acc ++ [m])

/-- **C10 (round trip)**: the reader returns exactly the encoded messages, in order, then the end -/
theorem C10_roundtrip (ms : List Msg) (wf : ∀ m ∈ ms, m.WF) (seen : Nat) (hs : seen > 0 ∨ ms ≠ []) (acc : List Msg) :
    readAll (ms.length + 1) ⟨⟨(ms.map encMsg).flatten ++ [0x80], .eof⟩, seen, false⟩ acc = (acc ++ ms, .ok ()) := by
  induction ms generalizing seen acc with
  | nil =>
    have : seen > 0 := by rcases hs with h | h; exact h; exact absurd rfl h
    simp [readAll, next_end seen this]
  | cons m ms ih =>
    have hm := next_msg m (wf m (by simp)) ((ms.map encMsg).flatten ++ [0x80]) seen
    simp only [List.map_cons, List.flatten_cons, List.append_assoc, List.length_cons] at hm ⊢
    rw [readAll, hm]
    simp only
    rw [ih (fun x hx => wf x (by simp [hx])) (seen + 1) (Or.inl (by omega)) (acc ++ [m])]
    simp

#print axioms C10_roundtrip
end Sei

namespace Sei
open Bits

/-- a type or size whose 0xFF-extension sum does not fit 32 bits is an error, never a wrapped value -/
theorem readU32_overflow (name fin) (bs : List UInt8) (acc : Nat) (h : acc < 4294967296) :
    match readU32 name fin bs acc with
    | .ok (v, _) => v < 4294967296
    | .error _ => True := by
  induction bs generalizing acc with
  | nil => simp [readU32]
  | cons b bs ih =>
    simp only [readU32]
    by_cases hov : acc + b.toNat ≥ 4294967296
    · simp [hov]
    · simp only [hov, ↓reduceIte]
      by_cases hff : b ≠ 0xFF
      · simp only [hff, ne_eq, not_false_eq_true, ↓reduceIte]; omega
      · simp only [hff, ↓reduceIte]; exact ih _ (by omega)

/-- a payload running past the data is an error, and the reader is then finished -/
theorem next_truncated (ty len : Nat) (hty : ty < 4294967296) (hlen : len < 4294967296)
    (pl : List UInt8) (hshort : pl.length < len) (seen : Nat) (fin : IoKind) :
    next ⟨⟨encU32 ty ++ encU32 len ++ pl, fin⟩, seen, false⟩ =
      (⟨⟨encU32 ty ++ encU32 len ++ pl, fin⟩, seen, true⟩, .error (.io "payload" fin)) := by
  have e1 := readU32_enc "payload_type" fin ty 0 (by omega) (encU32 len ++ pl)
  have e2 := readU32_enc "payload_len" fin len 0 (by omega) pl
  simp only [Nat.zero_add] at e1 e2
  obtain ⟨c, cs, hc⟩ := List.exists_cons_of_ne_nil (encU32_ne_nil len)
  have hne : encU32 len ++ pl ≠ [] := by simp [hc]
  unfold next
  simp only [Bool.false_eq_true, ↓reduceIte, List.append_assoc]
  rw [e1]
  simp only [hne, and_false, ↓reduceIte]
  rw [e2]
  simp [hshort]

#print axioms next_truncated
end Sei
