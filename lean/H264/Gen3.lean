import H264.Gen2
import H264.Render3
import H264.SeiPayloadsFwd
/-! Lean-side generator for pic_timing / buffering_period payloads (Annex D encoders of `SeiPayloadsFwd`) -/
namespace Gen
open Sps Bits SeiPayload

def genSmh (full : Bool) : G SecMinHour := do
  if full then (do pure (.smh (← nat 64) (← nat 64) (← nat 32)))
  else do
    let k ← nat 4
    if k = 0 then pure .none else if k = 1 then (do pure (.s (← nat 64)))
    else if k = 2 then (do pure (.sm (← nat 64) (← nat 64))) else (do pure (.smh (← nat 64) (← nat 64) (← nat 32)))

def genClock (tol : Nat) : G ClockSyn := do
  let present ← nat 4
  if present = 0 then return none
  let full ← flag
  let smh ← genSmh full
  let off ← if tol = 0 then pure none else (do
    let k ← nat 4
    let half : Int := 2 ^ (tol - 1)
    if k = 0 then pure (some (-half)) else if k = 1 then pure (some (half - 1)) else if k = 2 then pure (some (-1 : Int))
    else (do let v ← nat (2 ^ tol); pure (some ((v : Int) - half))))
  pure (some (⟨← nat 4, ← flag, ← nat 32, ← flag, ← flag, ← nat 256, smh, off⟩, full))

def genPicTiming (s : Sps.Sps) : G PicTimingSyn := do
  let delays ← match delayHrd s with
    | some h => do pure (some (← nat (2 ^ (h.cpbRemovalDelayLengthMinus1 + 1)), ← nat (2 ^ (h.dpbOutputDelayLengthMinus1 + 1))))
    | none => pure none
  let ps ← if picStructPresent s then (do
      let p ← (do let k ← nat 10; if k = 0 then pick [9, 15] else nat 9)
      let cts ← listOf (numClockTs p) (genClock (timeOffsetLength s))
      pure (some (p, cts))) else pure none
  pure ⟨delays, ps⟩

def genBp (s : Sps.Sps) : G BufferingPeriod := do
  let one (h : Option Hrd) : G (Option (List InitialCpbRemoval)) := match h with
    | none => pure none
    | some h => do
      let w := 2 ^ (h.initialCpbRemovalDelayLengthMinus1 + 1)
      pure (some (← listOf h.cpbSpecs.length (do pure (⟨← nat w, ← nat w⟩ : InitialCpbRemoval))))
  pure ⟨← one (nalHrdOf s), ← one (vclHrdOf s)⟩

/-- payload bits: byte aligned as they are, or with the `1 0*` alignment bits -/
def sealPayload (bits : List Bool) : G (List Bool) := do
  let f ← flag
  if bits.length % 8 = 0 ∧ f then pure bits else pure (padBits (bits ++ trailing 0) 0)

/-- `reset`, an SPS with VUI, then pic_timing and buffering_period payloads against it, each with the expected text -/
def seiGroup : G (List String) := do
  let (sv0, ssm) ← genSps
  let vui ← genVui sv0.maxNumRefFrames
  let sv := { sv0 with vui := some vui, spsId := ← pick [0, 1, 31] }
  let sbits := padBits (encSps sv ssm ++ trailing 0) 0
  let shex := hexOfNats (bytesOfBits sbits)
  let mut lines := ["reset", s!"sps {shex} | Ok({Render.sps sv})"]
  for _ in List.range 2 do
    let p ← genPicTiming sv
    let bits ← sealPayload (encPicTiming sv p)
    let ok := match readPicTiming sv ⟨bits, .eof⟩ with | .ok (v, _) => decide (v = p.value) | .error _ => false
    if ok then lines := lines ++ [s!"pt {shex} {hexOfNats (bytesOfBits bits)} | {Render.ptObs p.value}"]
    let b ← genBp sv
    let bbits ← sealPayload (encBufferingPeriod sv b)
    let okb := match readBufferingPeriod (fun i => if i = sv.spsId then some sv else none) ⟨bbits, .eof⟩ with
      | .ok (v, _) => decide (v = b) | .error _ => false
    if okb then lines := lines ++ [s!"bp {hexOfNats (bytesOfBits bbits)} | Ok({Render.renderBp b})"]
  pure lines

end Gen
