import H264.NalSrc
import H264.Slice
import H264.Sei
import H264.Context
import H264.GeneratedSmall
/-! definitions shared by the C17 (prefixes) and C12 (stream) small-domain statements; no theorem here -/
namespace SmallProof
open Bits

def nalBytes (k : Nat) : List UInt8 := (Generated.prefixNals.getD k []).map UInt8.ofNat

def errCls : Err → Nat × Nat
  | .io _ .wouldBlock => (2, 0)
  | _ => (0, 0)

def seiCount : Nat → Sei.Reader → Nat → Nat × Nat
  | 0, _, k => (0, k)
  | fuel+1, r, k =>
    match Sei.next r with
    | (r', .ok (some _)) => seiCount fuel r' (k + 1)
    | (_, .ok none) => (1, k)
    | (_, .error (.io _ .wouldBlock)) => (2, k)
    | (_, .error _) => (0, k)

/-- the model context: the complete SPS and PPS NAL units parsed by the model parsers -/
def prefixCtx : Slice.Ctx :=
  match Sps.parseSps (NalSrc.srcOfNal [nalBytes 0] true) with
  | .error _ => ⟨fun _ => none, fun _ => none⟩
  | .ok (s, _) =>
    let sm := Ctx.put [] s.spsId s
    match Pps.parsePps (Ctx.get sm) (NalSrc.srcOfNal [nalBytes 1] true) with
    | .error _ => ⟨Ctx.get sm, fun _ => none⟩
    | .ok (p, _) => ⟨Ctx.get sm, Ctx.get (Ctx.put [] p.ppsId p)⟩

def prefixRow (kind len : Nat) : Nat × Nat :=
  let nal := nalBytes kind
  let complete := len = nal.length
  let src := NalSrc.srcOfNal [nal.take len] complete
  match kind with
  | 0 => (match Sps.parseSps src with | .ok (s, _) => (1, s.spsId) | .error e => errCls e)
  | 1 => (match Pps.parsePps prefixCtx.sps src with | .ok (p, _) => (1, p.ppsId) | .error e => errCls e)
  | 2 => (match Slice.parseSliceHeader prefixCtx ⟨1, 1⟩ src with | .ok ((h, _, _), _) => (1, h.frameNum) | .error e => errCls e)
  | _ =>
    let d := NalSrc.drain (NalSrc.rbspBytes [nal.take len] complete)
    seiCount (d.1.length + 4) ⟨⟨d.1, NalSrc.kindOf d.2⟩, 0, false⟩ 0

end SmallProof
