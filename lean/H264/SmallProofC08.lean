import H264.SmallProof
namespace SmallProof
/-- model `Accum.frag` = real `NalAccumulator::nal_fragment` on every sequence of up to three deliveries (five shapes × two answers):
which deliveries invoke the handler, with which bytes and which completeness flag -/
theorem acc_model_eq_code : (allSeqs 10).map accRow = Generated.accRows := by decide +kernel
end SmallProof
