import H264.Rbsp
namespace Rbsp

/-- soundness statement for one run of the scanning loop -/
def ScanSound (st : PS) (i : Nat) (todo after : List UInt8) : ScanRes → Prop
  | .done st' i' => ∃ k, k ≤ todo.length ∧ i' = i + k ∧
      unescFrom st (todo ++ after) =
        (todo.take k ++ (unescFrom st' (todo.drop k ++ after)).1, (unescFrom st' (todo.drop k ++ after)).2)
  | .invalid st' i' => ∃ k, k ≤ todo.length ∧ i' = i + k ∧
      unescFrom st (todo ++ after) = (todo.take k, false) ∧
      unescFrom st' (todo.drop k ++ after) = ([], false)
  | .consumeInner _ _ => todo ≠ [] ∧ ((∃ n, st = .skip n) ∨ st = .three)

/-- lifting a result for the tail through one emitted byte -/
theorem ScanSound.cons {st st1 : PS} {i : Nat} {b : UInt8} {bs after : List UInt8} {res : ScanRes}
    (hu : unescFrom st (b :: bs ++ after) =
      (b :: (unescFrom st1 (bs ++ after)).1, (unescFrom st1 (bs ++ after)).2))
    (h1 : (∀ n, st1 ≠ .skip n) ∧ st1 ≠ .three)
    (h : ScanSound st1 (i+1) bs after res) : ScanSound st i (b :: bs) after res := by
  cases res with
  | done st' i' =>
    obtain ⟨k, hk, hi, he⟩ := h
    refine ⟨k+1, by simp; omega, by omega, ?_⟩
    simp only [List.cons_append, List.take_succ_cons, List.drop_succ_cons] at hu ⊢
    rw [hu, he]
  | invalid st' i' =>
    obtain ⟨k, hk, hi, he, he2⟩ := h
    refine ⟨k+1, by simp; omega, by omega, ?_, ?_⟩
    · simp only [List.cons_append, List.take_succ_cons] at hu ⊢
      rw [hu, he]
    · simpa using he2
  | consumeInner k st' =>
    obtain ⟨_, h⟩ := h
    rcases h with ⟨n, hn⟩ | h3
    · exact absurd hn (h1.1 n)
    · exact absurd h3 h1.2

theorem scan_sound (chunkLen : Nat) (st : PS) (i : Nat) (todo after : List UInt8) :
    ScanSound st i todo after (scan chunkLen st i todo) := by
  induction todo generalizing st i with
  | nil =>
    cases st <;> simp [scan, ScanSound]
  | cons b bs ih =>
    cases st with
    | start =>
      simp only [scan]
      split
      · exact ScanSound.cons (by simp [unescFrom, *]) (by simp) (ih _ _)
      · exact ScanSound.cons (by simp [unescFrom, *]) (by simp) (ih _ _)
    | oneZero =>
      simp only [scan]
      split
      · exact ScanSound.cons (by simp [unescFrom, *]) (by simp) (ih _ _)
      · exact ScanSound.cons (by simp [unescFrom, *]) (by simp) (ih _ _)
    | twoZero =>
      simp only [scan]
      split
      · -- b = 3: break with state Three, i unchanged
        refine ⟨0, by simp, by simp, ?_⟩
        simp [unescFrom, *]
      · split
        · refine ⟨0, by simp, by simp, ?_, ?_⟩ <;> simp [unescFrom, *]
        · exact ScanSound.cons (by simp [unescFrom, *]) (by simp) (ih _ _)
    | skip n => simp [scan, ScanSound]
    | three => simp [scan, ScanSound]
    | postThree =>
      simp only [scan]
      split
      · exact ScanSound.cons (by simp [unescFrom, *]) (by simp) (ih _ _)
      · split
        · exact ScanSound.cons (by simp [unescFrom, *]) (by simp) (ih _ _)
        · refine ⟨0, by simp, by simp, ?_, ?_⟩ <;> simp [unescFrom, *]


def PS.isSkip : PS → Bool | .skip _ => true | _ => false

theorem scan_done_mono (cl : Nat) (st : PS) (i : Nat) (todo : List UInt8) (st' : PS) (i' : Nat)
    (h : scan cl st i todo = .done st' i') : i ≤ i' := by
  induction todo generalizing st i with
  | nil => cases st <;> simp [scan] at h <;> omega
  | cons b bs ih =>
    cases st <;> simp only [scan] at h
    all_goals (repeat' split at h)
    all_goals first
      | (have := ih _ _ h; omega)
      | (simp at h; omega)
      | (simp at h)

theorem scan_done_noskip (cl : Nat) (st : PS) (i : Nat) (todo : List UInt8) (st' : PS) (i' : Nat)
    (hs : st.isSkip = false) (h : scan cl st i todo = .done st' i') : st'.isSkip = false := by
  induction todo generalizing st i with
  | nil =>
    cases st <;> simp [scan] at h <;> (obtain ⟨rfl, _⟩ := h) <;> simp_all [PS.isSkip]
  | cons b bs ih =>
    cases st <;> simp only [scan] at h
    all_goals (repeat' split at h)
    all_goals first
      | (exact ih _ _ (by simp [PS.isSkip]) h)
      | (simp at h; simp [← h.1, PS.isSkip])
      | (simp at h)
      | (simp [PS.isSkip] at hs)

/-- one non-empty scan either advances `i` or is the `TwoZero`+`03` → `Three` transition -/
theorem scan_progress (cl : Nat) (st : PS) (i : Nat) (b : UInt8) (bs : List UInt8) (st' : PS) (i' : Nat)
    (h : scan cl st i (b :: bs) = .done st' i') : i < i' ∨ (st = .twoZero ∧ st' = .three ∧ i' = i) := by
  cases st <;> simp only [scan] at h
  all_goals (repeat' split at h)
  all_goals first
    | (have := scan_done_mono _ _ _ _ _ _ h; left; omega)
    | (simp at h; right; simp [h.1, h.2])
    | (simp at h)


theorem scan_invalid_state (cl : Nat) (st : PS) (i : Nat) (todo : List UInt8) (st' : PS) (i' : Nat)
    (h : scan cl st i todo = .invalid st' i') : st' = .twoZero ∨ st' = .postThree := by
  induction todo generalizing st i with
  | nil => cases st <;> simp [scan] at h
  | cons b bs ih =>
    cases st <;> simp only [scan] at h
    all_goals (repeat' split at h)
    all_goals first
      | (exact ih _ _ h)
      | (simp at h; simp [← h.1])
      | (simp at h)

end Rbsp
