import H264.TblProof
/-! theorems of `TblProof` that belong to C11 (a module of their own, so that a broken table or row of another property does not
take this property's module down with it) -/
namespace TblProof
open TblModel Bits

theorem picStruct_model_eq_code : ∀ p : Fin 16, picStructCode p.val = Generated.picStruct.getD p.val (9, 9, 9) := by
  decide +kernel

end TblProof
