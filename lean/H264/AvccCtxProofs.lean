import H264.AvccBuild
import H264.NoPanicAll
/-! C09 / C03: `create_context` never panics once `try_from` has accepted the bytes; for a built record it is the fold of
the direct parses of the stored NALs -/
namespace Avcc
open Bits

def CtxErr.isPanic : CtxErr → Bool | .panic _ => true | _ => false

/-- one iterator step on a validated region: an entry (and the rest of the region is still validated) or a
parameter-set error — never a panic -/
theorem entry_walked (d : List UInt8) (w n pos e : Nat) (h : Walked d (n+1) pos e) :
    (∃ nal next, entry d w pos = .ok (nal, next) ∧ Walked d n next e) ∨ (∃ t, entry d w pos = .paramSetErr t) := by
  obtain ⟨h2, hi, lo, hhi, hlo, h3, hw⟩ := h
  unfold entry
  simp only [bind, Res.bind, hhi, hlo]
  by_cases hz : hi * 256 + lo = 0
  · right; exact ⟨"Empty", by simp [hz]⟩
  · simp only [hz, ↓reduceIte]
    obtain ⟨hb, hhb, _⟩ := idx_ok d (pos + 2) (by omega)
    simp only [hhb]
    by_cases h128 : hb ≥ 128
    · right; exact ⟨"ForbiddenZeroBit", by simp [h128]⟩
    · by_cases hty : hb % 32 ≠ w
      · right; exact ⟨"IncorrectNalType", by simp [h128, hty]⟩
      · have hle : ¬ pos + 2 + (hi * 256 + lo) > d.length := by omega
        left
        exact ⟨List.take (hi * 256 + lo) (List.drop (pos + 2) d), _, by simp only [h128, hty, hle, ↓reduceIte, pure], hw⟩

theorem ctxSps_noPanic (d : List UInt8) (n pos e : Nat) (m : Ctx.PMap Sps.Sps) (h : Walked d n pos e) :
    ∀ k, k ≤ n → ∀ err, ctxSps d k pos m = .error err → err.isPanic = false := by
  induction n generalizing pos m with
  | zero => intro k hk err he; have : k = 0 := by omega
            subst this; simp [ctxSps] at he
  | succ n ih =>
    intro k hk err he
    cases k with
    | zero => simp [ctxSps] at he
    | succ k =>
      simp only [ctxSps] at he
      split at he
      · cases he
      · rcases entry_walked d 7 n pos e h with ⟨nal, next, hent, hw⟩ | ⟨t, hent⟩
        · rw [hent] at he
          simp only [liftErr] at he
          cases hp : Sps.parseSps (NalSrc.srcOfNal [nal] true) with
          | error pe =>
            rw [hp] at he
            have hnp := Sps.np_parseSps _ pe hp
            cases pe <;> simp at he <;> (try (rw [← he]; rfl))
            simp [Err.isPanic] at hnp
          | ok sv =>
            obtain ⟨s, _⟩ := sv
            rw [hp] at he
            exact ih next _ hw k (by omega) err he
        · rw [hent] at he; simp [liftErr] at he; rw [← he]; rfl

theorem ctxPps_noPanic (d : List UInt8) (sm : Ctx.PMap Sps.Sps) (n pos e : Nat) (m : Ctx.PMap Pps.Pps) (h : Walked d n pos e) :
    ∀ k, k ≤ n → ∀ err, ctxPps d sm k pos m = .error err → err.isPanic = false := by
  induction n generalizing pos m with
  | zero => intro k hk err he; have : k = 0 := by omega
            subst this; simp [ctxPps] at he
  | succ n ih =>
    intro k hk err he
    cases k with
    | zero => simp [ctxPps] at he
    | succ k =>
      simp only [ctxPps] at he
      split at he
      · cases he
      · rcases entry_walked d 8 n pos e h with ⟨nal, next, hent, hw⟩ | ⟨t, hent⟩
        · rw [hent] at he
          simp only [liftErr] at he
          cases hp : Pps.parsePps (Ctx.get sm) (NalSrc.srcOfNal [nal] true) with
          | error pe =>
            rw [hp] at he
            have hnp := Pps.np_parsePps _ _ pe hp
            cases pe <;> simp at he <;> (try (rw [← he]; rfl))
            simp [Err.isPanic] at hnp
          | ok pv =>
            obtain ⟨p, _⟩ := pv
            rw [hp] at he
            exact ih next _ hw k (by omega) err he
        · rw [hent] at he; simp [liftErr] at he; rw [← he]; rfl

/-- **C09 / C03**: once `try_from` has accepted any bytes whatsoever, `create_context` returns a context or an error —
it cannot panic -/
theorem createContext_noPanic (d : List UInt8) (h : tryFrom d = .ok ()) :
    ∀ err, createContext d = .error err → err.isPanic = false := by
  intro err he
  unfold tryFrom at h
  obtain ⟨u, hck, h⟩ := Res.bind_ok h
  have h6 : 6 ≤ d.length := (ck_ok_iff _ _).mp (by rw [hck])
  obtain ⟨v, hv, h⟩ := Res.bind_ok h
  by_cases hv1 : v ≠ 1
  · simp [hv1] at h
  · simp only [hv1, ↓reduceIte] at h
    obtain ⟨len, hend, h⟩ := Res.bind_ok h
    obtain ⟨u2, hck2, h⟩ := Res.bind_ok h
    have hlen1 : len + 1 ≤ d.length := (ck_ok_iff _ _).mp (by rw [hck2])
    obtain ⟨numPps, hnp, h⟩ := Res.bind_ok h
    obtain ⟨e2, hw2, _⟩ := Res.bind_ok h
    have hend' := hend
    unfold spsEnd at hend
    obtain ⟨n, hn, hwalk⟩ := Res.bind_ok hend
    have w1 := walk_ok d n 6 len h6 hwalk
    have w2 := walk_ok d numPps (len + 1) e2 hlen1 hw2
    unfold createContext at he
    simp only [hn, liftErr] at he
    cases hs : ctxSps d n 6 [] with
    | error e1 =>
      rw [hs] at he; simp only at he
      cases he
      exact ctxSps_noPanic d n 6 len [] w1 n (Nat.le_refl _) _ hs
    | ok sm =>
      rw [hs] at he; simp only [hend', liftErr, hnp] at he
      cases hp : ctxPps d sm numPps (len + 1) [] with
      | error e1 =>
        rw [hp] at he; simp only at he
        cases he
        exact ctxPps_noPanic d sm numPps (len + 1) e2 [] w2 numPps (Nat.le_refl _) _ hp
      | ok pm => rw [hp] at he; simp at he


/-! ### the context created from a built record is the fold of the direct parses -/

theorem entry_enc (w : Nat) (pre nal restb : List UInt8) (hn : NalOfType w nal) :
    entry (pre ++ (encEntry nal ++ restb)) w pre.length = .ok (nal, pre.length + 2 + nal.length) := by
  obtain ⟨h, tl, hnal, h128, hty, hlen⟩ := hn
  subst hnal
  generalize hA : UInt8.ofNat ((h :: tl).length / 256) = A
  generalize hB : UInt8.ofNat ((h :: tl).length % 256) = B
  have hAB : A.toNat * 256 + B.toNat = (h :: tl).length := by rw [← hA, ← hB]; exact hi_lo _ hlen
  have hd : pre ++ (encEntry (h :: tl) ++ restb) = pre ++ (A :: B :: h :: (tl ++ restb)) := by
    unfold encEntry; rw [hA, hB]; simp [List.append_assoc]
  rw [hd]
  have hfull : (pre ++ (A :: B :: h :: (tl ++ restb))).length = pre.length + 3 + tl.length + restb.length := by
    simp only [List.length_append, List.length_cons]; omega
  have hcons : (h :: tl).length = tl.length + 1 := by simp
  have hi : idx (pre ++ (A :: B :: h :: (tl ++ restb))) pre.length = .ok A.toNat := by
    have := idx_append_right pre (A :: B :: h :: (tl ++ restb)) 0
    simpa [idx] using this
  have lo : idx (pre ++ (A :: B :: h :: (tl ++ restb))) (pre.length + 1) = .ok B.toNat := by
    have := idx_append_right pre (A :: B :: h :: (tl ++ restb)) 1
    simpa [idx] using this
  have hh : idx (pre ++ (A :: B :: h :: (tl ++ restb))) (pre.length + 2) = .ok h.toNat := by
    have := idx_append_right pre (A :: B :: h :: (tl ++ restb)) 2
    simpa [idx] using this
  unfold entry
  simp only [bind, Res.bind, hi, lo, hAB]
  have hlen0 : (h :: tl).length ≠ 0 := by rw [hcons]; omega
  rw [if_neg hlen0, hh]
  simp only
  have n128 : ¬ h.toNat ≥ 128 := by omega
  have nty : ¬ h.toNat % 32 ≠ w := by omega
  rw [if_neg n128, if_neg nty]
  have nover : ¬ pre.length + 2 + (h :: tl).length > (pre ++ (A :: B :: h :: (tl ++ restb))).length := by
    rw [hfull, hcons]; omega
  rw [if_neg nover]
  simp only [pure]
  congr 2
  have hnil : List.drop (pre.length + 2) pre = [] := List.drop_eq_nil_of_le (Nat.le_add_right _ _)
  simp [hnil]

/-- parse each SPS NAL directly (contiguous, complete) and store it -/
def foldSps : List (List UInt8) → Ctx.PMap Sps.Sps → Except CtxErr (Ctx.PMap Sps.Sps)
  | [], m => .ok m
  | nal :: rest, m =>
    match Sps.parseSps (NalSrc.srcOfNal [nal] true) with
    | .error (.panic t) => .error (.panic t)
    | .error _ => .error .sps
    | .ok (s, _) => foldSps rest (Ctx.put m s.spsId s)

def foldPps (sm : Ctx.PMap Sps.Sps) : List (List UInt8) → Ctx.PMap Pps.Pps → Except CtxErr (Ctx.PMap Pps.Pps)
  | [], m => .ok m
  | nal :: rest, m =>
    match Pps.parsePps (Ctx.get sm) (NalSrc.srcOfNal [nal] true) with
    | .error (.panic t) => .error (.panic t)
    | .error _ => .error .pps
    | .ok (p, _) => foldPps sm rest (Ctx.put m p.ppsId p)

theorem ctxSps_enc (pre : List UInt8) (nals : List (List UInt8)) (post : List UInt8) (m : Ctx.PMap Sps.Sps)
    (hn : ∀ n ∈ nals, NalOfType 7 n) :
    ctxSps (pre ++ (encEntries nals ++ post)) nals.length pre.length m = foldSps nals m := by
  induction nals generalizing pre m with
  | nil => simp [ctxSps, foldSps]
  | cons nal rest ih =>
    have hnal := hn nal (by simp)
    have hrest : ∀ n ∈ rest, NalOfType 7 n := fun n hh => hn n (by simp [hh])
    rw [encEntries_cons]
    simp only [List.length_cons, ctxSps, foldSps]
    have hpos : ¬ pre.length ≥ (pre ++ (encEntry nal ++ encEntries rest ++ post)).length := by
      simp [encEntry]
    rw [if_neg hpos]
    have he := entry_enc 7 pre nal (encEntries rest ++ post) hnal
    rw [List.append_assoc, he]
    simp only [liftErr]
    have ih' := fun m' => ih (pre ++ encEntry nal) m' hrest
    have hl : (pre ++ encEntry nal).length = pre.length + 2 + nal.length := by simp [encEntry]; omega
    cases hp : Sps.parseSps (NalSrc.srcOfNal [nal] true) with
    | error e => cases e <;> rfl
    | ok sv =>
      obtain ⟨s, r⟩ := sv
      simp only
      have := ih' (Ctx.put m s.spsId s)
      rw [hl, List.append_assoc] at this
      exact this

theorem ctxPps_enc (sm : Ctx.PMap Sps.Sps) (pre : List UInt8) (nals : List (List UInt8)) (post : List UInt8)
    (m : Ctx.PMap Pps.Pps) (hn : ∀ n ∈ nals, NalOfType 8 n) :
    ctxPps (pre ++ (encEntries nals ++ post)) sm nals.length pre.length m = foldPps sm nals m := by
  induction nals generalizing pre m with
  | nil => simp [ctxPps, foldPps]
  | cons nal rest ih =>
    have hnal := hn nal (by simp)
    rw [encEntries_cons]
    simp only [List.length_cons, ctxPps, foldPps]
    have hpos : ¬ pre.length ≥ (pre ++ (encEntry nal ++ encEntries rest ++ post)).length := by
      simp [encEntry]
    rw [if_neg hpos]
    have he := entry_enc 8 pre nal (encEntries rest ++ post) hnal
    rw [List.append_assoc, he]
    simp only [liftErr]
    have hrest : ∀ n ∈ rest, NalOfType 8 n := fun n hh => hn n (by simp [hh])
    have ih' := fun m' => ih (pre ++ encEntry nal) m' hrest
    have hl : (pre ++ encEntry nal).length = pre.length + 2 + nal.length := by simp [encEntry]; omega
    cases hp : Pps.parsePps (Ctx.get sm) (NalSrc.srcOfNal [nal] true) with
    | error e => cases e <;> rfl
    | ok pv =>
      obtain ⟨p, r⟩ := pv
      simp only
      have := ih' (Ctx.put m p.ppsId p)
      rw [hl, List.append_assoc] at this
      exact this

/-- **C09 (context)**: the context created from a built record equals the one obtained by parsing each stored NAL
directly from a contiguous buffer, SPS first, then PPS against them -/
theorem build_createContext (b1 b2 b3 b4 b5 : UInt8) (sps pps : List (List UInt8)) (ext : List UInt8)
    (ok : BuildOk b5 sps pps) (hs : ∀ n ∈ sps, NalOfType 7 n) (hp : ∀ n ∈ pps, NalOfType 8 n) :
    createContext (buildAvcc b1 b2 b3 b4 b5 sps pps ext) =
      (match foldSps sps [] with
       | .error e => .error e
       | .ok sm => match foldPps sm pps [] with
         | .error e => .error e
         | .ok pm => .ok ⟨sm, pm⟩) := by
  unfold createContext
  have h5 : numSps (buildAvcc b1 b2 b3 b4 b5 sps pps ext) = .ok sps.length := by
    unfold numSps
    have : idx (buildAvcc b1 b2 b3 b4 b5 sps pps ext) 5 = .ok b5.toNat := by simp [buildAvcc, idx]
    simp only [bind, Res.bind, this, pure, ok.nsps]
  simp only [h5, liftErr]
  have hs' := ctxSps_enc [1, b1, b2, b3, b4, b5] sps (UInt8.ofNat pps.length :: (encEntries pps ++ ext)) [] hs
  have hb : buildAvcc b1 b2 b3 b4 b5 sps pps ext = [1, b1, b2, b3, b4, b5] ++ (encEntries sps ++ (UInt8.ofNat pps.length :: (encEntries pps ++ ext))) := rfl
  rw [← hb] at hs'
  simp only [List.length_cons, List.length_nil, Nat.zero_add] at hs'
  rw [hs']
  cases hf : foldSps sps [] with
  | error e => rfl
  | ok sm =>
    simp only [build_spsEnd b1 b2 b3 b4 b5 sps pps ext ok, liftErr]
    have hnp : idx (buildAvcc b1 b2 b3 b4 b5 sps pps ext) (6 + (encEntries sps).length) = .ok pps.length := by
      have := idx_append_right ([1, b1, b2, b3, b4, b5] ++ encEntries sps) (UInt8.ofNat pps.length :: (encEntries pps ++ ext)) 0
      simp only [List.length_append, List.length_cons, List.length_nil, Nat.add_zero, Nat.zero_add] at this
      have hto : (UInt8.ofNat pps.length).toNat = pps.length := by simp [UInt8.toNat_ofNat']; have := ok.npps; omega
      simp only [buildAvcc, ← List.append_assoc]
      rw [this]; simp [idx, hto]
    rw [hnp]; simp only
    have hp' := ctxPps_enc sm ([1, b1, b2, b3, b4, b5] ++ encEntries sps ++ [UInt8.ofNat pps.length]) pps ext [] hp
    rw [← build_shape2] at hp'
    have hl : ([1, b1, b2, b3, b4, b5] ++ encEntries sps ++ [UInt8.ofNat pps.length]).length = 6 + (encEntries sps).length + 1 := by
      simp; omega
    rw [hl] at hp'
    rw [hp']
    cases foldPps sm pps [] <;> rfl

end Avcc
