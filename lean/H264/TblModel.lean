import H264.Render3
import H264.Sei
import H264.Context
/-! `tbl <name> <i>` lines: the same one-field sweeps that the harness runs through the real parsers (tables.rs), run
through the **model parsers** on the same bits; the standard's names (Table D.1 payload types) for the SEI types, which
the model keeps as numbers. Core-only imports (linked into the driver). -/
namespace TblModel
open Bits

def u (n v : Nat) : List Bool := encBits n v
def bF : List Bool := [false]
def bT : List Bool := [true]
def zeros (n : Nat) : List Bool := List.replicate n false

/-- Baseline SPS (id 0, 4-bit frame_num, POC type 2, 11x9 macroblocks, frame_mbs_only) + `vui` + trailing bits -/
def spsWithVui (vui : Option (List Bool)) : List Bool :=
  u 8 66 ++ u 8 0 ++ u 8 30 ++ encUe 0 ++ encUe 0 ++ encUe 2 ++ encUe 1 ++ bF ++ encUe 10 ++ encUe 8 ++ bT ++ bF ++ bF ++
  (match vui with | some v => bT ++ v | none => bF) ++ bT

/-- model of `AspectRatioInfo::get` (Table E-1; reserved and unspecified have no ratio; an extended ratio with a zero side is unspecified) -/
def aspectGet : Sps.AspectRatioInfo → Option (Nat × Nat)
  | .extended w h => if w = 0 ∨ h = 0 then none else some (w, h)
  | .idc 1 => some (1, 1) | .idc 2 => some (12, 11) | .idc 3 => some (10, 11) | .idc 4 => some (16, 11)
  | .idc 5 => some (40, 33) | .idc 6 => some (24, 11) | .idc 7 => some (20, 11) | .idc 8 => some (32, 11)
  | .idc 9 => some (80, 33) | .idc 10 => some (18, 11) | .idc 11 => some (15, 11) | .idc 12 => some (64, 33)
  | .idc 13 => some (160, 99) | .idc 14 => some (4, 3) | .idc 15 => some (3, 2) | .idc 16 => some (2, 1)
  | .idc _ => none

/-- Table D.1: payloadType ↦ name of the sei_payload structure (CamelCase) -/
def seiName : Nat → String
  | 0 => "BufferingPeriod" | 1 => "PicTiming" | 2 => "PanScanRect" | 3 => "FillerPayload" | 4 => "UserDataRegisteredItuTT35"
  | 5 => "UserDataUnregistered" | 6 => "RecoveryPoint" | 7 => "DecRefPicMarkingRepetition" | 8 => "SparePic" | 9 => "SceneInfo"
  | 10 => "SubSeqInfo" | 11 => "SubSeqLayerCharacteristics" | 12 => "SubSeqCharacteristics" | 13 => "FullFrameFreeze"
  | 14 => "FullFrameFreezeRelease" | 15 => "FullFrameSnapshot" | 16 => "ProgressiveRefinementSegmentStart"
  | 17 => "ProgressiveRefinementSegmentEnd" | 18 => "MotionConstrainedSliceGroupSet" | 19 => "FilmGrainCharacteristics"
  | 20 => "DeblockingFilterDisplayPreference" | 21 => "StereoVideoInfo" | 22 => "PostFilterHint" | 23 => "ToneMappingInfo"
  | 24 => "ScalabilityInfo" | 25 => "SubPicScalableLayer" | 26 => "NonRequiredLayerRep" | 27 => "PriorityLayerInfo"
  | 28 => "LayersNotPresent" | 29 => "LayerDependencyChange" | 30 => "ScalableNesting" | 31 => "BaseLayerTemporalHrd"
  | 32 => "QualityLayerIntegrityCheck" | 33 => "RedundantPicProperty" | 34 => "Tl0DepRepIndex" | 35 => "TlSwitchingPoint"
  | 36 => "ParallelDecodingInfo" | 37 => "MvcScalableNesting" | 38 => "ViewScalabilityInfo" | 39 => "MultiviewSceneInfo"
  | 40 => "MultiviewAcquisitionInfo" | 41 => "NonRequiredViewComponent" | 42 => "ViewDependencyChange"
  | 43 => "OperationPointsNotPresent" | 44 => "BaseViewTemporalHrd" | 45 => "FramePackingArrangement"
  | 46 => "MultiviewViewPosition" | 47 => "DisplayOrientation" | 48 => "MvcdScalableNesting" | 49 => "MvcdViewScalabilityInfo"
  | 50 => "DepthRepresentationInfo" | 51 => "ThreeDimensionalReferenceDisplaysInfo" | 52 => "DepthTiming"
  | 53 => "DepthSamplingInfo" | 54 => "ConstrainedDepthParameterSetIdentifier" | 56 => "GreenMetadata"
  | 137 => "MasteringDisplayColourVolume" | 142 => "ColourRemappingInfo" | 147 => "AlternativeTransferCharacteristics"
  | 181 => "AlternativeDepthInfo"
  | n => s!"ReservedSeiMessage({n})"

def src (bits : List Bool) : Src := ⟨bits, .eof⟩

def noVuiFlags (n : Nat) : List Bool := zeros n

def picStructRow (i : Nat) : String :=
  -- VUI: no aspect / overscan / signal type / chroma loc / timing / NAL HRD / VCL HRD, pic_struct_present = 1, no restrictions
  match Sps.parseSps (src (spsWithVui (some (zeros 7 ++ bT ++ bF)))) with
  | .error _ => "sps:err"
  | .ok (s, _) =>
    let attempt (n : Nat) : Option String :=
      -- the payload is a whole number of bytes: nothing appended when already aligned, else the stop bit and zero padding
      let body := u 4 (i % 16) ++ zeros n
      let pl := if body.length % 8 = 0 then body else body ++ bT ++ zeros (7 - body.length % 8)
      match SeiPayload.readPicTiming s (src pl) with
      | .ok (p, _) =>
        (match p.picStruct with
         | some ps => if ps.clockTimestamps.length = n ∧ ps.clockTimestamps.all (· == none) then
             some s!"ok {Render.picStructName ps.picStruct} {n}" else none
         | none => none)
      | .error _ => none
    match [0, 1, 2, 3, 4].filterMap attempt with
    | r :: _ => r
    | [] => "err"

def sliceTypeRow (i : Nat) : String :=
  match Sps.parseSps (src (spsWithVui none)) with
  | .error _ => "sps:err"
  | .ok (s, _) =>
    let spsMap := Ctx.put [] s.spsId s
    let ppsBits := encUe 0 ++ encUe 0 ++ bF ++ bF ++ encUe 0 ++ encUe 0 ++ encUe 0 ++ bF ++ u 2 0 ++ encSe 0 ++ encSe 0 ++ encSe 0 ++ bF ++ bF ++ bF ++ bT
    match Pps.parsePps (Ctx.get spsMap) (src ppsBits) with
    | .error _ => "pps:err"
    | .ok (p, _) =>
      let ppsMap := Ctx.put [] p.ppsId p
      let tail : List Bool := match i % 5 with
        | 0 => zeros 3 ++ encSe 0
        | 1 => zeros 5 ++ encSe 0
        | 2 => zeros 1 ++ encSe 0
        | 3 => zeros 3 ++ encSe 0 ++ bF ++ encSe 0
        | _ => zeros 1 ++ encSe 0 ++ encSe 0
      let bits := encUe 0 ++ encUe i ++ encUe 0 ++ u 4 3 ++ tail ++ u 8 0xA5 ++ bT
      match Slice.parseSliceHeader ⟨Ctx.get spsMap, Ctx.get ppsMap⟩ ⟨1, 1⟩ (src bits) with
      | .ok ((h, _, _), _) => s!"ok {Render.family (Slice.familyOf h.sliceTypeId)} {if h.sliceTypeId ≥ 5 then "Exclusive" else "NonExclusive"}"
      | .error _ => "err"

def row (name : String) (i : Nat) : String :=
  match name with
  | "chroma" => if Sps.hasChromaInfo i then "1" else "0"
  | "aspect" =>
    let b := i % 256
    let vui := bT ++ u 8 b ++ (if b = 255 then u 16 0x1234 ++ u 16 0x0567 else []) ++ zeros 8
    (match Sps.parseSps (src (spsWithVui (some vui))) with
     | .ok (s, _) => (match s.vui.bind (·.aspectRatioInfo) with
        | some a => s!"{Render.aspect a} get={match aspectGet a with | some (w, h) => s!"{w}:{h}" | none => "-"}"
        | none => "absent")
     | .error _ => "err")
  | "vfmt" =>
    let vui := bF ++ bF ++ bT ++ u 3 (i % 8) ++ zeros 8
    (match Sps.parseSps (src (spsWithVui (some vui))) with
     | .ok (s, _) => (match s.vui.bind (·.videoSignalType) with | some v => Render.videoFormat v.videoFormat | none => "?")
     | .error _ => "err")
  | "cfmt" =>
    let bits := u 8 100 ++ u 8 0 ++ u 8 30 ++ encUe 0 ++ encUe i ++ (if i = 3 then bF else []) ++ encUe 0 ++ encUe 0 ++ bF ++ bF ++
      encUe 0 ++ encUe 2 ++ encUe 1 ++ bF ++ encUe 10 ++ encUe 8 ++ bT ++ bF ++ bF ++ bF ++ bT
    (match Sps.parseSps (src bits) with
     | .ok (s, _) => s!"ok {Render.chromaFormat s.chromaInfo.chromaFormat}"
     | .error _ => "err")
  | "seitype" =>
    let bytes : List UInt8 := Sei.encU32 i ++ [1, 0x55, 0x80]
    (match (Sei.next ⟨⟨bytes, .eof⟩, 0, false⟩).2 with
     | .ok (some (ty, pl)) => if pl = [0x55] then seiName ty else "wrong-payload"
     | .ok none => "end"
     | .error _ => "err")
  | "picstruct" => picStructRow i
  | "slicetype" => sliceTypeRow i
  | _ => "bad-op"

end TblModel
