import H264.RefNal
import H264.NalSrc
import H264.Accum
import H264.Context
import H264.GeneratedSmall
/-! Definitions for the proof-level correspondence of the chunked NAL reader (C15), the NAL accumulator (C08) and the
parameter-set map (C19) on complete small domains; the theorems are in `SmallProofC15 / C08 / C19`. -/
namespace SmallProof
open Rbsp

def data : List UInt8 := [0x10, 0x11, 0x12, 0x13]
/-- the composition number `comp` (bit i set = cut after byte i) as a chunk list -/
def chunksOf (comp : Nat) : List (List UInt8) :=
  let rec go (i start : Nat) (fuel : Nat) (acc : List (List UInt8)) : List (List UInt8) :=
    match fuel with
    | 0 => acc ++ [data.drop start]
    | fuel+1 => if comp / 2^i % 2 = 1 then go (i+1) (i+1) fuel (acc ++ [(data.drop start).take (i + 1 - start)]) else go (i+1) start fuel acc
  go 0 0 3 []

def kindCode : IoKind → Nat | .eof => 8 | .wouldBlock => 1 | .invalidData => 8

/-- the drain programs of `tables.rs`: read n bytes at a time (n = 1, 2, 3, 5), fill + consume all, fill + consume 1 -/
def drainProg (prog : Nat) : Nat → Chunked → List UInt8 → List UInt8 × Nat × Chunked
  | 0, c, got => (got, 9, c)
  | fuel+1, c, got =>
    if prog < 4 then
      let n := [1, 2, 3, 5].getD prog 1
      match c.read n with
      | (_, .error k) => (got, kindCode k, c)
      | (c', .ok bs) => if bs = [] then (got, 0, c') else drainProg prog fuel c' (got ++ bs)
    else
      match c.fillBuf with
      | .error k => (got, kindCode k, c)
      | .ok b => if b = [] then (got, 0, c) else
          let k := if prog = 4 then b.length else 1
          drainProg prog fuel (c.consume k) (got ++ b.take k)

def refnalRow (i : Nat) : List Nat × Nat × Nat :=
  let comp := i / 12; let complete := i % 12 < 6; let prog := i % 6
  let r := drainProg prog 40 (NalSrc.mkChunked (chunksOf comp) complete) []
  let again := match r.2.2.fillBuf with | .ok b => if b = [] then 0 else 7 | .error k => kindCode k
  (r.1.map (·.toNat), r.2.1, again)

/-! accumulator -/
open Accum in
def shapes : List (List (List UInt8) × Bool) := [([], true), ([[1]], false), ([[2]], true), ([[3], [4]], false), ([[5], [6]], true)]
/-- sequences of `len` delivery codes, most significant first (the order of `tables.rs`) -/
def seqs (base : Nat) : Nat → List (List Nat)
  | 0 => [[]]
  | n+1 => (List.range base).flatMap fun a => (seqs base n).map (a :: ·)
def allSeqs (base : Nat) : List (List Nat) := (List.range 4).flatMap (seqs base)

open Accum in
def accRow (codes : List Nat) : List (List Nat) :=
  let rec go (a : Acc) : List Nat → List (List Nat)
    | [] => []
    | c :: cs =>
      let sh := shapes.getD (c / 2) ([], true)
      let r := frag a sh.1 sh.2 (fun _ => if c % 2 = 1 then .ignore else .buffer)
      (match r.2 with
       | none => []
       | some inv => (if inv.complete then 1 else 0) :: inv.bytes.map (·.toNat)) :: go r.1 cs
  go Accum.init codes

/-! parameter-set map (tags stand for the stored SPS: its level_idc) -/
def ctxRow (codes : List Nat) : List Nat :=
  let ids := [0, 1, 31]
  let m : Ctx.PMap Nat := codes.foldl (fun m c => Ctx.put m (ids.getD (c / 2) 0) (1 + c % 2)) []
  ([0, 1, 2, 31].map fun i => (Ctx.get m i).getD 0) ++ [999] ++ (Ctx.entries m).flatMap fun p => [p.1, p.2]

end SmallProof
