import H264.Tables2
/-! theorems of `Tables2` that belong to C11 (a module of their own, so that a broken table or row of another property does not
take this property's module down with it) -/
namespace Tables2
open Generated

/-- Table D-1: every 4-bit pic_struct is accepted as its own distinct value, and the number of clock-timestamp
slots the parser reads is the model's / the standard's NumClockTS -/
theorem picStruct_table : picStruct.length = 16 ∧
    (∀ p : Fin 16, (picStruct.getD p.val (0,0,0)).1 = 1 ∧
      (picStruct.getD p.val (0,0,0)).2.2 = SeiPayload.numClockTs p.val) ∧
    (∀ i j : Fin 16, (picStruct.getD i.val (0,0,0)).2.1 = (picStruct.getD j.val (0,0,0)).2.1 → i = j) := by
  decide +kernel

end Tables2
