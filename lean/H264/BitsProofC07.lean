import H264.BitsProof
/-! theorems of `BitsProof` that belong to C07 (a module of their own, so that a broken table or row of another property does not
take this property's module down with it) -/
namespace BitsProof
open Bits

theorem bits_ue_model_eq_code : ∀ b0 : Fin 256, ∀ j : Fin 24,
    ueRow b0.val j.val = (Generated.bitsUe.getD b0.val []).getD j.val (9, 9, 9) := by decide +kernel

theorem bits_se_model_eq_code : ∀ b0 : Fin 256, ∀ j : Fin 24,
    seRow b0.val j.val = (Generated.bitsSe.getD b0.val []).getD j.val (9, 9, 9) := by decide +kernel

end BitsProof
