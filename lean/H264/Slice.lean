import H264.PpsC05
/-! Prototype: slice header value types and model parser (`SliceHeader::from_bits`, post-fix) -/
namespace Slice
open Bits Sps Pps

inductive Family | P | B | I | SP | SI
deriving DecidableEq, Repr

def familyOf (sliceTypeId : Nat) : Family :=
  match sliceTypeId % 5 with
  | 0 => .P | 1 => .B | 2 => .I | 3 => .SP | _ => .SI

inductive FieldPic | frame | top | bottom
deriving DecidableEq, Repr

inductive PicOrderCountLsb
  | frame (lsb : Nat)
  | fieldsAbsolute (lsb : Nat) (deltaBottom : Int)
  | fieldsDelta (d0 d1 : Int)
deriving DecidableEq, Repr

inductive NumRefIdxActive
  | P (l0 : Nat)
  | B (l0 l1 : Nat)
deriving DecidableEq, Repr

inductive ModOp | subtract (v : Nat) | add (v : Nat) | longTermRef (v : Nat)
deriving DecidableEq, Repr

inductive RefPicListMods
  | I
  | P (l0 : List ModOp)
  | B (l0 l1 : List ModOp)
deriving DecidableEq, Repr

structure PredWeightTable where
  lumaLog2WeightDenom : Nat
  chromaLog2WeightDenom : Option Nat
  lumaWeights : List (Option (Int × Int))
  chromaWeights : List (List (Int × Int))
deriving DecidableEq, Repr

inductive Mmco
  | shortTermUnused (diff : Nat)
  | longTermUnused (num : Nat)
  | shortTermToLongTerm (diff idx : Nat)
  | maxLongTermIdx (plus1 : Nat)
  | allUnused
  | currentToLongTerm (idx : Nat)
deriving DecidableEq, Repr

inductive DecRefPicMarking
  | idr (noOutputOfPriorPics longTermReference : Bool)
  | slidingWindow
  | adaptive (ops : List Mmco)
deriving DecidableEq, Repr

structure SliceHeader where
  firstMbInSlice : Nat
  sliceTypeId : Nat
  colourPlane : Option Nat
  frameNum : Nat
  fieldPic : FieldPic
  idrPicId : Option Nat
  picOrderCntLsb : Option PicOrderCountLsb
  redundantPicCnt : Option Nat
  directSpatialMvPredFlag : Option Bool
  numRefIdxActive : Option NumRefIdxActive
  refPicListModification : RefPicListMods
  predWeightTable : Option PredWeightTable
  decRefPicMarking : Option DecRefPicMarking
  cabacInitIdc : Option Nat
  sliceQpDelta : Int
  spForSwitchFlag : Option Bool
  sliceQs : Option Nat
  disableDeblockingFilterIdc : Nat
deriving DecidableEq, Repr

structure NalHdr where
  nalRefIdc : Nat
  nalUnitType : Nat
deriving DecidableEq, Repr

structure Ctx where
  sps : Nat → Option Sps.Sps
  pps : Nat → Option Pps.Pps

/-! ### sub-readers -/

/-- `RefPicListModifications::read_list` loop body, with explicit fuel (each iteration consumes ≥ 1 bit) -/
def readModOps : Nat → P (List ModOp)
  | 0 => fail (.panic "fuel")
  | fuel+1 => do
    let idc ← readUe "modification_of_pic_nums_idc"
    if idc = 0 then do
      let v ← readUe "abs_diff_pic_num_minus1"
      let rest ← readModOps fuel
      pure (.subtract v :: rest)
    else if idc = 1 then do
      let v ← readUe "abs_diff_pic_num_minus1"
      let rest ← readModOps fuel
      pure (.add v :: rest)
    else if idc = 2 then do
      let v ← readUe "long_term_pic_num"
      let rest ← readModOps fuel
      pure (.longTermRef v :: rest)
    else if idc = 3 then pure []
    else fail (.other "InvalidModificationOfPicNumIdc")

def readModList : P (List ModOp) := do
  let f ← readBool "ref_pic_list_modification_flag"
  if !f then pure [] else fun s => readModOps (s.bits.length + 1) s

def readRefPicListMods (fam : Family) : P RefPicListMods :=
  match fam with
  | .I | .SI => pure .I
  | .B => do
    let a ← readModList
    let b ← readModList
    pure (.B a b)
  | .P | .SP => do
    let a ← readModList
    pure (.P a)

def readLumaWeight : P (Option (Int × Int)) := do
  let lf ← readBool "luma_weight_l0_flag"
  if lf then do
    let w ← readSe "luma_weight_l0"
    let o ← readSe "luma_offset_l0"
    pure (some (w, o))
  else pure none

def readChromaWeights : P (List (Int × Int)) := do
  let cf ← readBool "chroma_weight_l0_flag"
  if cf then do
    let w0 ← readSe "chroma_weight_l0"
    let o0 ← readSe "chroma_offset_l0"
    let w1 ← readSe "chroma_weight_l0"
    let o1 ← readSe "chroma_offset_l0"
    pure [(w0, o0), (w1, o1)]
  else pure []

def readPredWeightEntries (chroma : Bool) : Nat → P (List (Option (Int × Int)) × List (List (Int × Int)))
  | 0 => pure ([], [])
  | n+1 => do
    let lw ← readLumaWeight
    if chroma then do
      let cw ← readChromaWeights
      let (ls, cs) ← readPredWeightEntries chroma n
      pure (lw :: ls, cw :: cs)
    else do
      let (ls, cs) ← readPredWeightEntries chroma n
      pure (lw :: ls, cs)

/-- num_ref_idx_l0_active_minus1 in effect: the override if coded, else the PPS default -/
def effectiveL0 (pps : Pps.Pps) : Option NumRefIdxActive → Nat
  | some (.P l0) => l0
  | some (.B l0 _) => l0
  | none => pps.numRefIdxL0DefaultActiveMinus1

def readPredWeightTable (fam : Family) (pps : Pps.Pps) (sps : Sps.Sps) (nra : Option NumRefIdxActive) :
    P PredWeightTable := do
  let chroma := !(sps.chromaInfo.separateColourPlaneFlag) && sps.chromaInfo.chromaFormat != .monochrome
  let ld ← readUe "luma_log2_weight_denom"
  let cd ← if chroma then (do let v ← readUe "chroma_log2_weight_denom"; pure (some v)) else pure none
  let (lw, cw) ← readPredWeightEntries chroma (effectiveL0 pps nra + 1)
  if fam = .B then fail (.unsupported "B frame") else
  pure ⟨ld, cd, lw, cw⟩

def readMmcos : Nat → P (List Mmco)
  | 0 => fail (.panic "fuel")
  | fuel+1 => do
    let op ← readUe "memory_management_control_operation"
    if op = 0 then pure []
    else if op = 1 then do
      let d ← readUe "difference_of_pic_nums_minus1"
      let rest ← readMmcos fuel
      pure (.shortTermUnused d :: rest)
    else if op = 2 then do
      let n ← readUe "long_term_pic_num"
      let rest ← readMmcos fuel
      pure (.longTermUnused n :: rest)
    else if op = 3 then do
      let d ← readUe "difference_of_pic_nums_minus1"
      let i ← readUe "long_term_frame_idx"
      let rest ← readMmcos fuel
      pure (.shortTermToLongTerm d i :: rest)
    else if op = 4 then do
      let m ← readUe "max_long_term_frame_idx_plus1"
      let rest ← readMmcos fuel
      pure (.maxLongTermIdx m :: rest)
    else if op = 5 then do
      let rest ← readMmcos fuel
      pure (.allUnused :: rest)
    else if op = 6 then do
      let i ← readUe "long_term_frame_idx"
      let rest ← readMmcos fuel
      pure (.currentToLongTerm i :: rest)
    else fail (.other "InvalidMemoryManagementControlOperation")

def readDecRefPicMarking (hdr : NalHdr) : P DecRefPicMarking :=
  if hdr.nalUnitType = 5 then do
    let a ← readBool "no_output_of_prior_pics_flag"
    let b ← readBool "long_term_reference_flag"
    pure (.idr a b)
  else do
    let f ← readBool "adaptive_ref_pic_marking_mode_flag"
    if f then do
      let ops ← fun s => readMmcos (s.bits.length + 1) s
      pure (.adaptive ops)
    else pure .slidingWindow

def readNumRefIdx (name : String) : P Nat := do
  let v ← readUe name
  if v > 31 then fail (.other "InvalidNumRefIdx") else pure v

def readColourPlane (sps : Sps.Sps) : P (Option Nat) :=
  if sps.chromaInfo.separateColourPlaneFlag then do
    let v ← readBits "colour_plane_id" 2
    if v > 2 then fail (.other "ColourPlaneError") else pure (some v)
  else pure none

def readFieldPic (sps : Sps.Sps) : P FieldPic :=
  match sps.frameMbsFlags with
  | .fields _ => do
      let f ← readBool "field_pic_flag"
      if f then do
        let b ← readBool "bottom_field_flag"
        pure (if b then FieldPic.bottom else FieldPic.top)
      else pure FieldPic.frame
  | .frames => pure FieldPic.frame

def readIdrPicId (hdr : NalHdr) : P (Option Nat) :=
  if hdr.nalUnitType = 5 then do let v ← readUe "idr_pic_id"; pure (some v) else pure none

def readPoc (sps : Sps.Sps) (pps : Pps.Pps) (fieldPic : FieldPic) : P (Option PicOrderCountLsb) :=
  match sps.picOrderCnt with
  | .typeZero l => do
      let lsb ← readBits "pic_order_cnt_lsb" (l + 4)
      if pps.bottomFieldPicOrderInFramePresentFlag && fieldPic == .frame then do
        let d ← readSe "delta_pic_order_cnt_bottom"
        pure (some (PicOrderCountLsb.fieldsAbsolute lsb d))
      else pure (some (PicOrderCountLsb.frame lsb))
  | .typeOne az _ _ _ =>
      if az then pure (some (PicOrderCountLsb.fieldsDelta 0 0)) else do
        let d0 ← readSe "delta_pic_order_cnt[0]"
        if pps.bottomFieldPicOrderInFramePresentFlag && fieldPic == .frame then do
          let d1 ← readSe "delta_pic_order_cnt[1]"
          pure (some (PicOrderCountLsb.fieldsDelta d0 d1))
        else pure (some (PicOrderCountLsb.fieldsDelta d0 0))
  | .typeTwo => pure none

def readRedundant (pps : Pps.Pps) : P (Option Nat) :=
  if pps.redundantPicCntPresentFlag then do let v ← readUe "redundant_pic_cnt "; pure (some v) else pure none

def readDirect (fam : Family) : P (Option Bool) :=
  if fam = .B then do let b ← readBool "direct_spatial_mv_pred_flag"; pure (some b) else pure none

def readNumRefIdxActive (fam : Family) : P (Option NumRefIdxActive) :=
  if fam = .P ∨ fam = .SP ∨ fam = .B then do
    let o ← readBool "num_ref_idx_active_override_flag"
    if o then do
      let l0 ← readNumRefIdx "num_ref_idx_l0_active_minus1"
      if fam = .B then do
        let l1 ← readNumRefIdx "num_ref_idx_l1_active_minus1"
        pure (some (NumRefIdxActive.B l0 l1))
      else pure (some (NumRefIdxActive.P l0))
    else pure none
  else pure none

def pwtPresent (fam : Family) (pps : Pps.Pps) : Bool :=
  (pps.weightedPredFlag && (fam == .P || fam == .SP)) || (pps.weightedBipredIdc == 1 && fam == .B)

def readPwtOpt (fam : Family) (pps : Pps.Pps) (sps : Sps.Sps) (nra : Option NumRefIdxActive) :
    P (Option PredWeightTable) :=
  if pwtPresent fam pps then do
    let t ← readPredWeightTable fam pps sps nra
    pure (some t)
  else pure none

def readMarkingOpt (hdr : NalHdr) : P (Option DecRefPicMarking) :=
  if hdr.nalRefIdc = 0 then pure none else do
    let m ← readDecRefPicMarking hdr
    pure (some m)

def readCabac (fam : Family) (pps : Pps.Pps) : P (Option Nat) :=
  if pps.entropyCodingModeFlag ∧ fam ≠ .I ∧ fam ≠ .SI then do
    let v ← readUe "cabac_init_idc"; pure (some v)
  else pure none

def readQpDelta : P Int := do
  let q ← readSe "slice_qp_delta"
  if q > 51 then fail (.other "InvalidSliceQpDelta") else pure q

def readSpSwitch (fam : Family) : P (Option Bool) :=
  if fam = .SP then do
    let b ← readBool "sp_for_switch_flag"
    pure (some b)
  else pure none

def readSwitchQs (fam : Family) (pps : Pps.Pps) : P (Option Bool × Option Nat) :=
  if fam = .SP ∨ fam = .SI then do
    let sw ← readSpSwitch fam
    let d ← readSe "slice_qs_delta"
    let qsY : Int := 26 + pps.picInitQsMinus26 + d
    if qsY < 0 ∨ 51 < qsY then fail (.other "InvalidSliceQsDelta") else
    pure (sw, some qsY.toNat)
  else pure (none, none)

def readDeblock (pps : Pps.Pps) : P Nat :=
  if pps.deblockingFilterControlPresentFlag then do
    let v ← readUe "disable_deblocking_filter_idc"
    if v > 6 then fail (.other "InvalidDisableDeblockingFilterIdc") else
    if v ≠ 1 then do
      let a ← readSe "slice_alpha_c0_offset_div2"
      if a < -6 ∨ 6 < a then fail (.other "InvalidSliceAlphaC0OffsetDiv2") else do
      let _b ← readSe "slice_beta_offset_div2"
      pure v
    else pure v
  else pure 0

def requireMore : P Unit := do
  let more ← hasMore "slice_header"
  if !more then fail (.io "slice_header" .eof) else pure ()

/-- the part of the header after the parameter sets have been activated -/
def readSliceBody (sps : Sps.Sps) (pps : Pps.Pps) (hdr : NalHdr) (firstMb st ppsId : Nat) :
    P (SliceHeader × Nat × Nat) := do
  let fam := familyOf st
  let colourPlane ← readColourPlane sps
  let frameNum ← readBits "frame_num" (sps.log2MaxFrameNumMinus4 + 4)
  let fieldPic ← readFieldPic sps
  let idrPicId ← readIdrPicId hdr
  let poc ← readPoc sps pps fieldPic
  let redundant ← readRedundant pps
  let direct ← readDirect fam
  let nra ← readNumRefIdxActive fam
  if hdr.nalUnitType = 20 ∨ hdr.nalUnitType = 21 then fail (.unsupported "NALU types 20 and 21") else do
  let mods ← readRefPicListMods fam
  let pwt ← readPwtOpt fam pps sps nra
  let marking ← readMarkingOpt hdr
  let cabac ← readCabac fam pps
  let qpDelta ← readQpDelta
  let (spSwitch, sliceQs) ← readSwitchQs fam pps
  let dbIdc ← readDeblock pps
  requireMore
  pure (⟨firstMb, st, colourPlane, frameNum, fieldPic, idrPicId, poc, redundant, direct, nra, mods, pwt,
         marking, cabac, qpDelta, spSwitch, sliceQs, dbIdc⟩, pps.spsId, ppsId)

/-- `SliceHeader::from_bits(ctx, r, header)`; returns the header and the ids of the activated SPS / PPS -/
def parseSliceHeader (ctx : Ctx) (hdr : NalHdr) : P (SliceHeader × Nat × Nat) := do
  let firstMb ← readUe "first_mb_in_slice"
  let st ← readUe "slice_type"
  if st > 9 then fail (.other "InvalidSliceType") else do
  let ppsId ← readUe "pic_parameter_set_id"
  if ppsId > 255 then fail (.other "InvalidSeqParamSetId") else
  match ctx.pps ppsId with
  | none => fail (.other "UndefinedPicParamSetId")
  | some pps =>
  match ctx.sps pps.spsId with
  | none => fail (.other "UndefinedSeqParamSetId")
  | some sps => readSliceBody sps pps hdr firstMb st ppsId

end Slice
