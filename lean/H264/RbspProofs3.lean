import H264.RbspProofs2
namespace Rbsp

/-- what `fillLoop` guarantees about the state it returns -/
theorem fillLoop_spec (fuel : Nat) (r : BR) (hinv : Inv r) (hfuel : measure r < fuel ∨ r.i ≠ 0) :
    Inv (fillLoop fuel r).1 ∧ view (fillLoop fuel r).1 = view r ∧
    (fillLoop fuel r).1.inner.complete = r.inner.complete ∧ (fillLoop fuel r).1.maxFill = r.maxFill ∧
    (match (fillLoop fuel r).2 with
     | .ok () => (fillLoop fuel r).1.i ≠ 0 ∨
          ((fillLoop fuel r).1.i = 0 ∧ (fillLoop fuel r).1.inner.cur = [] ∧ r.inner.complete = true)
     | .error .wouldBlock => (fillLoop fuel r).1.i = 0 ∧ (fillLoop fuel r).1.inner.cur = [] ∧ r.inner.complete = false
     | .error .invalidData => (view r).2 = false
     | .error .eof => False) := by
  induction fuel generalizing r with
  | zero =>
    rcases hfuel with h | h
    · omega
    · simp [fillLoop, hinv, h]
  | succ fuel ih =>
    unfold fillLoop
    by_cases hi : r.i ≠ 0
    · simp [hi, hinv]
    · have hi0 : r.i = 0 := by omega
      simp only [hi, ↓reduceIte]
      obtain ⟨t1, t2, t3, t4, t5⟩ := tryFill_spec r hinv hi0
      cases hres : (tryFill r).2 with
      | error k =>
        have : tryFill r = ((tryFill r).1, .error k) := by rw [← hres]
        rw [this]; simp only
        rw [hres] at t5
        cases k with
        | wouldBlock => obtain ⟨h1, h2, h3⟩ := t5; rw [h1]; exact ⟨hinv, rfl, rfl, rfl, hi0, h2, h3⟩
        | invalidData => exact ⟨t1, t2, t3, t4, t5⟩
        | eof => exact absurd t5 id
      | ok more =>
        cases more with
        | false =>
          have : tryFill r = ((tryFill r).1, .ok false) := by rw [← hres]
          rw [this]; simp only
          rw [hres] at t5
          obtain ⟨h1, h2, h3⟩ := t5
          rw [h1]; exact ⟨hinv, rfl, rfl, rfl, Or.inr ⟨hi0, h2, h3⟩⟩
        | true =>
          have : tryFill r = ((tryFill r).1, .ok true) := by rw [← hres]
          rw [this]; simp only
          rw [hres] at t5
          have hf' : measure (tryFill r).1 < fuel ∨ (tryFill r).1.i ≠ 0 := by
            rcases t5 with h | h
            · rcases hfuel with hf | hf
              · left; omega
              · exact absurd hi0 hf
            · right; exact h
          obtain ⟨u1, u2, u3, u4, u5⟩ := ih (tryFill r).1 t1 hf'
          refine ⟨u1, u2.trans t2, u3.trans t3, u4.trans t4, ?_⟩
          rw [t3, t2] at u5
          exact u5

theorem measure_lt_fuelFor (r : BR) : measure r < fuelFor r := by
  unfold measure fuelFor; split <;> omega

/-- `fill_buf`: returns a prefix of the view; empty only at a genuine end; never moves the view -/
theorem fillBuf_spec (r : BR) (hinv : Inv r) :
    Inv (fillBuf r).1 ∧ view (fillBuf r).1 = view r ∧
    (fillBuf r).1.inner.complete = r.inner.complete ∧ (fillBuf r).1.maxFill = r.maxFill ∧
    (match (fillBuf r).2 with
     | .ok buf => buf = (fillBuf r).1.inner.cur.take (fillBuf r).1.i ∧ buf <+: (view r).1 ∧
          (buf = [] → (view r) = ([], true) ∧ r.inner.complete = true)
     | .error .wouldBlock => r.inner.complete = false ∧ (view r) = ([], true)
     | .error .invalidData => (view r).2 = false
     | .error .eof => False) := by
  obtain ⟨l1, l2, l3, l4, l5⟩ := fillLoop_spec (fuelFor r) r hinv (Or.inl (measure_lt_fuelFor r))
  unfold fillBuf
  cases hres : (fillLoop (fuelFor r) r).2 with
  | error k =>
    have : fillLoop (fuelFor r) r = ((fillLoop (fuelFor r) r).1, .error k) := by rw [← hres]
    rw [this]; simp only
    rw [hres] at l5
    cases k with
    | wouldBlock =>
      refine ⟨l1, l2, l3, l4, l5.2.2, ?_⟩
      rw [← l2]
      obtain ⟨h1, h2, _⟩ := l5
      have hwf := l1.1
      have ht : (fillLoop (fuelFor r) r).1.inner.tail = [] := hwf.2 h2
      simp [view, Chunked.rest, h1, h2, ht, unescFrom]
    | invalidData => exact ⟨l1, l2, l3, l4, l5⟩
    | eof => exact absurd l5 id
  | ok u =>
    have : fillLoop (fuelFor r) r = ((fillLoop (fuelFor r) r).1, .ok ()) := by rw [← hres]
    rw [this]; simp only
    rw [hres] at l5
    generalize (fillLoop (fuelFor r) r).1 = r' at *
    obtain ⟨hwf, hile, hmf, hskip⟩ := l1
    rcases l5 with hne | ⟨h0, hcur, hcomp⟩
    · -- i ≠ 0, so cur is non-empty and inner.fillBuf succeeds
      have hcurne : r'.inner.cur ≠ [] := by
        intro h; rw [h] at hile; simp at hile; exact hne hile
      have hfb : r'.inner.fillBuf = .ok r'.inner.cur := by
        unfold Chunked.fillBuf; simp [hcurne]
      rw [hfb]; simp only
      refine ⟨⟨hwf, hile, hmf, hskip⟩, l2, l3, l4, by simp, ?_, ?_⟩
      · rw [← l2]; simp only [view]; exact List.prefix_append _ _
      · intro h
        rcases List.take_eq_nil_iff.mp h with h2 | h2
        · exact absurd h2 hne
        · exact absurd h2 hcurne
    · have hc' : r'.inner.complete = true := by rw [l3]; exact hcomp
      have hfb : r'.inner.fillBuf = .ok [] := by
        unfold Chunked.fillBuf; simp [hcur, hc']
      rw [hfb]; simp only
      have ht : r'.inner.tail = [] := hwf.2 hcur
      have hv : view r' = ([], true) := by simp [view, Chunked.rest, h0, hcur, ht, unescFrom]
      refine ⟨⟨hwf, hile, hmf, hskip⟩, l2, l3, l4, by simp [h0], ?_, ?_⟩
      · simp
      · intro _; rw [← l2]; exact ⟨hv, hcomp⟩

/-- `consume amt` (within the contract `amt ≤ i`) drops exactly `amt` bytes from the view -/
theorem consume_spec (r : BR) (hinv : Inv r) (amt : Nat) (hamt : amt ≤ r.i) :
    Inv (consume r amt) ∧ view (consume r amt) = ((view r).1.drop amt, (view r).2) ∧
    (consume r amt).inner.complete = r.inner.complete ∧ (consume r amt).maxFill = r.maxFill := by
  obtain ⟨hwf, hile, hmf, hskip⟩ := hinv
  have hk : amt ≤ r.inner.cur.length := Nat.le_trans hamt hile
  obtain ⟨c1, c2, c3⟩ := Chunked.consume_rest r.inner amt hwf hk
  have hcurlen : (r.inner.consume amt).cur.length ≥ r.i - amt := by
    unfold Chunked.consume
    by_cases hd : r.inner.cur.drop amt = []
    · have : amt = r.inner.cur.length := by
        have := List.drop_eq_nil_iff.mp hd; omega
      have : r.i - amt = 0 := by omega
      omega
    · simp only [hd, ↓reduceIte, List.length_drop]; omega
  refine ⟨⟨c2, hcurlen, hmf, ?_⟩, ?_, c3, rfl⟩
  · intro n hn
    obtain ⟨h0, h1⟩ := hskip n hn
    exact ⟨by simp [consume, h0], h1⟩
  · simp only [view, consume, c1]
    have htake : (r.inner.consume amt).cur.take (r.i - amt) = (r.inner.cur.take r.i).drop amt := by
      unfold Chunked.consume
      by_cases hd : r.inner.cur.drop amt = []
      · have h1 : amt = r.inner.cur.length := by
          have := List.drop_eq_nil_iff.mp hd; omega
        have h2 : r.i - amt = 0 := by omega
        have h3 : r.i = r.inner.cur.length := by omega
        simp only [hd, ↓reduceIte, h2, List.take_zero]
        rw [h3, List.take_length, h1]; simp
      · simp only [hd, ↓reduceIte]
        rw [List.drop_take]
    rw [htake, List.drop_drop]
    have h4 : amt + (r.i - amt) = r.i := by omega
    rw [h4]
    have h5 : amt ≤ (r.inner.cur.take r.i).length := by rw [List.length_take]; omega
    rw [List.drop_append_of_le_length h5]

end Rbsp
