import H264.AnnexBL0
import H264.RefNal
import H264.Accum
import H264.Sei
import H264.Avcc
/-! Prototype driver commands for the stateful byte-level components -/
namespace Driver2

def hexVal (c : Char) : Nat :=
  if c.isDigit then c.toNat - '0'.toNat else if 'a' ≤ c ∧ c ≤ 'f' then c.toNat - 'a'.toNat + 10 else 0
def bytesOfHex (s : String) : List UInt8 :=
  let rec go : List Char → List UInt8
    | a :: b :: rest => UInt8.ofNat (hexVal a * 16 + hexVal b) :: go rest
    | _ => []
  go s.toList
def hexDigit (n : Nat) : Char := if n < 10 then Char.ofNat (48 + n) else Char.ofNat (87 + n)
def hexOf (bs : List UInt8) : String :=
  String.ofList (bs.flatMap fun b => [hexDigit (b.toNat / 16), hexDigit (b.toNat % 16)])

/-! annexb: ops `p:<hex>` (push) or `r` (reset); output: calls, each `<slice>,<slice>;<end>` -/
def renderCall (c : AnnexB.Call) : String :=
  ",".intercalate (c.bufs.map hexOf) ++ ";" ++ (if c.fin then "1" else "0")

def annexb (ops : List String) : String :=
  let (_, out) := ops.foldl (fun (acc : AnnexB.St × List String) op =>
    let (st, outs) := acc
    if op = "r" then
      let (st', calls) := AnnexB.reset st
      (st', outs ++ ["[" ++ " ".intercalate (calls.map renderCall) ++ "]"])
    else
      let (st', calls) := AnnexB.push st (bytesOfHex (op.drop 2).toString)
      (st', outs ++ ["[" ++ " ".intercalate (calls.map renderCall) ++ "]"])) (AnnexB.St.start, [])
  " ".intercalate out

def ioKind : Rbsp.IoKind → String
  | .eof => "Eof" | .wouldBlock => "WouldBlock" | .invalidData => "InvalidData"

def mkChunked (chunks : List (List UInt8)) (complete : Bool) : Rbsp.Chunked :=
  match chunks with
  | [] => ⟨[], [], complete⟩
  | h :: t => ⟨h, t, complete⟩

/-! rbsp: ops `f` (fill_buf), `c<k>` (consume k ≤ last fill length), `r<n>` (read n) -/
def rbsp (chunks : List (List UInt8)) (complete : Bool) (skip : Nat) (ops : List String) : String :=
  let r0 : Rbsp.BR := ⟨mkChunked chunks complete, if skip = 0 then .start else .skip skip, 0, 128⟩
  let (_, out) := ops.foldl (fun (acc : Rbsp.BR × List String) op =>
    let (r, outs) := acc
    match op.toList with
    | 'f' :: _ =>
      let (r', res) := Rbsp.fillBuf r
      (r', outs ++ [match res with | .ok b => "ok:" ++ hexOf b | .error k => "err:" ++ ioKind k])
    | 'c' :: k =>
      let k := (String.ofList k).toNat!
      (Rbsp.consume r (min k r.i), outs ++ ["c" ++ toString (min k r.i)])
    | 'r' :: n =>
      let (r', res) := Rbsp.read r (String.ofList n).toNat!
      (r', outs ++ [match res with | .ok b => "ok:" ++ hexOf b | .error k => "err:" ++ ioKind k])
    | _ => (r, outs ++ ["bad"])) (r0, [])
  " ".intercalate out

def refnal (chunks : List (List UInt8)) (complete : Bool) (ops : List String) : String :=
  let c0 := mkChunked chunks complete
  let (_, out) := ops.foldl (fun (acc : Rbsp.Chunked × List String) op =>
    let (c, outs) := acc
    match op.toList with
    | 'f' :: _ =>
      (c, outs ++ [match c.fillBuf with | .ok b => "ok:" ++ hexOf b | .error k => "err:" ++ ioKind k])
    | 'c' :: k =>
      let k := min (String.ofList k).toNat! c.cur.length
      (c.consume k, outs ++ ["c" ++ toString k])
    | 'r' :: n =>
      let (c', res) := c.read (String.ofList n).toNat!
      (c', outs ++ [match res with | .ok b => "ok:" ++ hexOf b | .error k => "err:" ++ ioKind k])
    | _ => (c, outs ++ ["bad"])) (c0, [])
  " ".intercalate out

/-! acc: steps `<slice>,<slice>;<end>;<answer B|I>` -/
def acc (steps : List String) : String :=
  let (_, out) := steps.foldl (fun (st : Accum.Acc × List String) step =>
    let (a, outs) := st
    match step.splitOn ";" with
    | [bufs, e, ans] =>
      let bs := if bufs = "" then [] else (bufs.splitOn ",").map bytesOfHex
      let answer := if ans = "I" then Accum.Interest.ignore else Accum.Interest.buffer
      let (a', inv) := Accum.frag a bs (e = "1") (fun _ => answer)
      (a', outs ++ [match inv with
        | none => "-"
        | some i => hexOf i.head ++ "|" ++ ",".intercalate (i.tail.map hexOf) ++ "|" ++ (if i.complete then "1" else "0")])
    | _ => (a, outs ++ ["bad"])) (Accum.init, [])
  " ".intercalate out

/-! sei: all messages, then 3 more calls -/
def seiErr : Bits.Err → String
  | .io n k => "Io(" ++ n ++ "," ++ (match k with | .eof => "Eof" | .wouldBlock => "WouldBlock" | .invalidData => "InvalidData" | .invalidInput => "InvalidInput") ++ ")"
  | _ => "Other"

def sei (bytes : List UInt8) (fin : Bits.IoKind) : String :=
  let rec go : Nat → Sei.Reader → List String → List String
    | 0, _, acc => acc
    | fuel+1, r, acc =>
      match Sei.next r with
      | (r', .ok (some m)) => go fuel r' (acc ++ ["msg:" ++ toString m.1 ++ ":" ++ hexOf m.2])
      | (r', .ok none) => if fuel > 3 then go 3 r' (acc ++ ["end"]) else go fuel r' (acc ++ ["end"])
      | (r', .error e) => if fuel > 3 then go 3 r' (acc ++ ["err:" ++ seiErr e]) else go fuel r' (acc ++ ["err:" ++ seiErr e])
  " ".intercalate (go (bytes.length + 8) ⟨⟨bytes, fin⟩, 0, false⟩ [])

def avccRes {α} (f : α → String) : Avcc.Res α → String
  | .ok a => "Ok(" ++ f a ++ ")"
  | .notEnoughData e a => s!"NotEnoughData({e},{a})"
  | .unsupportedVersion v => s!"UnsupportedVersion({v})"
  | .paramSetErr t => s!"ParamSet({t})"
  | .panic t => s!"PANIC({t})"

def avcc (d : List UInt8) : String :=
  match Avcc.tryFrom d with
  | .ok () =>
    "Ok sps=" ++ avccRes (fun l => ",".intercalate (l.map hexOf)) (Avcc.spsList d) ++
    " pps=" ++ avccRes (fun l => ",".intercalate (l.map hexOf)) (Avcc.ppsList d)
  | r => avccRes (fun _ => "") r

def step (line : String) : String :=
  match line.trimAscii.toString.splitOn " " with
  | "annexb" :: ops => annexb ops
  | "rbsp" :: chunks :: complete :: skip :: ops =>
    rbsp ((chunks.splitOn ",").map bytesOfHex) (complete = "1") skip.toNat! ops
  | "refnal" :: chunks :: complete :: ops => refnal ((chunks.splitOn ",").map bytesOfHex) (complete = "1") ops
  | "acc" :: steps => acc steps
  | ["sei", h, fin] => sei (bytesOfHex h) (if fin = "1" then .eof else .wouldBlock)
  | ["avcc", h] => avcc (bytesOfHex h)
  | ["avcc"] => avcc []
  | _ => "bad-op"

end Driver2
