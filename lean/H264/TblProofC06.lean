import H264.TblProof
/-! theorems of `TblProof` that belong to C06 (a module of their own, so that a broken table or row of another property does not
take this property's module down with it) -/
namespace TblProof
open TblModel Bits

theorem sliceType_model_eq_code : ∀ t : Fin 64, sliceTypeCode t.val = Generated.sliceType.getD t.val (9, 9, 9) := by
  decide +kernel

end TblProof
