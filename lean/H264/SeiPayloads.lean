import H264.PicTiming
/-! Models of `BufferingPeriod::read` (D.1.1) and `ItuTT35::read` (D.1.6), with the Annex D encoders -/
namespace SeiPayload
open Bits Sps

structure InitialCpbRemoval where
  delay : Nat
  offset : Nat
deriving DecidableEq, Repr

structure BufferingPeriod where
  nalHrdBp : Option (List InitialCpbRemoval)
  vclHrdBp : Option (List InitialCpbRemoval)
deriving DecidableEq, Repr

def readCpbRemoval (len : Nat) : P InitialCpbRemoval := do
  let d ← readBits "initial_cpb_removal_delay" len
  let o ← readBits "initial_cpb_removal_delay_offset" len
  pure ⟨d, o⟩

/-- `read_cpb_removal_delay_list` -/
def readCpbRemovalList (len : Nat) : Nat → P (List InitialCpbRemoval)
  | 0 => pure []
  | n+1 => do
    let x ← readCpbRemoval len
    let rest ← readCpbRemovalList len n
    pure (x :: rest)

def readOptHrdBp : Option Hrd → P (Option (List InitialCpbRemoval))
  | none => pure none
  | some h => do
    let l ← readCpbRemovalList (h.initialCpbRemovalDelayLengthMinus1 + 1) h.cpbSpecs.length
    pure (some l)

def nalHrdOf (s : Sps.Sps) : Option Hrd := match s.vui with | some v => v.nalHrd | none => none
def vclHrdOf (s : Sps.Sps) : Option Hrd := match s.vui with | some v => v.vclHrd | none => none

/-- `BufferingPeriod::read(ctx, msg)` on the payload bits -/
def readBufferingPeriod (spsById : Nat → Option Sps.Sps) : P BufferingPeriod := do
  let id ← readUe "seq_parameter_set_id"
  if id > 31 then fail (.other "BadSeqParamSetId") else
  match spsById id with
  | none => fail (.other "UndefinedSeqParamSetId")
  | some s => do
    let n ← readOptHrdBp (nalHrdOf s)
    let v ← readOptHrdBp (vclHrdOf s)
    finishSei
    pure ⟨n, v⟩

/-! ### D.1.1 as an encoder -/
def encCpbRemoval (len : Nat) (x : InitialCpbRemoval) : List Bool := encBits len x.delay ++ encBits len x.offset
def encCpbRemovalList (len : Nat) (l : List InitialCpbRemoval) : List Bool := (l.map (encCpbRemoval len)).flatten
def encOptHrdBp (h : Option Hrd) (l : Option (List InitialCpbRemoval)) : List Bool :=
  match h, l with
  | some h, some l => encCpbRemovalList (h.initialCpbRemovalDelayLengthMinus1 + 1) l
  | _, _ => []
def encBufferingPeriod (s : Sps.Sps) (b : BufferingPeriod) : List Bool :=
  encUe s.spsId ++ encOptHrdBp (nalHrdOf s) b.nalHrdBp ++ encOptHrdBp (vclHrdOf s) b.vclHrdBp

/-! ### T.35 (D.1.6): country code, optional extension byte, remainder -/
inductive T35Code | code (b : Nat) | extended (e : Nat)
deriving DecidableEq, Repr

inductive T35Res
  | ok (c : T35Code) (rest : List UInt8)
  | notEnoughData (expected actual : Nat)
deriving DecidableEq, Repr

def readT35 : List UInt8 → T35Res
  | [] => .notEnoughData 1 0
  | b :: rest =>
    if b = 0xFF then
      match rest with
      | [] => .notEnoughData 2 1
      | e :: rest' => .ok (.extended e.toNat) rest'
    else .ok (.code b.toNat) rest

def encT35 : T35Code → List UInt8
  | .code b => [UInt8.ofNat b]
  | .extended e => [0xFF, UInt8.ofNat e]

end SeiPayload
