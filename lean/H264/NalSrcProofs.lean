import H264.NalSrc
import H264.RbspInit
/-! What the parsers see of a NAL (`NalSrc.drain`) in terms of the declarative un-escaping -/
namespace NalSrc
open Rbsp

theorem drainGo_valid (fuel : Nat) (r : BR) (acc : List UInt8) (hinv : Inv r) (hv : (view r).2 = true)
    (hf : (view r).1.length < fuel) :
    drainGo fuel r acc = (acc ++ (view r).1, if r.inner.complete then .eof else .wouldBlock) := by
  induction fuel generalizing r acc with
  | zero => omega
  | succ fuel ih =>
    obtain ⟨r1, r2, r3⟩ := read_spec r hinv 1
    unfold drainGo
    cases hres : (Rbsp.read r 1).2 with
    | error k =>
      have heq : Rbsp.read r 1 = ((Rbsp.read r 1).1, .error k) := by rw [← hres]
      rw [heq]; simp only
      rw [hres] at r3
      cases k with
      | wouldBlock =>
        obtain ⟨_, hc, hview⟩ := r3
        simp [hview, hc]
      | invalidData => rw [r3.2] at hv; cases hv
      | eof => exact absurd r3 id
    | ok bs =>
      have heq : Rbsp.read r 1 = ((Rbsp.read r 1).1, .ok bs) := by rw [← hres]
      rw [heq]; simp only
      rw [hres] at r3
      obtain ⟨hbs, hlen, hview', hemp⟩ := r3
      by_cases hb : bs = []
      · simp only [hb, ↓reduceIte]
        rcases hemp hb with h0 | ⟨hview, hc⟩
        · omega
        · simp [hview, hc]
      · simp only [hb, ↓reduceIte]
        have hl1 : bs.length = 1 := by
          have : bs.length ≠ 0 := fun h => hb (List.length_eq_zero_iff.mp h)
          omega
        have hvl : 1 ≤ (view r).1.length := by
          have : bs.length ≤ (view r).1.length := by rw [hbs, List.length_take]; rw [hl1]; exact Nat.min_le_right _ _
          omega
        have hv' : (view (Rbsp.read r 1).1).2 = true := by rw [hview']; exact hv
        have hf' : (view (Rbsp.read r 1).1).1.length < fuel := by rw [hview', List.length_drop]; omega
        rw [ih (Rbsp.read r 1).1 (acc ++ bs) r1 hv' hf', hview', r2, List.append_assoc]
        congr 2
        rw [hbs]
        simp only [hl1]
        rw [List.length_take, Nat.min_eq_left hvl, List.take_append_drop]

/-- the view never has more bytes than the input still holds -/
theorem unescFrom_length_le (st : PS) (xs : List UInt8) : (unescFrom st xs).1.length ≤ xs.length := by
  induction xs generalizing st with
  | nil => simp [unescFrom]
  | cons b bs ih =>
    have h1 := ih .start; have h2 := ih .oneZero; have h3 := ih .twoZero; have h4 := ih .postThree
    cases st with
    | start => simp only [unescFrom]; split <;> simp <;> omega
    | oneZero => simp only [unescFrom]; split <;> simp <;> omega
    | twoZero => simp only [unescFrom]; (repeat' split) <;> simp <;> omega
    | skip n => simp only [unescFrom]; have := ih (if n ≤ 1 then .start else .skip (n - 1)); simp; omega
    | three => simp only [unescFrom]; simp; omega
    | postThree => simp only [unescFrom]; (repeat' split) <;> simp <;> omega

/-- a fresh reader over a NAL free of forbidden sequences drains to exactly the un-escaped payload, ending in
`eof` when the NAL is complete and `wouldBlock` when it is not -/
theorem drain_valid (chunks : List (List UInt8)) (complete : Bool) (skip maxFill : Nat)
    (hne : ∀ c ∈ chunks, c ≠ []) (hmf : 1 ≤ maxFill)
    (hv : (unesc (chunks.flatten.drop skip)).2 = true) :
    drain (initReader chunks complete skip maxFill) =
      ((unesc (chunks.flatten.drop skip)).1, if complete then .eof else .wouldBlock) := by
  have hinv := initReader_inv chunks complete skip maxFill hne hmf
  have hview : view (initReader chunks complete skip maxFill) = unesc (chunks.flatten.drop skip) := by
    rw [initReader_view, initState_unesc]
  unfold drain
  have hlen : (view (initReader chunks complete skip maxFill)).1.length <
      (initReader chunks complete skip maxFill).inner.rest.length + 2 := by
    rw [initReader_view]
    have := unescFrom_length_le (initState skip) chunks.flatten
    simp only [initReader, mkChunked_rest]; omega
  rw [drainGo_valid _ _ _ hinv (by rw [hview]; exact hv) hlen, hview]
  simp only [List.nil_append]
  congr 1
  cases chunks <;> rfl

/-- `RefNal::rbsp_bits()` of a valid NAL: the bits of the un-escaped payload after the header byte, independent of
the chunking -/
theorem srcOfNal_valid (chunks : List (List UInt8)) (complete : Bool) (hne : ∀ c ∈ chunks, c ≠ [])
    (hv : (unesc (chunks.flatten.drop 1)).2 = true) :
    srcOfNal chunks complete = ⟨bitsOfBytes (unesc (chunks.flatten.drop 1)).1, if complete then .eof else .wouldBlock⟩ := by
  unfold srcOfNal rbspBytes
  have h := drain_valid chunks complete 1 128 hne (by omega) hv
  have hinit : (⟨mkChunked chunks complete, .skip 1, 0, 128⟩ : BR) = initReader chunks complete 1 128 := by
    simp [initReader, initState]
  rw [hinit, h]
  cases complete <;> simp [kindOf]

end NalSrc
