import H264.GeneratedTables
/-! theorems over the function graphs extracted from the running code: NAL header bytes and unit types (a module of its own, so that a broken table of another
property does not take this one down) -/
namespace C20
open Generated

/-- all 256 header bytes: refused exactly when the top bit is set; otherwise ref_idc / type are bits 5–6 / 0–4 -/
theorem header_bytes : hdr.length = 256 ∧ ∀ b : Fin 256,
    (hdr.getD b.val (9,9,9)).1 = (if b.val ≥ 128 then 0 else 1) ∧
    (b.val < 128 → (hdr.getD b.val (9,9,9)).2.1 = b.val / 32 % 4 ∧ (hdr.getD b.val (9,9,9)).2.2 = b.val % 32) := by
  decide +kernel

/-- unit type ids 0…31 are accepted, map to pairwise distinct values, each returning its own id; > 31 rejected -/
theorem unit_types : unitType.length = 256 ∧
    (∀ i : Fin 256, (unitType.getD i.val (9,9,9)).1 = (if i.val ≤ 31 then 1 else 0)) ∧
    (∀ i : Fin 32, (unitType.getD i.val (9,9,9)).2.2 = i.val) ∧
    (∀ i j : Fin 32, (unitType.getD i.val (9,9,9)).2.1 = (unitType.getD j.val (9,9,9)).2.1 → i = j) := by
  decide +kernel

end C20
