import H264.C07
import H264.PicTiming
import H264.SpsRangesAll
import H264.Pps
/-! # Machine-arithmetic ledger (C03, "never overflows integer arithmetic")

The parser models compute on ℕ/ℤ. For every arithmetic site of the Rust parsers whose operands come from parsed
values, this file writes the *machine* expression (fixed width, wrap-around made explicit with `wrapU8`, `wrapU32`,
`wrapI32`, `wrapI64`, shifts with their width guard) and proves, under exactly the facts the parser has established at
that point, that

* no intermediate value leaves the range of its Rust type (so a build with overflow checks cannot trap there), and
* the wrapped result equals the unbounded expression the model uses (so wrapping and checked builds agree).

`golomb_to_signed` is in `C07.lean` (`golombToSignedRust_eq`). -/
namespace Overflow
open Bits

def wrapU8 (x : Int) : Int := x % 2^8
def wrapU32 (x : Int) : Int := x % 2^32
def wrapI64 (x : Int) : Int := ((x + 2^63) % 2^64) - 2^63

def FitsU8 (x : Int) : Prop := 0 ≤ x ∧ x < 2^8
def FitsU32 (x : Int) : Prop := 0 ≤ x ∧ x < 2^32
def FitsI32 (x : Int) : Prop := -(2^31) ≤ x ∧ x < 2^31
def FitsI64 (x : Int) : Prop := -(2^63) ≤ x ∧ x < 2^63

theorem wrapU8_id (x : Int) (h : FitsU8 x) : wrapU8 x = x := by unfold wrapU8 FitsU8 at *; omega
theorem wrapU32_id (x : Int) (h : FitsU32 x) : wrapU32 x = x := by unfold wrapU32 FitsU32 at *; omega
theorem wrapI64_id (x : Int) (h : FitsI64 x) : wrapI64 x = x := by unfold wrapI64 FitsI64 at *; omega

/-! ## rbsp.rs `read_ue`: `(1 << count) - 1 + val`, `count ≤ 31`, `val < 2^count` -/

/-- the shift amount is below the width, the difference cannot underflow, the sum stays a `u32`, and its value is at
most 2³²−2 (so every later `x + 1` on a parsed `ue(v)` fits) -/
theorem ue_assembly_fits (count val : Nat) (hc : count ≤ 31) (hv : val < 2^count) :
    count < 32 ∧ 1 ≤ 2^count ∧ FitsU32 ((2^count : Nat) : Int) ∧ FitsU32 (((2^count - 1 + val : Nat) : Int)) ∧
    2^count - 1 + val ≤ 2^32 - 2 := by
  have h1 : 2^count ≤ 2^31 := Nat.pow_le_pow_right (by omega) hc
  have h0 : 1 ≤ 2^count := Nat.one_le_two_pow
  refine ⟨by omega, h0, ?_, ?_, ?_⟩
  · unfold FitsU32; omega
  · unfold FitsU32; omega
  · omega

/-! ## sps.rs `fill_scaling_list`: `(last_scale.get() as i32 + delta_scale + 256) % 256`, then `as u8` -/

/-- with `1 ≤ last ≤ 255` (a `NonZeroU8`) and the range check `-128 ≤ delta ≤ 127` already passed, both `i32` sums
fit, the operand of `%` is positive (so Rust's truncating `%` is the mathematical one) and the `as u8` cast is
lossless -/
theorem next_scale_fits (last : Nat) (delta : Int) (hl : 1 ≤ last ∧ last ≤ 255) (hd : ¬ (delta < -128 ∨ delta > 127)) :
    FitsI32 ((last : Int) + delta) ∧ FitsI32 ((last : Int) + delta + 256) ∧ 0 < (last : Int) + delta + 256 ∧
    FitsU8 (((last : Int) + delta + 256) % 256) ∧
    ((((last : Int) + delta + 256).toNat % 256 : Nat) : Int) = ((last : Int) + delta + 256) % 256 := by
  unfold FitsI32 FitsU8
  refine ⟨by omega, by omega, by omega, by omega, ?_⟩
  omega

/-! ## pps.rs: `6 * bit_depth_luma_minus8` in `u8`, `-(26 + i32::from(qp_bd_offset_y))` -/

/-- for every SPS the parser accepts, the `u8` product and the `i32` negation are exact -/
theorem qp_bd_offset_fits (s s' : Src) (v : Sps.Sps) (h : Sps.parseSps s = .ok (v, s')) :
    FitsU8 (6 * (v.chromaInfo.bitDepthLumaMinus8 : Int)) ∧
    FitsI32 (26 + 6 * (v.chromaInfo.bitDepthLumaMinus8 : Int)) ∧
    FitsI32 (-(26 + 6 * (v.chromaInfo.bitDepthLumaMinus8 : Int))) := by
  have hb := (Sps.parseSps_ranges_all s s' v h).2.1
  unfold FitsU8 FitsI32
  omega

/-! ## slice/mod.rs: `26 + i64::from(pic_init_qs_minus26) + i64::from(slice_qs_delta)` -/

theorem qs_y_fits (a b : Int) (ha : FitsI32 a) (hb : FitsI32 b) :
    FitsI64 (26 + a) ∧ FitsI64 (26 + a + b) ∧ wrapI64 (26 + a + b) = 26 + a + b := by
  unfold FitsI32 at ha hb
  have h2 : FitsI64 (26 + a + b) := by unfold FitsI64; omega
  exact ⟨by unfold FitsI64; omega, h2, wrapI64_id _ h2⟩

/-- after the range check `0 ≤ qs_y ≤ 51` the cast `qs_y as u32` is lossless -/
theorem qs_cast_lossless (q : Int) (h : 0 ≤ q ∧ q ≤ 51) : FitsU32 q ∧ wrapU32 q = q := by
  have : FitsU32 q := by unfold FitsU32; omega
  exact ⟨this, wrapU32_id _ this⟩

/-! ## pps.rs: `sps.pic_size_in_map_units() - 1` -/

/-- the saturating product of two values `≥ 1` is `≥ 1`: the subtraction cannot underflow, for any SPS value at all -/
theorem pic_size_pos (s : Sps.Sps) : 1 ≤ Pps.picSizeInMapUnits s := by
  unfold Pps.picSizeInMapUnits
  have : 1 ≤ (s.picWidthInMbsMinus1 + 1) * (s.picHeightInMapUnitsMinus1 + 1) := Nat.mul_pos (by omega) (by omega)
  omega

/-- `x + 1` on the two dimensions fits for every accepted SPS (the helpers `pic_width_in_mbs()` /
`pic_height_in_map_units()`) -/
theorem dims_plus_one_fit (s s' : Src) (v : Sps.Sps) (h : Sps.parseSps s = .ok (v, s')) :
    FitsU32 ((v.picWidthInMbsMinus1 : Int) + 1) ∧ FitsU32 ((v.picHeightInMapUnitsMinus1 : Int) + 1) := by
  obtain ⟨_, _, _, _, _, _, _, hw, hh, _⟩ := (Sps.parseSps_ranges_all s s' v h).1
  unfold Sps.Ue at hw hh
  unfold FitsU32
  omega

/-- `log2_max_frame_num_minus4 + 4` in `u8` -/
theorem log2_frame_num_fits (s s' : Src) (v : Sps.Sps) (h : Sps.parseSps s = .ok (v, s')) :
    FitsU8 ((v.log2MaxFrameNumMinus4 : Int) + 4) := by
  obtain ⟨_, _, _, _, hl, _⟩ := (Sps.parseSps_ranges_all s s' v h).1
  unfold FitsU8
  omega

/-! ## sei/pic_timing.rs: `let shift = 32 - u32::from(len); ((raw << shift) as i32) >> shift` -/

/-- the machine expression: `u32` left shift (wrapping off the top), reinterpretation as `i32`, arithmetic right
shift (= floor division by 2^shift) -/
def timeOffsetRust (len raw : Nat) : Int :=
  let shift := 32 - len
  let shl : Int := wrapU32 ((raw : Int) * 2^shift)
  let asI32 : Int := wrapI32 shl
  asI32 / ((2^shift : Nat) : Int)

/-- `1 ≤ len ≤ 31`… in fact up to 32: the shift amounts stay below the width (`32 - len < 32`, no underflow), and the
expression is the two's-complement value of the `len`-bit field — for every `raw` the `len`-bit read can return -/
theorem timeOffsetRust_eq (len raw : Nat) (hl : 1 ≤ len ∧ len ≤ 31) (hr : raw < 2^len) :
    32 - len < 32 ∧ len ≤ 32 ∧ timeOffsetRust len raw = SeiPayload.signExtend len raw := by
  refine ⟨by omega, by omega, ?_⟩
  unfold timeOffsetRust SeiPayload.signExtend
  simp only
  obtain ⟨k, hk⟩ : ∃ k, len = k + 1 := ⟨len - 1, by omega⟩
  subst hk
  have hkle : k ≤ 30 := by omega
  simp only [Nat.add_sub_cancel]
  obtain ⟨sh, hsh⟩ : ∃ sh, 32 - (k + 1) = sh := ⟨_, rfl⟩
  rw [hsh]
  have hsum : sh + (k + 1) = 32 := by omega
  have hpow : (2:Nat)^sh * 2^(k+1) = 2^32 := by rw [← Nat.pow_add, hsum]
  have hpowk : (2:Nat)^(k+1) = 2 * 2^k := by rw [Nat.pow_succ]; omega
  have hshpos : 0 < (2:Nat)^sh := Nat.two_pow_pos sh
  -- everything as naturals first
  have hprod : raw * 2^sh < 2^32 := by
    calc raw * 2^sh < 2^(k+1) * 2^sh := Nat.mul_lt_mul_of_pos_right hr hshpos
      _ = 2^32 := by rw [Nat.mul_comm]; exact hpow
  have hcast : ((raw : Int) * 2^sh) = ((raw * 2^sh : Nat) : Int) := by
    rw [Int.natCast_mul]; simp
  have hshl : wrapU32 ((raw : Int) * 2^sh) = ((raw * 2^sh : Nat) : Int) := by
    rw [hcast]; exact wrapU32_id _ ⟨by omega, by omega⟩
  rw [hshl]
  have h31 : (2:Nat)^sh * 2^k = 2^31 := by
    have : (2:Nat)^sh * (2 * 2^k) = 2^32 := by rw [← hpowk]; exact hpow
    have e32 : (2:Nat)^32 = 2 * 2^31 := by decide
    rw [e32] at this
    have : 2 * ((2:Nat)^sh * 2^k) = 2 * 2^31 := by rw [← this]; ac_rfl
    omega
  by_cases hlow : raw < 2^k
  · -- non-negative: no wrap in the reinterpretation
    have hp31 : raw * 2^sh < 2^31 := by
      calc raw * 2^sh < 2^k * 2^sh := Nat.mul_lt_mul_of_pos_right hlow hshpos
        _ = 2^31 := by rw [Nat.mul_comm]; exact h31
    have hw : wrapI32 ((raw * 2^sh : Nat) : Int) = ((raw * 2^sh : Nat) : Int) :=
      wrapI32_id _ ⟨by omega, by omega⟩
    rw [hw, if_pos hlow]
    rw [← Int.natCast_ediv, Nat.mul_div_cancel _ hshpos]
  · have hge : 2^k ≤ raw := by omega
    have hp31 : 2^31 ≤ raw * 2^sh := by
      calc 2^31 = 2^k * 2^sh := by rw [Nat.mul_comm]; exact h31.symm
        _ ≤ raw * 2^sh := Nat.mul_le_mul_right _ hge
    have hw : wrapI32 ((raw * 2^sh : Nat) : Int) = ((raw * 2^sh : Nat) : Int) - 2^32 := by
      unfold wrapI32; omega
    rw [hw, if_neg hlow]
    -- (raw·2^sh − 2^32) / 2^sh = raw − 2^(k+1), because 2^32 = 2^(k+1)·2^sh
    have e : ((raw * 2^sh : Nat) : Int) - 2^32 = ((raw : Int) - ((2^(k+1) : Nat) : Int)) * ((2^sh : Nat) : Int) := by
      have : ((2:Int)^32) = (((2:Nat)^(k+1) * 2^sh : Nat) : Int) := by
        rw [Nat.mul_comm, hpow]; norm_cast
      rw [this, Int.sub_mul]
      push_cast
      rfl
    rw [e, Int.mul_ediv_cancel _ (by exact_mod_cast (Nat.pos_iff_ne_zero.mp hshpos))]
    push_cast
    rfl

/-! ## sps.rs HRD: `cpb_cnt_minus1 + 1` after `cpb_cnt_minus1 > 31` was rejected; slice: `num_ref_idx + 1 ≤ 32` -/
theorem small_plus_one_fits (x : Nat) (h : ¬ x > 31) : FitsU32 ((x : Int) + 1) ∧ x + 1 ≤ 32 := by
  unfold FitsU32; omega

/-! ## avcc.rs: `len + 1`, `len + 2`, `len + sps_len` in `usize` (64-bit): every term is a position already checked to
be inside the buffer plus at most 65535 -/
theorem avcc_index_fits (len n bufLen : Nat) (hlen : len ≤ bufLen) (hbuf : bufLen < 2^63) (hn : n ≤ 65535) :
    len + n < 2^64 := by omega

#print axioms timeOffsetRust_eq
#print axioms next_scale_fits
#print axioms qp_bd_offset_fits
end Overflow
