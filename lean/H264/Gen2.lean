import H264.Gen
import H264.Render2
import H264.SliceStd
import H264.PpsFwd
/-! Lean-side generators for PPS and slice headers: values drawn inside the standard's ranges (`Pps.WF`, `SliceWF`),
encoded with the spec encoders `encPps` / `encSliceHeader` (the ones the forward theorems are about), emitted together
with the expected observation. A drawn value is kept only if the *model* parser returns it on its own encoding — by
the forward theorems that holds for every WF value, so a discarded draw means the generator left the WF domain. -/
namespace Gen
open Sps Bits Pps Slice

instance : Inhabited FieldPic := ⟨.frame⟩

def intIn (lo hi : Int) : G Int := do
  let k ← nat 5
  if k = 0 then pure lo else if k = 1 then pure hi
  else do let v ← nat (hi - lo + 1).toNat; pure (lo + v)

def genSliceGroup (s : Sps.Sps) : G SliceGroup := do
  let size := Pps.picSizeInMapUnits s
  let w := Pps.picWidthInMbs s
  let hgt := s.picHeightInMapUnitsMinus1 + 1
  let t ← nat 7
  let n ← pick [1, 2, 3, 7]
  let small (m : Nat) : G Nat := do let k ← nat 5; if k = 0 then pure (m - 1) else nat (min m 50)
  if t = 0 then do pure (.interleaved (← listOf (n + 1) (small size)))
  else if t = 1 then pure (.dispersed n)
  else if t = 2 then do
    let rects ← listOf n (do
      let x1 ← nat (min w 8); let x2 ← nat (min w 8); let y1 ← nat (min hgt 8); let y2 ← nat (min hgt 8)
      let (xa, xb) := (min x1 x2, max x1 x2); let (ya, yb) := (min y1 y2, max y1 y2)
      pure (ya * w + xa, yb * w + xb))
    pure (.foregroundAndLeftover rects)
  else if t ≤ 5 then do pure (.changing t n (← flag) (← small size))
  else do
    let cnt ← pick [1, 2, 5, 12, 40]
    let ids ← listOf cnt (nat (2 ^ groupIdBits n))
    pure (.explicitAssignment n ids)

def genPps (s : Sps.Sps) : G (Pps × Option ScalingSyntax) := do
  let ppsId ← pick [0, 1, 2, 255]
  let sg ← (do let k ← nat 3; if k = 0 then (do pure (some (← genSliceGroup s))) else pure none)
  let l0 ← pick [0, 1, 3, 31]; let l1 ← pick [0, 1, 3, 31]
  let qp ← intIn (-(26 + 6 * (s.chromaInfo.bitDepthLumaMinus8 : Int))) 25
  let qs ← intIn (-26) 25
  let cq ← intIn (-12) 12
  let hasExt ← flag
  let t ← flag
  let smPresent ← (do let k ← nat 3; pure (decide (k = 0)))
  let count := 6 + count8 s t
  let sm : Option ScalingSyntax ← if hasExt && smPresent then
      (do let l ← (List.range count).mapM fun i => genDeltas (if i < 6 then 16 else 64); pure (some l)) else pure none
  let matrix : Option PicScalingMatrix := sm.map fun ls =>
    let y := (ls.drop 6).map (deriveList 64)
    ⟨(ls.take 6).map (deriveList 16), if y.isEmpty then none else some y⟩
  let ext : Option PpsExtra ← if hasExt then (do pure (some ⟨t, matrix, ← intIn (-12) 12⟩)) else pure none
  let v : Pps := ⟨ppsId, s.spsId, ← flag, ← flag, sg, l0, l1, ← flag, ← nat 3, qp, qs, cq, ← flag, ← flag,
    (← nat 4) = 0, ext⟩
  pure (v, if hasExt then sm else none)

def padBits (bits : List Bool) (z : Nat) : List Bool :=
  let pad := (8 - bits.length % 8) % 8
  bits ++ List.replicate (pad + z) false

/-- `pps <hex> | expected`, or `none` if the draw is rejected by the model filter -/
def ppsCase (s : Sps.Sps) : G (Option (Pps × String × String)) := do
  let (v, sm) ← genPps s
  let z ← pick [0, 0, 8]
  let bits := padBits (encPps v sm ++ trailing 0) z
  let ok := match parsePps (fun i => if i = s.spsId then some s else none) ⟨bits, .eof⟩ with
    | .ok (v', _) => decide (v' = v)
    | .error _ => false
  if ok then pure (some (v, s!"pps {hexOfNats (bytesOfBits bits)}", s!"Ok({Render.pps v})")) else pure none

def genModOps : G (List ModOp) := do
  let n ← nat 4
  listOf n (do let k ← nat 3; let v ← ueVal; pure (if k = 0 then ModOp.subtract v else if k = 1 then .add v else .longTermRef v))

def genMmcos : G (List Mmco) := do
  let n ← nat 4
  listOf n (do
    let k ← nat 6; let a ← ueVal; let b ← ueVal
    pure (match k with | 0 => Mmco.shortTermUnused a | 1 => .longTermUnused a | 2 => .shortTermToLongTerm a b
                       | 3 => .maxLongTermIdx a | 4 => .allUnused | _ => .currentToLongTerm a))

def genSlice (s : Sps.Sps) (p : Pps.Pps) : G (NalHdr × SliceHeader × Extra) := do
  let st0 ← nat 10
  let st := if familyOf st0 = .B ∧ p.weightedBipredIdc = 1 then 2 else st0     -- explicit weighted B: unsupported
  let fam := familyOf st
  let nalType ← pick [1, 5]
  let refIdc ← nat 4
  let hdr : NalHdr := ⟨refIdc, nalType⟩
  let colourPlane ← if s.chromaInfo.separateColourPlaneFlag then (do pure (some (← nat 3))) else pure none
  let frameNum ← nat (2 ^ (s.log2MaxFrameNumMinus4 + 4))
  let fieldPic ← match s.frameMbsFlags with
    | .frames => pure FieldPic.frame
    | .fields _ => pick [FieldPic.frame, .top, .bottom]
  let idr ← if nalType = 5 then (do pure (some (← ueVal))) else pure none
  let bottomCoded := p.bottomFieldPicOrderInFramePresentFlag && fieldPic == .frame
  let poc ← match s.picOrderCnt with
    | .typeZero l => do
        let lsb ← nat (2 ^ (l + 4))
        if bottomCoded then (do pure (some (PicOrderCountLsb.fieldsAbsolute lsb (← seVal 10)))) else pure (some (.frame lsb))
    | .typeOne az _ _ _ =>
        if az then pure (some (PicOrderCountLsb.fieldsDelta 0 0)) else do
          let d0 ← seVal 10
          if bottomCoded then (do pure (some (PicOrderCountLsb.fieldsDelta d0 (← seVal 10)))) else pure (some (.fieldsDelta d0 0))
    | .typeTwo => pure none
  let redundant ← if p.redundantPicCntPresentFlag then (do pure (some (← nat 128))) else pure none
  let direct ← if fam = .B then (do pure (some (← flag))) else pure none
  let override ← flag
  let nra ← if (fam = .P ∨ fam = .SP ∨ fam = .B) ∧ override then
      (do let a ← pick [0, 1, 2, 31]; let b ← pick [0, 1, 31]
          pure (some (if fam = .B then NumRefIdxActive.B a b else .P a)))
    else pure none
  let mods ← match fam with
    | .I | .SI => pure RefPicListMods.I
    | .B => do pure (RefPicListMods.B (← genModOps) (← genModOps))
    | _ => do pure (RefPicListMods.P (← genModOps))
  let chroma := isChroma s
  let pwt ← if pwtPresent fam p then (do
      let cnt := effectiveL0 p nra + 1
      let lw ← listOf cnt (optOf (do pure (← seVal 128, ← seVal 128)))
      let cw ← if chroma then listOf cnt (do
          let f ← flag
          if f then (do pure [(← seVal 128, ← seVal 128), (← seVal 128, ← seVal 128)]) else pure [])
        else pure []
      let cd ← if chroma then (do pure (some (← nat 8))) else pure none
      pure (some (⟨← nat 8, cd, lw, cw⟩ : PredWeightTable))) else pure none
  let marking ← if refIdc = 0 then pure none
    else if nalType = 5 then (do pure (some (DecRefPicMarking.idr (← flag) (← flag))))
    else (do let f ← flag; if f then (do pure (some (DecRefPicMarking.adaptive (← genMmcos)))) else pure (some .slidingWindow))
  let cabac ← if p.entropyCodingModeFlag ∧ fam ≠ .I ∧ fam ≠ .SI then (do pure (some (← nat 3))) else pure none
  let qpd ← intIn (-51) 51
  let swFlag ← flag
  let qsd ← intIn (-26 - p.picInitQsMinus26) (25 - p.picInitQsMinus26)
  let (sw, qs) := if fam = .SP ∨ fam = .SI then
      ((if fam = .SP then some swFlag else none), some (26 + p.picInitQsMinus26 + qsd).toNat) else (none, none)
  let dbIdc ← if p.deblockingFilterControlPresentFlag then nat 3 else pure 0
  let alpha ← intIn (-6) 6
  let beta ← intIn (-6) 6
  let firstMb ← ueVal
  let h : SliceHeader := ⟨firstMb, st, colourPlane, frameNum, fieldPic, idr, poc, redundant, direct, nra, mods, pwt,
    marking, cabac, qpd, sw, qs, dbIdc⟩
  pure (hdr, h, ⟨qsd, alpha, beta, false⟩)

def bitStr (l : List Bool) : String := String.ofList (l.map fun b => if b then '1' else '0')

def sliceCase (s : Sps.Sps) (p : Pps.Pps) : G (Option (String × String)) := do
  let (hdr, h, x) ← genSlice s p
  let ndata ← nat 24
  let data ← listOf (1 + ndata) flag
  let z ← pick [0, 0, 8]
  let hbits := encSliceHeader s p hdr h x
  let all := padBits (hbits ++ data ++ trailing 0) z
  let ctx : Slice.Ctx := ⟨fun i => if i = s.spsId then some s else none, fun i => if i = p.ppsId then some p else none⟩
  let rest := all.drop hbits.length
  let ok := match parseSliceHeader ctx hdr ⟨all, .eof⟩ with
    | .ok ((h', sid, pid), r) => decide (h' = h) && sid == s.spsId && pid == p.ppsId && r.bits.length == rest.length
    | .error _ => false
  let hb := hdr.nalRefIdc * 32 + hdr.nalUnitType
  if ok then
    pure (some (s!"slice {hexOfNats [hb]} {hexOfNats (bytesOfBits all)}",
      s!"Ok({Render.sliceHeader h}) sps={s.spsId} pps={p.ppsId} ctxrefs=true left={rest.length} next={bitStr (rest.take 16)}"))
  else pure none

/-- a group: `reset`, an SPS, a PPS against it, two slice headers against both; each with its expected observation.
Returns the lines and the number of draws the model filter discarded. -/
def groupCase : G (List String × Nat) := do
  let (sv, ssm) ← genSps
  -- keep picture sizes moderate half of the time so that slice-group bounds are exercised inside the picture
  let sv ← (do let k ← nat 2; if k = 0 then (do pure { sv with picWidthInMbsMinus1 := ← nat 30, picHeightInMapUnitsMinus1 := ← nat 30 }) else pure sv)
  let sbits := padBits (encSps sv ssm ++ trailing 0) 0
  let spsLine := s!"sps {hexOfNats (bytesOfBits sbits)} | Ok({Render.sps sv})"
  match ← ppsCase sv with
  | none => pure (["reset", spsLine], 1)
  | some (pv, pcase, pexp) =>
    let s1 ← sliceCase sv pv
    let s2 ← sliceCase sv pv
    let sl (o : Option (String × String)) := match o with | some (c, e) => [c ++ " | " ++ e] | none => []
    pure (["reset", spsLine, pcase ++ " | " ++ pexp] ++ sl s1 ++ sl s2,
          (if s1.isNone then 1 else 0) + (if s2.isNone then 1 else 0))

end Gen
