import H264.Sei
/-! `SeiReader::next` with the caller-supplied scratch vector made explicit (`scratch.resize(len, 0)`, then
`read_exact(&mut scratch)`, the message borrows `&scratch[..]`): whatever the vector held before — empty, dirty,
longer or shorter than the payload — the reader's result and next state are those of the scratch-free model `Sei.next`.
This is the clause "reusing scratch buffers does not change the outcome" of C17 for the one parser that has scratch
storage, as a theorem instead of a definitional remark. -/
namespace Sei
open Bits

/-- `Vec::resize(n, 0)`: truncate, or pad with zeros -/
def resize (s : List UInt8) (n : Nat) : List UInt8 := s.take n ++ List.replicate (n - s.length) 0

theorem resize_length (s : List UInt8) (n : Nat) : (resize s n).length = n := by
  unfold resize
  simp only [List.length_append, List.length_take, List.length_replicate]
  omega

/-- `Read::read_exact(&mut buf)` over the remaining bytes: the whole buffer is overwritten, or the read fails -/
def readExact (buf src : List UInt8) : Option (List UInt8 × List UInt8) :=
  if src.length < buf.length then none else some (src.take buf.length, src.drop buf.length)

/-- the reader with its scratch vector: returns the new reader state, the result, and the scratch vector afterwards -/
def nextS (r : Reader) (scratch : List UInt8) : Reader × Except Err (Option Msg) × List UInt8 :=
  if r.done then (r, .ok none, scratch) else
  let rd := { r with done := true }
  match readU32 "payload_type" r.src.fin r.src.bytes 0 with
  | .error e => (rd, .error e, scratch)
  | .ok (ty, rest) =>
    if ty = 0x80 ∧ r.payloadsSeen > 0 ∧ rest = [] then
      (if r.src.fin = .eof then (rd, .ok none, scratch) else (rd, .error (.io "payload_type" r.src.fin), scratch))
    else
    match readU32 "payload_len" r.src.fin rest 0 with
    | .error e => (rd, .error e, scratch)
    | .ok (len, rest2) =>
      let sc := resize scratch len
      match readExact sc rest2 with
      | none => (rd, .error (.io "payload" r.src.fin), sc)
      | some (sc', rest3) =>
        ({ src := ⟨rest3, r.src.fin⟩, payloadsSeen := r.payloadsSeen + 1, done := false }, .ok (some (ty, sc')), sc')

/-- **scratch independence**: for every reader state and every previous content of the scratch vector -/
theorem nextS_eq_next (r : Reader) (scratch : List UInt8) :
    ((nextS r scratch).1, (nextS r scratch).2.1) = next r := by
  unfold nextS next
  by_cases hd : r.done = true
  · simp [hd]
  · simp only [hd, Bool.false_eq_true, ↓reduceIte]
    cases h1 : readU32 "payload_type" r.src.fin r.src.bytes 0 with
    | error e => simp
    | ok p =>
      obtain ⟨ty, rest⟩ := p
      simp only
      by_cases hc : ty = 0x80 ∧ r.payloadsSeen > 0 ∧ rest = []
      · simp only [hc, and_self, ↓reduceIte]
        by_cases he : r.src.fin = .eof <;> simp [he]
      · simp only [hc, ↓reduceIte]
        cases h2 : readU32 "payload_len" r.src.fin rest 0 with
        | error e => simp
        | ok q =>
          obtain ⟨len, rest2⟩ := q
          simp only [readExact, resize_length]
          by_cases hl : rest2.length < len <;> simp [hl]

/-- in particular two different scratch histories give the same messages -/
theorem scratch_irrelevant (r : Reader) (s₁ s₂ : List UInt8) :
    (nextS r s₁).1 = (nextS r s₂).1 ∧ (nextS r s₁).2.1 = (nextS r s₂).2.1 := by
  have h1 := nextS_eq_next r s₁
  have h2 := nextS_eq_next r s₂
  rw [← h2] at h1
  exact ⟨(Prod.mk.inj h1).1, (Prod.mk.inj h1).2⟩

end Sei
