import H264.AnnexBL0Proofs
namespace AnnexB
open St

/-! declarative Annex B segmentation over 3-byte windows -/
mutual
/-- outside a unit: look for `00 00 01` -/
def outside : List UInt8 → List Ev
  | a :: b :: c :: rest =>
      if a = 0 ∧ b = 0 ∧ c = 1 then inside rest else outside (b :: c :: rest)
  | _ => []
termination_by l => l.length
/-- inside a unit: bytes up to the next `00 00 00` / `00 00 01` / end of stream -/
def inside : List UInt8 → List Ev
  | a :: b :: c :: rest =>
      if a = 0 ∧ b = 0 ∧ c = 0 then Ev.endUnit :: outside (b :: c :: rest)
      else if a = 0 ∧ b = 0 ∧ c = 1 then Ev.endUnit :: inside rest
      else Ev.byte a :: inside (b :: c :: rest)
  | l => l.map Ev.byte ++ [Ev.endUnit]
termination_by l => l.length
end

def resetEv : St → List Ev
  | inUnit => [.endUnit]
  | inUnit1 => [.byte 0, .endUnit]
  | inUnit2 => [.byte 0, .byte 0, .endUnit]
  | _ => []

/-- the state stands for the zeros it has seen -/
def spec : St → List UInt8 → List Ev
  | start, xs => outside xs
  | start1, xs => outside (0 :: xs)
  | start2, xs => outside (0 :: 0 :: xs)
  | inUnit, xs => inside xs
  | inUnit1, xs => inside (0 :: xs)
  | inUnit2, xs => inside (0 :: 0 :: xs)

theorem outside_nil : outside [] = [] := by simp [outside]
theorem outside_1 (a : UInt8) : outside [a] = [] := by simp [outside]
theorem outside_2 (a b : UInt8) : outside [a, b] = [] := by simp [outside]
theorem inside_nil : inside [] = [.endUnit] := by simp [inside]
theorem inside_1 (a : UInt8) : inside [a] = [.byte a, .endUnit] := by simp [inside]
theorem inside_2 (a b : UInt8) : inside [a, b] = [.byte a, .byte b, .endUnit] := by simp [inside]
theorem outside_3 (a b c : UInt8) (rest : List UInt8) :
    outside (a :: b :: c :: rest) =
      if a = 0 ∧ b = 0 ∧ c = 1 then inside rest else outside (b :: c :: rest) := by
  rw [outside]
theorem inside_3 (a b c : UInt8) (rest : List UInt8) :
    inside (a :: b :: c :: rest) =
      if a = 0 ∧ b = 0 ∧ c = 0 then Ev.endUnit :: outside (b :: c :: rest)
      else if a = 0 ∧ b = 0 ∧ c = 1 then Ev.endUnit :: inside rest
      else Ev.byte a :: inside (b :: c :: rest) := by
  rw [inside]

theorem outside_cons_nz (a : UInt8) (l : List UInt8) (h : a ≠ 0) : outside (a :: l) = outside l := by
  match l with
  | [] => simp [outside]
  | [b] => simp [outside]
  | b :: c :: rest => rw [outside_3]; simp [h]

theorem outside_0_nz (b : UInt8) (l : List UInt8) (h : b ≠ 0) : outside (0 :: b :: l) = outside (b :: l) := by
  match l with
  | [] => simp [outside]
  | c :: rest => rw [outside_3]; simp [h]

theorem inside_cons_nz (a : UInt8) (l : List UInt8) (h : a ≠ 0) :
    inside (a :: l) = .byte a :: inside l := by
  match l with
  | [] => simp [inside]
  | [b] => simp [inside]
  | b :: c :: rest => rw [inside_3]; simp [h]

theorem inside_0_nz (b : UInt8) (l : List UInt8) (h : b ≠ 0) :
    inside (0 :: b :: l) = .byte 0 :: inside (b :: l) := by
  match l with
  | [] => simp [inside]
  | c :: rest => rw [inside_3]; simp [h]

/-- the byte-level machine followed by `reset` computes the declarative segmentation -/
theorem run_spec (s : St) (xs : List UInt8) :
    (run s xs).2 ++ resetEv (run s xs).1 = spec s xs := by
  induction xs generalizing s with
  | nil => cases s <;> simp [run, resetEv, spec, outside, inside]
  | cons b bs ih =>
    by_cases h0 : b = 0
    · subst h0
      cases s <;> simp only [run, step, spec, ↓reduceIte, List.nil_append, List.append_assoc,
        List.cons_append, ih]
      · rw [outside_3]; simp
      · rw [inside_3]; simp
    · by_cases h1 : b = 1
      · subst h1
        have hne : (1 : UInt8) ≠ 0 := by decide
        cases s <;> simp only [run, step, spec, hne, ↓reduceIte, List.nil_append, List.append_assoc,
          List.cons_append, ih]
        · rw [outside_cons_nz _ _ hne]
        · rw [outside_0_nz _ _ hne, outside_cons_nz _ _ hne]
        · rw [outside_3]; simp
        · rw [inside_cons_nz _ _ hne]
        · rw [inside_0_nz _ _ hne, inside_cons_nz _ _ hne]
        · rw [inside_3]; simp
      · cases s <;> simp only [run, step, spec, h0, h1, ↓reduceIte, List.nil_append, List.append_assoc,
          List.cons_append, ih]
        · rw [outside_cons_nz _ _ h0]
        · rw [outside_0_nz _ _ h0, outside_cons_nz _ _ h0]
        · rw [outside_3]; simp [h1, outside_0_nz _ _ h0, outside_cons_nz _ _ h0]
        · rw [inside_cons_nz _ _ h0]
        · rw [inside_0_nz _ _ h0, inside_cons_nz _ _ h0]
        · rw [inside_3]; simp [h0, h1, inside_0_nz _ _ h0, inside_cons_nz _ _ h0]

theorem run_append (s : St) (xs ys : List UInt8) :
    run s (xs ++ ys) = ((run (run s xs).1 ys).1, (run s xs).2 ++ (run (run s xs).1 ys).2) := by
  induction xs generalizing s with
  | nil => simp [run]
  | cons x xs ih => simp [run, ih, List.append_assoc]

/-- all pushes of a chunked stream, from a given state -/
def pushAll : St → List (List UInt8) → St × List Call
  | s, [] => (s, [])
  | s, c :: cs => let r := push s c; let r' := pushAll r.1 cs; (r'.1, r.2 ++ r'.2)

theorem pushAll_run (s : St) (chunks : List (List UInt8)) :
    (pushAll s chunks).1 = (run s chunks.flatten).1 ∧
    events (pushAll s chunks).2 = (run s chunks.flatten).2 := by
  induction chunks generalizing s with
  | nil => simp [pushAll, run, events]
  | cons c cs ih =>
    obtain ⟨p1, p2⟩ := push_refines_run s c
    obtain ⟨i1, i2⟩ := ih (push s c).1
    simp only [pushAll, List.flatten_cons, run_append, events_append]
    rw [p1] at i1 i2
    rw [p1]
    exact ⟨i1, by rw [p2, i2]⟩

/-- **C01**: whatever the partition into pushes (any number, any sizes, empty pieces included),
the bytes and end markers delivered after the final reset are the declarative segmentation of the stream -/
theorem C01_reset (chunks : List (List UInt8)) :
    events ((pushAll start chunks).2 ++ (reset (pushAll start chunks).1).2) = outside chunks.flatten := by
  obtain ⟨h1, h2⟩ := pushAll_run start chunks
  rw [events_append, h2, h1, ← show spec start chunks.flatten = outside chunks.flatten from rfl, ← run_spec]
  congr 1
  cases (run start chunks.flatten).1 <;> simp [reset, backtrack, resetEv, events, Call.events, zeros]

theorem C01_chunking (cs₁ cs₂ : List (List UInt8)) (h : cs₁.flatten = cs₂.flatten) :
    events ((pushAll start cs₁).2 ++ (reset (pushAll start cs₁).1).2) =
    events ((pushAll start cs₂).2 ++ (reset (pushAll start cs₂).1).2) := by
  rw [C01_reset, C01_reset, h]

/-- without reset: every prefix of the pushes has delivered the same thing however it was cut -/
theorem C01_prefix (cs₁ cs₂ : List (List UInt8)) (h : cs₁.flatten = cs₂.flatten) :
    events (pushAll start cs₁).2 = events (pushAll start cs₂).2 ∧ (pushAll start cs₁).1 = (pushAll start cs₂).1 := by
  obtain ⟨a1, a2⟩ := pushAll_run start cs₁
  obtain ⟨b1, b2⟩ := pushAll_run start cs₂
  rw [a1, a2, b1, b2, h]; exact ⟨rfl, rfl⟩

example : outside [0,0,0,1,0x67,0,0,3,0,0,1,0x68,0] =
    [.byte 0x67, .byte 0, .byte 0, .byte 3, .endUnit, .byte 0x68, .byte 0, .endUnit] := by
  simp [outside, inside]

#print axioms C01_reset
end AnnexB
