import H264.Mono
import H264.Sps
/-! Prototype for C17: the SPS parser is prefix-monotone, by structural application of the closure lemmas -/
namespace Sps
open Bits

/-- one structural step (extensible: later `macro_rules` add the lemmas of composite parsers) -/
syntax "mono_step" : tactic
macro_rules | `(tactic| mono_step) => `(tactic| first
  | exact Mono.pure _ | exact Mono.fail _ | exact mono_readUe _ | exact mono_readSe _
  | exact mono_readBool _ | exact mono_readBits _ _ | exact mono_hasMore _ | exact mono_finishRbsp
  | assumption
  | apply Mono.ite | refine Mono.bind ?_ (fun _ => ?_))

macro "mono" : tactic => `(tactic| repeat' mono_step)

theorem mono_readCpbSpec : Mono readCpbSpec := by unfold readCpbSpec; mono
macro_rules | `(tactic| mono_step) => `(tactic| exact mono_readCpbSpec)
theorem mono_readCpbSpecs (n) : Mono (readCpbSpecs n) := by
  induction n with
  | zero => exact Mono.pure _
  | succ n ih => unfold readCpbSpecs; mono
macro_rules | `(tactic| mono_step) => `(tactic| exact mono_readCpbSpecs _)
theorem mono_readHrd : Mono readHrd := by unfold readHrd; mono
macro_rules | `(tactic| mono_step) => `(tactic| exact mono_readHrd)
theorem mono_readSeList (name n) : Mono (readSeList name n) := by
  induction n with
  | zero => exact Mono.pure _
  | succ n ih => unfold readSeList; mono
macro_rules | `(tactic| mono_step) => `(tactic| exact mono_readSeList _ _)
theorem mono_readPicOrderCnt : Mono readPicOrderCnt := by unfold readPicOrderCnt; mono
macro_rules | `(tactic| mono_step) => `(tactic| exact mono_readPicOrderCnt)
theorem mono_readFrameMbsFlags : Mono readFrameMbsFlags := by unfold readFrameMbsFlags; mono
macro_rules | `(tactic| mono_step) => `(tactic| exact mono_readFrameMbsFlags)
theorem mono_readFrameCropping : Mono readFrameCropping := by unfold readFrameCropping; mono
macro_rules | `(tactic| mono_step) => `(tactic| exact mono_readFrameCropping)
theorem mono_readAspectRatioInfo : Mono readAspectRatioInfo := by unfold readAspectRatioInfo; mono
macro_rules | `(tactic| mono_step) => `(tactic| exact mono_readAspectRatioInfo)
theorem mono_readOverscan : Mono readOverscan := by unfold readOverscan; mono
macro_rules | `(tactic| mono_step) => `(tactic| exact mono_readOverscan)
theorem mono_readColourDescription : Mono readColourDescription := by unfold readColourDescription; mono
macro_rules | `(tactic| mono_step) => `(tactic| exact mono_readColourDescription)
theorem mono_readVideoSignalType : Mono readVideoSignalType := by unfold readVideoSignalType; mono
macro_rules | `(tactic| mono_step) => `(tactic| exact mono_readVideoSignalType)
theorem mono_readChromaLocInfo : Mono readChromaLocInfo := by unfold readChromaLocInfo; mono
macro_rules | `(tactic| mono_step) => `(tactic| exact mono_readChromaLocInfo)
theorem mono_readTimingInfo : Mono readTimingInfo := by unfold readTimingInfo; mono
macro_rules | `(tactic| mono_step) => `(tactic| exact mono_readTimingInfo)
theorem mono_readBitstreamRestrictions (m) : Mono (readBitstreamRestrictions m) := by
  unfold readBitstreamRestrictions; mono
macro_rules | `(tactic| mono_step) => `(tactic| exact mono_readBitstreamRestrictions _)
theorem mono_readVui (m) : Mono (readVui m) := by unfold readVui readLowDelayFlag; mono
macro_rules | `(tactic| mono_step) => `(tactic| exact mono_readVui _)

theorem mono_fillScalingList (n j last next ud acc) : Mono (fillScalingList n j last next ud acc) := by
  induction n generalizing j last next ud acc with
  | zero => exact Mono.pure _
  | succ n ih =>
    unfold fillScalingList
    have ih' : ∀ j last next ud acc, Mono (fillScalingList n j last next ud acc) := ih
    mono
    all_goals exact ih' _ _ _ _ _
macro_rules | `(tactic| mono_step) => `(tactic| exact mono_fillScalingList _ _ _ _ _ _)
theorem mono_readScalingList (size p) : Mono (readScalingList size p) := by
  unfold readScalingList; mono
macro_rules | `(tactic| mono_step) => `(tactic| exact mono_readScalingList _ _)
theorem mono_readScalingLists (s4 n i a4 a8) : Mono (readScalingLists s4 n i a4 a8) := by
  induction n generalizing i a4 a8 with
  | zero => exact Mono.pure _
  | succ n ih =>
    unfold readScalingLists
    mono
    all_goals exact ih _ _ _
macro_rules | `(tactic| mono_step) => `(tactic| exact mono_readScalingLists _ _ _ _ _)
theorem mono_readChromaInfo (p) : Mono (readChromaInfo p) := by
  unfold readChromaInfo readBitDepthMinus8 readSeparateColourPlane readOptScalingMatrix readSeqScalingMatrix
  mono
macro_rules | `(tactic| mono_step) => `(tactic| exact mono_readChromaInfo _)

/-- **C17 (SPS)**: on any truncated, still-incomplete view of an RBSP the SPS parser either blocks or agrees
with the run on the complete RBSP … -/
theorem mono_parseSps : Mono parseSps := by
  unfold parseSps; mono

#print axioms mono_parseSps
end Sps
