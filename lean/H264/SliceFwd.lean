import H264.SliceStd
/-! Prototype: forward round trip for the slice header sub-structures (C06) -/
namespace Slice
open Bits Sps Pps

def ModOp.WF : ModOp → Prop
  | .subtract v => Ue v | .add v => Ue v | .longTermRef v => Ue v

theorem u0 : (0:Nat) < 2^32 - 1 := by omega
theorem u1 : (1:Nat) < 2^32 - 1 := by omega
theorem u2 : (2:Nat) < 2^32 - 1 := by omega
theorem u3 : (3:Nat) < 2^32 - 1 := by omega
theorem u4 : (4:Nat) < 2^32 - 1 := by omega
theorem u5 : (5:Nat) < 2^32 - 1 := by omega
theorem u6 : (6:Nat) < 2^32 - 1 := by omega

theorem readModOps_enc (ops : List ModOp) (wf : ∀ o ∈ ops, o.WF) (fuel : Nat) (hf : ops.length < fuel) (rest fin) :
    readModOps fuel ⟨(ops.map encModOp).flatten ++ (encUe 3 ++ rest), fin⟩ = .ok (ops, ⟨rest, fin⟩) := by
  induction ops generalizing fuel with
  | nil =>
    cases fuel with
    | zero => omega
    | succ f => simp [readModOps, readUe_enc _ _ u3]
  | cons o ops ih =>
    cases fuel with
    | zero => omega
    | succ f =>
      have hf' : ops.length < f := by simp at hf; omega
      have ihh := ih (fun x hx => wf x (by simp [hx])) f hf'
      have ho := wf o (by simp)
      cases o with
      | subtract v =>
        simp [readModOps, encModOp, List.append_assoc, readUe_enc _ _ u0, readUe_enc _ _ (show v < 2^32-1 from ho), ihh]
      | add v =>
        simp [readModOps, encModOp, List.append_assoc, readUe_enc _ _ u1, readUe_enc _ _ (show v < 2^32-1 from ho), ihh]
      | longTermRef v =>
        simp [readModOps, encModOp, List.append_assoc, readUe_enc _ _ u2, readUe_enc _ _ (show v < 2^32-1 from ho), ihh]

theorem encUe_length_pos (k : Nat) : 1 ≤ (encUe k).length := by
  simp [encUe, encUe']; omega

theorem sum_ge_length {α} (f : α → Nat) (l : List α) (h : ∀ a ∈ l, 1 ≤ f a) :
    l.length ≤ (l.map f).sum := by
  induction l with
  | nil => simp
  | cons a l ih =>
    have h1 := h a (by simp)
    have h2 := ih (fun b hb => h b (by simp [hb]))
    simp; omega

theorem encModOp_length_pos (o : ModOp) : 1 ≤ (encModOp o).length := by
  cases o <;> simp [encModOp] <;>
    (have := encUe_length_pos 0; have := encUe_length_pos 1; have := encUe_length_pos 2; omega)

theorem encModOps_length (ops : List ModOp) : ops.length ≤ (List.map (List.length ∘ encModOp) ops).sum :=
  sum_ge_length _ ops (fun o _ => encModOp_length_pos o)

theorem readModList_enc (ops : List ModOp) (wf : ∀ o ∈ ops, o.WF) (rest fin) :
    readModList ⟨encModList ops ++ rest, fin⟩ = .ok (ops, ⟨rest, fin⟩) := by
  unfold encModList
  by_cases he : ops = []
  · subst he; simp [readModList]
  · simp only [he, ↓reduceIte, List.append_assoc]
    simp only [readModList, bind_run, readBool_enc, Bool.not_true, Bool.false_eq_true, ↓reduceIte]
    apply readModOps_enc ops wf
    have := encModOps_length ops
    simp; omega

def Mmco.WF : Mmco → Prop
  | .shortTermUnused d => Ue d
  | .longTermUnused n => Ue n
  | .shortTermToLongTerm d i => Ue d ∧ Ue i
  | .maxLongTermIdx m => Ue m
  | .allUnused => True
  | .currentToLongTerm i => Ue i

theorem readMmcos_enc (ops : List Mmco) (wf : ∀ o ∈ ops, o.WF) (fuel : Nat) (hf : ops.length < fuel) (rest fin) :
    readMmcos fuel ⟨(ops.map encMmco).flatten ++ (encUe 0 ++ rest), fin⟩ = .ok (ops, ⟨rest, fin⟩) := by
  induction ops generalizing fuel with
  | nil =>
    cases fuel with
    | zero => omega
    | succ f => simp [readMmcos, readUe_enc _ _ u0]
  | cons o ops ih =>
    cases fuel with
    | zero => omega
    | succ f =>
      have hf' : ops.length < f := by simp at hf; omega
      have ihh := ih (fun x hx => wf x (by simp [hx])) f hf'
      have ho := wf o (by simp)
      cases o with
      | shortTermUnused d =>
        simp [readMmcos, encMmco, List.append_assoc, readUe_enc _ _ u1, readUe_enc _ _ (show d < 2^32-1 from ho), ihh]
      | longTermUnused n =>
        simp [readMmcos, encMmco, List.append_assoc, readUe_enc _ _ u2, readUe_enc _ _ (show n < 2^32-1 from ho), ihh]
      | shortTermToLongTerm d i =>
        obtain ⟨h1, h2⟩ := ho
        simp [readMmcos, encMmco, List.append_assoc, readUe_enc _ _ u3, readUe_enc _ _ (show d < 2^32-1 from h1),
          readUe_enc _ _ (show i < 2^32-1 from h2), ihh]
      | maxLongTermIdx m =>
        simp [readMmcos, encMmco, List.append_assoc, readUe_enc _ _ u4, readUe_enc _ _ (show m < 2^32-1 from ho), ihh]
      | allUnused =>
        simp [readMmcos, encMmco, List.append_assoc, readUe_enc _ _ u5, ihh]
      | currentToLongTerm i =>
        simp [readMmcos, encMmco, List.append_assoc, readUe_enc _ _ u6, readUe_enc _ _ (show i < 2^32-1 from ho), ihh]

theorem encMmco_length_pos (o : Mmco) : 1 ≤ (encMmco o).length := by
  cases o <;> simp [encMmco] <;>
    (have := encUe_length_pos 1; have := encUe_length_pos 2; have := encUe_length_pos 3
     have := encUe_length_pos 4; have := encUe_length_pos 5; have := encUe_length_pos 6; omega)

theorem encMmcos_length (ops : List Mmco) : ops.length ≤ (List.map (List.length ∘ encMmco) ops).sum :=
  sum_ge_length _ ops (fun o _ => encMmco_length_pos o)

def DecRefPicMarking.WF (hdr : NalHdr) : DecRefPicMarking → Prop
  | .idr _ _ => hdr.nalUnitType = 5
  | .slidingWindow => hdr.nalUnitType ≠ 5
  | .adaptive ops => hdr.nalUnitType ≠ 5 ∧ ∀ o ∈ ops, o.WF

theorem readDecRefPicMarking_enc (hdr : NalHdr) (m : DecRefPicMarking) (wf : m.WF hdr) (rest fin) :
    readDecRefPicMarking hdr ⟨encDecRefPicMarking m ++ rest, fin⟩ = .ok (m, ⟨rest, fin⟩) := by
  cases m with
  | idr a b =>
    have h5 : hdr.nalUnitType = 5 := wf
    simp [readDecRefPicMarking, encDecRefPicMarking, h5, List.append_assoc]
  | slidingWindow =>
    have h5 : hdr.nalUnitType ≠ 5 := wf
    simp [readDecRefPicMarking, encDecRefPicMarking, h5]
  | adaptive ops =>
    obtain ⟨h5, hops⟩ := wf
    have hlen := encMmcos_length ops
    have := readMmcos_enc ops hops (((ops.map encMmco).flatten ++ (encUe 0 ++ rest)).length + 1)
      (by simp; omega) rest fin
    simp [readDecRefPicMarking, encDecRefPicMarking, h5, List.append_assoc]
    simp at this
    rw [this]


/-! ### pred_weight_table -/

def LumaW.WF : Option (Int × Int) → Prop
  | none => True
  | some (w, o) => SeRange w ∧ SeRange o

def ChromaW.WF (cw : List (Int × Int)) : Prop :=
  cw = [] ∨ (∃ a b, cw = [a, b] ∧ SeRange a.1 ∧ SeRange a.2 ∧ SeRange b.1 ∧ SeRange b.2)

theorem readLumaWeight_enc (lw : Option (Int × Int)) (wf : LumaW.WF lw) (rest fin) :
    readLumaWeight ⟨encLumaW lw ++ rest, fin⟩ = .ok (lw, ⟨rest, fin⟩) := by
  cases lw with
  | none => simp [readLumaWeight, encLumaW]
  | some p =>
    obtain ⟨w, o⟩ := p
    obtain ⟨h1, h2⟩ := wf
    simp [readLumaWeight, encLumaW, List.append_assoc, readSe_enc _ _ h1, readSe_enc _ _ h2]

theorem readChromaWeights_enc (cw : List (Int × Int)) (wf : ChromaW.WF cw) (rest fin) :
    readChromaWeights ⟨encChromaW cw ++ rest, fin⟩ = .ok (cw, ⟨rest, fin⟩) := by
  rcases wf with rfl | ⟨a, b, rfl, ha1, ha2, hb1, hb2⟩
  · simp [readChromaWeights, encChromaW]
  · simp [readChromaWeights, encChromaW, List.append_assoc, readSe_enc _ _ ha1, readSe_enc _ _ ha2,
      readSe_enc _ _ hb1, readSe_enc _ _ hb2]

theorem readPredWeightEntries_enc (chroma : Bool) (lws : List (Option (Int × Int))) (cws : List (List (Int × Int)))
    (hl : ∀ l ∈ lws, LumaW.WF l)
    (hc : if chroma then cws.length = lws.length ∧ ∀ c ∈ cws, ChromaW.WF c else cws = [])
    (rest fin) :
    readPredWeightEntries chroma lws.length ⟨encPredWeightEntries chroma lws cws ++ rest, fin⟩
      = .ok ((lws, cws), ⟨rest, fin⟩) := by
  induction lws generalizing cws with
  | nil =>
    cases chroma with
    | true => simp at hc; simp [readPredWeightEntries, encPredWeightEntries, hc]
    | false => simp at hc; simp [readPredWeightEntries, encPredWeightEntries, hc]
  | cons lw lws ih =>
    have hlw := hl lw (by simp)
    cases chroma with
    | false =>
      simp only [Bool.false_eq_true, ↓reduceIte] at hc
      subst hc
      have ihh := ih [] (fun l h => hl l (by simp [h])) (by simp)
      simp [readPredWeightEntries, encPredWeightEntries, List.append_assoc, readLumaWeight_enc _ hlw, ihh]
    | true =>
      simp only [↓reduceIte] at hc
      obtain ⟨hlen, hcw⟩ := hc
      cases cws with
      | nil => simp at hlen
      | cons cw cws' =>
        have hcw0 := hcw cw (by simp)
        have ihh := ih cws' (fun l h => hl l (by simp [h]))
          (by simp only [↓reduceIte]; exact ⟨by simpa using hlen, fun c h => hcw c (by simp [h])⟩)
        simp [readPredWeightEntries, encPredWeightEntries, List.append_assoc, readLumaWeight_enc _ hlw,
          readChromaWeights_enc _ hcw0, ihh]

#print axioms readPredWeightEntries_enc
end Slice
