import H264.Context
import H264.SpsRangesAll
import H264.PpsExact
import H264.Overflow
import H264.SliceExact
/-! # The parameter-set context as history (C03 / C16 / C19 quantifier "all contexts reachable by earlier accepted inputs")

A context is only ever built by feeding NAL payloads to the SPS / PPS parsers and storing what they accept
(`Context::put_seq_param_set`, `put_pic_param_set`; `AvcDecoderConfigurationRecord::create_context` does the same).
`run` folds an arbitrary sequence of such feeds; `Inv` is what every reachable context satisfies, whatever the bytes
and whatever their order — in particular after a PPS's SPS has been replaced by a different SPS with the same id. -/
namespace History
open Bits

structure St where
  sps : Ctx.PMap Sps.Sps := []
  pps : Ctx.PMap Pps.Pps := []

inductive Op where
  | sps (src : Src)   -- the bits of a type-7 NAL
  | pps (src : Src)   -- the bits of a type-8 NAL

/-- parse against the current context; store on success, leave the context alone on error -/
def step (st : St) : Op → St
  | .sps src => match Sps.parseSps src with
    | .ok (v, _) => { st with sps := Ctx.put st.sps v.spsId v }
    | .error _ => st
  | .pps src => match Pps.parsePps (Ctx.get st.sps) src with
    | .ok (v, _) => { st with pps := Ctx.put st.pps v.ppsId v }
    | .error _ => st

def run (ops : List Op) (st : St := {}) : St := ops.foldl step st

def sctx (st : St) : Slice.Ctx := ⟨Ctx.get st.sps, Ctx.get st.pps⟩

/-- the bounds of `parseSps_ranges_all`, as a predicate on the value -/
def SpsGood (v : Sps.Sps) : Prop :=
  v.RangesCore ∧ v.chromaInfo.bitDepthLumaMinus8 ≤ 6 ∧ v.chromaInfo.bitDepthChromaMinus8 ≤ 6 ∧
  (∀ m, v.chromaInfo.scalingMatrix = some m →
    m.l4x4.length = 6 ∧ m.l8x8.length = if v.chromaInfo.chromaFormat = .yuv444 then 6 else 2)

/-- a stored PPS was accepted against *some* in-range SPS carrying the id it names (the one in the context at that
moment — it may since have been replaced) -/
def PpsGood (v : Pps.Pps) : Prop :=
  ∃ sp sm, SpsGood sp ∧ sp.spsId = v.spsId ∧ v.WF sp sm

def Inv (st : St) : Prop :=
  (∀ i v, Ctx.get st.sps i = some v → v.spsId = i ∧ SpsGood v) ∧
  (∀ i v, Ctx.get st.pps i = some v → v.ppsId = i ∧ PpsGood v)

theorem inv_empty : Inv {} := by
  constructor <;> intro i v h <;> simp [Ctx.get] at h

theorem step_inv (st : St) (op : Op) (h : Inv st) : Inv (step st op) := by
  obtain ⟨hs, hp⟩ := h
  cases op with
  | sps src =>
    simp only [step]
    cases hr : Sps.parseSps src with
    | error e => exact ⟨hs, hp⟩
    | ok r =>
      obtain ⟨v, s'⟩ := r
      refine ⟨?_, hp⟩
      intro i w hw
      simp only at hw
      rw [Ctx.get_put] at hw
      by_cases hi : i = v.spsId
      · subst hi
        simp only [↓reduceIte, Option.some.injEq] at hw
        subst hw
        obtain ⟨a, b, c, d, _⟩ := Sps.parseSps_ranges_all src s' v hr
        exact ⟨rfl, a, b, c, d⟩
      · simp only [hi, ↓reduceIte] at hw
        exact hs i w hw
  | pps src =>
    simp only [step]
    cases hr : Pps.parsePps (Ctx.get st.sps) src with
    | error e => exact ⟨hs, hp⟩
    | ok r =>
      obtain ⟨v, s'⟩ := r
      refine ⟨hs, ?_⟩
      intro i w hw
      simp only at hw
      rw [Ctx.get_put] at hw
      by_cases hi : i = v.ppsId
      · subst hi
        simp only [↓reduceIte, Option.some.injEq] at hw
        subst hw
        obtain ⟨sp, sm, z, hsp, wf, _, _⟩ := Pps.C05_converse (Ctx.get st.sps) src s' v hr
        obtain ⟨hid, hg⟩ := hs _ _ hsp
        exact ⟨rfl, sp, sm, hg, hid, wf⟩
      · simp only [hi, ↓reduceIte] at hw
        exact hp i w hw

/-- **every reachable context** satisfies the invariant: by induction over the history, for arbitrary inputs -/
theorem run_inv (ops : List Op) (st : St) (h : Inv st) : Inv (run ops st) := by
  induction ops generalizing st with
  | nil => exact h
  | cons op ops ih => exact ih (step st op) (step_inv st op h)

theorem reachable_inv (ops : List Op) : Inv (run ops) := run_inv ops {} inv_empty

/-- so the PPS parser's `u8` product `6 * bit_depth_luma_minus8` and the `i32` negation fit for whatever SPS a
reachable context hands it -/
theorem reachable_qp_bound_fits (ops : List Op) (i : Nat) (v : Sps.Sps) (h : Ctx.get (run ops).sps i = some v) :
    Overflow.FitsU8 (6 * (v.chromaInfo.bitDepthLumaMinus8 : Int)) ∧
    Overflow.FitsI32 (-(26 + 6 * (v.chromaInfo.bitDepthLumaMinus8 : Int))) := by
  obtain ⟨_, _, hb, _⟩ := (reachable_inv ops).1 i v h
  unfold Overflow.FitsU8 Overflow.FitsI32
  omega

/-- and the slice-header parser's bit widths (`log2_max_frame_num_minus4 + 4`, POC lsb width) are at most 16, its
`x + 1` on SPS dimensions fit, for every SPS a reachable context can return -/
theorem reachable_sps_widths (ops : List Op) (i : Nat) (v : Sps.Sps) (h : Ctx.get (run ops).sps i = some v) :
    v.spsId = i ∧ i ≤ 31 ∧ v.log2MaxFrameNumMinus4 + 4 ≤ 16 ∧ v.picWidthInMbsMinus1 + 1 < 2^32 ∧
    v.picHeightInMapUnitsMinus1 + 1 < 2^32 := by
  obtain ⟨hid, hc, _⟩ := (reachable_inv ops).1 i v h
  obtain ⟨_, _, _, h31, hl, _, _, hw, hh, _⟩ := hc
  unfold Sps.Ue at hw hh
  refine ⟨hid, by omega, by omega, by omega, by omega⟩

/-- a slice header accepted in a reachable context returns parameter sets that are the context entries named by its
ids **and** satisfy the stored-value invariants -/
theorem reachable_slice_params (ops : List Op) (hdr : Slice.NalHdr) (s s' : Src) (h : Slice.SliceHeader) (sid pid : Nat)
    (hok : Slice.parseSliceHeader (sctx (run ops)) hdr s = .ok ((h, sid, pid), s')) :
    ∃ pps sps, Ctx.get (run ops).pps pid = some pps ∧ pps.ppsId = pid ∧ pps.spsId = sid ∧
      Ctx.get (run ops).sps sid = some sps ∧ sps.spsId = sid ∧ SpsGood sps ∧ PpsGood pps := by
  obtain ⟨pps, sps, h1, h2, h3, _⟩ := Slice.C16_slice (sctx (run ops)) hdr s s' h sid pid hok
  have i1 := (reachable_inv ops).2 pid pps h1
  have i2 := (reachable_inv ops).1 sid sps h3
  exact ⟨pps, sps, h1, i1.1, h2, h3, i2.1, i2.2, i1.2⟩

#print axioms reachable_inv
#print axioms reachable_slice_params
end History
