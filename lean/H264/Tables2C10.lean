import H264.Tables2
/-! theorems of `Tables2` that belong to C10 (a module of their own, so that a broken table or row of another property does not
take this property's module down with it) -/
namespace Tables2
open Generated

/-- SEI payload types 0…511 (one- to three-byte codings): the reader delivers every message, and distinct
payloadType values are reported as distinct types -/
theorem seiType_rows : seiType.length = 512 ∧ ∀ i : Fin 512, seiType.getD i.val 999 = i.val := by
  decide +kernel

theorem seiType_injective : seiType.length = 512 ∧
    (∀ i : Fin 512, seiType.getD i.val 999 < 998) ∧
    (∀ i : Fin 512, ∀ j : Fin 512, seiType.getD i.val 999 = seiType.getD j.val 999 → i = j) := by
  obtain ⟨hl, hid⟩ := seiType_rows
  refine ⟨hl, ?_, ?_⟩
  · intro i; rw [hid i]; omega
  · intro i j h; rw [hid i, hid j] at h; exact Fin.ext h

end Tables2
