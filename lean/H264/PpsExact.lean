import H264.PpsC05
import H264.SpsExact
/-! Prototype: converse for the PPS (C05 converse, C16 PPS part) -/
namespace Pps
open Bits Sps

theorem readUeList_exact (name tag) (bound n : Nat) (s s' : Src) (xs : List Nat)
    (h : readUeList name bound tag n s = .ok (xs, s')) :
    xs.length = n ∧ (∀ x ∈ xs, x ≤ bound) ∧ s.bits = (xs.map encUe).flatten ++ s'.bits ∧ s'.fin = s.fin := by
  induction n generalizing s xs with
  | zero => obtain ⟨rfl, rfl⟩ := pure_ok h; simp
  | succ n ih =>
    unfold readUeList at h
    bind_step h with x s1 h1
    obtain ⟨x1, x2, x3⟩ := readUe_exact _ _ _ _ h1
    by_cases hc : x > bound
    · simp [hc] at h
    simp only [hc, ↓reduceIte] at h
    bind_step h with ys s2 h2
    obtain ⟨rfl, rfl⟩ := pure_ok h
    obtain ⟨y0, y1, y2, y3⟩ := ih _ _ h2
    refine ⟨by simp [y0], ?_, by simp [x2, y2, List.append_assoc], by rw [y3, x3]⟩
    intro z hz; simp at hz; rcases hz with rfl | hz
    · omega
    · exact y1 z hz

theorem readRects_exact (sp : Sps.Sps) (n : Nat) (s s' : Src) (rs : List (Nat × Nat))
    (h : readRects sp n s = .ok (rs, s')) :
    rs.length = n ∧
    (∀ r ∈ rs, r.1 ≤ r.2 ∧ r.2 ≤ picSizeInMapUnits sp ∧ r.2 < 2^32 - 1 ∧
      r.1 % picWidthInMbs sp ≤ r.2 % picWidthInMbs sp) ∧
    s.bits = (rs.map fun r => encUe r.1 ++ encUe r.2).flatten ++ s'.bits ∧ s'.fin = s.fin := by
  induction n generalizing s rs with
  | zero => obtain ⟨rfl, rfl⟩ := pure_ok h; simp
  | succ n ih =>
    unfold readRects at h
    bind_step h with r s1 h1
    bind_step h with ys s2 h2
    obtain ⟨rfl, rfl⟩ := pure_ok h
    unfold readRect at h1
    bind_step h1 with tl t1 g1
    bind_step h1 with br t2 g2
    obtain ⟨a1, a2, a3⟩ := readUe_exact _ _ _ _ g1
    obtain ⟨b1, b2, b3⟩ := readUe_exact _ _ _ _ g2
    by_cases c1 : tl > br
    · simp [c1] at h1
    simp only [c1, ↓reduceIte] at h1
    by_cases c2 : br > picSizeInMapUnits sp
    · simp [c2] at h1
    simp only [c2, ↓reduceIte] at h1
    by_cases c3 : tl % picWidthInMbs sp > br % picWidthInMbs sp
    · simp [c3] at h1
    simp only [c3, ↓reduceIte] at h1
    obtain ⟨rfl, rfl⟩ := pure_ok h1
    obtain ⟨y0, y1, y2, y3⟩ := ih _ _ h2
    refine ⟨by simp [y0], ?_, by simp [a2, b2, y2, List.append_assoc], by rw [y3, b3, a3]⟩
    intro z hz; simp at hz; rcases hz with rfl | hz
    · exact ⟨by show tl ≤ br; omega, by show br ≤ _; omega, b1, by show tl % _ ≤ br % _; omega⟩
    · exact y1 z hz

theorem readBitsList_exact (name) (w n : Nat) (s s' : Src) (xs : List Nat)
    (h : readBitsList name w n s = .ok (xs, s')) :
    xs.length = n ∧ (∀ x ∈ xs, x < 2^w) ∧ s.bits = (xs.map (encBits w)).flatten ++ s'.bits ∧ s'.fin = s.fin := by
  induction n generalizing s xs with
  | zero => obtain ⟨rfl, rfl⟩ := pure_ok h; simp
  | succ n ih =>
    unfold readBitsList at h
    bind_step h with x s1 h1
    bind_step h with ys s2 h2
    obtain ⟨rfl, rfl⟩ := pure_ok h
    obtain ⟨x1, x2, x3⟩ := readBits_exact _ _ _ _ _ h1
    obtain ⟨y0, y1, y2, y3⟩ := ih _ _ h2
    refine ⟨by simp [y0], ?_, by simp [x2, y2, List.append_assoc], by rw [y3, x3]⟩
    intro z hz; simp at hz; rcases hz with rfl | hz
    · exact x1
    · exact y1 z hz

theorem readSliceGroups_exact (sp : Sps.Sps) (s s' : Src) (g : Option SliceGroup)
    (h : readSliceGroups sp s = .ok (g, s')) :
    OptWF (SliceGroup.WF sp) g ∧ s.bits = encSliceGroups g ++ s'.bits ∧ s'.fin = s.fin := by
  have hp := picSize_lt sp
  unfold readSliceGroups at h
  bind_step h with n s0 h0
  obtain ⟨n1, n2, n3⟩ := readUe_exact _ _ _ _ h0
  by_cases c7 : n > 7
  · simp [c7] at h
  simp only [c7, ↓reduceIte] at h
  by_cases c0 : n > 0
  · simp only [c0, ↓reduceIte] at h
    bind_step h with grp s1 h1
    obtain ⟨rfl, rfl⟩ := pure_ok h
    unfold readSliceGroup at h1
    bind_step h1 with t t0 g0
    obtain ⟨t1, t2, t3⟩ := readUe_exact _ _ _ _ g0
    by_cases e0 : t = 0
    · subst e0
      simp only [↓reduceIte] at h1
      bind_step h1 with rl u1 k1
      obtain ⟨rfl, rfl⟩ := pure_ok h1
      obtain ⟨r0, r1, r2, r3⟩ := readUeList_exact _ _ _ _ _ _ _ k1
      refine ⟨⟨by omega, by omega, r1⟩, ?_, by rw [r3, t3, n3]⟩
      have : rl.length - 1 = n := by omega
      simp [encSliceGroups, numGroupsMinus1, encSliceGroup, this, n2, t2, r2, List.append_assoc]
    · simp only [e0, ↓reduceIte] at h1
      by_cases e1 : t = 1
      · subst e1
        simp only [↓reduceIte] at h1
        obtain ⟨rfl, rfl⟩ := pure_ok h1
        exact ⟨⟨by omega, by omega⟩, by simp [encSliceGroups, numGroupsMinus1, encSliceGroup, n2, t2, List.append_assoc],
          by rw [t3, n3]⟩
      · simp only [e1, ↓reduceIte] at h1
        by_cases e2 : t = 2
        · subst e2
          simp only [↓reduceIte] at h1
          bind_step h1 with rs u1 k1
          obtain ⟨rfl, rfl⟩ := pure_ok h1
          obtain ⟨r0, r1, r2, r3⟩ := readRects_exact _ _ _ _ _ k1
          refine ⟨⟨by omega, by omega, r1⟩, ?_, by rw [r3, t3, n3]⟩
          simp [encSliceGroups, numGroupsMinus1, encSliceGroup, r0, n2, t2, r2, List.append_assoc]
        · simp only [e2, ↓reduceIte] at h1
          by_cases e3 : t = 3 ∨ t = 4 ∨ t = 5
          · simp only [e3, ↓reduceIte] at h1
            bind_step h1 with d u1 k1
            bind_step h1 with r u2 k2
            obtain ⟨d2, d3⟩ := readBool_exact _ _ _ _ k1
            obtain ⟨q1, q2, q3⟩ := readUe_exact _ _ _ _ k2
            by_cases cr : r > picSizeInMapUnits sp - 1
            · simp [cr] at h1
            simp only [cr, ↓reduceIte] at h1
            obtain ⟨rfl, rfl⟩ := pure_ok h1
            refine ⟨⟨e3, by omega, by omega, by omega⟩, ?_, by rw [q3, d3, t3, n3]⟩
            simp [encSliceGroups, numGroupsMinus1, encSliceGroup, n2, t2, d2, q2, List.append_assoc]
          · simp only [e3, ↓reduceIte] at h1
            by_cases e6 : t = 6
            · subst e6
              simp only [↓reduceIte] at h1
              bind_step h1 with sz u1 k1
              bind_step h1 with ids u2 k2
              obtain ⟨rfl, rfl⟩ := pure_ok h1
              obtain ⟨z1, z2, z3⟩ := readUe_exact _ _ _ _ k1
              obtain ⟨i0, i1, i2, i3⟩ := readBitsList_exact _ _ _ _ _ _ k2
              refine ⟨⟨by omega, by omega, by omega, by omega, i1⟩, ?_, by rw [i3, z3, t3, n3]⟩
              have : ids.length - 1 = sz := by omega
              simp [encSliceGroups, numGroupsMinus1, encSliceGroup, this, n2, t2, z2, i2, List.append_assoc]
            · simp [e6] at h1
  · simp only [c0, ↓reduceIte] at h
    obtain ⟨rfl, rfl⟩ := pure_ok h
    have : n = 0 := by omega
    subst this
    exact ⟨trivial, by simp [encSliceGroups, n2], n3⟩


theorem readPicScalingMatrix_exact (sp : Sps.Sps) (t : Bool) (s s' : Src) (m : Option PicScalingMatrix)
    (h : readPicScalingMatrix sp t s = .ok (m, s')) :
    ∃ sm, PicMatrixDerives sp t sm m ∧ s.bits = encPicScalingMatrix sm ++ s'.bits ∧ s'.fin = s.fin := by
  unfold readPicScalingMatrix at h
  bind_step h with pres s0 h0
  obtain ⟨p2, p3⟩ := readBool_exact _ _ _ _ h0
  cases pres with
  | false =>
    simp only [Bool.not_false, ↓reduceIte] at h
    obtain ⟨rfl, rfl⟩ := pure_ok h
    exact ⟨none, rfl, by simp [encPicScalingMatrix, p2], p3⟩
  | true =>
    simp only [Bool.not_true, Bool.false_eq_true, ↓reduceIte] at h
    bind_step h with mm s1 h1
    obtain ⟨rfl, rfl⟩ := pure_ok h
    obtain ⟨ls, x, y, hlen, hsp, hd, hm, hb, hf⟩ := readScalingLists_exact _ _ _ _ _ _ _ _ h1
    refine ⟨some ls, ⟨hlen, hd, x, y, hsp, ?_⟩, by simp [encPicScalingMatrix, p2, hb, List.append_assoc], by rw [hf, p3]⟩
    rw [hm]; simp

theorem hasMore_ok (name) (s s' : Src) (b : Bool) (h : hasMore name s = .ok (b, s')) :
    s' = s ∧ (b = false → s.fin = .eof ∧ (s.bits.drop 1).any id = false) := by
  unfold hasMore at h
  cases hb : s.bits with
  | nil =>
    simp only [hb] at h
    split at h
    · simp at h; obtain ⟨rfl, rfl⟩ := h; exact ⟨rfl, fun _ => ⟨by assumption, by simp⟩⟩
    · simp at h
  | cons x rest =>
    simp only [hb] at h
    by_cases ha : rest.any id
    · simp [ha] at h; obtain ⟨rfl, rfl⟩ := h; exact ⟨rfl, fun hf => by simp at hf⟩
    · simp only [ha, Bool.false_eq_true, ↓reduceIte] at h
      split at h
      · simp at h; obtain ⟨rfl, rfl⟩ := h
        exact ⟨rfl, fun _ => ⟨by assumption, by simpa using ha⟩⟩
      · simp at h

theorem readPpsExtra_exact (sp : Sps.Sps) (s s' : Src) (e : Option PpsExtra)
    (h : readPpsExtra sp s = .ok (e, s')) :
    ∃ sm, OptWF (fun e => e.WF sp sm) e ∧ s.bits = encPpsExtra e sm ++ s'.bits ∧ s'.fin = s.fin ∧
      (e = none → (s.bits.drop 1).any id = false) := by
  unfold readPpsExtra at h
  bind_step h with more s0 h0
  obtain ⟨hs0, hfalse⟩ := hasMore_ok _ _ _ _ h0
  subst hs0
  cases more with
  | false =>
    simp only [Bool.false_eq_true, ↓reduceIte] at h
    obtain ⟨rfl, rfl⟩ := pure_ok h
    exact ⟨none, trivial, by simp [encPpsExtra], rfl, fun _ => (hfalse rfl).2⟩
  | true =>
    simp only [↓reduceIte] at h
    bind_step h with t s1 h1
    bind_step h with m s2 h2
    bind_step h with q s3 h3
    obtain ⟨t2, t3⟩ := readBool_exact _ _ _ _ h1
    obtain ⟨sm, m1, m2, m3⟩ := readPicScalingMatrix_exact _ _ _ _ _ h2
    obtain ⟨q1, q2, q3⟩ := readSe_exact _ _ _ _ h3
    by_cases cq : q < -12 ∨ q > 12
    · simp [cq] at h
    simp only [cq, ↓reduceIte] at h
    obtain ⟨rfl, rfl⟩ := pure_ok h
    refine ⟨sm, ⟨m1, by show -12 ≤ q; omega, by show q ≤ 12; omega⟩, ?_, by rw [q3, m3, t3], by simp⟩
    simp [encPpsExtra, t2, m2, q2, List.append_assoc]

/-- **C05 (converse)** and **C16 (PPS)**: an accepted PPS bit string is the standard's encoding of the returned
structure (for some coded scaling syntax deriving the returned lists) followed by the trailing bits and zero
bits; the referenced SPS is the context entry; every range of `Pps.WF` holds -/
theorem C05_converse (spsById : Nat → Option Sps.Sps) (s s' : Src) (v : Pps)
    (h : parsePps spsById s = .ok (v, s')) :
    ∃ sp sm z, spsById v.spsId = some sp ∧ v.WF sp sm ∧ s.bits = encPps v sm ++ trailing z ∧ s.fin = .eof := by
  unfold parsePps at h
  bind_step h with ppsId s1 h1
  obtain ⟨a1, a2, a3⟩ := readUe_exact _ _ _ _ h1
  by_cases c1 : ppsId > 255
  · simp [c1] at h
  simp only [c1, ↓reduceIte] at h
  bind_step h with spsId s2 h2
  obtain ⟨b1, b2, b3⟩ := readUe_exact _ _ _ _ h2
  by_cases c2 : spsId > 31
  · simp [c2] at h
  simp only [c2, ↓reduceIte] at h
  cases hsp : spsById spsId with
  | none => simp [hsp] at h
  | some sp =>
    simp only [hsp] at h
    bind_step h with ec t1 g1
    bind_step h with bf t2 g2
    bind_step h with sg t3 g3
    bind_step h with l0 t4 g4
    bind_step h with l1 t5 g5
    bind_step h with wp t6 g6
    bind_step h with wb t7 g7
    bind_step h with qp t8 g8
    bind_step h with qs t9 g9
    bind_step h with cq t10 g10
    bind_step h with db t11 g11
    bind_step h with ci t12 g12
    bind_step h with rp t13 g13
    bind_step h with ext t14 g14
    obtain ⟨e2, e3⟩ := readBool_exact _ _ _ _ g1
    obtain ⟨f2, f3⟩ := readBool_exact _ _ _ _ g2
    obtain ⟨sg1, sg2, sg3⟩ := readSliceGroups_exact _ _ _ _ g3
    have hnum : ∀ (nm : String) (u u' : Src) (x : Nat), readNumRefIdx nm u = .ok (x, u') →
        x ≤ 31 ∧ u.bits = encUe x ++ u'.bits ∧ u'.fin = u.fin := by
      intro nm u u' x hx
      unfold readNumRefIdx at hx
      bind_step hx with w u1 hw
      obtain ⟨w1, w2, w3⟩ := readUe_exact _ _ _ _ hw
      by_cases cw : w > 31
      · simp [cw] at hx
      simp only [cw, ↓reduceIte] at hx
      obtain ⟨rfl, rfl⟩ := pure_ok hx
      exact ⟨by omega, w2, w3⟩
    obtain ⟨k1, k2, k3⟩ := hnum _ _ _ _ g4
    obtain ⟨m1, m2, m3⟩ := hnum _ _ _ _ g5
    obtain ⟨w2, w3⟩ := readBool_exact _ _ _ _ g6
    obtain ⟨x1, x2, x3⟩ := readBits_exact _ _ _ _ _ g7
    obtain ⟨y1, y2, y3⟩ := readSe_exact _ _ _ _ g8
    obtain ⟨z1, z2, z3⟩ := readSe_exact _ _ _ _ g9
    obtain ⟨o1, o2, o3⟩ := readSe_exact _ _ _ _ g10
    obtain ⟨d2, d3⟩ := readBool_exact _ _ _ _ g11
    obtain ⟨i2, i3⟩ := readBool_exact _ _ _ _ g12
    obtain ⟨r2, r3⟩ := readBool_exact _ _ _ _ g13
    obtain ⟨sm, x1', x2', x3', _⟩ := readPpsExtra_exact _ _ _ _ g14
    by_cases cqp : qp < -(26 + 6 * (sp.chromaInfo.bitDepthLumaMinus8 : Int)) ∨ qp > 25
    · simp [cqp] at h
    simp only [cqp, ↓reduceIte] at h
    by_cases cqs : qs < -26 ∨ qs > 25
    · simp [cqs] at h
    simp only [cqs, ↓reduceIte] at h
    by_cases ccq : cq < -12 ∨ cq > 12
    · simp [ccq] at h
    simp only [ccq, ↓reduceIte] at h
    bind_step h with u t15 g15
    obtain ⟨rfl, rfl⟩ := pure_ok h
    obtain ⟨f1', z, fz⟩ := finishRbsp_exact _ _ g15
    refine ⟨sp, sm, z, hsp, ?_, ?_, ?_⟩
    · refine ⟨by show ppsId ≤ 255; omega, by show spsId ≤ 31; omega, ?_, k1, m1, x1,
        by show _ ≤ qp; omega, by show qp ≤ 25; omega, by show _ ≤ qs; omega, by show qs ≤ 25; omega,
        by show _ ≤ cq; omega, by show cq ≤ 12; omega, ?_⟩
      · cases sg <;> simpa [OptWF] using sg1
      · cases ext <;> simpa [OptWF] using x1'
    · simp only [encPps, a2, b2, e2, f2, sg2, k2, m2, w2, x2, y2, z2, o2, d2, i2, r2, x2', fz, List.append_assoc]
    · rw [← f1', x3', r3, i3, d3, o3, z3, y3, x3, w3, m3, k3, sg3, f3, e3, b3, a3]

#print axioms C05_converse
end Pps
