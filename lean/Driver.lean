import H264.AnnexBL0
import H264.RefNal
import H264.DecodeNal
import H264.Accum
import H264.Sei
import H264.AvccCtx
import H264.NalSrc
import H264.Render2
import H264.Derived
import H264.SeiPayloads
import H264.Render3
import H264.Context
import H264.TblModel
import H264.SeiScratch
/-! Line-protocol driver: executes the model on the same case lines as the Rust harness and prints the same
canonical observation per line (see /verif/harness/src/run.rs for the formats). Core-only imports: links as a
native executable. -/
namespace Driver
open Bits

def hexVal (c : Char) : Nat :=
  if c.isDigit then c.toNat - '0'.toNat else if 'a' ≤ c ∧ c ≤ 'f' then c.toNat - 'a'.toNat + 10
  else if 'A' ≤ c ∧ c ≤ 'F' then c.toNat - 'A'.toNat + 10 else 0
/-- hex bytes; `R<hh>x<n>.` stands for the byte `hh` repeated `n` (decimal) times -/
def bytesOfHex (s : String) : List UInt8 :=
  let rec digits : List Char → Nat → Nat × List Char
    | c :: rest, n => if c.isDigit then digits rest (n * 10 + (c.toNat - '0'.toNat)) else (n, rest)   -- drops the closing '.'
    | [], n => (n, [])
  let rec go : Nat → List Char → List UInt8 → List UInt8
    | 0, _, acc => acc.reverse
    | fuel+1, 'R' :: a :: b :: 'x' :: rest, acc =>
      let (n, rest') := digits rest 0
      go fuel rest' (List.replicate n (UInt8.ofNat (hexVal a * 16 + hexVal b)) ++ acc)
    | fuel+1, a :: b :: rest, acc => go fuel rest (UInt8.ofNat (hexVal a * 16 + hexVal b) :: acc)
    | _, _, acc => acc.reverse
  go (s.length + 1) s.toList []
def hexDigit (n : Nat) : Char := if n < 10 then Char.ofNat (48 + n) else Char.ofNat (87 + n)
def hexOf (bs : List UInt8) : String :=
  String.ofList (bs.flatMap fun b => [hexDigit (b.toNat / 16), hexDigit (b.toNat % 16)])
def hexDigitU (n : Nat) : Char := if n < 10 then Char.ofNat (48 + n) else Char.ofNat (55 + n)
def hex2U (n : Nat) : String := String.ofList [hexDigitU (n / 16 % 16), hexDigitU (n % 16)]
def natOfHex (s : String) : Nat := s.toList.foldl (fun a c => a * 16 + hexVal c) 0
def chunksOf (s : String) : List (List UInt8) := if s = "-" then [] else (s.splitOn ",").map bytesOfHex

/-! ### annexb -/
def renderCall (c : AnnexB.Call) : String :=
  ",".intercalate (c.bufs.map hexOf) ++ ";" ++ (if c.fin then "1" else "0")

def annexbOps (ops : List String) : List (List AnnexB.Call) :=
  (ops.foldl (fun (acc : AnnexB.St × List (List AnnexB.Call)) op =>
    let (st, outs) := acc
    let (st', calls) := if op = "r" then AnnexB.reset st else AnnexB.push st (bytesOfHex (op.drop 2).toString)
    (st', calls :: outs)) (AnnexB.St.start, [])).2.reverse

def annexb (ops : List String) : String :=
  " ".intercalate ((annexbOps ops).map fun calls => "[" ++ " ".intercalate (calls.map renderCall) ++ "]")

def ioKind : Rbsp.IoKind → String
  | .eof => "Eof" | .wouldBlock => "WouldBlock" | .invalidData => "InvalidData"
def bkind : Bits.IoKind → String
  | .eof => "Eof" | .wouldBlock => "WouldBlock" | .invalidData => "InvalidData" | .invalidInput => "InvalidInput"

/-- `b` for Level 1b, `?` when the level_idc is not a level of Table A-1 (the code keeps it as `Unknown(idc)`) -/
def levelMark (idc : Nat) (is1b : Bool) : String :=
  if is1b then "b" else if [10, 11, 12, 13, 20, 21, 22, 30, 31, 32, 40, 41, 42, 50, 51, 52, 60, 61, 62].contains idc then "" else "?"

def ioRes : Except Rbsp.IoKind (List UInt8) → String
  | .ok b => "ok:" ++ hexOf b
  | .error k => "err:" ++ ioKind k

/-- drain: `fill_buf` / `consume(all)` until the end or an error; returns the reader, the bytes and the final status -/
def drainAll : Nat → Rbsp.BR → List UInt8 → Rbsp.BR × List UInt8 × String
  | 0, r, acc => (r, acc.reverse, "runaway")
  | fuel+1, r, acc =>     -- `acc` is kept reversed (linear time)
    match Rbsp.fillBuf r with
    | (r', .error k) => (r', acc.reverse, ioKind k)
    | (r', .ok buf) => if buf = [] then (r', acc.reverse, "end") else drainAll fuel (Rbsp.consume r' buf.length) (buf.reverse ++ acc)

/-! ### rbsp: ops `f`, `c<k>` (k clipped to what the last fill showed and was not yet consumed), `r<n>` -/
def rbsp (chunks : List (List UInt8)) (complete : Bool) (skip : Nat) (ops : List String) : String :=
  let r0 : Rbsp.BR := ⟨NalSrc.mkChunked chunks complete, if skip = 0 then .start else .skip skip, 0, 128⟩
  let (_, _, out) := ops.foldl (fun (acc : Rbsp.BR × Nat × List String) op =>
    let (r, avail, outs) := acc
    match op.toList with
    | 'f' :: _ =>
      let (r', res) := Rbsp.fillBuf r
      (r', (match res with | .ok b => b.length | .error _ => avail), ioRes res :: outs)
    | 'c' :: k =>
      let k := min (String.ofList k).toNat! avail
      (Rbsp.consume r k, avail - k, ("c" ++ toString k) :: outs)
    | 'r' :: n =>
      let (r', res) := Rbsp.read r (String.ofList n).toNat!
      (r', (match res with | .ok b => avail - b.length | .error _ => avail), ioRes res :: outs)
    | 'x' :: n =>
      -- `read_exact` (std default): repeat `read` until the buffer is full; an empty read is UnexpectedEof
      let n := (String.ofList n).toNat!
      let rec go : Nat → Rbsp.BR → Nat → List UInt8 → Rbsp.BR × String
        | 0, r, _, _ => (r, "runaway")
        | fuel+1, r, need, acc =>
          if need = 0 then (r, "ok:" ++ hexOf acc.reverse) else
          match Rbsp.read r need with
          | (r', .error k) => (r', "err:" ++ ioKind k)
          | (r', .ok b) => if b = [] then (r', "err:Eof") else go fuel r' (need - b.length) (b.reverse ++ acc)
      let (r', o) := go (n + 2) r n []
      (r', 0, o :: outs)
    | 'D' :: _ =>
      let (r', got, status) := drainAll (Rbsp.fuelFor r) r []
      (r', 0, ("D:" ++ hexOf got ++ ":" ++ status) :: outs)
    | _ => (r, avail, "bad" :: outs)) (r0, 0, [])
  " ".intercalate out.reverse

def decodenal (d : List UInt8) : String :=
  match Rbsp.decodeNal d with
  | .ok (borrowed, b) => (if borrowed then "B:" else "O:") ++ hexOf b
  | .error k => "err:" ++ ioKind k

/-! ### refnal: a reader and a spare slot (`cl` clones into it, `sw` swaps) -/
def refnal (chunks : List (List UInt8)) (complete : Bool) (ops : List String) : String :=
  let c0 := NalSrc.mkChunked chunks complete
  let hdr : Nat := match chunks with | (b :: _) :: _ => b.toNat | _ => 0
  let (_, _, _, out) := ops.foldl (fun (acc : Rbsp.Chunked × Rbsp.Chunked × (Nat × Nat) × List String) op =>
    let (c, sp, (avail, spAvail), outs) := acc
    if op = "cl" then (c, c, (avail, avail), "cl" :: outs)
    else if op = "sw" then (sp, c, (spAvail, avail), "sw" :: outs)
    else if op = "h" then (c, sp, (avail, spAvail), (if hdr ≥ 128 then "hdr:err" else s!"hdr:{hdr / 32 % 4},{hdr % 32}") :: outs)
    else match op.toList with
    | 'f' :: _ =>
      let res := c.fillBuf
      (c, sp, ((match res with | .ok b => b.length | .error _ => 0), spAvail), ioRes res :: outs)
    | 'c' :: k =>
      let k := min (String.ofList k).toNat! avail
      (c.consume k, sp, (0, spAvail), ("c" ++ toString k) :: outs)
    | 'r' :: n =>
      let (c', res) := c.read (String.ofList n).toNat!
      (c', sp, (0, spAvail), ioRes res :: outs)
    | _ => (c, sp, (avail, spAvail), "bad" :: outs)) (c0, c0, (0, 0), [])
  " ".intercalate out.reverse

/-- `refnalhuge n lg complete extra mode`: n chunks of 2^lg bytes + a last chunk of `extra` bytes. Up to 2^16 bytes in all the
model reader is *executed* with the same drain pattern as the harness (fill/consume, 64 KiB reads, or alternating); above that
the line is answered from the statement of `C15.reads_as_concatenation` / `end_is_stable` (every byte once and in order: the total
is the sum of the chunk lengths; then end of data or WouldBlock for ever) — the chunks of such a case are 4 GiB of list cells. -/
def refnalHuge (n lg : Nat) (complete : Bool) (extra : Nat) (mode : String) : String :=
  let size := 2 ^ lg
  let total := n * size + extra
  let e := if complete then "eof" else "WouldBlock"
  if total > 65536 then s!"total={total} bytes=ok end={e} again={e},{e}" else
  let pat (k : Nat) : List UInt8 := (List.range k).map fun i => UInt8.ofNat (i % 251)
  let chunks := List.replicate n (pat size) ++ (if extra > 0 then [pat extra] else [])
  let expect (pos : Nat) : UInt8 := if pos < n * size then UInt8.ofNat (pos % size % 251) else UInt8.ofNat ((pos - n * size) % 251)
  let rec go (fuel : Nat) (c : Rbsp.Chunked) (turn tot : Nat) (ok : Bool) : Rbsp.Chunked × Nat × Bool × String :=
    match fuel with
    | 0 => (c, tot, ok, "runaway")
    | fuel+1 =>
      let turn := turn + 1
      if mode = "r" ∨ (mode = "m" ∧ turn % 3 = 0) then
        match c.read 65536 with
        | (_, .error k) => (c, tot, ok, ioKind k)
        | (c', .ok bs) => if bs = [] then (c', tot, ok, "eof") else
            go fuel c' turn (tot + bs.length) (ok && bs.head? == some (expect tot) && bs.getLast? == some (expect (tot + bs.length - 1)))
      else
        match c.fillBuf with
        | .error k => (c, tot, ok, ioKind k)
        | .ok bs => if bs = [] then (c, tot, ok, "eof") else
            go fuel (c.consume bs.length) turn (tot + bs.length) (ok && bs.head? == some (expect tot) && bs.getLast? == some (expect (tot + bs.length - 1)))
  let (c, tot, ok, fin) := go (total + 4) (NalSrc.mkChunked chunks complete) 0 0 true
  let a1 := match c.fillBuf with | .ok bs => if bs = [] then "eof" else s!"data{bs.length}" | .error k => ioKind k
  let a2 := match (c.read 1).2 with | .ok bs => if bs = [] then "eof" else s!"data{bs.length}" | .error k => ioKind k
  s!"total={tot} bytes={if ok then "ok" else "WRONG"} end={fin} again={a1},{a2}"

/-! ### acc -/
def renderInv (i : Accum.Invocation) : String :=
  hexOf i.head ++ "|" ++ ",".intercalate (i.tail.map hexOf) ++ "|" ++ (if i.complete then "1" else "0")

def acc (steps : List String) : String :=
  let (_, out) := steps.foldl (fun (st : Accum.Acc × List String) step =>
    let (a, outs) := st
    match step.splitOn ";" with
    | [bufs, e, ans] =>
      let bs := if bufs = "" then [] else (bufs.splitOn ",").map bytesOfHex
      let answer := if ans = "I" then Accum.Interest.ignore else Accum.Interest.buffer
      let (a', inv) := Accum.frag a bs (e = "1") (fun _ => answer)
      (a', (match inv with | none => "-" | some i => renderInv i) :: outs)
    | _ => (a, "bad" :: outs)) (Accum.init, [])
  " ".intercalate out.reverse

/-! ### sei: all messages, then three more calls -/
def errStr : Bits.Err → String
  | .io n k => "Io(" ++ n ++ "," ++ bkind k ++ ")"
  | .tooLarge n => s!"TooLarge({n})"
  | .remaining => "Remaining"
  | _ => "Other"

def seiGo : Nat → Nat → Sei.Reader → List UInt8 → List String → List String
  | 0, _, _, _, acc => acc
  | fuel+1, extra, r, sc, acc =>
    if extra ≥ 4 then acc else
    -- the reader with its scratch vector (`Sei.nextS`; proved to return what the scratch-free `Sei.next` returns)
    match Sei.nextS r sc with
    | (r', .ok (some m), sc') => seiGo fuel extra r' sc' (("msg:" ++ toString m.1 ++ ":" ++ hexOf m.2) :: acc)
    | (r', .ok none, sc') => seiGo fuel (extra + 1) r' sc' ("end" :: acc)
    | (r', .error e, sc') => seiGo fuel (extra + 1) r' sc' (("err:" ++ errStr e) :: acc)

def seiOn (chunks : List (List UInt8)) (complete : Bool) : String :=
  let d := NalSrc.drain (NalSrc.rbspBytes chunks complete)
  " ".intercalate (seiGo (d.1.length + 8) 0 ⟨⟨d.1, NalSrc.kindOf d.2⟩, 0, false⟩ (List.replicate 7 0xAA) []).reverse

/-! ### avcc -/
def avccRes {α} (f : α → String) : Avcc.Res α → String
  | .ok a => "Ok(" ++ f a ++ ")"
  | .notEnoughData e a => s!"NotEnoughData({e},{a})"
  | .unsupportedVersion v => s!"UnsupportedVersion({v})"
  | .paramSetErr t => s!"ParamSet({t})"
  | .panic t => s!"PANIC({t})"

def avcc (d : List UInt8) : String :=
  match Avcc.tryFrom d with
  | .ok () =>
    let f := match Avcc.fields d with
      | .ok f => s!"v={f.version} n={f.numSps} prof={f.profile} compat={f.compat} level={f.level}{levelMark f.level f.levelIs1b} lsm1={f.lengthSizeMinusOne}"
      | _ => "PANIC"
    let ctx := match Avcc.createContext d with
      | .ok c => "Ok(sps=[" ++ ";".intercalate ((Ctx.iter c.sps).map Render.sps) ++ "] pps=[" ++ ";".intercalate ((Ctx.iter c.pps).map Render.pps) ++ "])"
      | .error (.paramSet _) => "Err(ParamSet)"
      | .error .sps => "Err(Sps)"
      | .error .pps => "Err(Pps)"
      | .error (.panic _) => "PANIC"
    "Ok " ++ f ++ " sps=" ++ avccRes (fun l => ",".intercalate (l.map hexOf)) (Avcc.spsList d) ++
    " pps=" ++ avccRes (fun l => ",".intercalate (l.map hexOf)) (Avcc.ppsList d) ++ " ctx=" ++ ctx
  | r => avccRes (fun _ => "") r

/-! ### parsers against a context -/
structure St where
  sps : Ctx.PMap Sps.Sps := []
  pps : Ctx.PMap Pps.Pps := []

def St.sctx (st : St) : Slice.Ctx := ⟨Ctx.get st.sps, Ctx.get st.pps⟩

def errClass : Bits.Err → String
  | .io _ .wouldBlock => "WouldBlock"
  | .panic _ => "PANIC"
  | _ => "Err"

def bitStr (l : List Bool) : String := String.ofList (l.map fun b => if b then '1' else '0')

def spsOn (st : St) (src : Src) : St × String :=
  match Sps.parseSps src with
  | .ok (v, _) => ({ st with sps := Ctx.put st.sps v.spsId v }, s!"Ok({Render.sps v})")
  | .error e => (st, errClass e)

def ppsOn (st : St) (src : Src) : St × String :=
  match Pps.parsePps (Ctx.get st.sps) src with
  | .ok (v, _) => ({ st with pps := Ctx.put st.pps v.ppsId v }, s!"Ok({Render.pps v})")
  | .error e => (st, errClass e)

def sliceOn (st : St) (hdr : Nat) (src : Src) : String :=
  match Slice.parseSliceHeader st.sctx ⟨hdr / 32 % 4, hdr % 32⟩ src with
  | .ok ((v, sid, pid), rest) =>
    s!"Ok({Render.sliceHeader v}) sps={sid} pps={pid} ctxrefs=true left={rest.bits.length} next={bitStr (rest.bits.take 16)}"
  | .error e => errClass e

/-- `nal <chunks> <complete>`: by NAL type, against the context -/
def nalOn (st : St) (chunks : List (List UInt8)) (complete : Bool) : St × String :=
  let hdr : Nat := match chunks with | (b :: _) :: _ => b.toNat | _ => 0
  if hdr ≥ 128 then (st, "hdr:err") else
  let ty := hdr % 32
  if ty = 7 then let (st', o) := spsOn st (NalSrc.srcOfNal chunks complete); (st', "sps:" ++ o)
  else if ty = 8 then let (st', o) := ppsOn st (NalSrc.srcOfNal chunks complete); (st', "pps:" ++ o)
  else if ty = 1 ∨ ty = 5 then (st, "slice:" ++ sliceOn st hdr (NalSrc.srcOfNal chunks complete))
  else if ty = 6 then (st, "sei:" ++ seiOn chunks complete)
  else (st, s!"other:{ty}")

/-! ### bits -/
def bitsRun (src : Src) (ops : List String) : String :=
  let (_, out) := ops.foldl (fun (acc : Option Src × List String) op =>
    match acc with
    | (none, o) => (none, "-" :: o)
    | (some s, o) =>
      let fin (r : Except Err (Unit × Src)) := match r with | .ok _ => (none, "ok" :: o) | .error e => (none, errStr e :: o)
      let cont {α} (f : α → String) (r : Except Err (α × Src)) := match r with | .ok (v, s') => (some s', f v :: o) | .error e => (none, errStr e :: o)
      if op = "ue" then cont toString (readUe "f" s)
      else if op = "se" then cont toString (readSe "f" s)
      else if op = "b" then cont toString (readBool "f" s)
      else if op = "more" then cont toString (hasMore "f" s)
      else if op = "finish" then fin (finishRbsp s)
      else if op = "seifinish" then fin (finishSei s)
      else if op = "rd" then
        -- byte-aligned borrow of the underlying reader, one byte consumed through it
        (if s.bits.length % 8 ≠ 0 then (some s, "rd:unaligned" :: o)
         else if s.bits.length ≥ 8 then (some { s with bits := s.bits.drop 8 }, "rd:1" :: o)
         else match s.fin with | .eof => (some s, "rd:0" :: o) | _ => (none, "rd:err" :: o))
      else if op.startsWith "skip" then cont (fun _ => "ok") (readBits "f" (op.drop 4).toString.toNat! s)
      else cont toString (readBits "f" (op.drop 1).toString.toNat! s))
    (some src, [])
  " ".intercalate out.reverse

/-! ### derived values -/
def derived (src : Src) : String :=
  match Sps.parseSps src with
  | .error e => errClass e
  | .ok (s, _) =>
    let dims := match Sps.pixelDimensions s with | .ok (w, h) => s!"Ok({w},{h})" | .error _ => "Err"
    let fps := match Sps.fpsOf s with | none => "None" | some (ts, n) => s!"Some({ts},{n},exact)"
    s!"Ok dims={dims} fps={fps} codec={Sps.rfc6381 s} mbs={Sps.picWidthInMbs s},{Sps.picHeightInMapUnits s},{Sps.picSizeInMapUnits s} profile={s.profileIdc} level={s.levelIdc}{levelMark s.levelIdc (s.levelIdc = 11 ∧ s.constraintFlags / 16 % 2 = 1)} log2fn={s.log2MaxFrameNumMinus4 + 4}"

/-! ### context operations -/
def ctxOps (ops : List String) : String :=
  let (_, _, out) := ops.foldl (fun (acc : Ctx.PMap Nat × Ctx.PMap Nat × List String) op =>
    let (sm, pm, o) := acc
    let rend (l : List (Nat × Nat)) := "[" ++ ";".intercalate (l.map fun p => s!"{p.1},{p.2}") ++ "]"
    if op.startsWith "gs" then
      let id := (op.drop 2).toString.toNat!
      (sm, pm, (if id > 31 then "badid" else match Ctx.get sm id with | some t => s!"some({id},{t})" | none => "none") :: o)
    else if op.startsWith "gp" then
      let id := (op.drop 2).toString.toNat!
      (sm, pm, (if id > 255 then "badid" else match Ctx.get pm id with | some t => s!"some({id},{t})" | none => "none") :: o)
    else if op = "is" then (sm, pm, rend (Ctx.entries sm) :: o)
    else if op = "ip" then (sm, pm, rend (Ctx.entries pm) :: o)
    else if op.startsWith "s" then
      match ((op.drop 1).toString.splitOn ":").map String.toNat! with
      | [id, tag] => if id ≤ 31 then (Ctx.put sm id tag, pm, "ok" :: o) else (sm, pm, "rej" :: o)
      | _ => (sm, pm, "bad" :: o)
    else if op.startsWith "p" then
      match ((op.drop 1).toString.splitOn ":").map String.toNat! with
      | [id, sid, tag] => if id ≤ 255 ∧ sid ≤ 31 ∧ tag ≤ 31 then (sm, Ctx.put pm id tag, "ok" :: o) else (sm, pm, "rej" :: o)
      | _ => (sm, pm, "bad" :: o)
    else (sm, pm, "bad" :: o)) (([] : Ctx.PMap Nat), ([] : Ctx.PMap Nat), [])
  " ".intercalate out.reverse

/-! ### SEI payloads -/
open Render in
def picTiming (sps payload : List UInt8) : String :=
  match Sps.parseSps (NalSrc.srcOfBytes sps) with
  | .error _ => "sps:Err"
  | .ok (s, _) =>
    match SeiPayload.readPicTiming s (NalSrc.srcOfBytes payload) with
    | .ok (p, _) => Render.ptObs p
    | .error _ => "Err"

def bufferingPeriod (st : St) (payload : List UInt8) : String :=
  match SeiPayload.readBufferingPeriod (Ctx.get st.sps) (NalSrc.srcOfBytes payload) with
  | .ok (p, _) => s!"Ok({Render.renderBp p})"
  | .error _ => "Err"

def t35 (payload : List UInt8) : String :=
  match SeiPayload.readT35 payload with
  | .ok (.code b) rest => s!"Ok(code:{b},{hexOf rest})"
  | .ok (.extended e) rest => s!"Ok(ext:{e},{hexOf rest})"
  | .notEnoughData e a => s!"NotEnoughData({e},{a})"

/-! ### stream: Annex B reader → accumulator → handler policy → parse -/
/-- the handler: its answer, what it prints, and its context afterwards. Policy `B`: always Buffer and parse complete
NALs; policy `H`: slice NALs are tried on every invocation, Buffer while the header would block, else Ignore -/
def streamHandler (policy : String) (st : St) (inv : Accum.Invocation) : Accum.Interest × Option String × St :=
  let chunks := inv.head :: inv.tail
  let hdr : Nat := match inv.head with | b :: _ => b.toNat | [] => 255
  let ty := if hdr ≥ 128 then 255 else hdr % 32
  if policy = "H" ∧ (ty = 1 ∨ ty = 5) then
    let (_, res) := nalOn st chunks inv.complete
    if res.endsWith "WouldBlock" then (.buffer, none, st)
    else (.ignore, some (hexOf inv.bytes ++ "=" ++ res.replace " " "_"), st)
  else if inv.complete then
    let (st', res) := nalOn st chunks true
    (.buffer, some (hexOf inv.bytes ++ "=" ++ res.replace " " "_"), st')
  else (.buffer, none, st)

def stream (policy : String) (ops : List String) : String :=
  let calls := (annexbOps ops).flatten
  let (_, _, out) := calls.foldl (fun (acc : Accum.Acc × St × List String) c =>
    let (a, st, outs) := acc
    let (a', inv?) := Accum.frag a c.bufs c.fin (fun inv => (streamHandler policy st inv).1)
    match inv? with
    | none => (a', st, outs)
    | some inv =>
      let (_, o, st') := streamHandler policy st inv
      (a', st', match o with | some s => s :: outs | none => outs)) (Accum.init, ({} : St), [])
  " ".intercalate out.reverse

def step (st : St) (line : String) : St × String :=
  match line.trimAscii.toString.splitOn " " with
  | "annexb" :: ops => (st, annexb ops)
  | "rbsp" :: chunks :: complete :: skip :: ops => (st, rbsp (chunksOf chunks) (complete = "1") skip.toNat! ops)
  | ["decodenal", h] => (st, decodenal (if h = "-" then [] else bytesOfHex h))
  | "refnal" :: chunks :: complete :: ops => (st, refnal (chunksOf chunks) (complete = "1") ops)
  | "acc" :: steps => (st, acc steps)
  | ["sei", chunks, complete] => (st, seiOn (chunksOf chunks) (complete = "1"))
  | ["avcc", h] => (st, avcc (bytesOfHex h))
  | ["avcc"] => (st, avcc [])
  | ["reset"] => ({}, "ok")
  | ["dump"] =>
    (st, "sps=[" ++ ";".intercalate ((Ctx.iter st.sps).map Render.sps) ++ "] pps=[" ++ ";".intercalate ((Ctx.iter st.pps).map Render.pps) ++ "]")
  | ["full", _] => (st, "ok")
  | ["sps", h] => spsOn st (NalSrc.srcOfBytes (bytesOfHex h))
  | ["sps"] => spsOn st (NalSrc.srcOfBytes [])
  | ["pps", h] => ppsOn st (NalSrc.srcOfBytes (bytesOfHex h))
  | ["pps"] => ppsOn st (NalSrc.srcOfBytes [])
  | ["slice", hb, h] => let hdr := natOfHex hb; (st, if hdr ≥ 128 then "hdr:err" else sliceOn st hdr (NalSrc.srcOfBytes (bytesOfHex h)))
  | ["slice", hb] => let hdr := natOfHex hb; (st, if hdr ≥ 128 then "hdr:err" else sliceOn st hdr (NalSrc.srcOfBytes []))
  | "bits" :: hx :: ops => (st, bitsRun ⟨(if hx = "-" then [] else NalSrc.bitsOfBytes (bytesOfHex hx)), .eof⟩ ops)
  | "nalbits" :: chunks :: complete :: ops => (st, bitsRun (NalSrc.srcOfNal (chunksOf chunks) (complete = "1")) ops)
  | ["nal", chunks, complete] => nalOn st (chunksOf chunks) (complete = "1")
  | ["derived", h] => (st, derived (NalSrc.srcOfBytes (bytesOfHex h)))
  | ["derived"] => (st, derived (NalSrc.srcOfBytes []))
  | "ctx" :: ops => (st, ctxOps ops)
  | ["pt", s, p] => (st, picTiming (bytesOfHex s) (bytesOfHex p))
  | ["pt", s] => (st, picTiming (bytesOfHex s) [])
  | ["bp", p] => (st, bufferingPeriod st (bytesOfHex p))
  | ["bp"] => (st, bufferingPeriod st [])
  | ["t35", p] => (st, t35 (bytesOfHex p))
  | ["t35"] => (st, t35 [])
  | "stream" :: policy :: ops => (st, stream policy ops)
  | ["tbl", name, i] => (st, TblModel.row name i.toNat!)
  | ["refnalhuge", n, lg, complete, extra, mode] => (st, refnalHuge n.toNat! lg.toNat! (complete = "1") extra.toNat! mode)
  | ["hdr", b] => let b := b.toNat!; (st, if b ≥ 128 then "err" else s!"ok {b / 32 % 4} {b % 32} back={b}")
  | ["unittype", b] => let b := b.toNat!; (st, if b > 31 then "err" else s!"ok {b}")
  | ["profile", b] => (st, b)
  | ["level", f, l] => (st, s!"{l} " ++ (if l.toNat! = 11 ∧ f.toNat! / 16 % 2 = 1 then "1b" else "-") ++
      (if [10, 11, 12, 13, 20, 21, 22, 30, 31, 32, 40, 41, 42, 50, 51, 52, 60, 61, 62].contains l.toNat! then " K" else " U"))
  | ["flags", f] => let f := f.toNat!; (st, s!"{f} {f / 128 % 2}{f / 64 % 2}{f / 32 % 2}{f / 16 % 2}{f / 8 % 2}{f / 4 % 2} {f % 4}")
  | ["spsid", v] => let v := v.toNat!; (st, if v > 31 then "err" else s!"ok {v}")
  | ["ppsid", v] => let v := v.toNat!; (st, if v > 255 then "err" else s!"ok {v}")
  | _ => (st, "bad-op")

end Driver

partial def loop (h : IO.FS.Stream) (out : IO.FS.Stream) (st : Driver.St) : IO Unit := do
  let line ← h.getLine
  if line.isEmpty then return ()
  let (st', o) := Driver.step st line
  out.putStrLn o
  loop h out st'

def main : IO Unit := do
  let out ← IO.getStdout
  loop (← IO.getStdin) out {}
