//! Case generators. Every random choice derives from one xorshift64 state seeded by (seed, stream).
use crate::run::Runner;
use crate::util::*;
use std::io::Write;

pub fn stream_bytes(r: &mut Rng, maxlen: u64, alpha: &[u8]) -> Vec<u8> {
    let n = r.below(maxlen + 1);
    (0..n).map(|_| if r.below(8) == 0 { r.next() as u8 } else { r.pick8(alpha) }).collect()
}
pub fn partition(r: &mut Rng, d: &[u8]) -> Vec<Vec<u8>> {
    let mut out = vec![]; let mut i = 0;
    while i < d.len() { let k = match r.below(6) { 0 => 0, 1 => 1, 2 => 2, 3 => r.below(5) as usize, 4 => r.below(200) as usize, _ => 3 }; let e = (i + k).min(d.len()); out.push(d[i..e].to_vec()); i = e; }
    if r.below(4) == 0 { out.push(vec![]); }
    out
}
pub fn nonempty_partition(r: &mut Rng, d: &[u8]) -> Vec<Vec<u8>> {
    let mut out = vec![]; let mut i = 0;
    let style = r.below(6);
    if style >= 4 && d.len() > 1 {
        // directed cuts. 4: next to multiples of the byte reader's 128-byte window (counted from the NAL start and from the
        // payload start); 5: right after bytes a look-ahead may stop at (80, 00, 03, ff)
        let mut cuts: Vec<usize> = vec![];
        if style == 4 { let mut k = 128; while k <= d.len() + 2 { for e in [0usize, 1, 2] { if r.below(2) == 0 && k + e >= 1 { cuts.push(k + e - 1); } } k += 128; } if cuts.is_empty() { cuts.push(1 + r.below(d.len() as u64 - 1) as usize); } }
        else { for j in 1..d.len() { if matches!(d[j - 1], 0x80 | 0 | 3 | 0xff) && r.below(3) == 0 { cuts.push(j); } } if cuts.len() > 6 { let keep = r.below(cuts.len() as u64 - 5) as usize; cuts = cuts[keep..keep + 6].to_vec(); } }
        cuts.retain(|&c| c > 0 && c < d.len()); cuts.sort(); cuts.dedup();
        for c in cuts { out.push(d[i..c].to_vec()); i = c; }
        out.push(d[i..].to_vec());
        return out;
    }
    while i < d.len() {
        let k = 1 + match style { 0 => d.len(), 1 => r.below(3) as usize, _ => match r.below(5) { 0 => 0, 1 => 1, 2 => r.below(5) as usize, 3 => r.below(200) as usize, _ => 126 + r.below(4) as usize } };
        let e = (i + k).min(d.len()); out.push(d[i..e].to_vec()); i = e;
    }
    out
}
/// sizes next to powers of two (64 … 2^20), the thresholds optimised code tends to introduce: 2^e - 2 … 2^e + 2
thread_local! { static DICT: std::cell::RefCell<(Vec<u64>, Vec<u64>)> = std::cell::RefCell::new((vec![], vec![])); }
/// sizes derived from one literal `b` of the library's current source: the value itself ± 3, its half and its multiples
thread_local! { static BIGSEQ: std::cell::Cell<u64> = std::cell::Cell::new(0); }
fn around(r: &mut Rng, b: u64) -> u64 {
    // large literals are expensive: walk their variants in a fixed order so that the few affordable cases differ
    if b > 65536 { let k = BIGSEQ.with(|c| { let v = c.get(); c.set(v + 1); v }); return [b + 1, b + 2, b, b - 1, b / 2 + 1, b + 3, b / 2, b - 2][(k % 8) as usize]; }
    match r.below(12) { 0 => b.saturating_sub(2), 1 => b.saturating_sub(1), 2 | 3 => b, 4 => b + 1, 5 => b + 2, 6 => b + 3, 7 => b / (2 + r.below(3)) + r.below(3), 8 => 2 * b + r.below(2), 9 => b * (2 + r.below(4)), 10 => b + 2 * (1 + r.below(3)), _ => b * 3 + r.below(2) }
}
/// chooses a size-directed mode one time in `one_in`; one time in four when the current source has literals that the pinned tree
/// did not have (a changed tree gets more size-directed cases, the unchanged tree pays nothing)
pub fn size_mode(r: &mut Rng, one_in: u64) -> bool {
    let novel = DICT.with(|d| !d.borrow().1.is_empty());
    if novel && r.below(4) == 0 { return true; }
    r.below(one_in) == 0
}
thread_local! { static BUDGET: std::cell::Cell<u64> = std::cell::Cell::new(64 << 20); }
/// sizes above 64 KiB draw on a per-stream budget of 64 MiB in total, so that a large literal in the source (10^7, say) yields a handful
/// of cases of that size and not thousands
fn spend(v: u64) -> bool { if v <= 65536 { return true; } BUDGET.with(|b| if b.get() >= v { b.set(b.get() - v); true } else { false }) }
pub fn ladder(r: &mut Rng, max_e: u64) -> usize {
    let v = ladder_raw(r, max_e) as u64;
    if spend(v) { v as usize } else { ((1u64 << (6 + r.below(8))) as i64 + r.below(5) as i64 - 2).max(1) as usize }
}
fn ladder_raw(r: &mut Rng, max_e: u64) -> usize {
    // literals of the current source first (those not in the pinned tree's baseline with extra weight), powers of two otherwise
    let hard_cap: u64 = if max_e >= 13 { 12_100_000 } else { 20_000 };
    let pick = DICT.with(|d| { let d = d.borrow();
        if !d.1.is_empty() && r.below(2) == 0 { Some(d.1[r.below(d.1.len() as u64) as usize]) }
        else if !d.0.is_empty() && r.below(5) == 0 { Some(d.0[r.below(d.0.len() as u64) as usize]) } else { None } });
    if let Some(b) = pick { if b >= 8 {
        let big = b > 65536;
        // (the gate comes first for large literals, so that their variants are not used up by rejected draws)
        if !big || b <= (1u64 << max_e) + 2 || r.below(4) == 0 {
            let v = around(r, b); if v >= 1 && v <= hard_cap && (big || v <= (1u64 << max_e) + 2 || r.below(4) == 0) { return v as usize; }
        }
    } }
    let e = 6 + match r.below(8) { 0 => r.below(max_e - 5), _ => r.below((max_e - 5).min(8)) };   // mostly 64 … 8192
    ((1u64 << e) as i64 + r.below(5) as i64 - 2).max(1) as usize
}
/// `n` bytes, constant except for a few distinct bytes at both ends (long inputs stay short lines)
fn filler(r: &mut Rng, n: usize, zero_free: bool) -> Vec<u8> {
    let b = if zero_free { 1 + (r.next() % 255) as u8 } else { r.pick8(&[0x55, 0, 0xff, 3]) };
    let mut v = vec![b; n];
    for k in 0..n.min(3) { v[k] = 0x10 + k as u8; let l = n - 1 - k; v[l] = 0x20 + k as u8; }
    v
}
fn join_chunks_rle(c: &[Vec<u8>]) -> String { c.iter().map(|x| hex_rle(x)).collect::<Vec<_>>().join(",") }
fn join_chunks(c: &[Vec<u8>]) -> String { c.iter().map(|x| hex(x)).collect::<Vec<_>>().join(",") }

pub fn generate(stream: &str, n: usize, seed: u64, out: &mut dyn Write) {
    let sid = stream.bytes().fold(7u64, |a, b| a.wrapping_mul(131).wrapping_add(b as u64));
    let mut r = Rng::seeded(seed, sid);
    DICT.with(|d| *d.borrow_mut() = crate::consts::dictionary(stream));
    BUDGET.with(|b| b.set(match stream { "annexb" => 256 << 20, "acc" => 128 << 20, "stream" => 24 << 20, _ => 64 << 20 }));
    match stream {
        "annexb" => for _ in 0..n { gen_annexb(&mut r, out); },
        "annexb-exh" => gen_annexb_exhaustive(n, out),
        "rbsp" => for _ in 0..n { gen_rbsp(&mut r, out); },
        "rbsp-exh" => gen_rbsp_exhaustive(n, out),
        "decodenal" => for _ in 0..n { gen_decodenal(&mut r, out); },
        "refnal" => {
            // NALs of 4 GiB and more (chunks borrowing one 1 MiB buffer): byte counts beyond 32 bits; small versions of the same shape
            if n >= 30000 { for (c, lg, comp, extra, mode) in [(4096u64, 20u32, 1u8, 0u64, "f"), (4096, 20, 0, 5, "m"), (3, 4, 1, 2, "r"), (5, 3, 0, 0, "m")] { writeln!(out, "refnalhuge {} {} {} {} {}", c, lg, comp, extra, mode).unwrap(); } }
            if n >= 400000 { for (c, lg, comp, extra, mode) in [(4097u64, 20u32, 1u8, 1u64, "r"), (8192, 19, 0, 0, "f"), (65537, 16, 1, 3, "m")] { writeln!(out, "refnalhuge {} {} {} {} {}", c, lg, comp, extra, mode).unwrap(); } }
            for _ in 0..n { gen_refnal(&mut r, out); }
        }
        "acc" => for _ in 0..n { gen_acc(&mut r, out); },
        "sei" => {
            // the 32-bit limit of the ff-extension coding: 16 843 009 ff bytes sum to 2^32 - 1, so one more non-zero byte overflows
            // (type field, and size field behind a one-byte type); one byte fewer stays in range (and the payload is then missing)
            if n >= 30000 { writeln!(out, "sei 06Rffx16843009.0100 1").unwrap(); }
            if n >= 400000 { writeln!(out, "sei 0605Rffx16843009.fe00 1").unwrap(); writeln!(out, "sei 06Rffx16843008.fe0155 1").unwrap(); }
            for _ in 0..n { gen_sei(&mut r, out); }
        }
        "avcc" => for _ in 0..n { gen_avcc(&mut r, out); },
        "bits" => for _ in 0..n { gen_bits(&mut r, out); },
        "bits-exh" => gen_bits_exhaustive(n, out),
        "nalbits" => { let mut buf: Vec<u8> = vec![]; for _ in 0..n { buf.clear(); gen_bits(&mut r, &mut buf); let line = String::from_utf8(buf.clone()).unwrap();
            // the same bit program over the escaped RBSP inside a chunked (sometimes incomplete) NAL
            let toks: Vec<&str> = line.split_whitespace().collect();
            let d = if toks[1] == "-" { vec![] } else { unhex(toks[1]) };
            let mut nal = vec![0x65u8]; nal.extend(escape(&d));
            if r.below(8) == 0 { let at = 1 + r.below(nal.len() as u64) as usize; let bad: &[u8] = match r.below(3) { 0 => &[0, 0, 0], 1 => &[0, 0, 3, 0x80], _ => &[0, 0, 3, 4, 0x11] }; for (k, b) in bad.iter().enumerate() { nal.insert(at + k, *b); } }
            let chunks = nonempty_partition(&mut r, &nal);
            writeln!(out, "nalbits {} {} {}", join_chunks(&chunks), (r.below(4) != 0) as u8, toks[2..].join(" ")).unwrap(); } }
        "syntax" => gen_syntax(&mut r, n, out, false),
        "derived" => gen_syntax(&mut r, n, out, true),
        "ctx" => for _ in 0..n { gen_ctx(&mut r, out); },
        "nal" => gen_nal(&mut r, n, out),
        "stream" => gen_stream(&mut r, n, out),
        "seipayload" => gen_seipayload(&mut r, n, out),
        "enums" => gen_enums(n, out),
        s if s.starts_with("tables-") => gen_tables(&s[7..], out),
        "spshdr" => for _ in 0..n { gen_spshdr(&mut r, out); },
        // one escape (or one forbidden sequence) at every offset of a long, otherwise zero-free NAL read from one contiguous chunk:
        // whatever internal grid a reader uses (windows, blocks, look-ahead), some offset straddles it
        "rbsp-sweep" | "stream-sweep" => {
            for k in 0..n {
                let total = 4200usize; let p = 2 + k % (total - 8);
                let mut nal: Vec<u8> = vec![0x06, 0x05]; let plen = total - 2; let mut t = plen; while t >= 255 { nal.push(0xff); t -= 255; } nal.push(t as u8);
                let hdr = nal.len(); nal.resize(hdr + plen, 0xa5); nal.push(0x80);
                let at = hdr + p.min(plen - 6);
                let seq: &[u8] = match (k / (total - 8)) % 3 { 0 => &[0, 0, 3, 1], 1 => &[0, 0, 3, 0, 0, 3], _ => &[0, 0, 3, 3] };
                // (written in escaped form directly; the payload length counts RBSP bytes, so one byte per 03 is added to the NAL)
                let mut out_nal = nal[..at].to_vec(); out_nal.extend_from_slice(seq); out_nal.extend_from_slice(&nal[at + seq.len() - seq.iter().filter(|b| **b == 3).count()..]);
                if stream == "rbsp-sweep" { writeln!(out, "rbsp {} 1 1 D", hex_rle(&out_nal)).unwrap(); }
                else { let mut sdat = vec![0u8, 0, 1]; sdat.extend_from_slice(&out_nal); writeln!(out, "stream B p:{} r", hex_rle(&sdat)).unwrap(); }
            }
        }
        _ => { eprintln!("unknown stream {}", stream); std::process::exit(2); }
    }
}

/// NAL bodies (zero-free, or mixed) joined by 3-/4-byte start codes or zero runs; cut points mostly next to the
/// separators (inside 00|00|01, right after the 01, one or two bytes later) so that every split of a start code
/// across pushes, followed by pieces of every size, occurs
fn directed_annexb(r: &mut Rng) -> (Vec<u8>, Vec<Vec<u8>>) {
    let mut d = vec![]; let mut marks = vec![];
    for _ in 0..r.below(3) { d.push(r.pick8(&[0, 0, 1, 0x55])); }
    for _ in 0..(1 + r.below(4)) {
        let sep: &[u8] = match r.below(6) { 0 => &[0, 0, 0, 1], 1 => &[0, 0, 0], 2 => &[0, 0, 0, 0, 1], 3 => &[0, 0], _ => &[0, 0, 1] };
        for k in 0..=sep.len() { marks.push(d.len() + k); }
        d.extend_from_slice(sep);
        let n = match r.below(4) { 0 => 0, 1 => r.below(4), 2 => 16 + r.below(24), _ => r.below(16) };
        let zero_free = r.below(3) != 0;
        for _ in 0..n { d.push(if zero_free { 1 + (r.next() % 255) as u8 } else { r.pick8(&[0, 1, 2, 3, 0x65, 0xff]) }); }
        marks.push(d.len());
    }
    for _ in 0..r.below(3) { d.push(0); }
    let mut cuts: Vec<usize> = vec![];
    for m in &marks { if r.below(3) == 0 && *m <= d.len() { cuts.push(*m); } }
    for _ in 0..r.below(3) { cuts.push(r.below(d.len() as u64 + 1) as usize); }
    cuts.sort(); cuts.dedup();
    let mut parts = vec![]; let mut last = 0;
    for c in cuts { parts.push(d[last..c].to_vec()); last = c; if r.below(8) == 0 { parts.push(vec![]); } }
    parts.push(d[last..].to_vec());
    (d, parts)
}

/// units whose zero-free bodies, zero stuffing and push lengths sit next to powers of two; pushes end on held-back zeros
thread_local! { static STYLE: std::cell::Cell<u64> = std::cell::Cell::new(0); }
fn gen_annexb_ladder(r: &mut Rng, out: &mut dyn Write) {
    let style = STYLE.with(|c| { let v = c.get(); c.set(v + 1); v % 8 });   // round robin: every shape gets its share of the expensive sizes
    if style == 0 {
        // two units delivered in pieces with a reset between them, whose sizes *add up* to a ladder value (state that should not
        // survive the reset), then a small unit
        let b = ladder(r, 17); let s1 = (b as u64 * (40 + r.below(31)) / 100).max(4) as usize; let s2 = b - s1.min(b) + r.below(b as u64 / 5 + 2) as usize + 2;
        let mut line = String::from("annexb");
        for (k, sz) in [s1, s2].iter().enumerate() {
            let mut u = vec![0u8, 0, 1]; u.extend(filler(r, *sz, true)); if k == 1 { u.extend_from_slice(&[0, 0, 1, 0x68, 0xce]); }
            let np = 2 + r.below(3) as usize; let step = u.len() / np + 1; let mut i = 0; while i < u.len() { let e = (i + step).min(u.len()); line.push_str(&format!(" p:{}", hex_rle(&u[i..e]))); i = e; }
            line.push_str(" r");
        }
        writeln!(out, "{}", line).unwrap(); return;
    }
    if style == 1 {
        // a unit a little longer than a ladder value, with a push boundary exactly where that many of its bytes have been delivered
        let b = ladder(r, 17); let n = b + 1 + r.below(40) as usize;
        let mut u = vec![0u8, 0, 1]; u.extend(filler(r, n, true)); u.extend_from_slice(&[0, 0, 1, 0x68, 0xce]);
        let mut cuts = vec![3 + b]; if r.flag() { cuts.push(3 + r.below(b as u64) as usize); } if r.flag() { cuts.push(3 + b + 1); } cuts.sort(); cuts.dedup();
        let mut line = String::from("annexb"); let mut i = 0; for c in cuts { if c > i && c < u.len() { line.push_str(&format!(" p:{}", hex_rle(&u[i..c]))); i = c; } }
        line.push_str(&format!(" p:{} r", hex_rle(&u[i..])));
        writeln!(out, "{}", line).unwrap(); return;
    }
    if r.below(4) == 0 {
        // a run of bytes that belong to no unit (before the first start code, or after a reset), of ladder length, then a broken start
        // code (zeros followed by a byte that is neither 00 nor 01), then 01 and data, then a real start code and a unit
        let jl = ladder(r, 13); let mut d = filler(r, jl, true);
        for _ in 0..r.below(3) { d.extend_from_slice(match r.below(4) { 0 => &[0, 0, 0xaa, 1, 0x65, 0x88], 1 => &[0, 0xaa, 1, 0x65], 2 => &[0, 0, 0, 0xaa, 0, 1, 0x65], _ => &[0xaa, 0xbb] }); }
        d.extend_from_slice(&[0, 0, 0, 1, 0x68, 0xce, 0x38, 0x80]);
        let mut line = String::from("annexb");
        if r.below(3) == 0 { line.push_str(&format!(" p:{} r", hex_rle(&[0, 0, 1, 0x67, 0x42]))); }
        if r.flag() { line.push_str(&format!(" p:{}", hex_rle(&d))); } else { let c = 1 + r.below(d.len() as u64 - 1) as usize; line.push_str(&format!(" p:{} p:{}", hex_rle(&d[..c]), hex_rle(&d[c..]))); }
        line.push_str(" r");
        writeln!(out, "{}", line).unwrap(); return;
    }
    if r.flag() {
        // a push that ends inside a unit on one or two zeros (the reader holds them back), then a push that contributes
        // 2^e - 2 … 2^e bytes to the unit and either ends there, goes on, or closes the unit with a start code
        let mut line = String::from("annexb");
        let z = 1 + r.below(2) as usize; let mut first = vec![0u8, 0, 1, 0x65]; for _ in 0..r.below(3) { first.push(0x31); } for _ in 0..z { first.push(0); }
        line.push_str(&format!(" p:{}", hex(&first)));
        let e = r.pick(&[8, 10, 12, 13, 16, 16, 16, 17]); let n = (1usize << e) - r.below(3) as usize;
        let mut second = filler(r, n, true);
        match r.below(3) { 0 => {} 1 => { second.extend_from_slice(&[0x44, 0x45]); } _ => { second.extend_from_slice(if r.flag() { &[0, 0, 1] } else { &[0, 0, 0, 1] }); second.extend_from_slice(&[0x68, 0xce]); } }
        line.push_str(&format!(" p:{}", hex_rle(&second)));
        if r.flag() { line.push_str(&format!(" p:{}", hex(&[0x46, 0, 0, 1, 0x67]))); }
        line.push_str(" r");
        writeln!(out, "{}", line).unwrap(); return;
    }
    let mut d: Vec<u8> = vec![]; let mut cuts: Vec<usize> = vec![];
    for _ in 0..r.below(2) { d.push(0); }
    let units = 1 + r.below(3);
    for u in 0..units {
        d.extend_from_slice(if r.flag() { &[0, 0, 1] } else { &[0, 0, 0, 1] });
        let big = r.below(3) == 0;
        let me = if r.below(6) == 0 { 17 } else { 13 }; let n = if big { ladder(r, me) } else { 1 + r.below(40) as usize };
        let body_at = d.len();
        let mut body = filler(r, n, true);
        // one or two payload zeros inside the body, with a push boundary right after them (held back by the reader), followed by
        // a piece of ladder length
        if n > 8 && r.flag() { let z = 1 + r.below(2) as usize; let at = 1 + r.below(4.min(n as u64 - 4)) as usize; for k in 0..z { body[at + k] = 0; } body[at + z] = 0x77; cuts.push(body_at + at + z);
            if r.flag() { let piece = ladder(r, 17); if body_at + at + z + piece <= body_at + n { cuts.push(body_at + at + z + piece); } } }
        d.extend(body);
        if u + 1 < units || r.flag() { let z = if r.below(3) == 0 { ladder(r, 10) + r.below(4) as usize } else { r.below(6) as usize }; for _ in 0..z { d.push(0); } }
    }
    if r.below(3) == 0 { for _ in 0..r.below(4) { cuts.push(r.below(d.len() as u64 + 1) as usize); } }
    cuts.retain(|&c| c > 0 && c < d.len()); cuts.sort(); cuts.dedup();
    let mut line = String::from("annexb"); let mut i = 0;
    for c in cuts { line.push_str(&format!(" p:{}", hex_rle(&d[i..c]))); i = c; }
    line.push_str(&format!(" p:{} r", hex_rle(&d[i..])));
    writeln!(out, "{}", line).unwrap();
}

fn gen_annexb(r: &mut Rng, out: &mut dyn Write) {
    if size_mode(r, 25) { return gen_annexb_ladder(r, out); }
    let maxlen = if r.below(10) == 0 { 400 } else { 40 };
    let (d, parts) = if r.below(2) == 0 { directed_annexb(r) } else { let d = stream_bytes(r, maxlen, &[0, 0, 0, 1, 1, 2, 3, 0x65]); let p = partition(r, &d); (d, p) };
    let _ = &d;
    let mut line = String::from("annexb");
    let mid_resets = r.below(3) == 0;
    for p in &parts {
        if mid_resets && r.below(5) == 0 { line.push_str(" r"); if r.below(4) == 0 { line.push_str(" r"); } }
        line.push_str(&format!(" p:{}", hex(p)));
    }
    for _ in 0..(1 + r.below(2)) { line.push_str(" r"); }
    writeln!(out, "{}", line).unwrap();
}

/// all strings of length 0..=maxlen over {00,01,02,03} x all partitions into <= 3 pieces, then reset
fn gen_annexb_exhaustive(maxlen: usize, out: &mut dyn Write) {
    for len in 0..=maxlen {
        let total = 4usize.pow(len as u32);
        for code in 0..total {
            let d: Vec<u8> = (0..len).map(|i| ((code >> (2 * i)) & 3) as u8).collect();
            for a in 0..=len { for b in a..=len {
                writeln!(out, "annexb p:{} p:{} p:{} r", hex(&d[..a]), hex(&d[a..b]), hex(&d[b..])).unwrap();
            } }
        }
    }
}

/// NAL bytes built from segments whose boundaries sit on or next to multiples of the 128-byte window: zero-free runs
/// ending at 128k-2 … 128k+2 (from the NAL start or the payload start), escape sequences, bursts of zeros and threes
fn long_nal(r: &mut Rng) -> Vec<u8> {
    let mut d = vec![0x65u8];
    for _ in 0..(2 + r.below(5)) {
        match r.below(6) {
            0 | 1 | 2 => { let target = (r.below(2) + 128 * (1 + r.below(3))) as i64 + r.below(5) as i64 - 2; let cur = d.len() as i64;
                       let len = if target > cur { (target - cur) as usize } else { 1 + r.below(130) as usize };
                       for _ in 0..len { d.push(1 + (r.next() % 255) as u8); } }
            3 => { d.extend_from_slice(&[0, 0, 3]); d.push(r.pick8(&[0, 1, 2, 3])); }
            4 => { for _ in 0..(1 + r.below(3)) { d.extend_from_slice(&[0, 0, 3]); d.push(r.pick8(&[0, 1, 3])); } }
            _ => d.extend(stream_bytes(r, 12, &[0, 0, 0, 3, 3, 1, 2, 4, 0x55])),
        }
    }
    d
}

fn rbsp_nal(r: &mut Rng) -> Vec<u8> {
    if r.below(5) == 0 { return long_nal(r); }
    let maxlen = if r.below(4) == 0 { 400 } else { 40 };
    let mut d = match r.below(4) {
        // long zero-free run first so that windows of 128 are crossed before the first escape
        0 => { let mut v: Vec<u8> = (0..(100 + r.below(200))).map(|_| 1 + (r.next() % 255) as u8).collect(); v.extend(stream_bytes(r, 40, &[0, 0, 0, 3, 3, 1, 2, 4, 0x55])); v }
        // valid escaping of an arbitrary payload
        1 => { let p = stream_bytes(r, maxlen, &[0, 0, 0, 1, 2, 3, 0x80, 0xff]); let mut v = vec![0x65]; v.extend(escape(&p)); v }
        _ => stream_bytes(r, maxlen, &[0, 0, 0, 3, 3, 1, 2, 4, 0x55]),
    };
    if d.is_empty() { d.push(0x65); }
    d
}

fn gen_rbsp(r: &mut Rng, out: &mut dyn Write) {
    let d = rbsp_nal(r);
    let chunks = nonempty_partition(r, &d);
    let complete = r.below(3) != 0;
    let skip = if r.below(8) == 0 { r.pick(&[127, 128, 129, 130, 200, 255, 256, 300]) } else { r.pick(&[0, 1, 1, 1, 2, 5]) };
    let mut ops = vec![];
    let style = r.below(4);
    for _ in 0..(3 + r.below(40)) {
        match if style == 0 { 0 } else { r.below(3) } {
            0 => { ops.push("f".to_string()); if style == 0 || r.below(2) == 0 { ops.push(format!("c{}", if r.below(3) == 0 { r.below(5) } else { 1000 })); } }
            1 => ops.push(format!("c{}", r.below(9))),
            _ => ops.push(if r.below(5) == 0 { format!("x{}", r.pick(&[1, 2, 15, 16, 17, 40, 130, 300])) } else { format!("r{}", r.pick8(&[0, 1, 1, 2, 3, 7, 64, 200])) }),
        }
    }
    ops.push("D".to_string()); if r.below(4) == 0 { ops.push("f".to_string()); ops.push("r1".to_string()); }
    writeln!(out, "rbsp {} {} {} {}", join_chunks(&chunks), complete as u8, skip, ops.join(" ")).unwrap();
}

/// all strings of length 1..=maxlen over {00,01,03,04} after a header byte x all 2-splits x {read1, fill/consume all}
fn gen_rbsp_exhaustive(maxlen: usize, out: &mut dyn Write) {
    let alpha = [0u8, 1, 3, 4];
    for len in 1..=maxlen {
        for code in 0..4usize.pow(len as u32) {
            let mut d = vec![0x65u8]; d.extend((0..len).map(|i| alpha[(code >> (2 * i)) & 3]));
            for a in 1..=d.len() {
                let chunks = if a == d.len() { vec![d.clone()] } else { vec![d[..a].to_vec(), d[a..].to_vec()] };
                for complete in [1, 0] {
                    let ops1: Vec<String> = (0..len + 3).map(|_| "r1".to_string()).collect();
                    let ops2: Vec<String> = (0..len + 3).flat_map(|_| vec!["f".to_string(), "c1000".to_string()]).collect();
                    writeln!(out, "rbsp {} {} 1 {}", join_chunks(&chunks), complete, ops1.join(" ")).unwrap();
                    writeln!(out, "rbsp {} {} 1 {}", join_chunks(&chunks), complete, ops2.join(" ")).unwrap();
                }
            }
            writeln!(out, "decodenal {}", hex(&d)).unwrap();
        }
    }
}

fn gen_decodenal(r: &mut Rng, out: &mut dyn Write) {
    if r.below(300) == 0 {
        // far beyond any internal window: escape-free (must be borrowed), or with a single escape at the very end (owned)
        let len = r.pick(&[65535, 65536, 65537, 65538, 70000, 131073]) as usize;
        let mut d: Vec<u8> = vec![0x65]; for _ in 0..len { d.push(if r.below(16) == 0 { 0 } else { 1 + (r.next() % 255) as u8 }); }
        for j in 2..d.len() { if d[j - 1] == 0 && d[j - 2] == 0 && d[j] <= 3 { d[j] = 4; } }
        if r.below(3) == 0 { d.extend_from_slice(&[0, 0, 3, 1]); }
        writeln!(out, "decodenal {}", hex(&d)).unwrap(); return;
    }
    let d = if r.below(40) == 0 { vec![] } else { rbsp_nal(r) };
    let d = if r.below(30) == 0 { d[..1.min(d.len())].to_vec() } else { d };
    writeln!(out, "decodenal {}", if d.is_empty() { "-".to_string() } else { hex(&d) }).unwrap();
}

/// chunks and read sizes next to powers of two: bulk paths of the reader (gathering over seams, exact fits)
fn gen_refnal_ladder(r: &mut Rng, out: &mut dyn Write) {
    let nchunks = 2 + r.below(4) as usize; let mut chunks: Vec<Vec<u8>> = vec![];
    for k in 0..nchunks { let n = if r.below(3) == 0 { 1 + r.below(12) as usize } else { ladder(r, 14) }; let mut c = filler(r, n, false); c[0] = 0x30 + k as u8; chunks.push(c); }
    let lens: Vec<usize> = chunks.iter().map(|c| c.len()).collect();
    let complete = r.below(4) != 0; let mut ops: Vec<String> = vec![];
    for _ in 0..(2 + r.below(6)) {
        match r.below(6) {
            0 => ops.push("f".into()),
            1 => ops.push(format!("c{}", if r.flag() { 100000 } else { r.below(2000) })),
            2 => ops.push(if r.flag() { "cl".to_string() } else { "sw".to_string() }),
            // a read that ends exactly on, one before or one after a seam some chunks ahead, or of ladder size
            _ => { let upto = 1 + r.below(nchunks as u64) as usize; let sum: usize = lens[..upto].iter().sum(); ops.push(format!("r{}", match r.below(4) { 0 => sum, 1 => sum.saturating_sub(1), 2 => sum + 1, _ => ladder(r, 14) })); }
        }
    }
    for _ in 0..3 { ops.push("r60000".into()); }   // (the read buffer is the caller's allocation: kept below the C03 allocation bound)
    writeln!(out, "refnal {} {} {}", join_chunks_rle(&chunks), complete as u8, ops.join(" ")).unwrap();
}

fn gen_refnal(r: &mut Rng, out: &mut dyn Write) {
    if size_mode(r, 25) { return gen_refnal_ladder(r, out); }
    let ml = if r.below(4) == 0 { 300 } else { 30 };
    let mut d = stream_bytes(r, ml, &[0, 0, 0, 3, 3, 1, 2, 4, 0x55]);
    if d.is_empty() { d.push((r.next() & 0xff) as u8); }
    if r.below(3) == 0 { d[0] = r.next() as u8; }
    let chunks = nonempty_partition(r, &d);
    let complete = r.below(3) != 0;
    let mut ops = vec![];
    for _ in 0..(3 + r.below(30)) {
        match r.below(8) {
            0 | 1 => ops.push("f".to_string()),
            2 | 3 => ops.push(format!("c{}", if r.below(2) == 0 { 1000 } else { r.below(6) })),
            4 | 5 => ops.push(format!("r{}", r.pick8(&[0, 1, 2, 3, 7, 200]))),
            6 => ops.push(if r.flag() { "cl".to_string() } else { "sw".to_string() }),
            _ => ops.push("h".to_string()),
        }
    }
    writeln!(out, "refnal {} {} {}", join_chunks(&chunks), complete as u8, ops.join(" ")).unwrap();
}

/// a NAL buffered across non-final deliveries up to sizes next to powers of two (2^20 and beyond now and then), then small NALs:
/// capacity-dependent handling of the internal buffer must not leak bytes or decisions into the following NALs
fn gen_acc_ladder(r: &mut Rng, out: &mut dyn Write) {
    let mut steps = vec![];
    let total = if r.below(12) == 0 && spend(1 << 21) { (1usize << 20) + r.below(300_000) as usize } else { ladder(r, 17) };
    let pieces = 2 + r.below(3) as usize; let mut left = total;
    for k in 0..pieces { let n = if k + 1 == pieces { left } else { (left / 2).max(1) }; left -= n.min(left);
        let last = k + 1 == pieces; let ans = if last && r.below(3) == 0 { 'I' } else { 'B' };
        steps.push(format!("{};{};{}", hex_rle(&filler(r, n.max(1), false)), last as u8, ans)); }
    for _ in 0..(1 + r.below(4)) {
        let nb = 1 + r.below(2); let bufs: Vec<Vec<u8>> = (0..nb).map(|_| { let m = if r.below(4) == 0 { 3000 } else { 6 }; let l = 1 + r.below(m) as usize; filler(r, l, false) }).collect();
        let end = r.below(2) == 0; let ans = if r.below(4) == 0 { 'I' } else { 'B' };
        steps.push(format!("{};{};{}", join_chunks_rle(&bufs), end as u8, ans));
    }
    steps.push(format!("{};1;B", hex_rle(&[0x42, 0x43])));
    writeln!(out, "acc {}", steps.join(" ")).unwrap();
}

fn gen_acc(r: &mut Rng, out: &mut dyn Write) {
    if size_mode(r, 60) { return gen_acc_ladder(r, out); }
    let nsteps = 1 + r.below(12);
    let mut steps = vec![];
    let policy = r.below(4); // 0: always buffer, 1: always ignore, else mixed
    for _ in 0..nsteps {
        let nb = r.below(3);
        let bufs: Vec<Vec<u8>> = (0..nb).map(|_| { let l = 1 + r.below(3); (0..l).map(|_| r.next() as u8).collect() }).collect();
        let end = r.below(3) == 0;
        let ans = match policy { 0 => 'B', 1 => 'I', _ => if r.below(4) == 0 { 'I' } else { 'B' } };
        steps.push(format!("{};{};{}", join_chunks(&bufs), end as u8, ans));
    }
    writeln!(out, "acc {}", steps.join(" ")).unwrap();
}

pub fn sei_u32(d: &mut Vec<u8>, mut v: u64) { while v >= 255 { d.push(0xff); v -= 255; } d.push(v as u8); }

fn gen_sei(r: &mut Rng, out: &mut dyn Write) {
    let mut d = vec![];
    if r.below(40) == 0 {
        // a message count next to a power of two (counters narrower than the count), tiny messages
        let n = ladder(r, 10);
        for _ in 0..n { sei_u32(&mut d, r.below(3)); let l = r.below(2); sei_u32(&mut d, l); for _ in 0..l { d.push(0x11); } }
        if r.below(4) != 0 { d.push(0x80); }
        let mut nal = vec![0x06u8]; nal.extend(escape(&d));
        let chunks = if r.flag() { vec![nal.clone()] } else { nonempty_partition(r, &nal) };
        writeln!(out, "sei {} {}", join_chunks(&chunks), (r.below(4) != 0) as u8).unwrap(); return;
    }
    if size_mode(r, 40) {
        // payload sizes from the ladder (block-wise copies of the payload), then another message
        let n = ladder(r, 16); sei_u32(&mut d, r.below(6)); sei_u32(&mut d, n as u64); d.extend(filler(r, n, true));
        sei_u32(&mut d, 1); sei_u32(&mut d, 2); d.push(0x33); d.push(0x44); d.push(0x80);
        let mut nal = vec![0x06u8]; nal.extend(escape(&d));
        let chunks = if r.flag() { vec![nal.clone()] } else { nonempty_partition(r, &nal) };
        writeln!(out, "sei {} 1", join_chunks_rle(&chunks)).unwrap(); return;
    }
    if r.below(20) == 0 {
        // a later message whose type is coded FF…FF 80 (128 + 255k), the data cut right after the type or after the size
        for _ in 0..(1 + r.below(2)) { sei_u32(&mut d, r.below(6)); sei_u32(&mut d, 2); d.push(0x11); d.push(0x22); }
        sei_u32(&mut d, 128 + 255 * (1 + r.below(3))); if r.flag() { sei_u32(&mut d, r.below(3)); }
        let mut nal = vec![0x06u8]; nal.extend(escape(&d));
        writeln!(out, "sei {} {}", join_chunks(&nonempty_partition(r, &nal)), (r.below(4) != 0) as u8).unwrap(); return;
    }
    for _ in 0..r.below(4) {
        let ty = match r.below(8) { 0 => 128, 1 => 255, 2 => 510, 3 => 200 + r.below(70000), 4 => 127 + r.below(3), _ => r.below(10) };
        let len = match r.below(6) { 0 => 0, 1 => 255, 2 => 254 + r.below(3), 3 => 510, _ => r.below(6) };
        sei_u32(&mut d, ty); sei_u32(&mut d, len);
        for _ in 0..len { d.push(r.pick8(&[0, 0, 1, 2, 3, 5, 0x80, 0xff, 7])); }
    }
    if r.below(5) != 0 { d.push(0x80); }
    if r.below(4) == 0 { let l = r.below(d.len() as u64 + 1) as usize; d.truncate(l); }
    if r.below(8) == 0 { d = (0..r.below(8)).map(|_| r.pick8(&[0xff, 0xff, 0x80, 1, 3, 0])).collect(); }
    let mut nal = vec![0x06u8];
    if r.below(10) == 0 { nal.extend_from_slice(&d); } else { nal.extend(escape(&d)); }
    let complete = r.below(4) != 0;
    let chunks = nonempty_partition(r, &nal);
    writeln!(out, "sei {} {}", join_chunks(&chunks), complete as u8).unwrap();
}

/// records with many well-formed parameter sets and repeated ids (later entries redefine earlier ones)
fn gen_avcc_many(r: &mut Rng, out: &mut dyn Write) {
    let mut d = vec![1u8, 0x42, 0xc0, 0x1e, 0xff];
    let nsps = r.pick(&[2, 8, 20, 21, 22, 25, 31]); d.push(0xe0 | nsps as u8);
    for _ in 0..nsps {
        let mut w = W::default(); w.u(8, 0x42).u(8, 0xc0).u(8, r.pick(&[10, 11, 20, 30, 31, 40, 41, 51])).ue(r.below(20)).ue(0).ue(0).ue(0).ue(1).b(false).ue(r.below(20)).ue(r.below(20)).b(true).b(false).b(false).b(false);
        let mut n = vec![0x67u8]; n.extend(escape(&w.trail())); d.push((n.len() >> 8) as u8); d.push(n.len() as u8); d.extend(n);
    }
    let npps = r.pick(&[0, 1, 21, 22, 30, 64, 255]); d.push(npps as u8);
    for _ in 0..npps {
        let mut w = W::default(); w.ue(r.below(40)).ue(r.below(20)).b(r.flag()).b(false).ue(0).ue(r.below(32)).ue(r.below(4)).b(false).u(2, 0).se(0).se(0).se(0).b(false).b(false).b(false);
        let mut n = vec![0x68u8]; n.extend(escape(&w.trail())); d.push((n.len() >> 8) as u8); d.push(n.len() as u8); d.extend(n);
    }
    writeln!(out, "avcc {}", hex(&d)).unwrap();
}

fn gen_avcc(r: &mut Rng, out: &mut dyn Write) {
    if r.below(15) == 0 { return gen_avcc_many(r, out); }
    // header bytes: every profile_idc the library names, levels from the level table (9, 11 = the Level 1b codings), compatibility with
    // each constraint flag set or clear
    let prof = if r.below(3) == 0 { r.next() as u8 } else { r.pick8(&[66, 66, 77, 88, 100, 100, 110, 122, 244, 44, 83, 86, 118, 128, 138, 139, 134, 135]) };
    let lvl = if r.below(4) == 0 { r.next() as u8 } else { r.pick8(&[9, 10, 11, 11, 12, 13, 20, 21, 22, 30, 31, 32, 40, 41, 42, 50, 51, 52, 60, 61, 62]) };
    let mut d = vec![if r.below(8) == 0 { r.pick8(&[0, 2, 255]) } else { 1 }, prof, if r.flag() { r.next() as u8 } else { r.pick8(&[0, 0, 0x10, 0x80, 0xc0, 0xe0, 0xf0, 0x08, 0x04, 0x14, 0xff, 0xef]) }, lvl, 0xfc | r.below(4) as u8];
    if r.below(10) == 0 { d[4] = r.next() as u8; }
    // parameter sets: mostly real ones so that create_context gets past the first NAL
    let mk_sps = |r: &mut Rng, prof: u8, compat: u8, lvl: u8| -> Vec<u8> {
        let mut w = W::default(); w.u(8, prof as u64).u(8, compat as u64).u(8, lvl as u64).ue(r.below(3)).ue(0).ue(0).ue(0).ue(1).b(false).ue(r.below(20)).ue(r.below(20)).b(true).b(false).b(false).b(false);
        let mut n = vec![0x67u8]; n.extend(escape(&w.trail())); n
    };
    // a valid parameter-set NAL followed by raw zero bytes (no emulation prevention): 00 00 00 inside a NAL is forbidden
    let raw_zeros = |r: &mut Rng, mut nal: Vec<u8>| -> Vec<u8> { if r.below(10) == 0 { while nal.last() == Some(&3) || nal.last() == Some(&0) { nal.pop(); } for _ in 0..(2 + r.below(3)) { nal.push(0); } if r.below(3) == 0 { nal.push(r.pick8(&[0, 1, 2, 0x80])); } } nal };
    let mk_pps = |r: &mut Rng| -> Vec<u8> {
        let mut w = W::default(); w.ue(r.below(3)).ue(r.below(3)).b(false).b(false).ue(0).ue(0).ue(0).b(false).u(2, 0).se(0).se(0).se(0).b(false).b(false).b(false);
        let mut n = vec![0x68u8]; n.extend(escape(&w.trail())); n
    };
    // an entry padded with escaped cabac_zero_words to a length around the 16-bit limit
    let pad_to = |mut nal: Vec<u8>, len: usize| -> Vec<u8> { while nal.len() + 3 <= len { nal.extend_from_slice(&[0, 0, 3]); } while nal.len() < len { nal.push(0); } nal };
    let long_len = if r.below(500) == 0 { Some(r.pick(&[65533, 65534, 65535, 65535]) as usize) } else if r.below(40) == 0 { Some(r.pick(&[255, 256, 257, 1000]) as usize) } else { None };
    let long_at = r.below(4) as usize; let mut entry_no = 0usize; // exactly one entry of the record is padded
    let nsps = if r.below(12) == 0 { 31 } else { r.below(3) }; d.push((if r.below(6) == 0 { r.next() as u8 & 0xe0 } else { 0xe0 }) | nsps as u8);
    let (p, c, l) = (d[1], d[2], d[3]);
    for _ in 0..nsps {
        let nal = match r.below(8) { 0 => vec![], 1 => vec![r.pick8(&[0x67, 0x68, 0xe7, 0x07])], 2 => { let mut v = vec![r.pick8(&[0x67, 0x67, 0x68, 0xe7])]; for _ in 0..r.below(5) { v.push(r.next() as u8); } v }
            3 => { let pr = r.pick8(&[0x42, 0x64]); mk_sps(r, pr, c, l) } 4 => { let c2 = if r.flag() { c ^ 0x10 } else { r.next() as u8 }; mk_sps(r, p, c2, l) } _ => { let n = mk_sps(r, p, c, l); raw_zeros(r, n) } };
        let nal = match long_len { Some(ll) if entry_no == long_at => pad_to(nal, ll), _ => nal }; entry_no += 1;
        d.push((nal.len() >> 8) as u8); d.push(nal.len() as u8); d.extend(nal);
    }
    let npps = if r.below(20) == 0 { 255 } else { r.below(3) }; d.push(npps as u8);
    for _ in 0..npps {
        let nal = match r.below(8) { 0 => vec![], 1 => vec![r.pick8(&[0x68, 0x67, 0xe8])], 2 => { let mut v = vec![r.pick8(&[0x68, 0x68, 0x67, 0xe8])]; for _ in 0..r.below(5) { v.push(r.next() as u8); } v } _ => { let n = mk_pps(r); raw_zeros(r, n) } };
        let nal = match long_len { Some(ll) if entry_no == long_at => pad_to(nal, ll), _ => nal }; entry_no += 1;
        d.push((nal.len() >> 8) as u8); d.push(nal.len() as u8); d.extend(nal);
    }
    if r.below(4) == 0 {
        // ISO/IEC 14496-15 tail of the High profiles: reserved bits set, chroma_format, bit depths, numOfSequenceParameterSetExt + entries
        d.push(0xfc | r.below(4) as u8); d.push(0xf8 | r.below(8) as u8); d.push(0xf8 | r.below(8) as u8);
        let next = r.below(3) as u8; d.push(next);
        for _ in 0..next { let l = r.below(6) as usize; d.push(0); d.push(l as u8); for _ in 0..l { d.push(r.next() as u8); } }
        if r.flag() { let cut = r.below(8) as usize; let l = d.len().saturating_sub(cut); d.truncate(l); }
    } else { for _ in 0..r.below(3) { d.push(r.next() as u8); } }
    if r.below(3) == 0 { let l = r.below(d.len() as u64 + 1) as usize; d.truncate(l); }
    if r.below(50) == 0 { let i = r.below(d.len().max(1) as u64) as usize; if i < d.len() { d[i] ^= 1 << r.below(8); } }
    writeln!(out, "avcc {}", hex(&d)).unwrap();
}

fn gen_bits(r: &mut Rng, out: &mut dyn Write) {
    let mut w = W::default();
    // a random bit offset first, then codewords at their boundaries, then noise
    let off = r.below(8) as u32;
    let mut ops = vec![];
    if off > 0 { w.u(off, r.next() & 0xff); ops.push(format!("u{}", off)); }
    let style = r.below(4);
    if style == 0 && r.below(6) == 0 {
        // long buffers: a few data bytes, zero runs of 8..48 bytes, a late 1 bit or none, skips next to powers of two
        let mut d: Vec<u8> = (0..(1 + r.below(4))).map(|_| r.next() as u8).collect();
        for _ in 0..(1 + r.below(3)) { for _ in 0..(7 + r.below(42)) { d.push(0); } if r.below(3) != 0 { d.push(r.pick8(&[0x80, 0x01, 0x10, 0xff])); } }
        for _ in 0..r.below(6) { d.push(0); }
        let mut ops: Vec<String> = vec![];
        for _ in 0..(1 + r.below(5)) { ops.push(match r.below(6) { 0 => "more".to_string(), 1 => format!("skip{}", ladder(r, 10)), 2 => format!("skip{}", r.below(16)), 3 => format!("u{}", r.below(33)), 4 => "more".to_string(), _ => "ue".to_string() }); }
        ops.push("more".to_string()); ops.push(r.pick_str(&["finish", "seifinish", "more"]).to_string());
        writeln!(out, "bits {} {}", hex(&d), ops.join(" ")).unwrap();
        return;
    }
    if style == 0 {
        // arbitrary bytes
        let len = r.below(12) as usize;
        let d: Vec<u8> = (0..len).map(|_| match r.below(4) { 0 => 0, 1 => 0xff, 2 => 0x80 >> r.below(8), _ => r.next() as u8 }).collect();
        let nops = 1 + r.below(10);
        let mut ops = vec![];
        for k in 0..nops { let last = k == nops - 1; ops.push(match r.below(if last { 10 } else { 8 }) { 0 | 1 => "ue".to_string(), 2 => "se".to_string(), 3 => "b".to_string(), 4 | 5 => format!("u{}", r.below(33)), 6 => "more".to_string(), 7 => if r.flag() { "rd".to_string() } else { format!("skip{}", r.below(20)) }, 8 => "finish".to_string(), _ => "seifinish".to_string() }); }
        writeln!(out, "bits {} {}", if d.is_empty() { "-".to_string() } else { hex(&d) }, ops.join(" ")).unwrap();
        return;
    }
    for _ in 0..(1 + r.below(5)) {
        match r.below(6) {
            0 | 1 if r.below(12) == 0 => {
                // a unary prefix of 256·k + c zeros followed by a c-bit suffix: an 8-bit counter would see the short code
                let c = r.below(32) as u32; let zeros = 256 * (1 + r.below(2)) as u32 + c;
                for _ in 0..zeros { w.b(false); } w.b(true); w.u(c, r.next() & ((1u64 << c) - 1));
                ops.push(if r.below(3) == 0 { "se".to_string() } else { "ue".to_string() }); }
            0 | 1 => { let k = match r.below(6) { 0 => (1u64 << r.below(33)) - 1, 1 => ((1u64 << (1 + r.below(32))) - 2).min((1 << 32) - 2), 2 => (1u64 << 32) - 2 - r.below(3), 3 => (1u64 << 32) - 1 + r.below(2), _ => r.next() % (1 << (1 + r.below(32))) };
                       w.ue(k); ops.push(if r.below(3) == 0 { "se".to_string() } else { "ue".to_string() }); }
            2 => { let m = 1u64 << r.below(32); let v = (r.next() % m) as i64 * if r.flag() { 1 } else { -1 }; w.se(v); ops.push("se".to_string()); }
            3 => { let n = r.below(33) as u32; let v = match r.below(4) { 0 => 0, 1 => if n == 0 { 0 } else { (1u64 << n) - 1 }, _ => if n == 0 { 0 } else { r.next() % (1u64 << n) } }; w.u(n, v); ops.push(format!("u{}", n)); }
            4 => { w.b(r.flag()); ops.push("b".to_string()); }
            _ => { ops.push("more".to_string()); if r.below(3) == 0 { while w.bits.len() % 8 != 0 { w.b(r.flag()); ops.push("b".to_string()); } w.u(8, r.next() & 0xff); ops.push("rd".to_string()); if r.flag() { ops.push("more".to_string()); } } }
        }
    }
    match r.below(6) { 5 => { w.b(true); ops.push("more".into()); ops.push(r.pick_str(&["ue", "se", "b", "u1"]).to_string()); ops.push(r.pick_str(&["finish", "seifinish", "more"]).to_string()); }
        0 => { w.b(true); ops.push("finish".into()); } 1 => { w.b(true); ops.push("seifinish".into()); } 2 => { ops.push("seifinish".into()); } 3 => { ops.push("more".into()); ops.push("finish".into()); } _ => {} }
    let mut d = w.bytes();
    for _ in 0..r.below(3) { d.push(if r.below(3) == 0 { r.next() as u8 } else { 0 }); }
    // truncation at an arbitrary byte
    if style == 1 && !d.is_empty() { let l = r.below(d.len() as u64 + 1) as usize; d.truncate(l); }
    writeln!(out, "bits {} {}", if d.is_empty() { "-".to_string() } else { hex(&d) }, ops.join(" ")).unwrap();
}

/// every bit string of 0..=nbytes bytes (nbytes <= 2 exhaustively; 3 bytes: every 41st value) x every position
/// reached by u<k> x {more, finish, seifinish, ue, se}
fn gen_bits_exhaustive(nbytes: usize, out: &mut dyn Write) {
    for len in 0..=nbytes {
        let total: u64 = 1u64 << (8 * len);
        let step = if len >= 3 { 41 } else { 1 };
        let mut v = 0u64;
        while v < total {
            let d: Vec<u8> = (0..len).map(|i| (v >> (8 * (len - 1 - i))) as u8).collect();
            let h = if d.is_empty() { "-".to_string() } else { hex(&d) };
            for pos in 0..=(8 * len) {
                let pre = if pos == 0 { String::new() } else if pos <= 32 { format!("u{} ", pos) } else { format!("u32 u{} ", pos - 32) };
                for tail in ["more finish", "more seifinish", "ue more", "se"] { if len >= 2 && tail != "more finish" && (v + pos as u64) % 7 != 0 { continue; } writeln!(out, "bits {} {}{}", h, pre, tail).unwrap(); }
            }
            v += step;
        }
    }
}

// ---------------------------------------------------------------------------------------------------------------
// SPS / PPS / slice header: structured, mostly valid, with boundary values and at most a few faults

/// at most `left` injected faults per generated structure (rule: one fault per case, everything else valid)
pub struct Faults { pub left: u32 }
impl Faults {
    pub fn new(r: &mut Rng) -> Faults { Faults { left: if r.below(3) == 0 { 1 } else { 0 } } }
    pub fn hit(&mut self, r: &mut Rng, one_in: u64) -> bool { if self.left > 0 && r.below(one_in) == 0 { self.left -= 1; true } else { false } }
}

/// a signed value in [lo, hi], biased to the ends; with a fault: just outside, or at the 32-bit extremes
fn rng_se(r: &mut Rng, f: &mut Faults, lo: i64, hi: i64) -> i64 {
    if f.hit(r, 8) { return r.pick(&[(hi + 1) as u64, (lo - 1) as u64, ((1i64 << 31) - 1) as u64, (-((1i64 << 31) - 1)) as u64]) as i64; }
    match r.below(6) { 0 => lo, 1 => hi, _ => lo + r.below((hi - lo + 1) as u64) as i64 }
}

fn small_ue(r: &mut Rng) -> u64 { match r.below(10) { 0 => r.pick(&[255, 256, 65535, 65536, (1 << 31) - 2, (1 << 31) - 1, 1 << 31, (1 << 31) + 1, (1u64 << 32) - 3, (1u64 << 32) - 2]), 1..=2 => r.below(40), _ => r.below(4) } }
fn se_val(r: &mut Rng, lim: i64) -> i64 { match r.below(8) { 0 => lim, 1 => -lim, 2 => lim + 1, 3 => -lim - 1, 4 => r.pick(&[(1 << 31) - 1]) as i64 * if r.flag() { 1 } else { -1 }, _ => r.below(2 * lim as u64 + 1) as i64 - lim } }

fn scaling_list(w: &mut W, r: &mut Rng, size: usize, fault: bool) {
    let present = r.below(3) != 0; w.b(present); if !present { return; }
    let mut last: i64 = 8; let mut next: i64 = 8;
    let fault_at = if fault { r.below(size as u64) as usize } else { usize::MAX };
    for j in 0..size {
        if next != 0 {
            let d: i64 = if j == fault_at { r.pick(&[128, 129, 1000]) as i64 * if r.flag() { 1 } else { -1 } - if r.flag() { 0 } else { 1 } }
                else { match r.below(40) { 0 | 5 => if last <= 128 { -last } else { 256 - last }, 1 => 127 - r.below(2) as i64, 2 => -128 + r.below(2) as i64, 3 => 100, 4 => -100, _ => r.below(9) as i64 - 4 } };
            w.se(d);
            next = (last + d + 256).rem_euclid(256);
        }
        last = if next == 0 { last } else { next };
    }
}

#[derive(Clone)]
pub struct SpsInfo { pub id: u64, pub chroma_idc: u64, pub separate: bool, pub log2fn: u64, pub poc_type: u64, pub log2poc: u64, pub always_zero: bool, pub frame_mbs_only: bool, pub w: u64, pub h: u64,
    pub nal_hrd: Option<(u64, u64, u64, u64, u64)>, pub vcl_hrd: Option<(u64, u64, u64, u64, u64)>, pub pic_struct_present: bool, pub has_vui: bool, pub bd_luma: u64 }

pub fn gen_sps(r: &mut Rng) -> (Vec<u8>, SpsInfo) {
    let mut w = W::with_alias(r); let mut f = Faults::new(r);
    let profile = r.pick(&[66, 77, 88, 100, 110, 122, 244, 44, 83, 86, 118, 128, 138, 139, 134, 135, 0, 255]);
    let profile = if r.below(6) == 0 { profile } else { r.pick(&[66, 77, 88, 100, 110, 122, 244, 44, 83, 86]) };
    let id = if f.hit(r, 6) { 32 } else if r.below(10) == 0 { r.pick(&[31, 15, 14, 16]) } else { r.below(3) };
    let lv_r = r.below(256); w.u(8, profile).u(8, r.below(256)).u(8, r.pick(&[10, 11, 30, 40, 51, lv_r])).ue(id);
    let mut chroma_idc = 1; let mut separate = false; let mut bd_luma = 0;
    if [100, 110, 122, 244, 44, 83, 86, 118, 128, 138, 139, 134, 135].contains(&profile) {
        chroma_idc = if f.hit(r, 6) { 4 } else { r.below(4) };
        w.ue(chroma_idc);
        if chroma_idc == 3 { separate = r.flag(); w.b(separate); }
        let bd1 = if f.hit(r, 6) { 7 } else { r.below(7) }; let bd2 = if f.hit(r, 6) { 7 } else { r.below(7) }; w.ue(bd1).ue(bd2).b(r.flag()); bd_luma = bd1;
        let sm = r.below(3) == 0; w.b(sm);
        if sm { let n = if chroma_idc == 3 { 12 } else { 8 }; let fault = if f.hit(r, 4) { r.below(n) as usize } else { 99 }; for i in 0..n as usize { scaling_list(&mut w, r, if i < 6 { 16 } else { 64 }, i == fault); } }
    }
    let log2fn = if f.hit(r, 6) { 13 } else { r.below(13) }; w.ue(log2fn);
    let poc_type = if f.hit(r, 6) { 3 } else { r.below(3) }; w.ue(poc_type);
    let mut log2poc = 0; let mut always_zero = false;
    if poc_type == 0 { log2poc = if f.hit(r, 5) { 13 } else { r.below(13) }; w.ue(log2poc); }
    if poc_type == 1 { always_zero = r.flag(); w.b(always_zero).se(se_val(r, 100)).se(se_val(r, 100)); let n = if f.hit(r, 4) { 256 } else { r.pick(&[0, 1, 2, 3, 7, 255]) }; w.ue(n); for _ in 0..n { w.se(se_val(r, 5)); } }
    let mr = r.below(5); w.ue(mr).b(r.flag());
    let wd = if r.below(10) == 0 { r.pick(&[351, 239, 351, 119]) } else if r.below(8) == 0 { r.pick(&[65535, 65536, (1u64 << 32) - 2, 1 << 27, (1 << 28) - 1, (1 << 31) - 2, (1 << 31) - 1, 1 << 31, 199_999_999, 199_999_999, 150_000_000]) } else { r.below(30) };
    let ht = if wd >= 79 && wd <= 351 { r.pick(&[287, 134, 287, 67]) } else if r.below(8) == 0 { r.pick(&[65535, 65536, (1u64 << 32) - 2, 1 << 27, (1 << 27) - 1]) } else { r.below(30) };
    w.ue(wd).ue(ht);
    let fmo = r.flag(); w.b(fmo); if !fmo { w.b(r.flag()); }
    w.b(r.flag());
    let crop = r.below(3) == 0 || (wd > (1 << 26) && r.flag()); w.b(crop); if crop { for k in 0..4 { let side = if k < 2 { wd } else { ht }; let opt = if side > (1 << 26) && r.below(3) != 0 { 2 } else { r.below(5) }; w.ue(match opt { 0 => small_ue(r), 1 => r.below(3) + (wd.min(1000) + 1) * 4,
        // a share of 30..100 % of the picture side in crop units (two such offsets each fit, their sum may not - also beyond 2^32)
        2 => (((side + 1) * 8) as u128 * (30 + r.below(71)) as u128 / 100).min((1u128 << 32) - 2) as u64, _ => r.below(5) }); } }
    let vui = r.below(2) == 0; w.b(vui);
    let (mut nal_hrd, mut vcl_hrd, mut psp) = (None, None, false);
    if vui {
        let ar = r.flag(); w.b(ar); if ar { let idc = r.pick(&[0, 1, 2, 13, 16, 17, 254, 255]); w.u(8, idc); if idc == 255 { w.u(16, r.below(65536)).u(16, r.below(65536)); } }
        let os = r.flag(); w.b(os); if os { w.b(r.flag()); }
        let vs = r.flag(); w.b(vs); if vs { w.u(3, r.below(8)).b(r.flag()); let cd = r.flag(); w.b(cd); if cd { w.u(8, r.below(256)).u(8, r.below(256)).u(8, r.below(256)); } }
        let cl = r.flag(); w.b(cl); if cl { let c1 = if f.hit(r, 5) { 6 } else { r.below(6) }; let c2 = if f.hit(r, 5) { 6 } else { r.below(6) }; w.ue(c1).ue(c2); }
        let ti = r.flag(); w.b(ti); if ti { let a = match r.below(4) { 0 => 0, 1 => 0xffff_ffff, _ => r.next() & 0xffff_ffff }; let b = match r.below(4) { 0 => 0, 1 => 0xffff_ffff, _ => r.next() & 0xffff_ffff }; w.u(32, a).u(32, b).b(r.flag()); }
        let max_hrd = r.below(25) == 0;   // both HRDs with 32 CPB entries and 32-bit fields: the longest buffering_period / pic_timing messages
        for k in 0..2 {
            let h = max_hrd || r.below(3) == 0; w.b(h);
            if h {
                let cnt = if max_hrd { 31 } else if f.hit(r, 4) { 32 } else { r.pick(&[0, 0, 1, 2, 31]) }; w.ue(cnt); w.u(4, r.below(16)).u(4, r.below(16));
                for _ in 0..=cnt { w.ue(small_ue(r)).ue(small_ue(r)).b(r.flag()); }
                let (a, b, c, d) = if max_hrd || r.below(6) == 0 { (31, 31, 31, 31) } else { (r.pick(&[0, 4, 23, 31]), r.pick(&[0, 4, 23, 31]), r.pick(&[0, 4, 23, 31]), r.pick(&[0, 1, 5, 24, 31])) };
                w.u(5, a).u(5, b).u(5, c).u(5, d);
                if k == 0 { nal_hrd = Some((cnt, a, b, c, d)); } else { vcl_hrd = Some((cnt, a, b, c, d)); }
            }
        }
        if nal_hrd.is_some() || vcl_hrd.is_some() { w.b(r.flag()); }
        psp = r.flag(); w.b(psp);
        let br = r.flag(); w.b(br); if br { let lim = |r: &mut Rng, f: &mut Faults, ok: &[u64], bad: u64| -> u64 { if f.hit(r, 6) { bad } else { r.pick(ok) } };
            let (x1, x2, x3, x4) = (lim(r, &mut f, &[0, 2, 16], 17), lim(r, &mut f, &[0, 1, 16], 17), lim(r, &mut f, &[0, 15, 16], 17), lim(r, &mut f, &[0, 15, 16], 17));
            w.b(r.flag()).ue(x1).ue(x2).ue(x3).ue(x4); let b = if f.hit(r, 6) { 17 } else { r.pick(&[mr, mr + 1, 16, 4]).max(mr).min(16) }; let a = if f.hit(r, 6) { b + 1 } else { r.below(b + 1) }; w.ue(a).ue(b); }
    }
    (w.trail_z(r), SpsInfo { id, chroma_idc, separate, log2fn, poc_type, log2poc, always_zero, frame_mbs_only: fmo, w: wd, h: ht, nal_hrd, vcl_hrd, pic_struct_present: psp, has_vui: vui, bd_luma })
}

#[derive(Clone)]
pub struct PpsInfo { pub id: u64, pub sps: usize, pub entropy: bool, pub bottom: bool, pub l0: u64, pub wp: bool, pub wb: u64, pub qs: i64, pub deblock: bool, pub redundant: bool, /// a map-type-6 PPS with a full id list beyond 65536 entries, generated without any injected fault: must be accepted
    pub big_ok: bool }

pub fn gen_pps(r: &mut Rng, spss: &[SpsInfo]) -> (Vec<u8>, PpsInfo) {
    let mut w = W::with_alias(r); let mut f = Faults::new(r); let budget = f.left; let mut big = false;
    let id = if f.hit(r, 6) { 256 } else if r.below(10) == 0 { 255 } else { r.below(3) };
    let si = r.below(spss.len() as u64) as usize;
    let s = &spss[si];
    let sps_id = if f.hit(r, 8) { r.pick(&[5, 31, 32]) } else { s.id };
    w.ue(id).ue(sps_id);
    let entropy = r.flag(); let bottom = r.flag(); w.b(entropy).b(bottom);
    let size = ((s.w + 1) * (s.h + 1)).min((1u64 << 32) - 1);
    let n = if f.hit(r, 8) { 8 } else if r.below(3) == 0 || (size > 3000 && size < 200_000 && r.flag()) { r.pick(&[1, 2, 3, 7]) } else { 0 }; w.ue(n);
    if n > 0 && n <= 7 {
        let t = if f.hit(r, 8) { 7 } else { r.below(7) }; w.ue(t);
        match t {
            0 => { for _ in 0..=n { w.ue(if f.hit(r, 4) { size.min((1u64 << 32) - 2) } else if r.below(6) == 0 { size - 1 } else { r.below(size.min(50)) }); } }
            2 => { for _ in 0..n {
                let a = if r.below(8) == 0 { r.pick(&[2, (1 << 31) - 1, 1 << 31, (1u64 << 32) - 3]).min(size) } else { r.below(size.min(60) + 1) };
                let b = if f.hit(r, 4) { r.pick(&[size + 1, a.saturating_sub(1)]) } else if r.below(8) == 0 { r.pick(&[size, (1u64 << 32) - 2, (1u64 << 32) - 3]).min(size).max(a) } else { (a + r.below(4)).min(size) }; w.ue(a).ue(b.min((1u64 << 32) - 2)); } }
            3 | 4 | 5 => { w.b(r.flag()).ue(if f.hit(r, 3) { size.min((1u64 << 32) - 2) } else if r.below(4) == 0 { size - 1 } else { r.below(size.min(50)) }); }
            6 if size_mode(r, 20) => { big = true; let cnt = if r.flag() { r.pick(&[65535, 65536, 65537, 70000, 139263]) } else { (ladder(r, 17) as u64).min(150_000).max(2) - 1 }; w.ue(cnt); let bits = [0, 1, 2, 2, 3, 3, 3, 3][n as usize]; for _ in 0..=cnt { w.u(bits, if bits == 0 { 0 } else { r.below(n + 1) }); } }
            6 if size > 3000 && size < 200_000 && r.below(2) == 0 => { let cnt = size - 1; w.ue(cnt.min((1u64 << 32) - 2)); let bits = [0, 1, 2, 2, 3, 3, 3, 3][n as usize]; for _ in 0..r.below(40) { w.u(bits, 0); } }
            6 => { let cnt = if f.hit(r, 3) { r.pick(&[size.min(3000), 1 << 16, 1 << 24, (1 << 31) - 1, (1u64 << 32) - 2]) } else if r.below(6) == 0 { (size - 1).min(3000) } else { r.below(12).min(size - 1) }; w.ue(cnt); let bits = [0, 1, 2, 2, 3, 3, 3, 3][n as usize]; for _ in 0..=cnt.min(3000) { w.u(bits, if bits == 0 { 0 } else if f.hit(r, 9) { (n + 1).min((1 << bits) - 1) } else { r.below(n + 1) }); } }
            _ => {}
        }
    }
    let l0 = if f.hit(r, 8) { 32 } else if r.below(8) == 0 { 31 } else { r.below(4) };
    let l1 = if f.hit(r, 8) { 32 } else if r.below(8) == 0 { 31 } else { r.below(4) };
    w.ue(l0).ue(l1);
    let wp = r.flag(); let wb = r.below(4); w.b(wp).u(2, wb);
    let qp = rng_se(r, &mut f, -(26 + 6 * s.bd_luma as i64), 25); let qs = rng_se(r, &mut f, -26, 25); let cq = rng_se(r, &mut f, -12, 12); w.se(qp).se(qs).se(cq);
    let deblock = r.flag(); let redundant = r.below(4) == 0; w.b(deblock).b(r.flag()).b(redundant);
    if r.below(2) == 0 {
        let t = r.flag(); w.b(t);
        let m = r.below(3) == 0; w.b(m);
        if m { let cnt = 6 + if t { if s.chroma_idc == 3 { 6 } else { 2 } } else { 0 }; let fault = if f.hit(r, 4) { r.below(cnt) as usize } else { 99 }; for i in 0..cnt as usize { scaling_list(&mut w, r, if i < 6 { 16 } else { 64 }, i == fault); } }
        let cq2 = rng_se(r, &mut f, -12, 12); w.se(cq2);
    }
    let big_ok = big && f.left == budget && w.alias.map(|a| a.0 >= w.ue_count).unwrap_or(true);
    (w.trail_z(r), PpsInfo { id, sps: si, entropy, bottom, l0, wp, wb, qs, deblock, redundant, big_ok })
}

pub fn gen_slice(r: &mut Rng, spss: &[SpsInfo], ppss: &[PpsInfo]) -> (u8, Vec<u8>) {
    let mut w = W::with_alias(r); let mut f = Faults::new(r);
    let p = &ppss[r.below(ppss.len() as u64) as usize];
    let s = &spss[p.sps];
    let st = if f.hit(r, 10) { 10 } else { r.below(10) };
    let fam = st % 5;
    let nal_type = if f.hit(r, 12) { 20 } else { r.pick(&[1, 5]) };
    let ref_idc = r.below(4);
    let hdr = ((ref_idc << 5) | nal_type) as u8;
    w.ue(small_ue(r)).ue(st).ue(if f.hit(r, 10) { r.pick(&[200, 255, 256]) } else { p.id });
    if s.separate { w.u(2, r.below(4)); }
    w.u((s.log2fn + 4) as u32, r.next() & ((1 << (s.log2fn + 4)) - 1));
    let mut field = false;
    if !s.frame_mbs_only { field = r.flag(); w.b(field); if field { w.b(r.flag()); } }
    if nal_type == 5 { w.ue(if f.hit(r, 8) { 65536 } else if r.below(5) == 0 { 65535 } else { r.below(40) }); }
    if s.poc_type == 0 { w.u((s.log2poc + 4) as u32, r.next() & ((1 << (s.log2poc + 4)) - 1)); if p.bottom && !field { w.se(se_val(r, 10)); } }
    if s.poc_type == 1 && !s.always_zero { w.se(se_val(r, 10)); if p.bottom && !field { w.se(se_val(r, 10)); } }
    if p.redundant { w.ue(if f.hit(r, 6) { 128 } else if r.below(6) == 0 { 127 } else { r.below(5) }); }
    if fam == 1 { w.b(r.flag()); }
    let mut l0 = p.l0;
    let want_heavy = r.below(6) == 0 && p.wp && (fam == 0 || fam == 3);   // 32 references, long weight table (header beyond 128 bytes)
    if fam == 0 || fam == 3 || fam == 1 { let o = want_heavy || r.flag(); w.b(o); if o { l0 = if want_heavy { 31 } else if f.hit(r, 6) { 32 } else if r.below(8) == 0 { 31 } else { r.below(3) }; w.ue(l0); if fam == 1 { w.ue(if f.hit(r, 6) { 32 } else if r.below(8) == 0 { 31 } else { r.below(3) }); } } }
    let lists = match fam { 2 | 4 => 0, 1 => 2, _ => 1 };
    for _ in 0..lists { let mf = r.below(3) == 0; w.b(mf); if mf { for _ in 0..r.below(4) { let idc = if f.hit(r, 8) { 4 } else { r.below(3) }; w.ue(idc); w.ue(small_ue(r)); } w.ue(3); } }
    if (p.wp && (fam == 0 || fam == 3)) || (p.wb == 1 && fam == 1) {
        let chroma = !s.separate && s.chroma_idc != 0;
        let ld = if f.hit(r, 8) { 8 } else { r.below(8) }; w.ue(ld); let cd = if f.hit(r, 8) { 8 } else { r.below(8) }; if chroma { w.ue(cd); }
        let defaults = r.below(4) == 0;   // explicit entries that restate the inferred values (weight 2^denom, offset 0)
        let heavy = if want_heavy || r.below(8) == 0 { Some(8 + r.below(24)) } else { None };   // first k entries with every weight, the rest bare flags
        if l0 <= 31 { for e in 0..=l0 { let lf = match heavy { Some(k) => e < k, None => r.flag() }; w.b(lf); if lf { let a = if defaults && r.below(8) != 0 { 1i64 << ld.min(7) } else if heavy.is_some() { r.pick(&[127, 126, 100]) as i64 * if r.flag() { 1 } else { -1 } } else { rng_se(r, &mut f, -128, 127) }; let b = if defaults && r.below(8) != 0 { 0 } else { rng_se(r, &mut f, -128, 127) }; w.se(a).se(b); } if chroma { let cf = match heavy { Some(k) => e < k, None => r.flag() }; w.b(cf); if cf { for k in 0..4 { let a = if defaults && r.below(8) != 0 { if k % 2 == 0 { 1i64 << cd.min(7) } else { 0 } } else { rng_se(r, &mut f, -128, 127) }; w.se(a); } } } } }
    }
    if ref_idc != 0 {
        if nal_type == 5 { w.b(r.flag()).b(r.flag()); }
        else { let a = r.flag(); w.b(a); if a { for _ in 0..r.below(4) { let op = if f.hit(r, 8) { 7 } else { 1 + r.below(6) }; w.ue(op); match op { 1 | 2 | 4 | 6 => { w.ue(small_ue(r)); } 3 => { w.ue(small_ue(r)).ue(small_ue(r)); } _ => {} } } w.ue(0); } }
    }
    if p.entropy && fam != 2 && fam != 4 { w.ue(if f.hit(r, 8) { 3 } else { r.below(3) }); }
    let qpd = rng_se(r, &mut f, -51, 51); w.se(qpd);
    if fam == 3 || fam == 4 { if fam == 3 { w.b(r.flag()); } let lo = -26 - p.qs; let hi = 25 - p.qs; let v = rng_se(r, &mut f, lo, hi); w.se(v); }
    if p.deblock { let idc = if f.hit(r, 6) { r.pick(&[3, 7]) } else { r.below(3) }; w.ue(idc); if idc != 1 && idc <= 6 { let a = rng_se(r, &mut f, -6, 6); let b = rng_se(r, &mut f, -6, 6); w.se(a).se(b); } }
    if r.below(10) != 0 { w.u(8, r.below(256)); }
    (hdr, w.trail_z(r))
}

fn mutate(r: &mut Rng, d: &mut Vec<u8>) {
    if d.is_empty() { return; }
    match r.below(5) {
        0 => { let i = r.below(d.len() as u64 * 8) as usize; d[i / 8] ^= 0x80 >> (i % 8); }
        1 => { let l = r.below(d.len() as u64 + 1) as usize; d.truncate(l); }
        2 => { let i = r.below(d.len() as u64) as usize; d[i] = r.pick8(&[0, 0xff, 0x80, 1]); }
        3 => { let i = r.below(d.len() as u64 + 1) as usize; d.insert(i, r.next() as u8); }
        _ => { let i = r.below(d.len() as u64) as usize; d.remove(i); }
    }
}

/// groups: reset, 1-2 SPS, 1-3 PPS, 1-4 slice headers; the real parsers steer which ids later lines refer to
fn gen_syntax(r: &mut Rng, n: usize, out: &mut dyn Write, derived: bool) {
    let mut count = 0;
    let mut run = Runner::new();
    while count < n {
        writeln!(out, "reset").unwrap(); run.run_line("reset"); count += 1;
        let mut spss = vec![]; let mut ppss: Vec<PpsInfo> = vec![]; let mut last_sps: Option<Vec<u8>> = None; let mut last_pps: Option<Vec<u8>> = None; let mut pps_stores = 0usize;
        for _ in 0..(1 + r.below(2)) {
            let (mut d, info) = gen_sps(r);
            if r.below(12) == 0 { mutate(r, &mut d); }
            let line = format!("sps {}", hex(&d)); writeln!(out, "{}", line).unwrap(); count += 1; last_sps = Some(d.clone());
            if derived { writeln!(out, "derived {}", hex(&d)).unwrap(); count += 1; }
            if run.run_line(&line).starts_with("Ok") { spss.retain(|q: &SpsInfo| q.id != info.id); spss.push(info); }
        }
        if spss.is_empty() || derived { continue; }
        for _ in 0..(1 + r.below(3)) {
            let (mut d, info) = gen_pps(r, &spss);
            let mutated = r.below(12) == 0; if mutated { mutate(r, &mut d); }
            let line = format!("pps {}", hex(&d)); writeln!(out, "{}{}", line, if info.big_ok && !mutated { " | ~^Ok\\(" } else { "" }).unwrap(); count += 1; if d.len() < 200 { last_pps = Some(d.clone()); }
            if run.run_line(&line).starts_with("Ok") { pps_stores += 1; ppss.retain(|q: &PpsInfo| q.id != info.id); ppss.push(info); }
        }
        if ppss.is_empty() { continue; }
        if r.below(4) == 0 {
            // a parameter set sent again with a single bit changed (a redefinition that differs in one flag or one small value), then what is stored
            for _ in 0..(1 + r.below(2)) {
                let which = r.flag(); let prev = if which { last_pps.clone() } else { last_sps.clone() };
                if let Some(mut d) = prev { if d.len() > 2 {
                    let nbits = d.len() * 8; let i = if r.flag() { nbits - 9 - r.below((nbits as u64 - 9).min(40)) as usize } else { r.below(nbits as u64 - 8) as usize };
                    d[i / 8] ^= 0x80 >> (i % 8);
                    let line = format!("{} {}", if which { "pps" } else { "sps" }, hex(&d)); writeln!(out, "{}", line).unwrap(); count += 1; run.run_line(&line);
                } }
            }
            writeln!(out, "dump").unwrap(); count += 1;
        }
        if r.below(150) == 0 {
            // every PPS id once (256 distinct ids in one context), some sent again, the last one in particular; then what is stored
            let s0 = spss[0].clone(); let mut order: Vec<u64> = (0..256).collect(); for k in (1..256).rev() { let j = r.below(k as u64 + 1) as usize; order.swap(k, j); }
            let mk = |r: &mut Rng, id: u64| -> String { let mut w = W::default(); w.ue(id).ue(s0.id).b(false).b(false).ue(0).ue(0).ue(r.below(4)).b(false).u(2, 0).se(0).se(0).se(0).b(false).b(r.flag()).b(false); format!("pps {}", hex(&w.trail())) };
            for id in &order { let l = mk(r, *id); writeln!(out, "{}", l).unwrap(); count += 1; run.run_line(&l); }
            for id in [order[255], order[0], order[255], order[128]] { let l = mk(r, id); writeln!(out, "{}", l).unwrap(); count += 1; run.run_line(&l); }
            writeln!(out, "dump").unwrap(); count += 1;
            // slices naming the ids that were sent again (and one that was not)
            // probes: the ids sent again, and the ids whose store was the 255th / 256th / 257th of this context (counting the earlier ones)
            let mut probes = vec![order[255], order[0], order[7], order[255]];
            for d in [254usize, 255, 256] { if d >= pps_stores && d - pps_stores < 256 { probes.push(order[d - pps_stores]); } }
            for id in probes {
                let info = PpsInfo { id, sps: 0, entropy: false, bottom: false, l0: 0, wp: false, wb: 0, qs: 0, deblock: false, redundant: false, big_ok: false };
                let (hdr, d) = gen_slice(r, &spss[..1], &[info]); writeln!(out, "slice {:02x} {}", hdr, hex(&d)).unwrap(); count += 1; }
            continue;
        }
        if r.below(3) == 0 {
            // a parameter set arriving after the PPS that refer to it: same id redefined (the PPS stay), or a new id
            writeln!(out, "dump").unwrap(); count += 1;
            for _ in 0..(1 + r.below(2)) {
                let (d, info) = gen_sps(r);
                let line = format!("sps {}", hex(&d)); writeln!(out, "{}", line).unwrap(); count += 1;
                if run.run_line(&line).starts_with("Ok") { match spss.iter().position(|q| q.id == info.id) { Some(i) => spss[i] = info, None => spss.push(info) } }
            }
            writeln!(out, "dump").unwrap(); count += 1;
        }
        for _ in 0..(1 + r.below(4)) {
            let (hdr, mut d) = gen_slice(r, &spss, &ppss);
            if r.below(12) == 0 { mutate(r, &mut d); }
            writeln!(out, "slice {:02x} {}", hdr, hex(&d)).unwrap(); count += 1;
        }
    }
}

fn gen_ctx(r: &mut Rng, out: &mut dyn Write) {
    let mut ops = vec![];
    let wide = r.below(3) == 0;
    for _ in 0..(2 + r.below(14)) {
        let sid = if wide { r.pick(&[0, 1, 30, 31, 32]) } else { r.below(4) };
        let pid = if wide { r.pick(&[0, 1, 254, 255, 256]) } else { r.below(4) };
        ops.push(match r.below(8) { 0 | 1 => format!("s{}:{}", sid, r.below(256)), 2 | 3 => format!("p{}:{}:{}", pid, sid, r.below(32)), 4 => format!("gs{}", sid), 5 => format!("gp{}", pid), 6 => "is".to_string(), _ => "ip".to_string() });
    }
    ops.push("is".into()); ops.push("ip".into());
    writeln!(out, "ctx {}", ops.join(" ")).unwrap();
}

pub fn to_nal(hdr: u8, rbsp: &[u8]) -> Vec<u8> { let mut n = vec![hdr]; n.extend(escape(rbsp)); n }

pub fn gen_sei_rbsp(r: &mut Rng) -> Vec<u8> {
    let mut d = vec![];
    if r.below(5) == 0 {
        // user_data_unregistered of 100..520 bytes: a zero-free run that ends next to a multiple of 128 (NAL offsets),
        // then zeros (escaped by the NAL writer), so that emulation prevention starts right behind a window / chunk end
        let run = (128 * (1 + r.below(3)) + r.below(5)) as usize - 4 + r.below(3) as usize; let tail = 3 + r.below(12) as usize;
        sei_u32(&mut d, 5); sei_u32(&mut d, (run + tail) as u64);
        for _ in 0..run { d.push(1 + (r.next() % 255) as u8); }
        for _ in 0..tail { d.push(r.pick8(&[0, 0, 0, 1, 3, 0x80])); }
    }
    for _ in 0..(1 + r.below(3)) {
        let ty = match r.below(8) { 0 => 128, 1 => 255, 2 => 510, 3 => 200 + r.below(70000), _ => r.below(10) };
        let len = match r.below(6) { 0 => 0, 1 => 255, 2 => 256, _ => r.below(6) };
        sei_u32(&mut d, ty); sei_u32(&mut d, len);
        for _ in 0..len { d.push(r.pick8(&[0, 0, 1, 2, 5, 0x80, 0xff, 7])); }
    }
    d.push(0x80); d
}

/// C17: valid NALs (SPS, PPS, slice, SEI) against a context, each presented complete and as every k-th proper prefix,
/// in several chunkings, incomplete; plus mutated ones that stay free of forbidden sequences
fn gen_nal(r: &mut Rng, n: usize, out: &mut dyn Write) {
    let mut count = 0; let mut run = Runner::new();
    while count < n {
        writeln!(out, "reset").unwrap(); run.run_line("reset"); count += 1;
        let (sd, sinfo) = gen_sps(r);
        let mut spsnal = to_nal(0x67, &sd);
        // bytes behind rbsp_trailing_bits: cabac_zero_words are legal, anything else is not - also behind an emulation prevention byte
        if r.below(3) == 0 { while spsnal.last() == Some(&0) || spsnal.last() == Some(&3) { spsnal.pop(); } spsnal.extend_from_slice(match r.below(4) { 0 => &[0, 0, 3, 1, 0xab], 1 => &[0, 0, 3, 0, 0, 3, 0x80], 2 => &[0, 0, 3], _ => &[0, 0x80] }); }
        let line = format!("nal {} 1", hex(&spsnal));
        let ok = run.run_line(&line).starts_with("sps:Ok");
        emit_prefixes(r, &spsnal, out, &mut count, false);
        writeln!(out, "{}", line).unwrap(); count += 1;
        if !ok { continue; }
        let spss = vec![sinfo];
        let (pd, pinfo) = gen_pps(r, &spss);
        let mut ppsnal = to_nal(0x68, &pd);
        if r.below(4) == 0 { while ppsnal.last() == Some(&0) || ppsnal.last() == Some(&3) { ppsnal.pop(); } ppsnal.extend_from_slice(match r.below(4) { 0 => &[0, 0, 3, 1, 0xab], 1 => &[0, 0, 3, 0, 0, 3, 0x80], 2 => &[0, 0, 3], _ => &[0, 0x80] }); }
        let line = format!("nal {} 1", hex(&ppsnal));
        let ok = run.run_line(&line).starts_with("pps:Ok");
        emit_prefixes(r, &ppsnal, out, &mut count, false);
        writeln!(out, "{}", line).unwrap(); count += 1;
        let pinfo2 = pinfo.clone();
        if ok {
            let ppss = vec![pinfo];
            for _ in 0..2 {
                let (hdr, mut d) = gen_slice(r, &spss, &ppss);
                while d.last() == Some(&0) { d.pop(); }
                let hdr_len = d.len();   // header bits end in the last byte or in the one before
                if hdr & 0x1f != 20 && r.below(5) == 0 {
                    // a slice NAL without slice data (header, stop bit, possibly cabac_zero_words): refused when complete, so no
                    // prefix of it may be accepted; every cut near its end
                    let mut e = d.clone(); if r.flag() { e.extend_from_slice(&[0, 0]); if r.flag() { e.extend_from_slice(&[0, 0]); } }
                    let nal = to_nal(hdr, &e);
                    emit_prefixes(r, &nal, out, &mut count, true);
                    for k in 1..=5usize { if nal.len() > k { writeln!(out, "nal {} 0", hex(&nal[..nal.len() - k])).unwrap(); count += 1; } }
                }
                if r.below(3) == 0 { let l = d.len(); if d[l - 1] == 0x80 { d.pop(); } }   // byte-aligned header: slice data starts right there
                d.push(r.pick8(&[0x80, 0x80, 0x00, 0x5a, 0xff])); 
                for _ in 0..r.below(20) { d.push(r.pick8(&[0, 0, 1, 3, 0xff, 0x55, 0x80])); }
                if d.last() == Some(&0) { d.push(0x80); }
                if hdr & 0x1f == 20 { continue; }
                let nal = to_nal(hdr, &d);
                emit_prefixes(r, &nal, out, &mut count, true);
                // two-way splits next to the end of the header (where the parser asks whether slice data follows)
                let hl = 1 + escape(&d[..hdr_len.min(d.len())]).len();
                for c in [hl.saturating_sub(2), hl.saturating_sub(1), hl, hl + 1] { if c >= 1 && c < nal.len() && r.below(2) == 0 { writeln!(out, "nal {},{} 1", hex(&nal[..c]), hex(&nal[c..])).unwrap(); count += 1; } }
            }
        }
        if ok {
            // a slice header that ends exactly on a byte boundary (searched for among fresh headers): slice data starting 80 / 00 / 01
            // right behind it, the NAL cut (complete: two chunks; incomplete: prefix) exactly at the end of the header and one byte later -
            // where `more_rbsp_data` has to look past what is buffered
            let ppss2 = vec![pinfo2.clone()];
            for _ in 0..12 {
                let (hdr, mut d) = gen_slice(r, &spss, &ppss2);
                while d.last() == Some(&0) { d.pop(); }
                if hdr & 0x1f == 20 || d.last() != Some(&0x80) { continue; }
                d.pop(); let hl = 1 + escape(&d).len();
                for first in [0x80u8, 0x00, 0x01] {
                    let mut e = d.clone(); e.push(first); e.extend_from_slice(&[0x00, 0x17, 0x42, 0x80]);
                    let nal = to_nal(hdr, &e);
                    if hl + 3 >= nal.len() { continue; }
                    writeln!(out, "full {}", hex(&nal)).unwrap(); count += 1;
                    for c in [hl, hl + 1, hl + 2, hl + 3] {
                        writeln!(out, "nal {},{} 1", hex(&nal[..c]), hex(&nal[c..])).unwrap();
                        writeln!(out, "nal {} 0", hex(&nal[..c])).unwrap(); count += 2;
                    }
                    writeln!(out, "nal {} 1", hex(&nal)).unwrap(); count += 1;
                }
                break;
            }
        }
        let sei = to_nal(0x06, &gen_sei_rbsp(r));
        emit_prefixes(r, &sei, out, &mut count, true);
    }
}
fn emit_prefixes(r: &mut Rng, nal: &[u8], out: &mut dyn Write, count: &mut usize, with_complete: bool) {
    let mut nal = nal.to_vec();
    if r.below(6) == 0 && nal.len() > 2 { let i = 1 + r.below(nal.len() as u64 - 1) as usize; nal[i] = r.pick8(&[1, 0x80, 0xff, 0x10]); }
    writeln!(out, "full {}", hex(&nal)).unwrap(); *count += 1;
    let step = 1 + nal.len() / 12;
    let mut l = 1;
    while l <= nal.len() {
        let chunks = nonempty_partition(r, &nal[..l]);
        writeln!(out, "nal {} 0", join_chunks(&chunks)).unwrap(); *count += 1;
        l += if l < 6 { 1 } else { 1 + r.below(step as u64 * 2) as usize };
    }
    if with_complete { let chunks = nonempty_partition(r, &nal); writeln!(out, "nal {} 1", join_chunks(&chunks)).unwrap(); *count += 1; }
}

/// C12: NAL sequences serialised as Annex B with 3/4-byte start codes and zero padding, pushed in pieces
fn gen_stream(r: &mut Rng, n: usize, out: &mut dyn Write) {
    for _ in 0..n {
        if size_mode(r, 60) {
            // SPS, a slice NAL whose data has a ladder size pushed in pieces of 64 KiB (or smaller), then SPS and PPS cut across pushes:
            // whatever the accumulator keeps from the large NAL must not affect the following ones
            let (sd, sinfo) = gen_sps(r); let spss = vec![sinfo]; let (pd, pinfo) = gen_pps(r, &spss); let ppss = vec![pinfo];
            let (hdr, mut d) = gen_slice(r, &spss, &ppss); while d.last() == Some(&0) { d.pop(); }
            let big = ladder(r, 13); d.extend(filler(r, big, true)); d.push(0x80);
            let mut sdat: Vec<u8> = vec![]; for nal in [to_nal(0x67, &sd), to_nal(0x68, &pd), to_nal(hdr, &d), to_nal(0x67, &sd), to_nal(0x68, &pd)] { sdat.extend_from_slice(&[0, 0, 1]); sdat.extend(nal); }
            // (at most ~48 pushes per case: the model's accumulator copies its buffer on every push)
            let piece = (if r.flag() { 65536 } else { 1 + ladder(r, 12) }).max(sdat.len() / 48 + 1);
            let mut line = String::from("stream B"); let mut i = 0; while i < sdat.len() { let e = (i + piece).min(sdat.len()); line.push_str(&format!(" p:{}", hex_rle(&sdat[i..e]))); i = e; }
            line.push_str(" r"); writeln!(out, "{}", line).unwrap(); continue;
        }
        let mut nals: Vec<Vec<u8>> = vec![];
        let (sd, sinfo) = gen_sps(r); nals.push(to_nal(0x67, &sd));
        let spss = vec![sinfo];
        let (pd, pinfo) = gen_pps(r, &spss); nals.push(to_nal(0x68, &pd));
        let ppss = vec![pinfo];
        for _ in 0..r.below(4) {
            match r.below(3) {
                0 => nals.push(to_nal(0x06, &gen_sei_rbsp(r))),
                _ => { let (hdr, mut d) = gen_slice(r, &spss, &ppss); if *d.last().unwrap() == 0 { while d.last() == Some(&0) { d.pop(); } }
                       // slice data: arbitrary bytes, sometimes several KiB, ending in a non-zero byte (rbsp_trailing_bits)
                       let extra = if r.below(4) == 0 { 1000 + r.below(3000) } else { r.below(40) };
                       let last = d.pop().unwrap(); for _ in 0..extra { d.push(r.pick8(&[0, 0, 0, 1, 2, 3, 0xff, 0x55, 0x80])); } d.push(last | 1);
                       nals.push(to_nal(hdr, &d)); }
            }
        }
        let mut s = vec![]; let mut starts: Vec<usize> = vec![];
        for _ in 0..r.below(3) { s.push(0); }
        for (i, nal) in nals.iter().enumerate() {
            for _ in 0..r.pick(&[0, 0, 1, 1, 2, 5]) { s.push(0); }
            s.extend_from_slice(&[0, 0, 1]); starts.push(s.len()); s.extend_from_slice(nal);
            if i + 1 == nals.len() { if r.below(3) == 0 { for _ in 0..(3 + r.below(3)) { s.push(0); } } }
        }
        let parts = if r.below(3) == 0 {
            // pushes that end when the accumulated NAL is 128k, 128k+1 or 128k+2 bytes long
            let mut cuts: Vec<usize> = vec![];
            for st in &starts { let mut k = 128; while k < 600 { for e in [0usize, 1, 2] { if r.below(2) == 0 { cuts.push(st + k + e); } } k += 128; } }
            for _ in 0..r.below(4) { cuts.push(r.below(s.len() as u64 + 1) as usize); }
            cuts.retain(|&c| c > 0 && c < s.len()); cuts.sort(); cuts.dedup();
            let mut out = vec![]; let mut i = 0; for c in cuts { out.push(s[i..c].to_vec()); i = c; } out.push(s[i..].to_vec()); out
        } else { partition(r, &s) };
        let mut line = String::from(if r.below(3) == 0 { "stream H" } else { "stream B" });
        for p in &parts { line.push_str(&format!(" p:{}", hex(p))); }
        line.push_str(" r");
        writeln!(out, "{}", line).unwrap();
    }
}

/// C11: pic_timing against generated SPS VUI shapes, buffering_period against the context, T.35
fn gen_seipayload(r: &mut Rng, n: usize, out: &mut dyn Write) {
    let mut count = 0; let mut run = Runner::new();
    while count < n {
        writeln!(out, "reset").unwrap(); run.run_line("reset"); count += 1;
        let (sd, s) = loop { let (sd, s) = gen_sps(r); if s.has_vui || r.below(4) == 0 { break (sd, s); } };
        let line = format!("sps {}", hex(&sd)); writeln!(out, "{}", line).unwrap(); count += 1;
        let ok = run.run_line(&line).starts_with("Ok");
        for _ in 0..3 {
            // pic_timing
            let mut w = W::default();
            let hrd = s.nal_hrd.or(s.vcl_hrd);
            if let Some((_, _, cpb, dpb, _)) = hrd { w.u(cpb as u32 + 1, r.next() & ((1u64 << (cpb + 1)) - 1)).u(dpb as u32 + 1, r.next() & ((1u64 << (dpb + 1)) - 1)); }
            if s.pic_struct_present {
                let ps = if r.below(10) == 0 { r.pick(&[9, 15]) } else if r.below(3) == 0 { r.pick(&[5, 6, 8]) } else { r.below(9) }; w.u(4, ps);
                let nts = [1, 1, 1, 2, 2, 3, 3, 2, 3, 0, 0, 0, 0, 0, 0, 0][ps as usize];
                let tol = hrd.map(|h| h.4).unwrap_or(24);
                let longest = r.below(5) == 0;   // every timestamp present, in the longest coding (no full_timestamp_flag, all three flags set)
                for _ in 0..nts {
                    let f = longest || r.below(4) != 0; w.b(f);
                    if f {
                        w.u(2, r.below(4)).b(r.flag()).u(5, r.below(32));
                        let full = !longest && r.flag(); w.b(full).b(r.flag()).b(r.flag()).u(8, r.below(256));
                        if full { w.u(6, r.below(64)).u(6, r.below(64)).u(5, r.below(32)); }
                        else if longest { w.b(true).u(6, r.below(64)).b(true).u(6, r.below(64)).b(true).u(5, r.below(32)); }
                        else { let sf = r.flag(); w.b(sf); if sf { w.u(6, r.below(64)); let mf = r.flag(); w.b(mf); if mf { w.u(6, r.below(64)); let hf = r.flag(); w.b(hf); if hf { w.u(5, r.below(32)); } } } }
                        if tol > 0 { let v = match r.below(4) { 0 => -(1i64 << (tol - 1)), 1 => (1i64 << (tol - 1)) - 1, 2 => -1, _ => (r.next() % (1u64 << tol)) as i64 - (1i64 << (tol - 1)) }; w.i(tol as u32, v); }
                    }
                }
            }
            let mut d = if w.bits.len() % 8 == 0 && r.flag() { w.bytes() } else { w.trail() };
            if r.below(8) == 0 { mutate(r, &mut d); }
            writeln!(out, "pt {} {}", hex(&sd), hex(&d)).unwrap(); count += 1;
            // buffering period
            if ok {
                let mut w = W::default(); w.ue(if r.below(10) == 0 { r.pick(&[5, 31, 32]) } else { s.id });
                for h in [s.nal_hrd, s.vcl_hrd].iter().flatten() { for _ in 0..=h.0 { let n = h.1 as u32 + 1; w.u(n, r.next() & ((1u64 << n) - 1)).u(n, r.next() & ((1u64 << n) - 1)); } }
                let mut d = if w.bits.len() % 8 == 0 && r.flag() { w.bytes() } else { w.trail() };
                if r.below(8) == 0 { mutate(r, &mut d); }
                writeln!(out, "bp {}", hex(&d)).unwrap(); count += 1;
            }
        }
        let mut t = vec![r.pick8(&[0, 0x71, 0xb5, 0xc4, 0xc5, 0xf1, 0xff, 0xfe])]; if r.flag() { t[0] = r.next() as u8; }
        for _ in 0..r.below(4) { t.push(r.next() as u8); }
        if r.below(10) == 0 { t.clear(); }
        writeln!(out, "t35 {}", hex(&t)).unwrap(); count += 1;
    }
}

/// exhaustive over the finite domains of C20: all header bytes, unit type ids, profile_idc, constraint flag bytes,
/// (flags, level_idc) pairs (all 2^16 when n >= 65536, else flags in {0, 16, 255, 0xEF} x all levels), id boundary values
/// minimal SPS over the product profile_idc x constraint flags x level_idc (named profiles and table levels three times in
/// four, any byte otherwise): what `profile()` / `level()` of a *parsed* SPS report
fn gen_spshdr(r: &mut Rng, out: &mut dyn Write) {
    let prof = if r.below(4) == 0 { r.next() as u8 } else { r.pick8(&[66, 77, 88, 100, 110, 122, 244, 44, 83, 86, 118, 128, 138, 139, 134, 135]) };
    let flags = r.next() as u8;
    let lvl = if r.below(4) == 0 { r.next() as u8 } else { r.pick8(&[9, 10, 11, 11, 12, 13, 20, 21, 22, 30, 31, 32, 40, 41, 42, 50, 51, 52, 60, 61, 62]) };
    let mut w = W::default(); w.u(8, prof as u64).u(8, flags as u64).u(8, lvl as u64).ue(r.below(3));
    if [100u8, 110, 122, 244, 44, 83, 86].contains(&prof) { w.ue(1).ue(0).ue(0).b(false).b(false); }
    w.ue(0).ue(2).ue(1).b(false).ue(r.below(20)).ue(r.below(20)).b(true).b(false).b(false).b(false);
    writeln!(out, "derived {}", hex(&w.trail())).unwrap();
}

/// the private tables swept through the parsers, as case lines (exhaustive): `tbl <name> <i>`
fn gen_tables(which: &str, out: &mut dyn Write) {
    let all: [(&str, u64, &str); 7] = [("chroma", 256, "C04"), ("aspect", 256, "C04"), ("vfmt", 8, "C04"), ("cfmt", 16, "C04"), ("slicetype", 64, "C06"), ("seitype", 512, "C10"), ("picstruct", 16, "C11")];
    for (name, n, p) in all { if which == "all" || which == p { for i in 0..n { writeln!(out, "tbl {} {}", name, i).unwrap(); } } }
    // T.35 country code: every first byte alone, and followed by every boundary second byte (ff ff = escape followed by extension byte ff)
    if which == "all" || which == "C11" {
        for b0 in 0..=255u32 { writeln!(out, "t35 {:02x}", b0).unwrap(); for b1 in [0u32, 1, 0x7f, 0x80, 0xb5, 0xfe, 0xff] { writeln!(out, "t35 {:02x}{:02x}a5", b0, b1).unwrap(); writeln!(out, "t35 {:02x}{:02x}", b0, b1).unwrap(); } }
        for b1 in 0..=255u32 { writeln!(out, "t35 ff{:02x}5a00", b1).unwrap(); }
    }
}

fn gen_enums(n: usize, out: &mut dyn Write) {
    for b in 0..=255u32 { writeln!(out, "hdr {}", b).unwrap(); writeln!(out, "unittype {}", b).unwrap(); writeln!(out, "profile {}", b).unwrap(); writeln!(out, "flags {}", b).unwrap(); }
    let fl: Vec<u32> = if n >= 65536 { (0..=255).collect() } else { vec![0, 16, 239, 255, 0x10 | 0x80, 8] };
    for f in fl { for l in 0..=255u32 { writeln!(out, "level {} {}", f, l).unwrap(); } }
    for v in [0u32, 1, 30, 31, 32, 33, 254, 255, 256, 257, 65535, 65536, u32::MAX - 1, u32::MAX] { writeln!(out, "spsid {}", v).unwrap(); writeln!(out, "ppsid {}", v).unwrap(); }
}
