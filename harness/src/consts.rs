//! Size dictionary mined from the *current* source of the library (the same working tree the harness is built
//! against): every integer literal of a source file, plus the value of `a << b` and `a * b` between adjacent literals.
//! Thresholds that a change introduces (block sizes, caps, counters' limits) are literals of the changed source, so
//! the generators aim lengths, counts and run sizes at them. Literals that are not in the committed baseline of the
//! pinned tree (`consts_baseline.txt`) are drawn with extra weight. The dictionary only steers the choice of sizes:
//! it can make a difference between model and implementation visible, it cannot create one.
use std::collections::BTreeSet;

fn strip(src: &str) -> String {
    // drop line / block comments and the contents of string literals
    let b = src.as_bytes(); let mut out = String::with_capacity(b.len()); let mut i = 0;
    while i < b.len() {
        if b[i] == b'/' && i + 1 < b.len() && b[i + 1] == b'/' { while i < b.len() && b[i] != b'\n' { i += 1; } }
        else if b[i] == b'/' && i + 1 < b.len() && b[i + 1] == b'*' { i += 2; while i + 1 < b.len() && !(b[i] == b'*' && b[i + 1] == b'/') { i += 1; } i += 2; }
        else if b[i] == b'"' { i += 1; while i < b.len() && b[i] != b'"' { if b[i] == b'\\' { i += 1; } i += 1; } i += 1; out.push(' '); }
        else { out.push(b[i] as char); i += 1; }
    }
    out
}

/// (value, end index) of an integer literal starting at `i`, if any
fn literal(b: &[u8], i: usize) -> Option<(u64, usize)> {
    if i >= b.len() || !b[i].is_ascii_digit() { return None; }
    if i > 0 && (b[i - 1].is_ascii_alphanumeric() || b[i - 1] == b'_' || b[i - 1] == b'.') { return None; }
    let (radix, mut j) = if b[i] == b'0' && i + 1 < b.len() && (b[i + 1] == b'x' || b[i + 1] == b'b' || b[i + 1] == b'o') { (match b[i + 1] { b'x' => 16, b'b' => 2, _ => 8 }, i + 2) } else { (10, i) };
    let mut v: u64 = 0; let mut any = false;
    while j < b.len() { let c = b[j]; if c == b'_' { j += 1; continue; } let d = (c as char).to_digit(radix); match d { Some(d) => { v = v.saturating_mul(radix as u64).saturating_add(d as u64); any = true; j += 1; } None => break } }
    if !any { return None; }
    if j < b.len() && b[j] == b'.' && j + 1 < b.len() && b[j + 1].is_ascii_digit() { return None; }   // a float
    // type suffix
    let mut k = j; while k < b.len() && (b[k].is_ascii_alphanumeric() || b[k] == b'_') { k += 1; }
    let suf = &b[j..k]; if !suf.is_empty() && !matches!(suf, b"u8" | b"u16" | b"u32" | b"u64" | b"usize" | b"i8" | b"i16" | b"i32" | b"i64" | b"isize") { return None; }
    Some((v, k))
}

pub fn mine(src: &str) -> BTreeSet<u64> {
    let s = strip(src); let b = s.as_bytes(); let mut out = BTreeSet::new(); let mut i = 0;
    let keep = |v: u64| v >= 2 && v <= 16_000_000;
    while i < b.len() {
        if let Some((v, e)) = literal(b, i) {
            if keep(v) { out.insert(v); }
            // literal OP literal
            let mut j = e; while j < b.len() && b[j] == b' ' { j += 1; }
            let op = if j + 1 < b.len() && b[j] == b'<' && b[j + 1] == b'<' { j += 2; Some('<') } else if j < b.len() && b[j] == b'*' { j += 1; Some('*') } else { None };
            if let Some(op) = op { while j < b.len() && b[j] == b' ' { j += 1; }
                if let Some((w, _)) = literal(b, j) { let r = match op { '<' => if w < 40 { v.checked_shl(w as u32) } else { None }, _ => v.checked_mul(w) }; if let Some(r) = r { if keep(r) { out.insert(r); } } } }
            i = e;
        } else { i += 1; }
    }
    out
}

/// source files (relative to `<repo>/src`) whose constants matter to a stream
pub fn files_of(stream: &str) -> &'static [&'static str] {
    match stream {
        "annexb" | "annexb-exh" => &["annexb.rs"],
        "acc" => &["push/mod.rs"],
        "rbsp" | "rbsp-exh" | "decodenal" | "bits" | "bits-exh" | "nalbits" => &["rbsp.rs"],
        "refnal" => &["nal/mod.rs"],
        "sei" | "seipayload" => &["nal/sei/mod.rs", "nal/sei/pic_timing.rs", "nal/sei/buffering_period.rs", "nal/sei/user_data_registered_itu_t_t35.rs"],
        "avcc" => &["avcc.rs", "lib.rs"],
        "stream" | "nal" => &["annexb.rs", "push/mod.rs", "rbsp.rs", "nal/mod.rs", "nal/sei/mod.rs"],
        "syntax" | "derived" | "spshdr" => &["nal/sps.rs", "nal/pps.rs", "nal/slice/mod.rs", "lib.rs"],
        "ctx" => &["lib.rs"],
        _ => &[],
    }
}

pub fn repo_src() -> String { std::env::var("H264_REPO").unwrap_or_else(|_| "/repo".to_string()) + "/src" }

/// (constants already in the pinned tree, constants new with respect to the baseline) for a stream
pub fn dictionary(stream: &str) -> (Vec<u64>, Vec<u64>) {
    let base_txt = include_str!("../consts_baseline.txt");
    let mut known: BTreeSet<u64> = BTreeSet::new(); let mut novel: BTreeSet<u64> = BTreeSet::new();
    for f in files_of(stream) {
        let baseline: BTreeSet<u64> = base_txt.lines().filter_map(|l| l.strip_prefix(&format!("{}:", f))).flat_map(|l| l.split_whitespace().filter_map(|t| t.parse().ok()).collect::<Vec<u64>>()).collect();
        if let Ok(src) = std::fs::read_to_string(format!("{}/{}", repo_src(), f)) {
            for v in mine(&src) { if baseline.contains(&v) { known.insert(v); } else { novel.insert(v); } }
        }
    }
    (known.into_iter().collect(), novel.into_iter().collect())
}

/// `h264harness consts`: the baseline text for the current tree (one line per file)
pub fn baseline_text() -> String {
    let files = ["annexb.rs", "push/mod.rs", "rbsp.rs", "nal/mod.rs", "nal/sei/mod.rs", "nal/sei/pic_timing.rs", "nal/sei/buffering_period.rs",
                 "nal/sei/user_data_registered_itu_t_t35.rs", "avcc.rs", "lib.rs", "nal/sps.rs", "nal/pps.rs", "nal/slice/mod.rs"];
    let mut s = String::new();
    for f in files { if let Ok(src) = std::fs::read_to_string(format!("{}/{}", repo_src(), f)) { s.push_str(&format!("{}: {}\n", f, mine(&src).iter().map(|v| v.to_string()).collect::<Vec<_>>().join(" "))); } }
    s
}
