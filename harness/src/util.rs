//! shared helpers: PRNG (every random choice derives from one xorshift64 state), hex, bit writer
pub struct Rng(pub u64);
impl Rng {
    pub fn seeded(seed: u64, stream: u64) -> Rng {
        let mut r = Rng(0x9E3779B97F4A7C15 ^ seed.wrapping_mul(0x2545F4914F6CDD1D) ^ stream.wrapping_mul(0xD6E8FEB86659FD93));
        if r.0 == 0 { r.0 = 1; }
        for _ in 0..4 { r.next(); }
        r
    }
    pub fn next(&mut self) -> u64 { let mut x = self.0; x ^= x << 13; x ^= x >> 7; x ^= x << 17; self.0 = x; x }
    pub fn below(&mut self, n: u64) -> u64 { self.next() % n }
    pub fn flag(&mut self) -> bool { self.next() & 1 == 1 }
    pub fn pick(&mut self, xs: &[u64]) -> u64 { xs[self.below(xs.len() as u64) as usize] }
    pub fn pick_str<'a>(&mut self, xs: &[&'a str]) -> &'a str { xs[self.below(xs.len() as u64) as usize] }
    pub fn pick8(&mut self, xs: &[u8]) -> u8 { xs[self.below(xs.len() as u64) as usize] }
}

pub fn hex(b: &[u8]) -> String { let mut s = String::with_capacity(b.len() * 2); for x in b { s.push_str(&format!("{:02x}", x)); } s }
/// hex bytes; `R<hh>x<n>.` inside a hex string stands for the byte `hh` repeated `n` (decimal) times (long runs stay short lines)
pub fn unhex(s: &str) -> Vec<u8> {
    let s = s.as_bytes(); let mut v = Vec::with_capacity(s.len() / 2);
    let h = |c: u8| -> u8 { match c { b'0'..=b'9' => c - b'0', b'a'..=b'f' => c - b'a' + 10, b'A'..=b'F' => c - b'A' + 10, _ => 0 } };
    let mut i = 0;
    while i + 1 < s.len() {
        if s[i] == b'R' && i + 4 < s.len() {
            let b = h(s[i + 1]) * 16 + h(s[i + 2]); let mut j = i + 4; let mut n = 0usize;
            while j < s.len() && s[j].is_ascii_digit() { n = n * 10 + (s[j] - b'0') as usize; j += 1; }
            v.extend(std::iter::repeat(b).take(n)); i = j + 1;
        } else { v.push(h(s[i]) * 16 + h(s[i + 1])); i += 2; }
    }
    v
}
/// hex with runs of 12 or more equal bytes written as `R<hh>x<n>.`
pub fn hex_rle(d: &[u8]) -> String {
    let mut s = String::with_capacity(d.len().min(4096) * 2); let mut i = 0;
    while i < d.len() { let mut j = i; while j < d.len() && d[j] == d[i] { j += 1; }
        if j - i >= 12 { s.push_str(&format!("R{:02x}x{}.", d[i], j - i)); } else { for b in &d[i..j] { s.push_str(&format!("{:02x}", b)); } } i = j; }
    s
}
/// number of input bytes a case line carries (hex digits / 2, runs expanded)
pub fn input_len(line: &str) -> usize {
    let s = line.as_bytes(); let mut i = 0; let mut digits = 0usize; let mut run = 0usize;
    while i < s.len() {
        if s[i] == b'R' && i + 4 < s.len() && s[i + 3] == b'x' { let mut j = i + 4; let mut n = 0usize; while j < s.len() && s[j].is_ascii_digit() { n = n * 10 + (s[j] - b'0') as usize; j += 1; } run += n; i = j + 1; }
        else { if s[i].is_ascii_hexdigit() { digits += 1; } i += 1; }
    }
    digits / 2 + run
}

/// MSB-first bit writer with the Exp-Golomb codes of clause 9.1
#[derive(Default, Clone)]
pub struct W { pub bits: Vec<bool>, /// narrowing-cast fault: the `alias.0`-th ue/se codeword of this structure is written with `alias.1` added to its
    /// code number (256·k, 65536·k: values a `u8`/`u16` cast maps back onto the intended one), or, with `alias.1 == 0`,
    /// with 256 extra leading zero bits; everything after it is generated for the intended value
    pub alias: Option<(usize, u64)>, pub ue_count: usize }
impl W {
    pub fn with_alias(r: &mut Rng) -> W {
        let mut w = W::default();
        if r.below(6) == 0 { w.alias = Some((r.below(28) as usize, r.pick(&[256, 256, 512, 768, 65536, 131072, 65536 + 256, 0, 1 << 16 << 8, 1u64 << 31]))); }
        w
    }
    pub fn u(&mut self, n: u32, v: u64) -> &mut Self { for i in (0..n).rev() { self.bits.push((v >> i) & 1 == 1); } self }
    pub fn b(&mut self, v: bool) -> &mut Self { self.bits.push(v); self }
    pub fn ue(&mut self, k: u64) -> &mut Self {
        let mut k = k;
        if let Some((at, add)) = self.alias { if at == self.ue_count { if add == 0 { for _ in 0..256 { self.bits.push(false); } } else if k + add <= (1u64 << 32) - 2 { k += add; } } }
        self.ue_count += 1;
        let m = k + 1; let n = 63 - m.leading_zeros(); for _ in 0..n { self.bits.push(false); } self.u(n + 1, m)
    }
    pub fn se(&mut self, v: i64) -> &mut Self { let k = if v > 0 { 2 * v - 1 } else { -2 * v }; self.ue(k as u64) }
    pub fn i(&mut self, n: u32, v: i64) -> &mut Self { let m = if n == 0 { 0 } else { (v as u64) & ((1u64 << n) - 1) }; self.u(n, m) }
    /// rbsp_trailing_bits
    pub fn trail(&mut self) -> Vec<u8> { self.bits.push(true); self.bytes() }
    pub fn trail_z(&mut self, rng: &mut Rng) -> Vec<u8> { let mut b = self.trail(); for _ in 0..rng.below(3) { if rng.below(4) == 0 { b.push(0); } } b }
    pub fn bytes(&self) -> Vec<u8> { let mut bits = self.bits.clone(); while bits.len() % 8 != 0 { bits.push(false); } bits.chunks(8).map(|c| c.iter().fold(0u8, |a, &b| (a << 1) | b as u8)).collect() }
}

/// escape an RBSP per 7.4.1.1 (independent of the library): insert 03 before a byte <= 3 after two zeros,
/// and after a trailing 00 00
pub fn escape(p: &[u8]) -> Vec<u8> {
    let mut out = Vec::with_capacity(p.len() + p.len() / 2 + 1); let mut z = 0;
    for &b in p { if z >= 2 && b <= 3 { out.push(3); z = 0; } out.push(b); if b == 0 { z += 1; } else { z = 0; } }
    if z >= 2 { out.push(3); }
    out
}
/// reference un-escaper: returns (payload delivered before the first forbidden sequence, valid)
pub fn unescape(d: &[u8]) -> (Vec<u8>, bool) {
    let mut out = Vec::with_capacity(d.len()); let mut z = 0usize; let mut i = 0;
    while i < d.len() {
        let b = d[i];
        if z >= 2 {
            if b == 0 { return (out, false); }
            if b == 3 {
                // emulation prevention byte: the next byte (if any) must be <= 3
                if i + 1 < d.len() && d[i + 1] > 3 { return (out, false); }
                z = 0; i += 1; continue;
            }
        }
        out.push(b); if b == 0 { z += 1; } else { z = 0; } i += 1;
    }
    (out, true)
}
